/-
C09 — timers never fire early; the loop never sleeps past the next expiry.

Property theorems only (helper lemmas: Lemmas/HeapInv.lean, HeapHist.lean, TimerArith.lean,
LoopInv.lean).  Models: Model/Heap.lean (include/tlist.h), Model/Timer.lean (tlist.h arithmetic,
lib/loop_timerlist.c, the timeout choice of lib/loop.c).  `Cfg.repaired` is the code with
fixes/D11-*.patch and fixes/D12-*.patch applied, `Cfg.original` the code before them; the
`…_refuted` theorems are the witnesses that the full statements are false for the original code.
-/
import QbVerif.Lemmas.HeapHist
import QbVerif.Lemmas.TimerArith
import QbVerif.Lemmas.LoopInv

namespace QbVerif.Props.C09
open QbVerif.Heap QbVerif.Timer

/-! ## 1. The timer heap (include/tlist.h), all sizes, all add/delete/expire histories

`Inv a` = heap order (`Ord`: every parent's expiry ≤ its children's, what
`timerlist_debug_is_valid_heap` checks) ∧ back-pointers (`BackOk`: `heap_entries[i]->heap_pos = i`)
∧ no timer stored twice.  `idKeys a` is the list of (timer id, expiry) pairs in array order; the
contents statements are permutation (= multiset) equalities. -/

/-- `timerlist_add` keeps the invariant and adds exactly the new timer. -/
theorem add_preserves_heap (h : Heap) (id key : Nat) (hi : Inv h.a) (hfresh : h.find? id = none) :
    Inv (h.add id key).a ∧ (idKeys (h.add id key).a).Perm ((id, key) :: idKeys h.a) := by
  rw [Heap.add_a]
  exact ⟨hi.addArr id key (find?_none_spec hfresh), idKeys_addArr h.a id key⟩

example : Inv Heap.init.a ∧ Heap.init.find? 7 = none := ⟨Inv.empty, rfl⟩

/-- `timerlist_heap_delete` of the timer at ANY index `j` (root, interior, last) keeps the
    invariant and removes exactly that timer: swap-with-last, shrink, then sift up or down by the
    three-way compare. -/
theorem delete_preserves_heap (a : Arr) (j : Nat) (hi : Inv a) (hj : j < a.size) :
    Inv (heapDelete a (get a j)) ∧
    (idKeys a).Perm (idKey (get a j) :: idKeys (heapDelete a (get a j))) ∧
    (heapDelete a (get a j)).size = a.size - 1 := by
  have hpos : (get a j).pos = j := hi.back j hj
  have h1 : (get a j).pos < a.size := by omega
  have h2 : get a (get a j).pos = get a j := by rw [hpos]
  exact ⟨hi.heapDelete _ h1 h2, idKeys_heapDelete a _ h1 h2, size_heapDelete _ _⟩

/-- the same through the caller's handle: `timerlist_del` of the timer with id `id`. -/
theorem delete_by_handle_preserves_heap (h : Heap) (id : Nat) (e : Entry) (hi : Inv h.a)
    (hf : h.find? id = some e) :
    Inv (h.del e).a ∧ (idKeys h.a).Perm ((id, e.key) :: idKeys (h.del e).a) := by
  obtain ⟨h1, h2, h3⟩ := find?_some_spec hi.back hf
  refine ⟨hi.heapDelete e h2 h3, ?_⟩
  have := idKeys_heapDelete h.a e h2 h3
  simpa [idKey, h1, Heap.del] using this

/-- non-vacuity: a heap with a timer in it, found through its id -/
example : ∃ (h : Heap) (id : Nat) (e : Entry), Inv h.a ∧ h.find? id = some e := by
  obtain ⟨hinv, hperm⟩ := add_preserves_heap Heap.init 3 50 Inv.empty rfl
  have hm : 3 ∈ (idKeys (Heap.init.add 3 50).a).map Prod.fst :=
    ((hperm.map Prod.fst).mem_iff).2 (by simp)
  have hs := (find?_isSome_iff hinv.back).2 hm
  obtain ⟨e, he⟩ := Option.isSome_iff_exists.1 hs
  exact ⟨_, 3, e, hinv, he⟩

/-- **Invariant for all histories**: after any sequence of add / delete (any timer) / expire
    operations the array is a heap, all back-pointers are right, no timer is stored twice. -/
theorem heap_invariant_all_histories (ops : List HOp) : Inv (Heap.run ops).a :=
  (run_refine ops).1

/-- `heap_pos` back-pointers are right after every history. -/
theorem backpointers_ok (ops : List HOp) (j : Nat) (hj : j < (Heap.run ops).a.size) :
    (get (Heap.run ops).a j).pos = j :=
  (heap_invariant_all_histories ops).back j hj

/-- the head of the heap is the earliest expiry, after every history. -/
theorem root_is_min (ops : List HOp) (j : Nat) (hj : j < (Heap.run ops).a.size) :
    (get (Heap.run ops).a 0).key ≤ (get (Heap.run ops).a j).key :=
  root_le (heap_invariant_all_histories ops).ord j hj

/-- **Multiset preservation for all histories**: the heap holds exactly the timers that were
    added and neither deleted nor expired (the list specification `specRun`). -/
theorem contents_all_histories (ops : List HOp) : (idKeys (Heap.run ops).a).Perm (specRun ops) :=
  (run_refine ops).2

/-- **Expiry order** (corollary): after any history, `timerlist_expire` at clock `now` fires
    exactly the pending timers whose expiry is `< now` — none that is not due, none of the due
    ones left behind — in non-decreasing order of expiry. -/
theorem expire_order (ops : List HOp) (now : Nat) :
    (((Heap.run ops).expire now).2.map idKey).Perm (specDue (specRun ops) now) ∧
    ((Heap.run ops).expire now).2.Pairwise (fun x y => x.key ≤ y.key) ∧
    (∀ e ∈ ((Heap.run ops).expire now).2, e.key < now) ∧
    (∀ x ∈ idKeys ((Heap.run ops).expire now).1.a, ¬ x.2 < now) := by
  obtain ⟨hi, hp⟩ := run_refine ops
  obtain ⟨h1, h2⟩ := expire_refine (Heap.run ops) (specRun ops) now hi hp
  obtain ⟨_, _, i3, i4, _⟩ := expireLoop_spec (Heap.run ops).a.size (Heap.run ops).a now hi (Nat.le_refl _)
  exact ⟨h1, h2, i3, i4⟩

/-- `timerlist_debug_is_valid_heap` returns 1 after every history. -/
theorem debug_is_valid_heap_all_histories (ops : List HOp) : (Heap.run ops).isValid = true := by
  have ho := (heap_invariant_all_histories ops).ord
  unfold Heap.isValid
  rw [List.all_eq_true]
  intro i hi
  have key : ∀ c, 0 < c → parent c = i → c < (Heap.run ops).a.size →
      ¬ cmp (get (Heap.run ops).a c) (get (Heap.run ops).a i) < 0 := by
    intro c hc0 hp hc hlt
    have h1 := ho c hc0 hc
    rw [hp] at h1
    have h2 := (cmp_lt_zero _ _).1 hlt
    unfold keyAt at h1; omega
  have hl := key (left i) (by unfold left; omega) (by unfold parent left; omega)
  have hr := key (right i) (by unfold right; omega) (by unfold parent right; omega)
  by_cases h1 : left i < (Heap.run ops).a.size <;> by_cases h2 : right i < (Heap.run ops).a.size <;>
    simp [h1, h2, hl, hr]

/-- growth of the array as observed on the real code by tools/extract.py (regenerated constants):
    `allocated` after 0, 1, 3, 7 adds. -/
theorem test_alloc_growth_matches_code :
    Heap.init.allocated = Gen.TL_ALLOC_AFTER_0 ∧
    (Heap.init.add 0 0).allocated = Gen.TL_ALLOC_AFTER_1 ∧
    (((Heap.init.add 0 0).add 1 0).add 2 0).allocated = Gen.TL_ALLOC_AFTER_3 ∧
    (((((((Heap.init.add 0 0).add 1 0).add 2 0).add 3 0).add 4 0).add 5 0).add 6 0).allocated
      = Gen.TL_ALLOC_AFTER_7 := by
  simp [Heap.add, Heap.init, Gen.TL_ALLOC_AFTER_0, Gen.TL_ALLOC_AFTER_1, Gen.TL_ALLOC_AFTER_3,
    Gen.TL_ALLOC_AFTER_7, size_siftUp]

/-- the constants the arithmetic theorems are stated with are the ones of the code -/
theorem test_constants_match_code :
    Gen.QB_TIME_NS_IN_MSEC = 1000000 ∧ Gen.LOOP_LOW = 0 ∧ Gen.LOOP_MED = 1 ∧ Gen.LOOP_HIGH = 2 ∧
    Gen.SIZEOF_EXPIRE_TIME = 8 := by decide

/-- the `realloc`ed array always covers `size` (growth `(allocated + 1) * 2`). -/
theorem array_never_overflows (ops : List HOp) : (Heap.run ops).a.size ≤ (Heap.run ops).allocated :=
  run_allocated ops

/-- a timer fired by `expire now` was added with exactly the expiry it is fired for, and that
    expiry is `< now`. -/
theorem fired_was_added_and_due (ops : List HOp) (now : Nat) (e : Entry)
    (he : e ∈ ((Heap.run ops).expire now).2) : HOp.add e.id e.key ∈ ops ∧ e.key < now := by
  obtain ⟨h1, _, h3, _⟩ := expire_order ops now
  refine ⟨?_, h3 e he⟩
  have hm : idKey e ∈ specDue (specRun ops) now := (h1.mem_iff).1 (List.mem_map_of_mem he)
  exact mem_specRun_add ops (idKey e) (List.mem_filter.1 hm).1

/-! ## 2. Never early: `now + duration` in `uint64_t` (D12) -/

/-- **No early fire, every duration** (repaired `timerlist_add_duration`): a timer added at clock
    `now0` with duration `d` — any 64-bit values — satisfies the expiry test `expire_time < now`
    only when `d` has really elapsed (arithmetic over ℕ, no wrap-around). -/
theorem no_early_fire (now0 d now : UInt64) (hfire : addDuration Cfg.repaired now0 d < now) :
    now0.toNat + d.toNat < now.toNat := by
  have h := UInt64.lt_iff_toNat_lt.1 hfire
  rw [addDuration_repaired_toNat] at h
  have := now.toNat_lt
  omega

/-- the original code: only for durations that do not wrap. -/
theorem no_early_fire_partial (now0 d now : UInt64) (hnowrap : now0.toNat + d.toNat < 2^64)
    (hfire : addDuration Cfg.original now0 d < now) : now0.toNat + d.toNat < now.toNat := by
  have h := UInt64.lt_iff_toNat_lt.1 hfire
  rw [addDuration_original_toNat, Nat.mod_eq_of_lt hnowrap] at h
  exact h

example : (1000 : UInt64).toNat + (5 : UInt64).toNat < 2^64 := by decide

/-- **Refutation witness (D12)**: with the original code a timer added at clock 1000 with
    duration 2^64 − 1 ns passes the expiry test at clock 1000 — it fires immediately. -/
theorem no_early_fire_original_refuted :
    ∃ now0 d now : UInt64, addDuration Cfg.original now0 d < now ∧ ¬ (now0.toNat + d.toNat < now.toNat) :=
  ⟨1000, 0xFFFFFFFFFFFFFFFF, 1000, by decide⟩

/-- heap + arithmetic: in every history of the heap, a timer fired at clock `now` whose expiry
    was computed by the repaired `timerlist_add_duration(now0, d)` has run its full duration. -/
theorem no_early_fire_history (ops : List HOp) (now : UInt64) (e : Entry)
    (he : e ∈ ((Heap.run ops).expire now.toNat).2) :
    HOp.add e.id e.key ∈ ops ∧
    ∀ now0 d : UInt64, e.key = (addDuration Cfg.repaired now0 d).toNat → now0.toNat + d.toNat < now.toNat := by
  obtain ⟨h1, h2⟩ := fired_was_added_and_due ops now.toNat e he
  refine ⟨h1, fun now0 d hk => ?_⟩
  apply no_early_fire
  rw [UInt64.lt_iff_toNat_lt, ← hk]; exact h2

/-! ## 3. Never late, never for ever: the poll timeout (D11) -/

/-- **The timeout is never negative/infinite while a timer is pending** (repaired
    `qb_loop_timer_msec_duration_to_expire`), for every expiry, clock value and clock resolution:
    the value converted to `int32_t` is `≥ 0`. -/
theorem timeout_never_infinite_with_timer (e now : UInt64) (hz : Nat) :
    0 ≤ (loopMsecDurationToExpire Cfg.repaired (msecDurationToExpire (some e) now hz)).toInt := by
  rw [loopMsec_repaired_toInt _ (msec_some_ne_max e now hz)]
  exact Int.natCast_nonneg _

/-- **Refutation witness (D11)**: original code, timer 2^31 ms away: `epoll_wait` gets −2^31. -/
theorem timeout_never_infinite_original_refuted :
    ∃ (e now : UInt64) (hz : Nat),
      (loopMsecDurationToExpire Cfg.original (msecDurationToExpire (some e) now hz)).toInt < 0 :=
  ⟨2147483648000000, 0, 1000000000, by decide⟩

/-- second witness: 2^32 ms − 1 ns away gives exactly −1 (the "no timer" value). -/
theorem timeout_original_minus_one :
    loopMsecDurationToExpire Cfg.original (msecDurationToExpire (some 4294967295999999) 0 1000000000) = -1 := by
  decide

/-- **The timeout never sleeps past the earliest expiry plus one tick** (repaired code): with `t`
    the `int32_t` timeout for a heap whose head expires at `e`, read at clock `now`:
    `t = 0` if the head is already due, otherwise `now + t ms ≤ e + (1000 / hz) ms`; and
    `t` is exactly `(e − now) / 10^6 + 1000 / hz` whenever that fits in 31 bits (no needless
    early wake-ups), else `INT32_MAX`. -/
theorem timeout_never_late (e now : UInt64) (hz : Nat) :
    let t := (loopMsecDurationToExpire Cfg.repaired (msecDurationToExpire (some e) now hz)).toInt
    (e < now → t = 0) ∧
    (¬ e < now → (now.toNat : Int) + t * 1000000 ≤ (e.toNat : Int) + ((1000 / hz : Nat) : Int) * 1000000) ∧
    (¬ e < now → t = (min ((e.toNat - now.toNat) / 1000000 + 1000 / hz) (2^31 - 1) : Nat)) := by
  simp only
  rw [loopMsec_repaired_toInt _ (msec_some_ne_max e now hz), msec_some_toNat]
  refine ⟨fun h => ?_, fun h => ?_, fun h => ?_⟩
  · have := UInt64.lt_iff_toNat_lt.1 h
    simp [this]
  · have h' : ¬ e.toNat < now.toNat := fun hlt => h (UInt64.lt_iff_toNat_lt.2 hlt)
    simp only [h', if_false]
    generalize 1000 / hz = tick
    have hq : (e.toNat - now.toNat) / 1000000 * 1000000 ≤ e.toNat - now.toNat := Nat.div_mul_le_self _ _
    generalize (e.toNat - now.toNat) / 1000000 = q at *
    have : min (q + tick) (2^31 - 1) ≤ q + tick := Nat.min_le_left _ _
    generalize min (q + tick) (2^31 - 1) = m at *
    omega
  · have h' : ¬ e.toNat < now.toNat := fun hlt => h (UInt64.lt_iff_toNat_lt.2 hlt)
    simp [h']

/-- **The timeout choice of `qb_loop_run`** (repaired code) with a timer pending (head expiry
    `e`): never negative; 0 when work is pending; otherwise the wake-up is no later than `e` plus
    the slack — one tick, or the 50 ms job throttle when only new jobs are pending (in which case
    the timer source has just been polled, so the head is not yet due: `hpolled`). -/
theorem choose_timeout_sound (rem tt jt : Nat) (e now : UInt64) (hz : Nat)
    (hpolled : tt = 0 → ¬ e < now) :
    let t := (chooseTimeout Cfg.repaired rem tt jt (some e) now hz).toInt
    0 ≤ t ∧ ((rem > 0 ∨ tt > 0) → t = 0) ∧
    (t = 0 ∨ (now.toNat : Int) + t * 1000000 ≤ (e.toNat : Int) + ((max (1000 / hz) 50 : Nat) : Int) * 1000000) := by
  simp only
  unfold chooseTimeout
  by_cases h1 : rem > 0 ∨ tt > 0
  · simp only [h1, if_true]
    refine ⟨by decide, fun _ => by decide, Or.inl (by decide)⟩
  · simp only [h1, if_false]
    have htt : tt = 0 := by omega
    have hnd := hpolled htt
    have hnd' : ¬ e.toNat < now.toNat := fun hlt => hnd (UInt64.lt_iff_toNat_lt.2 hlt)
    by_cases h2 : jt > 0
    · simp only [h2, if_true]
      refine ⟨by decide, fun h => h.elim, Or.inr ?_⟩
      have h50 : (JOB_THROTTLE_MS).toInt = 50 := by decide
      rw [h50]
      have : 50 ≤ max (1000 / hz) 50 := Nat.le_max_right _ _
      generalize max (1000 / hz) 50 = s at *
      omega
    · simp only [h2, if_false]
      obtain ⟨_, l2, _⟩ := timeout_never_late e now hz
      refine ⟨timeout_never_infinite_with_timer e now hz, fun h => h.elim, Or.inr ?_⟩
      have l2' := l2 hnd
      have : 1000 / hz ≤ max (1000 / hz) 50 := Nat.le_max_left _ _
      generalize 1000 / hz = tick at *
      generalize max tick 50 = s at *
      generalize (loopMsecDurationToExpire Cfg.repaired (msecDurationToExpire (some e) now hz)).toInt = t at *
      omega

example : ∃ (tt : Nat) (e now : UInt64), (tt = 0 → ¬ e < now) := ⟨0, 5, 3, fun _ => by decide⟩

/-- with no timer pending and no work the loop blocks indefinitely (−1), both variants. -/
theorem choose_timeout_idle (c : Cfg) (now : UInt64) (hz : Nat) :
    chooseTimeout c 0 0 0 none now hz = -1 := by
  simp [chooseTimeout, msec_none, loopMsec_max]

/-! ## 4. The loop under a virtual clock: all histories of timer_add / timer_del / job_add /
advance / iterate (Model/Timer.lean `Loop.run`)

`ClockOk l ops`: the virtual CLOCK_MONOTONIC does not wrap around 2^64 ns during the run (584 years).
`runLog l [] ops`: ghost list of `(id, clock value, duration)` of every successful
`qb_loop_timer_add` of the run.  `LInv` (Lemmas/LoopInv.lean) is the invariant proved by induction
over the history. -/

/-- the loop invariant holds after every history (both code variants). -/
theorem loop_invariant_all_histories (c : Cfg) (hz : Nat) (now0 : UInt64) (ops : List LOp)
    (hclock : ClockOk (Loop.init c hz now0) ops) :
    LInv ((Loop.init c hz now0).run ops).1 (runLog (Loop.init c hz now0) [] ops) :=
  ((LInv.init c hz now0).run ops hclock).1

/-- **End-to-end "never early"** (repaired code): in every history, every timer callback that the
    loop dispatches at virtual time `t` belongs to a timer that was added at some clock value `a`
    with a duration `d` such that `a + d < t` over ℕ — for every 64-bit duration. -/
theorem loop_no_early_fire (hz : Nat) (now0 : UInt64) (ops : List LOp)
    (hclock : ClockOk (Loop.init Cfg.repaired hz now0) ops)
    (o : Out) (ho : o ∈ ((Loop.init Cfg.repaired hz now0).run ops).2)
    (id : Nat) (t : UInt64) (hev : Ev.timerCb id t ∈ o.evs) :
    ∃ a d, (id, a, d) ∈ runLog (Loop.init Cfg.repaired hz now0) [] ops ∧ a.toNat + d.toNat < t.toNat := by
  obtain ⟨_, h2, _⟩ := (LInv.init Cfg.repaired hz now0).run ops hclock
  obtain ⟨a, d, hl, hd⟩ := h2 o ho id t hev
  refine ⟨a, d, hl, ?_⟩
  apply no_early_fire
  rw [UInt64.lt_iff_toNat_lt]; exact hd

/-- the original code: only if no logged `clock + duration` wraps (`hnowrap`). -/
theorem loop_no_early_fire_partial (hz : Nat) (now0 : UInt64) (ops : List LOp)
    (hclock : ClockOk (Loop.init Cfg.original hz now0) ops)
    (hnowrap : ∀ x ∈ runLog (Loop.init Cfg.original hz now0) [] ops, x.2.1.toNat + x.2.2.toNat < 2^64)
    (o : Out) (ho : o ∈ ((Loop.init Cfg.original hz now0).run ops).2)
    (id : Nat) (t : UInt64) (hev : Ev.timerCb id t ∈ o.evs) :
    ∃ a d, (id, a, d) ∈ runLog (Loop.init Cfg.original hz now0) [] ops ∧ a.toNat + d.toNat < t.toNat := by
  obtain ⟨_, h2, _⟩ := (LInv.init Cfg.original hz now0).run ops hclock
  obtain ⟨a, d, hl, hd⟩ := h2 o ho id t hev
  refine ⟨a, d, hl, ?_⟩
  apply no_early_fire_partial a d t (hnowrap _ hl)
  rw [UInt64.lt_iff_toNat_lt]; exact hd

example : ∃ (l : Loop) (log : Log), LInv l log ∧ l.cfg = Cfg.repaired :=
  ⟨_, _, LInv.init Cfg.repaired 100 5000, rfl⟩

example : ClockOk (Loop.init Cfg.repaired 100 5000) [.advance 10, .timerAdd 1 3000000 1, .timerDel 1] :=
  ⟨(by show (5000 : UInt64).toNat + (10 : UInt64).toNat < 2^64; decide), trivial, trivial, trivial⟩

/-- **The timeout of every `epoll_wait` issued while a timer is pending** (repaired code), in any
    state satisfying the loop invariant: for every timer `x` still in the heap when the loop calls
    `epoll_wait(t)`: `0 ≤ t` (never −1 / negative), and `t = 0` or the wake-up time `now + t ms` is
    no later than `x`'s expiry plus the slack (one clock tick `1000/hz` ms, or the 50 ms job
    throttle). -/
theorem loop_timeout_sound {l : Loop} {log : Log} (h : LInv l log) (hcfg : l.cfg = Cfg.repaired)
    (wake : Option UInt64) (hc : ClockOkStep l (.iterate wake)) :
    ∀ x ∈ idKeys (l.iterate wake).1.heap.a,
      0 ≤ (l.iterate wake).2.2.toInt ∧
      ((l.iterate wake).2.2.toInt = 0 ∨
        ((l.iterate wake).1.now.toNat : Int) + (l.iterate wake).2.2.toInt * 1000000
          ≤ (x.2 : Int) + ((max (1000 / l.hz) 50 : Nat) : Int) * 1000000) := by
  obtain ⟨_, _, _, _, _, l1, hl1, hc1, hz1, e1, e2⟩ := h.iterate wake hc
  rw [e1, e2]
  obtain ⟨t1, t2, _, _, _, _, rem, tt, jt, hpolled, hch⟩ := hl1.top
  intro x hx
  -- the head of the heap: not later than x, not due, a 64-bit value
  have hsz : 0 < l1.top.1.heap.a.size := by
    obtain ⟨j, hj, _⟩ := (mem_idKeys_iff _ _).1 hx; omega
  have hroot : l1.top.1.root = some (UInt64.ofNat (get l1.top.1.heap.a 0).key) := by
    unfold Loop.root Heap.rootKey?
    simp [Nat.ne_of_gt hsz]
  have hrmem : idKey (get l1.top.1.heap.a 0) ∈ idKeys l1.top.1.heap.a :=
    (mem_idKeys_iff _ _).2 ⟨0, hsz, rfl⟩
  have hrlt : (get l1.top.1.heap.a 0).key < 2^64 := t1.key_lt _ hrmem
  have hrle : (get l1.top.1.heap.a 0).key ≤ x.2 := root_le_of_mem t1.heap.ord x hx
  have hrt := ofNat_toNat_of_lt _ hrlt
  have hnd : tt = 0 → ¬ UInt64.ofNat (get l1.top.1.heap.a 0).key < l1.now := by
    intro h0 hlt
    have := UInt64.lt_iff_toNat_lt.1 hlt
    rw [hrt] at this
    exact hpolled h0 _ hrmem this
  rw [hch, hroot, hc1, hcfg, t2, hz1]
  obtain ⟨c1, _, c3⟩ := choose_timeout_sound rem tt jt (UInt64.ofNat (get l1.top.1.heap.a 0).key) l1.now l.hz hnd
  refine ⟨c1, ?_⟩
  rcases c3 with c3 | c3
  · exact Or.inl c3
  · right
    rw [hrt] at c3
    omega

/-- the same for every state reachable by a history from a fresh loop. -/
theorem timeout_sound_all_histories (hz : Nat) (now0 : UInt64) (ops : List LOp) (wake : Option UInt64)
    (hclock : ClockOk (Loop.init Cfg.repaired hz now0) ops)
    (hc : ClockOkStep ((Loop.init Cfg.repaired hz now0).run ops).1 (.iterate wake)) :
    ∀ x ∈ idKeys (((Loop.init Cfg.repaired hz now0).run ops).1.iterate wake).1.heap.a,
      0 ≤ (((Loop.init Cfg.repaired hz now0).run ops).1.iterate wake).2.2.toInt ∧
      ((((Loop.init Cfg.repaired hz now0).run ops).1.iterate wake).2.2.toInt = 0 ∨
        ((((Loop.init Cfg.repaired hz now0).run ops).1.iterate wake).1.now.toNat : Int)
          + (((Loop.init Cfg.repaired hz now0).run ops).1.iterate wake).2.2.toInt * 1000000
          ≤ (x.2 : Int) + ((max (1000 / ((Loop.init Cfg.repaired hz now0).run ops).1.hz) 50 : Nat) : Int) * 1000000) := by
  obtain ⟨h1, _, h3⟩ := (LInv.init Cfg.repaired hz now0).run ops hclock
  exact loop_timeout_sound h1 h3 wake hc

/-- **`expire_time_remaining` / `is_running` agree with "pending"**, in every reachable state (any
    state satisfying the loop invariant): for a timer that is not in the heap (never added,
    deleted, or already moved to the job list / dispatched) both are zero; for a timer in the heap
    with expiry `k`: `remaining = k − now` (truncated at 0, i.e. non-zero exactly while
    `now < k`) and `is_running ≠ 0` iff `k ≠ 0`. -/
theorem remaining_running_agree {l : Loop} {log : Log} (h : LInv l log) (id : Nat) :
    (id ∉ l.heapIds → l.remaining id = 0 ∧ l.isRunning id = false) ∧
    (∀ k, (id, k) ∈ idKeys l.heap.a →
      (l.remaining id).toNat = k - l.now.toNat ∧ (l.isRunning id = true ↔ k ≠ 0)) := by
  obtain ⟨q1, q2⟩ := h.queries id
  exact ⟨fun hn => ⟨(q1 hn).1, (q1 hn).2.1⟩, fun k hk => ⟨(q2 k hk).1, (q2 k hk).2.1⟩⟩

/-- with the repaired saturating add the stored expiry of a pending timer is `0` only if it was
    added at clock 0 with duration 0; hence `is_running` is non-zero exactly while the timer is
    pending whenever the clock was non-zero at add time (CLOCK_MONOTONIC never is 0 after boot). -/
theorem running_iff_pending {l : Loop} {log : Log} (h : LInv l log) (hcfg : l.cfg = Cfg.repaired)
    (hclk : ∀ x ∈ log, x.2.1 ≠ 0 ∨ x.2.2 ≠ 0) (id : Nat) :
    (l.isRunning id = true ↔ id ∈ l.heapIds) ∧
    (l.remaining id ≠ 0 → l.isRunning id = true) := by
  obtain ⟨q1, q2⟩ := h.queries id
  have hkey : ∀ k, (id, k) ∈ idKeys l.heap.a → k ≠ 0 := by
    intro k hk
    obtain ⟨a, d, g1, g2⟩ := h.g_heap _ hk
    simp only at g2
    rw [hcfg, addDuration_repaired_toNat] at g2
    have := hclk _ g1
    simp only at this
    have ha : a.toNat ≠ 0 ∨ d.toNat ≠ 0 := by
      rcases this with h' | h'
      · left; intro h0; apply h'; exact UInt64.toNat_inj.1 (by simpa using h0)
      · right; intro h0; apply h'; exact UInt64.toNat_inj.1 (by simpa using h0)
    omega
  have hiff : l.isRunning id = true ↔ id ∈ l.heapIds := by
    constructor
    · intro hr
      apply Classical.byContradiction
      intro hn
      have := (q1 hn).2.1
      rw [this] at hr; cases hr
    · intro hin
      obtain ⟨x, hx, hx1⟩ := List.mem_map.1 hin
      have hx' : (id, x.2) ∈ idKeys l.heap.a := by rw [← hx1]; exact hx
      exact ((q2 _ hx').2.1).2 (hkey _ hx')
  refine ⟨hiff, fun hrem => ?_⟩
  apply hiff.2
  apply Classical.byContradiction
  intro hn
  exact hrem (q1 hn).1

/-- reachable form: after every history from a fresh loop. -/
theorem remaining_running_agree_all_histories (c : Cfg) (hz : Nat) (now0 : UInt64) (ops : List LOp)
    (hclock : ClockOk (Loop.init c hz now0) ops) (id : Nat) :
    let l := ((Loop.init c hz now0).run ops).1
    (id ∉ l.heapIds → l.remaining id = 0 ∧ l.isRunning id = false) ∧
    (∀ k, (id, k) ∈ idKeys l.heap.a →
      (l.remaining id).toNat = k - l.now.toNat ∧ (l.isRunning id = true ↔ k ≠ 0)) :=
  remaining_running_agree (loop_invariant_all_histories c hz now0 ops hclock) id

/-- a timer is QB_POLL_ENTRY_ACTIVE exactly while it is in the heap, in every reachable state. -/
theorem active_iff_in_heap (c : Cfg) (hz : Nat) (now0 : UInt64) (ops : List LOp)
    (hclock : ClockOk (Loop.init c hz now0) ops) (t : TimerRec)
    (ht : t ∈ ((Loop.init c hz now0).run ops).1.timers) :
    t.state = .active ↔ t.id ∈ ((Loop.init c hz now0).run ops).1.heapIds := by
  have := (loop_invariant_all_histories c hz now0 ops hclock).active_iff t ht
  simpa using this

end QbVerif.Props.C09
