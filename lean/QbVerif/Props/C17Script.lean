/-
C17, traversals whose callback operates on the map (`foreachs STOP SCRIPT [PREFIX]`,
Model/MapScript.lean): the "find the entry, remove it, stop" callback, removal and re-insertion of
the entry the traversal is positioned on, insertions and removals of other keys and lookups from
inside the callback.

* `foreachs_is_history` (every implementation model and the dictionary, every script, every state):
  the scripted traversal is EXACTLY a run of the model on a history of the iterator language of C18 —
  `iter_new`, then `iter_next` / the scripted operations of that callback, …, `iter_free` — which is what
  `qb_map_foreach` of lib/map.c is.  `runX_is_history`: the same for whole cases mixing plain
  operations and scripted traversals.
* Hashtable: through it every all-history theorem of C18 applies to cases with scripted traversals
  (`ht_scripted_*` below): no freed node is dereferenced; every result of an operation performed by a
  callback (get / rm / put / count), and of every operation after the traversal, is the dictionary's;
  a traversal that runs to the end has shown every key present throughout, none twice unless a key was
  inserted; once no iterator is open the table is again the dictionary of the whole flattened
  history, results and notification trace.

`_partial`: what is NOT proved here is the notification clause DURING a scripted traversal (the
DELETED/FREE of an entry removed while the traversal is positioned on it is delivered exactly once,
at the latest by `iter_free`): the theorems give the trace only from the moment the iterators are gone
(`ht_scripted_then_dict_partial`); during the traversal it is compared exactly with the real code and
judged by the python oracle on every run.  Skiplist and trie: `foreachs_is_history` only (their C18
history theorems are `_partial`, outside the classes K_C18_sl / K_C18_trie_split).
-/
import QbVerif.Model.MapScript
import QbVerif.Props.C18
import QbVerif.Props.C18Hist

namespace QbVerif.Map

section
variable {σ : Type} (step : σ → Op → σ × Out)

/-- `h` is the transcript of the model run from `s` on the operations of `h`, ending in `s'` -/
def IsRun (s : σ) (h : Hist) (s' : σ) : Prop :=
  runFrom step s (h.map (·.1)) = (s', h.map (·.2))

theorem runFrom_append (s : σ) (a b : List Op) :
    runFrom step s (a ++ b) =
      ((runFrom step (runFrom step s a).1 b).1, (runFrom step s a).2 ++ (runFrom step (runFrom step s a).1 b).2) := by
  induction a generalizing s with
  | nil => simp [runFrom]
  | cons o os ih => simp [runFrom, ih]

theorem IsRun.nil (s : σ) : IsRun step s [] s := rfl

theorem IsRun.append {s s1 s2 : σ} {h1 h2 : Hist} (a : IsRun step s h1 s1) (b : IsRun step s1 h2 s2) :
    IsRun step s (h1 ++ h2) s2 := by
  unfold IsRun at *
  rw [List.map_append, List.map_append, runFrom_append, a]
  simp [b]

theorem IsRun.one (s : σ) (op : Op) : IsRun step s [(op, (step s op).2)] (step s op).1 := by
  simp [IsRun, runFrom]

theorem IsRun.snoc {s s' : σ} {h : Hist} (a : IsRun step s h s') (op : Op) :
    IsRun step s (h ++ [(op, (step s' op).2)]) (step s' op).1 :=
  a.append step (IsRun.one step s' op)

theorem runInner_isRun {s0 : σ} (shown : Key) :
    ∀ (os : List SOp) (s : σ) (h : Hist) (rs : List Res), IsRun step s0 h s →
      IsRun step s0 (runInner step shown os s h rs).2.1 (runInner step shown os s h rs).1
  | [], _, _, _, hr => hr
  | o :: os, s, h, rs, hr => by
    unfold runInner
    exact runInner_isRun shown os _ _ _ (hr.snoc step (o.inst shown))

theorem foreachsLoop_isRun {s0 : σ} (stop : Nat) (sc : Script) :
    ∀ (fuel : Nat) (s : σ) (n : Nat) (h : Hist) (vis : List Visit), IsRun step s0 h s →
      IsRun step s0 (foreachsLoop step stop sc fuel s n h vis).2.1 (foreachsLoop step stop sc fuel s n h vis).1
  | 0, _, _, _, _, hr => hr
  | fuel + 1, s, n, h, vis, hr => by
    have h1 := hr.snoc step (.iterNext scriptIter)
    unfold foreachsLoop
    simp only []
    split
    · split
      · exact runInner_isRun step _ _ _ _ _ h1
      · exact foreachsLoop_isRun stop sc fuel _ _ _ _ (runInner_isRun step _ _ _ _ _ h1)
    · exact h1
    · exact h1

/-- **The scripted traversal is a history of the iterator language**: for every model `step`, every
    state, script, stop number, prefix and fuel, the operations `foreachsH` reports (`iter_new`,
    `iter_next`, the scripted operations with the shown key filled in, `iter_free`) run from the same
    state by the model's own `step` give exactly its final state and outputs. -/
theorem foreachs_is_history (fuel : Nat) (s : σ) (stop : Nat) (pfx : Option Key) (sc : Script) :
    IsRun step s (foreachsH step fuel s stop pfx sc).2.1 (foreachsH step fuel s stop pfx sc).1 := by
  have h0 := IsRun.one step s (.iterNew scriptIter pfx)
  have hl := foreachsLoop_isRun step stop sc fuel _ 0 _ [] h0
  unfold foreachsH
  simp only []
  split
  · split
    · split
      · exact hl.snoc step (.iterFree scriptIter)
      · exact hl.snoc step (.iterFree scriptIter)
    · split
      · exact hl.snoc step (.iterFree scriptIter)
      · exact hl.snoc step (.iterFree scriptIter)
    · exact hl
  · exact h0

/-- the operation language of the check: plain operations and scripted traversals -/
inductive XOp where
  | op (o : Op)
  | foreachs (stop : Nat) (pfx : Option Key) (sc : Script)

/-- a whole case: final state and the flattened history (what the driver `qb_map` executes) -/
def runX (fuel : Nat) : σ → List XOp → σ × Hist
  | s, [] => (s, [])
  | s, .op o :: xs =>
    let r := step s o
    let q := runX fuel r.1 xs
    (q.1, (o, r.2) :: q.2)
  | s, .foreachs stop pfx sc :: xs =>
    let r := foreachsH step fuel s stop pfx sc
    let q := runX fuel r.1 xs
    (q.1, r.2.1 ++ q.2)

theorem runX_is_history (fuel : Nat) : ∀ (s : σ) (xs : List XOp),
    IsRun step s (runX step fuel s xs).2 (runX step fuel s xs).1
  | s, [] => IsRun.nil step s
  | s, .op o :: xs => by
    unfold runX
    exact (IsRun.one step s o).append step (runX_is_history fuel _ xs)
  | s, .foreachs stop pfx sc :: xs => by
    unfold runX
    exact (foreachs_is_history step fuel s stop pfx sc).append step (runX_is_history fuel _ xs)

end

end QbVerif.Map

namespace QbVerif.Hashtable
open QbVerif.Map

/-- a case with scripted traversals on the hashtable model (repaired code) -/
def runS (fuel size : Nat) (xs : List XOp) : HT × Hist := runX HT.step fuel (create true true size) xs

/-- the flattened history of a case -/
def opsS (fuel size : Nat) (xs : List XOp) : List Op := (runS fuel size xs).2.map (·.1)

theorem runS_eq_run (fuel size : Nat) (xs : List XOp) :
    run size (opsS fuel size xs) = ((runS fuel size xs).1, (runS fuel size xs).2.map (·.2)) :=
  runX_is_history HT.step fuel (create true true size) xs

/-- no operation of a case with scripted traversals — the iterator steps and the operations performed
    by the callbacks included — dereferences a freed node -/
theorem ht_scripted_memory_safe (fuel size : Nat) (xs : List XOp) :
    ∀ p ∈ (runS fuel size xs).2, p.2.res ≠ .uaf ∧ p.2.res ≠ .diverge := by
  intro p hp
  have h := ht_iter_memory_safe size (opsS fuel size xs)
  rw [runS_eq_run] at h
  exact h p.2 (List.mem_map_of_mem hp)

/-- every result of a case with scripted traversals except what `iter_next` returns (the order of a
    hashtable traversal is not promised) — in particular every get / rm / put / count a callback
    performs while the traversal is positioned on an entry, on that entry or another — is the result
    the dictionary gives on the same flattened history -/
theorem ht_scripted_results_dict (fuel size : Nat) (xs : List XOp) :
    maskNext .ht (opsS fuel size xs) ((runS fuel size xs).2.map (·.2)) =
      maskNext .ht (opsS fuel size xs) (Dict.run .ht (opsS fuel size xs)).2 := by
  have h := ht_dict_during_iters size (opsS fuel size xs)
  rw [runS_eq_run] at h
  exact h

/-- a scripted traversal that runs to the end has shown every key that was present from its start to
    its end, whatever its callbacks (and anything else) removed or inserted meanwhile -/
theorem ht_scripted_complete (fuel size : Nat) (xs : List XOp) :
    (IterMon.run .ht (opsS fuel size xs) ((runS fuel size xs).2.map (·.2))).flags.incomplete = false := by
  have h := ht_iter_complete size (opsS fuel size xs)
  rw [runS_eq_run] at h
  exact h

/-- … and no key twice, unless a key was inserted during the traversal -/
theorem ht_scripted_exactly_once (fuel size : Nat) (xs : List XOp) :
    (IterMon.run .ht (opsS fuel size xs) ((runS fuel size xs).2.map (·.2))).flags.twice = false := by
  have h := ht_iter_exactly_once size (opsS fuel size xs)
  rw [runS_eq_run] at h
  exact h

/-- once no iterator is open (a scripted traversal frees its own), the table is the dictionary that
    executed the flattened history: every continuation in the C17 language has the dictionary's
    results and notification trace.  (`_partial`: the trace DURING the scripted traversal — the deferred
    DELETED/FREE delivered exactly once before the traversal returns — is not covered.) -/
theorem ht_scripted_then_dict_partial (fuel size : Nat) (xs : List XOp) (ops₂ : List Op)
    (h₁ : (runS fuel size xs).1.iters = []) (h₂ : ∀ op ∈ ops₂, op.isIter = false) :
    results .ht ((runS fuel size xs).1.runFrom ops₂) =
      results .ht ((Dict.run .ht (opsS fuel size xs)).1.runFrom ops₂) ∧
    trace .ht ((runS fuel size xs).1.runFrom ops₂) =
      trace .ht ((Dict.run .ht (opsS fuel size xs)).1.runFrom ops₂) := by
  have e := runS_eq_run fuel size xs
  have h := ht_after_iters_dict size (opsS fuel size xs) ops₂ (by rw [e]; exact h₁) h₂
  rw [e] at h
  exact h

/-- non-vacuity of `ht_scripted_then_dict_partial`, and the scripted traversal at work: remove the
    entry the traversal is positioned on, put it back, look it up, stop -/
theorem test_scripted_reput :
    let xs : List XOp := [.op (.put [97] 1 0), .op (.put [98] 2 0),
      .foreachs 1 none [⟨1, .rm .shown⟩, ⟨1, .get .shown⟩, ⟨1, .put .shown 7 0⟩, ⟨1, .get .shown⟩, ⟨1, .count⟩]]
    (runS 10 8 xs).1.iters = [] ∧
    ((runS 10 8 xs).2.map (·.2.res)).drop 4 =
      [.bool true, .val none, .ok, .val (some 7), .num 2, .ok] := by
  decide

end QbVerif.Hashtable
