/-
C06 — bytes from a peer never corrupt the other side, whatever they say.

Model: QbVerif/Model/Wire.lean (process_auth / qb_ipc_us_recv_msghdr, qb_ipc_us_recv_at_most,
_process_request_, and the per-peer machine `Peer` built from them).  `Fix.all` is the code
with fixes/D21, D21b, D22 applied; the theorems below are about that code; for each repair
there is a refutation witness showing that the statement is false for the code without it.

All theorems quantify over every byte string, every fragmentation, every interleaving of the
peer's actions (write / half-close / close / raw request) with server dispatches carrying
arbitrary revents (`PEv.wake`), both transports, every service-side size and accept result.
-/
import QbVerif.Lemmas.WirePeer

namespace QbVerif.Wire
open QbVerif.Gen

/-! ## 1. the handshake reader is total and stays inside the auth record -/

/-- One call of process_auth on a well-formed auth record, for ANY bytes queued on the socket,
    any EOF/HUP state and any revents: the outcome is pending (record still well-formed, so the
    statement applies again), closed, or a complete request with the authenticate id that is
    handed to handle_new_connection; a store outside the record (`oob`) is impossible. -/
theorem handshake_total (credsOk : Bool) (a : Auth) (k : Sock) (w : Wake) (h : AuthInv a) :
    match processAuth credsOk a k w with
    | .pending a' _ => AuthInv a'
    | .closed => True
    | .newConn req _ => req.length = REQ ∧ hdrId req = IPC_MSG_AUTHENTICATE
    | .oob => False :=
  processAuth_total credsOk a k w h

/-- non-vacuity: the freshly allocated record satisfies the hypothesis -/
example : AuthInv Auth.init := authInv_init

/-- Along every history of one peer: while the handshake is pending NO callback at all has been
    invoked (in particular not msg_process), and the record is well-formed. -/
theorem handshake_pending_silent (cfg : Cfg) (hf : cfg.fix = Fix.all) (evs : List PEv) (a : Auth) (k : Sock)
    (h : (Peer.run cfg evs).1 = .hs a k) : (Peer.run cfg evs).2 = [] ∧ AuthInv a := by
  have := PInv_run cfg hf evs
  rw [h] at this
  exact this

/-- The shape of the callback trace of one peer, for every history: nothing; or accept,
    destroyed (refused: accept returned non-zero); or accept, created, msg*, optionally followed
    by closed, destroyed -- where every msg reports a length that is at most what was received
    and at most the negotiated maximum.  So msg_process is only ever reached after accept
    returned 0 and created ran. -/
theorem callback_trace_shape (cfg : Cfg) (hf : cfg.fix = Fix.all) (evs : List PEv) :
    (Peer.run cfg evs).2 = [] ∨
    (cfg.acceptRc ≠ 0 ∧ (Peer.run cfg evs).2 = [Cb.accept, Cb.destroyed]) ∨
    (cfg.acceptRc = 0 ∧ ∃ msgs, AllMsgOk msgs ∧
      ((Peer.run cfg evs).2 = Cb.accept :: Cb.created :: msgs ∨
       (Peer.run cfg evs).2 = Cb.accept :: Cb.created :: msgs ++ [Cb.closed, Cb.destroyed])) := by
  have h := PInv_run cfg hf evs
  cases hs : (Peer.run cfg evs).1 with
  | hs a k => rw [hs] at h; exact Or.inl h.1
  | conn L k rq =>
    rw [hs] at h
    obtain ⟨_, hacc, msgs, htr, hm⟩ := h
    exact Or.inr (Or.inr ⟨hacc, msgs, hm, Or.inl htr⟩)
  | gone =>
    rw [hs] at h
    rcases h with h | h | ⟨hacc, msgs, htr, hm⟩
    · exact Or.inl h
    · exact Or.inr (Or.inl h)
    · exact Or.inr (Or.inr ⟨hacc, msgs, hm, Or.inr htr⟩)
  | bad => rw [hs] at h; exact h.elim

/-- A peer that connection_accept refuses never reaches msg_process. -/
theorem refused_peer_no_msg (cfg : Cfg) (hf : cfg.fix = Fix.all) (hacc : cfg.acceptRc ≠ 0) (evs : List PEv)
    (m r L : Nat) : Cb.msg m r L ∉ (Peer.run cfg evs).2 := by
  intro hmem
  rcases callback_trace_shape cfg hf evs with h | ⟨_, h⟩ | ⟨h, _⟩
  · rw [h] at hmem; cases hmem
  · rw [h] at hmem
    simp at hmem
  · exact hacc h

/-! ## 2. no out-of-bounds store, ever -/

/-- `recv_within_buffer`: with fixes/D21, for EVERY datagram and every buffer that holds at least a
    header, both stores of qb_ipc_us_recv_at_most (the peek and the receive) stay inside the
    `len`-byte buffer. -/
theorem recv_within_buffer (len : Nat) (d : List Nat) (h : HDR ≤ len) :
    (recvAtMost true len d).peek ≤ len ∧ (recvAtMost true len d).written ≤ len := by
  refine ⟨?_, recvAtMost_written_le_buf len d h⟩
  rw [recvAtMost_peek]
  have := peekLen_le_hdr d
  omega

/-- non-vacuity + boundary: a datagram as long as the buffer with a truthful header is received whole -/
example : (recvAtMost true 64 (mkMsg 0 64 64)).written = 64 := by decide

/-- with fixes/D21b the negotiated size (= size of receive_buf) always holds a header,
    whatever the peer asked for and whatever the service enforces -/
theorem negotiated_holds_header (svcMax reqMax : Nat) : HDR ≤ negotiated true svcMax reqMax :=
  negotiated_ge_hdr svcMax reqMax

/-- For every history of a peer (handshake bytes, raw requests, dispatches in any order) the model of
    the repaired code never performs an out-of-bounds access: neither in the auth record nor in
    receive_buf. -/
theorem never_oob (cfg : Cfg) (hf : cfg.fix = Fix.all) (evs : List PEv) :
    (Peer.run cfg evs).1 ≠ PSt.bad ∧ Cb.oob ∉ (Peer.run cfg evs).2 := by
  constructor
  · intro hb
    have h := PInv_run cfg hf evs
    rw [hb] at h
    exact h
  · intro hmem
    have hno : ∀ msgs, AllMsgOk msgs → Cb.oob ∉ msgs := by
      intro msgs hm hx
      obtain ⟨m, r, L, he, _⟩ := hm _ hx
      cases he
    rcases callback_trace_shape cfg hf evs with h | ⟨_, h⟩ | ⟨_, msgs, hm, h | h⟩ <;> rw [h] at hmem
    · cases hmem
    · simp at hmem
    · simp only [List.mem_cons] at hmem
      rcases hmem with hmem | hmem | hmem
      · cases hmem
      · cases hmem
      · exact hno msgs hm hmem
    · simp only [List.mem_cons, List.mem_append, List.cons_append] at hmem
      rcases hmem with hmem | hmem | hmem | hmem
      · cases hmem
      · cases hmem
      · exact hno msgs hm hmem
      · simp at hmem

/-! ## 3. the length reported to msg_process -/

/-- `reported_len_le_received` / `reported_len_le_max`, socket transport: whatever the datagram,
    if `_process_request_` calls msg_process the reported length is at most the length of the
    datagram and at most the negotiated maximum (needs only fixes/D22). -/
theorem reported_len_sock (fix : Fix) (h22 : fix.d22 = true) (maxMsg : Nat) (d : List Nat) (n : Nat)
    (h : procSock fix maxMsg d = .deliver n) : n ≤ d.length ∧ n ≤ maxMsg :=
  procSock_deliver h22 h

/-- the same for the shm transport, for every chunk and every content of the ring behind it -/
theorem reported_len_shm (fix : Fix) (h22 : fix.d22 = true) (maxMsg : Nat) (d stale : List Nat) (n : Nat)
    (h : procShm fix maxMsg d stale = .deliver n) : n ≤ d.length ∧ n ≤ maxMsg :=
  procShm_deliver h22 h

/-- non-vacuity: a truthful 40-byte request is delivered with 40, on both transports -/
example : procSock Fix.all 12328 (mkMsg 7 40 40) = .deliver 40 := by decide
example : procShm Fix.all 12328 (mkMsg 7 40 40) [] = .deliver 40 := by decide

/-- `reported_len_le_received`: along every history, every msg_process invocation reports at most the
    number of bytes received for that request. -/
theorem reported_len_le_received (cfg : Cfg) (hf : cfg.fix = Fix.all) (evs : List PEv) (m r L : Nat)
    (h : Cb.msg m r L ∈ (Peer.run cfg evs).2) : m ≤ r := by
  have key : ∀ msgs, AllMsgOk msgs → Cb.msg m r L ∈ msgs → m ≤ r := by
    intro msgs hm hx
    obtain ⟨m', r', L', he, h1, _⟩ := hm _ hx
    cases he; exact h1
  rcases callback_trace_shape cfg hf evs with h' | ⟨_, h'⟩ | ⟨_, msgs, hm, h' | h'⟩ <;> rw [h'] at h
  · cases h
  · simp at h
  · simp only [List.mem_cons] at h
    rcases h with h | h | h
    · cases h
    · cases h
    · exact key msgs hm h
  · simp only [List.mem_cons, List.mem_append, List.cons_append] at h
    rcases h with h | h | h | h
    · cases h
    · cases h
    · exact key msgs hm h
    · simp at h

/-- `reported_len_le_max`: ... and at most the maximum negotiated for the connection. -/
theorem reported_len_le_max (cfg : Cfg) (hf : cfg.fix = Fix.all) (evs : List PEv) (m r L : Nat)
    (h : Cb.msg m r L ∈ (Peer.run cfg evs).2) : m ≤ L := by
  have key : ∀ msgs, AllMsgOk msgs → Cb.msg m r L ∈ msgs → m ≤ L := by
    intro msgs hm hx
    obtain ⟨m', r', L', he, _, h2⟩ := hm _ hx
    cases he; exact h2
  rcases callback_trace_shape cfg hf evs with h' | ⟨_, h'⟩ | ⟨_, msgs, hm, h' | h'⟩ <;> rw [h'] at h
  · cases h
  · simp at h
  · simp only [List.mem_cons] at h
    rcases h with h | h | h
    · cases h
    · cases h
    · exact key msgs hm h
  · simp only [List.mem_cons, List.mem_append, List.cons_append] at h
    rcases h with h | h | h | h
    · cases h
    · cases h
    · exact key msgs hm h
    · simp at h

/-! ## 4. release once the peer is gone -/

theorem runFrom_append (cfg : Cfg) : ∀ (evs es : List PEv) (s : PSt),
    (Peer.runFrom cfg s (evs ++ es)).1 = (Peer.runFrom cfg (Peer.runFrom cfg s evs).1 es).1 := by
  intro evs
  induction evs with
  | nil => intro es s; rfl
  | cons e evs ih =>
    intro es s
    simp only [List.cons_append, Peer.runFrom]
    exact ih es _

/-- after the peer closed its socket, one dispatch releases everything -/
theorem close_poll_gone (cfg : Cfg) (hf : cfg.fix = Fix.all) (s : PSt) (tr : List Cb) (h : PInv cfg s tr) :
    (Peer.step cfg (Peer.step cfg s .close).1 .poll).1 = PSt.gone := by
  cases s with
  | gone => rfl
  | bad => exact h.elim
  | hs a k =>
    show (hsWake cfg a { k with eof := true, hup := true } (Sock.revents { k with eof := true, hup := true })).1 = PSt.gone
    unfold hsWake processAuth Sock.revents
    simp
  | conn L k rq =>
    show (connWake cfg L { k with eof := true, hup := true } rq (Sock.revents { k with eof := true, hup := true })).1 = PSt.gone
    have hL := h.1
    unfold connWake Sock.revents
    by_cases hs : cfg.shm = true
    · simp [hs]
    · simp only [hs, Bool.false_eq_true, ite_false, ite_true]
      have ho := connReq_out cfg hf L hL { k with eof := true, hup := true } rq
      rcases ho with ⟨k2, rq2, hs2, _⟩ | ⟨hs2, _⟩
      · rcases hr : connReq cfg L { k with eof := true, hup := true } rq with ⟨s2, cbs2⟩
        rw [hr] at hs2
        simp only [] at hs2
        subst hs2
        unfold thenConn connLive
        simp
      · rcases hr : connReq cfg L { k with eof := true, hup := true } rq with ⟨s2, cbs2⟩
        rw [hr] at hs2
        simp only [] at hs2
        subst hs2
        rfl

/-- `handshake_releases`: whatever happened before (any prefix of a handshake, any garbage, an
    established connection with queued requests), once the peer has closed its socket and the
    server has dispatched that descriptor, the server holds nothing for the peer any more:
    no descriptor, no /dev/shm directory, no heap object (auth record, connection, receive_buf). -/
theorem handshake_releases (cfg : Cfg) (hf : cfg.fix = Fix.all) (evs : List PEv) :
    let s := (Peer.run cfg (evs ++ [.close, .poll])).1
    s = PSt.gone ∧ s.fds cfg = 0 ∧ s.dirs = 0 ∧ s.heapObjs = 0 := by
  have hinv := PInv_run cfg hf evs
  have hg : (Peer.run cfg (evs ++ [.close, .poll])).1 = PSt.gone := by
    unfold Peer.run at hinv ⊢
    rw [runFrom_append]
    simp only [Peer.runFrom]
    exact close_poll_gone cfg hf _ _ hinv
  simp only [hg]
  exact ⟨trivial, rfl, rfl, rfl⟩

/-- while the handshake is pending the server holds exactly one descriptor and the auth record -/
theorem pending_holds_one_fd (cfg : Cfg) (a : Auth) (k : Sock) :
    (PSt.hs a k).fds cfg = 1 ∧ (PSt.hs a k).dirs = 0 ∧ (PSt.hs a k).heapObjs = 1 := ⟨rfl, rfl, rfl⟩

/-! ## 5. refutation witnesses: the statements are false for the code before the repairs -/

/-- D21 (function level): without the length check the receive overruns the buffer. -/
theorem recv_within_buffer_refuted_prerepair :
    ∃ len d, HDR ≤ len ∧ len < (recvAtMost false len d).written :=
  ⟨16, mkMsg 0 20 20, by decide, by decide⟩

/-- D21 with a negative length field: the whole datagram is received. -/
theorem recv_negative_size_refuted_prerepair :
    (recvAtMost false 16 (mkMsg 0 (-1) 40)).written = 40 := by decide

/-- D22, socket: a 32-byte datagram whose header says 10000 is reported as 10000 bytes. -/
theorem reported_len_refuted_prerepair_sock :
    procSock ⟨true, true, false⟩ 12328 (mkMsg 0 10000 32) = .deliver 10000 := by decide

/-- D22, shm: the same chunk; and a negative length field is reported as 2^64 - 1. -/
theorem reported_len_refuted_prerepair_shm :
    procShm ⟨true, true, false⟩ 12328 (mkMsg 0 10000 32) [] = .deliver 10000 ∧
    procShm ⟨true, true, false⟩ 12328 (mkMsg 0 (-1) 32) [] = .deliver 18446744073709551615 := by decide

/-- D22, shm: a chunk longer than the negotiated maximum is reported with its full length
    (the ring has room for it) -/
theorem reported_len_over_max_refuted_prerepair :
    procShm ⟨true, true, false⟩ 20 (mkMsg 0 24 24) [] = .deliver 24 := by decide

/-- D21b: without the floor the peer chooses the size of receive_buf, e.g. 4 bytes -/
theorem negotiated_refuted_prerepair : negotiated false 0 4 = 4 := by decide

/-! the same at the level of whole histories (handshake by hand, then one request) -/

set_option maxRecDepth 1000000 in
/-- D21 (+D21b off so that the buffer is small): the history ends in an out-of-bounds store -/
theorem never_oob_refuted_prerepair :
    (Peer.run { shm := false, svcMax := 0, acceptRc := 0, fix := Fix.none }
      [.write (validReq 16), .poll, .emit (mkMsg 0 20 20) [], .poll]).1 = PSt.bad := by decide

set_option maxRecDepth 1000000 in
/-- D21 alone missing (floor and D22 applied): the register's witness shape -- a datagram longer
    than the negotiated 12328 bytes with a matching length field overruns receive_buf -/
theorem never_oob_refuted_prerepair_d21 :
    (Peer.run { shm := false, svcMax := 0, acceptRc := 0, fix := ⟨false, true, true⟩ }
      [.write (validReq 8192), .poll, .emit (mkMsg 0 12400 12400) [], .poll]).1 = PSt.bad := by decide

set_option maxRecDepth 1000000 in
/-- D21b alone missing: the handshake asks for 4 bytes, the header peek of the first request
    overruns the 4-byte receive_buf -/
theorem never_oob_refuted_prerepair_d21b :
    (Peer.run { shm := false, svcMax := 0, acceptRc := 0, fix := ⟨true, false, true⟩ }
      [.write (validReq 4), .poll, .emit (mkMsg 0 32 32) [], .poll]).1 = PSt.bad := by decide

set_option maxRecDepth 1000000 in
/-- D22 alone missing: msg_process is told 10000 bytes for a 32-byte chunk -/
theorem reported_len_refuted_prerepair_history :
    (Peer.run { shm := true, svcMax := 0, acceptRc := 0, fix := ⟨true, true, false⟩ }
      [.write (validReq 8192), .poll, .emit (mkMsg 0 10000 32) [], .poll]).2
      = [Cb.accept, Cb.created, Cb.msg 10000 32 12328] := by decide

/-! finite sanity tests of the repaired model (`test_`: bounded facts, not the claims above) -/

set_option maxRecDepth 1000000 in
/-- the record may arrive byte by byte with dispatches in between; the connection is made once -/
theorem test_fragmented_handshake :
    (Peer.run { shm := true, svcMax := 0, acceptRc := 0 }
      (((validReq 8192).map fun b => [PEv.write [b], PEv.poll]).flatten)).2 = [Cb.accept, Cb.created] := by decide

set_option maxRecDepth 1000000 in
/-- a truthful request is delivered, a lying one disconnects the liar: closed, destroyed -/
theorem test_deliver_then_liar :
    (Peer.run { shm := false, svcMax := 0, acceptRc := 0 }
      [.write (validReq 8192), .poll, .emit (mkMsg 7 40 40) [], .poll, .emit (mkMsg 0 10000 32) [], .poll]).2
      = [Cb.accept, Cb.created, Cb.msg 40 40 12328, Cb.closed, Cb.destroyed] := by decide

end QbVerif.Wire
