/-
C20 — handle database: stale handles are rejected, the destructor runs exactly once.

Property theorems only (model: QbVerif/Model/Hdb.lean, specification vocabulary: Model/HdbSpec.lean,
lemmas: QbVerif/Lemmas/Hdb*.lean).  Every statement is about an ARBITRARY history

    pre ++ [create d] ++ post

on a fresh database: `pre` and `post` are arbitrary lists of create / failing create (malloc returns NULL) / get / get_always / put /
destroy / refcount / iterator_reset / iterator_next calls with arbitrary handle arguments (any
natural number: issued values, copies, values of destroyed objects, never-issued values, the
no-check form, slots beyond the table) and arbitrary `random()` results; `create d` is the call
that issues the handle value `h` for the `K`-th object (`Issues pre d K h`).

What the caller observes is summarised by the `Ledger` of (h, K) over `post`, computed from the
calls' RETURN VALUES only (Model/HdbSpec.lean): gets that returned instance K (iteration's implicit
get included), accepted puts / destroys on a handle value addressing K's entry (`addresses`: same
slot, same check or the no-check form), destructor invocations on K.
  `Live`      = 1 + gets − puts − destroys > 0        (the object still has references)
  `Destroyed` = a destroy call was accepted while it was live
Hypotheses on `random()`: `GoodCheck h` (the check is a positive int32: what the 200-draw loop in
qb_hdb_handle_create delivers unless random() returns 0 two hundred times) and nonce freshness
`Fresh` (no handle VALUE is issued twice).  Both are decidable, both are shown necessary by `test_…`
witnesses, and they are needed ONLY for `stale_forever`.
-/
import QbVerif.Lemmas.HdbIter
import QbVerif.Lemmas.HdbOuts

namespace QbVerif.Props.C20
open QbVerif.Hdb QbVerif.Gen

/-- the object issued as `h` still has references after `post` (one plus gets minus puts > 0) -/
abbrev Live (pre : List Op) (d : List Nat) (post : List Op) (h K : Nat) : Prop :=
  0 < (ledger pre d post h K).count

/-- a destroy call on the object was accepted during `post` (while it was live) -/
abbrev Destroyed (pre : List Op) (d : List Nat) (post : List Op) (h K : Nat) : Prop :=
  0 < (ledger pre d post h K).destroys


theorem addresses_self (h : Nat) : addresses h h = true := by simp [addresses]

/-! ### the table entry of a live object (consequence of the invariant `Track`) -/

theorem live_entry {pre : List Op} {d : List Nat} {K h : Nat} (hI : Issues pre d K h) (post : List Op)
    (hl : Live pre d post h K) :
    G (runFrom (after pre d) post) ∧ hSlot h < (runFrom (after pre d) post).handleCount ∧
    (runFrom (after pre d) post).tbl.get (hSlot h) =
      ⟨(ledger pre d post h K).stateOf, some K, hCheck h, (ledger pre d post h K).count⟩ := by
  have T := track_post hI post false (by intro hh; cases hh)
  unfold Track at T
  exact ⟨T.g, T.slotLt, (T.live hl).1⟩

theorem lookOk_of_addresses {S : St} {h h' K sx : Nat} {cnt : Int} (hs : hSlot h < S.handleCount)
    (he : S.tbl.get (hSlot h) = ⟨sx, some K, hCheck h, cnt⟩) (ha : addresses h' h = true) : S.lookOk h' := by
  unfold addresses at ha
  simp only [Bool.and_eq_true, Bool.or_eq_true, beq_iff_eq] at ha
  unfold St.lookOk
  rw [ha.1, he]
  exact ⟨hs, ha.2.symm⟩

/-! ### refcount = 1 + gets − puts − destroys -/

/-- **refcount_formula.**  While the object lives, `qb_hdb_handle_refcount_get` on its handle (or any
    value addressing its entry) returns one plus the gets that returned it (iteration's implicit get
    counted) minus the accepted puts, the put made inside every accepted destroy counted as a put. -/
theorem refcount_formula {pre : List Op} {d : List Nat} {K h : Nat} (hI : Issues pre d K h) (post : List Op)
    (hl : Live pre d post h K) (h' : Nat) (ha : addresses h' h = true) :
    (run (pre ++ .create d :: post)).refcountGet h' =
      1 + ((ledger pre d post h K).gets : Int)
        - (((ledger pre d post h K).puts : Int) + ((ledger pre d post h K).destroys : Int)) := by
  rw [run_split]
  obtain ⟨g, hs, he⟩ := live_entry hI post hl
  rw [refcount_accepted g (lookOk_of_addresses hs he ha), addresses_slot ha, he]
  rfl

/-! ### a handle resolves to its object until the object is destroyed -/

/-- **resolves_until_destroyed.**  As long as no destroy was accepted and the count has not reached
    zero, `qb_hdb_handle_get` on the handle returns 0 and the instance of the object it was created for. -/
theorem resolves_until_destroyed {pre : List Op} {d : List Nat} {K h : Nat} (hI : Issues pre d K h)
    (post : List Op) (hl : Live pre d post h K) (hnd : ¬ Destroyed pre d post h K)
    (h' : Nat) (ha : addresses h' h = true) :
    ((run (pre ++ .create d :: post)).get h').2 = (0, some K) := by
  rw [run_split]
  obtain ⟨g, hs, he⟩ := live_entry hI post hl
  have hst : (ledger pre d post h K).stateOf = ACTIVE := by
    unfold Ledger.stateOf; rw [if_neg hnd]
  have hy : (runFrom (after pre d) post).getOk h' := by
    have hlk := lookOk_of_addresses hs he ha
    unfold St.lookOk at hlk
    unfold St.getOk
    refine ⟨hlk.1, ?_, hlk.2⟩
    rw [addresses_slot ha, he]
    exact hst
  rw [get_accepted g hy, addresses_slot ha, he]

/-- **get_refused_after_destroy_put_allowed.**  After an accepted destroy, while references are still
    outstanding: get on the handle is refused with -EBADF and changes nothing, put is accepted. -/
theorem get_refused_after_destroy_put_allowed {pre : List Op} {d : List Nat} {K h : Nat}
    (hI : Issues pre d K h) (post : List Op) (hl : Live pre d post h K) (hd : Destroyed pre d post h K)
    (h' : Nat) (ha : addresses h' h = true) :
    (run (pre ++ .create d :: post)).get h' = (run (pre ++ .create d :: post), EBADF, none) ∧
    Out.rc 0 ∈ ((run (pre ++ .create d :: post)).put h').2 := by
  rw [run_split]
  obtain ⟨g, hs, he⟩ := live_entry hI post hl
  have hst : (ledger pre d post h K).stateOf = PENDING := by
    unfold Ledger.stateOf; rw [if_pos hd]
  refine ⟨get_refused g ?_, put_rc0_of_lookOk g (lookOk_of_addresses hs he ha)⟩
  intro hy
  unfold St.getOk at hy
  rw [addresses_slot ha, he] at hy
  have : PENDING = ACTIVE := by rw [← hst]; exact hy.2.1
  exact pending_ne_active this

/-! ### once the count reached zero the handle value stays invalid -/

theorem goodCheck_ne_nocheck {h : Nat} (hg : GoodCheck h) : hCheck h ≠ NOCHECK := by
  intro hc
  unfold GoodCheck at hg
  rw [hc] at hg
  exact nocheck_not_pos hg

/-- general form: the value is refused as long as no later create returns the same 64-bit value -/
theorem stale_while_not_reissued {pre : List Op} {d : List Nat} {K h : Nat} (hI : Issues pre d K h)
    (hg : GoodCheck h) (post : List Op) (hdead : ¬ Live pre d post h K)
    (hnr : h ∉ issuedFrom (after pre d) post) :
    (run (pre ++ .create d :: post)).get h = (run (pre ++ .create d :: post), EBADF, none) ∧
    (run (pre ++ .create d :: post)).put h = (run (pre ++ .create d :: post), [.rc EBADF]) ∧
    (run (pre ++ .create d :: post)).destroy h = (run (pre ++ .create d :: post), [.rc EBADF]) ∧
    (run (pre ++ .create d :: post)).refcountGet h = EBADF := by
  rw [run_split]
  have T : Track true h K (runFrom (after pre d) post) (ledger pre d post h K) :=
    track_run (track_init true hI) post (fun _ => noReissue_of_not_mem hnr)
  unfold Track at T
  have hck := (T.dead hdead).2.2.2 rfl hg
  have hnl : ¬ (runFrom (after pre d) post).lookOk h := by
    intro hy
    rcases hy.2 with h1 | h1
    · exact goodCheck_ne_nocheck hg h1
    · exact hck h1.symm
  have hng : ¬ (runFrom (after pre d) post).getOk h := fun hy => hnl ⟨hy.1, hy.2.2⟩
  exact ⟨get_refused T.g hng, put_refused T.g hnl, destroy_refused T.g hnl, refcount_refused T.g hnl⟩

/-- **stale_forever.**  Once the count of the object has reached zero (after `post`), its handle value —
    and every copy, a copy being the same 64-bit value — is refused with -EBADF by get, put, destroy and
    refcount_get and changes nothing, after ANY further history `more` (which may re-create objects in the
    same slot any number of times), provided the checks drawn by `random()` are fresh. -/
theorem stale_forever {pre : List Op} {d : List Nat} {K h : Nat} (hI : Issues pre d K h) (hg : GoodCheck h)
    (post more : List Op) (hdead : ¬ Live pre d post h K)
    (hf : Fresh (pre ++ .create d :: (post ++ more))) :
    (run (pre ++ .create d :: (post ++ more))).get h = (run (pre ++ .create d :: (post ++ more)), EBADF, none) ∧
    (run (pre ++ .create d :: (post ++ more))).put h = (run (pre ++ .create d :: (post ++ more)), [.rc EBADF]) ∧
    (run (pre ++ .create d :: (post ++ more))).destroy h = (run (pre ++ .create d :: (post ++ more)), [.rc EBADF]) ∧
    (run (pre ++ .create d :: (post ++ more))).refcountGet h = EBADF := by
  have hdead' : ¬ Live pre d (post ++ more) h K := by
    unfold Live at hdead ⊢
    rw [ledger_dead_stays hdead more]; exact hdead
  refine stale_while_not_reissued hI hg (post ++ more) hdead' ?_
  -- Fresh: the value issued by `create d` does not occur among the values issued later
  unfold Fresh at hf
  rw [issuedFrom_append, issuedFrom_cons] at hf
  have hc : ((runFrom St.init pre).create d).2 = .created 0 h := hI.1
  simp only [hc] at hf
  have h2 := (List.nodup_append.mp hf).2.1
  have h3 := (List.nodup_append.mp h2).2.2
  intro hm
  exact h3 h (List.mem_singleton.mpr rfl) h hm rfl

/-- dead objects stay dead: the ledger's count never leaves zero again -/
theorem dead_stays_dead {pre : List Op} {d : List Nat} {K h : Nat} (post more : List Op)
    (hdead : ¬ Live pre d post h K) : ¬ Live pre d (post ++ more) h K := by
  unfold Live at hdead ⊢
  rw [ledger_dead_stays hdead more]; exact hdead

/-! ### the destructor runs exactly once per object, exactly when the count reaches zero -/

theorem dtors_eq {pre : List Op} {d : List Nat} {K h : Nat} (hI : Issues pre d K h) (post : List Op) :
    (ledger pre d post h K).dtors = if Live pre d post h K then 0 else 1 := by
  have T := track_post hI post false (by intro hh; cases hh)
  unfold Track at T
  unfold Live
  by_cases hl : 0 < (ledger pre d post h K).count
  · rw [if_pos hl]; exact (T.live hl).2
  · rw [if_neg hl]; exact (T.dead hl).2.1

/-- **destructor_exactly_once_at_zero** (whole history).  Among ALL outputs of the history (before,
    during and after the create) the destructor is invoked on object `K` exactly once if its count has
    reached zero, and not at all otherwise. -/
theorem destructor_exactly_once_at_zero {pre : List Op} {d : List Nat} {K h : Nat} (hI : Issues pre d K h)
    (post : List Op) :
    (outs (pre ++ .create d :: post)).count (.dtor (some K)) = if Live pre d post h K then 0 else 1 := by
  rw [outs_split, List.count_append, List.count_append]
  have h1 : (outsFrom St.init pre).count (Out.dtor (some K)) = 0 :=
    no_dtor_before G_init pre (by rw [hI.2]; exact Nat.le_refl _)
  have h2 : [((run pre).create d).2].count (Out.dtor (some K)) = 0 := by
    rw [hI.1]; exact List.count_eq_zero.mpr (by simp)
  have h3 : (ledger pre d post h K).dtors = 0 + dtorCount K (outsFrom (after pre d) post) :=
    ledgerFrom_dtors h K (after pre d) {} post
  have h4 := dtors_eq hI post
  unfold dtorCount at h3
  rw [h1, h2, ← h4]
  omega

/-- **destructor_exactly_once_at_zero** (the moment).  The call `op` issued after `post` invokes the
    destructor on `K` exactly once if it takes the count from positive to zero, and never otherwise. -/
theorem destructor_at_the_zero_crossing {pre : List Op} {d : List Nat} {K h : Nat} (hI : Issues pre d K h)
    (post : List Op) (op : Op) :
    dtorCount K (((run (pre ++ .create d :: post)).step op).2) =
      if Live pre d post h K ∧ ¬ Live pre d (post ++ [op]) h K then 1 else 0 := by
  rw [run_split]
  have e1 := dtors_eq hI post
  have e2 := dtors_eq hI (post ++ [op])
  have e3 : (ledger pre d (post ++ [op]) h K).dtors =
      (ledger pre d post h K).dtors + dtorCount K ((runFrom (after pre d) post).step op).2 := by
    rw [ledger_snoc, ledger_step_dtors]
  by_cases hl : Live pre d post h K
  · rw [if_pos hl] at e1
    by_cases hl2 : Live pre d (post ++ [op]) h K
    · rw [if_pos hl2] at e2; rw [if_neg (fun hc => hc.2 hl2)]; omega
    · rw [if_neg hl2] at e2; rw [if_pos ⟨hl, hl2⟩]; omega
  · rw [if_neg hl] at e1
    rw [if_neg (dead_stays_dead post [op] hl)] at e2
    rw [if_neg (fun hc => hl hc.1)]; omega

/-! ### iteration visits precisely the objects that have not been destroyed -/

/-- **iter_visits_exactly_live.**  After any history, a complete iteration pass (`qb_hdb_iterator_reset`,
    then `qb_hdb_iterator_next` until it fails) returns the pair (instance, handle) `x` iff `x` is the
    instance and the issued handle value of an object created in the history that is still live and on
    which no destroy has been accepted; and no handle is returned twice. -/
theorem iter_visits_exactly_live (ops : List Op) :
    (∀ x, x ∈ (run ops).iterAll ↔
      ∃ pre d post h K, ops = pre ++ .create d :: post ∧ Issues pre d K h ∧ x = (some K, h) ∧
        Live pre d post h K ∧ ¬ Destroyed pre d post h K) ∧
    ((run ops).iterAll.map (·.2)).Nodup := by
  have g := G_run ops
  rw [iterAll_eq g]
  refine ⟨?_, Tbl.activeList_nodup (by have := g.hcMax; have := g.maxLe; have := maxelems_le; omega)⟩
  intro x
  rw [Tbl.mem_activeList]
  constructor
  · rintro ⟨j, _, hj, hact, hx⟩
    -- the entry is ACTIVE, so it carries an instance number below nextObj: find its create
    cases hin : ((run ops).tbl.get j).inst with
    | none => exact absurd hin (g.activeInst j hact)
    | some K =>
      obtain ⟨pre, d, post, h, hops, hI⟩ := issued_decomp_run ops (g.instLt j K hin)
      have T := track_post hI post false (by intro hh; cases hh)
      rw [← run_split, ← hops] at T
      unfold Track at T
      by_cases hl : 0 < (ledger pre d post h K).count
      · have hjs : j = hSlot h := Classical.byContradiction fun hne => T.others j hne hin
        have he := (T.live hl).1
        rw [← hjs] at he
        have hnd : ¬ Destroyed pre d post h K := by
          intro hd
          have : (ledger pre d post h K).stateOf = PENDING := by unfold Ledger.stateOf; rw [if_pos hd]
          rw [he, this] at hact
          exact pending_ne_active hact
        refine ⟨pre, d, post, h, K, hops, hI, ?_, hl, hnd⟩
        rw [hx]; unfold Tbl.visit; rw [he, hjs]
        show (some K, mkHandle (hCheck h) (hSlot h)) = _
        rw [T.hform]
      · exact absurd hin (T.dead_no_inst hl j)
  · rintro ⟨pre, d, post, h, K, hops, hI, hx, hl, hnd⟩
    obtain ⟨_, hs, he⟩ := live_entry hI post hl
    rw [← run_split, ← hops] at hs he
    have hst : (ledger pre d post h K).stateOf = ACTIVE := by unfold Ledger.stateOf; rw [if_neg hnd]
    have T := track_post hI post false (by intro hh; cases hh)
    unfold Track at T
    refine ⟨hSlot h, Nat.zero_le _, by omega, by rw [he]; exact hst, ?_⟩
    rw [hx]; unfold Tbl.visit; rw [he]
    show _ = (some K, mkHandle (hCheck h) (hSlot h))
    rw [T.hform]

/-! ### non-vacuity: a concrete history with two objects, iteration, destroy, drain to zero, slot reuse

`exPre` creates object 0 (slot 0, check 7) and takes a reference; `create [0, 0, 5]` (random() returns
0, 0, 5) issues `exH` = check 5 / slot 1 for object 1. -/

-- the concrete `decide` facts below evaluate histories in the kernel (the 200-round draw loop included)
set_option maxRecDepth 8192

def exPre : List Op := [.create [7], .get (mkHandle 7 0)]
def exD : List Nat := [0, 0, 5]
def exH : Nat := mkHandle 5 1
/-- uses of object 1 while nobody destroyed it (explicit get, iteration visit, a foreign put) -/
def exUse : List Op := [.get exH, .iterReset, .iterNext, .iterNext, .put (mkHandle 9 1), .put exH]
/-- destroy with two references outstanding -/
def exPend : List Op := exUse ++ [.get (mkHandle NOCHECK 1), .destroy exH]
/-- … put down to zero (the last put through the no-check form) -/
def exDead : List Op := exPend ++ [.put exH, .put (mkHandle NOCHECK 1)]
/-- … the slot is reused for object 2 (check 6), the stale value is poked, the new object used -/
def exMore : List Op := [.create [6], .get exH, .put exH, .destroy exH, .get (mkHandle 6 1), .iterReset, .iterNext]

example : Issues exPre exD 1 exH ∧ GoodCheck exH := by decide
example : Live exPre exD exUse exH 1 ∧ ¬ Destroyed exPre exD exUse exH 1 ∧ addresses (mkHandle NOCHECK 1) exH = true := by
  decide
example : Live exPre exD exPend exH 1 ∧ Destroyed exPre exD exPend exH 1 := by decide
example : ¬ Live exPre exD exDead exH 1 ∧ Fresh (exPre ++ .create exD :: (exDead ++ exMore)) := by decide
/-- the slot of the dead object really is reused in `exMore`, and the new handle works -/
theorem test_slot_reused :
    issuedFrom St.init (exPre ++ .create exD :: (exDead ++ exMore)) = [mkHandle 7 0, mkHandle 5 1, mkHandle 6 1] ∧
    hSlot (mkHandle 6 1) = hSlot exH ∧
    (run (exPre ++ .create exD :: (exDead ++ exMore))).refcountGet (mkHandle 6 1) = 2 ∧
    (run (exPre ++ .create exD :: (exDead ++ exMore))).refcountGet exH = EBADF := by decide
/-- the ledger of the example: 1 + 2 gets − 1 put = 2 before the destroy; the foreign put (check 9) is not counted -/
theorem test_ledger_example :
    ledger exPre exD exUse exH 1 = { gets := 2, puts := 1, destroys := 0, dtors := 0 } ∧
    (run (exPre ++ .create exD :: exUse)).refcountGet exH = 2 ∧
    ledger exPre exD exDead exH 1 = { gets := 3, puts := 3, destroys := 1, dtors := 1 } := by decide
/-- a complete pass in the example: object 0 only (object 1 is pending removal) -/
theorem test_iter_example :
    (run (exPre ++ .create exD :: exUse)).iterAll = [(some 0, mkHandle 7 0), (some 1, exH)] ∧
    (run (exPre ++ .create exD :: exPend)).iterAll = [(some 0, mkHandle 7 0)] := by decide

/-! ### the hypotheses of `stale_forever` are necessary; what never-issued values can do -/

/-- **Fresh is necessary** (refutation witness of `stale_forever` without nonce freshness): when `random()`
    repeats the check on the reused slot, the same 64-bit value is issued again and the stale copy
    resolves to the NEW object (and can put it). -/
theorem test_fresh_needed :
    Issues [] [5] 0 (mkHandle 5 0) ∧ GoodCheck (mkHandle 5 0) ∧
    ¬ Live [] [5] [.destroy (mkHandle 5 0)] (mkHandle 5 0) 0 ∧
    ¬ Fresh ([] ++ .create [5] :: ([.destroy (mkHandle 5 0)] ++ [.create [5]])) ∧
    ((run ([] ++ .create [5] :: ([.destroy (mkHandle 5 0)] ++ [.create [5]]))).get (mkHandle 5 0)).2 = (0, some 1) := by
  decide

/-- **GoodCheck is necessary**: if `random()` returns 0 two hundred times the handle has check 0, which the
    zeroed entry of the released slot still "matches": put / destroy on the stale value are accepted and
    drive the reference count of the EMPTY slot negative. -/
theorem test_goodcheck_needed :
    Issues [] [0] 0 (mkHandle 0 0) ∧ ¬ GoodCheck (mkHandle 0 0) ∧
    ¬ Live [] [0] [.destroy (mkHandle 0 0)] (mkHandle 0 0) 0 ∧
    Fresh ([] ++ .create [0] :: [.destroy (mkHandle 0 0)]) ∧
    ((run ([] ++ .create [0] :: [.destroy (mkHandle 0 0)])).put (mkHandle 0 0)).2 = [.rc 0] ∧
    (run ([] ++ .create [0] :: [.destroy (mkHandle 0 0), .put (mkHandle 0 0)])).refcountGet (mkHandle 0 0) = -1 := by
  decide

/-- **never-issued value with check 0 on an EMPTY slot** (documented quirk, not a violation of the statement,
    which promises nothing about arbitrary integers): `destroy` is accepted, the count goes to −1 and the
    slot stays PENDINGREMOVAL for ever — the next create does not reuse it. -/
theorem test_check0_quirk :
    ((run [.create [5], .destroy (mkHandle 5 0)]).destroy (mkHandle 0 0)).2 = [.rc 0] ∧
    (run [.create [5], .destroy (mkHandle 5 0), .destroy (mkHandle 0 0)]).tbl.get 0 = ⟨PENDING, none, 0, -1⟩ ∧
    ((run [.create [5], .destroy (mkHandle 5 0), .destroy (mkHandle 0 0)]).create [8]).2 = .created 0 (mkHandle 8 1) := by
  decide

/-- … but such a value cannot touch a LIVE object: with an object in the slot, check 0 is refused by all four calls -/
theorem test_check0_live_refused :
    ((run [.create [5]]).get (mkHandle 0 0)).2 = (EBADF, none) ∧
    ((run [.create [5]]).put (mkHandle 0 0)).2 = [.rc EBADF] ∧
    ((run [.create [5]]).destroy (mkHandle 0 0)).2 = [.rc EBADF] ∧
    (run [.create [5]]).refcountGet (mkHandle 0 0) = EBADF := by decide

/-- the destructor event sits in the very call that takes the count to zero (example) -/
theorem test_dtor_example :
    outs ([.create [5], .get (mkHandle 5 0), .destroy (mkHandle 5 0), .put (mkHandle 5 0), .put (mkHandle 5 0)]) =
      [.created 0 (mkHandle 5 0), .got 0 (some 0), .rc 0, .dtor (some 0), .rc 0, .rc EBADF] := by decide

/-- **a create whose allocation fails** leaves no object behind (nothing to iterate, nothing resolves, the slot
    is reused) — but the EMPTY entry keeps the reference the create had taken, so a never-issued value on
    that slot (no-check form / check 0) can be put to zero, which calls the destructor with a NULL instance
    (quirk on a slot that holds no object; the statement does not cover it; the oracle tags it). -/
theorem test_createfail :
    outs [.create [5], .destroy (mkHandle 5 0), .createFail, .iterReset, .iterNext, .get (mkHandle NOCHECK 0),
          .create [6]] =
      [.created 0 (mkHandle 5 0), .dtor (some 0), .rc 0, .created ENOMEM 0, .unit, .iter EBADF none 0,
       .got EBADF none, .created 0 (mkHandle 6 0)] ∧
    outs [.create [5], .destroy (mkHandle 5 0), .createFail, .put (mkHandle NOCHECK 0)] =
      [.created 0 (mkHandle 5 0), .dtor (some 0), .rc 0, .created ENOMEM 0, .dtor none, .rc 0] := by decide

end QbVerif.Props.C20
