/-
C18 for the trie model, structural part: for ALL interleavings of iterator create/next/free (any
number of iterators, prefix iterators included) with put / rm / get / count / foreach (complete or
abandoned) / notifier add+del / destroy, the trie never gets structurally corrupted:

  trie_inv_all_histories : (∀ op ∈ ops, ValidOp op) → Inv (Trie.run ops).1   (also for the pre-repair code)

`Inv` (Lemmas/TrieInv.lean): root well-formed, child/parent pointers consistent and pointing to
allocated nodes, every allocated node on a path from the root, key node = path node, value ⇔ key,
valued nodes referenced.  In particular every pointer the tree itself holds is valid after any
history — including the D83 histories, where the defect is at the dictionary level (an entry is
released through a stale iterator pointer), not in the structure.
NOT proved here: that the pointers ITERATORS hold stay valid (`uaf`-freedom of `trie_iter_next` /
`trie_iter_free` for all histories); that is sampled (exact comparison with the real code under
ASan).  `step_inv`: one operation; `ValidOp`: keys/prefixes are non-empty strings of non-NUL bytes,
values non-NULL.
-/
import QbVerif.Props.C17TriePut

set_option linter.unusedSimpArgs false
set_option linter.unusedVariables false

namespace QbVerif.Trie
open QbVerif.Map

def Live (t : T) (id : Nat) : Prop := ∃ n, t.node? id = some n

theorem live_root {t : T} (h : Inv t) : Live t 0 := by
  obtain ⟨hd, hd0, _⟩ := h.header; exact ⟨hd, hd0⟩

theorem live_child {t : T} (h : Inv t) {p i c : Nat} (hc : (t.nd p).child i = some c) : Live t c := by
  obtain ⟨cn, hcn, _⟩ := h.child_ok p i c hc; exact ⟨cn, hcn⟩

/-! ### the nodes lookups and `trie_node_next` return are allocated -/

theorem lookupLoop_live {t : T} (h : Inv t) : ∀ (key : List Nat) (cur sc : Nat) (r : Nat × Nat),
    Live t cur → t.lookupLoop cur sc key = some r → Live t r.1 := by
  intro key
  induction key with
  | nil => intro cur sc r hl hr; rw [lookupLoop_nil] at hr; injection hr with hr; subst hr; exact hl
  | cons c rest ih =>
    intro cur sc r hl hr
    by_cases hlt : sc < (t.nd cur).seg.length
    · rw [lookupLoop_seg t cur sc c rest hlt] at hr
      split at hr
      · exact ih cur (sc + 1) r hl hr
      · exact absurd hr (by simp)
    · rw [lookupLoop_child t cur sc c rest hlt] at hr
      cases hch : (t.nd cur).child (charIdx c) with
      | none => rw [hch] at hr; exact absurd hr (by simp)
      | some ch =>
        rw [hch] at hr; simp only [Option.bind_some] at hr
        exact ih ch 0 r (live_child h hch) hr

theorem lookup_live {t : T} (h : Inv t) {key : List Nat} {exact : Bool} {id : Nat}
    (hl : t.lookup key exact = some id) : Live t id := by
  unfold T.lookup at hl
  cases hr : t.lookupLoop 0 0 key with
  | none => rw [hr] at hl; exact absurd hl (by simp)
  | some r =>
    rw [hr] at hl
    simp only at hl
    split at hl
    · exact absurd hl (by simp)
    · injection hl with hl; subst hl
      exact lookupLoop_live h key 0 0 r (live_root h) hr

theorem lastChild_mem {l : List (Option Nat)} {n : Nat} (h : lastChild l = some n) : ∃ i : Nat, (l[i]?).join = some n := by
  unfold lastChild at h
  obtain ⟨o, ho, hid⟩ := List.exists_of_findSome?_eq_some h
  simp only [id] at hid; subst hid
  obtain ⟨i, hi, e⟩ := List.getElem_of_mem (List.mem_reverse.1 ho)
  exact ⟨i, by simp [List.getElem?_eq_getElem hi, e]⟩

theorem lastChild_take_mem {l : List (Option Nat)} {k n : Nat} (h : lastChild (l.take k) = some n) :
    ∃ i : Nat, (l[i]?).join = some n := by
  obtain ⟨i, hi⟩ := lastChild_mem h
  refine ⟨i, ?_⟩
  rw [List.getElem?_take] at hi
  split at hi
  · exact hi
  · simp at hi

theorem climb_live {t : T} (h : Inv t) (root : Nat) : ∀ (fuel p n : Nat), t.climb root fuel p = some n → Live t n := by
  intro fuel
  induction fuel with
  | zero => intro p n hn; simp [T.climb] at hn
  | succ f ih =>
    intro p n hn
    simp only [T.climb] at hn
    split at hn
    · exact absurd hn (by simp)
    · rename_i pp _
      split at hn
      · rename_i m hm
        injection hn with hn; subst hn
        obtain ⟨i, hi⟩ := lastChild_take_mem hm
        exact live_child h (p := pp) (i := i) hi
      · split at hn
        · exact absurd hn (by simp)
        · exact ih _ n hn

theorem nodeNext_live {t : T} (h : Inv t) (root : Nat) (all : Bool) : ∀ (fuel c n : Nat),
    t.nodeNext root all fuel c = some n → Live t n := by
  intro fuel
  induction fuel with
  | zero => intro c n hn; simp [T.nodeNext] at hn
  | succ f ih =>
    intro c n hn
    simp only [T.nodeNext] at hn
    split at hn
    · rename_i m hm
      obtain ⟨i, hi⟩ := lastChild_mem hm
      have hlm : Live t m := live_child h (p := c) (i := i) hi
      split at hn
      · injection hn with hn; subst hn; exact hlm
      · exact ih m n hn
    · split at hn
      · exact absurd hn (by simp)
      · split at hn
        · rename_i m hm
          have hlm : Live t m := climb_live h root _ _ _ hm
          split at hn
          · injection hn with hn; subst hn; exact hlm
          · split at hn
            · exact absurd hn (by simp)
            · exact ih m n hn
        · exact absurd hn (by simp)

/-! ### single operations -/

theorem inv_create (f1 f2 f3 : Bool) : Inv (create f1 f2 f3) := Inv.congr inv_empty (fun _ => rfl)

theorem inv_with_iters {t : T} (h : Inv t) (l : List (Nat × Iter)) : Inv { t with iters := l } :=
  Inv.congr h (fun _ => rfl)

theorem inv_with_crashed {t : T} (h : Inv t) (b : Bool) : Inv { t with crashed := b } :=
  Inv.congr h (fun _ => rfl)

theorem inv_with_length {t : T} (h : Inv t) (l : Nat) : Inv { t with length := l } :=
  Inv.congr h (fun _ => rfl)

/-- `trie_node_ref` on an allocated node -/
theorem nodeRef_inv {t : T} (h : Inv t) {id : Nat} (hl : Live t id) :
    Inv (t.nodeRef id) ∧ ∀ j, Live t j → Live (t.nodeRef id) j := by
  obtain ⟨n, hn⟩ := hl
  unfold T.nodeRef
  split
  · exact ⟨h, fun _ hj => hj⟩
  · rename_i hid
    have hid' : id ≠ 0 := by simpa using hid
    unfold T.modify
    rw [nd_of_node? hn]
    have hvk := h.val_key id; have hkv := h.key_val id; have hrv := h.removed_val id
    rw [nd_of_node? hn] at hvk hkv hrv
    refine ⟨Inv.update h hn rfl rfl rfl rfl ?_ ?_ hkv hrv (fun e => absurd e hid'), ?_⟩
    · intro k hk; exact h.key_path id k (by rw [nd_of_node? hn]; exact hk)
    · intro hv; exact ⟨(hvk hv).1, by simp only; omega⟩
    · intro j ⟨m, hm⟩
      rw [Live, node?_set]
      by_cases e : j = id
      · exact ⟨{ n with refcount := n.refcount + 1 }, by simp [e, lt_of_node? hn]⟩
      · exact ⟨m, by simp [e, hm]⟩

/-- `trie_rm`, for both variants of the code and any key -/
theorem rm_inv_any {t : T} (h : Inv t) (k : Key) : Inv (t.rm k).1 := by
  unfold T.rm
  cases hl : t.lookup k true with
  | none => exact h
  | some id =>
    obtain ⟨n, hn⟩ := lookup_live h hl
    have hlt := lt_of_node? hn
    simp only [nd_of_node? hn]
    split
    · exact h
    · rename_i hacc
      split
      · rename_i hf
        simp only [hf, Bool.true_and, Bool.not_eq_true', Bool.not_eq_false] at hacc
        have ha : n.alive = true := by
          cases hh : n.alive with
          | true => rfl
          | false => simp [hh] at hacc
        have hv : n.val ≠ 0 := by simp [Node.alive] at ha; exact ha.1
        have hkv := h.val_key id (by rw [nd_of_node? hn]; exact hv)
        rw [nd_of_node? hn] at hkv
        have h1 : Inv (t.set id { n with removed := true }) := by
          refine Inv.update h hn rfl rfl rfl rfl ?_ (fun _ => hkv) (fun _ => hv) (fun _ => hv) ?_
          · intro k' hk'; exact h.key_path id k' (by rw [nd_of_node? hn]; exact hk')
          · intro e0; subst e0
            obtain ⟨hd, hd0, _, _, _, hv0⟩ := h.header
            rw [hn] at hd0; injection hd0 with hd0; subst hd0
            exact absurd hv0 hv
        have hn1 : (t.set id { n with removed := true }).node? id = some { n with removed := true } := by
          rw [node?_set]; simp [hlt]
        exact inv_with_length (nodeDeref_inv_get h1 hn1).1 _
      · exact inv_with_length (nodeDeref_inv_get h hn).1 _

/-- overwriting the notifier list of an allocated node -/
theorem modify_notifs_inv {t : T} (h : Inv t) {n : Nat} (hl : Live t n) (l : List Notifier) :
    Inv (t.modify n fun x => { x with notifs := l }) := by
  obtain ⟨m, hm⟩ := hl
  unfold T.modify
  rw [nd_of_node? hm]
  have hvk := h.val_key n; have hkv := h.key_val n; have hrv := h.removed_val n
  rw [nd_of_node? hm] at hvk hkv hrv
  refine Inv.update h hm rfl rfl rfl rfl ?_ hvk hkv hrv ?_
  · intro k' hk'; exact h.key_path n k' (by rw [nd_of_node? hm]; exact hk')
  · intro e0; subst e0
    obtain ⟨hd, hd0, _, _, hk0, hv0⟩ := h.header
    rw [hm] at hd0; injection hd0 with hd0; subst hd0
    exact ⟨hk0, hv0⟩

/-- `trie_notify_add` -/
theorem notifyAdd_inv {t : T} (h : Inv t) (key : Option Key) (hk : ∀ p, key = some p → ValidKey p) (events id : Nat) :
    Inv (t.notifyAdd key events id).1 := by
  unfold T.notifyAdd
  split
  · exact h
  · cases key with
    | none =>
      simp only
      split
      · exact h
      · exact modify_notifs_inv h (live_root h) _
    | some k =>
      cases hl : t.lookup k true with
      | some n =>
        simp only [hl]
        split
        · exact h
        · exact modify_notifs_inv h (lookup_live h hl) _
      | none =>
        obtain ⟨h1, _, hlive, _⟩ := insert_spec h (hk k rfl).2
        simp only [hl]
        generalize t.insert k = r at h1 hlive
        obtain ⟨t1, n⟩ := r
        simp only at h1 hlive ⊢
        split
        · exact h1
        · exact modify_notifs_inv h1 hlive _

/-- `trie_notify_del` -/
theorem notifyDel_inv {t : T} (h : Inv t) (key : Option Key) (events : Nat) (id : Option Nat) :
    Inv (t.notifyDel key events id).1 := by
  unfold T.notifyDel
  split
  · exact h
  · rename_i n hsel
    have hl : Live t n := by
      cases key with
      | none => simp at hsel; subst hsel; exact live_root h
      | some k => exact lookup_live h hsel
    obtain ⟨m, hm⟩ := hl
    simp only
    split
    · have h1 := modify_notifs_inv h ⟨m, hm⟩ ((t.nd n).notifs.filter fun f => !notifierMatch events id f)
      have hl1 : Live (t.modify n fun x => { x with notifs := (t.nd n).notifs.filter fun f => !notifierMatch events id f }) n := by
        unfold T.modify
        exact ⟨{ t.nd n with notifs := (t.nd n).notifs.filter fun f => !notifierMatch events id f },
          by rw [node?_set]; simp [lt_of_node? hm]⟩
      exact (release_inv_get _ _ n h1 hl1).1
    · exact h

/-- `trie_iter_next` -/
theorem iterNext_inv {t : T} (h : Inv t) (k : Nat) {r : T × List Event × Res} (hr : t.iterNext k = some r) :
    Inv r.1 := by
  unfold T.iterNext at hr
  split at hr
  · exact absurd hr (by simp)
  · rename_i it _
    split at hr
    · injection hr with hr; subst hr; exact h
    · rename_i p _
      split at hr
      · injection hr with hr; subst hr; exact inv_with_crashed h _
      · rename_i hp
        have hpl : Live t p := by
          cases hh : t.node? p with
          | none => simp [hh] at hp
          | some m => exact ⟨m, hh⟩
        -- whatever node is chosen next is allocated
        have hnx : ∀ n, (if (t.nd p).parent.isNone && it.pfx.isSome then
              match t.lookup (it.pfx.getD []) false with
              | none => (it.root, none)
              | some r =>
                if (t.nd r).val == 0 || (t.nd r).removed then (r, t.nodeNext r false t.fuel r) else (r, some r)
            else (it.root, t.nodeNext it.root false t.fuel p)).2 = some n → Live t n := by
          intro n hn
          split at hn
          · split at hn
            · exact absurd hn (by simp)
            · rename_i r hlr
              split at hn
              · exact nodeNext_live h _ _ _ _ _ hn
              · simp only at hn; injection hn with hn; subst hn; exact lookup_live h hlr
          · exact nodeNext_live h _ _ _ _ _ hn
        generalize (if (t.nd p).parent.isNone && it.pfx.isSome then
              match t.lookup (it.pfx.getD []) false with
              | none => (it.root, none)
              | some r =>
                if (t.nd r).val == 0 || (t.nd r).removed then (r, t.nodeNext r false t.fuel r) else (r, some r)
            else (it.root, t.nodeNext it.root false t.fuel p)) = rn at hr hnx
        obtain ⟨root, nx⟩ := rn
        simp only at hr hnx
        cases nx with
        | none =>
          simp only at hr
          injection hr with hr; subst hr
          obtain ⟨m, hm⟩ := hpl
          exact inv_with_iters (nodeDeref_inv_get h hm).1 _
        | some n =>
          simp only at hr
          injection hr with hr; subst hr
          obtain ⟨h1, hkeep⟩ := nodeRef_inv h (hnx n rfl)
          obtain ⟨m, hm⟩ := hkeep p hpl
          exact inv_with_iters (nodeDeref_inv_get h1 hm).1 _

/-- `trie_iter_free` -/
theorem iterFree_inv {t : T} (h : Inv t) (k : Nat) {r : T × List Event × Res} (hr : t.iterFree k = some r) :
    Inv r.1 := by
  unfold T.iterFree at hr
  split at hr
  · exact absurd hr (by simp)
  · split at hr
    · injection hr with hr; subst hr; exact inv_with_iters h _
    · rename_i p _
      split at hr
      · injection hr with hr; subst hr; exact inv_with_crashed h _
      · rename_i hp
        injection hr with hr; subst hr
        cases hh : t.node? p with
        | none => simp [hh] at hp
        | some m => exact inv_with_iters (nodeDeref_inv_get h hh).1 _

theorem foreachLoop_inv : ∀ (fuel : Nat) (t : T) (stop : Nat) (evs : List Event) (vis : List (Key × Val)),
    Inv t → Inv (T.foreachLoop fuel t stop evs vis).1 := by
  intro fuel
  induction fuel with
  | zero => intro t stop evs vis h; exact h
  | succ f ih =>
    intro t stop evs vis h
    simp only [T.foreachLoop]
    split
    · rename_i t1 e1 kv heq
      have h1 : Inv t1 := iterNext_inv h 0 heq
      split
      · exact h1
      · exact ih _ _ _ _ h1
    · rename_i t1 e1 heq; exact iterNext_inv h 0 heq
    · rename_i t1 e1 r _ _ heq; exact iterNext_inv h 0 heq
    · exact h

/-- `qb_map_foreach`, complete or abandoned, with or without prefix -/
theorem foreach_inv {t : T} (h : Inv t) (stop : Nat) (pfx : Option Key) : Inv (t.foreach stop pfx).1 := by
  have h0 : Inv (t.iterCreate 0 pfx) := inv_with_iters h _
  have h1 := foreachLoop_inv t.fuel (t.iterCreate 0 pfx) stop [] [] h0
  simp only [T.foreach]
  split
  · exact h1
  · exact h1
  · split
    · rename_i t2 e2 heq; exact iterFree_inv h1 0 heq
    · rename_i t2 e2 r2 _ heq; exact iterFree_inv h1 0 heq
    · exact h1

/-- operations with the arguments the properties quantify over -/
def ValidOp : Op → Prop
  | .put k v _ => ValidKey k ∧ v ≠ 0
  | .nadd k _ _ => ∀ p, k = some p → ValidKey p
  | _ => True

/-- every operation keeps the structural invariant -/
theorem step_inv {t : T} (h : Inv t) {op : Op} (hop : ValidOp op) : Inv (t.step op).1 := by
  unfold T.step
  split
  · exact h
  · cases op with
    | put k v l => exact put_inv h hop.1 hop.2
    | get k => exact h
    | rm k => exact rm_inv_any h k
    | count => exact h
    | foreach stop pfx => exact foreach_inv h stop pfx
    | nadd k e i => exact notifyAdd_inv h k hop e i
    | ndel k e i => exact notifyDel_inv h k e i
    | destroy =>
      simp only
      split
      · exact h
      · exact inv_create _ _ _
    | iterNew i pfx =>
      simp only
      split
      · exact h
      · exact inv_with_iters h _
    | iterNext i =>
      simp only
      split
      · exact h
      · rename_i t1 evs r heq; exact iterNext_inv h (i + 1) heq
    | iterFree i =>
      simp only
      split
      · exact h
      · rename_i t1 evs r heq; exact iterFree_inv h (i + 1) heq

theorem runFrom_inv : ∀ (ops : List Op) (t : T), Inv t → (∀ op ∈ ops, ValidOp op) → Inv (t.runFrom ops).1 := by
  intro ops
  induction ops with
  | nil => intro t h _; exact h
  | cons op rest ih =>
    intro t h hv
    exact ih _ (step_inv h (hv op (by simp))) (fun o ho => hv o (by simp [ho]))

/-- The trie is never structurally corrupted: after ANY history of the C17/C18 operations — any
    number of open iterators, removals and insertions under them, abandoned traversals, notifier
    registrations, destroy — the structural invariant holds.  (Code as it is in /repo.) -/
theorem trie_inv_all_histories (ops : List Op) (h : ∀ op ∈ ops, ValidOp op) : Inv (run ops).1 :=
  runFrom_inv ops empty inv_empty h

/-- the same for the code as found (before D17/D18, D80) -/
theorem trie_inv_all_histories_orig (ops : List Op) (h : ∀ op ∈ ops, ValidOp op) : Inv (runOrig ops).1 :=
  runFrom_inv ops (create false false) (inv_create _ _ _) h

/-- non-vacuity: the D83 witness is a valid history; the structure is intact after it although an
    entry was lost -/
example : ∀ op ∈ [Op.nadd none 29 9, .iterNew 3 none, .put [0x41, 0x31] 5 0, .iterNext 3, .put [0x41] 6 0, .iterFree 3],
    ValidOp op := by
  intro op hop
  simp at hop
  rcases hop with rfl | rfl | rfl | rfl | rfl | rfl <;> simp [ValidOp, ValidKey, KeyByte]

end QbVerif.Trie
