/-
Property C15 — refutation witnesses: concrete files on which the code BEFORE each repair fails.

`Cfg` (Model/Dump.lean) has one switch per repair.  For every switch there is a small concrete
file on which the printer with ONLY that repair taken out (all the others in place) dies or
reports the wrong result, while the code as it is now (`Cfg.repaired`) ends with a result code
(`each_repair_needed`); the same files make the code before all repairs (`Cfg.orig`) fail
(`orig_fails`).  Page size 4096 as in reality; everything is decided by kernel evaluation of
the executable model (`decide`).

* D25 `d25_abort_witness`  new-format dump cut after 26 bytes: `assert(n_read == sizeof(uint32_t))`
* D24 `d24_oob_witness`    header with a consistent hash whose read pointer (2048) passes the old
                           `> st.st_size` test (file of 2068 bytes) but is twice the ring's word size
* D50 `d50_oob_witness`    record whose message has no NUL: `strlen` in the decoder runs off the
                           (uninitialised) chunk buffer
* D51 `d51_oob_witness`    decoder returns 512 (allowed by its contract): `message[512] = '\0'`
* D52 `d52_rc_witness`     19-byte file: `-errno` = 0 = "success" is returned for a short `read`
-/
import QbVerif.Props.C15

namespace QbVerif.C15
open QbVerif.Ring QbVerif.Dump QbVerif.Gen

/-- a decoder honouring C14's contract: leaves "x" in the buffer, returns 2 -/
def okDec : Decoder Unit := ⟨fun s _ => (s, ⟨[120], 2⟩)⟩

/-- a decoder honouring C14's contract that fills the buffer: 511 characters and the NUL -/
def fullDec : Decoder Unit := ⟨fun s _ => (s, ⟨List.replicate 511 120, 512⟩)⟩

theorem okDec_ok : DecoderOk okDec := fun _ _ => by
  show 1 ≤ 2 ∧ 2 ≤ BB_LOG_MAX_LEN
  decide

theorem fullDec_ok : DecoderOk fullDec := fun _ _ => by
  show 1 ≤ 512 ∧ 512 ≤ BB_LOG_MAX_LEN
  decide

/-- ring header block of a dump with a consistent hash -/
def hdrBlock (ws wp rp : Nat) : List Nat :=
  toLe32 ws ++ toLe32 wp ++ toLe32 rp ++ toLe32 RB_FILE_HEADER_VERSION ++
  toLe32 ((ws + wp + rp + RB_FILE_HEADER_VERSION) % 4294967296)

/-- D25: marker block, word size 1, then two bytes of the write pointer -/
def d25File : File := marker ++ toLe32 1 ++ [0, 0]

/-- D24: 507 data words, chunk magic at word 1 (where the reader looks for `read_pt + 1` modulo
    the ring's 1024 words), read pointer 2048 ≤ file size 2068 -/
def d24File : File := marker ++ hdrBlock 507 0 2048 ++ [0, 0, 0, 0] ++ toLe32 MAGIC ++ List.replicate 2020 0

/-- one record: line 7, tags 1, priority 6 (info), function "f", time 5 s + 3 ms, message `msg` -/
def witRecord (msg : List Nat) : List Nat :=
  toLe32 7 ++ toLe32 1 ++ [6] ++ toLe32 2 ++ [102, 0] ++ toLe64 5 ++ toLe64 3000000 ++ toLe32 msg.length ++ msg

/-- a new-format dump of 13 data words holding one chunk (36 bytes: `witRecord` with a one-byte
    message) at word 0; `write_pt` = 11 -/
def recFile (msgByte : Nat) : File :=
  marker ++ hdrBlock 13 11 0 ++ toLe32 36 ++ toLe32 MAGIC ++ witRecord [msgByte] ++ List.replicate 8 0

/-- D50: the one-byte message is "A" without a NUL -/
def d50File : File := recFile 65

/-- D51: a well-formed record (empty format string: just the NUL) -/
def d51File : File := recFile 0

/-- D52: 19 bytes, one short of a marker block -/
def d52File : File := List.replicate 19 0

def noAssertFix : Cfg := { Cfg.repaired with fixAssert := false }
def noPtrFix : Cfg := { Cfg.repaired with fixPtr := false }
def noRecFix : Cfg := { Cfg.repaired with fixRec := false }
def noTermFix : Cfg := { Cfg.repaired with fixTerm := false }
def noShortFix : Cfg := { Cfg.repaired with fixShort := false }

/-- D25: without the repair the truncated dump kills the process in `assert`; with it: -EIO -/
theorem d25_abort_witness :
    (printFromFile noAssertFix okDec () d25File).2.outcome = .abort ∧
    (printFromFile Cfg.repaired okDec () d25File).2 = ⟨.rc EIO, [], true⟩ := by
  decide +kernel

/-- D24: without the repair the reader is sent beyond the doubled ring mapping; with it: -EIO -/
theorem d24_oob_witness :
    (printFromFile noPtrFix okDec () d24File).2.outcome = .oob ∧
    (printFromFile Cfg.repaired okDec () d24File).2 = ⟨.rc EIO, [], true⟩ := by
  decide +kernel

/-- D50: without the record checks `strlen` of the unterminated message leaves the chunk buffer;
    with them the record is decoded from a bounded copy and the printer goes on to the end (-EIO
    is what it returns after the last record) -/
theorem d50_oob_witness :
    (printFromFile noRecFix okDec () d50File).2.outcome = .oob ∧
    (printFromFile Cfg.repaired okDec () d50File).2.outcome = .rc EIO ∧
    (printFromFile Cfg.repaired okDec () d50File).2.released = true := by
  decide +kernel

/-- D51: a decoder result that fills the 512-byte buffer makes the old code store behind it -/
theorem d51_oob_witness :
    (printFromFile noTermFix fullDec () d51File).2.outcome = .oob ∧
    (printFromFile Cfg.repaired fullDec () d51File).2.outcome = .rc EIO ∧
    (printFromFile Cfg.repaired fullDec () d51File).2.released = true := by
  decide +kernel

/-- D52: a file too short to hold a header was reported as printed successfully (0) -/
theorem d52_rc_witness :
    (printFromFile noShortFix okDec () d52File).2.outcome = .rc 0 ∧
    (printFromFile Cfg.repaired okDec () d52File).2.outcome = .rc EIO := by
  decide +kernel

/-- the same files against the code before ALL repairs -/
theorem orig_fails :
    (printFromFile Cfg.orig okDec () d25File).2.outcome = .abort ∧
    (printFromFile Cfg.orig okDec () d24File).2.outcome = .oob ∧
    (printFromFile Cfg.orig okDec () d50File).2.outcome = .oob ∧
    (printFromFile Cfg.orig fullDec () d51File).2.outcome = .oob ∧
    (printFromFile Cfg.orig okDec () d52File).2.outcome = .rc 0 := by
  decide +kernel

theorem not_good_of_abort {res : Result} (h : res.outcome = .abort) : ¬ Good res := by
  rintro ⟨⟨c, hc⟩, _⟩
  rw [h] at hc
  cases hc

theorem not_good_of_oob {res : Result} (h : res.outcome = .oob) : ¬ Good res := by
  rintro ⟨⟨c, hc⟩, _⟩
  rw [h] at hc
  cases hc

/-- **Every repair is needed**: `print_total_safe` fails for the printer with any single one of
    D25, D24, D50, D51 taken out (for a decoder that honours C14's contract), and without D52 a
    file shorter than a header block is reported as a success. -/
theorem each_repair_needed :
    (∃ f, ¬ Good (printFromFile noAssertFix okDec () f).2) ∧
    (∃ f, ¬ Good (printFromFile noPtrFix okDec () f).2) ∧
    (∃ f, ¬ Good (printFromFile noRecFix okDec () f).2) ∧
    (∃ D : Decoder Unit, DecoderOk D ∧ ∃ f, ¬ Good (printFromFile noTermFix D () f).2) ∧
    (∃ f, f.length < BB_FILE_HEADER_SIZE ∧ (printFromFile noShortFix okDec () f).2.outcome = .rc 0) :=
  ⟨⟨d25File, not_good_of_abort d25_abort_witness.1⟩, ⟨d24File, not_good_of_oob d24_oob_witness.1⟩,
   ⟨d50File, not_good_of_oob d50_oob_witness.1⟩, ⟨fullDec, fullDec_ok, d51File, not_good_of_oob d51_oob_witness.1⟩,
   ⟨d52File, by decide, d52_rc_witness.1⟩⟩

end QbVerif.C15
