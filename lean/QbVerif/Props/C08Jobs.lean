/-
Property C08, fourth file: deleted jobs never run (over whole histories, either version of the code).
-/
import QbVerif.Lemmas.LoopJobs6
import QbVerif.Props.C08

namespace QbVerif.Props.C08
open QbVerif.Loop QbVerif.Gen

theorem jobAdd_nextAid_le (s : St) (p id : Nat) : s.nextAid ≤ (s.jobAdd p id).1.nextAid := by
  unfold St.jobAdd; split
  · exact Nat.le_refl _
  · exact Nat.le_succ _

theorem gone_stable (a : Nat) : Stable (Gone a) (fun _ => True) where
  scriptsOk := fun _ _ _ _ _ _ => trivial
  api := fun s n op _ h => by
    cases op with
    | jobAdd p id =>
      unfold St.api; split
      · exact h
      · refine ⟨h.inv.jobAdd p id, Nat.lt_of_lt_of_le h.lt (jobAdd_nextAid_le s p id), fun hx => ?_⟩
        rcases jobAdd_mem s p id a hx with rfl | hx
        · exact Nat.lt_irrefl _ h.lt
        · exact h.out hx
    | _ => exact h.mono (api_jle s n _ (by intro p id hh; cases hh))
  setScripts := fun s id sc _ h => h.mono (JLe.of_eq rfl rfl rfl rfl (Nat.le_refl _))
  freedCons := fun s a h => h.mono (JLe.of_eq rfl rfl rfl rfl (Nat.le_refl _))
  abort := fun s w h => h.mono (JLe.of_eq rfl rfl rfl rfl (Nat.le_refl _))
  timerPre := fun s i h => h.mono (setTimer_same _ _ _).jle
  timerPost := fun s i h => h.mono (setTimer_same _ _ _).jle
  fdNeg := fun s i h => h.mono (setPe_same _ _ _).jle
  fdBack := fun s i h => h.mono (setPe_same _ _ _).jle
  sigDel := fun s reg h => h.mono (sigDel_jle s reg)
  pop := fun s p it rest hj h =>
    ⟨h.inv.pop p it rest hj, by simpa using h.lt, fun hx => h.out (pop_mem s p it rest hj a hx)⟩
  todoDec := fun s p h => h.mono (JLe.setLv s p _ (List.Sublist.refl _))
  setRemaining := fun s r h => h.mono (JLe.of_eq rfl rfl rfl rfl (Nat.le_refl _))
  enterRun := fun s h => h.mono (JLe.of_eq rfl rfl rfl rfl (Nat.le_refl _))
  leaveRun := fun s h => h.mono (JLe.of_eq rfl rfl rfl rfl (Nat.le_refl _))
  beginIter := fun s h => h.mono (beginIteration_jle s)
  pollEvent := fun s r rev h => h.mono (pollEvent_jle s r rev)

/-- **deleted_never_runs (jobs), history half.**  A job allocation that has left the loop without being
    dispatched (allocated: below the counter; neither pending on any level nor in the dispatch log — i.e.
    removed by `qb_loop_job_del`, see `job_del_removes`) never appears in the dispatch log after ANY
    continuation, and is never pending again: its callback is never invoked, the freed struct never touched. -/
theorem job_gone_never_runs (s : St) (a : Nat) (h : Gone a s) (cmds : List Cmd) :
    a ∉ (s.run cmds).1.dAids ∧ Gone a (s.run cmds).1 := by
  have hg := (gone_stable a).run s cmds (fun c _ => by cases c <;> simp [Cmd.ok]) h
  exact ⟨fun hx => hg.out (by unfold St.allIds; simp [hx]), hg⟩

/-- **deleted_never_runs (jobs).**  In any state reached by any history, if `qb_loop_job_del` returns 0 —
    whether the job was still on the wait list or had ALREADY been moved to the job list for dispatch — the job
    it found (allocation `a`, pending before) is neither pending nor dispatched afterwards, and after EVERY
    continuation (further API calls, callbacks deleting/re-adding anything, any ready sets) `a` does not occur
    in the log of dispatches: the callback of a successfully deleted job is never invoked.  (`jobDel_gone` holds
    in every state satisfying the job invariant, i.e. also for a delete issued from inside a callback; the
    continuation is then the rest of that iteration, covered by the same `Stable` walk.) -/
theorem deleted_never_runs_job (cfg : Cfg) (cmds1 : List Cmd) (p id : Nat)
    (hrc : (((St.init cfg).run cmds1).1.jobDel p id).2 = 0) :
    ∃ a, a ∈ ((St.init cfg).run cmds1).1.allIds ∧ a ∉ (((St.init cfg).run cmds1).1.jobDel p id).1.allIds ∧
      ∀ cmds2, a ∉ ((((St.init cfg).run cmds1).1.jobDel p id).1.run cmds2).1.dAids := by
  obtain ⟨a, ha, hg⟩ := jobDel_gone _ (jinv_reachable cfg cmds1) p id hrc
  exact ⟨a, ha, hg.out, fun cmds2 => (job_gone_never_runs _ a hg cmds2).1⟩

/-- non-vacuity: deleting a job that is already in the job list (moved there by the first iteration) -/
example : ((((St.init {}).run [.op (.jobAdd 0 7), .iterate []]).1.jobDel 0 7).2 = 0) ∧
    (((St.init {}).run [.op (.jobAdd 0 7), .iterate []]).1.lo.jobs ≠ []) := by decide

end QbVerif.Props.C08
