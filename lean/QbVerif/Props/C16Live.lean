import QbVerif.Props.C16

/-! C16, progress: no reachable state is a deadlock — whenever no thread can take a step, the controller
and the producer have completed their programs (in particular every `qb_log_fini` has returned: no lost
wake-up at shutdown) and the logging thread is absent or parked at `sem_wait`. -/
namespace QbVerif.Props.C16

open QbVerif.LogThread

theorem holds_enabledApp (s : St) (i : AppId) (h : (s.app i).pc.holds = true) : enabledApp s i = true := by
  unfold enabledApp
  cases hpc : (s.app i).pc <;> simp_all

theorem holds_enabledW (s : St) (h : s.pcW.holds = true) : enabledW s = true := by
  unfold enabledW
  cases hpc : s.pcW <;> simp_all

theorem quiescent_of (cfg : Cfg) (s : St) (g : LogThread.Inv cfg s) (hq : quiescent s = true) :
    s.c.pc = .idle ∧ s.c.prog = [] ∧ s.p.pc = .idle ∧ s.p.prog = [] ∧ (s.pcW = .none ∨ s.pcW = .wait) := by
  have hC : enabledApp s .C = false := by
    simp [quiescent, enabled] at hq; exact hq.1.1
  have hP : enabledApp s .P = false := by
    simp [quiescent, enabled] at hq; exact hq.1.2
  have hW : enabledW s = false := by
    simp [quiescent, enabled] at hq; exact hq.2
  -- nobody holds the lock
  have hown : s.owner = none := by
    cases ho : s.owner with
    | none => rfl
    | some t =>
      cases t
      · have := holds_enabledApp s .C (g.own_c.mp ho); rw [hC] at this; cases this
      · have := holds_enabledApp s .P (g.own_p.mp ho); rw [hP] at this; cases this
      · have := holds_enabledW s (g.own_w.mp ho); rw [hW] at this; cases this
  have hfree : lockFree s = true := by simp [lockFree, hown]
  -- the producer is done or the controller is (both shown below); first the producer's park point
  have hPpc : s.p.pc = .idle := by
    rcases g.p_pcs with h | h
    · exact h
    · cases hp : s.p.pc <;> simp [hp] at h <;> simp [enabledApp, St.app, hp, hfree] at hP
  have hPprog : s.p.prog = [] := by
    simpa [enabledApp, St.app, hPpc] using hP
  have hPd : s.appDone .P = true := by simp [St.appDone, St.app, hPpc, hPprog]
  -- the logging thread
  have hWpc : (s.pcW = .none ∨ s.pcW = .wait) ∨ (s.pcW = .done) := by
    cases hw : s.pcW <;> simp [enabledW, hw, hfree] at hW <;> simp
  -- the controller
  have hCpc : s.c.pc = .idle := by
    cases hc : s.c.pc <;> simp [enabledApp, St.app, hc, hfree, hPd] at hC
    · rfl
    · -- startWait: the logging thread has not posted yet, so it can
      have hl : s.lock = .live := g.need_c (by rw [hc]; rfl)
      have hs := g.hs hl
      rw [hc, hC] at hs
      have hp0 : s.pcW.posted = 0 := by
        simp at hs; omega
      have := WPc.posted_zero hp0
      rcases hWpc with (h | h) | h <;> rw [this] at h <;> cases h
    · -- finiJoin: the logging thread holds a token or has exited
      have hl : s.lock = .live := g.need_c (by rw [hc]; rfl)
      obtain ⟨k, hk, htok, _⟩ := g.tok hl
      rcases hWpc with (h | h) | h
      · exact absurd (g.w_none.mp h) (by rw [hl]; simp)
      · rw [h] at htok
        have := htok rfl
        simp [hc, hPpc] at this
        have hk0 : k ≠ 0 := by omega
        have : enabledW s = true := by
          simp [enabledW, h, hk]; exact hk0
        rw [hW] at this; cases this
      · exact absurd h hC
  have hCprog : s.c.prog = [] := by
    simpa [enabledApp, St.app, hCpc] using hC
  refine ⟨hCpc, hCprog, hPpc, hPprog, ?_⟩
  rcases hWpc with h | h
  · exact h
  · have := g.wexit (by rw [h]; rfl)
    rw [hCpc] at this; cases this

/-- **no_deadlock** (progress part of "finalising returns only after everything queued has been written"):
under every schedule and op order, a state in which no thread can take a step is a state in which the
controller has returned from all its operations (every `qb_log_fini` included), the producer has finished,
and the logging thread does not exist or sleeps in `sem_wait`. -/
theorem no_deadlock (cfg : Cfg) (hf : Fixed cfg) (progC progP : List Op) (hw : WF cfg progC progP)
    (sched : List Tid) :
    let s := reach cfg progC progP sched
    quiescent s = true →
      s.c.pc = .idle ∧ s.c.prog = [] ∧ s.p.pc = .idle ∧ s.p.prog = [] ∧ (s.pcW = .none ∨ s.pcW = .wait) := by
  intro s hq
  exact quiescent_of cfg s (good_reach cfg hf progC progP hw sched).inv hq

set_option maxRecDepth 100000 in
/-- the code as found deadlocks nowhere on the D10 schedule either (D10 loses the record, it does not hang);
    this is the quiescent end state of the repaired code: everything returned, thread gone -/
theorem test_quiescent_end :
    let s := reach cfgRepo progDoc [] schedD10
    quiescent s = true ∧ s.c.prog = [] ∧ s.pcW = .none := by decide

end QbVerif.Props.C16
