/-
C01 — refutation witnesses for two broken variants of the code, and non-vacuity examples for the
theorems of Props/C01.lean.

The variants are the two orderings the property text names ("the dangerous windows"):
* `wstepMBS`: `qb_rb_chunk_commit` publishes MAGIC BEFORE it stores the chunk's size word
  (corpus/C01/magic-before-size.ops is a schedule that exposes this mutant on the real code);
* `rstepRBC`: `_rb_chunk_reclaim` advances `read_pt` BEFORE it clears the chunk header
  (corpus/C01/rp-before-clear.ops; seeded/C01-1 is this change as a patch to ringbuffer.c).
Both are defined as overrides of the step functions of Model/RingConc.lean at the program points
concerned; everywhere else they ARE `wstep` / `rstep`.  For each a concrete schedule on a small
ring makes the conclusion of `spsc_fifo` false, while on the code as it is (`run`) the same
programs and schedule satisfy it (by the theorem; the `test_…` facts show the outputs).
-/
import QbVerif.Props.C01

namespace QbVerif.Props.C01
open QbVerif.Ring QbVerif.RingSpec QbVerif.RingLemmas QbVerif.RingConc QbVerif.RingConcLemmas

/-- mutant: in `qb_rb_chunk_commit` the store `MAGIC_SET(old_write_pt, MAGIC)` comes first, then
    `shared_data[old_write_pt] = len` (+ `qb_rb_chunk_step`, one step), the rest as before; the
    former publication point only moves on -/
def wstepMBS (c : Conf) : Conf :=
  match c.wprog with
  | [] => c
  | op :: _ =>
    let r := c.rb
    match c.wpc with
    | .cmSz old => { c with rb := r.setMagic old MAGIC, wpc := .cmStep old }
    | .cmStep old =>
      let r1 : Rb := { r with mem := wr32 r.mem old op.data.length }
      { c with rb := r1, wpc := .cmNext old (r1.chunkStep old) }
    | .cmMg _ => { c with wpc := .cmPost }
    | _ => wstep c

/-- mutant: in `_rb_chunk_reclaim` the store `read_pt = new_read_pt` comes first, then the header
    is cleared (size word and DEAD mark, one step), then the function returns -/
def rstepRBC (c : Conf) : Conf :=
  match c.rprog with
  | [] => c
  | _ :: _ =>
    let r := c.rb
    match c.rpc with
    | .rcClr old new => { c with rb := { r with rp := new }, rpc := .rcDead old new }
    | .rcDead old new =>
      let r1 : Rb := { r with mem := wr32 r.mem old 0 }
      { c with rb := r1.setMagic old DEAD, rpc := .rcSetRp new }
    | _ => rstep c

/-- `run` with the given step functions -/
def runWith (ws rs : Conf → Conf) (c : Conf) : List Tid → Conf
  | [] => c
  | .w :: ts => runWith ws rs (ws c) ts
  | .r :: ts => runWith ws rs (rs c) ts

theorem runWith_std (c : Conf) (s : List Tid) : runWith wstep rstep c s = run c s := by
  induction s generalizing c with
  | nil => rfl
  | cons t ts ih => cases t <;> exact ih _

/-- schedule notation: `[(w, 9), (r, 12)]` = nine writer steps, then twelve reader steps -/
def sch (l : List (Tid × Nat)) : List Tid := l.flatMap (fun p => List.replicate p.2 p.1)

/-- the conclusion of `spsc_fifo` as a decidable test on a configuration -/
def fifoOk (wprog : List WOp) (c : Conf) : Bool :=
  (okReads c.rOuts).isPrefixOf (okWrites wprog c.wOuts ++ inflightW c)

theorem fifoOk_iff (wprog : List WOp) (c : Conf) :
    fifoOk wprog c = true ↔ okReads c.rOuts <+: okWrites wprog c.wOuts ++ inflightW c := by
  unfold fifoOk; exact List.isPrefixOf_iff_prefix

/-! ### magic before size -/

def mbsW : List WOp := [⟨false, [1, 2, 3, 4, 5]⟩]
def mbsR : List ROp := [.read 100]
/-- the writer runs up to and including the (early) MAGIC store, the reader does a whole
    `qb_rb_chunk_read`, the writer finishes -/
def mbsSched : List Tid := sch [(.w, 9), (.r, 12), (.w, 5)]

/-- **Refutation witness: MAGIC before size.**  On a 5-word ring without semaphore the reader
    finds MAGIC with the size word still 0 and returns an EMPTY chunk (and consumes it) although the
    only chunk ever written has 5 bytes: torn / unwritten data, `spsc_fifo`'s conclusion is false. -/
theorem magic_before_size_refuted :
    (runWith wstepMBS rstep (init (Rb.open 4 4 false false) mbsW mbsR) mbsSched).rOuts = [.data []] ∧
    (runWith wstepMBS rstep (init (Rb.open 4 4 false false) mbsW mbsR) mbsSched).wOuts = [.wrote 5] ∧
    fifoOk mbsW (runWith wstepMBS rstep (init (Rb.open 4 4 false false) mbsW mbsR) mbsSched) = false := by
  decide +kernel

/-- the code as it is, same programs and schedule: the reader sees ALLOC, not MAGIC, and reports
    that nothing is there -/
theorem test_magic_before_size_actual :
    (run (init (Rb.open 4 4 false false) mbsW mbsR) mbsSched).rOuts = [.err .etimedout] ∧
    (run (init (Rb.open 4 4 false false) mbsW mbsR) mbsSched).wOuts = [.wrote 5] ∧
    fifoOk mbsW (run (init (Rb.open 4 4 false false) mbsW mbsR) mbsSched) = true := by
  decide +kernel

/-! ### read_pt before clear -/

def rbcW : List WOp := [⟨false, [1, 2, 3, 4]⟩, ⟨false, [5, 6, 7, 8]⟩, ⟨false, (List.range 20).map (· + 11)⟩]
def rbcR : List ROp := [.read 100, .read 100, .read 100]
/-- write A, read A, write B, read B up to and including the (early) `read_pt` store; the writer
    now sees an empty ring and writes the 20-byte chunk C over the whole ring, including B's old
    header; the reader finishes (clearing "B's header", i.e. two payload words of C) and reads C -/
def rbcSched : List Tid := sch [(.w, 14), (.r, 12), (.w, 14), (.r, 10), (.w, 14), (.r, 2), (.r, 12)]

/-- **Refutation witness: read_pt before clear.**  On an 8-word ring without semaphore all three
    writes succeed, the third read returns a 20-byte chunk whose bytes 12..19 are `00 00 00 00 d0
    d0 d0 d0` instead of what was written: a successful write was damaged before it was read. -/
theorem rp_before_clear_refuted :
    (runWith wstep rstepRBC (init (Rb.open 19 4 false false) rbcW rbcR) rbcSched).wOuts =
      [.wrote 4, .wrote 4, .wrote 20] ∧
    (runWith wstep rstepRBC (init (Rb.open 19 4 false false) rbcW rbcR) rbcSched).rOuts =
      [.data [1, 2, 3, 4], .data [5, 6, 7, 8],
       .data [11, 12, 13, 14, 15, 16, 17, 18, 19, 20, 21, 22, 0, 0, 0, 0, 208, 208, 208, 208]] ∧
    fifoOk rbcW (runWith wstep rstepRBC (init (Rb.open 19 4 false false) rbcW rbcR) rbcSched) = false := by
  decide +kernel

/-- the code as it is, same programs and schedule: the writer still sees B in the ring and
    refuses C (`EAGAIN`); nothing is damaged -/
theorem test_rp_before_clear_actual :
    (run (init (Rb.open 19 4 false false) rbcW rbcR) rbcSched).wOuts = [.wrote 4, .wrote 4, .err .eagain] ∧
    (run (init (Rb.open 19 4 false false) rbcW rbcR) rbcSched).rOuts =
      [.data [1, 2, 3, 4], .data [5, 6, 7, 8], .err .etimedout] ∧
    fifoOk rbcW (run (init (Rb.open 19 4 false false) rbcW rbcR) rbcSched) = true := by
  decide +kernel

/-! ### non-vacuity -/

/-- the hypothesis of all theorems is satisfiable: the ring the harness opens (`qb_rb_open` of
    4080 bytes, 4096-byte pages), with and without semaphore -/
example : Start (Rb.open 4080 4096 false true) := start_open 4080 4096 true (by decide) (by decide) (by decide)
example : Start (Rb.open 4080 4096 false false) := start_open 4080 4096 false (by decide) (by decide) (by decide)
/-- … and the small rings of the witnesses -/
example : Start (Rb.open 4 4 false false) := start_open 4 4 false (by decide) (by decide) (by decide)
example : Start (Rb.open 19 4 false true) := start_open 19 4 true (by decide) (by decide) (by decide)

/-- an interleaved run with semaphore on a 14-word ring: word-wise and `memcpy` writers, peek +
    word-wise copy + reclaim and `read` readers, context switches inside the calls (the reader is
    inside its peek while the second chunk is allocated, etc.), a third chunk that wraps around
    the end of the ring, reads on an empty ring, a read with a too small buffer (ENOBUFS, chunk
    stays) — the reads do return data (the prefix in `spsc_fifo` is not the empty list) -/
def nvW : List WOp :=
  [⟨true, [1, 2, 3, 4, 5, 6]⟩, ⟨false, [9, 8, 7, 6, 5, 4, 3, 2, 1]⟩, ⟨true, (List.range 13).map (· + 20)⟩]
def nvR : List ROp := [.pr true, .read 100, .pr false, .read 5, .read 100]
def nvSched : List Tid :=
  sch [(.w, 16), (.r, 5), (.w, 9), (.r, 4), (.w, 5), (.r, 9), (.w, 7), (.r, 5), (.w, 6), (.r, 7), (.w, 8), (.r, 40)]

/-- after `nvSched`: both threads idle, two chunks read, the third (wrapped) one unread, semaphore
    at 1 — the hypotheses of `spsc_quiescent_complete` and `spsc_sem_counts` are reachable with a
    non-empty queue -/
theorem test_quiescent_nonempty :
    (run (init (Rb.open 43 4 false true) nvW nvR) nvSched).quiescent = true ∧
    (run (init (Rb.open 43 4 false true) nvW nvR) nvSched).rb.sem = some 1 ∧
    ((run (init (Rb.open 43 4 false true) nvW nvR) nvSched).rb.rp,
      (run (init (Rb.open 43 4 false true) nvW nvR) nvSched).rb.wp) = (9, 1) ∧
    okReads (run (init (Rb.open 43 4 false true) nvW nvR) nvSched).rOuts =
      [[1, 2, 3, 4, 5, 6], [9, 8, 7, 6, 5, 4, 3, 2, 1]] ∧
    okWrites nvW (run (init (Rb.open 43 4 false true) nvW nvR) nvSched).wOuts = nvW.map (·.data) := by
  decide +kernel

/-- a second run, same ring: a read into a too small buffer (ENOBUFS: the chunk stays and is
    returned by the next call), a write refused for lack of room while the reader is inside a call
    (EAGAIN: not in `okWrites`, never returned by a read), a peek on the emptied ring -/
def nvR2 : List ROp := [.read 5, .pr false, .read 100, .pr true]
def nvSched2 : List Tid := sch [(.w, 20), (.r, 3), (.w, 7), (.r, 6), (.w, 9), (.r, 15), (.w, 20), (.r, 40)]

theorem test_nonvacuous_run2 :
    (run (init (Rb.open 43 4 false true) nvW nvR2) nvSched2).rOuts =
      [.err .enobufs, .data [1, 2, 3, 4, 5, 6], .data [9, 8, 7, 6, 5, 4, 3, 2, 1], .timedOut] ∧
    (run (init (Rb.open 43 4 false true) nvW nvR2) nvSched2).wOuts = [.wrote 6, .wrote 9, .err .eagain] ∧
    okWrites nvW (run (init (Rb.open 43 4 false true) nvW nvR2) nvSched2).wOuts =
      [[1, 2, 3, 4, 5, 6], [9, 8, 7, 6, 5, 4, 3, 2, 1]] := by
  decide +kernel

end QbVerif.Props.C01
