/-
Property C08, fifth file: the STRUCTURAL invariant of the timer machinery over whole histories (either version
of the code, any scripts, `nonce` steering allowed), as an instance of the context walk (Lemmas/LoopWalk3.lean):
timer-list entries name ACTIVE slots (each once), a linked `timers[i].item` means slot i is JOBLIST with a
non-zero check word and is linked exactly once on the three levels, the slot whose timer_dispatch is running is
JOBLIST with check = 0 and on no list, no slot is ever DELETED, handles carry a non-zero check word, wait lists
hold jobs only.  Consequences: the two `assert`s of loop_timerlist.c never fire, a timer registration is handed
to timer_dispatch at most once per queueing, `timer_del_makes_stale` without its side hypothesis.
-/
import QbVerif.Lemmas.LoopStruct6
import QbVerif.Props.C08Timer

namespace QbVerif.Props.C08
open QbVerif.Loop QbVerif.Gen

theorem todoDec_tw {fl : Option Nat} {s : St} (h : TW fl s) (p : Nat) : TW fl (s.todoDec p) :=
  h.frame (P := true) (setLv_fr s p { s.lv p with todo := (s.lv p).todo - 1 } rfl (fun _ hx => Or.inl hx))

theorem popped_wg {s : St} (h : WG s) (p : Nat) (it : Item) (rest : List Item) : WG (s.popped p it rest) :=
  (h.setLv p { s.lv p with jobs := rest } (fun _ hx => Or.inl hx)).of_eq (by simp [St.popped]) (by simp [St.popped])
    (by simp [St.popped])

theorem abortUnless_wg {s : St} (h : WG s) (ok : Bool) : WG (s.abortUnless ok) := by
  unfold St.abortUnless; split
  · exact h.of_eq rfl rfl rfl
  · exact h

theorem tw_walk : Walk (TW none) (fun it _ => TW (timerIdx it)) (fun _ => True) (fun _ => True) where
  inner := fun it _ => tw_script (timerIdx it)
  scriptsOk := fun _ _ _ _ _ _ => trivial
  apiOut := fun s op _ h => h.api false op
  setScripts := fun s id sc _ h => h.frame (P := true) (by fr_rfl)
  begin := fun s p it rest hj _ h => by
    refine ⟨h.1.begin p it rest hj, ?_⟩
    have hw := popped_wg h.2 p it rest
    cases it with
    | job a d => exact hw
    | sig c r sg d => exact hw
    | fd i => exact abortUnless_wg hw _
    | timer i =>
      exact (abortUnless_wg hw (((s.popped p (.timer i) rest).timerSlot i).state == .joblist)).of_eq
        (by simp [St.pre]) (by simp [St.pre]) (by simp [St.pre])
  finish := fun s it p res h => by
    apply todoDec_tw
    cases it with
    | job a d => exact h.frame (P := true) (by fr_rfl)
    | timer i => exact ⟨h.1.finishTimer, h.2.of_eq (by simp [St.post]) (by simp [St.post]) (by simp [St.post])⟩
    | fd i =>
      show TW none (s.fdAfter i res)
      unfold St.fdAfter
      split
      · exact h.frame (setPe_fr _ _ _)
      · split
        · exact h.frame (setPe_fr _ _ _)
        · exact h
    | sig c r sg d =>
      show TW none ((s.sigDelIf r res).freeIfOk c)
      have h1 : TW none (s.sigDelIf r res) := by
        unfold St.sigDelIf; split
        · exact h.frame (sigDel_fr s r (P := true))
        · exact h
      exact h1.frame (P := true) (by unfold St.freeIfOk; fr_rfl)
  setRemaining := fun s r h => h.frame (P := true) (by fr_rfl)
  enterRun := fun s h => h.frame (P := true) (by fr_rfl)
  leaveRun := fun s h => h.frame (P := true) (by fr_rfl)
  beginIter := fun s h => h.beginIteration
  pollEvent := fun s r rev h => h.pollEvent r rev

theorem tw_init (cfg : Cfg) : TW none (St.init cfg) := by
  have hslot : ∀ k, ({ cfg := cfg } : St).timerSlot k = {} := fun k => by simp [St.timerSlot, List.getD]
  have h0 : TW none ({ cfg := cfg } : St) := by
    refine ⟨⟨(fun e he => nomatch he), List.nodup_nil, (fun i hi => ?_), (fun i => Nat.zero_le _), (fun _ hh => nomatch hh),
      (fun e he => nomatch he), (fun i => ?_), (fun i => ?_), (fun i hne => ?_)⟩, (fun it hit => nomatch hit)⟩
    · exact absurd hi (Nat.lt_irrefl 0)
    · rw [hslot]; simp
    · rw [hslot]; intro hh; cases hh
    · rw [hslot] at hne; exact absurd rfl hne
  unfold St.init
  exact (h0.frame (pollAddCore_fr _ false QB_LOOP_HIGH PIPE_FD 1 0)).frame (setPe_fr _ _ _)

/-- **the structural invariant of the timer machinery holds after EVERY history** (either version of the code,
    any scripts — incl. callbacks deleting themselves or queued others and re-adding —, any ready sets, `nonce`
    steering allowed) -/
theorem timer_struct_reachable (cfg : Cfg) (cmds : List Cmd) :
    TG none ((St.init cfg).run cmds).1 ∧ WG ((St.init cfg).run cmds).1 :=
  tw_walk.run _ cmds (fun c _ => by cases c <;> simp [Cmd.ok2]) (tw_init cfg)

/-- `expire_the_timers` never meets its `assert(t->state == QB_POLL_ENTRY_ACTIVE)`: in every reachable state
    every entry of the timer list names an ACTIVE slot, and names it once -/
theorem expire_assert_holds (cfg : Cfg) (cmds : List Cmd) :
    (∀ e ∈ ((St.init cfg).run cmds).1.tl, (((St.init cfg).run cmds).1.timerSlot e.2).state = .active) ∧
    (((St.init cfg).run cmds).1.tl.map Prod.snd).Nodup :=
  ⟨(timer_struct_reachable cfg cmds).1.tlAct, (timer_struct_reachable cfg cmds).1.tlNd⟩

/-- `timer_dispatch` never meets its `assert(t->state == QB_POLL_ENTRY_JOBLIST)`, and **item uniqueness**: in
    every reachable state a timer item at the head of a level's job list belongs to a JOBLIST slot with a
    non-zero check word (so the ghost log entry written by the pop names a real registration) and is linked
    nowhere else on the three levels — after the pop it is on no list, and it is queued again only by a new
    `qb_loop_timer_add` (fresh check word) -/
theorem timer_dispatch_assert_holds (cfg : Cfg) (cmds : List Cmd) (p i : Nat) (rest : List Item)
    (hj : (((St.init cfg).run cmds).1.lv p).jobs = .timer i :: rest) :
    (((St.init cfg).run cmds).1.timerSlot i).state = .joblist ∧
    (((St.init cfg).run cmds).1.timerSlot i).check ≠ 0 ∧
    ((St.init cfg).run cmds).1.cnt (.timer i) = 1 ∧
    ((((St.init cfg).run cmds).1.popped p (.timer i) rest).cnt (.timer i) = 0) := by
  have h := (timer_struct_reachable cfg cmds).1
  have hc := cnt_pop _ p (.timer i) rest hj (.timer i)
  simp only [if_true] at hc
  have hpos : 0 < ((St.init cfg).run cmds).1.cnt (.timer i) := by omega
  have hq := h.qJob i hpos
  have h1 := h.qNd i
  exact ⟨hq.1, h.nz i (by rw [hq.1]; simp) (fun hh => nomatch hh), by omega, by omega⟩

/-- non-vacuity: an expired timer at the head of its level -/
example : ∃ cmds p i rest, (((St.init {}).run cmds).1.lv p).jobs = Item.timer i :: rest :=
  ⟨[.op (.timerAdd 1 5 0 1), .op (.advance 100), .iterate []], 1, 0, [], by decide⟩

/-- timer slots never take the DELETED state (the side hypothesis of `timer_del_makes_stale`) -/
theorem timer_slot_never_deleted (cfg : Cfg) (cmds : List Cmd) (i : Nat) :
    (((St.init cfg).run cmds).1.timerSlot i).state ≠ .deleted :=
  (timer_struct_reachable cfg cmds).1.notDel i

/-- **deleted_never_runs (timers), first half, over histories**: in every reachable state a successful
    `qb_loop_timer_del` leaves the registration stale — also when the timer had already been queued -/
theorem timer_del_makes_stale_reachable (cfg : Cfg) (cmds : List Cmd) (h : Nat)
    (hrc : (((St.init cfg).run cmds).1.timerDel h).2 = 0) :
    ¬ liveT (((St.init cfg).run cmds).1.timerDel h).1 (h % 2^32) (h / 2^32) :=
  timer_del_makes_stale _ h hrc (timer_slot_never_deleted cfg cmds _)

/-- every handle the API has handed out carries a non-zero check word, so none matches the slot whose
    callback is running (check = 0): a timer cannot be deleted "under" its own dispatch -/
theorem handles_nonzero_check (cfg : Cfg) (cmds : List Cmd) :
    ∀ e ∈ ((St.init cfg).run cmds).1.th, 1 ≤ e.2 / 2^32 :=
  (timer_struct_reachable cfg cmds).1.hnd

/-! ### why `no_fault_reachable` cannot hold for ALL histories -/

/-- a signal callback that deletes its own registration AND returns non-zero: `_signal_dispatch_and_take_back_`
    then calls `qb_loop_signal_del` on the registration the callback has already freed -/
def sigSelfDel : List Cmd :=
  [.script 1 { ops := [.sigDel 0], ret := 1 }, .op (.sigAdd 0 10 0 1), .op (.signal 10), .iterate [], .iterate [],
   .iterate []]

/-- refutation witness for the unrestricted `no_fault_reachable`: the history above reaches the use-after-free
    outcome (repaired code).  It is a caller error (the callback asks twice for the deletion), outside the
    generator's class; the structural theorems above hold for it all the same. -/
theorem test_sig_self_delete_nonzero_return_uaf : ((St.init {}).run sigSelfDel).1.fault = some "uaf" := by decide

end QbVerif.Props.C08
