/-
Property C08, sixth file: **timer_runs_at_most_once** as ONE statement over the ghost dispatch log.  The two
halves that existed — staleness across protocol lines (`TInv` on the primitive-step walk `Stable`) and the atomic
begin of a dispatch round (`Walk`: pop + log + `check = 0` in one step) — are joined: `OInv` is an instance of the
context walk whose begin step logs the registration AND makes it stale at once, so that "logged ⇒ stale" is an
invariant and a logged registration can never be at the head of a job list again.
-/
import QbVerif.Props.C08Struct

namespace QbVerif.Props.C08
open QbVerif.Loop QbVerif.Gen

/-- every timer registration (slot i, check word c ≥ 1) occurs at most once in the dispatch log; one that occurs
    was drawn earlier and is stale -/
structure OQ (s : St) : Prop where
  le1 : ∀ i c, 1 ≤ c → s.dlog.count (Item.timer i, c) ≤ 1
  done : ∀ i c, 1 ≤ c → 1 ≤ s.dlog.count (Item.timer i, c) → c ≤ s.nonce ∧ ¬ liveT s i c

def OInv (s : St) : Prop := NN s ∧ chkLe s ∧ (s.fault.isSome ∨ OQ s)

theorem OInv.step {s s' : St} (h : OInv s) (t : TStep s s') : OInv s' := by
  refine ⟨t.nn h.1, t.chk h.2.1, ?_⟩
  rcases h.2.2 with hf | hq
  · exact Or.inl (t.fault hf)
  · by_cases hf' : s'.fault.isSome = true
    · exact Or.inl hf'
    · right
      refine ⟨fun i c hc => by rw [t.dlog]; exact hq.le1 i c hc, fun i c hc hcnt => ?_⟩
      rw [t.dlog] at hcnt
      obtain ⟨hn, hst⟩ := hq.done i c hc hcnt
      refine ⟨Nat.le_trans hn t.nonce, ?_⟩
      rcases t.stale i c hc hn hst with hf | hs
      · exact absurd hf hf'
      · exact hs

theorem abortUnless_tstep (s : St) (ok : Bool) : TStep s (s.abortUnless ok) := by
  unfold St.abortUnless; split
  · exact TStep.of_core rfl (Nat.le_refl _) (fun _ => rfl) rfl rfl
  · exact TStep.refl s

/-- the lines of a dispatch function before the callback -/
theorem pre_tstep (s : St) (it : Item) : TStep s (s.pre it) := by
  cases it with
  | job a d => exact TStep.refl s
  | sig c r sg d => exact TStep.refl s
  | fd i => exact abortUnless_tstep s _
  | timer i =>
    refine (abortUnless_tstep s ((s.timerSlot i).state == .joblist)).trans ?_
    exact TStep.setTimer_new _ i _ (fun _ => Nat.zero_le _)
      (fun k h1 _ hl => absurd hl.1 (by show (0 : Nat) ≠ k; omega))

/-- the lines of a dispatch function after the callback -/
theorem post_tstep (s : St) (res : Int) (it : Item) : TStep s (s.post res it) := by
  cases it with
  | job a d => exact TStep.of_eq rfl rfl rfl rfl rfl
  | timer i => exact TStep.setTimer_new s i _ (fun hc => hc i) (fun k _ _ hl => absurd rfl hl.2)
  | fd i =>
    show TStep s (s.fdAfter i res)
    unfold St.fdAfter
    split
    · exact setPe_tstep _ _ _
    · split
      · exact setPe_tstep _ _ _
      · exact TStep.refl s
  | sig c r sg d =>
    show TStep s ((s.sigDelIf r res).freeIfOk c)
    have h1 : TStep s (s.sigDelIf r res) := by
      unfold St.sigDelIf; split
      · exact sigDel_tstep s r
      · exact TStep.refl s
    exact h1.trans (by unfold St.freeIfOk; exact TStep.of_eq rfl rfl rfl rfl rfl)

/-- `timer_dispatch` clears the check word before the callback: no registration with a real word is live -/
theorem pre_timer_not_live (s : St) (j c : Nat) (hc : 1 ≤ c) : ¬ liveT (s.pre (.timer j)) j c := by
  show ¬ liveT ((s.abortUnless ((s.timerSlot j).state == .joblist)).setTimer j { s.timerSlot j with check := 0 }) j c
  unfold liveT
  rw [timerSlot_setTimer]
  split
  · intro hl
    have h0 : (0 : Nat) = c := hl.1
    omega
  · rename_i hcond
    by_cases hlt : j < (s.abortUnless ((s.timerSlot j).state == .joblist)).timers.length
    · exact absurd (Or.inl ⟨hlt, rfl⟩) hcond
    · rw [timerSlot_ge _ j hlt]; exact fun hl => hl.2 rfl

theorem popped_facts (s : St) (p : Nat) (it : Item) (rest : List Item) :
    (s.popped p it rest).timers = s.timers ∧ (s.popped p it rest).nonce = s.nonce ∧
    (s.popped p it rest).scripts = s.scripts ∧ (s.popped p it rest).fault = s.fault ∧
    (s.popped p it rest).dlog = (it, s.regCheck it) :: s.dlog := by
  simp [St.popped]

/-- the ATOMIC begin of a dispatch round: the head is unlinked and logged, and (timer) its check word cleared -/
theorem oinv_begin (s : St) (p : Nat) (it : Item) (rest : List Item) (h : OInv s) :
    OInv ((s.popped p it rest).pre it) := by
  obtain ⟨ht, hn, hs, hfl, hd⟩ := popped_facts s p it rest
  have hslot : ∀ j, (s.popped p it rest).timerSlot j = s.timerSlot j := fun j => by unfold St.timerSlot; rw [ht]
  have t := pre_tstep (s.popped p it rest) it
  have hnn1 : NN (s.popped p it rest) := by unfold NN; rw [hs]; exact h.1
  have hck1 : chkLe (s.popped p it rest) := fun j => by rw [hslot, hn]; exact h.2.1 j
  refine ⟨t.nn hnn1, t.chk hck1, ?_⟩
  rcases h.2.2 with hf | hq
  · left; apply t.fault; rw [hfl]; exact hf
  · by_cases hf' : ((s.popped p it rest).pre it).fault.isSome = true
    · exact Or.inl hf'
    · right
      have hcount : ∀ i c, ((s.popped p it rest).pre it).dlog.count (Item.timer i, c) =
          s.dlog.count (Item.timer i, c) + if (it, s.regCheck it) = (Item.timer i, c) then 1 else 0 := by
        intro i c
        rw [t.dlog, hd, List.count_cons]
        by_cases he : (it, s.regCheck it) = (Item.timer i, c)
        · simp [he]
        · have : ((it, s.regCheck it) == (Item.timer i, c)) = false := by simpa using he
          simp [he, this]
      -- the registration that is being logged is live before, hence not logged before
      have hlive : ∀ i c, 1 ≤ c → (it, s.regCheck it) = (Item.timer i, c) → liveT s i c := by
        intro i c hc he
        have h1 : it = Item.timer i := (Prod.mk.inj he).1
        have h2 : s.regCheck it = c := (Prod.mk.inj he).2
        subst h1
        simp only [St.regCheck] at h2
        by_cases hst : (s.timerSlot i).state = .joblist
        · simp only [hst, beq_self_eq_true, if_true] at h2
          exact ⟨h2, by rw [hst]; simp⟩
        · have hb : ((s.timerSlot i).state == EState.joblist) = false := by simpa using hst
          simp only [hb, Bool.false_eq_true, if_false] at h2
          omega
      refine ⟨fun i c hc => ?_, fun i c hc hcnt => ?_⟩
      · rw [hcount]
        by_cases he : (it, s.regCheck it) = (Item.timer i, c)
        · have h0 : s.dlog.count (Item.timer i, c) = 0 := by
            have := hq.le1 i c hc
            by_cases h1 : 1 ≤ s.dlog.count (Item.timer i, c)
            · exact absurd (hlive i c hc he) (hq.done i c hc h1).2
            · omega
          simp [he, h0]
        · have := hq.le1 i c hc
          simp [he]; exact this
      · rw [hcount] at hcnt
        by_cases he : (it, s.regCheck it) = (Item.timer i, c)
        · have hl := hlive i c hc he
          have h1 : it = Item.timer i := (Prod.mk.inj he).1
          subst h1
          refine ⟨?_, pre_timer_not_live _ i c hc⟩
          have := h.2.1 i
          rw [hl.1] at this
          exact Nat.le_trans (by rw [hn]; exact this) t.nonce
        · simp only [he, if_false, Nat.add_zero] at hcnt
          obtain ⟨hcn, hst⟩ := hq.done i c hc hcnt
          refine ⟨Nat.le_trans (by rw [hn]; exact hcn) t.nonce, ?_⟩
          have hst1 : ¬ liveT (s.popped p it rest) i c := by unfold liveT; rw [hslot]; exact hst
          rcases t.stale i c hc (by rw [hn]; exact hcn) hst1 with hf | hs'
          · exact absurd hf hf'
          · exact hs'

theorem oinv_walk : Walk OInv (fun _ _ => OInv) okNonce okNonce where
  inner := fun _ _ =>
    ⟨fun _ h => h.1, fun s op hop h => h.step (api_tstep s true op hop),
     fun s id sc hok h => h.step (setScripts_tstep s id sc hok)⟩
  scriptsOk := fun _ h => h.1
  apiOut := fun s op hop h => h.step (api_tstep s false op hop)
  setScripts := fun s id sc hok h => h.step (setScripts_tstep s id sc hok)
  begin := fun s p it rest _ _ h => oinv_begin s p it rest h
  finish := fun s it p res h => (h.step (post_tstep s res it)).step (setLv_tstep _ _ _)
  setRemaining := fun s r h => h.step (TStep.of_eq rfl rfl rfl rfl rfl)
  enterRun := fun s h => h.step (TStep.of_eq rfl rfl rfl rfl rfl)
  leaveRun := fun s h => h.step (TStep.of_eq rfl rfl rfl rfl rfl)
  beginIter := fun s h => h.step (beginIteration_tstep s)
  pollEvent := fun s r rev h => h.step (pollEvent_tstep s r rev)

theorem oinv_init (cfg : Cfg) : OInv (St.init cfg) := by
  have h := nn_chk_reachable cfg [] (fun c hc => by cases hc)
  have hd : (St.init cfg).dlog = [] := by rcases cfg with ⟨a, b⟩; cases a <;> cases b <;> rfl
  refine ⟨h.1, h.2, Or.inr ⟨fun i c _ => ?_, fun i c _ hcnt => ?_⟩⟩
  · rw [hd]; exact Nat.zero_le _
  · rw [hd] at hcnt; exact absurd hcnt (by simp)

theorem oinv_reachable (cfg : Cfg) (cmds : List Cmd) (hfr : Fresh cmds) : OInv ((St.init cfg).run cmds).1 :=
  oinv_walk.run _ cmds (fun c hc => by have := hfr c hc; cases c <;> exact this) (oinv_init cfg)

/-- **timer_runs_at_most_once.**  For EVERY history that does not steer `random()` (API calls from outside and from
    callbacks — incl. a callback deleting or re-adding itself or queued others, slot re-use —, any scripts, any
    ready sets; either version of the code): unless the run has faulted, no timer registration (slot i, check word
    c ≠ 0) appears twice in the log of items handed to `timer_dispatch`, and a registration that appears in it is
    stale (its handle is rejected, `stale_handle_rejected_and_inert`).  Nonce freshness is necessary
    (`test_stale_handle_accepted_on_nonce_collision`). -/
theorem timer_runs_at_most_once (cfg : Cfg) (cmds : List Cmd) (hfr : Fresh cmds) (i c : Nat) (hc : c ≠ 0) :
    ((St.init cfg).run cmds).1.fault.isSome ∨
      (((St.init cfg).run cmds).1.dlog.count (Item.timer i, c) ≤ 1 ∧
       (1 ≤ ((St.init cfg).run cmds).1.dlog.count (Item.timer i, c) → ¬ liveT ((St.init cfg).run cmds).1 i c)) := by
  rcases (oinv_reachable cfg cmds hfr).2.2 with hf | hq
  · exact Or.inl hf
  · exact Or.inr ⟨hq.le1 i c (by omega), fun h1 => (hq.done i c (by omega) h1).2⟩

/-- non-vacuity: a timer that fires is logged once with its real check word -/
example : ((St.init {}).run [.op (.timerAdd 1 5 0 1), .op (.advance 100), .iterate [], .iterate []]).1.dlog.count
    (Item.timer 0, 2) = 1 := by decide

end QbVerif.Props.C08
