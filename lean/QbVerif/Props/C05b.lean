import QbVerif.Props.C05

/-! # C05, second part — refusal, results seen by the client, final owner

`refused_never_served` holds for every failure point (invariant proof); the other statements
fix the failure point to "none" (or to the points listed) and are proved by symbolic execution of
the model with all ids, modes and the umask left as variables. -/
namespace QbVerif.Props.C05
open QbVerif.Admission

/-! ## refusal: no channel file ever, never ESTABLISHED — whatever call fails -/

def NoCreat : Op → Prop
  | .creat _ _ => False
  | _ => True

theorem noCreat_safe (env : Env) : ∀ o, NoCreat o → OpSafe env (fun p _ => p = .dir) o := by
  intro o ho l l' hl h
  cases o with
  | mkdtemp =>
    simp only [applyOp] at h
    split at h
    · cases h
    · cases h; exact LedAll_add rfl hl
  | chmod p m =>
    simp only [applyOp] at h
    split at h
    · cases h; exact LedAll_modify (fun _ he => he) hl
    · cases h
  | chown p u g =>
    simp only [applyOp] at h
    split at h
    · cases h; exact LedAll_modify (fun _ he => he) hl
    · cases h
  | creat p m => exact absurd ho (by simp [NoCreat])
  | ftruncate p => simp only [applyOp] at h; cases h; exact hl
  | fallocate p => simp only [applyOp] at h; cases h; exact hl
  | opendir =>
    simp only [applyOp] at h
    split at h
    · cases h; exact hl
    · cases h
  | unlink p =>
    simp only [applyOp] at h
    split at h
    · cases h; exact LedAll_erase p hl
    · cases h
  | rmdir p =>
    cases p with
    | parent => simp only [applyOp] at h; cases h
    | dir =>
      simp only [applyOp] at h
      split at h
      · cases h
      · split at h
        · cases h; exact LedAll_nil _
        · cases h
    | hdr r => simp only [applyOp] at h; split at h <;> cases h
    | data r => simp only [applyOp] at h; split at h <;> cases h
    | control => simp only [applyOp] at h; split at h <;> cases h

/-- If the accept callback refuses (rc ≠ 0) then — for every input and WHATEVER call fails — no
    ring file or control file exists at any moment and the connection never becomes ESTABLISHED
    (`connection_created` never runs, so the message callback can never be reached for it). -/
theorem refused_never_served (i : Input) (hrc : i.rc ≠ 0) :
    Ev.established ∉ (run i).events ∧
    ∀ l ∈ (run i).moments, ∀ p e, (p, e) ∈ l → p = .dir := by
  let R : Ev → Prop := fun e => e ≠ .established
  have hall : AllP NoCreat R (connProg i) := by
    unfold connProg noteAuth
    cases i.auth <;> simp [hrc, refuse, AllP, NoCreat, R]
  have hinv := exec_inv (R := R) (noCreat_safe i.env) (connProg i) {} hall (LedAll_nil _) (logAll_nil _ _)
  refine ⟨fun h => hinv.2 _ (mem_events h) rfl, ?_⟩
  intro l hl p e he
  obtain ⟨o, er, hmem⟩ := mem_moments hl
  exact hinv.2 _ hmem _ he

/-! ## refusal: the client gets the callback's code, nothing is left -/

/-- The accept callback refuses with `rc ≠ 0`, and no call fails, or the (ignored) chown of the
    directory fails, or a call after the clean-up: the ledger is empty at the end and the response
    carries exactly `rc` (qb_ipcc_connect fails with errno = -rc).
    (failAt = 1, 2: the accept callback is not reached; failAt = 4 is the rmdir of the clean-up.) -/
theorem refused_leaves_nothing (i : Input) (hrc : i.rc ≠ 0)
    (hf : i.failAt = 0 ∨ i.failAt = 3 ∨ 5 ≤ i.failAt) :
    (run i).led = [] ∧ (run i).clientRes = some i.rc := by
  have h1 : i.failAt ≠ 1 := by omega
  have h2 : i.failAt ≠ 2 := by omega
  have h4 : i.failAt ≠ 4 := by omega
  by_cases h3 : i.failAt = 3 <;> cases hauth : i.auth <;>
  simp [run, connProg, exec, doCall, applyOp, Input.env, h1, h2, h3, h4, hrc, hauth, noteAuth, refuse,
    Ledger.has, Ledger.add, Ledger.erase, Ledger.modify, St.clientRes]

/-- non-vacuity / witness of the excluded point: when chmod(dir, 0770) fails (failAt = 2) the
    directory is left behind — "/qb" has not been appended to the description yet, so remove_tempdir
    asks for rmdir("/dev/shm") (proposed finding KF-C05-dir-chmod-failure-leak) -/
theorem dir_chmod_failure_leaks :
    (run { uid := 1001, gid := 1002, failAt := 2, failErr := 5 }).led = [(.dir, ⟨.dir, 0o700, 0, 0⟩)] ∧
    (run { uid := 1001, gid := 1002, failAt := 2, failErr := 5 }).clientRes = some (-5) := by
  decide

example : (run { uid := 1001, gid := 1002, rc := -13 }).clientRes = some (-13) := by decide

/-! ## accepted connections -/

set_option maxRecDepth 4000 in
/-- shm transport, accepted, no failing call: the client is answered 0, the connection becomes
    ESTABLISHED, and at that moment the directory and all six ring files belong to the user/group the
    accept callback authorised (default: the peer's), the files with exactly the chosen mode. -/
theorem final_owner_is_auth_shm (i : Input) (hrc : i.rc = 0) (hf : i.failAt = 0) (ht : i.transport = .shm) :
    (run i).clientRes = some 0 ∧
    ∃ l, ledAtEstablished (run i).log = some l ∧ l.length = 7 ∧
      ∀ x ∈ l, x.2.uid = i.authOf.uid ∧ x.2.gid = i.authOf.gid ∧ (x.1 ≠ .dir → x.2.mode = i.authOf.mode) := by
  cases hauth : i.auth <;>
  simp [run, connProg, exec, doCall, applyOp, Input.env, hf, hrc, ht, hauth, noteAuth, refuse, Ledger.has,
    Ledger.add, Ledger.erase, Ledger.modify, shmConnect, shmRbOpen, rbOpen, mmapFileOpen, rbClose, teardown,
    ledAtEstablished, Input.authOf, St.clientRes] <;>
  (intro a b h
   rcases h with ⟨rfl, rfl⟩ | ⟨rfl, rfl⟩ | ⟨rfl, rfl⟩ | ⟨rfl, rfl⟩ | ⟨rfl, rfl⟩ | ⟨rfl, rfl⟩ | ⟨rfl, rfl⟩ <;> simp)

/-- socket transport, accepted, no failing call: the control file belongs to the authorised
    user/group with the chosen mode; with the repair D27b (`usDirChown`) so does the directory. -/
theorem final_owner_is_auth_sock (i : Input) (hrc : i.rc = 0) (hf : i.failAt = 0) (ht : i.transport = .sock) :
    (run i).clientRes = some 0 ∧
    ∃ l, ledAtEstablished (run i).log = some l ∧ l.length = 2 ∧
      ∀ x ∈ l, (x.1 ≠ .dir ∨ i.usDirChown = true → x.2.uid = i.authOf.uid ∧ x.2.gid = i.authOf.gid) ∧
        (x.1 ≠ .dir → x.2.mode = i.authOf.mode) := by
  cases hauth : i.auth <;> cases hd : i.usDirChown <;>
  simp [run, connProg, exec, doCall, applyOp, Input.env, hf, hrc, ht, hauth, hd, noteAuth, refuse, Ledger.has,
    Ledger.add, Ledger.erase, Ledger.modify, usConnect, mmapFileOpen, teardown,
    ledAtEstablished, Input.authOf, St.clientRes] <;>
  (intro a b h
   rcases h with ⟨rfl, rfl⟩ | ⟨rfl, rfl⟩ <;> simp)

/-- Refutation witness of the full `final_owner_is_auth` for the code BEFORE repair D27b: socket
    transport, the accept callback authorised 1003:1004, the directory stays with the peer 1001:1002. -/
theorem final_owner_sock_dir_refuted :
    ledAtEstablished (run { transport := .sock, uid := 1001, gid := 1002, auth := some ⟨1003, 1004, 0o660⟩,
                            usDirChown := false }).log
      = some [(.control, ⟨.file, 0o660, 1003, 1004⟩), (.dir, ⟨.dir, 0o770, 1001, 1002⟩)] := by
  decide

set_option maxRecDepth 4000 in
/-- An accepted connection whose client goes away leaves nothing behind (both transports, no
    failing call). -/
theorem disconnect_leaves_nothing (i : Input) (hrc : i.rc = 0) (hf : i.failAt = 0) :
    (run i).led = [] := by
  cases hauth : i.auth <;> cases ht : i.transport <;> cases hd : i.usDirChown <;>
  simp [run, connProg, exec, doCall, applyOp, Input.env, hf, hrc, ht, hauth, hd, noteAuth, refuse, Ledger.has,
    Ledger.add, Ledger.erase, Ledger.modify, shmConnect, shmRbOpen, rbOpen, mmapFileOpen, rbClose, teardown,
    usConnect, Input.authOf]

/-- bounded test: a failing call anywhere in the set-up of an accepted shm client (k = 1 … 34,
    k ≠ 2) leaves nothing behind (concrete ids; the ignored / EPERM-tolerated calls let the
    connection proceed and it is torn down normally) -/
theorem test_failed_setup_leaves_nothing :
    ∀ k ∈ List.range 35, k ≠ 2 →
      (run { uid := 1001, gid := 1002, auth := some ⟨1003, 1004, 0o660⟩, failAt := k, failErr := 28 }).led = [] := by
  decide

end QbVerif.Props.C05
