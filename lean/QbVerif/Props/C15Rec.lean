/-
Property C15 — round trip at record level: `records_roundtrip`.

`dump_roundtrip` (Props/C15.lean) reduces printing the dump of a well-formed ring to the printer's
loop over the chunks of its abstract FIFO (`printChunks`).  Here the chunks are the records
`_blackbox_vlogger` wrote (`encodeRecord`): the printer prints, for every record and in order,
one line with the record's priority, seconds, milliseconds, function, line number, tags and the
text the decoder makes of the record's serialized message (`printRecs`), and then returns -EIO
(what it returns after the last record of any dump).
-/
import QbVerif.Props.C15

namespace QbVerif.C15
open QbVerif.Ring QbVerif.Dump QbVerif.Gen QbVerif.DumpLemmas QbVerif.RingLemmas

/-- what `_blackbox_vlogger` guarantees about a record it stores -/
structure RecOk (r : Rec) : Prop where
  lineno : r.lineno < 4294967296
  tags : r.tags < 4294967296
  /-- `cs->function` is a non-empty C string -/
  fnpos : 1 ≤ r.fn.length
  fnnz : ∀ b ∈ r.fn, b ≠ 0
  sec : r.sec < 18446744073709551616
  nsec : r.nsec < 18446744073709551616
  /-- the serialized message holds at least the NUL of its format and at most QB_LOG_MAX_LEN bytes -/
  mpos : 1 ≤ r.msg.length
  mmax : r.msg.length ≤ BB_LOG_MAX_LEN
  /-- the record fits the printer's chunk buffer (`2 * QB_LOG_MAX_LEN`; the logger limits records
      to `QB_LOG_MAX_LEN` + header) -/
  fits : r.fn.length + r.msg.length ≤ 990

/-- **Specification of a printed dump**: one `printf` line per record, the decoder state threaded -/
def printRecs {σ : Type} (newfmt : Bool) (D : Decoder σ) : σ → List Rec → List Nat → σ × List Nat
  | s, [], out => (s, out)
  | s, r :: rs, out =>
    printRecs newfmt D (D.run s r.msg).1 rs
      (out ++ recordLine r.prio (timeText (toInt64 r.sec) (if newfmt then r.nsec else 0)) r.fn r.lineno r.tags
        (strip (D.run s r.msg).2.text ((D.run s r.msg).2.ret - 1)))

/-! ### fields of an encoded record -/

theorem slice_skip' (a l : List Nat) (k i n : Nat) (h : a.length = k) : slice (a ++ l) (k + i) n = slice l i n := by
  subst h; exact slice_skip a l i n

theorem slice_take' (a l : List Nat) (n : Nat) (h : a.length = n) : slice (a ++ l) 0 n = a := by
  subst h; exact slice_take a l

theorem getD_skip' (a l : List Nat) (k i : Nat) (h : a.length = k) : (a ++ l).getD (k + i) 0 = l.getD i 0 := by
  subst h
  simp [List.getD_eq_getElem?_getD, List.getElem?_append_right]

theorem drop_skip' (a l : List Nat) (k i : Nat) (h : a.length = k) : (a ++ l).drop (k + i) = l.drop i := by
  subst h
  rw [List.drop_append, List.drop_eq_nil_of_le (by omega)]
  simp

theorem toLe64_length (v : Nat) : (toLe64 v).length = 8 := rfl

theorem le64_toLe64 (v : Nat) (h : v < 18446744073709551616) : le64 (toLe64 v) = v := by
  unfold le64 le32 toLe64 toLe32
  simp only [List.cons_append, List.nil_append, List.getD_cons_zero, List.getD_cons_succ, List.drop_succ_cons, List.drop_zero]
  omega

theorem cstr_app (fn rest : List Nat) (h : ∀ b ∈ fn, b ≠ 0) : cstr (fn ++ 0 :: rest) = fn := by
  induction fn with
  | nil => simp [cstr]
  | cons a t ih =>
    have ha : a ≠ 0 := h a (by simp)
    have := ih (fun b hb => h b (by simp [hb]))
    unfold cstr at this ⊢
    rw [List.cons_append, List.takeWhile_cons, if_pos (by simpa using ha), this]

/-- the layout `_blackbox_vlogger` writes, with the two halves of the time stamp apart -/
theorem encode_layout (newfmt : Bool) (r : Rec) (rest : List Nat) :
    encodeRecord newfmt r ++ rest =
      toLe32 r.lineno ++ (toLe32 r.tags ++ ([r.prio] ++ (toLe32 (r.fn.length + 1) ++ (r.fn ++ ([0] ++ (toLe64 r.sec ++
        ((if newfmt then toLe64 r.nsec else []) ++ (toLe32 r.msg.length ++ (r.msg ++ rest))))))))) := by
  cases newfmt <;> simp [encodeRecord, List.append_assoc]

theorem encode_length (newfmt : Bool) (r : Rec) :
    (encodeRecord newfmt r).length = 13 + (r.fn.length + 1) + (if newfmt then BB_SIZEOF_TIMESPEC else BB_SIZEOF_TIME_T) + 4 + r.msg.length := by
  cases newfmt <;> simp [encodeRecord, toLe32, toLe64, BB_SIZEOF_TIMESPEC, BB_SIZEOF_TIME_T] <;> omega

/-- the printer's checks and field reads on a chunk laid out as a record -/
theorem parse_layout (page : Nat) (newfmt : Bool) (a b f fnb t1 t2 m msg rest buf : List Nat) (prio n T : Nat)
    (ha : a.length = 4) (hb : b.length = 4) (hf : f.length = 4) (ht1 : t1.length = 8) (hm : m.length = 4)
    (hT : T = 8 + t2.length) (hTn : (if newfmt = true then BB_SIZEOF_TIMESPEC else BB_SIZEOF_TIME_T) = T)
    (hfv : le32 f = fnb.length + 1) (hmv : le32 m = msg.length) (hm1 : 1 ≤ msg.length) (hm2 : msg.length ≤ BB_LOG_MAX_LEN)
    (hn : n = 13 + (fnb.length + 1) + T + 4 + msg.length) (hq : 10 ≤ T + msg.length)
    (hbuf : buf = a ++ (b ++ ([prio] ++ (f ++ (fnb ++ ([0] ++ (t1 ++ (t2 ++ (m ++ (msg ++ rest)))))))))) :
    parseRecord (Cfg.repaired page) newfmt buf n =
      .ok { lineno := le32 a, tags := le32 b, prio := prio, fn := fnb.length + 1, hdr := 17 + (fnb.length + 1) + T,
            sec := toInt64 (le64 t1), nsec := if newfmt then le64 (slice (t2 ++ (m ++ (msg ++ rest))) 0 8) else 0,
            mlen := msg.length } ∧
    slice buf (17 + (fnb.length + 1) + T) msg.length = msg ∧
    buf.drop 13 = fnb ++ ([0] ++ (t1 ++ (t2 ++ (m ++ (msg ++ rest))))) := by
  have hp : [prio].length = 1 := rfl
  have hz : ([0] : List Nat).length = 1 := rfl
  have s0 : slice buf 0 4 = a := by rw [hbuf]; exact slice_take' _ _ _ ha
  have s4 : slice buf 4 4 = b := by
    rw [hbuf]; show slice _ (4 + 0) 4 = b
    rw [slice_skip' _ _ _ _ _ ha]; exact slice_take' _ _ _ hb
  have g8 : buf.getD 8 0 = prio := by
    rw [hbuf]; show List.getD _ (4 + (4 + 0)) 0 = prio
    rw [getD_skip' _ _ _ _ ha, getD_skip' _ _ _ _ hb]; rfl
  have s9 : slice buf 9 4 = f := by
    rw [hbuf]; show slice _ (4 + (4 + (1 + 0))) 4 = f
    rw [slice_skip' _ _ _ _ _ ha, slice_skip' _ _ _ _ _ hb, slice_skip' _ _ _ _ _ hp]; exact slice_take' _ _ _ hf
  have gz : buf.getD (13 + (fnb.length + 1) - 1) 0 = 0 := by
    have e : 13 + (fnb.length + 1) - 1 = 4 + (4 + (1 + (4 + (fnb.length + 0)))) := by omega
    rw [hbuf, e, getD_skip' _ _ _ _ ha, getD_skip' _ _ _ _ hb, getD_skip' _ _ _ _ hp, getD_skip' _ _ _ _ hf,
      getD_skip' _ _ _ _ rfl]; rfl
  have st : slice buf (13 + (fnb.length + 1)) 8 = t1 := by
    have e : 13 + (fnb.length + 1) = 4 + (4 + (1 + (4 + (fnb.length + (1 + 0))))) := by omega
    rw [hbuf, e, slice_skip' _ _ _ _ _ ha, slice_skip' _ _ _ _ _ hb, slice_skip' _ _ _ _ _ hp, slice_skip' _ _ _ _ _ hf,
      slice_skip' _ _ _ _ _ rfl, slice_skip' _ _ _ _ _ hz]; exact slice_take' _ _ _ ht1
  have sn : slice buf (13 + (fnb.length + 1) + 8) 8 = slice (t2 ++ (m ++ (msg ++ rest))) 0 8 := by
    have e : 13 + (fnb.length + 1) + 8 = 4 + (4 + (1 + (4 + (fnb.length + (1 + (8 + 0)))))) := by omega
    rw [hbuf, e, slice_skip' _ _ _ _ _ ha, slice_skip' _ _ _ _ _ hb, slice_skip' _ _ _ _ _ hp, slice_skip' _ _ _ _ _ hf,
      slice_skip' _ _ _ _ _ rfl, slice_skip' _ _ _ _ _ hz, slice_skip' _ _ _ _ _ ht1]
  have sm : slice buf (13 + (fnb.length + 1) + T) 4 = m := by
    have e : 13 + (fnb.length + 1) + T = 4 + (4 + (1 + (4 + (fnb.length + (1 + (8 + (t2.length + 0))))))) := by omega
    rw [hbuf, e, slice_skip' _ _ _ _ _ ha, slice_skip' _ _ _ _ _ hb, slice_skip' _ _ _ _ _ hp, slice_skip' _ _ _ _ _ hf,
      slice_skip' _ _ _ _ _ rfl, slice_skip' _ _ _ _ _ hz, slice_skip' _ _ _ _ _ ht1, slice_skip' _ _ _ _ _ rfl]
    exact slice_take' _ _ _ hm
  have smsg : slice buf (17 + (fnb.length + 1) + T) msg.length = msg := by
    have e : 17 + (fnb.length + 1) + T = 4 + (4 + (1 + (4 + (fnb.length + (1 + (8 + (t2.length + (4 + 0)))))))) := by omega
    rw [hbuf, e, slice_skip' _ _ _ _ _ ha, slice_skip' _ _ _ _ _ hb, slice_skip' _ _ _ _ _ hp, slice_skip' _ _ _ _ _ hf,
      slice_skip' _ _ _ _ _ rfl, slice_skip' _ _ _ _ _ hz, slice_skip' _ _ _ _ _ ht1, slice_skip' _ _ _ _ _ rfl,
      slice_skip' _ _ _ _ _ hm]
    exact slice_take' _ _ _ rfl
  have sdrop : buf.drop 13 = fnb ++ ([0] ++ (t1 ++ (t2 ++ (m ++ (msg ++ rest))))) := by
    rw [hbuf]; show List.drop (4 + (4 + (1 + (4 + 0)))) _ = _
    rw [drop_skip' _ _ _ _ ha, drop_skip' _ _ _ _ hb, drop_skip' _ _ _ _ hp, drop_skip' _ _ _ _ hf]; rfl
  refine ⟨?_, smsg, sdrop⟩
  have hlen : buf.length = n + rest.length := by
    rw [hbuf, hn]; simp only [List.length_append, ha, hb, hf, ht1, hm, hp, hz]; omega
  have hmin : BB_MIN_ENTRY_SIZE = 27 := rfl
  have hmax : BB_LOG_MAX_LEN = 512 := rfl
  unfold parseRecord
  dsimp only [Cfg.repaired]
  rw [s9, hfv, hTn, s0, s4, g8, st, sn, sm, hmv, gz]
  simp only [Bool.true_and, decide_eq_true_eq, Bool.or_eq_true, ne_eq, not_true_eq_false, if_false]
  rw [if_neg (by omega), if_neg (by omega), if_neg (by omega), if_neg (by omega), if_neg (by omega), if_neg (by omega)]

/-- one pass of the printer's loop body over a chunk that is a well-formed record: no diagnostic,
    no exit; one line with the record's own fields and the decoded message -/
theorem printRecord_encode {σ : Type} (page : Nat) (newfmt : Bool) (D : Decoder σ) (hD : DecoderOk D) (s : σ)
    (r : Rec) (h : RecOk r) (hold : newfmt = true ∨ 2 ≤ r.msg.length) (rest out : List Nat) :
    printRecord (Cfg.repaired page) newfmt D s (encodeRecord newfmt r ++ rest) (encodeRecord newfmt r).length out =
      ((D.run s r.msg).1,
       out ++ recordLine r.prio (timeText (toInt64 r.sec) (if newfmt then r.nsec else 0)) r.fn r.lineno r.tags
         (strip (D.run s r.msg).2.text ((D.run s r.msg).2.ret - 1)), none) := by
  have hfits := h.fits
  have hmp := h.mpos
  have hmax : BB_LOG_MAX_LEN = 512 := rfl
  have hTn : (if newfmt = true then BB_SIZEOF_TIMESPEC else BB_SIZEOF_TIME_T) = (if newfmt = true then 16 else 8) := by
    cases newfmt <;> rfl
  have hT : (if newfmt = true then 16 else 8) = 8 + (if newfmt = true then toLe64 r.nsec else []).length := by
    cases newfmt <;> rfl
  have hq : 10 ≤ (if newfmt = true then 16 else 8) + r.msg.length := by
    rcases hold with hn | hn
    · rw [hn]; simp only [if_true]; omega
    · cases newfmt <;> simp only [if_true, Bool.false_eq_true, if_false] <;> omega
  obtain ⟨hp, hmsg, hdrop⟩ := parse_layout page newfmt (toLe32 r.lineno) (toLe32 r.tags) (toLe32 (r.fn.length + 1)) r.fn
    (toLe64 r.sec) (if newfmt = true then toLe64 r.nsec else []) (toLe32 r.msg.length) r.msg rest _ r.prio
    (encodeRecord newfmt r).length (if newfmt = true then 16 else 8) rfl rfl rfl rfl rfl hT hTn
    (le32_toLe32 _ (by omega)) (le32_toLe32 _ (by omega)) h.mpos h.mmax (by rw [encode_length, hTn]) hq
    (encode_layout newfmt r rest)
  have hns : (if newfmt = true then le64 (slice ((if newfmt = true then toLe64 r.nsec else []) ++
      (toLe32 r.msg.length ++ (r.msg ++ rest))) 0 8) else 0) = (if newfmt = true then r.nsec else 0) := by
    cases newfmt
    · rfl
    · simp only [if_true]
      rw [slice_take' _ _ _ (toLe64_length _), le64_toLe64 _ h.nsec]
  have hall : ((encodeRecord newfmt r ++ rest).drop 13).all (· ≠ 0) = false := by
    rw [hdrop]
    apply all_ne_zero_false (k := r.fn.length)
    · simp only [List.length_append, List.length_cons]; omega
    · have := getD_skip' r.fn ([0] ++ (toLe64 r.sec ++ ((if newfmt = true then toLe64 r.nsec else []) ++
        (toLe32 r.msg.length ++ (r.msg ++ rest))))) r.fn.length 0 rfl
      rw [Nat.add_zero] at this
      rw [this]; rfl
  have hd1 : ¬ (D.run s r.msg).2.ret = 0 := by
    have := (hD s r.msg).1; omega
  unfold printRecord
  rw [hp]
  dsimp only
  unfold decodeAndPrint
  dsimp only [Cfg.repaired]
  rw [hmsg, hall, hdrop, hns, le32_toLe32 _ h.lineno, le32_toLe32 _ h.tags, le64_toLe64 _ h.sec]
  rw [show ([0] : List Nat) ++ (toLe64 r.sec ++ ((if newfmt = true then toLe64 r.nsec else []) ++
        (toLe32 r.msg.length ++ (r.msg ++ rest)))) = 0 :: (toLe64 r.sec ++ ((if newfmt = true then toLe64 r.nsec else []) ++
        (toLe32 r.msg.length ++ (r.msg ++ rest)))) from rfl, cstr_app _ _ h.fnnz]
  simp only [Bool.not_true, Bool.false_and, Bool.false_eq_true, if_false, if_true]
  exact if_neg hd1

/-- **C15, round-trip clause (record level).**  The printer's loop over the chunks that are the
    encodings of well-formed records `recs` (any number, any field values, either dump format)
    prints exactly one line per record, in order, carrying the record's priority name, seconds and
    milliseconds, function, line number, tags and the decoder's text of its message — no
    diagnostic, no early exit — and ends with -EIO (the result after the last record) with the
    ring released.  Old-format dumps: a record whose serialized message is a single byte (an
    empty format string) fails the printer's `fn_size + BB_MIN_ENTRY_SIZE` test, hence the
    side condition `newfmt = true ∨ 2 ≤ msg.length`. -/
theorem records_roundtrip {σ : Type} (page : Nat) (newfmt : Bool) (D : Decoder σ) (hD : DecoderOk D) :
    ∀ (recs : List Rec) (s : σ) (buf out : List Nat),
      (∀ r ∈ recs, RecOk r ∧ (newfmt = true ∨ 2 ≤ r.msg.length)) →
      printChunks (Cfg.repaired page) newfmt D s (recs.map (encodeRecord newfmt)) buf out =
        ((printRecs newfmt D s recs out).1, ⟨.rc EIO, (printRecs newfmt D s recs out).2, true⟩)
  | [], s, buf, out, _ => rfl
  | r :: rs, s, buf, out, h => by
    have hr := h r (by simp)
    have hlen := encode_length newfmt r
    have hT : (if newfmt = true then BB_SIZEOF_TIMESPEC else BB_SIZEOF_TIME_T) = 16 ∨
        (if newfmt = true then BB_SIZEOF_TIMESPEC else BB_SIZEOF_TIME_T) = 8 := by
      cases newfmt <;> simp [BB_SIZEOF_TIMESPEC, BB_SIZEOF_TIME_T]
    have hfits := hr.1.fits
    have hfn := hr.1.fnpos
    have hmp := hr.1.mpos
    have hcb : CHUNK_BUF = 1024 := rfl
    have hmin : BB_MIN_ENTRY_SIZE = 27 := rfl
    rw [List.map_cons, printChunks, if_neg (by omega)]
    dsimp only
    rw [printRecord_encode page newfmt D hD s r hr.1 hr.2]
    dsimp only
    rw [if_pos (by omega)]
    exact records_roundtrip page newfmt D hD rs _ _ _ (fun r' hr' => h r' (by simp [hr']))

/-- **C15, round-trip clause, end to end in the model**: printing the dump of a ring whose abstract
    FIFO content is the encodings of the well-formed records `recs` (every state the blackbox
    reaches by logging them; oldest retained record first) prints exactly those records. -/
theorem dump_records_roundtrip {σ : Type} (page : Nat) (hp : 0 < page) (D : Decoder σ) (hD : DecoderOk D) (s : σ)
    (newfmt : Bool) (r : Rb) (recs : List Rec) (TR : Nat) (h : Inv r (recs.map (encodeRecord newfmt)) TR)
    (hpg : (4 * r.W) % page = 0) (hbig : CHUNK_BUF ≤ 4 * r.W)
    (hrecs : ∀ x ∈ recs, RecOk x ∧ (newfmt = true ∨ 2 ≤ x.msg.length)) :
    printFromFile (Cfg.repaired page) D s (dump newfmt r) =
      ((printRecs newfmt D s recs []).1, ⟨.rc EIO, (printRecs newfmt D s recs []).2, true⟩) := by
  rw [dump_roundtrip page hp D s newfmt r _ TR h hpg hbig]
  exact records_roundtrip page newfmt D hD recs s _ [] hrecs

/-- non-vacuity: a record as the logger stores it -/
example : RecOk ⟨42, 1, 6, str "main", 1700000000, 5000000, str "hello %d" ++ [0, 7, 0, 0, 0]⟩ :=
  ⟨by decide, by decide, by decide, by decide, by decide, by decide, by decide, by decide, by decide⟩

/-- what the specification prints for that record (decoder answering "hello 7") -/
theorem test_printRecs_line :
    (printRecs true (⟨fun s _ => (s, ⟨str "hello 7", 8⟩)⟩ : Decoder Unit) ()
      [⟨42, 1, 6, str "main", 1700000000, 5000000, str "hello %d" ++ [0, 7, 0, 0, 0]⟩] []).2 =
      str "info    1700000000.005 main(42):1: hello 7\n" := by
  decide +kernel

end QbVerif.C15
