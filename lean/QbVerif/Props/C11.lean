/-
C11 — overwrite ring: every write of at most the requested size succeeds, and the readable
contents are always the most recent chunks written, intact and in order.

Property theorems only (helper lemmas: QbVerif/Lemmas/Ring*.lean, in particular RingOw.lean).
The byte-level model is `Ring.Rb` opened with the overwrite flag (`Rb.alloc` runs the reclaim
loop `makeRoom`); the specification is the overwrite FIFO of `Model/RingOwSpec.lean`.
-/
import QbVerif.Lemmas.RingOw
import QbVerif.Lemmas.RingAlloc
import QbVerif.Props.C07

namespace QbVerif.Props.C11
open QbVerif.Ring QbVerif.RingSpec QbVerif.RingLemmas
open QbVerif.Props.C07 (writesOf readsOf)

/-! ### refinement -/

/-- **Refinement.** Every sequence of write / read / peek / reclaim / free operations on a ring
    created by `qb_rb_open(S, QB_RB_FLAG_OVERWRITE)` (with or without the notification
    semaphore) produces exactly the outputs of the overwrite FIFO: writes drop the oldest chunks
    until the free-space rule admits the new one; everything else is the plain FIFO. -/
theorem ow_history (S page : Nat) (useSem : Bool) (hp : 0 < page) (h4 : page % 4 = 0)
    (hbig : roundUp (S + MARGIN + 1) page < 2^31) (ops : List Op) :
    ((Rb.open S page true useSem).run ops).2
      = ((Fifo.init (Rb.open S page true useSem).W useSem).owRun ops).2 := by
  obtain ⟨q, TR, _, he⟩ := run_sim_ow (open_inv S page true useSem hp h4 hbig) rfl ops
  have : absF (Rb.open S page true useSem) [] = Fifo.init (Rb.open S page true useSem).W useSem := rfl
  rw [← this, he]

/-- the layout invariant holds in every reachable state of the overwriting ring, and the ghost
    queue is the overwrite FIFO's queue -/
theorem ow_reachable_inv (S page : Nat) (useSem : Bool) (hp : 0 < page) (h4 : page % 4 = 0)
    (hbig : roundUp (S + MARGIN + 1) page < 2^31) (ops : List Op) :
    ∃ q TR, Inv ((Rb.open S page true useSem).run ops).1 q TR ∧
      ((Fifo.init (Rb.open S page true useSem).W useSem).owRun ops).1
        = absF ((Rb.open S page true useSem).run ops).1 q := by
  obtain ⟨q, TR, hi, he⟩ := run_sim_ow (open_inv S page true useSem hp h4 hbig) rfl ops
  have : absF (Rb.open S page true useSem) [] = Fifo.init (Rb.open S page true useSem).W useSem := rfl
  exact ⟨q, TR, hi, by rw [← this, he]⟩

/-- non-vacuity / sanity: a 32-byte overwrite ring (W = 8); the third write drops the two oldest
    chunks, the reads return the survivors in order, then the ring is empty -/
example :
    ((Rb.open 19 16 true false).run
      [.write [1], .write [2,2], .write [3,3,3], .write [4], .read 100, .read 100, .read 100]).2
    = [.wrote 1, .wrote 2, .wrote 3, .wrote 1, .data [3,3,3], .data [4], .err .etimedout] := by
  decide +kernel

/-! ### the writer, on the overwrite FIFO -/

theorem free_le (f : Fifo) : f.free ≤ 4 * f.W := by
  obtain ⟨W, q, sem⟩ := f
  unfold Fifo.free
  cases q with
  | nil => cases sem with
    | none => simp
    | some n => cases n <;> simp
  | cons c cs => simp only; omega

theorem owDrop_true (W S len : Nat) (q : List (List Nat)) (sem : Option Nat) (hS : S + MARGIN + 1 ≤ 4 * W)
    (hlen : len ≤ S) (hsem : ∀ n, sem = some n → n ≤ q.length) : (owDrop W len q sem).2.2 = true := by
  induction q generalizing sem with
  | nil =>
    rw [owDrop_nil]
    have : ¬ Fifo.free ⟨W, [], sem⟩ < len + MARGIN := by
      unfold Fifo.free
      cases sem with
      | none => simp only; omega
      | some n =>
        have : n ≤ 0 := hsem n rfl
        cases n with
        | zero => simp only; omega
        | succ n => omega
    simp [this]
  | cons c cs ih =>
    by_cases hc : Fifo.free ⟨W, c :: cs, sem⟩ < len + MARGIN
    · rw [owDrop_cons_drop _ _ _ _ _ hc]
      apply ih
      intro n hn
      cases sem with
      | none => simp at hn
      | some m =>
        have := hsem m rfl
        simp only [Option.map_some, Option.some.injEq, List.length_cons] at hn this
        omega
    · rw [owDrop_cons_stop _ _ _ _ _ hc]

/-- the outcome of a write on the overwrite FIFO, in terms of `owDrop` -/
theorem owStep_write (f : Fifo) (d : List Nat) :
    f.owStep (.write d) =
      if (owDrop f.W d.length f.q f.sem).2.2 then
        (⟨f.W, (owDrop f.W d.length f.q f.sem).1 ++ [d], (owDrop f.W d.length f.q f.sem).2.1.map (· + 1)⟩, .wrote d.length)
      else (⟨f.W, (owDrop f.W d.length f.q f.sem).1, (owDrop f.W d.length f.q f.sem).2.1⟩, .err .einval) := by
  simp only [Fifo.owStep]
  rcases owDrop f.W d.length f.q f.sem with ⟨q', sem', ok⟩
  cases ok <;> simp [Fifo.post]

/-- **Every write of at most the requested size succeeds** (overwrite FIFO; `SemOk`: the
    notification count does not exceed the number of queued chunks — an invariant of every
    history that uses `reclaim` only after `peek`, see `semok_run`; without a semaphore it
    holds trivially). -/
theorem ow_write_succeeds (f : Fifo) (S : Nat) (d : List Nat) (hS : S + MARGIN + 1 ≤ 4 * f.W)
    (hsem : f.SemOk) (hd : d.length ≤ S) : (f.owStep (.write d)).2 = .wrote d.length := by
  rw [owStep_write, if_pos (owDrop_true f.W S d.length f.q f.sem hS hd hsem)]

example : (Fifo.owStep ⟨8, [[1,2,3], [4,5,6,7,8]], some 2⟩ (.write (List.replicate 19 9))).2 = .wrote 19 :=
  ow_write_succeeds ⟨8, [[1,2,3], [4,5,6,7,8]], some 2⟩ 19 _ (by decide) (by intro n h; cases h; decide) (by decide)

/-- **The contents after a write are a suffix of the old contents plus the new chunk**: exactly
    the `k` oldest chunks are gone, where `k` is the least number of drops after which the
    free-space rule (`free ≥ len + margin`) admits the new chunk.  In particular at least the
    new chunk is readable (`k ≥ 1` chunks after the first write). -/
theorem ow_contents_suffix (f : Fifo) (d : List Nat) (h : (f.owStep (.write d)).2 = .wrote d.length) :
    ∃ k, k ≤ f.q.length ∧ (f.owStep (.write d)).1.q = f.q.drop k ++ [d] ∧
      (∀ j, j < k → Fifo.free ⟨f.W, f.q.drop j, f.sem.map (· - j)⟩ < d.length + MARGIN) ∧
      ¬ Fifo.free ⟨f.W, f.q.drop k, f.sem.map (· - k)⟩ < d.length + MARGIN := by
  obtain ⟨k, hk, h1, h2, h3, h4⟩ := owDrop_spec f.W d.length f.q f.sem
  rw [owStep_write] at h ⊢
  by_cases hok : (owDrop f.W d.length f.q f.sem).2.2 = true
  · rw [if_pos hok]
    refine ⟨k, hk, by simp only [h1], h3, ?_⟩
    have := owDrop_ok hok
    rw [h1, h2] at this
    exact this
  · rw [if_neg hok] at h
    simp at h

example : ∃ k, (Fifo.owStep ⟨8, [[1,2,3], [4,5,6,7,8]], none⟩ (.write [9])).1.q
    = List.drop k [[1,2,3], [4,5,6,7,8]] ++ [[9]] :=
  let ⟨k, _, h, _⟩ := ow_contents_suffix ⟨8, [[1,2,3], [4,5,6,7,8]], none⟩ [9] (by decide)
  ⟨k, h⟩

/-- a suffix of `q` that fits by the 16-byte accounting is never dropped -/
theorem fits_no_drop (W S len : Nat) (c : List Nat) (cs : List (List Nat)) (sem : Option Nat)
    (hS : S + MARGIN + 1 ≤ 4 * W)
    (hfit : ((c :: cs).map (fun c => c.length + 16)).sum + (len + 16) ≤ S) :
    ¬ Fifo.free ⟨W, c :: cs, sem⟩ < len + MARGIN := by
  have hm := MARGIN_eq
  have hq := total_le_sum16 (c :: cs)
  unfold Fifo.free
  simp only at hq hfit ⊢
  omega

/-- **Everything that fits is kept.** After a write of at most `S` bytes, every run of newest
    chunks (a suffix of the old contents followed by the new chunk) that fits into the
    requested size `S`, each chunk counted with 16 bytes of overhead, is still there. -/
theorem ow_keeps_all_that_fit (f : Fifo) (S : Nat) (d : List Nat) (hS : S + MARGIN + 1 ≤ 4 * f.W)
    (hsem : f.SemOk) (hd : d.length ≤ S) (s : List (List Nat)) (hs : s <:+ f.q ++ [d])
    (hfit : (s.map (fun c => c.length + 16)).sum ≤ S) :
    s <:+ (f.owStep (.write d)).1.q := by
  obtain ⟨k, hk, hq, hmin, _⟩ := ow_contents_suffix f d (ow_write_succeeds f S d hS hsem hd)
  rw [hq]
  -- s is a suffix of q ++ [d]: either empty or s' ++ [d] with s' a suffix of q
  rcases List.eq_nil_or_concat s with rfl | ⟨s', x, rfl⟩
  · exact List.nil_suffix
  · rw [List.concat_eq_append] at hs hfit ⊢
    have hx : x = d ∧ s' <:+ f.q := by
      obtain ⟨t, ht⟩ := hs
      rw [← List.append_assoc] at ht
      have := List.append_inj' ht rfl
      exact ⟨by simpa using this.2, ⟨t, this.1⟩⟩
    obtain ⟨rfl, t, ht⟩ := hx
    -- s' = f.q.drop t.length
    have hs' : s' = f.q.drop t.length := by rw [← ht]; simp
    suffices hkt : k ≤ t.length by
      refine ⟨(f.q.drop k).take (t.length - k), ?_⟩
      rw [← List.append_assoc]
      congr 1
      rw [hs']
      have : f.q.drop t.length = (f.q.drop k).drop (t.length - k) := by
        rw [List.drop_drop]; congr 1; omega
      rw [this, List.take_append_drop]
    -- otherwise the loop dropped a chunk of s' although s' ++ [x] fits
    apply Nat.le_of_not_lt
    intro hlt
    have hfree := hmin t.length hlt
    rw [← hs'] at hfree
    cases s' with
    | nil =>
      have : t.length = f.q.length := by
        have := congrArg List.length ht; simp at this; omega
      omega
    | cons c cs =>
      refine fits_no_drop f.W S x.length c cs _ hS ?_ hfree
      simp only [List.map_append, List.sum_append, List.map_cons, List.sum_cons, List.map_nil, List.sum_nil] at hfit ⊢
      omega

/-- non-vacuity: W = 13 (52 bytes, S = 38); the write drops the oldest chunk, the two newest
    old chunks do not both fit with the new one by the 16-byte accounting, the newest does -/
example : [[4,5,6,7,8], [9]] <:+
    (Fifo.owStep ⟨13, [[0,0,0,0,0,0,0,0], [1,2,3], [4,5,6,7,8]], none⟩ (.write [9])).1.q :=
  ow_keeps_all_that_fit ⟨13, [[0,0,0,0,0,0,0,0], [1,2,3], [4,5,6,7,8]], none⟩ 38 [9] (by decide)
    (by intro n h; cases h) (by decide) _ ⟨[[0,0,0,0,0,0,0,0], [1,2,3]], rfl⟩ (by decide)

example : (Fifo.owStep ⟨13, [[0,0,0,0,0,0,0,0], [1,2,3], [4,5,6,7,8]], none⟩ (.write [9])).1.q
    = [[1,2,3], [4,5,6,7,8], [9]] := by decide

theorem owDrop_oversize (W len : Nat) (q : List (List Nat)) (sem : Option Nat) (hbig : 4 * W < len + MARGIN) :
    owDrop W len q sem = ([], sem.map (· - q.length), false) := by
  induction q generalizing sem with
  | nil =>
    rw [owDrop_nil]
    have : Fifo.free ⟨W, [], sem⟩ < len + MARGIN := Nat.lt_of_le_of_lt (free_le _) hbig
    cases sem <;> simp [this]
  | cons c cs ih =>
    have : Fifo.free ⟨W, c :: cs, sem⟩ < len + MARGIN := Nat.lt_of_le_of_lt (free_le _) hbig
    rw [owDrop_cons_drop _ _ _ _ _ this, ih]
    cases sem <;> simp [Nat.sub_sub, Nat.add_comm]

/-- **A chunk larger than the whole ring fails with EINVAL — after the reclaim loop has emptied
    the ring.**  The failure is clean in the sense that nothing is corrupted (the result is a
    well-formed empty ring: `ow_history` / `ow_reachable_inv` cover it) but the old contents are
    discarded: `qb_rb_chunk_alloc` reclaims until nothing is left before it gives up. -/
theorem ow_oversize_fails_cleanly (f : Fifo) (d : List Nat) (hbig : 4 * f.W < d.length + MARGIN) :
    f.owStep (.write d) = (⟨f.W, [], f.sem.map (· - f.q.length)⟩, .err .einval) := by
  rw [owStep_write, owDrop_oversize f.W d.length f.q f.sem hbig]
  simp

example : Fifo.owStep ⟨8, [[1,2,3], [4,5,6,7,8]], some 2⟩ (.write (List.replicate 21 0))
    = (⟨8, [], some 0⟩, .err .einval) :=
  ow_oversize_fails_cleanly _ _ (by decide)

/-! ### the notification count along histories -/

theorem semok_owDrop (W len : Nat) (q : List (List Nat)) (sem : Option Nat)
    (h : ∀ n, sem = some n → n ≤ q.length) :
    ∀ n, (owDrop W len q sem).2.1 = some n → n ≤ (owDrop W len q sem).1.length := by
  obtain ⟨k, hk, h1, h2, _, _⟩ := owDrop_spec W len q sem
  intro n hn
  rw [h2] at hn
  rw [h1, List.length_drop]
  cases sem with
  | none => simp at hn
  | some m =>
    have := h m rfl
    simp only [Option.map_some, Option.some.injEq] at hn
    omega

theorem tryWait_q (f f1 : Fifo) (h : f.tryWait = some f1) :
    f1.q = f.q ∧ f1.W = f.W ∧ ((f.sem = none ∧ f1.sem = none) ∨ ∃ n, f.sem = some (n + 1) ∧ f1.sem = some n) := by
  obtain ⟨W, q, sem⟩ := f
  unfold Fifo.tryWait at h
  cases sem with
  | none => simp only [Option.some.injEq] at h; subst h; exact ⟨rfl, rfl, Or.inl ⟨rfl, rfl⟩⟩
  | some n => cases n with
    | zero => simp at h
    | succ n => simp only [Option.some.injEq] at h; subst h; exact ⟨rfl, rfl, Or.inr ⟨n, rfl, rfl⟩⟩

theorem semok_step (f : Fifo) (op : Op) (hop : op ≠ .reclaim) (h : f.SemOk) : (f.owStep op).1.SemOk := by
  cases op with
  | reclaim => exact absurd rfl hop
  | free => exact h
  | write d =>
    rw [owStep_write]
    have := semok_owDrop f.W d.length f.q f.sem h
    by_cases hok : (owDrop f.W d.length f.q f.sem).2.2 = true
    · rw [if_pos hok]
      intro n hn
      simp only [List.length_append, List.length_singleton] at hn ⊢
      cases hs : (owDrop f.W d.length f.q f.sem).2.1 with
      | none => rw [hs] at hn; simp at hn
      | some m =>
        rw [hs] at hn
        have := this m hs
        simp only [Option.map_some, Option.some.injEq] at hn
        omega
    · rw [if_neg hok]
      exact this
  | read cap =>
    show (f.step (.read cap)).1.SemOk
    simp only [Fifo.step]
    cases ht : f.tryWait with
    | none => exact h
    | some f1 =>
      obtain ⟨hq, _, hs⟩ := tryWait_q f f1 ht
      simp only
      cases hq1 : f1.q with
      | nil =>
        rcases hs with ⟨h0, h1⟩ | ⟨n, h0, h1⟩
        · simp only [h1]; intro n hn; rw [h1] at hn; simp at hn
        · simp only [h1, Fifo.post]
          intro m hm
          simp only [Option.map_some, Option.some.injEq] at hm
          have := h (n + 1) h0
          rw [hq1]; rw [← hq, hq1] at this; omega
      | cons c cs =>
        simp only
        have hlen : f.q.length = cs.length + 1 := by rw [← hq, hq1]; rfl
        by_cases hc : cap < c.length
        · rw [if_pos hc]
          intro m hm
          simp only [Fifo.post] at hm ⊢
          rcases hs with ⟨h0, h1⟩ | ⟨n, h0, h1⟩
          · rw [h1] at hm; simp at hm
          · rw [h1] at hm
            simp only [Option.map_some, Option.some.injEq] at hm
            have := h (n + 1) h0
            rw [hq, hlen]; omega
        · rw [if_neg hc]
          intro m hm
          simp only at hm ⊢
          rcases hs with ⟨h0, h1⟩ | ⟨n, h0, h1⟩
          · rw [h1] at hm; simp at hm
          · rw [h1] at hm
            simp only [Option.some.injEq] at hm
            have := h (n + 1) h0
            omega
  | peek =>
    show (f.step .peek).1.SemOk
    simp only [Fifo.step]
    cases ht : f.tryWait with
    | none => exact h
    | some f1 =>
      obtain ⟨hq, _, hs⟩ := tryWait_q f f1 ht
      simp only
      cases hq1 : f1.q with
      | nil =>
        simp only [Fifo.post]
        intro m hm
        rcases hs with ⟨h0, h1⟩ | ⟨n, h0, h1⟩
        · rw [h1] at hm; simp at hm
        · rw [h1] at hm
          simp only [Option.map_some, Option.some.injEq] at hm
          have := h (n + 1) h0
          simp only; rw [hq1]; rw [← hq, hq1] at this; omega
      | cons c cs =>
        simp only
        intro m hm
        rcases hs with ⟨h0, h1⟩ | ⟨n, h0, h1⟩
        · rw [h1] at hm; simp at hm
        · rw [h1] at hm
          simp only [Option.some.injEq] at hm
          have := h (n + 1) h0
          rw [hq]; omega

/-- `peek` directly followed by `reclaim` keeps the count within the number of chunks -/
theorem semok_peek_reclaim (f : Fifo) (h : f.SemOk) : ((f.owStep .peek).1.owStep .reclaim).1.SemOk := by
  show ((f.step .peek).1.step .reclaim).1.SemOk
  simp only [Fifo.step]
  cases ht : f.tryWait with
  | none =>
    -- sem = some 0
    simp only
    intro m hm
    simp only at hm
    have : f.sem = some 0 := by
      obtain ⟨W, q, sem⟩ := f
      unfold Fifo.tryWait at ht
      cases sem with
      | none => simp at ht
      | some n => cases n with
        | zero => rfl
        | succ n => simp at ht
    rw [this] at hm
    simp only [Option.some.injEq] at hm
    omega
  | some f1 =>
    obtain ⟨hq, _, hs⟩ := tryWait_q f f1 ht
    simp only
    cases hq1 : f1.q with
    | nil =>
      simp only [Fifo.post]
      intro m hm
      rcases hs with ⟨h0, h1⟩ | ⟨n, h0, h1⟩
      · rw [h1] at hm; simp at hm
      · have := h (n + 1) h0
        rw [← hq, hq1] at this
        simp at this
    | cons c cs =>
      simp only [hq1, List.tail_cons]
      intro m hm
      rcases hs with ⟨h0, h1⟩ | ⟨n, h0, h1⟩
      · rw [h1] at hm; simp at hm
      · rw [h1] at hm
        simp only [Option.some.injEq] at hm
        have := h (n + 1) h0
        rw [← hq, hq1] at this
        simp only [List.length_cons] at this
        simp only
        omega

theorem owRun_cons (f : Fifo) (op : Op) (ops : List Op) :
    f.owRun (op :: ops) = (((f.owStep op).1.owRun ops).1, (f.owStep op).2 :: ((f.owStep op).1.owRun ops).2) := rfl

/-- along every history that uses `reclaim` only directly after `peek` (the documented use)
    the notification count stays within the number of queued chunks -/
theorem semok_run (f : Fifo) (ops : List Op) (hd : disciplined ops = true) (h : f.SemOk) :
    (f.owRun ops).1.SemOk := by
  induction ops using disciplined.induct generalizing f with
  | case1 => exact h
  | case2 rest => simp [disciplined] at hd
  | case3 rest ih =>
    simp only [disciplined] at hd
    rw [owRun_cons, owRun_cons]
    exact ih _ hd (semok_peek_reclaim f h)
  | case4 op rest hne1 hne2 ih =>
    have hop : op ≠ .reclaim := hne1
    have hd' : disciplined rest = true := by
      cases op with
      | reclaim => exact absurd rfl hop
      | peek =>
        cases rest with
        | nil => rfl
        | cons o os =>
          cases o with
          | reclaim => exact absurd rfl (hne2 os rfl)
          | _ => simpa [disciplined] using hd
      | _ => simpa [disciplined] using hd
    rw [owRun_cons]
    exact ih _ hd' (semok_step f op hop h)

theorem owStep_W (f : Fifo) (op : Op) : (f.owStep op).1.W = f.W := by
  cases op with
  | write d => rw [owStep_write]; split <;> rfl
  | free => rfl
  | reclaim => rfl
  | read cap =>
    show (f.step (.read cap)).1.W = f.W
    simp only [Fifo.step]
    cases ht : f.tryWait with
    | none => rfl
    | some f1 =>
      obtain ⟨_, hW, _⟩ := tryWait_q f f1 ht
      simp only
      cases f1.q with
      | nil => cases f1.sem <;> simp [Fifo.post, hW]
      | cons c cs => simp only; split <;> simp [Fifo.post, hW]
  | peek =>
    show (f.step .peek).1.W = f.W
    simp only [Fifo.step]
    cases ht : f.tryWait with
    | none => rfl
    | some f1 =>
      obtain ⟨_, hW, _⟩ := tryWait_q f f1 ht
      simp only
      cases f1.q <;> simp [Fifo.post, hW]

theorem owRun_W (f : Fifo) (ops : List Op) : (f.owRun ops).1.W = f.W := by
  induction ops generalizing f with
  | nil => rfl
  | cons op ops ih => rw [owRun_cons]; simp only; rw [ih, owStep_W]

/-- **Every write of at most the requested size succeeds — on the ring, in every reachable
    state.**  For a ring created by `qb_rb_open(S, QB_RB_FLAG_OVERWRITE)` (with or without the
    semaphore) and every history that uses `reclaim` only directly after `peek`, a write of at
    most `S` bytes issued next returns its length. -/
theorem ow_write_succeeds_ring (S page : Nat) (useSem : Bool) (hp : 0 < page) (h4 : page % 4 = 0)
    (hbig : roundUp (S + MARGIN + 1) page < 2^31) (ops : List Op) (hdisc : disciplined ops = true)
    (d : List Nat) (hd : d.length ≤ S) :
    (((Rb.open S page true useSem).run ops).1.step (.write d)).2 = .wrote d.length := by
  obtain ⟨q, TR, hi, how, he⟩ := run_sim_ow' (open_inv S page true useSem hp h4 hbig) rfl ops
  have hinit : absF (Rb.open S page true useSem) [] = Fifo.init (Rb.open S page true useSem).W useSem := rfl
  obtain ⟨q', TR', _, _, hstep⟩ := step_write_ow hi how d
  have hf : absF ((Rb.open S page true useSem).run ops).1 q = ((absF (Rb.open S page true useSem) []).owRun ops).1 := by
    rw [he]
  have hsem : (absF ((Rb.open S page true useSem).run ops).1 q).SemOk := by
    rw [hf]
    apply semok_run _ _ hdisc
    intro n hn
    rw [hinit] at hn
    cases useSem <;> simp [Fifo.init] at hn
    omega
  have hW : (absF ((Rb.open S page true useSem).run ops).1 q).W = (Rb.open S page true useSem).W := by
    rw [hf, owRun_W]; rfl
  have hcap := C07.open_capacity S page true useSem hp h4
  have := ow_write_succeeds _ S d (by rw [hW]; exact hcap) hsem hd
  rw [hstep] at this
  exact this

/-! ### the contents are always the newest chunks written -/

theorem writesOf_cons (op : Op) (ops : List Op) (o : Out) (os : List Out) :
    writesOf (op :: ops) (o :: os)
      = (match op, o with | .write d, .wrote _ => [d] | _, _ => []) ++ writesOf ops os := by
  cases op <;> cases o <;> simp [writesOf]

theorem owStep_suffix (f : Fifo) (op : Op) :
    (f.owStep op).1.q <:+ f.q ++ (match op, (f.owStep op).2 with | .write d, .wrote _ => [d] | _, _ => []) := by
  cases op with
  | write d =>
    obtain ⟨k, hk, h1, _⟩ := owDrop_spec f.W d.length f.q f.sem
    rw [owStep_write]
    by_cases hok : (owDrop f.W d.length f.q f.sem).2.2 = true
    · rw [if_pos hok]
      simp only [h1]
      exact ⟨f.q.take k, by rw [← List.append_assoc, List.take_append_drop]⟩
    · rw [if_neg hok]
      simp only [h1, List.append_nil]
      exact List.drop_suffix k f.q
  | read cap =>
    have := C07.step_conservation f (.read cap)
    show (f.step (.read cap)).1.q <:+ f.q ++ []
    simp only [List.append_nil] at this ⊢
    exact ⟨_, this.symm⟩
  | peek =>
    have := C07.step_conservation f .peek
    show (f.step .peek).1.q <:+ f.q ++ []
    simp only [List.append_nil] at this ⊢
    exact ⟨_, this.symm⟩
  | reclaim =>
    show f.q.tail <:+ f.q ++ []
    rw [List.append_nil]
    exact List.tail_suffix f.q
  | free =>
    show f.q <:+ f.q ++ []
    rw [List.append_nil]
    exact List.suffix_refl _

/-- **At any time the readable contents are the most recent chunks written**: after any
    history, the queue is a suffix of (initial contents ++ payloads of the successful writes),
    i.e. an unbroken run of the newest chunks, in order and byte-identical; reads and reclaims
    only take from its old end. -/
theorem ow_contents_newest (f : Fifo) (ops : List Op) :
    (f.owRun ops).1.q <:+ f.q ++ writesOf ops (f.owRun ops).2 := by
  induction ops generalizing f with
  | nil => simp [Fifo.owRun, writesOf]
  | cons op ops ih =>
    rw [owRun_cons]
    simp only [writesOf_cons]
    obtain ⟨t, ht⟩ := owStep_suffix f op
    obtain ⟨u, hu⟩ := ih (f.owStep op).1
    refine ⟨t ++ u, ?_⟩
    rw [List.append_assoc, hu, ← List.append_assoc, ht, List.append_assoc]

/-- after a successful write the newest chunk is the last one readable (so `k ≥ 1`) -/
theorem ow_last_is_newest (f : Fifo) (d : List Nat) (h : (f.owStep (.write d)).2 = .wrote d.length) :
    (f.owStep (.write d)).1.q.getLast? = some d := by
  obtain ⟨k, _, hq, _⟩ := ow_contents_suffix f d h
  rw [hq]; simp

/-- **On the ring:** after any history on a ring opened with the overwrite flag, the chunks
    still stored (the ghost queue of the layout invariant — what `qb_rb_chunk_read` will return,
    in this order, by `ow_history`) are a suffix of the payloads of the successful writes, both
    read off the ring model's own outputs. -/
theorem ow_ring_contents_newest (S page : Nat) (useSem : Bool) (hp : 0 < page) (h4 : page % 4 = 0)
    (hbig : roundUp (S + MARGIN + 1) page < 2^31) (ops : List Op) :
    ∃ q TR, Inv ((Rb.open S page true useSem).run ops).1 q TR ∧
      q <:+ writesOf ops ((Rb.open S page true useSem).run ops).2 := by
  obtain ⟨q, TR, hi, he⟩ := run_sim_ow (open_inv S page true useSem hp h4 hbig) rfl ops
  refine ⟨q, TR, hi, ?_⟩
  have := ow_contents_newest (absF (Rb.open S page true useSem) []) ops
  rw [he] at this
  simpa [absF] using this

/-- draining: on a ring without semaphore (or whose count equals the number of chunks) reading
    `|q|` times with a large enough buffer returns the queue, oldest first, and empties it -/
theorem drain_reads_queue (W : Nat) (q : List (List Nat)) (sem : Option Nat) (cap : Nat)
    (hs : sem = none ∨ sem = some q.length) (hcap : ∀ c ∈ q, c.length ≤ cap) :
    (Fifo.owRun ⟨W, q, sem⟩ (List.replicate q.length (.read cap))).2 = q.map .data ∧
    (Fifo.owRun ⟨W, q, sem⟩ (List.replicate q.length (.read cap))).1.q = [] := by
  induction q generalizing sem with
  | nil => exact ⟨rfl, rfl⟩
  | cons c cs ih =>
    have hc : ¬ cap < c.length := by have := hcap c List.mem_cons_self; omega
    have hstep : Fifo.owStep ⟨W, c :: cs, sem⟩ (.read cap)
        = (⟨W, cs, if sem = none then none else some cs.length⟩, .data c) := by
      show Fifo.step ⟨W, c :: cs, sem⟩ (.read cap) = _
      rcases hs with rfl | rfl
      · simp [Fifo.step, Fifo.tryWait, hc]
      · simp [Fifo.step, Fifo.tryWait, hc]
    simp only [List.length_cons, List.replicate_succ, owRun_cons, hstep, List.map_cons]
    have := ih (sem := if sem = none then none else some cs.length)
      (by rcases hs with rfl | rfl <;> simp) (fun c hc => hcap c (List.mem_cons_of_mem _ hc))
    exact ⟨by rw [this.1], this.2⟩

example : (Fifo.owRun ⟨8, [[1], [2,2]], none⟩ (List.replicate 2 (.read 9))).2 = [.data [1], .data [2,2]] :=
  (drain_reads_queue 8 [[1], [2,2]] none 9 (Or.inl rfl) (by decide)).1

/-! ### two-phase writes in overwrite mode (the blackbox logger's pattern) -/

/-- **Refinement with separate `alloc` / `commit` operations, overwrite mode.**  As
    `C07.fifo_history_alloc_commit`, for a ring opened with QB_RB_FLAG_OVERWRITE: `alloc n` runs
    the drop loop for the *allocated* length `n` (the blackbox reserves header + maximum line
    length), `commit data` appends the `data.length ≤ n` bytes actually used. -/
theorem ow_history_alloc_commit (S page : Nat) (useSem : Bool) (hp : 0 < page) (h4 : page % 4 = 0)
    (hbig : roundUp (S + MARGIN + 1) page < 2^31) (ops : List POp) :
    ((RbP.mk (Rb.open S page true useSem) none).run ops).2
      = ((FifoP.mk (Fifo.init (Rb.open S page true useSem).W useSem) none).run true ops).2 := by
  have hP : PInv (RbP.mk (Rb.open S page true useSem) none) [] 0 :=
    ⟨open_inv S page true useSem hp h4 hbig, by intro n hn; simp at hn⟩
  exact prun_sim hP ops

example :
    ((RbP.mk (Rb.open 19 16 true true) none).run
      [.alloc 16, .commit [1,1,1,1,1], .alloc 16, .commit [2], .alloc 16, .base (.read 100), .commit [3,3],
       .base (.read 100), .base (.read 100), .base (.read 100)]).2
    = [some .unit, some (.num 0), some .unit, some (.num 0), some .unit, some (.err .etimedout), some (.num 0),
       some (.data [3,3]), some (.err .etimedout), some (.err .etimedout)] := by decide +kernel

/-- an allocation of at most the requested size always succeeds in overwrite mode (it may drop
    old chunks); `SemOk` as in `ow_write_succeeds` -/
theorem ow_alloc_succeeds (f : Fifo) (S n : Nat) (hS : S + MARGIN + 1 ≤ 4 * f.W) (hsem : f.SemOk) (hn : n ≤ S) :
    ∃ q' sem', FifoP.step true ⟨f, none⟩ (.alloc n) = some (⟨⟨f.W, q', sem'⟩, some n⟩, .unit) := by
  have hok := owDrop_true f.W S n f.q f.sem hS hn hsem
  simp only [FifoP.step]
  revert hok
  rcases owDrop f.W n f.q f.sem with ⟨q', sem', ok⟩
  intro hok
  cases ok with
  | false => simp at hok
  | true => exact ⟨q', sem', by simp⟩

/-! ### defect D31: the code before the repair (model-level refutation witness) -/

/-- Two 16-byte writes into a 32-byte overwrite ring *with* semaphore (`open 19`, page 16), then
    a 1-byte write; results of the second and third write.  `takeBack = false` is
    `qb_rb_chunk_alloc` before the repair (the notification of a dropped chunk stays counted). -/
def d31History (takeBack : Bool) : Out × Out :=
  let r0 := Rb.open 19 16 true true
  let r1 := (r0.writeGen true takeBack (List.replicate 16 1)).1
  let w2 := r1.writeGen true takeBack (List.replicate 16 2)
  let w3 := w2.1.writeGen true takeBack [3]
  let out : Except Err Nat → Out := fun | .ok n => .wrote n | .error e => .err e
  (out w2.2, out w3.2)

/-- **Model-level witness of defect D31.**  Before the repair, an overwriting write that has
    to drop the last remaining chunk fails with EINVAL (the emptied ring is taken for full
    because the dropped chunk's notification is still counted), the old contents are gone, and
    every later write fails too; with the repair both writes succeed (`ow_write_succeeds`).
    The same history against the real code: `corpus/C11/d31-sem-overcount.ops`. -/
theorem ow_sem_overcount_witness :
    d31History false = (.err .einval, .err .einval) ∧ d31History true = (.wrote 16, .wrote 1) := by
  decide +kernel

end QbVerif.Props.C11
