/-
C11 — overwrite ring: every write of at most the requested size succeeds, and the readable
contents are always the most recent chunks written, intact and in order.

Property theorems only (helper lemmas: QbVerif/Lemmas/Ring*.lean, in particular RingOw.lean).
The byte-level model is `Ring.Rb` opened with the overwrite flag (`Rb.alloc` runs the reclaim
loop `makeRoom`); the specification is the overwrite FIFO of `Model/RingOwSpec.lean`.
-/
import QbVerif.Lemmas.RingOw
import QbVerif.Lemmas.RingAlloc
import QbVerif.Props.C07

namespace QbVerif.Props.C11
open QbVerif.Ring QbVerif.RingSpec QbVerif.RingLemmas
open QbVerif.Props.C07 (writesOf readsOf)

/-! ### refinement -/

/-- **Refinement.** Every sequence of write / read / peek / reclaim / free operations on a ring
    created by `qb_rb_open(S, QB_RB_FLAG_OVERWRITE)` (with or without the notification
    semaphore) produces exactly the outputs of the overwrite FIFO: writes drop the oldest chunks
    until the free-space rule admits the new one; everything else is the plain FIFO. -/
theorem ow_history (S page : Nat) (useSem : Bool) (hp : 0 < page) (h4 : page % 4 = 0)
    (hbig : roundUp (S + MARGIN + 1) page < 2^31) (ops : List Op) :
    ((Rb.open S page true useSem).run ops).2
      = ((Fifo.init (Rb.open S page true useSem).W useSem).owRun ops).2 := by
  obtain ⟨q, TR, _, he⟩ := run_sim_ow (open_inv S page true useSem hp h4 hbig) rfl ops
  have : absF (Rb.open S page true useSem) [] = Fifo.init (Rb.open S page true useSem).W useSem := rfl
  rw [← this, he]

/-- the layout invariant holds in every reachable state of the overwriting ring, and the ghost
    queue is the overwrite FIFO's queue -/
theorem ow_reachable_inv (S page : Nat) (useSem : Bool) (hp : 0 < page) (h4 : page % 4 = 0)
    (hbig : roundUp (S + MARGIN + 1) page < 2^31) (ops : List Op) :
    ∃ q TR, Inv ((Rb.open S page true useSem).run ops).1 q TR ∧
      ((Fifo.init (Rb.open S page true useSem).W useSem).owRun ops).1
        = absF ((Rb.open S page true useSem).run ops).1 q := by
  obtain ⟨q, TR, hi, he⟩ := run_sim_ow (open_inv S page true useSem hp h4 hbig) rfl ops
  have : absF (Rb.open S page true useSem) [] = Fifo.init (Rb.open S page true useSem).W useSem := rfl
  exact ⟨q, TR, hi, by rw [← this, he]⟩

/-- non-vacuity / sanity: a 32-byte overwrite ring (W = 8); the third write drops the two oldest
    chunks, the reads return the survivors in order, then the ring is empty -/
example :
    ((Rb.open 19 16 true false).run
      [.write [1], .write [2,2], .write [3,3,3], .write [4], .read 100, .read 100, .read 100]).2
    = [.wrote 1, .wrote 2, .wrote 3, .wrote 1, .data [3,3,3], .data [4], .err .etimedout] := by
  decide +kernel

/-! ### the writer, on the overwrite FIFO

In overwrite mode the writer's free-space rule does not look at the notification count
(`qb_rb_space_free` since the repair of D31b), so everything below holds for every value of
`f.sem`: with and without the semaphore flag. -/

theorem owFree_nil (W : Nat) : owFree W [] = 4 * W := rfl

theorem owFree_cons (W : Nat) (c : List Nat) (cs : List (List Nat)) :
    owFree W (c :: cs) = 4 * (W - total (c :: cs) - 1) := rfl

theorem owFree_le (W : Nat) (q : List (List Nat)) : owFree W q ≤ 4 * W := by
  cases q with
  | nil => exact Nat.le_refl _
  | cons c cs => rw [owFree_cons]; omega

theorem owDrop_true (W S len : Nat) (q : List (List Nat)) (hS : S + MARGIN + 1 ≤ 4 * W)
    (hlen : len ≤ S) : (owDrop W len q).2 = true := by
  induction q with
  | nil =>
    rw [owDrop_nil, owFree_nil]
    have : ¬ 4 * W < len + MARGIN := by omega
    simp [this]
  | cons c cs ih =>
    by_cases hc : owFree W (c :: cs) < len + MARGIN
    · rw [owDrop_cons_drop _ _ _ _ hc]; exact ih
    · rw [owDrop_cons_stop _ _ _ _ hc]

/-- the outcome of a write on the overwrite FIFO, in terms of `owDrop` -/
theorem owStep_write (f : Fifo) (d : List Nat) :
    f.owStep (.write d) =
      if (owDrop f.W d.length f.q).2 then
        (⟨f.W, (owDrop f.W d.length f.q).1 ++ [d], f.sem.map (· + 1)⟩, .wrote d.length)
      else (⟨f.W, (owDrop f.W d.length f.q).1, f.sem⟩, .err .einval) := by
  simp only [Fifo.owStep]
  rcases owDrop f.W d.length f.q with ⟨q', ok⟩
  cases ok <;> simp [Fifo.post]

/-- **Every write of at most the requested size succeeds** (overwrite FIFO, any queue contents,
    any notification count / no semaphore). -/
theorem ow_write_succeeds (f : Fifo) (S : Nat) (d : List Nat) (hS : S + MARGIN + 1 ≤ 4 * f.W)
    (hd : d.length ≤ S) : (f.owStep (.write d)).2 = .wrote d.length := by
  rw [owStep_write, if_pos (owDrop_true f.W S d.length f.q hS hd)]

example : (Fifo.owStep ⟨8, [[1,2,3], [4,5,6,7,8]], some 7⟩ (.write (List.replicate 19 9))).2 = .wrote 19 :=
  ow_write_succeeds ⟨8, [[1,2,3], [4,5,6,7,8]], some 7⟩ 19 _ (by decide) (by decide)

/-- **The contents after a write are a suffix of the old contents plus the new chunk**: exactly
    the `k` oldest chunks are gone, where `k` is the least number of drops after which the
    free-space rule (`free ≥ len + margin`) admits the new chunk.  In particular at least the
    new chunk is readable (`k ≥ 1` chunks after the first write). -/
theorem ow_contents_suffix (f : Fifo) (d : List Nat) (h : (f.owStep (.write d)).2 = .wrote d.length) :
    ∃ k, k ≤ f.q.length ∧ (f.owStep (.write d)).1.q = f.q.drop k ++ [d] ∧
      (∀ j, j < k → owFree f.W (f.q.drop j) < d.length + MARGIN) ∧
      ¬ owFree f.W (f.q.drop k) < d.length + MARGIN := by
  obtain ⟨k, hk, h1, h3, _⟩ := owDrop_spec f.W d.length f.q
  rw [owStep_write] at h ⊢
  by_cases hok : (owDrop f.W d.length f.q).2 = true
  · rw [if_pos hok]
    refine ⟨k, hk, by simp only [h1], h3, ?_⟩
    have := owDrop_ok hok
    rw [h1] at this
    exact this
  · rw [if_neg hok] at h
    simp at h

example : ∃ k, (Fifo.owStep ⟨8, [[1,2,3], [4,5,6,7,8]], none⟩ (.write [9])).1.q
    = List.drop k [[1,2,3], [4,5,6,7,8]] ++ [[9]] :=
  let ⟨k, _, h, _⟩ := ow_contents_suffix ⟨8, [[1,2,3], [4,5,6,7,8]], none⟩ [9] (by decide)
  ⟨k, h⟩

/-- after a successful write the newest chunk is the last one readable (so `k ≥ 1`) -/
theorem ow_last_is_newest (f : Fifo) (d : List Nat) (h : (f.owStep (.write d)).2 = .wrote d.length) :
    (f.owStep (.write d)).1.q.getLast? = some d := by
  obtain ⟨k, _, hq, _⟩ := ow_contents_suffix f d h
  rw [hq]; simp

/-- a suffix of `q` that fits by the 16-byte accounting is never dropped -/
theorem fits_no_drop (W S len : Nat) (c : List Nat) (cs : List (List Nat))
    (hS : S + MARGIN + 1 ≤ 4 * W)
    (hfit : ((c :: cs).map (fun c => c.length + 16)).sum + (len + 16) ≤ S) :
    ¬ owFree W (c :: cs) < len + MARGIN := by
  have hm := MARGIN_eq
  have hq := total_le_sum16 (c :: cs)
  rw [owFree_cons]
  omega

/-- **Everything that fits is kept.** After a write of at most `S` bytes, every run of newest
    chunks (a suffix of the old contents followed by the new chunk) that fits into the
    requested size `S`, each chunk counted with 16 bytes of overhead, is still there. -/
theorem ow_keeps_all_that_fit (f : Fifo) (S : Nat) (d : List Nat) (hS : S + MARGIN + 1 ≤ 4 * f.W)
    (hd : d.length ≤ S) (s : List (List Nat)) (hs : s <:+ f.q ++ [d])
    (hfit : (s.map (fun c => c.length + 16)).sum ≤ S) :
    s <:+ (f.owStep (.write d)).1.q := by
  obtain ⟨k, hk, hq, hmin, _⟩ := ow_contents_suffix f d (ow_write_succeeds f S d hS hd)
  rw [hq]
  -- s is a suffix of q ++ [d]: either empty or s' ++ [d] with s' a suffix of q
  rcases List.eq_nil_or_concat s with rfl | ⟨s', x, rfl⟩
  · exact List.nil_suffix
  · rw [List.concat_eq_append] at hs hfit ⊢
    have hx : x = d ∧ s' <:+ f.q := by
      obtain ⟨t, ht⟩ := hs
      rw [← List.append_assoc] at ht
      have := List.append_inj' ht rfl
      exact ⟨by simpa using this.2, ⟨t, this.1⟩⟩
    obtain ⟨rfl, t, ht⟩ := hx
    -- s' = f.q.drop t.length
    have hs' : s' = f.q.drop t.length := by rw [← ht]; simp
    suffices hkt : k ≤ t.length by
      refine ⟨(f.q.drop k).take (t.length - k), ?_⟩
      rw [← List.append_assoc]
      congr 1
      rw [hs']
      have : f.q.drop t.length = (f.q.drop k).drop (t.length - k) := by
        rw [List.drop_drop]; congr 1; omega
      rw [this, List.take_append_drop]
    -- otherwise the loop dropped a chunk of s' although s' ++ [x] fits
    apply Nat.le_of_not_lt
    intro hlt
    have hfree := hmin t.length hlt
    rw [← hs'] at hfree
    cases s' with
    | nil =>
      have : t.length = f.q.length := by
        have := congrArg List.length ht; simp at this; omega
      omega
    | cons c cs =>
      refine fits_no_drop f.W S x.length c cs hS ?_ hfree
      simp only [List.map_append, List.sum_append, List.map_cons, List.sum_cons, List.map_nil, List.sum_nil] at hfit ⊢
      omega

/-- non-vacuity: W = 13 (52 bytes, S = 38); the write drops the oldest chunk, the two newest
    old chunks do not both fit with the new one by the 16-byte accounting, the newest does -/
example : [[4,5,6,7,8], [9]] <:+
    (Fifo.owStep ⟨13, [[0,0,0,0,0,0,0,0], [1,2,3], [4,5,6,7,8]], some 9⟩ (.write [9])).1.q :=
  ow_keeps_all_that_fit ⟨13, [[0,0,0,0,0,0,0,0], [1,2,3], [4,5,6,7,8]], some 9⟩ 38 [9] (by decide)
    (by decide) _ ⟨[[0,0,0,0,0,0,0,0], [1,2,3]], rfl⟩ (by decide)

example : (Fifo.owStep ⟨13, [[0,0,0,0,0,0,0,0], [1,2,3], [4,5,6,7,8]], none⟩ (.write [9])).1.q
    = [[1,2,3], [4,5,6,7,8], [9]] := by decide

theorem owDrop_oversize (W len : Nat) (q : List (List Nat)) (hbig : 4 * W < len + MARGIN) :
    owDrop W len q = ([], false) := by
  induction q with
  | nil =>
    rw [owDrop_nil]
    have : owFree W [] < len + MARGIN := Nat.lt_of_le_of_lt (owFree_le _ _) hbig
    simp [this]
  | cons c cs ih =>
    have : owFree W (c :: cs) < len + MARGIN := Nat.lt_of_le_of_lt (owFree_le _ _) hbig
    rw [owDrop_cons_drop _ _ _ _ this, ih]

/-- **A chunk larger than the whole ring fails with EINVAL — after the reclaim loop has emptied
    the ring.**  The failure is clean in the sense that nothing is corrupted (the result is a
    well-formed empty ring with an unchanged notification count: `ow_history` /
    `ow_reachable_inv` cover it, and by `ow_write_succeeds_ring` the next write of at most `S`
    bytes succeeds) but the old contents are discarded: `qb_rb_chunk_alloc` reclaims until
    nothing is left before it gives up. -/
theorem ow_oversize_fails_cleanly (f : Fifo) (d : List Nat) (hbig : 4 * f.W < d.length + MARGIN) :
    f.owStep (.write d) = (⟨f.W, [], f.sem⟩, .err .einval) := by
  rw [owStep_write, owDrop_oversize f.W d.length f.q hbig]
  simp

example : Fifo.owStep ⟨8, [[1,2,3], [4,5,6,7,8]], some 2⟩ (.write (List.replicate 21 0))
    = (⟨8, [], some 2⟩, .err .einval) :=
  ow_oversize_fails_cleanly _ _ (by decide)

/-! ### histories -/

theorem owRun_cons (f : Fifo) (op : Op) (ops : List Op) :
    f.owRun (op :: ops) = (((f.owStep op).1.owRun ops).1, (f.owStep op).2 :: ((f.owStep op).1.owRun ops).2) := rfl

theorem tryWait_q (f f1 : Fifo) (h : f.tryWait = some f1) : f1.q = f.q ∧ f1.W = f.W := by
  obtain ⟨W, q, sem⟩ := f
  unfold Fifo.tryWait at h
  cases sem with
  | none => simp only [Option.some.injEq] at h; subst h; exact ⟨rfl, rfl⟩
  | some n => cases n with
    | zero => simp at h
    | succ n => simp only [Option.some.injEq] at h; subst h; exact ⟨rfl, rfl⟩

theorem owStep_W (f : Fifo) (op : Op) : (f.owStep op).1.W = f.W := by
  cases op with
  | write d => rw [owStep_write]; split <;> rfl
  | free => rfl
  | reclaim => rfl
  | read cap =>
    show (f.step (.read cap)).1.W = f.W
    simp only [Fifo.step]
    cases ht : f.tryWait with
    | none => rfl
    | some f1 =>
      obtain ⟨_, hW⟩ := tryWait_q f f1 ht
      simp only
      cases f1.q with
      | nil => cases f1.sem <;> simp [Fifo.post, hW]
      | cons c cs => simp only; split <;> simp [Fifo.post, hW]
  | peek =>
    show (f.step .peek).1.W = f.W
    simp only [Fifo.step]
    cases ht : f.tryWait with
    | none => rfl
    | some f1 =>
      obtain ⟨_, hW⟩ := tryWait_q f f1 ht
      simp only
      cases f1.q <;> simp [Fifo.post, hW]

theorem owRun_W (f : Fifo) (ops : List Op) : (f.owRun ops).1.W = f.W := by
  induction ops generalizing f with
  | nil => rfl
  | cons op ops ih => rw [owRun_cons]; simp only; rw [ih, owStep_W]

/-- **Every write of at most the requested size succeeds — on the ring, in every reachable
    state.**  For a ring created by `qb_rb_open(S, QB_RB_FLAG_OVERWRITE)`, with or without the
    semaphore, and EVERY history of writes, reads, peeks, reclaims (also failed and oversize
    ones), a write of at most `S` bytes issued next returns its length. -/
theorem ow_write_succeeds_ring (S page : Nat) (useSem : Bool) (hp : 0 < page) (h4 : page % 4 = 0)
    (hbig : roundUp (S + MARGIN + 1) page < 2^31) (ops : List Op)
    (d : List Nat) (hd : d.length ≤ S) :
    (((Rb.open S page true useSem).run ops).1.step (.write d)).2 = .wrote d.length := by
  obtain ⟨q, TR, hi, how, he⟩ := run_sim_ow' (open_inv S page true useSem hp h4 hbig) rfl ops
  obtain ⟨q', TR', _, _, hstep⟩ := step_write_ow hi how d
  have hf : absF ((Rb.open S page true useSem).run ops).1 q = ((absF (Rb.open S page true useSem) []).owRun ops).1 := by
    rw [he]
  have hW : (absF ((Rb.open S page true useSem).run ops).1 q).W = (Rb.open S page true useSem).W := by
    rw [hf, owRun_W]; rfl
  have hcap := C07.open_capacity S page true useSem hp h4
  have := ow_write_succeeds _ S d (by rw [hW]; exact hcap) hd
  rw [hstep] at this
  exact this

example : (((Rb.open 19 16 true true).run [.write [1], .write (List.replicate 30 0), .reclaim, .read 9]).1.step
    (.write (List.replicate 19 7))).2 = .wrote 19 :=
  ow_write_succeeds_ring 19 16 true (by decide) (by decide) (by decide) _ _ (by decide)

/-! ### the contents are always the newest chunks written -/

theorem writesOf_cons (op : Op) (ops : List Op) (o : Out) (os : List Out) :
    writesOf (op :: ops) (o :: os)
      = (match op, o with | .write d, .wrote _ => [d] | _, _ => []) ++ writesOf ops os := by
  cases op <;> cases o <;> simp [writesOf]

theorem owStep_suffix (f : Fifo) (op : Op) :
    (f.owStep op).1.q <:+ f.q ++ (match op, (f.owStep op).2 with | .write d, .wrote _ => [d] | _, _ => []) := by
  cases op with
  | write d =>
    obtain ⟨k, hk, h1, _⟩ := owDrop_spec f.W d.length f.q
    rw [owStep_write]
    by_cases hok : (owDrop f.W d.length f.q).2 = true
    · rw [if_pos hok]
      simp only [h1]
      exact ⟨f.q.take k, by rw [← List.append_assoc, List.take_append_drop]⟩
    · rw [if_neg hok]
      simp only [h1, List.append_nil]
      exact List.drop_suffix k f.q
  | read cap =>
    have := C07.step_conservation f (.read cap)
    show (f.step (.read cap)).1.q <:+ f.q ++ []
    simp only [List.append_nil] at this ⊢
    exact ⟨_, this.symm⟩
  | peek =>
    have := C07.step_conservation f .peek
    show (f.step .peek).1.q <:+ f.q ++ []
    simp only [List.append_nil] at this ⊢
    exact ⟨_, this.symm⟩
  | reclaim =>
    show f.q.tail <:+ f.q ++ []
    rw [List.append_nil]
    exact List.tail_suffix f.q
  | free =>
    show f.q <:+ f.q ++ []
    rw [List.append_nil]
    exact List.suffix_refl _

/-- **At any time the readable contents are the most recent chunks written**: after any
    history, the queue is a suffix of (initial contents ++ payloads of the successful writes),
    i.e. an unbroken run of the newest chunks, in order and byte-identical; reads and reclaims
    only take from its old end. -/
theorem ow_contents_newest (f : Fifo) (ops : List Op) :
    (f.owRun ops).1.q <:+ f.q ++ writesOf ops (f.owRun ops).2 := by
  induction ops generalizing f with
  | nil => simp [Fifo.owRun, writesOf]
  | cons op ops ih =>
    rw [owRun_cons]
    simp only [writesOf_cons]
    obtain ⟨t, ht⟩ := owStep_suffix f op
    obtain ⟨u, hu⟩ := ih (f.owStep op).1
    refine ⟨t ++ u, ?_⟩
    rw [List.append_assoc, hu, ← List.append_assoc, ht, List.append_assoc]

/-- **On the ring:** after any history on a ring opened with the overwrite flag, the chunks
    still stored (the ghost queue of the layout invariant — what `qb_rb_chunk_read` will return,
    in this order, by `ow_history`) are a suffix of the payloads of the successful writes, both
    read off the ring model's own outputs. -/
theorem ow_ring_contents_newest (S page : Nat) (useSem : Bool) (hp : 0 < page) (h4 : page % 4 = 0)
    (hbig : roundUp (S + MARGIN + 1) page < 2^31) (ops : List Op) :
    ∃ q TR, Inv ((Rb.open S page true useSem).run ops).1 q TR ∧
      q <:+ writesOf ops ((Rb.open S page true useSem).run ops).2 := by
  obtain ⟨q, TR, hi, he⟩ := run_sim_ow (open_inv S page true useSem hp h4 hbig) rfl ops
  refine ⟨q, TR, hi, ?_⟩
  have := ow_contents_newest (absF (Rb.open S page true useSem) []) ops
  rw [he] at this
  simpa [absF] using this

end QbVerif.Props.C11
