/-
C14 — the round trip without the restriction on the extended-information marker, and the
list-level overflow statement.  Continues Props/C14.lean (see the comment there for the
vocabulary and for the hypotheses that are part of the statement).

`roundtrip_marker_last` closes the case left open there: a format that ENDS in its first QB_XC
(`xcPatch` stores a NUL over the marker and, repair D43, `location--`).  `roundtrip` combines the
three cases (no marker / marker inside / marker last) into one statement for every well-typed
format: decoding what the encoder wrote gives printf's compositional text of `storedItems items`
= the items with the first marker of the literal text shown as '|', or dropped when it is the last
character of the format (what the normal logging path prints).
-/
import QbVerif.Props.C14
import QbVerif.Lemmas.SerRoundLast3

namespace QbVerif.Props.C14
open QbVerif.Ser

/-- the first marker of the format is its last character -/
def MarkerLast (items : List Item) : Prop :=
  (fmtOf items).findIdx (· = QbVerif.Gen.QB_XC.toUInt8) + 1 = (fmtOf items).length

instance (items : List Item) : Decidable (MarkerLast items) := by unfold MarkerLast; infer_instance

/-- **Round trip for a format that ends in the extended-information marker** (the case missing in
    Props/C14.lean): the encoder stores the format without the marker, a NUL, the arguments; it
    returns the record length − 1 (the length of what it stored) — except in the corner where
    format + NUL alone fill `max_len` exactly, where `location` is not decremented and the return
    value is the record length; decoding what it wrote gives printf's text of `xcDropLast items`,
    which is printf's text of the items without the final marker character. -/
theorem roundtrip_marker_last (render : Render) (items : List Item) (maxLen strLen : Nat)
    (hwf : WellTyped items) (hmf : MiniFits items) (hsp : StrPrecOk render items) (hlast : MarkerLast items)
    (hnn : (0 : UInt8) ∉ printfSpec render (xcDropLast items))
    (hrec : (recordOf items).length ≤ maxLen) (htext : (printfSpec render (xcDropLast items)).length < strLen) :
    (serialize Cfg.repaired (fmtOf items) (argsOf items) maxLen).ret =
      (if (fmtOf items).length + 1 < maxLen then (recordOf items).length - 1 else (recordOf items).length) ∧
    printfSpec render items = printfSpec render (xcDropLast items) ++ [QbVerif.Gen.QB_XC.toUInt8] ∧
    (deserialize Cfg.repaired render (serialize Cfg.repaired (fmtOf items) (argsOf items) maxLen).bytes strLen).text
      = printfSpec render (xcDropLast items) ∧
    (deserialize Cfg.repaired render (serialize Cfg.repaired (fmtOf items) (argsOf items) maxLen).bytes strLen).ret
      = (printfSpec render (xcDropLast items)).length + 1 := by
  obtain ⟨h1, h2⟩ := serialize_items_last items maxLen hwf hlast hrec
  obtain ⟨F, hF, _⟩ := last_marker_split _ _ hlast
  have h3 := deser_record render (xcDropLast items) (if (fmtOf items).length + 1 < maxLen then [] else [0]) strLen
    (wf_xcDropLast items hwf) (miniFits_xcDropLast items hmf) (strPrecOk_xcDropLast render items hsp) hnn htext
  rw [h2]
  exact ⟨h1, printfSpec_xcDropLast render items hwf F hF, h3⟩

/-- the items as the encoder stores them: first marker of the literal text shown as '|', or
    dropped when it is the last character of the format; the items themselves without a marker -/
def storedItems (items : List Item) : List Item :=
  if MarkerLast items then xcDropLast items else xcItems items

/-- **Round trip, every well-typed format** (FULL STATEMENT of Props/C14.lean, no restriction on
    the marker): if the record fits `max_len` and the text fits `str_len`, decoding what the encoder
    wrote gives printf's compositional text of `storedItems items` and its length + 1; the encoder
    returns the record length, or one less when the format ends in the marker (and format + NUL do
    not fill `max_len` exactly). -/
theorem roundtrip (render : Render) (items : List Item) (maxLen strLen : Nat)
    (hwf : WellTyped items) (hmf : MiniFits items) (hsp : StrPrecOk render items)
    (hnn : (0 : UInt8) ∉ printfSpec render (storedItems items))
    (hrec : (recordOf items).length ≤ maxLen) (htext : (printfSpec render (storedItems items)).length < strLen) :
    (serialize Cfg.repaired (fmtOf items) (argsOf items) maxLen).ret =
      (recordOf items).length - (if MarkerLast items ∧ (fmtOf items).length + 1 < maxLen then 1 else 0) ∧
    (deserialize Cfg.repaired render (serialize Cfg.repaired (fmtOf items) (argsOf items) maxLen).bytes strLen).text
      = printfSpec render (storedItems items) ∧
    (deserialize Cfg.repaired render (serialize Cfg.repaired (fmtOf items) (argsOf items) maxLen).bytes strLen).ret
      = (printfSpec render (storedItems items)).length + 1 := by
  by_cases hl : MarkerLast items
  · simp only [storedItems, hl, if_true, true_and] at hnn htext ⊢
    obtain ⟨h1, _, h3, h4⟩ := roundtrip_marker_last render items maxLen strLen hwf hmf hsp hl hnn hrec htext
    refine ⟨?_, h3, h4⟩
    rw [h1]
    split <;> rfl
  · simp only [storedItems, hl, if_false, false_and] at hnn htext ⊢
    obtain ⟨h1, _, h3, h4⟩ := roundtrip_partial_marker render items maxLen strLen hwf hmf hsp hl hnn hrec htext
    exact ⟨by rw [h1]; rfl, h3, h4⟩

/-- without a marker the stored items are the items: `roundtrip` then speaks of printf's text of
    the format itself -/
theorem storedItems_noMarker (render : Render) (items : List Item) (hwf : WellTyped items) (hx : NoMarker items) :
    fmtOf (storedItems items) = fmtOf items ∧ encOf (storedItems items) = encOf items := by
  have hnl : ¬ MarkerLast items := noMarker_not_last items hx
  simp only [storedItems, hnl, if_false]
  exact ⟨fmtOf_xcItems_noMarker items hwf hx, encOf_xcItems items⟩

/-- `"a%db<QB_XC>"` with 5: a format that ends in the marker -/
def demoLast : List Item :=
  [ .lit [0x61], .dir ⟨[], false, .none, .none, 0x64⟩ 0 0 (.int 5), .lit [0x62, 0x07] ]

/-- non-vacuity of `roundtrip_marker_last` and of `roundtrip` (marker-last branch) -/
example : WellTyped demoLast ∧ MiniFits demoLast ∧ StrPrecOk demoRender demoLast ∧ MarkerLast demoLast ∧
    (0 : UInt8) ∉ printfSpec demoRender (xcDropLast demoLast) ∧ (recordOf demoLast).length ≤ 32 ∧
    (printfSpec demoRender (xcDropLast demoLast)).length < 16 ∧ storedItems demoLast = xcDropLast demoLast :=
  ⟨by decide, miniFits_of_B _ (by decide), strPrecOk_of_B _ _ (by decide +kernel), by decide, by decide +kernel,
   by decide, by decide +kernel, if_pos (by decide)⟩

/-- … encoded: 9 bytes (the record of `"a%db"`), one less than `recordOf demoLast`; decoded: "a5b" -/
example : (serialize Cfg.repaired (fmtOf demoLast) (argsOf demoLast) 32).ret = 9 ∧
    (recordOf demoLast).length = 10 ∧
    (deserialize Cfg.repaired demoRender
      (serialize Cfg.repaired (fmtOf demoLast) (argsOf demoLast) 32).bytes 16).text = [0x61, 0x35, 0x62] :=
  ⟨by decide, by decide, by decide +kernel⟩

/-- the corner of `roundtrip_marker_last`: `"a<QB_XC>"` into `max_len = 3` — format + NUL fill the
    record exactly, `location` is not decremented, the return value is 3 and the record `a NUL NUL` -/
example : MarkerLast [.lit [0x61, 0x07]] ∧ (recordOf [.lit [0x61, 0x07]]).length ≤ 3 ∧
    (serialize Cfg.repaired (fmtOf [.lit [0x61, 0x07]]) (argsOf [.lit [0x61, 0x07]]) 3).ret = 3 ∧
    (serialize Cfg.repaired (fmtOf [.lit [0x61, 0x07]]) (argsOf [.lit [0x61, 0x07]]) 3).bytes = [0x61, 0, 0] :=
  ⟨by decide, by decide, by decide, by decide⟩

/-- non-vacuity of `roundtrip`, other branches: `demoItems` (no marker) and `demoMarker` (marker
    inside) of Props/C14.lean -/
example : ¬ MarkerLast demoItems ∧ ¬ MarkerLast demoMarker ∧ storedItems demoMarker = xcItems demoMarker :=
  ⟨by decide, by decide, if_neg (by decide)⟩

/-! ## Overflow: the record does not fit -/

/-- **When the record does not fit, the encoder returns `max_len` and stores nothing beyond it**:
    for every well-typed format (any marker position), every `max_len ≥ 1` smaller than the record
    length `|fmt| + 1 + |arguments|`: the return value is exactly `max_len` (which the caller,
    `qb_log_real_va_`, takes as "does not fit / truncated") and every store ended at an index
    `≤ max_len`.  List-level assembly of the per-item overflow halves of `SerGoal`. -/
theorem ser_overflow_returns_max (items : List Item) (maxLen : Nat) (hwf : WellTyped items) (hm : 1 ≤ maxLen)
    (hover : maxLen < (recordOf items).length) :
    (serialize Cfg.repaired (fmtOf items) (argsOf items) maxLen).ret = maxLen ∧
    (serialize Cfg.repaired (fmtOf items) (argsOf items) maxLen).hi ≤ maxLen := by
  have hb := ser_within_max Cfg.repaired rfl (fmtOf items) (argsOf items) maxLen hm
  exact ⟨Nat.le_antisymm hb.1 (serialize_over items maxLen hwf hm hover), hb.2⟩

/-- non-vacuity: `demoItems` into 40 bytes (its record is longer), `demoLast` (10 bytes) into 9 and
    into 7 -/
example : (40 < (recordOf demoItems).length ∧
      (serialize Cfg.repaired (fmtOf demoItems) (argsOf demoItems) 40).ret = 40) ∧
    (9 < (recordOf demoLast).length ∧ (serialize Cfg.repaired (fmtOf demoLast) (argsOf demoLast) 9).ret = 9) ∧
    (serialize Cfg.repaired (fmtOf demoLast) (argsOf demoLast) 7).ret = 7 :=
  ⟨⟨by decide, by decide +kernel⟩, ⟨by decide, by decide +kernel⟩, by decide +kernel⟩

end QbVerif.Props.C14
