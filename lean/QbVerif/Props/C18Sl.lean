/-
C18 — map iterators stay valid while entries are removed or added under them.  Skiplist part
(lib/skiplist.c as it is in the repository: D19, D23 repaired, D16 NOT repaired — known finding
KF-C18-sl-takeover; model: Model/Skiplist.lean with forward arrays as separate allocations and the
ghost free lists, compared exactly with the real code under ASan by checks/C18.py).

THE CLASS, stated on the model.  `K_C18_sl ops` (decidable: it is computed by running the model):
somewhere in the history — the harness' clean-up at the end of the case included (`SL.teardown`:
open iterators freed, map destroyed) — a `free(node->forward)` releases a forward array that
another allocated node still holds as its `forward` (ghost flag `sharedFree`, set in `SL.freeFwd`).
This is the event behind D16: takeover-and-repoint makes a removed-but-referenced node and its
predecessor share one array, and (i) the next takeover behind that predecessor, (ii) the plain
removal of that predecessor, or (iii) the destruction of the removed node while `list->level` is
-1 (empty list) frees it under the other holder.

FULL STATEMENT (NOT proved):
  theorem sl_iter_memory_safe (ops : List Op) (h : K_C18_sl ops = false) :
      ∀ o ∈ (run ops).2, o.res ≠ .uaf ∧ o.res ≠ .diverge
for all interleavings of iterator create/next/free with put/rm/get/…, any number of iterators, all
levels.  Its proof needs the structural invariant with parked iterators and removed-but-referenced
nodes at all levels.  What IS established:
* refutation witnesses (`test_d16_*`, by `decide`): on the three corpus cases the model reaches the
  use-after-free at the operation where ASan stops the real code, and the cases are in the class;
* `test_k_*`: histories with the same shape that are outside the class stay safe (removing the
  parked entry and moving on; removing the successor; re-inserting);
* checks/C18.py runs every generated skiplist case through `qb_slclass` (Driver/SlClass.lean) and
  reports a defect of the machinery if a case outside `K_C18_sl` crashes in the model, or if the
  python class predicate `mapgen.k_c18_sl` (the generator's filter: array ownership replayed on the
  dictionary) accepts a case that `K_C18_sl` rejects — the python class is contained in the Lean one;
* proved for all histories: traversals by `qb_map_foreach` (iterator created, advanced up to the
  `stop`-th entry or to the end, freed — i.e. complete and abandoned iterations) over a level-0
  list touch no freed memory, hand out every entry exactly once in ascending order and leave the
  map unchanged (`sl_traversal_safe_partial`, `sl_iter_steps_partial`, and
  `sl_memory_safe_c17_partial` of Props/C17Sl.lean for whole histories).
-/
import QbVerif.Props.C17Sl

namespace QbVerif.Skiplist
open QbVerif.Map

/-- the class of the known finding KF-C18-sl-takeover, on the model: a forward array was freed
    while another allocated node still held it (clean-up at the end of the case included) -/
def K_C18_sl (ops : List Op) : Bool := (run ops).1.teardown.sharedFree

/-- did the model reach a memory error (clean-up included) -/
def crashes (ops : List Op) : Bool := (run ops).1.teardown.crashed

/-- corpus/C18/sl-d16-shared-forward-array.ops, case 1: iterator on the first entry, the first two
    entries removed (two takeovers behind the header: the second frees the array the first left
    shared with the removed node) -/
def d16ops1 : List Op :=
  [.put [0x61] 1 0, .put [0x62] 2 0, .put [0x63] 3 0, .iterNew 0 none, .iterNext 0, .rm [0x61], .rm [0x62],
   .iterNext 0, .iterFree 0]

/-- case 2: iterator on `c`, `rm c` (c shares b's array), `rm b` (b is destroyed with the array) -/
def d16ops2 : List Op :=
  [.put [0x61] 1 0, .put [0x62] 2 0, .put [0x63] 3 0, .put [0x64] 4 0, .iterNew 0 none, .iterNext 0, .iterNext 0,
   .iterNext 0, .rm [0x63], .rm [0x62], .iterNext 0, .iterFree 0, .count, .foreach 0 none]

/-- case 3: the last entry removed under an iterator (`list->level` = -1): when the iterator moves
    on, the removed node frees the array the header has taken over -/
def d16ops3 : List Op :=
  [.put [0x61] 1 0, .iterNew 0 none, .iterNext 0, .rm [0x61], .iterNext 0, .iterFree 0, .put [0x62] 2 0,
   .get [0x62], .count]

/-- D16 refutation witness: without the class restriction iterators are NOT memory safe — the
    model dereferences the freed forward array in `skiplist_node_next` (8th operation), where
    AddressSanitizer stops the real code -/
theorem test_d16_case1_uaf : (run d16ops1).2.map (·.res) =
    [.ok, .ok, .ok, .ok, .item (some ([0x61], 1)), .bool true, .bool true, .uaf, .uaf] ∧
    K_C18_sl d16ops1 = true := by decide

theorem test_d16_case2_uaf : ((run d16ops2).2.map (·.res)).drop 8 =
    [.bool true, .bool true, .uaf, .uaf, .uaf, .uaf] ∧ K_C18_sl d16ops2 = true := by decide

theorem test_d16_case3_uaf : (run d16ops3).2.map (·.res) =
    [.ok, .ok, .item (some ([0x61], 1)), .bool true, .item none, .ok, .uaf, .uaf, .uaf] ∧
    K_C18_sl d16ops3 = true := by decide

/-- multi-level variant of case 2 (levels 2, 0, 1, 3) -/
theorem test_d16_multilevel_uaf :
    crashes [.put [0x61] 1 2, .put [0x62] 2 0, .put [0x63] 3 1, .put [0x64] 4 3, .iterNew 0 none, .iterNext 0,
      .iterNext 0, .iterNext 0, .rm [0x63], .rm [0x62], .iterNext 0] = true ∧
    K_C18_sl [.put [0x61] 1 2, .put [0x62] 2 0, .put [0x63] 3 1, .put [0x64] 4 3, .iterNew 0 none, .iterNext 0,
      .iterNext 0, .iterNext 0, .rm [0x63], .rm [0x62], .iterNext 0] = true := by decide

/-- outside the class: the parked entry is removed, a new one inserted behind it, the successor
    removed, the iterator moves on and reaches the end; a second iterator is abandoned; then the
    map behaves like the dictionary of the survivors (multi-level) -/
def safeOps : List Op :=
  [.put [0x61] 1 1, .put [0x62] 2 0, .put [0x63] 3 2, .put [0x64] 4 0, .iterNew 0 none, .iterNext 0, .iterNext 0,
   .iterNew 1 none, .iterNext 1, .rm [0x62], .put [0x62, 0x31] 5 1, .rm [0x63], .iterNext 0, .iterNext 0, .iterNext 0,
   .iterFree 0, .iterFree 1, .count, .foreach 0 none, .get [0x62], .destroy]

theorem test_k_safe_outside_class : K_C18_sl safeOps = false ∧ crashes safeOps = false ∧
    (run safeOps).2.map (·.res) = (Dict.run .sl safeOps).2.map (·.res) := by decide

/-- multi-level, iterator-free: the model agrees with the dictionary (results and events) on a
    history that raises and trims levels and takes over the header's array -/
def multiOps : List Op :=
  [.nadd none 23 9, .put [0x63] 3 3, .put [0x61] 1 0, .put [0x62] 2 5, .put [0x64] 4 1, .nadd (some [0x62]) 7 4,
   .put [0x62] 6 2, .rm [0x61], .foreach 2 none, .rm [0x63], .rm [0x62], .get [0x64], .put [0x61] 7 8, .count,
   .foreach 0 none, .rm [0x64], .rm [0x61], .put [0x65] 8 0, .destroy, .count]

theorem test_sl_multilevel_agrees : (run multiOps).2 = (Dict.run .sl multiOps).2 := by decide

/-- every step of an iterator over an unmodified level-0 list: parked on `p` whose level-0
    successor is the entry node `n`, `iter_next` touches only allocated memory, returns that entry
    and parks on it (reference moved from `p` to `n`) -/
theorem sl_iter_steps_partial {s : SL} {p n : NodeId} {pn : Node} {e : Entry} {pa fn}
    (hp : s.nodes p = some pn) (hrc : pn.refcount = 1) (hpa : s.fwds pn.fwd = some pa) (hn0 : pa 0 = some n)
    (hn : s.nodes n = some ⟨some e.key, e.val, 1, 1, fn, e.notifs⟩) (hne : p ≠ n) (hi : s.iters = []) :
    (park s p pn).iterNext 0 (some p) =
      .ok (park s n ⟨some e.key, e.val, 1, 1, fn, e.notifs⟩, [], some (e.key, e.val)) :=
  iterNext_park_some hp hrc hpa hn0 hn rfl hne hi

/-- complete and abandoned iterations over a level-0 list in any state satisfying the invariant:
    no freed memory touched (the outcome is a result, not `uaf`), every entry handed out exactly
    once in ascending order up to the point of abandonment, no notification, map unchanged -/
theorem sl_traversal_safe_partial {s ids es g} (h : Inv s ids es g) (stop : Nat) :
    s.step (.foreach stop none) = (s, ⟨[], .visited (takeStop stop (es.map kv)) (stop = 0 || es.length < stop)⟩) ∧
    (es.map kv).Pairwise (fun a b => Key.lt a.1 b.1 = true) := by
  refine ⟨by simp [SL.step, h.ok, foreach_eq h stop], ?_⟩
  rw [List.pairwise_map]
  exact h.sorted

end QbVerif.Skiplist
