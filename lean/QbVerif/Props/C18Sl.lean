/-
C18 — map iterators stay valid while entries are removed or added under them.  Skiplist part
(lib/skiplist.c as it is in the repository: D19, D23 repaired, D16 NOT repaired — known finding
KF-C18-sl-takeover; model: Model/Skiplist.lean with forward arrays as separate allocations and the
ghost free lists, compared exactly with the real code under ASan by checks/C18.py).

THE CLASS, stated on the model.  `K_C18_sl ops` (decidable: it is computed by running the model):
somewhere in the history — the harness' clean-up at the end of the case included (`SL.teardown`:
open iterators freed, map destroyed) — a `free(node->forward)` releases a forward array that
another allocated node still holds as its `forward` (ghost flag `sharedFree`, set in `SL.freeFwd`).
This is the event behind D16: takeover-and-repoint makes a removed-but-referenced node and its
predecessor share one array, and (i) the next takeover behind that predecessor, (ii) the plain
removal of that predecessor, or (iii) the destruction of the removed node while `list->level` is
-1 (empty list) frees it under the other holder.

FULL STATEMENT (NOT proved):
  theorem sl_iter_memory_safe (ops : List Op) (h : K_C18_sl ops = false) :
      ∀ o ∈ (run ops).2, o.res ≠ .uaf ∧ o.res ≠ .diverge
for all interleavings of iterator create/next/free with put/rm/get/…, any number of iterators, all
levels.  Its proof needs the structural invariant with parked iterators and removed-but-referenced
nodes at all levels.  What IS established:
* refutation witnesses (`test_d16_*`, by `decide`): on the three corpus cases the model reaches the
  use-after-free at the operation where ASan stops the real code, and the cases are in the class;
* `test_k_*`: histories with the same shape that are outside the class stay safe (removing the
  parked entry and moving on; removing the successor; re-inserting);
* checks/C18.py runs every generated skiplist case through `qb_slclass` (Driver/SlClass.lean) and
  reports a defect of the machinery if a case outside `K_C18_sl` crashes in the model, or if the
  python class predicate `mapgen.k_c18_sl` (the generator's filter: array ownership replayed on the
  dictionary) accepts a case that `K_C18_sl` rejects — the python class is contained in the Lean one;
* PROVED, all levels, for ALL interleavings of iterator create/next/free (any number of iterators,
  abandoned part-way, unknown ids, next after the end) with put/get/rm/count/foreach/notifier
  add/del/destroy outside the coarser class `K_parked` (some `rm` removes an entry while an iterator
  is parked on it; evaluated on the model; `K_C18_sl` ⊆ `K_parked` since only such a removal creates a
  shared forward array):
  - `sl_iter_memory_safe_partial`: no operation touches freed memory, the model never crashes —
    removing the entries before/behind a parked iterator, all other entries, inserting right behind
    a parked iterator, raising and trimming levels under open iterators are all inside;
  - `sl_iter_abstraction_partial`: the notification trace equals the dictionary's and at the end the
    invariant `Inv` holds for the dictionary's entries with the same iterators open;
  - `sl_after_iters_dict_partial`: once all iterators are freed, every iterator-free continuation
    gives the dictionary's results and notifications;
  - `sl_traversal_safe_partial`, `sl_iter_steps_partial`: complete/abandoned traversals and single
    `iter_next` steps in every state satisfying `Inv`, whatever iterators are open
    (`iterCreate_inv`, `iterNext_inv`, `iterFree_inv`: refcount = 1 + parked iterators).
  What is missing for the full statement is exactly the takeover mechanism itself: removal of the
  entry an iterator is parked on (removed-but-referenced nodes sharing their predecessor's array,
  deferred DELETED notification).
-/
import QbVerif.Props.C17Sl
import QbVerif.Lemmas.SlmCurIter

namespace QbVerif.Skiplist
open QbVerif.Map

/-- the class of the known finding KF-C18-sl-takeover, on the model: a forward array was freed
    while another allocated node still held it (clean-up at the end of the case included) -/
def K_C18_sl (ops : List Op) : Bool := (run ops).1.teardown.sharedFree

/-- did the model reach a memory error (clean-up included) -/
def crashes (ops : List Op) : Bool := (run ops).1.teardown.crashed

/-- corpus/C18/sl-d16-shared-forward-array.ops, case 1: iterator on the first entry, the first two
    entries removed (two takeovers behind the header: the second frees the array the first left
    shared with the removed node) -/
def d16ops1 : List Op :=
  [.put [0x61] 1 0, .put [0x62] 2 0, .put [0x63] 3 0, .iterNew 0 none, .iterNext 0, .rm [0x61], .rm [0x62],
   .iterNext 0, .iterFree 0]

/-- case 2: iterator on `c`, `rm c` (c shares b's array), `rm b` (b is destroyed with the array) -/
def d16ops2 : List Op :=
  [.put [0x61] 1 0, .put [0x62] 2 0, .put [0x63] 3 0, .put [0x64] 4 0, .iterNew 0 none, .iterNext 0, .iterNext 0,
   .iterNext 0, .rm [0x63], .rm [0x62], .iterNext 0, .iterFree 0, .count, .foreach 0 none]

/-- case 3: the last entry removed under an iterator (`list->level` = -1): when the iterator moves
    on, the removed node frees the array the header has taken over -/
def d16ops3 : List Op :=
  [.put [0x61] 1 0, .iterNew 0 none, .iterNext 0, .rm [0x61], .iterNext 0, .iterFree 0, .put [0x62] 2 0,
   .get [0x62], .count]

/-- D16 refutation witness: without the class restriction iterators are NOT memory safe — the
    model dereferences the freed forward array in `skiplist_node_next` (8th operation), where
    AddressSanitizer stops the real code -/
theorem test_d16_case1_uaf : (run d16ops1).2.map (·.res) =
    [.ok, .ok, .ok, .ok, .item (some ([0x61], 1)), .bool true, .bool true, .uaf, .uaf] ∧
    K_C18_sl d16ops1 = true := by decide

theorem test_d16_case2_uaf : ((run d16ops2).2.map (·.res)).drop 8 =
    [.bool true, .bool true, .uaf, .uaf, .uaf, .uaf] ∧ K_C18_sl d16ops2 = true := by decide

theorem test_d16_case3_uaf : (run d16ops3).2.map (·.res) =
    [.ok, .ok, .item (some ([0x61], 1)), .bool true, .item none, .ok, .uaf, .uaf, .uaf] ∧
    K_C18_sl d16ops3 = true := by decide

/-- multi-level variant of case 2 (levels 2, 0, 1, 3) -/
theorem test_d16_multilevel_uaf :
    crashes [.put [0x61] 1 2, .put [0x62] 2 0, .put [0x63] 3 1, .put [0x64] 4 3, .iterNew 0 none, .iterNext 0,
      .iterNext 0, .iterNext 0, .rm [0x63], .rm [0x62], .iterNext 0] = true ∧
    K_C18_sl [.put [0x61] 1 2, .put [0x62] 2 0, .put [0x63] 3 1, .put [0x64] 4 3, .iterNew 0 none, .iterNext 0,
      .iterNext 0, .iterNext 0, .rm [0x63], .rm [0x62], .iterNext 0] = true := by decide

/-- outside the class: the parked entry is removed, a new one inserted behind it, the successor
    removed, the iterator moves on and reaches the end; a second iterator is abandoned; then the
    map behaves like the dictionary of the survivors (multi-level) -/
def safeOps : List Op :=
  [.put [0x61] 1 1, .put [0x62] 2 0, .put [0x63] 3 2, .put [0x64] 4 0, .iterNew 0 none, .iterNext 0, .iterNext 0,
   .iterNew 1 none, .iterNext 1, .rm [0x62], .put [0x62, 0x31] 5 1, .rm [0x63], .iterNext 0, .iterNext 0, .iterNext 0,
   .iterFree 0, .iterFree 1, .count, .foreach 0 none, .get [0x62], .destroy]

theorem test_k_safe_outside_class : K_C18_sl safeOps = false ∧ crashes safeOps = false ∧
    (run safeOps).2.map (·.res) = (Dict.run .sl safeOps).2.map (·.res) := by decide

/-- multi-level, iterator-free: the model agrees with the dictionary (results and events) on a
    history that raises and trims levels and takes over the header's array -/
def multiOps : List Op :=
  [.nadd none 23 9, .put [0x63] 3 3, .put [0x61] 1 0, .put [0x62] 2 5, .put [0x64] 4 1, .nadd (some [0x62]) 7 4,
   .put [0x62] 6 2, .rm [0x61], .foreach 2 none, .rm [0x63], .rm [0x62], .get [0x64], .put [0x61] 7 8, .count,
   .foreach 0 none, .rm [0x64], .rm [0x61], .put [0x65] 8 0, .destroy, .count]

theorem test_sl_multilevel_agrees : (run multiOps).2 = (Dict.run .sl multiOps).2 := by decide

/-- the class treated by the theorems below, evaluated on the model: some `rm` of the history
    removes an entry while an iterator is parked on it (the removed node then stays allocated and
    shares a forward array — the takeover mechanism; `K_C18_sl` ⊆ this class) -/
def K_parked (ops : List Op) : Bool := !noRmParked create ops

/-- C18, memory safety, for ALL interleavings of iterator create/next/free (any number of
    iterators, also abandoned part-way, unknown ids, next after the end) with
    put/get/rm/count/foreach/notifier add/del/destroy, ALL LEVELS, outside `K_parked`:
    no operation touches freed memory (nor diverges) and the model never crashes.  Removing the
    entry BEHIND or BEFORE a parked iterator, the last OTHER entry, inserting anywhere (also right
    behind a parked iterator) are all inside the theorem. -/
theorem sl_iter_memory_safe_partial (ops : List Op) (hk : K_parked ops = false) :
    (∀ o ∈ (run ops).2, o.res ≠ .uaf ∧ o.res ≠ .diverge) ∧ (run ops).1.crashed = false := by
  have hk' : noRmParked create ops = true := by simpa [K_parked] using hk
  obtain ⟨h1, _, h3⟩ := sim_runI ops sim_create hk'
  obtain ⟨ids, hi⟩ := h1.inv
  exact ⟨h3, hi.ok⟩

/-- C18, completeness clauses, outside `K_parked`, all levels: EVERY result of the history — in
    particular every `iter_next` — and every notification equal those of the specification, whose
    iterators return "the next key greater than the last one returned" (`Dict.step`).  Hence an
    iterator returns every key that is present for the whole iteration, exactly once when only
    removals happen meanwhile, never a key that is not in the map, and reports the end exactly when
    no greater key is left — for any number of simultaneously open iterators. -/
theorem sl_refines_dict_iters_partial (ops : List Op) (hk : K_parked ops = false) :
    results .sl (run ops) = results .sl (Dict.run .sl ops) ∧
    trace .sl (run ops) = trace .sl (Dict.run .sl ops) := by
  have hk' : noRmParked create ops = true := by simpa [K_parked] using hk
  obtain ⟨_, _, h2, h3⟩ := sim_runC ops sim_create cur_create hk'
  refine ⟨h3, ?_⟩
  have := congrArg (List.map CTrace.seq) h2
  simpa [trace, Flavour.sl, List.map_map, Function.comp_def, run, Dict.run] using this

/-- … the notification trace of the whole history equals the dictionary's, and at the end the
    level-0 chain holds exactly the dictionary's entries, the level structure is intact (strictly ascending, every node referenced
    once plus once per iterator parked on it, forward arrays unshared), with the same iterators open -/
theorem sl_iter_abstraction_partial (ops : List Op) (hk : K_parked ops = false) :
    trace .sl (run ops) = trace .sl (Dict.run .sl ops) ∧
    (∃ ids, Inv (run ops).1 ids (Dict.run .sl ops).1.entries (Dict.run .sl ops).1.globals) ∧
    (Dict.run .sl ops).1.iters.map (·.1 + 1) = (run ops).1.iters.map (·.1) := by
  have hk' : noRmParked create ops = true := by simpa [K_parked] using hk
  obtain ⟨h1, h2, _⟩ := sim_runI ops sim_create hk'
  refine ⟨?_, h1.inv, h1.iters⟩
  have := congrArg (List.map CTrace.seq) h2
  simpa [trace, Flavour.sl, List.map_map, Function.comp_def, run, Dict.run] using this

/-- "Once the iterators are gone the map again behaves exactly like a dictionary holding the
    surviving entries": after any history `ops1` of the fragment that has freed all its iterators,
    every iterator-free continuation `ops2` gives the dictionary's results and notifications -/
theorem sl_after_iters_dict_partial (ops1 ops2 : List Op)
    (hk : K_parked ops1 = false) (hfree : (Dict.run .sl ops1).1.iters = [])
    (h2 : ∀ op ∈ ops2, op.isIter = false) :
    results .sl ((run ops1).1.runFrom ops2) = results .sl ((Dict.run .sl ops1).1.runFrom ops2) ∧
    trace .sl ((run ops1).1.runFrom ops2) = trace .sl ((Dict.run .sl ops1).1.runFrom ops2) := by
  have hk' : noRmParked create ops1 = true := by simpa [K_parked] using hk
  obtain ⟨hs, _, _⟩ := sim_runI ops1 sim_create hk'
  obtain ⟨_, e2, e3⟩ := sim_run ops2 hs hfree h2
  refine ⟨e3, ?_⟩
  have := congrArg (List.map CTrace.seq) e2
  simpa [trace, Flavour.sl, List.map_map, Function.comp_def, run, Dict.run] using this

/-- one step of any iterator in any state satisfying the invariant: parked on `p` whose level-0
    successor is `n`, `iter_next` touches allocated memory only, returns the entry of `n`, moves
    its reference from `p` to `n`, and changes nothing else -/
theorem sl_iter_steps_partial {s ids es g} (h : Inv s ids es g) {k : Nat} {p n : NodeId} (hm : (k, some p) ∈ s.iters)
    (hn : next0 s p = some n) :
    ∃ e ∈ es, NodeOk s n e ∧ ∃ s', s.iterNext k (some p) = .ok (s', [], some (e.key, e.val)) ∧
      Inv s' ids es g ∧ s'.iters = setIter s.iters k (some n) := by
  obtain ⟨e, he, hok, _, s', h1, h2, h3, _⟩ := (iterNext_inv h hm).1 n hn
  exact ⟨e, he, hok, s', h1, h2, h3⟩

/-- complete and abandoned traversals in any state satisfying the invariant, whatever other
    iterators are open: no freed memory touched, every entry handed out exactly once in ascending
    order up to the point of abandonment, no notification, same entries and iterators afterwards -/
theorem sl_traversal_safe_partial {s ids es g} (h : Inv s ids es g) (h0 : 0 ∉ s.iters.map (·.1)) (stop : Nat) :
    (∃ s', s.foreach stop = .ok (s', ⟨[], .visited (takeStop stop (es.map kv)) (stop = 0 || es.length < stop)⟩) ∧
      Inv s' ids es g ∧ s'.iters = s.iters) ∧
    (es.map kv).Pairwise (fun a b => Key.lt a.1 b.1 = true) := by
  refine ⟨?_, ?_⟩
  · obtain ⟨s', h1, h2, h3, _⟩ := foreach_eq h h0 stop
    exact ⟨s', h1, h2, h3⟩
  · rw [List.pairwise_map]
    exact h.sorted

/-- non-vacuity: a history with two iterators, removals next to and insertions behind the parked
    entries, an abandoned iterator, is inside the theorems' hypotheses; the D16 witnesses are not -/
theorem test_k_parked : K_parked [.put [0x61] 1 0, .put [0x62] 2 0, .put [0x63] 3 0, .iterNew 0 none, .iterNext 0,
      .iterNew 1 none, .iterNext 1, .iterNext 1, .rm [0x63], .put [0x61, 0x31] 4 0, .iterNext 0, .iterNext 1,
      .iterFree 1, .rm [0x62], .iterFree 0, .destroy] = false ∧
    K_parked d16ops1 = true ∧ K_parked d16ops2 = true ∧ K_parked d16ops3 = true := by decide

end QbVerif.Skiplist
