/-
C19 — growable array (lib/array.c): element addresses are stable, disjoint and zero-initialised;
range errors; sequential part.  (The concurrent part is in Props/C19Conc.lean.)

Property theorems only; helper lemmas live in QbVerif/Lemmas/QbArray.lean.  All statements are for
every element size, initial size, auto-grow setting, initial heap contents (`junk`) and every
history of index / grow / poke / peek / num_bins / cb_set calls (`Reachable`), with indices over
all of `Int` (a superset of `int32_t`).

Model = Model/QbArray.lean (the code with repairs D13 and D28 applied; `indexOrig` keeps the
pre-D28 behaviour for the witness at the end).  Assumption: allocation never fails.
-/
import QbVerif.Model.QbArray
import QbVerif.Lemmas.QbArray

namespace QbVerif.Props.C19
open QbVerif.QbArray

/-- the states an array can be in: after a successful `qb_array_create_2` with any arguments and
    any heap contents, followed by any history of operations -/
inductive Reachable : St → Prop
  | create {junk : Nat → Nat → Nat} {m e g : Nat} {s : St} (h : create junk m e g = .ok s) : Reachable s
  | step {s : St} (h : Reachable s) (op : Op) : Reachable (step s op).s

theorem Reachable.inv {s : St} (h : Reachable s) : Inv s := by
  induction h with
  | create h => exact (create_inv h).1
  | step _ op ih => exact (step_spec ih op).inv

theorem Reachable.run {s : St} (h : Reachable s) (ops : List Op) : Reachable (run s ops) := by
  induction ops generalizing s with
  | nil => exact h
  | cons op ops ih => exact ih (h.step op)

/-- **Stable.** Once `qb_array_index(idx)` has returned an address, every later call for the same
    index — after any further history of index / grow / poke / peek calls on any indices — succeeds
    and returns the same address. -/
theorem index_stable {s : St} (hs : Reachable s) (idx : Int) (k off : Nat)
    (h1 : (index s idx).res = .addr k off) (ops : List Op) :
    (index (run (index s idx).s ops) idx).res = .addr k off := by
  have hI := hs.inv
  have sp := index_spec hI idx
  obtain ⟨h0, hlt, hb, hoff⟩ := sp.addr k off h1
  have hI1 : Inv (index s idx).s := sp.inv
  have hI2 := run_inv hI1 ops
  have hE := run_ext hI1 ops
  have hb2 := hE.bins _ _ hb
  have hlt2 : idx.toNat < (QbArray.run (index s idx).s ops).a.maxElements := Nat.lt_of_lt_of_le hlt hE.max
  rw [index_hit hI2 h0 hlt2 hb2, hoff, hE.esz, sp.ext.esz]

/-- **Disjoint.** The storage of two different indices never overlaps: whenever `index i` and a
    later `index j` (`i ≠ j`, any history in between) both return addresses, these are in different
    blocks or their `element_size`-byte ranges inside the same block are disjoint. -/
theorem index_disjoint {s : St} (hs : Reachable s) (i j : Int) (hij : i ≠ j) (k1 o1 k2 o2 : Nat)
    (h1 : (index s i).res = .addr k1 o1) (ops : List Op)
    (h2 : (index (run (index s i).s ops) j).res = .addr k2 o2) :
    k1 ≠ k2 ∨ o1 + s.a.elementSize ≤ o2 ∨ o2 + s.a.elementSize ≤ o1 := by
  have hI := hs.inv
  have sp := index_spec hI i
  obtain ⟨hi0, _, hb1, hoff1⟩ := sp.addr k1 o1 h1
  have hI1 : Inv (index s i).s := sp.inv
  have hI2 := run_inv hI1 ops
  have hE := run_ext hI1 ops
  have sp2 := index_spec hI2 j
  obtain ⟨hj0, _, hb2, hoff2⟩ := sp2.addr k2 o2 h2
  have hb1' := sp2.ext.bins _ _ (hE.bins _ _ hb1)
  have he : (QbArray.run (index s i).s ops).a.elementSize = s.a.elementSize := by rw [hE.esz, sp.ext.esz]
  rw [he] at hoff2
  by_cases hk : k1 = k2
  · right
    subst hk
    have hbin : i.toNat / 16 = j.toNat / 16 := sp2.inv.inj _ _ k1 hb1' hb2
    have hne : i.toNat % 16 ≠ j.toNat % 16 := by omega
    rcases Nat.lt_or_gt_of_ne hne with hlt | hgt
    · left
      have := Nat.mul_le_mul_left s.a.elementSize (show i.toNat % 16 + 1 ≤ j.toNat % 16 from hlt)
      rw [Nat.mul_succ] at this
      omega
    · right
      have := Nat.mul_le_mul_left s.a.elementSize (show j.toNat % 16 + 1 ≤ i.toNat % 16 from hgt)
      rw [Nat.mul_succ] at this
      omega
  · exact .inl hk

/-- The returned element lies inside an allocated block of `16 * element_size` bytes. -/
theorem index_in_block {s : St} (hs : Reachable s) (idx : Int) (k off : Nat)
    (h1 : (index s idx).res = .addr k off) :
    k < (index s idx).s.nblk ∧ off + s.a.elementSize ≤ 16 * s.a.elementSize := by
  have sp := index_spec hs.inv idx
  obtain ⟨_, _, hb, hoff⟩ := sp.addr k off h1
  refine ⟨sp.inv.alloc _ _ hb, ?_⟩
  have := Nat.mul_le_mul_left s.a.elementSize (show idx.toNat % 16 + 1 ≤ 16 from Nat.mod_lt _ (by decide))
  rw [Nat.mul_succ] at this
  omega

/-- **Zero-initialised.** After `qb_array_create_2` on a heap with arbitrary contents and any history
    in which the user never stored into element `idx`, reading the element gives only zero bytes
    (`element_size` of them). -/
theorem zero_initialised {junk : Nat → Nat → Nat} {m e g : Nat} {s0 : St}
    (hc : create junk m e g = .ok s0) (ops : List Op) (idx : Int)
    (hnw : ∀ op ∈ ops, ∀ off v, op ≠ .poke idx off v) (l : List Nat)
    (hp : (step (run s0 ops) (.peek idx)).res = .bytes l) :
    l = List.replicate e 0 := by
  have ⟨hI0, _, he0, _, _, _, hnone, _, _⟩ := create_inv hc
  have hI : Inv (QbArray.run s0 ops) := run_inv hI0 ops
  have sp := index_spec hI idx
  rcases sp.kind with ⟨k, base, hr⟩ | ⟨er, hr, _⟩
  · obtain ⟨h0, _, hb, hbase⟩ := sp.addr k base hr
    have hidx : ((idx.toNat : Nat) : Int) = idx := by omega
    have hz0 : CellZero s0 idx.toNat := fun k hk => by rw [hnone] at hk; cases hk
    have hz1 : CellZero (QbArray.run s0 ops) idx.toNat :=
      cellZero_run hI0 ops hz0 (fun op hm off v => by rw [hidx]; exact hnw op hm off v)
    have hz2 : CellZero (index (QbArray.run s0 ops) idx).s idx.toNat := by
      have := cellZero_step hI (op := .index idx) hz1 (fun _ _ h => by cases h)
      rwa [step_index] at this
    have hes : (QbArray.run s0 ops).a.elementSize = e := by rw [(run_ext hI0 ops).esz, he0]
    rw [step_peek_ok hr] at hp
    injection hp with hp
    rw [← hp, hes]
    apply List.ext_getElem
    · simp
    · intro n h1 h2
      simp only [List.length_map, List.length_range] at h1
      simp only [List.getElem_map, List.getElem_range, List.getElem_replicate]
      rw [hbase]
      have := hz2 k hb n (by rw [sp.ext.esz, hes]; exact h1)
      rwa [sp.ext.esz] at this
  · rw [step_peek_err hr, hr] at hp
    cases hp

/-- **Persistent.** What the user stored into byte `off` of element `idx` is still there after any
    amount of later growth, indexing, and stores to other elements or other bytes: a later read of the
    element succeeds and shows `v` at `off`. -/
theorem persists_after_grow {s : St} (hs : Reachable s) (idx : Int) (off v : Nat)
    (hw : (step s (.poke idx off v)).res = .rc0) (ops : List Op)
    (hnw : ∀ op ∈ ops, ∀ v', op ≠ .poke idx off v') :
    ∃ l, (step (run (step s (.poke idx off v)).s ops) (.peek idx)).res = .bytes l ∧ l[off]? = some v := by
  have hI := hs.inv
  have sp := index_spec hI idx
  -- the poke succeeded: the index call gave an address and `off` is inside the element
  have hok : ∃ k base, (index s idx).res = .addr k base := by
    rcases sp.kind with h | ⟨er, hr, _⟩
    · exact h
    · rw [step_poke_err hr, hr] at hw; cases hw
  obtain ⟨k, base, hr⟩ := hok
  have ho : off < s.a.elementSize := by
    by_cases ho : off < s.a.elementSize
    · exact ho
    · rw [step_poke_bad hr ho] at hw; cases hw
  obtain ⟨h0, _, hb, hbase⟩ := sp.addr k base hr
  have hidx : ((idx.toNat : Nat) : Int) = idx := by omega
  have hI1 : Inv (step s (.poke idx off v)).s := (step_spec hI _).inv
  have hes1 : (step s (.poke idx off v)).s.a.elementSize = s.a.elementSize := (step_spec hI _).ext.esz
  have hc1 : CellIs (step s (.poke idx off v)).s idx.toNat off v := by
    rw [step_poke_ok hr ho]
    refine ⟨k, hb, ?_⟩
    show store _ _ _ _ _ _ = v
    rw [sp.ext.esz, ← hbase]
    simp [store]
  have hc2 := cellIs_run hI1 ops hc1 (by rw [hes1]; exact ho)
    (fun op hm v' => by rw [hidx]; exact hnw op hm v')
  have hI2 := run_inv hI1 ops
  have hes2 : (QbArray.run (step s (.poke idx off v)).s ops).a.elementSize = s.a.elementSize := by
    rw [(run_ext hI1 ops).esz, hes1]
  have hc3 := cellIs_step hI2 (op := .index idx) hc2 (by rw [hes2]; exact ho) (fun _ h => by cases h)
  rw [step_index] at hc3
  obtain ⟨k3, hk3, hv3⟩ := hc3
  have sp3 := index_spec hI2 idx
  -- the later index succeeds (the block exists, so the index is below the size) …
  rcases sp3.kind with ⟨k', base', hr'⟩ | ⟨er, hr', hsame⟩
  · obtain ⟨_, _, hb', hbase'⟩ := sp3.addr k' base' hr'
    rw [hk3] at hb'
    injection hb' with hk
    subst hk
    refine ⟨_, by rw [step_peek_ok hr'], ?_⟩
    rw [hes2]
    simp only [List.getElem?_map, List.getElem?_range ho, Option.map_some]
    rw [hbase', ← sp3.ext.esz, hv3]
  · -- … an error would leave the state unchanged, but then the index is in range: contradiction
    exfalso
    have hE := run_ext hI1 ops
    have hlt1 : idx.toNat < (step s (.poke idx off v)).s.a.maxElements := by
      rw [step_poke_ok hr ho]
      exact (sp.addr k base hr).2.1
    have hlt2 : idx.toNat < (QbArray.run (step s (.poke idx off v)).s ops).a.maxElements :=
      Nat.lt_of_lt_of_le hlt1 hE.max
    cases index_cases hI2 idx with
    | err e _ hr2 _ hc =>
      rcases hc with ⟨hneg, _⟩ | ⟨_, hge, _⟩ | ⟨_, hge, _⟩ <;> omega
    | hit a' k'' _ _ _ _ _ hr2 => rw [hr2] at hr'; cases hr'
    | miss a' _ _ _ _ _ hr2 => rw [hr2] at hr'; cases hr'

/-- **Range errors.** For every reachable array and every index:
    * a negative index fails with `-ERANGE`;
    * an index `≥ 65536` fails (`-ERANGE`, or `-EINVAL` from the refused auto-grow);
    * an index beyond the current size fails with `-ERANGE` when auto-grow was not requested;
    * an index below the current size succeeds;
    * with auto-grow, every index in `[0, 65536)` succeeds;
    and a failing call leaves array and heap unchanged. -/
theorem range_errors {s : St} (hs : Reachable s) (idx : Int) :
    (idx < 0 → (index s idx).res = .err .erange ∧ (index s idx).s = s) ∧
    (65536 ≤ idx → ∃ e, (index s idx).res = .err e ∧ (index s idx).s = s) ∧
    (0 ≤ idx → s.a.maxElements ≤ idx.toNat → s.a.autogrow = 0 →
        (index s idx).res = .err .erange ∧ (index s idx).s = s) ∧
    (0 ≤ idx → idx.toNat < s.a.maxElements → ∃ k off, (index s idx).res = .addr k off) ∧
    (0 ≤ idx → idx < 65536 → s.a.autogrow ≠ 0 → ∃ k off, (index s idx).res = .addr k off) := by
  have hI := hs.inv
  have hmax : s.a.maxElements ≤ 65536 := hI.maxle
  have hcase := index_cases hI idx
  refine ⟨?_, ?_, ?_, ?_, ?_⟩
  · intro hneg
    cases hcase with
    | err e hs' hr _ hc =>
      rcases hc with ⟨_, he⟩ | ⟨h0, _⟩ | ⟨h0, _⟩
      · exact ⟨by rw [hr, he], hs'⟩
      · omega
      · omega
    | hit a' k h0 => omega
    | miss a' h0 => omega
  · intro hbig
    cases hcase with
    | err e hs' hr _ hc => exact ⟨e, hr, hs'⟩
    | hit a' k h0 hp =>
      have := hp.inv.maxle; have := hp.lt; rw [MAXELEMS_eq] at *; omega
    | miss a' h0 hp =>
      have := hp.inv.maxle; have := hp.lt; rw [MAXELEMS_eq] at *; omega
  · intro h0 hge hg
    cases hcase with
    | err e hs' hr _ hc =>
      rcases hc with ⟨hneg, _⟩ | ⟨_, _, _, he⟩ | ⟨_, _, _, hg', _⟩
      · omega
      · exact ⟨by rw [hr, he], hs'⟩
      · exact absurd hg hg'
    | hit a' k _ hp =>
      rcases hp.how with ⟨hlt, _⟩ | ⟨_, hg', _⟩
      · omega
      · exact absurd hg hg'
    | miss a' _ hp =>
      rcases hp.how with ⟨hlt, _⟩ | ⟨_, hg', _⟩
      · omega
      · exact absurd hg hg'
  · intro h0 hlt
    cases hcase with
    | err e hs' hr _ hc =>
      rcases hc with ⟨hneg, _⟩ | ⟨_, hge, _⟩ | ⟨_, hge, _⟩ <;> omega
    | hit a' k _ _ _ _ _ hr => exact ⟨_, _, hr⟩
    | miss a' _ _ _ _ _ hr => exact ⟨_, _, hr⟩
  · intro h0 hlt hg
    cases hcase with
    | err e hs' hr _ hc =>
      rcases hc with ⟨hneg, _⟩ | ⟨_, _, hg', _⟩ | ⟨_, _, hbig, _⟩
      · omega
      · exact absurd hg' hg
      · rw [MAXELEMS_eq] at hbig; omega
    | hit a' k _ _ _ _ _ hr => exact ⟨_, _, hr⟩
    | miss a' _ _ _ _ _ hr => exact ⟨_, _, hr⟩

/-- "Current size": the size is what `create` was given, raised by every accepted `grow` and by every
    auto-grown index; it never shrinks (`grow` to a smaller size is a no-op) and never exceeds 65536. -/
theorem size_tracks {s : St} (hs : Reachable s) :
    s.a.maxElements ≤ 65536 ∧
    (∀ n, (step s (.grow n)).s.a.maxElements = if n ≤ 65536 then max s.a.maxElements n else s.a.maxElements) ∧
    (∀ n, (step s (.grow n)).res = if n ≤ 65536 then .rc0 else .err .einval) ∧
    (∀ idx k off, (index s idx).res = .addr k off →
        (index s idx).s.a.maxElements = max s.a.maxElements (idx.toNat + 1)) := by
  have hI := hs.inv
  refine ⟨hI.maxle, ?_, ?_, ?_⟩
  · intro n
    rw [step_grow]
    have ⟨_, _, _, _, g5⟩ := grow_spec hI n
    by_cases hn : n ≤ 65536
    · rw [if_pos hn]; exact g5 (by rw [MAXELEMS_eq]; exact hn)
    · rw [if_neg hn, grow_of_gt (by rw [MAXELEMS_eq]; omega)]
  · intro n
    rw [step_grow]
    rcases grow_res s.a n with ⟨h1, h2⟩ | ⟨h1, h2⟩
    · rw [MAXELEMS_eq] at h1
      rw [if_neg (by omega), h2]
    · rw [MAXELEMS_eq] at h1
      rw [if_pos h1]; exact h2
  · intro idx k off hr
    cases index_cases hI idx with
    | err e _ hr2 => rw [hr2] at hr; cases hr
    | hit a' k' _ hp _ hs' =>
      rw [hs']
      rcases hp.how with ⟨hlt, he⟩ | ⟨hge, _, _, hm⟩
      · show a'.maxElements = _; rw [he]; omega
      · show a'.maxElements = _; rw [hm]; omega
    | miss a' _ hp _ hs' =>
      rw [hs']
      rcases hp.how with ⟨hlt, he⟩ | ⟨hge, _, _, hm⟩
      · show a'.maxElements = _; rw [he]; omega
      · show a'.maxElements = _; rw [hm]; omega

/-- The two `assert`s of `qb_array_index` never fire, no pointer is computed from a NULL bin and the
    table-growth branch inside `qb_array_index` (`b >= a->num_bins`) is dead: a call returns an
    address or an errno, nothing else. -/
theorem index_total {s : St} (hs : Reachable s) (idx : Int) :
    (∃ k off, (index s idx).res = .addr k off) ∨ (∃ e, (index s idx).res = .err e) := by
  rcases (index_spec hs.inv idx).kind with h | ⟨e, h, _⟩
  · exact .inl h
  · exact .inr ⟨e, h⟩

/-! ### non-vacuity: concrete reachable states that exercise the hypotheses -/

/-- heap full of 0xA5 before the array exists -/
def junkA5 : Nat → Nat → Nat := fun _ _ => 0xA5

/-- `create(16, 8, autogrow=1)` succeeds -/
example : ∃ s, create junkA5 16 8 1 = .ok s := ⟨_, rfl⟩

/-- stable + disjoint + persistent on a concrete sparse history: poke 3, auto-grow to index 100,
    grow to 200, index 199, read 3 back. -/
theorem test_history :
    (match create junkA5 16 8 1 with
     | .ok s => results s [.poke 3 2 255, .index 100, .grow 200, .index 199, .index 3, .index 4, .peek 3,
                           .peek 4, .index 65536, .index (-1), .numBins]
     | .error _ => []) =
    [.rc0, .addr 1 32, .rc0, .addr 2 56, .addr 0 24, .addr 0 32, .bytes [0, 0, 255, 0, 0, 0, 0, 0],
     .bytes [0, 0, 0, 0, 0, 0, 0, 0], .err .einval, .err .erange, .num 14] := by
  decide

/-- non-vacuity of the hypotheses of `index_stable` / `index_disjoint` / `index_in_block`: a reachable
    state (after an auto-grown index and a grow) in which two different indices have addresses -/
example : ∃ s, Reachable s ∧ (index s 100).res = .addr 0 32 ∧
    (index (run (index s 100).s [.grow 300, .index 7]) 101).res = .addr 0 40 := by
  refine ⟨_, Reachable.create (junk := junkA5) (m := 16) (e := 8) (g := 1) rfl, ?_, ?_⟩ <;> decide

/-- non-vacuity of `persists_after_grow`: the poke succeeds -/
example : ∃ s, Reachable s ∧ (step s (.poke 40 3 9)).res = .rc0 := by
  refine ⟨_, Reachable.create (junk := junkA5) (m := 16) (e := 8) (g := 1) rfl, ?_⟩
  decide

/-- non-vacuity of `zero_initialised`: a history without stores to index 5 whose final read succeeds;
    the heap was full of 0xA5 before `create` -/
example : ∃ s0, create junkA5 4 3 0 = .ok s0 ∧
    (step (run s0 [.poke 2 0 7, .grow 40, .index 33]) (.peek 3)).res = .bytes [0, 0, 0] := by
  refine ⟨_, rfl, ?_⟩
  decide

/-! ### D28 (pre-repair code): `idx + 1` overflows `int32_t` -/

/-- Refutation witness for the code before repair D28: with auto-grow enabled, `index INT32_MAX`
    evaluates `idx + 1` in `int32_t` — undefined behaviour (UBSan: signed integer overflow) instead of
    the promised failure.  (`corpus/C19/seq/d28-int-overflow.ops` replays it on the real code.) -/
theorem orig_int_overflow_witness :
    (match create junkA5 1 24 2 with
     | .ok s => (indexOrig s 2147483647).res
     | .error _ => .rc0) = .ub := by
  decide

/-- … and the repaired code fails as promised. -/
theorem test_repaired_int_max :
    (match create junkA5 1 24 2 with
     | .ok s => (index s 2147483647).res
     | .error _ => .rc0) = .err .einval := by
  decide

end QbVerif.Props.C19
