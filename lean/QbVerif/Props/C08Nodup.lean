/-
Property C08, eighth file: every timer entry of the ghost dispatch log carries a NON-ZERO check word (the pop
only ever takes a timer item whose slot is JOBLIST with a real word: structural invariant `TW`), hence
`timer_runs_at_most_once` in its literal form: the timer part of the dispatch log has no duplicates.
-/
import QbVerif.Props.C08Fd

namespace QbVerif.Props.C08
open QbVerif.Loop QbVerif.Gen

def NZ (s : St) : Prop := NN s ∧ ∀ i, (Item.timer i, 0) ∉ s.dlog

theorem NZ.step {s s' : St} (h : NZ s) (t : TStep s s') : NZ s' :=
  ⟨t.nn h.1, fun i => by rw [t.dlog]; exact h.2 i⟩

theorem nz_walk : Walk (fun s => TW none s ∧ NZ s) (fun it _ s => TW (timerIdx it) s ∧ NZ s) okNonce okNonce where
  inner := fun it p =>
    ⟨fun _ h => h.2.1, fun s op hop h => ⟨(tw_walk.inner it p).api s op trivial h.1, h.2.step (api_tstep s true op hop)⟩,
     fun s id sc hok h => ⟨(tw_walk.inner it p).setScripts s id sc (fun _ _ => trivial) h.1,
       h.2.step (setScripts_tstep s id sc hok)⟩⟩
  scriptsOk := fun _ h => h.2.1
  apiOut := fun s op hop h => ⟨tw_walk.apiOut s op trivial h.1, h.2.step (api_tstep s false op hop)⟩
  setScripts := fun s id sc hok h =>
    ⟨tw_walk.setScripts s id sc (fun _ _ => trivial) h.1, h.2.step (setScripts_tstep s id sc hok)⟩
  begin := fun s p it rest hj hf h => by
    refine ⟨tw_walk.begin s p it rest hj hf h.1, ?_⟩
    obtain ⟨_, _, hs, _, hd⟩ := popped_facts s p it rest
    have t := pre_tstep (s.popped p it rest) it
    refine ⟨t.nn (by unfold NN; rw [hs]; exact h.2.1), fun i => ?_⟩
    rw [t.dlog, hd]
    intro hm
    rcases List.mem_cons.1 hm with he | hm'
    · have h1 : it = Item.timer i := (Prod.mk.inj he).1.symm
      have h2 : s.regCheck it = 0 := (Prod.mk.inj he).2.symm
      subst h1
      have hc := cnt_pop s p (.timer i) rest hj (.timer i)
      simp only [if_true] at hc
      have hq := h.1.1.qJob i (by omega)
      have hnz := h.1.1.nz i (by rw [hq.1]; simp) (fun hh => nomatch hh)
      simp only [St.regCheck, hq.1, beq_self_eq_true, if_true] at h2
      exact hnz h2
    · exact h.2.2 i hm'
  finish := fun s it p res h =>
    ⟨tw_walk.finish s it p res h.1, (h.2.step (post_tstep s res it)).step (setLv_tstep _ _ _)⟩
  setRemaining := fun s r h => ⟨tw_walk.setRemaining s r h.1, h.2.step (TStep.of_eq rfl rfl rfl rfl rfl)⟩
  enterRun := fun s h => ⟨tw_walk.enterRun s h.1, h.2.step (TStep.of_eq rfl rfl rfl rfl rfl)⟩
  leaveRun := fun s h => ⟨tw_walk.leaveRun s h.1, h.2.step (TStep.of_eq rfl rfl rfl rfl rfl)⟩
  beginIter := fun s h => ⟨tw_walk.beginIter s h.1, h.2.step (beginIteration_tstep s)⟩
  pollEvent := fun s r rev h => ⟨tw_walk.pollEvent s r rev h.1, h.2.step (pollEvent_tstep s r rev)⟩

/-- every timer entry of the dispatch log names a real registration: its check word is not 0 -/
theorem logged_timer_check_nonzero (cfg : Cfg) (cmds : List Cmd) (hfr : Fresh cmds) (i : Nat) :
    (Item.timer i, 0) ∉ ((St.init cfg).run cmds).1.dlog := by
  have h0 : TW none (St.init cfg) ∧ NZ (St.init cfg) := by
    refine ⟨tw_init cfg, (nn_chk_reachable cfg [] (fun c hc => by cases hc)).1, fun j => ?_⟩
    have hd : (St.init cfg).dlog = [] := by rcases cfg with ⟨a, b⟩; cases a <;> cases b <;> rfl
    rw [hd]; exact List.not_mem_nil
  exact (nz_walk.run _ cmds (fun c hc => by have := hfr c hc; cases c <;> exact this) h0).2.2 i

def isTimerEntry (e : Item × Nat) : Bool :=
  match e.1 with
  | .timer _ => true
  | _ => false

/-- **timer_runs_at_most_once, literal form.**  For every history that does not steer random(): unless the run
    has faulted, the timer part of the dispatch log — the (slot, check word) pairs handed to `timer_dispatch`, in
    order — contains no registration twice. -/
theorem timer_dlog_nodup (cfg : Cfg) (cmds : List Cmd) (hfr : Fresh cmds) :
    ((St.init cfg).run cmds).1.fault.isSome ∨ (((St.init cfg).run cmds).1.dlog.filter isTimerEntry).Nodup := by
  by_cases hf : ((St.init cfg).run cmds).1.fault.isSome = true
  · exact Or.inl hf
  · right
    rw [List.nodup_iff_count]
    rintro ⟨it, c⟩
    cases it with
    | timer i =>
      rw [List.count_filter (by rfl)]
      by_cases hc : c = 0
      · subst hc
        rw [List.count_eq_zero.2 (logged_timer_check_nonzero cfg cmds hfr i)]
        exact Nat.zero_le _
      · rcases timer_runs_at_most_once cfg cmds hfr i c hc with h | h
        · exact absurd h hf
        · exact h.1
    | job a d => rw [List.count_eq_zero.2 (fun hm => by have := (List.mem_filter.1 hm).2; cases this)]; exact Nat.zero_le _
    | fd j => rw [List.count_eq_zero.2 (fun hm => by have := (List.mem_filter.1 hm).2; cases this)]; exact Nat.zero_le _
    | sig a b e d => rw [List.count_eq_zero.2 (fun hm => by have := (List.mem_filter.1 hm).2; cases this)]; exact Nat.zero_le _

end QbVerif.Props.C08
