/-
C18 — map iterators stay valid while entries are removed or added under them.  Hashtable part
(lib/hashtable.c as it is in the repository, with the repairs D14 and D15).

PROVED for ALL histories (any interleaving of iterator create/next/free with put/rm/get and every
other operation of the harness language, any number of iterators; model `run size ops`):
* `ht_iter_memory_safe`: no step dereferences a freed node (outcome `uaf`), no loop diverges;
  `ht_inv_all_histories`: the invariant `Inv` — in particular `refcount = [not removed] + number
  of iterators parked on the node`, every iterator's node linked in the bucket it records
  (`ht_iter_nodes_linked`);
* `ht_after_iters_dict`: once no iterator is open the map behaves, on every continuation
  (results and notification trace), like the dictionary that executed the same history;
  `ht_dict_during_iters`: with iterators open, every result except `iter_next`'s is the dictionary's;
* `ht_iter_never_invented`: what an iterator returns is an entry of the dictionary at that moment.
PROVED at history level in `Props/C18Hist.lean` (they were only stated here at first; they are also
evaluated on every sampled history by the python oracle and the Lean monitor `IterMon`): `ht_iter_complete` (a key present from iter_new until the end is
returned) and `ht_iter_exactly_once` (… exactly once when nothing was inserted meanwhile):
  let m := IterMon.run .ht ops (run size ops).2;  m.flags.incomplete = false ∧ m.flags.twice = false
Their per-step content IS proved, for every state satisfying the invariant:
* `ht_iter_start_partial`: a new iterator has the whole table ahead of it;
* `ht_iter_step_partial`: the node `hashtable_iter_next` moves to is linked, lies in the bucket the
  iterator records, is not removed and referenced, is not the node the iterator was parked on,
  every node skipped on the way is ineligible (removed — nothing present is skipped), and what is
  ahead of the new position is exactly what followed the node in what was ahead of the old one;
* `ht_iter_end_partial`: the end is reported only when nothing eligible is ahead;
* `ht_foreach_memory_safe` / `ht_foreach_under_iterators`: `qb_map_foreach` leaves the table — all
  other iterators' positions and references included — unchanged.
Missing for complete/exactly_once: the history-level bookkeeping (a node present throughout is
never unlinked and stays ahead of or behind the iterator; `put` appends at a bucket's tail).
-/
import QbVerif.Lemmas.HtSimRun

namespace QbVerif.Hashtable
open QbVerif.Map QbVerif.Gen
set_option linter.unusedSimpArgs false

/-- the invariant `Inv` (structure + `refcount = [not removed] + number of iterators parked on the
    node` + every iterator's node linked in the bucket it records) holds after EVERY history -/
theorem ht_inv_all_histories (size : Nat) (ops : List Op) : Inv (run size ops).1 :=
  (runFrom_inv ops (create_inv size)).1

/-- C18, memory safety: for all interleavings of iterator create/next/free with put/rm/get (and
    every other operation of the harness language: count, foreach complete or abandoned, notifier
    add/del, destroy), any number of iterators, no step dereferences a freed node (and no
    traversal loop runs out of fuel) -/
theorem ht_iter_memory_safe (size : Nat) (ops : List Op) :
    ∀ o ∈ (run size ops).2, o.res ≠ .uaf ∧ o.res ≠ .diverge :=
  (runFrom_inv ops (create_inv size)).2

/-- a node is freed only when nothing refers to it: in every reachable state every linked node is
    referenced, and every open iterator's node is linked -/
theorem ht_iter_nodes_linked (size : Nat) (ops : List Op) :
    let t := (run size ops).1
    (∀ n ∈ t.flat, 0 < n.refcount) ∧
    ∀ p ∈ t.iters, ∀ id, p.2.node = some id → (t.findNode id).isSome = true := by
  intro t
  have h := ht_inv_all_histories size ops
  refine ⟨h.rcPos, ?_⟩
  intro p hp id hid
  obtain ⟨n, hn, hnid⟩ := h.itNode p hp id hid
  rw [← hnid, findNode_eq h.idsNodup (mem_flat_of_bucket hn)]
  rfl

/-- C18, last clause: once the iterators are gone (after ANY history `ops₁`: any interleaving of
    iterator create/next/free with put/rm/get/…, any number of iterators) the map again behaves
    exactly like a dictionary holding the surviving entries — namely like the dictionary that
    executed `ops₁` — on every continuation in the C17 language: results and notification trace -/
theorem ht_after_iters_dict (size : Nat) (ops₁ ops₂ : List Op) (h₁ : (run size ops₁).1.iters = [])
    (h₂ : ∀ op ∈ ops₂, op.isIter = false) :
    results .ht ((run size ops₁).1.runFrom ops₂) = results .ht ((Dict.run .ht ops₁).1.runFrom ops₂) ∧
    trace .ht ((run size ops₁).1.runFrom ops₂) = trace .ht ((Dict.run .ht ops₁).1.runFrom ops₂) := by
  obtain ⟨h, s⟩ := sim_run ops₁ (create_inv size) (sim_create size)
  exact sim_run_c17 ops₂ h s h₁ h₂

/-- … and also WHILE iterators are open: in every history every result except those of
    `iter_next` (get, rm, put, count, traversals, notifier registration, destroy refused/accepted,
    iterator create/free accepted/refused) is the dictionary's -/
theorem ht_dict_during_iters (size : Nat) (ops : List Op) :
    maskNext .ht ops (run size ops).2 = maskNext .ht ops (Dict.run .ht ops).2 :=
  sim_run_masked ops (create_inv size) (sim_create size)

/-- never invented, never stale: whatever an iterator returns, after any history, is an entry of
    the dictionary at that moment (so the key has been put and not removed since) -/
theorem ht_iter_never_invented (size : Nat) (ops : List Op) (i : Nat) (k : Key) (v : Val)
    (hr : ((run size ops).1.step (.iterNext i)).2.res = .item (some (k, v))) :
    (findEntry (Dict.run .ht ops).1.entries k).map (·.val) = some v := by
  have hs := sim_run ops (create_inv size) (sim_create size)
  have h : Inv (run size ops).1 := hs.1
  have s : Sim (run size ops).1 (Dict.run .ht ops).1 := hs.2
  rw [step_eq h] at hr
  simp only at hr
  cases hl : (run size ops).1.iters.lookup (i + 1) with
  | none => rw [iterNext_none hl] at hr; cases hr
  | some it =>
    obtain ⟨dec, hd, hdm⟩ := h.parkedNode hl
    rw [iterNext_eq h hl hd hdm] at hr
    unfold nextResult at hr
    cases hs : scanBuckets (run size ops).1.eligible it.bucket ((run size ops).1.iterLists it) with
    | none => rw [hs] at hr; cases hr
    | some r =>
      obtain ⟨b', n⟩ := r
      rw [hs] at hr
      simp only [Res.item.injEq, Option.some.injEq, Prod.mk.injEq] at hr
      obtain ⟨hn, hen, _, _, _⟩ := iterLists_found h.idsNodup h.inBucket (by
        intro p hp
        cases dec with
        | none => rw [hd] at hp; cases hp
        | some np => rw [hd] at hp; cases hp; exact ⟨np, hdm np rfl, rfl⟩) hs
      have hnl : n ∈ live (run size ops).1 := by
        refine List.mem_filter.2 ⟨mem_flat_of_bucket hn, ?_⟩
        unfold HT.eligible at hen
        simp only [h.fix14, Bool.not_true, Bool.false_or, Bool.and_eq_true] at hen
        exact hen.2
      have hlk : (run size ops).1.lookup k = some n := by
        rw [h.lookup_live]
        cases hf : (live (run size ops).1).find? (fun x => x.key == k) with
        | none =>
          have := List.find?_eq_none.1 hf n hnl
          simp [hr.1] at this
        | some m =>
          have hm := List.mem_of_find?_eq_some hf
          have hk := List.find?_some hf
          simp only [beq_iff_eq] at hk
          rw [live_unique h hm hnl (hk.trans hr.1.symm)]
      rw [s.find h k, hlk]
      simp [absNode, hr.2]

theorem ht_iter_start_partial (t : HT) : remOf t ⟨none, 0⟩ = t.flat := remOf_start t

theorem ht_iter_step_partial {t : HT} {it : Iter} {b' : Nat} {n : Node} (hf : t.fix14 = true)
    (hnd : (t.flat.map (·.id)).Nodup)
    (hbk : ∀ b x, x ∈ t.bucketOf b → hash x.key t.order = b)
    (hp : ∀ p, it.node = some p → ∃ np ∈ t.bucketOf it.bucket, np.id = p)
    (h : scanBuckets t.eligible it.bucket (t.iterLists it) = some (b', n)) :
    n ∈ t.flat ∧ n ∈ t.bucketOf b' ∧ n.removed = false ∧ 0 < n.refcount ∧
    (∀ p, it.node = some p → n.id ≠ p) ∧
    ∃ skipped, remOf t it = skipped ++ n :: remOf t ⟨some n.id, b'⟩ ∧ ∀ x ∈ skipped, t.eligible x = false := by
  obtain ⟨h1, h2, _, h4, h5⟩ := iterLists_found hnd hbk hp h
  have : 0 < n.refcount ∧ n.removed = false := by
    unfold HT.eligible at h2
    simp only [Bool.and_eq_true, decide_eq_true_eq, Bool.or_eq_true, Bool.not_eq_true'] at h2
    refine ⟨h2.1, ?_⟩
    rcases h2.2 with h | h
    · rw [hf] at h; cases h
    · exact h
  exact ⟨mem_flat_of_bucket h1, h1, this.2, this.1, h5, h4⟩

theorem ht_iter_end_partial {t : HT} {it : Iter}
    (h : scanBuckets t.eligible it.bucket (t.iterLists it) = none) : ∀ x ∈ remOf t it, t.eligible x = false :=
  iterLists_none h

/-- `qb_map_foreach` in any well-formed state: no use of a freed node, terminates -/
theorem ht_foreach_memory_safe {t : HT} (w : WF t) (stop : Nat) :
    (t.foreach stop).2.res ≠ .uaf ∧ (t.foreach stop).2.res ≠ .diverge := by
  rw [foreach_eq w stop]
  exact ⟨by simp, by simp⟩

/-- … and every other iterator finds the table exactly as it left it -/
theorem ht_foreach_under_iterators {t : HT} (w : WF t) (stop : Nat) (i : Nat) :
    (t.foreach stop).1.iterNext (i + 1) = t.iterNext (i + 1) ∧
    (t.foreach stop).1.iterFree (i + 1) = t.iterFree (i + 1) := by
  rw [foreach_eq w stop]
  exact ⟨rfl, rfl⟩

/-! ### refutation witnesses (finite facts): the code as found violates C18, the repaired code
does not, on the corpus witnesses -/

/-- corpus/C18/ht-d14-removed-node-findable.ops, case 1 -/
def d14ops : List Op :=
  [.nadd none 21 9, .put [0x61] 1 0, .iterNew 0 none, .iterNext 0, .rm [0x61], .get [0x61], .count,
   .rm [0x61], .count, .iterNext 0]

/-- D14: as found, the removed node stays findable (`get` returns 1), the second `rm` succeeds,
    the count underflows and the iterator then reads the freed node -/
theorem test_d14_orig_uaf :
    (runOrig 8 d14ops).2.map (·.res) =
      [.rc none, .ok, .ok, .item (some ([0x61], 1)), .bool true, .val (some 1), .num 0, .bool true,
       .num (2 ^ 64 - 1), .uaf] := by decide

theorem test_d14_fixed_safe :
    (run 8 d14ops).2.map (·.res) =
      [.rc none, .ok, .ok, .item (some ([0x61], 1)), .bool true, .val none, .num 0, .bool false,
       .num 0, .item none] ∧
    IterMon.Mon.flags (IterMon.run .ht d14ops (run 8 d14ops).2) = {} ∧
    (IterMon.Mon.flags (IterMon.run .ht d14ops (runOrig 8 d14ops).2)).memErr = true := by decide

/-- corpus/C18/ht-d15-iter-free.ops, case 3: `iter_next` after the end, as found, drops the
    presence reference of the last entry -/
def d15ops3 : List Op :=
  [.nadd none 21 9, .put [0x61] 1 0, .iterNew 0 none, .iterNext 0, .iterNext 0, .iterNext 0, .iterFree 0,
   .get [0x61], .count]

theorem test_d15_next_after_end :
    ((runOrig 8 d15ops3).2.map (·.res)).getLast? ≠ ((run 8 d15ops3).2.map (·.res)).getLast? ∨
    (runOrig 8 d15ops3).2.map (·.res) ≠ (run 8 d15ops3).2.map (·.res) := by decide

theorem test_d15_fixed_after_iters_dict :
    (run 8 d15ops3).2.map (·.res) =
      [.rc none, .ok, .ok, .item (some ([0x61], 1)), .item none, .item none, .ok, .val (some 1), .num 1] := by
  decide

end QbVerif.Hashtable
