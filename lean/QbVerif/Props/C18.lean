/-
C18 — map iterators stay valid while entries are removed or added under them.  Hashtable part
(lib/hashtable.c as it is in the repository, with the repairs D14 and D15).

FULL STATEMENTS (NOT PROVED YET — kept at full strength; the differential stream of checks/C18.py
and the monitor `IterMon` of Model/MapSpec.lean evaluate exactly these on sampled histories):

  theorem ht_iter_memory_safe (size : Nat) (ops : List Op) :
      ∀ o ∈ (run size ops).2, o.res ≠ .uaf ∧ o.res ≠ .diverge
  theorem ht_iter_complete / ht_iter_exactly_once / ht_iter_never_invented (size) (ops) :
      let m := IterMon.run .ht ops (run size ops).2
      m.flags.incomplete = false ∧ m.flags.twice = false ∧ m.flags.invented = false ∧ m.flags.stale = false
  theorem ht_after_iters_dict (size) (ops₁ ops₂) (h₁ : (run size ops₁).1.iters = [])
      (h₂ : ∀ op ∈ ops₂, op.isIter = false) :
      results .ht ((run size ops₁).1.runFrom ops₂) = results .ht ((Dict.run .ht ops₁).1.runFrom ops₂)

What is proved below (all for EVERY well-formed table state `WF`, with any number of other open
iterators and any removed-but-referenced nodes still linked) are the local facts those theorems
are made of:
* `ht_iter_start_partial`: a new iterator has the whole table ahead of it;
* `ht_iter_step_partial`: the node `hashtable_iter_next` moves to is linked, lies in the bucket the
  iterator records, is not removed and referenced (never invented, never freed), is not the node
  the iterator was parked on (never twice), every node skipped on the way is ineligible (removed —
  nothing present is skipped), and what is ahead of the new position is exactly what followed the
  node in what was ahead of the old one;
* `ht_iter_end_partial`: the end is reported only when nothing eligible is ahead;
* `ht_foreach_memory_safe` / `ht_foreach_under_iterators`: a traversal by `qb_map_foreach` run in
  such a state (complete or abandoned) never dereferences a freed node, does not run out of fuel,
  and leaves the table — all other iterators' positions and references included — unchanged.
Missing for the full statements: the reference-count equation `refcount = [not removed] + number
of iterators parked on the node` as an invariant of every operation (from which: a node is freed
only when no iterator is parked on it), and the history-level bookkeeping of `IterMon`.
-/
import QbVerif.Lemmas.HtStepAll

namespace QbVerif.Hashtable
open QbVerif.Map QbVerif.Gen
set_option linter.unusedSimpArgs false

/-- the invariant `Inv` (structure + `refcount = [not removed] + number of iterators parked on the
    node` + every iterator's node linked in the bucket it records) holds after EVERY history -/
theorem ht_inv_all_histories (size : Nat) (ops : List Op) : Inv (run size ops).1 :=
  (runFrom_inv ops (create_inv size)).1

/-- C18, memory safety: for all interleavings of iterator create/next/free with put/rm/get (and
    every other operation of the harness language: count, foreach complete or abandoned, notifier
    add/del, destroy), any number of iterators, no step dereferences a freed node (and no
    traversal loop runs out of fuel) -/
theorem ht_iter_memory_safe (size : Nat) (ops : List Op) :
    ∀ o ∈ (run size ops).2, o.res ≠ .uaf ∧ o.res ≠ .diverge :=
  (runFrom_inv ops (create_inv size)).2

/-- a node is freed only when nothing refers to it: in every reachable state every linked node is
    referenced, and every open iterator's node is linked -/
theorem ht_iter_nodes_linked (size : Nat) (ops : List Op) :
    let t := (run size ops).1
    (∀ n ∈ t.flat, 0 < n.refcount) ∧
    ∀ p ∈ t.iters, ∀ id, p.2.node = some id → (t.findNode id).isSome = true := by
  intro t
  have h := ht_inv_all_histories size ops
  refine ⟨h.rcPos, ?_⟩
  intro p hp id hid
  obtain ⟨n, hn, hnid⟩ := h.itNode p hp id hid
  rw [← hnid, findNode_eq h.idsNodup (mem_flat_of_bucket hn)]
  rfl

theorem ht_iter_start_partial (t : HT) : remOf t ⟨none, 0⟩ = t.flat := remOf_start t

theorem ht_iter_step_partial {t : HT} {it : Iter} {b' : Nat} {n : Node} (hf : t.fix14 = true)
    (hnd : (t.flat.map (·.id)).Nodup)
    (hbk : ∀ b x, x ∈ t.bucketOf b → hash x.key t.order = b)
    (hp : ∀ p, it.node = some p → ∃ np ∈ t.bucketOf it.bucket, np.id = p)
    (h : scanBuckets t.eligible it.bucket (t.iterLists it) = some (b', n)) :
    n ∈ t.flat ∧ n ∈ t.bucketOf b' ∧ n.removed = false ∧ 0 < n.refcount ∧
    (∀ p, it.node = some p → n.id ≠ p) ∧
    ∃ skipped, remOf t it = skipped ++ n :: remOf t ⟨some n.id, b'⟩ ∧ ∀ x ∈ skipped, t.eligible x = false := by
  obtain ⟨h1, h2, _, h4, h5⟩ := iterLists_found hnd hbk hp h
  have : 0 < n.refcount ∧ n.removed = false := by
    unfold HT.eligible at h2
    simp only [Bool.and_eq_true, decide_eq_true_eq, Bool.or_eq_true, Bool.not_eq_true'] at h2
    refine ⟨h2.1, ?_⟩
    rcases h2.2 with h | h
    · rw [hf] at h; cases h
    · exact h
  exact ⟨mem_flat_of_bucket h1, h1, this.2, this.1, h5, h4⟩

theorem ht_iter_end_partial {t : HT} {it : Iter}
    (h : scanBuckets t.eligible it.bucket (t.iterLists it) = none) : ∀ x ∈ remOf t it, t.eligible x = false :=
  iterLists_none h

/-- `qb_map_foreach` in any well-formed state: no use of a freed node, terminates -/
theorem ht_foreach_memory_safe {t : HT} (w : WF t) (stop : Nat) :
    (t.foreach stop).2.res ≠ .uaf ∧ (t.foreach stop).2.res ≠ .diverge := by
  rw [foreach_eq w stop]
  exact ⟨by simp, by simp⟩

/-- … and every other iterator finds the table exactly as it left it -/
theorem ht_foreach_under_iterators {t : HT} (w : WF t) (stop : Nat) (i : Nat) :
    (t.foreach stop).1.iterNext (i + 1) = t.iterNext (i + 1) ∧
    (t.foreach stop).1.iterFree (i + 1) = t.iterFree (i + 1) := by
  rw [foreach_eq w stop]
  exact ⟨rfl, rfl⟩

/-! ### refutation witnesses (finite facts): the code as found violates C18, the repaired code
does not, on the corpus witnesses -/

/-- corpus/C18/ht-d14-removed-node-findable.ops, case 1 -/
def d14ops : List Op :=
  [.nadd none 21 9, .put [0x61] 1 0, .iterNew 0 none, .iterNext 0, .rm [0x61], .get [0x61], .count,
   .rm [0x61], .count, .iterNext 0]

/-- D14: as found, the removed node stays findable (`get` returns 1), the second `rm` succeeds,
    the count underflows and the iterator then reads the freed node -/
theorem test_d14_orig_uaf :
    (runOrig 8 d14ops).2.map (·.res) =
      [.rc none, .ok, .ok, .item (some ([0x61], 1)), .bool true, .val (some 1), .num 0, .bool true,
       .num (2 ^ 64 - 1), .uaf] := by decide

theorem test_d14_fixed_safe :
    (run 8 d14ops).2.map (·.res) =
      [.rc none, .ok, .ok, .item (some ([0x61], 1)), .bool true, .val none, .num 0, .bool false,
       .num 0, .item none] ∧
    IterMon.Mon.flags (IterMon.run .ht d14ops (run 8 d14ops).2) = {} ∧
    (IterMon.Mon.flags (IterMon.run .ht d14ops (runOrig 8 d14ops).2)).memErr = true := by decide

/-- corpus/C18/ht-d15-iter-free.ops, case 3: `iter_next` after the end, as found, drops the
    presence reference of the last entry -/
def d15ops3 : List Op :=
  [.nadd none 21 9, .put [0x61] 1 0, .iterNew 0 none, .iterNext 0, .iterNext 0, .iterNext 0, .iterFree 0,
   .get [0x61], .count]

theorem test_d15_next_after_end :
    ((runOrig 8 d15ops3).2.map (·.res)).getLast? ≠ ((run 8 d15ops3).2.map (·.res)).getLast? ∨
    (runOrig 8 d15ops3).2.map (·.res) ≠ (run 8 d15ops3).2.map (·.res) := by decide

theorem test_d15_fixed_after_iters_dict :
    (run 8 d15ops3).2.map (·.res) =
      [.rc none, .ok, .ok, .item (some ([0x61], 1)), .item none, .item none, .ok, .val (some 1), .num 1] := by
  decide

end QbVerif.Hashtable
