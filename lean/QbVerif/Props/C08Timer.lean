/-
Property C08, third file: timer registrations over whole histories, under nonce freshness (the history never
steers random(): no `nonce` operation in any line or script).  A registration = (slot i, check word c).
Instance of the generic walk with `TInv i c n`: once (i, c) is stale it stays stale and is never dispatched.
-/
import QbVerif.Lemmas.LoopStale3
import QbVerif.Props.C08Local

namespace QbVerif.Props.C08
open QbVerif.Loop QbVerif.Gen

structure TQ (i c n : Nat) (s : St) : Prop where
  c1 : 1 ≤ c
  cn : c ≤ s.nonce
  stale : ¬ liveT s i c
  cnt : s.dlog.count (Item.timer i, c) = n

/-- scripts nonce-free, check words below the random() counter, and — unless the run has faulted — the
    registration (i, c) is stale and has been dispatched exactly `n` times -/
def TInv (i c n : Nat) (s : St) : Prop := NN s ∧ chkLe s ∧ (s.fault.isSome ∨ TQ i c n s)

theorem TInv.step {i c n : Nat} {s s' : St} (h : TInv i c n s) (t : TStep s s') : TInv i c n s' := by
  refine ⟨t.nn h.1, t.chk h.2.1, ?_⟩
  rcases h.2.2 with hf | hq
  · exact Or.inl (t.fault hf)
  · rcases t.stale i c hq.c1 hq.cn hq.stale with hf | hs
    · exact Or.inl hf
    · exact Or.inr ⟨hq.c1, Nat.le_trans hq.cn t.nonce, hs, by rw [t.dlog]; exact hq.cnt⟩

theorem setScripts_tstep (s : St) (id : Nat) (sc : Script) (hok : ∀ o ∈ sc.ops, okNonce o) :
    TStep s { s with scripts := assoc s.scripts id sc } := by
  refine ⟨?_, Nat.le_refl _, fun h => h, fun h => h, fun _ _ _ _ h => Or.inr h, rfl⟩
  intro h e he
  unfold assoc at he
  rcases List.mem_cons.1 he with rfl | he
  · exact hok
  · exact h e (List.mem_filter.1 he).1

theorem tinv_stable (i c n : Nat) : Stable (TInv i c n) okNonce where
  scriptsOk := fun _ h => h.1
  api := fun s nn op hop h => h.step (api_tstep s nn op hop)
  setScripts := fun s id sc hok h => h.step (setScripts_tstep s id sc hok)
  freedCons := fun s a h => h.step (TStep.of_eq rfl rfl rfl rfl rfl)
  abort := fun s w h => h.step (TStep.of_core rfl (Nat.le_refl _) (fun _ => rfl) rfl rfl)
  timerPre := fun s j h => h.step (TStep.setTimer_new s j _ (fun _ => Nat.zero_le _)
    (fun k h1 _ hl => absurd hl.1 (by show (0 : Nat) ≠ k; omega)))
  timerPost := fun s j h => h.step (TStep.setTimer_new s j _ (fun hc => hc j) (fun k _ _ hl => absurd rfl hl.2))
  fdNeg := fun s j h => h.step (setPe_tstep _ _ _)
  fdBack := fun s j h => h.step (setPe_tstep _ _ _)
  sigDel := fun s reg h => h.step (sigDel_tstep s reg)
  pop := fun s p it rest _ h => by
    have hslot : ∀ j, ({ s.setLv p { s.lv p with jobs := rest } with dlog := (it, s.regCheck it) :: s.dlog } : St).timerSlot j
        = s.timerSlot j := fun j => by unfold St.timerSlot; simp
    refine ⟨fun e he => h.1 e (by simpa using he), ?_, ?_⟩
    · intro j; rw [hslot]; simpa using h.2.1 j
    · rcases h.2.2 with hf | hq
      · left; simpa using hf
      · right
        refine ⟨hq.c1, by simpa using hq.cn, by unfold liveT; rw [hslot]; exact hq.stale, ?_⟩
        show ((it, s.regCheck it) :: s.dlog).count (Item.timer i, c) = n
        rw [List.count_cons, hq.cnt]
        have hne : ((it, s.regCheck it) == (Item.timer i, c)) = false := by
          apply Bool.eq_false_iff.2
          intro heq
          have heq' : (it, s.regCheck it) = (Item.timer i, c) := by simpa using heq
          have h1 : it = Item.timer i := (Prod.mk.inj heq').1
          have h2 : s.regCheck it = c := (Prod.mk.inj heq').2
          subst h1
          simp only [St.regCheck] at h2
          by_cases hst : (s.timerSlot i).state = .joblist
          · simp only [hst, beq_self_eq_true, if_true] at h2
            exact hq.stale ⟨h2, by rw [hst]; simp⟩
          · have hb : ((s.timerSlot i).state == EState.joblist) = false := by simpa using hst
            simp only [hb, Bool.false_eq_true, if_false] at h2
            have := hq.c1; omega
        simp [hne]
  todoDec := fun s p h => h.step (setLv_tstep _ _ _)
  setRemaining := fun s r h => h.step (TStep.of_eq rfl rfl rfl rfl rfl)
  enterRun := fun s h => h.step (TStep.of_eq rfl rfl rfl rfl rfl)
  leaveRun := fun s h => h.step (TStep.of_eq rfl rfl rfl rfl rfl)
  beginIter := fun s h => h.step (beginIteration_tstep s)
  pollEvent := fun s r rev h => h.step (pollEvent_tstep s r rev)

/-- a history that never steers `random()` -/
def Fresh (cmds : List Cmd) : Prop := ∀ c ∈ cmds, c.ok okNonce

/-- **stale registrations stay stale and never run** (history form of `stale_handle_rejected_and_inert`, and
    `deleted_never_runs` / `timer_runs_at_most_once` for timers across any continuation).  From ANY state whose
    scripts are nonce-free and whose check words are below the random() counter: if registration (i, c) — c a
    word drawn earlier — is stale (fired: check cleared; deleted: slot EMPTY; slot re-used: other word), then
    after every nonce-free continuation (API calls from outside and from callbacks, any scripts and ready
    sets, slot re-use included) either the run has faulted or (i, c) is still stale and the ghost log of
    dispatches contains no new entry for it. -/
theorem stale_stays_stale (s : St) (cmds : List Cmd) (i c : Nat) (hnn : NN s) (hck : chkLe s) (hfr : Fresh cmds)
    (h1 : 1 ≤ c) (h2 : c ≤ s.nonce) (hst : ¬ liveT s i c) :
    (s.run cmds).1.fault.isSome ∨
      (¬ liveT (s.run cmds).1 i c ∧
        (s.run cmds).1.dlog.count (Item.timer i, c) = s.dlog.count (Item.timer i, c)) := by
  have h := (tinv_stable i c (s.dlog.count (Item.timer i, c))).run s cmds hfr ⟨hnn, hck, Or.inr ⟨h1, h2, hst, rfl⟩⟩
  rcases h.2.2 with hf | hq
  · exact Or.inl hf
  · exact Or.inr ⟨hq.stale, hq.cnt⟩

/-- the hypotheses of `stale_stays_stale` hold in every state reached by a nonce-free history -/
theorem nn_chk_reachable (cfg : Cfg) (cmds : List Cmd) (hfr : Fresh cmds) :
    NN ((St.init cfg).run cmds).1 ∧ chkLe ((St.init cfg).run cmds).1 := by
  have h0 : TInv 0 1 0 (St.init cfg) := by
    refine ⟨?_, ?_, Or.inr ⟨Nat.le_refl _, ?_, ?_, ?_⟩⟩
    · intro e he; cases he
    · intro j; show (([] : List TimerSlot).getD j {}).check ≤ _; simp [List.getD]
    · show 1 ≤ (St.init cfg).nonce
      rcases cfg with ⟨a, b⟩; cases a <;> cases b <;> decide
    · intro hl; have := hl.2; exact this (by show (([] : List TimerSlot).getD 0 {}).state = _; simp [List.getD])
    · rfl
  have h := (tinv_stable 0 1 0).run _ cmds hfr h0
  exact ⟨h.1, h.2.1⟩

theorem liveH_iff (s : St) (h : Nat) : liveH s h ↔ h ≠ 0 ∧ liveT s (h % 2^32) (h / 2^32) := Iff.rfl

/-- **stale_handle_rejected_and_inert, over histories.**  A handle whose check word was drawn earlier and that
    is stale now is rejected by `qb_loop_timer_del` (-EINVAL, state unchanged) and reported not running after
    EVERY nonce-free continuation that does not fault — whatever was added, deleted, fired or re-used meanwhile. -/
theorem stale_handle_rejected_and_inert_history (s : St) (cmds : List Cmd) (h : Nat) (hnn : NN s) (hck : chkLe s)
    (hfr : Fresh cmds) (h1 : 1 ≤ h / 2^32) (h2 : h / 2^32 ≤ s.nonce) (hst : ¬ liveH s h)
    (hnf : (s.run cmds).1.fault = none) :
    (s.run cmds).1.timerDel h = ((s.run cmds).1, -EINVAL) ∧ (s.run cmds).1.timerRunning h = 0 := by
  have h0 : h ≠ 0 := by intro h0; subst h0; simp at h1
  have hst' : ¬ liveT s (h % 2^32) (h / 2^32) := fun hl => hst ⟨h0, hl⟩
  rcases stale_stays_stale s cmds _ _ hnn hck hfr h1 h2 hst' with hf | ⟨hs, _⟩
  · rw [hnf] at hf; cases hf
  · exact stale_handle_rejected_and_inert _ h (fun hl => hs hl.2)

theorem setTimer_empty_not_live (s2 : St) (i c : Nat) (t : TimerSlot) (hlt : i < s2.timers.length)
    (ht : t.state = .empty) : ¬ liveT (s2.setTimer i t) i c := by
  unfold liveT
  rw [timerSlot_setTimer]
  simp only [hlt, true_and, not_true_eq_false, false_and, or_false, if_true]
  exact fun hl => hl.2 ht

/-- **deleted_never_runs (timers), first half**: a successful `qb_loop_timer_del` leaves the registration stale
    (slot EMPTY) — also when the timer had ALREADY been moved to the job list; by `stale_stays_stale` it is then
    never dispatched and the handle is rejected for ever.  (`≠ deleted`: timer slots never take the DELETED
    state; not proved here, hence a hypothesis.) -/
theorem timer_del_makes_stale (s : St) (h : Nat) (hrc : (s.timerDel h).2 = 0)
    (hnd : (s.timerSlot (h % 2^32)).state ≠ .deleted) :
    ¬ liveT (s.timerDel h).1 (h % 2^32) (h / 2^32) := by
  have hlen : ∀ st, (s.timerSlot (h % 2^32)).state = st → st ≠ .empty → h % 2^32 < s.timers.length := by
    intro st hs hne
    by_cases hlt : h % 2^32 < s.timers.length
    · exact hlt
    · rw [timerSlot_ge s _ hlt] at hs; exact absurd hs.symm hne
  by_cases h0 : h = 0
  · simp [St.timerDel, St.timerFromHandle, h0, EINVAL] at hrc
  · by_cases hc : (s.timerSlot (h % 2^32)).check = h / 2^32
    · cases hs : (s.timerSlot (h % 2^32)).state with
      | deleted => exact absurd hs hnd
      | empty => simp [St.timerDel, St.timerFromHandle, h0, hc, hs, EINVAL] at hrc
      | active =>
        have hlt := hlen _ hs (by simp)
        simp only [St.timerDel, St.timerFromHandle, h0, hc, hs, if_false, ne_eq, not_true_eq_false,
          show (EState.active == EState.deleted) = false from rfl,
          show (EState.active != EState.active && EState.active != EState.joblist) = false from rfl,
          show (EState.active == EState.joblist) = false from rfl, Bool.false_eq_true]
        apply setTimer_empty_not_live _ _ _ _ _ rfl
        split <;> simpa using hlt
      | joblist =>
        have hlt := hlen _ hs (by simp)
        simp only [St.timerDel, St.timerFromHandle, h0, hc, hs, if_false, ne_eq, not_true_eq_false,
          show (EState.joblist == EState.deleted) = false from rfl,
          show (EState.joblist != EState.active && EState.joblist != EState.joblist) = false from rfl,
          show (EState.joblist == EState.joblist) = true from rfl, Bool.false_eq_true, if_true]
        apply setTimer_empty_not_live _ _ _ _ _ rfl
        split <;> simpa using hlt
    · simp [St.timerDel, St.timerFromHandle, h0, hc, EINVAL] at hrc

theorem setTimer_self_empty_not_live (s2 : St) (i c : Nat) (t : TimerSlot) (ht : t.state = .empty) :
    ¬ liveT (s2.setTimer i t) i c := by
  unfold liveT
  rw [timerSlot_setTimer]
  split
  · exact fun hl => hl.2 ht
  · rename_i hcond
    by_cases hlt : i < s2.timers.length
    · exact absurd (Or.inl ⟨hlt, rfl⟩) hcond
    · rw [timerSlot_ge s2 i hlt]; exact fun hl => hl.2 rfl

/-- **timer_runs_at_most_once, first half**: when `timer_dispatch` returns, slot i is EMPTY — every registration
    (i, c) is stale, whatever the callback did (re-adding into another slot, deleting others, …); by
    `stale_stays_stale` a word drawn before is then never dispatched from slot i by any later line. -/
theorem timer_dispatch_makes_stale (s : St) (i c : Nat) : ¬ liveT (s.dispatch (.timer i)).1 i c := by
  rw [dispatch_timer]
  exact setTimer_self_empty_not_live _ i c _ rfl

/-- non-vacuity of the hypotheses of `stale_stays_stale` / `…_history` -/
example : ∃ (s : St) (i c : Nat), NN s ∧ chkLe s ∧ 1 ≤ c ∧ c ≤ s.nonce ∧ ¬ liveT s i c :=
  ⟨St.init {}, 0, 1, (nn_chk_reachable {} [] (fun c hc => by cases hc)).1,
    (nn_chk_reachable {} [] (fun c hc => by cases hc)).2, Nat.le_refl _, by decide,
    fun hl => hl.2 (by show (([] : List TimerSlot).getD 0 {}).state = _; simp [List.getD])⟩

end QbVerif.Props.C08
