import QbVerif.Lemmas.LogThreadS3
import QbVerif.Props.C16

/-!
# C16, steady programs: every accepted message is written, in order

`steady_all_written` (left open in Props/C16.lean): for controller / producer programs that never disable
the target (`enable false`) and never switch it back to unthreaded (`threaded false`), under every schedule
and with the three repairs in place, the logging thread discards nothing: `discarded = []` and
`written = popped`, hence `written` is a PREFIX of `accepted` (every message accepted by
`qb_log_thread_log_post` is written, in the order logged), and once `qb_log_fini` has returned (or whenever
the worker lock does not exist) `written = accepted`.

Proof: the third invariant `SInv` (Lemmas/LogThreadS1–S3): while a record is queued or an application
thread is parked at the lock of `log_post`, the target is open, enabled and threaded and the logger is
initialised or the controller is inside `qb_log_fini`; the target is disabled only by `qb_log_init` on an
uninitialised logger, by `qb_log_custom_open` of a closed target and at the very end of `qb_log_fini`, and
at those moments the queue is empty (`Inv.null_st`, `Inv.tok` at `pthread_join`) and nobody is parked at
the lock (`Inv.guard`, `Inv.c_excl`).
-/
namespace QbVerif.Props.C16

open QbVerif.LogThread

/-- the program never disables the target and never switches it back to unthreaded -/
def Steady (prog : List Op) : Prop := ∀ op ∈ prog, op ≠ .enable false ∧ op ≠ .threaded false

theorem Steady.ops {prog : List Op} (h : Steady prog) : ∀ op ∈ prog, op.steady = true := by
  intro op hop
  obtain ⟨h1, h2⟩ := h op hop
  cases op <;> simp_all [Op.steady]

/-- the third invariant holds in every reachable state of a steady program -/
theorem steady_reach (cfg : Cfg) (hf : Fixed cfg) (progC progP : List Op) (hw : WF cfg progC progP)
    (hc : Steady progC) (hp : Steady progP) (sched : List Tid) : SInv (reach cfg progC progP sched) :=
  sinv_run cfg hf sched _ (good_init cfg progC progP hw) (sinv_init progC progP hc.ops hp.ops)

/-- **steady_all_written**: nothing is discarded; what was written is exactly what was taken off the
queue, i.e. a prefix of what was accepted, in the order logged; the rest is exactly the queue. -/
theorem steady_all_written (cfg : Cfg) (hf : Fixed cfg) (progC progP : List Op) (hw : WF cfg progC progP)
    (hs : ∀ op ∈ progC ++ progP, op ≠ .enable false ∧ op ≠ .threaded false) (sched : List Tid) :
    let s := reach cfg progC progP sched
    s.discarded = [] ∧ s.written = s.popped ∧ s.written <+: s.accepted ∧
      s.accepted = s.written ++ s.queue.map Rec.seq := by
  intro s
  have h : SInv s := steady_reach cfg hf progC progP hw
    (fun op ho => hs op (List.mem_append_left _ ho)) (fun op ho => hs op (List.mem_append_right _ ho)) sched
  have g : HInv s := (good_reach cfg hf progC progP hw sched).hist
  refine ⟨h.nodisc, h.wp, ?_, ?_⟩
  · rw [h.wp, g.fifo]; exact List.prefix_append _ _
  · rw [h.wp]; exact g.fifo

/-- … and whenever the worker lock does not exist — in particular after `qb_log_fini` has returned —
every accepted message has been written: `written = accepted`. -/
theorem steady_fini_all_written (cfg : Cfg) (hf : Fixed cfg) (progC progP : List Op) (hw : WF cfg progC progP)
    (hs : ∀ op ∈ progC ++ progP, op ≠ .enable false ∧ op ≠ .threaded false) (sched : List Tid) :
    let s := reach cfg progC progP sched
    s.lock = .null → s.written = s.accepted := by
  intro s hl
  obtain ⟨_, h2, _, _⟩ := steady_all_written cfg hf progC progP hw hs sched
  obtain ⟨_, h3, _⟩ := stopped_means_drained cfg hf progC progP hw sched hl
  exact h2.trans h3

/-! ## Non-vacuity -/

example : ∀ op ∈ progDoc ++ [], op ≠ Op.enable false ∧ op ≠ Op.threaded false := by decide

set_option maxRecDepth 100000 in
/-- the hypotheses are satisfiable and the conclusion is not trivially met: on the documented program and
    the D10 schedule the record is accepted and written, nothing discarded -/
theorem test_steady_written :
    let s := reach cfgRepo progDoc [] schedD10
    s.lock = .null ∧ s.accepted = [0] ∧ s.written = [0] ∧ s.discarded = [] := by decide

set_option maxRecDepth 100000 in
/-- the hypothesis matters: a program that disables the target while a record is queued has it discarded -/
theorem test_unsteady_discards :
    let s := reach cfgRepo [.init, .open_, .enable true, .threaded true, .start, .log 20, .enable false] []
      (reps 5 .C ++ [.W] ++ reps 8 .C ++ reps 3 .W)
    s.accepted = [0] ∧ s.written = [] ∧ s.discarded = [0] := by decide

end QbVerif.Props.C16
