/-
C11, second part — whole histories: a run of writes keeps every newest run that fits, on the FIFO
and on the ring; draining returns the stored chunks; the blackbox logger's reserve/commit pattern;
the model-level witness of defect D31 (code before the repair).
-/
import QbVerif.Props.C11

namespace QbVerif.Props.C11
open QbVerif.Ring QbVerif.RingSpec QbVerif.RingLemmas
open QbVerif.Props.C07 (writesOf readsOf)

theorem suffix_append_cases {α : Type} (s a b : List α) (h : s <:+ a ++ b) :
    s <:+ b ∨ ∃ s1, s = s1 ++ b ∧ s1 <:+ a := by
  obtain ⟨t, ht⟩ := h
  rcases List.append_eq_append_iff.mp ht with ⟨a', h1, h2⟩ | ⟨c', h1, h2⟩
  · exact Or.inr ⟨a', h2, ⟨t, h1.symm⟩⟩
  · exact Or.inl ⟨c', h2.symm⟩

/-- **Everything that fits is kept, along a whole run of writes.**  After writing the chunks
    `ds` (each of at most `S` bytes) one after the other, every run of newest chunks — a suffix of
    (old contents ++ ds) — that fits into the requested size `S`, each chunk counted with 16 bytes
    of overhead, is still there. -/
theorem ow_writes_keep_all_that_fit (f : Fifo) (S : Nat) (ds : List (List Nat))
    (hS : S + MARGIN + 1 ≤ 4 * f.W) (hds : ∀ d ∈ ds, d.length ≤ S)
    (s : List (List Nat)) (hs : s <:+ f.q ++ ds)
    (hfit : (s.map (fun c => c.length + 16)).sum ≤ S) :
    s <:+ (f.owRun (ds.map .write)).1.q := by
  induction ds generalizing f s with
  | nil => simpa [Fifo.owRun] using hs
  | cons d ds ih =>
    rw [List.map_cons, owRun_cons]
    simp only
    have hd : d.length ≤ S := hds d List.mem_cons_self
    have hW := owStep_W f (.write d)
    refine ih _ (by rw [hW]; exact hS) (fun d' h' => hds d' (List.mem_cons_of_mem _ h')) _ ?_ hfit
    have hs' : s <:+ (f.q ++ [d]) ++ ds := by simpa using hs
    rcases suffix_append_cases s _ _ hs' with h1 | ⟨s1, rfl, h1⟩
    · obtain ⟨t, ht⟩ := h1
      exact ⟨(f.owStep (.write d)).1.q ++ t, by rw [List.append_assoc, ht]⟩
    · have hfit1 : (s1.map (fun c => c.length + 16)).sum ≤ S := by
        simp only [List.map_append, List.sum_append] at hfit
        omega
      obtain ⟨t, ht⟩ := ow_keeps_all_that_fit f S d hS hd s1 h1 hfit1
      exact ⟨t, by rw [← List.append_assoc, ht]⟩

/-- along a run of writes of at most `S` bytes the contents stay a suffix of (old contents ++
    chunks written) -/
theorem ow_writes_suffix (f : Fifo) (S : Nat) (ds : List (List Nat))
    (hS : S + MARGIN + 1 ≤ 4 * f.W) (hds : ∀ d ∈ ds, d.length ≤ S) :
    (f.owRun (ds.map .write)).1.q <:+ f.q ++ ds := by
  induction ds generalizing f with
  | nil => simp [Fifo.owRun]
  | cons d ds ih =>
    rw [List.map_cons, owRun_cons]
    simp only
    have hd : d.length ≤ S := hds d List.mem_cons_self
    have hW := owStep_W f (.write d)
    obtain ⟨u, hu⟩ := ih (f.owStep (.write d)).1 (by rw [hW]; exact hS)
      (fun d' h' => hds d' (List.mem_cons_of_mem _ h'))
    obtain ⟨k, _, hq, _⟩ := ow_contents_suffix f d (ow_write_succeeds f S d hS hd)
    rw [hq] at hu
    refine ⟨f.q.take k ++ u, ?_⟩
    rw [List.append_assoc, hu, List.append_assoc, ← List.append_assoc, List.take_append_drop]
    simp

/-- … and end with the chunk written last -/
theorem ow_writes_last (f : Fifo) (S : Nat) (ds : List (List Nat)) (d : List Nat)
    (hS : S + MARGIN + 1 ≤ 4 * f.W) (hd : d.length ≤ S) :
    (f.owRun ((ds ++ [d]).map .write)).1.q.getLast? = some d := by
  induction ds generalizing f with
  | nil =>
    show ((f.owStep (.write d)).1).q.getLast? = some d
    exact ow_last_is_newest f d (ow_write_succeeds f S d hS hd)
  | cons d' ds ih =>
    rw [List.cons_append, List.map_cons, owRun_cons]
    simp only
    exact ih _ (by rw [owStep_W]; exact hS)

/-- **The C11 statement on the ring, for a ring that is only written** (the blackbox between two
    dumps): after writing `ds ++ [d]` (each at most `S` bytes) into a ring created by
    `qb_rb_open(S, QB_RB_FLAG_OVERWRITE)`, with or without the semaphore, the chunks stored (the
    ghost queue of the layout invariant; `ow_ring_drain` shows they are what the reader gets)
    are a suffix of the chunks written — the newest `k` in order, byte-identical —, the last one
    is `d` (`k ≥ 1`), and every newest run fitting into `S` with 16 bytes of overhead per chunk
    is among them. -/
theorem ow_ring_keeps_newest (S page : Nat) (useSem : Bool) (hp : 0 < page) (h4 : page % 4 = 0)
    (hbig : roundUp (S + MARGIN + 1) page < 2^31) (ds : List (List Nat)) (d : List Nat)
    (hds : ∀ c ∈ ds ++ [d], c.length ≤ S) :
    ∃ q TR, Inv ((Rb.open S page true useSem).run ((ds ++ [d]).map .write)).1 q TR ∧
      q <:+ ds ++ [d] ∧ q.getLast? = some d ∧
      ∀ s, s <:+ ds ++ [d] → (s.map (fun c => c.length + 16)).sum ≤ S → s <:+ q := by
  obtain ⟨q, TR, hi, he⟩ := run_sim_ow (open_inv S page true useSem hp h4 hbig) rfl ((ds ++ [d]).map .write)
  have hcap : S + MARGIN + 1 ≤ 4 * (absF (Rb.open S page true useSem) []).W :=
    C07.open_capacity S page true useSem hp h4
  have hq : ((absF (Rb.open S page true useSem) []).owRun ((ds ++ [d]).map .write)).1.q = q := by
    rw [he]; rfl
  refine ⟨q, TR, hi, ?_, ?_, ?_⟩
  · have := ow_writes_suffix _ S (ds ++ [d]) hcap hds
    rw [hq] at this
    simpa [absF] using this
  · have := ow_writes_last (absF (Rb.open S page true useSem) []) S ds d hcap
      (hds d (by simp))
    rw [hq] at this
    exact this
  · intro s hs hfit
    have := ow_writes_keep_all_that_fit _ S (ds ++ [d]) hcap hds s (by simpa [absF] using hs) hfit
    rw [hq] at this
    exact this

/-- non-vacuity: S = 38 (W = 13): four writes, the two newest fit (5+16 + 1+16 = 38) -/
example : ∃ q TR, Inv ((Rb.open 38 4 true true).run
      (([[0,0,0,0,0,0,0,0], [1,2,3], [4,5,6,7,8]] ++ [[9]]).map .write)).1 q TR ∧
    q <:+ [[0,0,0,0,0,0,0,0], [1,2,3], [4,5,6,7,8]] ++ [[9]] ∧ q.getLast? = some [9] ∧
    ∀ s, s <:+ [[0,0,0,0,0,0,0,0], [1,2,3], [4,5,6,7,8]] ++ [[9]] →
      (s.map (fun c => c.length + 16)).sum ≤ 38 → s <:+ q :=
  ow_ring_keeps_newest 38 4 true (by decide) (by decide) (by decide) _ _ (by decide)

/-- draining: reading `|q|` times with a large enough buffer returns the queue, oldest first,
    and empties it — without semaphore, or with a notification count of at least `|q|` (which is
    what an overwrite ring has: dropped chunks stay counted) -/
theorem drain_reads_queue (W : Nat) (q : List (List Nat)) (sem : Option Nat) (cap : Nat)
    (hs : ∀ n, sem = some n → q.length ≤ n) (hcap : ∀ c ∈ q, c.length ≤ cap) :
    (Fifo.owRun ⟨W, q, sem⟩ (List.replicate q.length (.read cap))).2 = q.map .data ∧
    (Fifo.owRun ⟨W, q, sem⟩ (List.replicate q.length (.read cap))).1.q = [] := by
  induction q generalizing sem with
  | nil => exact ⟨rfl, rfl⟩
  | cons c cs ih =>
    have hc : ¬ cap < c.length := by have := hcap c List.mem_cons_self; omega
    have hcap' : ∀ c ∈ cs, c.length ≤ cap := fun c hc => hcap c (List.mem_cons_of_mem _ hc)
    cases sem with
    | none =>
      have hstep : Fifo.owStep ⟨W, c :: cs, none⟩ (.read cap) = (⟨W, cs, none⟩, .data c) := by
        show Fifo.step ⟨W, c :: cs, none⟩ (.read cap) = _
        simp [Fifo.step, Fifo.tryWait, hc]
      simp only [List.length_cons, List.replicate_succ, owRun_cons, hstep, List.map_cons]
      have := ih (sem := none) (by intro n hn; cases hn) hcap'
      exact ⟨by rw [this.1], this.2⟩
    | some n =>
      have hn := hs n rfl
      cases n with
      | zero => simp at hn
      | succ m =>
        have hstep : Fifo.owStep ⟨W, c :: cs, some (m+1)⟩ (.read cap) = (⟨W, cs, some m⟩, .data c) := by
          show Fifo.step ⟨W, c :: cs, some (m+1)⟩ (.read cap) = _
          simp [Fifo.step, Fifo.tryWait, hc]
        simp only [List.length_cons, List.replicate_succ, owRun_cons, hstep, List.map_cons]
        have := ih (sem := some m)
          (by intro n hn'; cases hn'; simp only [List.length_cons] at hn; omega) hcap'
        exact ⟨by rw [this.1], this.2⟩

example : (Fifo.owRun ⟨8, [[1], [2,2]], some 5⟩ (List.replicate 2 (.read 9))).2 = [.data [1], .data [2,2]] :=
  (drain_reads_queue 8 [[1], [2,2]] (some 5) 9 (by intro n h; cases h; decide) (by decide)).1

/-! ### two-phase writes in overwrite mode (the blackbox logger's pattern) -/

/-- **Refinement with separate `alloc` / `commit` operations, overwrite mode.**  As
    `C07.fifo_history_alloc_commit`, for a ring opened with QB_RB_FLAG_OVERWRITE: `alloc n` runs
    the drop loop for the *allocated* length `n` (the blackbox reserves header + maximum line
    length), `commit data` appends the `data.length ≤ n` bytes actually used. -/
theorem ow_history_alloc_commit (S page : Nat) (useSem : Bool) (hp : 0 < page) (h4 : page % 4 = 0)
    (hbig : roundUp (S + MARGIN + 1) page < 2^31) (ops : List POp) :
    ((RbP.mk (Rb.open S page true useSem) none).run ops).2
      = ((FifoP.mk (Fifo.init (Rb.open S page true useSem).W useSem) none).run true ops).2 := by
  have hP : PInv (RbP.mk (Rb.open S page true useSem) none) [] 0 :=
    ⟨open_inv S page true useSem hp h4 hbig, by intro n hn; simp at hn⟩
  exact prun_sim hP ops

example :
    ((RbP.mk (Rb.open 19 16 true true) none).run
      [.alloc 16, .commit [1,1,1,1,1], .alloc 16, .commit [2], .alloc 16, .base (.read 100), .commit [3,3],
       .base (.read 100), .base (.read 100), .base (.read 100)]).2
    = ((FifoP.mk (Fifo.init (Rb.open 19 16 true true).W true) none).run true
      [.alloc 16, .commit [1,1,1,1,1], .alloc 16, .commit [2], .alloc 16, .base (.read 100), .commit [3,3],
       .base (.read 100), .base (.read 100), .base (.read 100)]).2 :=
  ow_history_alloc_commit 19 16 true (by decide) (by decide) (by decide) _

/-- an allocation of at most the requested size always succeeds in overwrite mode (it may drop
    old chunks), whatever the notification count -/
theorem ow_alloc_succeeds (f : Fifo) (S n : Nat) (hS : S + MARGIN + 1 ≤ 4 * f.W) (hn : n ≤ S) :
    ∃ q', q' <:+ f.q ∧ FifoP.step true ⟨f, none⟩ (.alloc n) = some (⟨⟨f.W, q', f.sem⟩, some n⟩, .unit) := by
  have hok := owDrop_true f.W S n f.q hS hn
  obtain ⟨k, _, h1, _⟩ := owDrop_spec f.W n f.q
  simp only [FifoP.step]
  revert hok h1
  rcases owDrop f.W n f.q with ⟨q', ok⟩
  intro hok h1
  simp only at h1
  cases ok with
  | false => simp at hok
  | true => exact ⟨q', by rw [h1]; exact List.drop_suffix k f.q, by simp⟩

example : ∃ q', q' <:+ [[1,2,3], [4,5,6,7,8]] ∧
    FifoP.step true ⟨⟨8, [[1,2,3], [4,5,6,7,8]], some 4⟩, none⟩ (.alloc 19) = some (⟨⟨8, q', some 4⟩, some 19⟩, .unit) :=
  ow_alloc_succeeds ⟨8, [[1,2,3], [4,5,6,7,8]], some 4⟩ 19 19 (by decide) (by decide)

/-- the blackbox logger's op pattern (`_blackbox_vlogger`): reserve `n` bytes, commit the record `d` -/
def bbOps : List (Nat × List Nat) → List POp
  | [] => []
  | (n, d) :: ps => .alloc n :: .commit d :: bbOps ps

theorem bb_step_pair (f : Fifo) (S n : Nat) (d : List Nat) (hS : S + MARGIN + 1 ≤ 4 * f.W)
    (hn : n ≤ S) (hd : d.length ≤ n) (rest : List POp) :
    ∃ q', q' <:+ f.q ∧
      (FifoP.mk f none).run true (.alloc n :: .commit d :: rest) =
        (((FifoP.mk ⟨f.W, q' ++ [d], f.sem.map (· + 1)⟩ none).run true rest).1,
         some .unit :: some (.num 0) :: ((FifoP.mk ⟨f.W, q' ++ [d], f.sem.map (· + 1)⟩ none).run true rest).2) := by
  obtain ⟨q', hq, hst⟩ := ow_alloc_succeeds f S n hS hn
  refine ⟨q', hq, ?_⟩
  have hc : FifoP.step true ⟨⟨f.W, q', f.sem⟩, some n⟩ (.commit d)
      = some (⟨⟨f.W, q' ++ [d], f.sem.map (· + 1)⟩, none⟩, .num 0) := by
    simp [FifoP.step, hd, Fifo.post]
  simp only [FifoP.run, hst, hc]

/-- **Blackbox clause, on the overwrite FIFO with reserve/commit writes** (to which the ring is
    refined by `ow_history_alloc_commit`): after any number of records logged as "reserve `n`
    (at most the configured size), commit the `d.length ≤ n` bytes used", nothing is left
    reserved, the stored records are an unbroken run of the latest records logged — a suffix of
    (old contents ++ records), in order, byte-identical — and the run ends with the very last
    record.  A dump (`qb_rb_write_to_file`) is a copy of exactly this state. -/
theorem bb_dump_is_latest_run (f : Fifo) (S : Nat) (ps : List (Nat × List Nat))
    (hS : S + MARGIN + 1 ≤ 4 * f.W) (hps : ∀ p ∈ ps, p.2.length ≤ p.1 ∧ p.1 ≤ S) :
    ((FifoP.mk f none).run true (bbOps ps)).1.pend = none ∧
    ((FifoP.mk f none).run true (bbOps ps)).1.f.q <:+ f.q ++ ps.map (·.2) ∧
    (∀ p, ps.getLast? = some p → ((FifoP.mk f none).run true (bbOps ps)).1.f.q.getLast? = some p.2) := by
  induction ps generalizing f with
  | nil => simp [bbOps, FifoP.run]
  | cons p ps ih =>
    obtain ⟨n, d⟩ := p
    have hp := hps (n, d) List.mem_cons_self
    obtain ⟨q', hq', hrun⟩ := bb_step_pair f S n d hS hp.2 hp.1 (bbOps ps)
    simp only [bbOps, hrun]
    obtain ⟨h1, h2, h3⟩ := ih ⟨f.W, q' ++ [d], f.sem.map (· + 1)⟩ hS
      (fun p h => hps p (List.mem_cons_of_mem _ h))
    refine ⟨h1, ?_, ?_⟩
    · obtain ⟨u, hu⟩ := h2
      obtain ⟨v, hv⟩ := hq'
      refine ⟨v ++ u, ?_⟩
      simp only [List.map_cons] at hu ⊢
      rw [List.append_assoc, hu, ← hv]
      simp
    · intro p hp'
      cases ps with
      | nil =>
        simp only [List.getLast?_singleton, Option.some.injEq] at hp'
        subst hp'
        simp [bbOps, FifoP.run]
      | cons p2 ps2 =>
        apply h3
        simpa using hp'

/-- non-vacuity: W = 13, three records reserved with 16 bytes each, 2–5 bytes used -/
example : ((FifoP.mk ⟨13, [], some 0⟩ none).run true
      (bbOps [(16, [1,1]), (16, [2,2,2,2,2]), (16, [3,3,3])])).1.f.q.getLast? = some [3,3,3] :=
  (bb_dump_is_latest_run ⟨13, [], some 0⟩ 38 [(16, [1,1]), (16, [2,2,2,2,2]), (16, [3,3,3])]
    (by decide) (by decide)).2.2 _ rfl

/-! ### defect D31: the code before the repair (model-level refutation witness) -/

/-- Two 16-byte writes into a 32-byte overwrite ring *with* semaphore (`open 19`, page 16), then
    a 1-byte write; results of the second and third write.  `owFix = false` is
    `qb_rb_space_free` before the repair (with `read_pt == write_pt` a positive notification
    count means "full", also in overwrite mode). -/
def d31History (owFix : Bool) : Out × Out :=
  let r0 := Rb.open 19 16 true true
  let r1 := (r0.writeGen true owFix (List.replicate 16 1)).1
  let w2 := r1.writeGen true owFix (List.replicate 16 2)
  let w3 := w2.1.writeGen true owFix [3]
  let out : Except Err Nat → Out := fun | .ok n => .wrote n | .error e => .err e
  (out w2.2, out w3.2)

/-- **Model-level witness of defect D31.**  Before the repair, an overwriting write that has
    to drop the last remaining chunk fails with EINVAL (the emptied ring is taken for full
    because the dropped chunk's notification is still counted), the old contents are gone, and
    every later write fails too; with the repair both writes succeed (`ow_write_succeeds`).
    The same history against the real code: `corpus/C11/d31-sem-overcount.ops`. -/
theorem ow_sem_overcount_witness :
    d31History false = (.err .einval, .err .einval) ∧ d31History true = (.wrote 16, .wrote 1) := by
  decide +kernel

end QbVerif.Props.C11
