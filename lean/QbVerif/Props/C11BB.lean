/-
C11, second sentence, on the model of the blackbox layer (`Model/Blackbox.lean`):
"For the logging blackbox this means that a dump taken at any moment contains an unbroken run of
the latest log records ending with the very last one."

* `bb_record_within_reservation`  what `_blackbox_vlogger` commits is never more than it reserved
                                  (C14's `ser_within_max` bound) — for the code as it is (defect D32
                                  repaired), and for the code before the repair if `max_line_length ≥ 78`
* `bb_too_long_overcommit_witness` defect D32: the code before the repair, `max_line_length = 4`;
  `bb_too_long_after_repair`      the same call with the code as it is
* `bb_log_refines_reserve_commit` one log call = `alloc (reservation)` + `commit (record)`
* `bb_history`                    a history of log calls = the reserve/commit FIFO run on `bbOps`
* `bb_run_keeps_fit`              reserve/commit FIFO: every newest run whose RESERVATIONS fit is kept
* `bb_dump_latest_run`            the dump taken after any history, printed by
                                  `qb_log_blackbox_print_from_file` (C15's `dump_roundtrip`)
-/
import QbVerif.Lemmas.BlackboxRing
import QbVerif.Lemmas.BlackboxSer
import QbVerif.Props.C11BBFit
import QbVerif.Props.C15

namespace QbVerif.Props.C11
open QbVerif.Ring QbVerif.RingSpec QbVerif.RingLemmas QbVerif.Blackbox QbVerif.BlackboxLemmas

/-- the configurations for which the "too long" text fits the reservation: the code as it is
    (`fixD32 = true`), or — before the repair — a line limit of at least the 78 bytes of that text -/
def TooLongFits (e : Env) (maxLine : Nat) : Prop := e.fixD32 = true ∨ 78 ≤ maxLine

theorem serMessage_facts (e : Env) (maxLine : Nat) (c : Call) (hser : e.ser.strRoom = true) (hm : 1 ≤ maxLine)
    (htl : TooLongFits e maxLine) :
    (serMessage e maxLine c).len ≤ maxLine ∧ (serMessage e maxLine c).bytes.length = (serMessage e maxLine c).len ∧
      (serMessage e maxLine c).scratch.length ≤ maxLine := by
  have h1 := serStores_le e.ser hser c.fmt c.args maxLine hm
  have hb1 := ser_bytes_length e.ser hser c.fmt c.args maxLine hm
  have hbound : 1 ≤ tooLongBound e maxLine := by
    unfold tooLongBound; split
    · simp only [Gen.BBX_LOG_MAX_LEN]; omega
    · simp [Gen.BBX_LOG_MAX_LEN]
  have h2 := serStores_le e.ser hser TOO_LONG c.args (tooLongBound e maxLine) hbound
  have hb2 := ser_bytes_length e.ser hser TOO_LONG c.args (tooLongBound e maxLine) hbound
  have hr2 := ser_ret_le e.ser hser TOO_LONG c.args (tooLongBound e maxLine) hbound
  have hle : (Ser.serialize e.ser TOO_LONG c.args (tooLongBound e maxLine)).ret ≤ maxLine ∧
      (serStores e.ser TOO_LONG c.args (tooLongBound e maxLine)).length ≤ maxLine := by
    by_cases hf : e.fixD32 = true
    · have : tooLongBound e maxLine ≤ maxLine := by unfold tooLongBound; simp [hf]; omega
      omega
    · have h78 : 78 ≤ maxLine := by rcases htl with h | h; exact absurd h hf; exact h
      have hb : tooLongBound e maxLine = Gen.BBX_LOG_MAX_LEN := by unfold tooLongBound; simp [hf]
      rw [hb] at h2 ⊢
      rw [tooLong_ret]
      refine ⟨h78, ?_⟩
      -- the stores of the text: at most hi ≤ … ; use the exact value through the return value
      have := tooLong_stores e.ser c.args
      omega
  unfold serMessage
  simp only
  split
  · simp only [ofBytes, List.length_map, List.length_append, List.length_drop]
    refine ⟨hle.1, hb2, ?_⟩
    omega
  · rename_i hlt
    simp only [ofBytes, List.length_map]
    exact ⟨by omega, hb1, h1⟩

theorem record_length (e : Env) (maxLine : Nat) (c : Call) :
    (record e maxLine c).length = actualBase c + (serMessage e maxLine c).bytes.length := by
  simp only [record, Dump.encodeRecord, recOf, actualBase, fnSize, Dump.toLe32, Dump.toLe64, List.length_append,
    List.length_cons, List.length_nil, if_true, Gen.BBX_SIZEOF_U32, Gen.BBX_SIZEOF_U8, Gen.BBX_SIZEOF_TIMESPEC]
  omega

theorem recHead_length (c : Call) (n : Nat) : (recHead c ++ Dump.toLe32 n).length = actualBase c := by
  simp only [recHead, actualBase, fnSize, Dump.toLe32, Dump.toLe64, List.length_append,
    List.length_cons, List.length_nil, Gen.BBX_SIZEOF_U32, Gen.BBX_SIZEOF_U8, Gen.BBX_SIZEOF_TIMESPEC]
  omega

/-- **What is committed is never more than was reserved.**  For every call, every line limit
    `max_line_length ≥ 1` (resp. message bound `lim`, see `effLimit`) and every encoder with the `%s` room check: the record `_blackbox_vlogger`
    commits has `actual_size + msg_len` bytes with `msg_len ≤ max_line_length`, i.e. at most the
    `max_size` it passed to `qb_rb_chunk_alloc` (C14's `ser_within_max` bound, used for both calls
    of the encoder) — provided the fixed "too long" text fits: with the repair of D32, or
    `max_line_length ≥ 78`. -/
theorem bb_record_within_reservation (e : Env) (lim : Nat) (c : Call) (hser : e.ser.strRoom = true)
    (hm : 1 ≤ lim) (htl : TooLongFits e lim) :
    (record e lim c).length = actualBase c + (serMessage e lim c).len ∧
      (record e lim c).length ≤ maxSize lim c := by
  obtain ⟨h1, h2, _⟩ := serMessage_facts e lim c hser hm htl
  rw [record_length, h2]
  exact ⟨rfl, by unfold maxSize; omega⟩

/-- a call whose message does not fit with `max_line_length = 4` -/
def d32Call : Call :=
  { lineno := 1, tags := 0, prio := 6, fn := [109], fmt := [97, 98, 99, 100, 101, 102, 103, 104], args := [], sec := 0, nsec := 0 }

/-- **Model-level witness of defect D32** (`_blackbox_vlogger` before the repair in /repo 262ac0b,
    `fixD32 = false`): with QB_LOG_CONF_MAX_LINE_LEN = 4 a message that does not fit was replaced by
    the 78-byte "too long" record, serialised with `QB_LOG_MAX_LEN` as its bound: 39 bytes were
    reserved, 113 committed.  Real code: corpus/C11/d32-too-long-bound.ops (passes now). -/
theorem bb_too_long_overcommit_witness :
    maxSize 4 d32Call = 39 ∧
    (record ⟨4096, Ser.Cfg.repaired, false, false⟩ 4 d32Call).length = 113 := by
  decide +kernel

/-- … and with the code as it is the record of the same call has the 39 bytes reserved: the
    "too long" text is cut to the line limit (`msg_len = 4`: "Log" and its NUL). -/
theorem bb_too_long_after_repair :
    (record ⟨4096, Ser.Cfg.repaired, true, false⟩ 4 d32Call).length = 39 ∧
    (serMessage ⟨4096, Ser.Cfg.repaired, true, false⟩ 4 d32Call).bytes = [76, 111, 103, 0] := by
  decide +kernel

/-- a call with a 600-byte string argument (`"%s"`) -/
def d33Call : Call :=
  { lineno := 2, tags := 0, prio := 6, fn := [109], fmt := [37, 115], args := [.str (some (List.replicate 600 109))],
    sec := 0, nsec := 0 }

/-- outcome of the printer's record checks (`Dump.parseRecord`, repaired printer, new-format dump) on
    a chunk: `.inl m` = "msg_len out of bounds m", `.inr (some m)` = accepted with `msg_len = m` -/
def printerCheck (chunk : List Nat) : Nat ⊕ Option Nat :=
  match Dump.parseRecord (Dump.Cfg.repaired 4096) true (chunk ++ List.replicate (Dump.CHUNK_BUF - chunk.length) 0) chunk.length with
  | .error (some (.msgLen m)) => .inl m
  | .ok fl => .inr (some fl.mlen)
  | _ => .inr none

/-- **Model-level witness of defect D33** (`_blackbox_vlogger` as it is, `fixD33 = false`): under
    QB_LOG_CONF_MAX_LINE_LEN = 4096 the 600-byte message is stored with `msg_len = 604`, and the
    record checks of `qb_log_blackbox_print_from_file` (`Dump.parseRecord`, C15's model) reject the
    chunk with "ERROR Corrupt file: msg_len out of bounds 604" — the printer stops there, so this
    record and every later one are missing from the printed dump.  With the proposed repair
    (fixes/D33-blackbox-message-limit.patch, `fixD33 = true`) the record carries the 78-byte
    "too long" text and passes the checks.  Real code: corpus/C11/pending-d33/d33-long-message.ops. -/
theorem bb_long_message_rejected_witness :
    (serMessage ⟨4096, Ser.Cfg.repaired, true, false⟩ (effLimit ⟨4096, Ser.Cfg.repaired, true, false⟩ 4096) d33Call).len = 604 ∧
    printerCheck (record ⟨4096, Ser.Cfg.repaired, true, false⟩ (effLimit ⟨4096, Ser.Cfg.repaired, true, false⟩ 4096) d33Call)
      = .inl 604 ∧
    (serMessage ⟨4096, Ser.Cfg.repaired, true, true⟩ (effLimit ⟨4096, Ser.Cfg.repaired, true, true⟩ 4096) d33Call).len = 78 ∧
    printerCheck (record ⟨4096, Ser.Cfg.repaired, true, true⟩ (effLimit ⟨4096, Ser.Cfg.repaired, true, true⟩ 4096) d33Call)
      = .inr (some 78) := by
  decide +kernel

/-- **With the repair of D33 no record carries a message the printer rejects**: for every call and
    line limit, `msg_len ≤ QB_LOG_MAX_LEN` (and `≥ 1` is C14's: the format's NUL is always stored). -/
theorem bb_msg_len_le_log_max (e : Env) (ml : Nat) (c : Call) (hser : e.ser.strRoom = true) (hm : 1 ≤ ml)
    (hfix : e.fixD32 = true) (h33 : e.fixD33 = true) :
    (serMessage e (effLimit e ml) c).len ≤ Gen.BBX_LOG_MAX_LEN := by
  have hpos : 1 ≤ effLimit e ml := by
    unfold effLimit; simp only [h33, if_true, Gen.BBX_LOG_MAX_LEN]; omega
  have h := (serMessage_facts e (effLimit e ml) c hser hpos (Or.inl hfix)).1
  have : effLimit e ml ≤ Gen.BBX_LOG_MAX_LEN := by
    unfold effLimit; simp only [h33, if_true]; exact Nat.min_le_right _ _
  omega

/-- **One log call = `alloc (reservation)` + `commit (actual)`, actual ≤ reservation.**  See
    `BlackboxLemmas.vlogger_alloc_commit`; here its size hypotheses are discharged. -/
theorem bb_log_refines_reserve_commit (e : Env) (t : Target) (c : Call) (rb : Rb) (q : List (List Nat)) (TR : Nat)
    (hinst : t.inst = some rb) (hinv : Inv rb q TR) (how : rb.ow = true) (hser : e.ser.strRoom = true)
    (hm : 1 ≤ (msgLimit e t)) (hfix : e.fixD32 = true) :
    (record e (msgLimit e t) c).length ≤ maxSize (msgLimit e t) c ∧
    ∃ s1 o, FifoP.step true ⟨absF rb q, none⟩ (.alloc (maxSize (msgLimit e t) c)) = some (s1, o) ∧
      (s1.pend = none → (vlogger e t c).inst = none) ∧
      (s1.pend = some (maxSize (msgLimit e t) c) → ∃ rb' TR', (vlogger e t c).inst = some rb' ∧
        Inv rb' (s1.f.q ++ [record e (msgLimit e t) c]) TR' ∧ rb'.ow = true ∧
        FifoP.step true s1 (.commit (record e (msgLimit e t) c))
          = some (⟨absF rb' (s1.f.q ++ [record e (msgLimit e t) c]), none⟩, .num 0)) ∧
      (s1.pend = none ∨ s1.pend = some (maxSize (msgLimit e t) c)) := by
  have htl : TooLongFits e (msgLimit e t) := Or.inl hfix
  obtain ⟨h1, h2⟩ := bb_record_within_reservation e (msgLimit e t) c hser hm htl
  obtain ⟨_, _, h5⟩ := serMessage_facts e (msgLimit e t) c hser hm htl
  refine ⟨h2, vlogger_alloc_commit e t c rb q TR hinst hinv how h1 ?_ h2⟩
  rw [List.length_append, recHead_length]
  unfold maxSize
  omega

theorem vlogger_cfg (e : Env) (t : Target) (c : Call) :
    (vlogger e t c).size = t.size ∧ (vlogger e t c).maxLine = t.maxLine := by
  unfold vlogger
  split
  · exact ⟨rfl, rfl⟩
  · simp only
    split <;> exact ⟨rfl, rfl⟩

theorem vlogger_limit (e : Env) (t : Target) (c : Call) : msgLimit e (vlogger e t c) = msgLimit e t := by
  unfold msgLimit
  rw [(vlogger_cfg e t c).2]

theorem effLimit_pos (e : Env) (ml : Nat) (h : 1 ≤ ml) : 1 ≤ effLimit e ml := by
  unfold effLimit
  split
  · simp only [Gen.BBX_LOG_MAX_LEN]; omega
  · exact h

/-- reservation and record of every call of a history under line limit `ml` -/
def pairsOf (e : Env) (ml : Nat) (cs : List Call) : List (Nat × List Nat) :=
  cs.map (fun c => (actualBase c + ml, record e ml c))

/-- **A history of log calls = the reserve/commit FIFO run on `bbOps`.**  Blackbox of configured
    size `S` (its ring has room for `S`, as `qb_rb_open` guarantees), message bound `ml`, every
    reservation at most `S`: after any history the blackbox still has its ring, the ring invariant
    holds, and the ring's contents are those of the FIFO after `alloc n₁, commit d₁, alloc n₂, …`. -/
theorem bb_history (e : Env) (S ml : Nat) (cs : List Call) (t : Target) (rb : Rb) (q : List (List Nat)) (TR : Nat)
    (hS : t.size = S) (hml : msgLimit e t = ml)
    (hinst : t.inst = some rb) (hinv : Inv rb q TR) (how : rb.ow = true) (hser : e.ser.strRoom = true)
    (hm : 1 ≤ ml) (hfix : e.fixD32 = true) (hcap : S + MARGIN + 1 ≤ 4 * rb.W)
    (hres : ∀ c ∈ cs, actualBase c + ml ≤ S) :
    ∃ rb' q' TR', (logAll e t cs).inst = some rb' ∧ Inv rb' q' TR' ∧ rb'.ow = true ∧ rb'.W = rb.W ∧
      ((FifoP.mk (absF rb q) none).run true (bbOps (pairsOf e ml cs))).1 = ⟨absF rb' q', none⟩ := by
  induction cs generalizing t rb q TR with
  | nil => exact ⟨rb, q, TR, hinst, hinv, how, rfl, rfl⟩
  | cons c cs ih =>
    subst hml
    obtain ⟨hfit, s1, o, hst1, _, hsome, _⟩ := bb_log_refines_reserve_commit e t c rb q TR hinst hinv how hser hm hfix
    have hn : maxSize (msgLimit e t) c ≤ S := hres c List.mem_cons_self
    obtain ⟨q0, _, hst1'⟩ := ow_alloc_succeeds (absF rb q) S (maxSize (msgLimit e t) c) hcap hn
    rw [hst1'] at hst1
    simp only [Option.some.injEq, Prod.mk.injEq] at hst1
    obtain ⟨hs1, _⟩ := hst1
    subst hs1
    obtain ⟨rb', TR', hinst', hinv', how', hst2⟩ := hsome rfl
    simp only at hinv' hst2
    have hc : FifoP.step true ⟨⟨(absF rb q).W, q0, (absF rb q).sem⟩, some (maxSize (msgLimit e t) c)⟩ (.commit (record e (msgLimit e t) c))
        = some (⟨⟨(absF rb q).W, q0 ++ [record e (msgLimit e t) c], (absF rb q).sem.map (· + 1)⟩, none⟩, .num 0) := by
      simp [FifoP.step, hfit, Fifo.post]
    have hW : rb'.W = rb.W := by
      rw [hc] at hst2
      simp only [Option.some.injEq, Prod.mk.injEq, FifoP.mk.injEq, and_true] at hst2
      have := congrArg Fifo.W hst2
      simpa [absF] using this.symm
    obtain ⟨hsz, _⟩ := vlogger_cfg e t c
    have hmx := vlogger_limit e t c
    obtain ⟨rb2, q2, TR2, h1, h2, h3, h4, h5⟩ := ih (vlogger e t c) rb' _ TR' (by rw [hsz, hS]) hmx hinst' hinv' how'
      (by rw [hW]; exact hcap) (fun c' hc' => hres c' (List.mem_cons_of_mem _ hc'))
    refine ⟨rb2, q2, TR2, h1, h2, h3, by rw [h4, hW], ?_⟩
    have hp : pairsOf e (msgLimit e t) (c :: cs) = (maxSize (msgLimit e t) c, record e (msgLimit e t) c) :: pairsOf e (msgLimit e t) cs := rfl
    rw [hp]
    simp only [bbOps, FifoP.run, hst1', hst2]
    exact h5

theorem roundUp_mod (x page : Nat) : roundUp x page % page = 0 := by
  unfold roundUp
  exact Nat.mul_mod_left _ _

/-- **C11, blackbox sentence, on the model of the blackbox layer.**
    For every configuration — size `≥ 1024` accepted by `qb_log_blackbox_open`, page size, line
    limit `ml ≥ 1` (`qb_log_ctl2` admits 4 … 4096), every encoder with the `%s` room check, the
    logger as it is (defect D32 repaired; with or without the proposed repair of D33, which only
    changes the message bound `effLimit e ml`) — and every history `cs` of log calls whose
    reservations `33 + fn_size + effLimit e ml` do not exceed the size: at the end (= at any moment: every prefix of a
    history is a history) the blackbox still has its ring; the ring holds chunks `q` with
    * `q` is a suffix of the records logged, in order, byte-identical (an unbroken run of the
      latest records),
    * ending with the record of the very last call,
    * containing every newest run of records whose reservations, 16 bytes of overhead each, fit
      into the configured size;
    and the dump file `qb_log_blackbox_write_to_file` writes — marker block + `qb_rb_write_to_file` —,
    read back by `qb_log_blackbox_print_from_file` (`qb_rb_create_from_file` + the print loop,
    C15's `dump_roundtrip`), prints exactly the chunks `q`, oldest first. -/
theorem bb_dump_latest_run {σ : Type} (e : Env) (size ml : Nat) (cs : List Call) (D : Dump.Decoder σ) (s : σ)
    (hp : 0 < e.page) (h4 : e.page % 4 = 0) (hbig : roundUp (size + MARGIN + 1) e.page < 2 ^ 31)
    (hser : e.ser.strRoom = true) (hm : 1 ≤ ml) (hfix : e.fixD32 = true) (hsize : MIN_SIZE ≤ size)
    (hres : ∀ c ∈ cs, actualBase c + effLimit e ml ≤ size) :
    ∃ rb q TR, (logAll e (bbOpen e ⟨size, ml, none⟩).1 cs).inst = some rb ∧ Inv rb q TR ∧
      q <:+ cs.map (record e (effLimit e ml)) ∧
      (∀ c, cs.getLast? = some c → q.getLast? = some (record e (effLimit e ml) c)) ∧
      (∀ s', s' <:+ cs → (s'.map (fun c => actualBase c + effLimit e ml + 16)).sum ≤ size → s'.map (record e (effLimit e ml)) <:+ q) ∧
      writeToFile (logAll e (bbOpen e ⟨size, ml, none⟩).1 cs) = (((Dump.dump true rb).length : Int), Dump.dump true rb) ∧
      Dump.printFromFile (Dump.Cfg.repaired e.page) D s (writeToFile (logAll e (bbOpen e ⟨size, ml, none⟩).1 cs)).2 =
        DumpLemmas.printChunks (Dump.Cfg.repaired e.page) true D s q
          (List.replicate Dump.CHUNK_BUF (Dump.Cfg.repaired e.page).fill) [] := by
  have hopen : (bbOpen e ⟨size, ml, none⟩).1 = ⟨size, ml, some (Rb.open size e.page true true)⟩ := by
    unfold bbOpen
    simp only [rbOpen]
    rw [if_neg (by omega)]
  rw [hopen]
  have htl : TooLongFits e (effLimit e ml) := Or.inl hfix
  have hm' := effLimit_pos e ml hm
  have hinv0 := open_inv size e.page true true hp h4 hbig
  have hcap := C07.open_capacity size e.page true true hp h4
  obtain ⟨rb, q, TR, hinst, hinv, _, hW, hrun⟩ := bb_history e size (effLimit e ml) cs ⟨size, ml, some (Rb.open size e.page true true)⟩
    (Rb.open size e.page true true) [] 0 rfl rfl rfl hinv0 rfl hser hm' hfix hcap hres
  have hps : ∀ p ∈ pairsOf e (effLimit e ml) cs, p.2.length ≤ p.1 ∧ p.1 ≤ size := by
    intro p hp'
    simp only [pairsOf, List.mem_map] at hp'
    obtain ⟨c, hc, rfl⟩ := hp'
    exact ⟨(bb_record_within_reservation e (effLimit e ml) c hser hm' htl).2, hres c hc⟩
  obtain ⟨_, hsuf, hlast⟩ := bb_dump_is_latest_run (absF (Rb.open size e.page true true) []) size (pairsOf e (effLimit e ml) cs) hcap hps
  rw [hrun] at hsuf hlast
  have hmap : (pairsOf e (effLimit e ml) cs).map (·.2) = cs.map (record e (effLimit e ml)) := by
    simp [pairsOf, List.map_map, Function.comp_def]
  refine ⟨rb, q, TR, hinst, hinv, ?_, ?_, ?_, ?_, ?_⟩
  · simpa [absF, hmap] using hsuf
  · intro c hc
    have : (pairsOf e (effLimit e ml) cs).getLast? = some (actualBase c + effLimit e ml, record e (effLimit e ml) c) := by
      simp [pairsOf, List.getLast?_map, hc]
    simpa [absF] using hlast _ this
  · intro s' hs' hfit
    have hk := bb_run_keeps_fit (absF (Rb.open size e.page true true) []) size (pairsOf e (effLimit e ml) cs) hcap hps [] rfl
      (by intro p hp; cases hp) (pairsOf e (effLimit e ml) s') (by simpa [pairsOf] using hs'.map _)
      (by simpa [pairsOf, List.map_map, Function.comp_def] using hfit)
    rw [hrun] at hk
    simpa [absF, pairsOf, List.map_map, Function.comp_def] using hk
  · simp [writeToFile, hinst]
  · have hwf : (writeToFile (logAll e ⟨size, ml, some (Rb.open size e.page true true)⟩ cs)).2 = Dump.dump true rb := by
      simp [writeToFile, hinst]
    rw [hwf]
    have h4W : 4 * rb.W = roundUp (size + MARGIN + 1) e.page := by
      rw [hW]; exact open_W_mul4 size e.page true true h4
    refine C15.dump_roundtrip e.page hp D s true rb q TR hinv (by rw [h4W]; exact roundUp_mod _ _) ?_
    have : Dump.CHUNK_BUF = 1024 := by decide
    rw [this, hW]
    unfold MIN_SIZE at hsize
    omega

/-- non-vacuity: size 1024, line limit 4 (below the "too long" text), two calls whose messages do not fit -/
example : ∃ rb q TR, (logAll ⟨4096, Ser.Cfg.repaired, true, false⟩ (bbOpen ⟨4096, Ser.Cfg.repaired, true, false⟩ ⟨1024, 4, none⟩).1
      [d32Call, { d32Call with lineno := 2 }]).inst = some rb ∧ Inv rb q TR ∧
    q <:+ [d32Call, { d32Call with lineno := 2 }].map (record ⟨4096, Ser.Cfg.repaired, true, false⟩ 4) ∧
    (∀ c, [d32Call, { d32Call with lineno := 2 }].getLast? = some c → q.getLast? = some (record ⟨4096, Ser.Cfg.repaired, true, false⟩ 4 c)) := by
  obtain ⟨rb, q, TR, h1, h2, h3, h4, _⟩ := bb_dump_latest_run (σ := Unit) ⟨4096, Ser.Cfg.repaired, true, false⟩ 1024 4
    [d32Call, { d32Call with lineno := 2 }] ⟨fun s _ => (s, ⟨[], 1⟩)⟩ () (by decide) (by decide) (by decide) rfl (by decide)
    rfl (by decide) (by decide)
  exact ⟨rb, q, TR, h1, h2, h3, h4⟩

end QbVerif.Props.C11
