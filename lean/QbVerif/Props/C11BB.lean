/-
C11, second sentence, on the model of the blackbox layer (`Model/Blackbox.lean`):
"For the logging blackbox this means that a dump taken at any moment contains an unbroken run of
the latest log records ending with the very last one."

* `bb_record_within_reservation`  what `_blackbox_vlogger` commits is never more than it reserved
                                  (C14's `ser_within_max` bound) — with the repair of defect D32, or
                                  for `max_line_length ≥ 78`
* `bb_too_long_overcommit_witness` defect D32: the code as it is, `max_line_length = 4`
* `bb_log_refines_reserve_commit` one log call = `alloc (reservation)` + `commit (record)`
* `bb_history`                    a history of log calls = the reserve/commit FIFO run on `bbOps`
* `bb_dump_latest_run`            the dump taken after any history, printed by
                                  `qb_log_blackbox_print_from_file` (C15's `dump_roundtrip`)
-/
import QbVerif.Lemmas.BlackboxRing
import QbVerif.Lemmas.BlackboxSer
import QbVerif.Props.C11Hist
import QbVerif.Props.C15

namespace QbVerif.Props.C11
open QbVerif.Ring QbVerif.RingSpec QbVerif.RingLemmas QbVerif.Blackbox QbVerif.BlackboxLemmas

/-- the configurations for which the "too long" text fits the reservation -/
def TooLongFits (e : Env) (maxLine : Nat) : Prop := e.fixD32 = true ∨ 78 ≤ maxLine

theorem serMessage_facts (e : Env) (maxLine : Nat) (c : Call) (hser : e.ser.strRoom = true) (hm : 1 ≤ maxLine)
    (htl : TooLongFits e maxLine) :
    (serMessage e maxLine c).len ≤ maxLine ∧ (serMessage e maxLine c).bytes.length = (serMessage e maxLine c).len ∧
      (serMessage e maxLine c).scratch.length ≤ maxLine := by
  have h1 := serStores_le e.ser hser c.fmt c.args maxLine hm
  have hb1 := ser_bytes_length e.ser hser c.fmt c.args maxLine hm
  have hbound : 1 ≤ tooLongBound e maxLine := by
    unfold tooLongBound; split
    · simp only [Gen.BBX_LOG_MAX_LEN]; omega
    · simp [Gen.BBX_LOG_MAX_LEN]
  have h2 := serStores_le e.ser hser TOO_LONG c.args (tooLongBound e maxLine) hbound
  have hb2 := ser_bytes_length e.ser hser TOO_LONG c.args (tooLongBound e maxLine) hbound
  have hr2 := ser_ret_le e.ser hser TOO_LONG c.args (tooLongBound e maxLine) hbound
  have hle : (Ser.serialize e.ser TOO_LONG c.args (tooLongBound e maxLine)).ret ≤ maxLine ∧
      (serStores e.ser TOO_LONG c.args (tooLongBound e maxLine)).length ≤ maxLine := by
    by_cases hf : e.fixD32 = true
    · have : tooLongBound e maxLine ≤ maxLine := by unfold tooLongBound; simp [hf]; omega
      omega
    · have h78 : 78 ≤ maxLine := by rcases htl with h | h; exact absurd h hf; exact h
      have hb : tooLongBound e maxLine = Gen.BBX_LOG_MAX_LEN := by unfold tooLongBound; simp [hf]
      rw [hb] at h2 ⊢
      rw [tooLong_ret]
      refine ⟨h78, ?_⟩
      -- the stores of the text: at most hi ≤ … ; use the exact value through the return value
      have := tooLong_stores e.ser c.args
      omega
  unfold serMessage
  simp only
  split
  · simp only [ofBytes, List.length_map, List.length_append, List.length_drop]
    refine ⟨hle.1, hb2, ?_⟩
    omega
  · rename_i hlt
    simp only [ofBytes, List.length_map]
    exact ⟨by omega, hb1, h1⟩

end QbVerif.Props.C11
