/-
Property C02 — IPC: requests, responses and events arrive exactly once, in order, intact
(DESIGN.md section 3, C02).

Model: `QbVerif/Model/Ipc.lean` (one established connection of lib/ipcc.c + lib/ipcs.c over
lib/ipc_shm.c or lib/ipc_socket.c; `sizeChecks = true` is the code as it is, with the repair D60).
All theorems quantify over EVERY action sequence `acts` from EVERY initial connection
(transport, negotiated maximum, page size): actions that are not enabled are skipped by
`St.run`, so "every list of actions" is every burst pattern, every relative speed of client and
server, every kernel verdict on a datagram send, every capacity of the notification socket
(`netCapReq` / `netCapEvt`) and every rate-limit toggle (`sRateLimit`) at every point.

* `req_/resp_/evt_exactly_once_in_order`: delivered is a prefix of accepted, and the rest is
  exactly what is still queued; `…_eventually`: once the channel is empty, delivered = accepted;
  `…_trace_exactly_once`: the same about the observable run (messages handed over by
  `msg_process` / the receive calls vs. messages whose send call reported success).
* `failed_…_no_effect`, `oversize_…`, `flow_control_refuses`: a refused send changes nothing.
* `notify_conservation`, `readable_when_queued_quiescent`, `readable_socket_transport`,
  `unreadable_implies_server_writable`, `deferred_means_nonempty_socket`,
  `pollout_pass_restores_readability`; the literal "readable at every instant" clause is refuted
  (`readable_all_times_refuted`; see KNOWN finding KF-C02-literal-readable).
* `byte_request_pairing`, `byte_request_pairing_idle`, `spurious_pollin_unreachable`,
  `dispatch_end_enabled`, `backoff_still_counts`.
-/
import QbVerif.Lemmas.IpcGhost

namespace QbVerif.C02
open QbVerif QbVerif.RingSpec QbVerif.Ipc QbVerif.Gen QbVerif.IpcLemmas

/-- the state after an arbitrary action sequence on a fresh connection -/
abbrev reach (shmT : Bool) (maxMsg page : Nat) (acts : List Act) : St :=
  (St.init shmT maxMsg page).run acts

/-! ### exactly once, in order, intact -/

/-- Requests: what the server's callback has been handed is a prefix of what the client's send
    calls accepted (same messages = same bytes and lengths, same order, no duplicates), and the
    accepted requests not yet handed over are exactly the unread content of the request channel. -/
theorem req_exactly_once_in_order (shmT : Bool) (maxMsg page : Nat) (acts : List Act) :
    (reach shmT maxMsg page acts).delReq <+: (reach shmT maxMsg page acts).accReq ∧
    (reach shmT maxMsg page acts).accReq =
      (reach shmT maxMsg page acts).delReq ++
        (reach shmT maxMsg page acts).req.queue.drop (inflight (reach shmT maxMsg page acts)) := by
  have h := (inv_reachable shmT maxMsg page true acts).reqF
  exact ⟨⟨_, h.symm⟩, h⟩

theorem resp_exactly_once_in_order (shmT : Bool) (maxMsg page : Nat) (acts : List Act) :
    (reach shmT maxMsg page acts).delResp <+: (reach shmT maxMsg page acts).accResp ∧
    (reach shmT maxMsg page acts).accResp =
      (reach shmT maxMsg page acts).delResp ++ (reach shmT maxMsg page acts).resp.queue := by
  have h := (inv_reachable shmT maxMsg page true acts).respF
  exact ⟨⟨_, h.symm⟩, h⟩

theorem evt_exactly_once_in_order (shmT : Bool) (maxMsg page : Nat) (acts : List Act) :
    (reach shmT maxMsg page acts).delEvt <+: (reach shmT maxMsg page acts).accEvt ∧
    (reach shmT maxMsg page acts).accEvt =
      (reach shmT maxMsg page acts).delEvt ++ (reach shmT maxMsg page acts).evt.queue := by
  have h := (inv_reachable shmT maxMsg page true acts).evtF
  exact ⟨⟨_, h.symm⟩, h⟩

/-- nothing is lost: once the request channel is empty every accepted request has been delivered -/
theorem req_eventually (shmT : Bool) (maxMsg page : Nat) (acts : List Act)
    (hq : (reach shmT maxMsg page acts).req.queue = []) :
    (reach shmT maxMsg page acts).delReq = (reach shmT maxMsg page acts).accReq := by
  have h := (inv_reachable shmT maxMsg page true acts).reqF
  rw [hq] at h
  simpa using h.symm

theorem resp_eventually (shmT : Bool) (maxMsg page : Nat) (acts : List Act)
    (hq : (reach shmT maxMsg page acts).resp.queue = []) :
    (reach shmT maxMsg page acts).delResp = (reach shmT maxMsg page acts).accResp := by
  have h := (inv_reachable shmT maxMsg page true acts).respF
  rw [hq] at h
  simpa using h.symm

theorem evt_eventually (shmT : Bool) (maxMsg page : Nat) (acts : List Act)
    (hq : (reach shmT maxMsg page acts).evt.queue = []) :
    (reach shmT maxMsg page acts).delEvt = (reach shmT maxMsg page acts).accEvt := by
  have h := (inv_reachable shmT maxMsg page true acts).evtF
  rw [hq] at h
  simpa using h.symm

/-- a queued message is never stuck: a non-empty response / event channel hands its head to a
    receive call with a large enough buffer (the event call needs a readable descriptor). -/
theorem resp_head_receivable (shmT : Bool) (maxMsg page : Nat) (acts : List Act) (m : Msg) (rest : List Msg)
    (cap : Nat) (hq : (reach shmT maxMsg page acts).resp.queue = m :: rest) (hc : m.length ≤ cap) :
    ∃ s', (reach shmT maxMsg page acts).cRecv cap = some (s', .msg m) := by
  have hI : Inv (reach shmT maxMsg page acts) := inv_reachable shmT maxMsg page true acts
  generalize reach shmT maxMsg page acts = s at hq hI ⊢
  have hok := hI.respOk
  simp only [St.cRecv]
  cases hr : s.resp with
  | shm f =>
    rw [hr] at hok hq
    simp at hok hq
    obtain ⟨W, q, sem⟩ := f
    simp at hok hq
    subst hq
    simp [Chan.recv, Fifo.step, Fifo.tryWait, hok, Nat.not_lt.mpr hc]
  | dgram q sent =>
    rw [hr] at hq
    simp at hq
    subst hq
    simp [Chan.recv, Nat.not_lt.mpr hc]

/-! ### the same about the observable run -/

/-- Observable form: in every run, the list of requests handed to `msg_process` is a prefix of
    the list of requests whose send call was accepted (is going to return the length). -/
theorem req_trace_exactly_once (shmT : Bool) (maxMsg page : Nat) (acts : List Act) :
    (trace (St.init shmT maxMsg page) acts).filterMap reqDelivered <+:
      (trace (St.init shmT maxMsg page) acts).filterMap reqAccepted := by
  have h := (req_exactly_once_in_order shmT maxMsg page acts).1
  obtain ⟨g1, g2, -⟩ := run_ghost (St.init shmT maxMsg page) acts
  simp only [reach] at h
  rw [g1, g2] at h
  simpa [St.init] using h

theorem resp_trace_exactly_once (shmT : Bool) (maxMsg page : Nat) (acts : List Act) :
    (trace (St.init shmT maxMsg page) acts).filterMap respDelivered <+:
      (trace (St.init shmT maxMsg page) acts).filterMap respAccepted := by
  have h := (resp_exactly_once_in_order shmT maxMsg page acts).1
  obtain ⟨-, -, g3, g4, -⟩ := run_ghost (St.init shmT maxMsg page) acts
  simp only [reach] at h
  rw [g3, g4] at h
  simpa [St.init] using h

theorem evt_trace_exactly_once (shmT : Bool) (maxMsg page : Nat) (acts : List Act) :
    (trace (St.init shmT maxMsg page) acts).filterMap evtDelivered <+:
      (trace (St.init shmT maxMsg page) acts).filterMap evtAccepted := by
  have h := (evt_exactly_once_in_order shmT maxMsg page acts).1
  obtain ⟨-, -, -, -, g5, g6⟩ := run_ghost (St.init shmT maxMsg page) acts
  simp only [reach] at h
  rw [g5, g6] at h
  simpa [St.init] using h

/-! ### a send that cannot be queued has no effect -/

/-- `qb_ipcs_response_send[v]` returning any error (EMSGSIZE, EAGAIN of a full ring, the
    kernel's errno for a datagram) leaves the whole connection state unchanged. -/
theorem failed_resp_send_no_effect {s s' : St} {v : Bool} {m : Msg} {dg : DgRes} {e : Err}
    (h : s.sRespSend v m dg = some (s', .ret (.error e))) : s' = s := by
  simp only [St.sRespSend] at h
  repeat' split at h
  all_goals simp at h
  all_goals (try exact h.1.symm)
  all_goals (try exact h.symm)

/-- `qb_ipcs_event_send[v]` returning an error: the three channels, the ghost lists and the
    number of notifications (in the socket + outstanding) are unchanged; the only thing the call
    may have done is `resend_event_notifications` (when the ring was full). -/
theorem failed_event_send_no_effect {s s' : St} {v : Bool} {m : Msg} {dg : DgRes} {e : Err}
    (h : s.sEventSend v m dg = some (s', .ret (.error e))) : s' = s ∨ s' = s.resend := by
  simp only [St.sEventSend] at h
  split at h
  · simp at h
  split at h
  · simp at h; exact .inl h.1.symm
  split at h
  · simp at h
  · split at h
    · simp at h
      split at h
      · exact .inr h.1.symm
      · exact .inl h.1.symm
    · simp at h; exact .inl h.1.symm

/-- `resend_event_notifications` moves bytes from "outstanding" into the socket and nothing else -/
theorem resend_conserves (s : St) :
    s.resend.nbEvt + s.resend.outstanding = s.nbEvt + s.outstanding ∧
    s.resend.evt = s.evt ∧ s.resend.req = s.req ∧ s.resend.resp = s.resp ∧
    s.resend.accEvt = s.accEvt ∧ s.resend.delEvt = s.delEvt := by
  have hf := resend_frame s
  refine ⟨?_, by simp [hf], by simp [hf], by simp [hf], by simp [hf], by simp [hf]⟩
  simp only [St.resend, St.notifySend]
  split
  · rfl
  · split
    · simp_all
    · split
      · rename_i hm
        split at hm
        · simp at hm; subst hm; simp
        · simp at hm
      · rfl

/-- `qb_ipcc_send[v]` that fails (EMSGSIZE, flow control EAGAIN, full ring EAGAIN, kernel errno):
    after the call has returned, the state is the state before the call. -/
theorem failed_request_send_no_effect (shmT : Bool) (maxMsg page : Nat) (acts : List Act)
    {m : Msg} {dg : DgRes} {s1 : St} {o : Out} {e : Err}
    (h : (reach shmT maxMsg page acts).cSendBegin m dg = some (s1, o)) (he : s1.cpend = some (.error e)) :
    s1.cSendRet = some (reach shmT maxMsg page acts, .ret (.error e)) := by
  have hI : Inv (reach shmT maxMsg page acts) := inv_reachable shmT maxMsg page true acts
  generalize reach shmT maxMsg page acts = s at h hI ⊢
  simp only [St.cSendBegin] at h
  split at h
  · simp at h
  rename_i hg
  simp at hg
  have hcow : s.cowes = false := by
    cases hc : s.cowes with
    | false => rfl
    | true => have := (hI.owes hc).1; simp [hg.1] at this
  have hback : ({ s with cpend := none, cowes := false } : St) = s := by
    obtain ⟨⟩ := s
    simp at hg hcow ⊢
    exact ⟨hg.1.symm, hcow⟩
  repeat' split at h
  all_goals simp at h
  all_goals obtain ⟨rfl, -⟩ := h
  all_goals simp at he
  all_goals simp [St.cSendRet, hcow, he, hback]

/-- a message larger than the negotiated maximum is refused with EMSGSIZE by all five send
    functions and nothing changes -/
theorem oversize_server_send_rejected (s : St) (v : Bool) (m : Msg) (dg : DgRes) (hsc : s.sizeChecks = true)
    (hw : wfMsg m = true) (hl : s.maxMsg < m.length) :
    s.sEventSend v m dg = some (s, .ret (.error .emsgsize)) ∧
    s.sRespSend v m dg = some (s, .ret (.error .emsgsize)) := by
  simp [St.sEventSend, St.sRespSend, hsc, hw, hl]

theorem oversize_client_send_rejected (s : St) (m : Msg) (dg : DgRes) (hp : s.cpend = none)
    (hw : wfMsg m = true) (hl : s.maxMsg < m.length) :
    s.cSendBegin m dg = some ({ s with cpend := some (.error .emsgsize) }, .unit) := by
  simp [St.cSendBegin, hp, hw, hl]

/-- flow control on (word in 1..fc_enable_max): the client's send is refused with EAGAIN before
    it touches the channel -/
theorem flow_control_refuses (s : St) (m : Msg) (dg : DgRes) (hp : s.cpend = none) (hw : wfMsg m = true)
    (hl : m.length ≤ s.maxMsg) (hfc : 0 < s.fc ∧ s.fc ≤ s.fcMax) :
    s.cSendBegin m dg = some ({ s with cpend := some (.error .eagain) }, .unit) := by
  simp [St.cSendBegin, hp, hw, Nat.not_lt.mpr hl, hfc.1, hfc.2]

/-- the server does not take requests off the channel while flow control is on -/
theorem flow_control_stops_dispatch (s s' : St) (pin pout : Bool) (o : Out) (hfc : 0 < s.fc)
    (h : s.sDispBegin pin pout = some (s', o)) : s'.disp = none ∧ s'.req = s.req ∧ s'.nbReq = s.nbReq := by
  simp only [St.sDispBegin] at h
  split at h
  · simp at h
  rename_i hg
  simp at hg
  have hf := resend_frame s
  have h1 : (if pout then s.resend else s).disp = none ∧ (if pout then s.resend else s).req = s.req ∧
      (if pout then s.resend else s).nbReq = s.nbReq ∧ (if pout then s.resend else s).fc = s.fc := by
    split <;> simp [hf, hg.1.1.1]
  generalize (if pout then s.resend else s) = s1 at h h1
  split at h
  · simp at h; obtain ⟨rfl, -⟩ := h; exact ⟨h1.1, h1.2.1, h1.2.2.1⟩
  split at h
  · simp at h; obtain ⟨rfl, -⟩ := h; exact ⟨h1.1, h1.2.1, h1.2.2.1⟩
  · rename_i hn
    rw [h1.2.2.2] at hn
    exact absurd hfc hn

/-! ### notification bytes -/

/-- shared-memory transport: every unread event is announced by exactly one notification byte
    that is either unread in the socket or still owed by the server (`outstanding_notifiers`);
    POLLOUT is requested exactly while something is owed.  Socket transport: no bytes at all. -/
theorem notify_conservation (shmT : Bool) (maxMsg page : Nat) (acts : List Act) :
    (shmT = true → (reach shmT maxMsg page acts).evt.queue.length =
        (reach shmT maxMsg page acts).nbEvt + (reach shmT maxMsg page acts).outstanding) ∧
    (shmT = false → (reach shmT maxMsg page acts).nbEvt = 0 ∧ (reach shmT maxMsg page acts).outstanding = 0) ∧
    (reach shmT maxMsg page acts).pollout = decide (0 < (reach shmT maxMsg page acts).outstanding) ∧
    (reach shmT maxMsg page acts).shmT = shmT := by
  have hI := inv_reachable shmT maxMsg page true acts
  have hT : (reach shmT maxMsg page acts).shmT = shmT := by
    rw [reach, (run_const _ acts).1]; simp [St.init]
  refine ⟨?_, ?_, hI.pout, hT⟩
  · intro hs
    rcases hI.cons with h | h
    · exact h
    · rw [hT, hs] at h; simp at h
  · intro hs
    have := hI.sock (by rw [hT, hs])
    exact ⟨this.1, this.2.1⟩

end QbVerif.C02
