/-
C17 — maps behave like a dictionary; notifiers fire once.  Hashtable part (lib/hashtable.c as it
is in the repository, i.e. with the repairs D14 and D15; model: Model/Hashtable.lean with
`fix14 = fix15 = true`; specification: `Dict` of Model/MapSpec.lean).

MAIN THEOREM `ht_refines_dict` (proved): for all sequences of put/get/rm/count/foreach (complete or
abandoned)/notifier add/del/destroy the canonical results and the notification trace of the
hashtable model equal those of `Dict`.  Proof: invariant `Inv` (Lemmas/HtInv.lean: ids distinct,
node in bucket `hash key`, live keys distinct, `refcount = [not removed] + #iterators parked`,
iterators' nodes linked) preserved by every operation (`step_inv`), abstraction `Sim`
(Lemmas/HtSim.lean: `Dict.entries` is a permutation of the linked not-removed nodes), one lemma
per operation (`sim_put`, `sim_rm`, `sim_foreach`, `sim_nadd`, `sim_ndel`, `sim_destroy`, …).

Also proved, for EVERY well-formed table state (`WF`) — whatever iterators are open and whatever
removed-but-referenced nodes are still linked:
* `ht_foreach_partial` / `ht_complete_iteration_exactly_once` / `ht_abandoned_iteration_leaves_map`:
  a traversal (complete, or abandoned at the `stop`-th callback) hands out exactly the linked,
  not-removed nodes in table order — every one once, none invented —, emits no notification and
  leaves the table literally unchanged;
* `ht_get_whole_table`, `ht_rm_absent`: the bucket walk of get/rm finds what a search of the whole
  table would find (invariant "node in bucket hash(key)");
* the specification side: the dictionary's ordered insert is a permutation of "new entry + the
  others" and keeps the list strictly sorted (`dict_insert_perm`, `dict_insert_sorted`,
  `dict_step_sorted`, `dict_run_sorted`).
-/
import QbVerif.Lemmas.HtSimRun

namespace QbVerif.Hashtable
open QbVerif.Map QbVerif.Gen
set_option linter.unusedSimpArgs false

/-- C17 for the hashtable: for ALL sequences of put/get/rm/count/foreach (complete or abandoned)/
    notifier add/del/destroy, the results of the hashtable model equal those of the sorted
    dictionary (`results`: error codes dropped; of a complete traversal the values visited per key,
    of an abandoned one the number of visited entries — the bucket order is not promised), and so
    does the notification trace (`trace`: per operation and key, the callbacks in order). -/
theorem ht_refines_dict (size : Nat) (ops : List Op) (h : ∀ op ∈ ops, op.isIter = false) :
    results .ht (run size ops) = results .ht (Dict.run .ht ops) ∧
    trace .ht (run size ops) = trace .ht (Dict.run .ht ops) :=
  sim_run_c17 ops (create_inv size) (sim_create size) rfl h

/-- non-vacuity / reading aid: the abstraction behind `ht_refines_dict` — after ANY history
    (iterator operations included) the dictionary's entries are, up to order, the linked
    not-removed nodes, `count` is their number, and the invariant holds -/
theorem ht_abstraction (size : Nat) (ops : List Op) :
    (Dict.run .ht ops).1.entries.Perm ((live (run size ops).1).map absNode) ∧
    (run size ops).1.count = (Dict.run .ht ops).1.entries.length ∧ Inv (run size ops).1 := by
  obtain ⟨h, s⟩ := sim_run ops (create_inv size) (sim_create size)
  exact ⟨s.entries, (s.count h).symm, h⟩

/-- the freshly created table is well formed -/
theorem wf_create (n : Nat) : WF (create true true n) := by
  have hflat : (create true true n).flat = [] := by
    simp [create, HT.flat, List.flatten_replicate_nil]
  have hb : ∀ b, (create true true n).bucketOf b = [] := by
    intro b
    simp only [HT.bucketOf, create, List.getD_eq_getElem?_getD, List.getElem?_replicate]
    split <;> rfl
  refine ⟨rfl, ?_, ?_, ?_, ?_⟩
  · rw [hflat]; simp
  · intro b x hx; rw [hb] at hx; simp at hx
  · intro x hx; rw [hflat] at hx; simp at hx
  · intro p hp; simp [create] at hp

/-- traversal (`qb_map_foreach`, complete or abandoned at the `stop`-th callback) in any
    well-formed state: table unchanged, no notification, the linked not-removed nodes in order -/
theorem ht_foreach_partial {t : HT} (w : WF t) (stop : Nat) :
    (t.foreach stop).1 = t ∧ (t.foreach stop).2.events = [] ∧
    (t.foreach stop).2.res = .visited (takeStop stop ((t.flat.filter t.eligible).map kv))
      (stop = 0 || (t.flat.filter t.eligible).length < stop) := by
  rw [foreach_eq w stop]
  exact ⟨rfl, rfl, rfl⟩

/-- an abandoned traversal leaves the map as it was (the D15 clause) -/
theorem ht_abandoned_iteration_leaves_map {t : HT} (w : WF t) (stop : Nat) (op : Op) :
    (t.foreach stop).1.step op = t.step op := by
  rw [(ht_foreach_partial w stop).1]

/-- a complete traversal yields every present entry exactly once and nothing else -/
theorem ht_complete_iteration_exactly_once {t : HT} (w : WF t)
    (hk : ((t.flat.filter t.eligible).map (·.key)).Nodup) :
    ∃ l, (t.foreach 0).2.res = .visited l true ∧ (l.map (·.1)).Nodup ∧
      ∀ k v, (k, v) ∈ l ↔ ∃ n ∈ t.flat, t.eligible n = true ∧ n.key = k ∧ n.val = v := by
  refine ⟨(t.flat.filter t.eligible).map kv, ?_, ?_, ?_⟩
  · rw [(ht_foreach_partial w 0).2.2]
    simp [takeStop]
  · rw [List.map_map]
    exact hk
  · intro k v
    simp only [List.mem_map, List.mem_filter, kv, Prod.mk.injEq]
    constructor
    · rintro ⟨n, ⟨hn, he⟩, hk', hv⟩
      exact ⟨n, hn, he, hk', hv⟩
    · rintro ⟨n, hn, he, hk', hv⟩
      exact ⟨n, ⟨hn, he⟩, hk', hv⟩

/-- get looks only into bucket `hash key`, and finds what a search of the whole table finds -/
theorem ht_get_whole_table {t : HT} (hb : ∀ b n, n ∈ t.bucketOf b → hash n.key t.order = b) (key : Key) :
    t.get key = (t.flat.find? (t.isKey key)).map (·.val) := by
  unfold HT.get
  rw [lookup_eq hb]

/-- removing a key no linked node carries reports failure and changes nothing -/
theorem ht_rm_absent {t : HT} (hb : ∀ b n, n ∈ t.bucketOf b → hash n.key t.order = b) (key : Key)
    (ha : ∀ n ∈ t.flat, t.isKey key n = false) : t.rm key = (t, [], false) := by
  unfold HT.rm
  rw [lookup_eq hb]
  have : t.flat.find? (t.isKey key) = none := by
    apply List.find?_eq_none.2
    intro x hx
    simp [ha x hx]
  rw [this]

/-! ### the specification keeps its entries strictly sorted -/

theorem dict_insert_perm (e : Entry) {es : List Entry} (h : Sorted es) :
    (insertEntry e es).Perm (e :: es.filter fun x => !(x.key == e.key)) := insertEntry_perm e h

theorem dict_insert_sorted (e : Entry) {es : List Entry} (h : Sorted es) : Sorted (insertEntry e es) :=
  insertEntry_sorted e h

theorem dict_step_sorted (d : Dict) (op : Op) (h : Sorted d.entries) : Sorted (d.step op).1.entries := by
  unfold Dict.step
  split
  all_goals (try dsimp only)
  all_goals (repeat' split)
  all_goals (try dsimp only)
  all_goals (repeat' split)
  all_goals first
    | exact h
    | exact insertEntry_sorted _ h
    | exact eraseEntry_sorted _ h
    | exact List.Pairwise.nil

theorem dict_run_sorted (fl : Flavour) (ops : List Op) : Sorted (Dict.run fl ops).1.entries := by
  have : ∀ (ops : List Op) (d : Dict), Sorted d.entries → Sorted (d.runFrom ops).1.entries := by
    intro ops
    induction ops with
    | nil => intro d h; exact h
    | cons op ops ih =>
      intro d h
      exact ih (d.step op).1 (dict_step_sorted d op h)
  exact this ops _ List.Pairwise.nil

/-! ### ties to the source and refutation witnesses (finite facts) -/

/-- the model's `hash_fnv` and order computation against values computed by the C compiler from
    lib/hashtable.c (Gen/MapConst.lean, regenerated on every run) -/
theorem test_hash_vectors :
    hash [] 16 = HT_HASH_EMPTY_16 ∧ hash [97] 3 = HT_HASH_A_3 ∧ hash [97, 98, 99] 8 = HT_HASH_ABC_8 ∧
    hash [0xff, 0x80, 122] 5 = HT_HASH_HI_5 ∧
    hash [116, 104, 101, 32, 113, 117, 105, 99, 107, 32, 98, 114, 111, 119, 110, 32, 102, 111, 120, 32, 106, 117,
      109, 112, 115, 32, 111, 118, 101, 114, 32, 116, 104, 101, 32, 108, 97, 122, 121, 32, 100, 111, 103] 16
      = HT_HASH_LONG_16 ∧
    FNV_PRIME = 0x1000193 := by decide

theorem test_order_vectors :
    orderOf 0 = HT_ORDER_0 ∧ orderOf 7 = HT_ORDER_7 ∧ orderOf 8 = HT_ORDER_8 ∧ orderOf 100 = HT_ORDER_100 ∧
    2 ^ orderOf 100 = HT_LEN_100 := by decide

/-- corpus/C17/ht-d15-abandoned-foreach.ops, case 1 -/
def d15ops : List Op :=
  [.nadd none 17 9, .put [0x61] 1 0, .put [0x62] 2 0, .foreach 1 none, .rm [0x61], .rm [0x62],
   .get [0x61], .get [0x62], .count, .foreach 0 none]

/-- D15 refutation witness: the code as found does not refine the dictionary (an abandoned
    traversal leaves a zombie entry: `get` returns a removed value) … -/
theorem test_d15_refutes_orig :
    (runOrig 8 d15ops).2.map (·.res) ≠ (Dict.run .ht d15ops).2.map (·.res) := by decide

/-- decidable stand-in for `Res.canon .ht`: of a traversal only the number of visited entries -/
def countOnly : Res → Res
  | .visited l c => .visited (l.map fun _ => ([], 0)) c
  | r => r

/-- … the repaired code agrees with the dictionary on the witness: notifications of every
    operation, and results (of the abandoned traversal: how many entries were visited) -/
theorem test_d15_fixed_agrees :
    (run 8 d15ops).2.map (·.events) = (Dict.run .ht d15ops).2.map (·.events) ∧
    (run 8 d15ops).2.map (countOnly ·.res) = (Dict.run .ht d15ops).2.map (countOnly ·.res) := by decide

end QbVerif.Hashtable
