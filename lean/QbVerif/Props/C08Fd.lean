/-
Property C08, seventh file: **deleted_never_runs for descriptors**, over whole histories under nonce freshness.
A descriptor registration = (poll entry i, check word c).  Once entry i does not carry c any more (poll_del /
negative return: tombstone with check 0; slot emptied; slot re-used with a later word) it never carries c again and
no dispatch of (fd i, c) is ever logged again — instance `PQ i c n` of the primitive-step walk (`Stable`): the
descriptor dispatch function does not clear the check word, so no atomic begin is needed.
-/
import QbVerif.Lemmas.LoopStaleP
import QbVerif.Props.C08Once

namespace QbVerif.Props.C08
open QbVerif.Loop QbVerif.Gen

/-- every API call of a history that does not steer random() -/
theorem api_pstep (s : St) (n : Bool) (op : Op) (h : okNonce op) : PStep s (s.api n op).1 := by
  unfold St.api
  split
  · exact PStep.refl s
  · cases op with
    | jobAdd p id => exact PStep.of_tstep (jobAdd_tstep s p id) ((jobAdd_fr s p id (T := true) (P := true)).p rfl).1
    | jobDel p id => exact PStep.of_tstep (jobDel_tstep s p id) ((jobDel_fr s p id (T := true) (P := true)).p rfl).1
    | timerAdd p ns hh id =>
      dsimp only; split
      · exact PStep.refl s
      · exact PStep.trans (b := { s with tseq := s.tseq + 1 }) (PStep.of_tstep (TStep.of_eq rfl rfl rfl rfl rfl) rfl)
          (PStep.of_tstep (timerAdd_tstep _ p (ns + (s.tseq + 1)) hh id) ((timerAdd_fr _ p _ hh id).p rfl).1)
    | timerDel hh =>
      dsimp only; split
      · exact PStep.refl s
      · exact PStep.of_tstep (timerDel_tstep s _) ((timerDel_fr s _).p rfl).1
    | timerRunning hh => dsimp only; split <;> exact PStep.refl s
    | pollAdd p fd ev id =>
      dsimp only; split
      · exact PStep.refl s
      · exact pollAdd_pstep s n p fd ev id
    | pollMod p fd ev id =>
      dsimp only; split
      · exact PStep.refl s
      · exact pollMod_pstep s n p fd ev id
    | pollDel fd => exact pollDel_pstep s n fd
    | sigAdd p sg hh id =>
      dsimp only; split
      · exact PStep.refl s
      · split
        · exact PStep.refl s
        · exact PStep.of_tstep (sigAdd_tstep s p sg hh id) ((sigAdd_fr s p sg hh id (T := true) (P := true)).p rfl).1
    | sigMod p sg hh id =>
      dsimp only; split
      · exact PStep.refl s
      · split
        · exact PStep.refl s
        · rename_i aid _
          exact PStep.of_tstep (sigMod_tstep s p sg aid id) ((sigMod_fr s p sg aid id (T := true) (P := true)).p rfl).1
    | sigDel hh =>
      dsimp only; split
      · exact PStep.refl s
      · split
        · exact PStep.refl s
        · rename_i aid _
          exact PStep.of_tstep (sigDel_tstep s aid) ((sigDel_fr s aid (T := true) (P := true)).p rfl).1
    | stop => exact PStep.of_tstep (TStep.of_eq rfl rfl rfl rfl rfl) rfl
    | openFd fd =>
      dsimp only; split <;> first | exact PStep.refl s | exact PStep.of_tstep (TStep.of_eq rfl rfl rfl rfl rfl) rfl
    | closeFd fd =>
      dsimp only; split <;> first | exact PStep.refl s | exact PStep.of_tstep (TStep.of_eq rfl rfl rfl rfl rfl) rfl
    | advance ns => exact PStep.of_tstep (TStep.of_eq rfl rfl rfl rfl rfl) rfl
    | nonce v => exact absurd rfl (h v)
    | signal sg =>
      dsimp only; split
      · exact PStep.refl s
      · split <;> first | exact PStep.refl s | exact PStep.of_tstep (TStep.of_eq rfl rfl rfl rfl rfl) rfl
    | info => exact PStep.refl s

/-- scripts nonce-free, check words of poll entries below the random() counter, entry i does not carry the
    earlier-drawn word c, and (fd i, c) has been dispatched exactly n times -/
structure PQ (i c n : Nat) (s : St) : Prop where
  nn : NN s
  ck : chkLeP s
  c1 : 1 ≤ c
  cn : c ≤ s.nonce
  stale : (s.pe i).check ≠ c
  cnt : s.dlog.count (Item.fd i, c) = n

theorem PQ.step {i c n : Nat} {s s' : St} (h : PQ i c n s) (t : PStep s s') : PQ i c n s' :=
  ⟨t.nn h.nn, t.chk h.ck, h.c1, Nat.le_trans h.cn t.nonce, t.stale i c h.c1 h.cn h.stale, by rw [t.dlog]; exact h.cnt⟩

theorem pq_stable (i c n : Nat) : Stable (PQ i c n) okNonce where
  scriptsOk := fun _ h => h.nn
  api := fun s nn op hop h => h.step (api_pstep s nn op hop)
  setScripts := fun s id sc hok h => h.step (PStep.of_tstep (setScripts_tstep s id sc hok) rfl)
  freedCons := fun s a h => h.step (PStep.of_tstep (TStep.of_eq rfl rfl rfl rfl rfl) rfl)
  abort := fun s w h => h.step (PStep.of_tstep (TStep.of_core rfl (Nat.le_refl _) (fun _ => rfl) rfl rfl) rfl)
  timerPre := fun s j h => h.step (PStep.of_tstep (TStep.setTimer_new s j _ (fun _ => Nat.zero_le _)
    (fun k h1 _ hl => absurd hl.1 (by show (0 : Nat) ≠ k; omega))) (by simp))
  timerPost := fun s j h => h.step (PStep.of_tstep
    (TStep.setTimer_new s j _ (fun hc => hc j) (fun k _ _ hl => absurd rfl hl.2)) (by simp))
  fdNeg := fun s j h => h.step (setPe_pstep _ _ _ (Or.inr rfl))
  fdBack := fun s j h => h.step (setPe_pstep _ _ _ (Or.inl rfl))
  sigDel := fun s reg h => h.step (PStep.of_tstep (sigDel_tstep s reg) ((sigDel_fr s reg (T := true) (P := true)).p rfl).1)
  pop := fun s p it rest _ h => by
    have hpe : ∀ j, ({ s.setLv p { s.lv p with jobs := rest } with dlog := (it, s.regCheck it) :: s.dlog } : St).pe j
        = s.pe j := fun j => by unfold St.pe; simp
    refine ⟨fun e he => h.nn e (by simpa using he), fun j => by rw [hpe]; simpa using h.ck j, h.c1,
      by simpa using h.cn, by rw [hpe]; exact h.stale, ?_⟩
    show ((it, s.regCheck it) :: s.dlog).count (Item.fd i, c) = n
    rw [List.count_cons, h.cnt]
    have hne : ((it, s.regCheck it) == (Item.fd i, c)) = false := by
      apply Bool.eq_false_iff.2
      intro heq
      have heq' : (it, s.regCheck it) = (Item.fd i, c) := by simpa using heq
      have h1 : it = Item.fd i := (Prod.mk.inj heq').1
      have h2 : s.regCheck it = c := (Prod.mk.inj heq').2
      subst h1
      simp only [St.regCheck] at h2
      by_cases hst : (s.pe i).state = .joblist
      · simp only [hst, beq_self_eq_true, if_true] at h2
        exact h.stale h2
      · have hb : ((s.pe i).state == EState.joblist) = false := by simpa using hst
        simp only [hb, Bool.false_eq_true, if_false] at h2
        have := h.c1; omega
    simp [hne]
  todoDec := fun s p h => h.step (PStep.of_tstep (setLv_tstep _ _ _) (by simp))
  setRemaining := fun s r h => h.step (PStep.of_tstep (TStep.of_eq rfl rfl rfl rfl rfl) rfl)
  enterRun := fun s h => h.step (PStep.of_tstep (TStep.of_eq rfl rfl rfl rfl rfl) rfl)
  leaveRun := fun s h => h.step (PStep.of_tstep (TStep.of_eq rfl rfl rfl rfl rfl) rfl)
  beginIter := fun s h => h.step (beginIteration_pstep s)
  pollEvent := fun s r rev h => h.step (pollEvent_pstep s r rev)

/-- **a stale descriptor registration stays stale and is never dispatched.**  From ANY state whose scripts are
    nonce-free and whose poll entries carry check words below the random() counter: if entry i does not carry the
    earlier-drawn word c (deleted: tombstone, check 0; callback returned a negative value; slot emptied or re-used
    with a later word), then after every nonce-free continuation (API calls from outside and from callbacks,
    poll_add/mod/del of the same descriptor number, closing and re-opening it, slot re-use) entry i still does not
    carry c and the ghost log of dispatches has no new entry for (fd i, c).  No "or faulted" disjunct. -/
theorem fd_stale_stays_stale (s : St) (cmds : List Cmd) (i c : Nat) (hnn : NN s) (hck : chkLeP s) (hfr : Fresh cmds)
    (h1 : 1 ≤ c) (h2 : c ≤ s.nonce) (hst : (s.pe i).check ≠ c) :
    ((s.run cmds).1.pe i).check ≠ c ∧
      (s.run cmds).1.dlog.count (Item.fd i, c) = s.dlog.count (Item.fd i, c) := by
  have h := (pq_stable i c (s.dlog.count (Item.fd i, c))).run s cmds hfr ⟨hnn, hck, h1, h2, hst, rfl⟩
  exact ⟨h.stale, h.cnt⟩

/-- the hypotheses of `fd_stale_stays_stale` hold in every state reached by a nonce-free history -/
theorem nn_chkP_reachable (cfg : Cfg) (cmds : List Cmd) (hfr : Fresh cmds) :
    NN ((St.init cfg).run cmds).1 ∧ chkLeP ((St.init cfg).run cmds).1 := by
  have h0 : PQ 1 1 0 (St.init cfg) := by
    refine ⟨fun e he => ?_, fun j => ?_, Nat.le_refl _, ?_, ?_, ?_⟩
    · rcases cfg with ⟨a, b⟩; cases a <;> cases b <;> cases he
    · have hlen : (St.init cfg).pes.length = 1 ∧ ((St.init cfg).pe 0).check = 1 ∧ (St.init cfg).nonce = 1 := by
        rcases cfg with ⟨a, b⟩; cases a <;> cases b <;> decide
      by_cases hj : j < (St.init cfg).pes.length
      · have : j = 0 := by omega
        subst this; rw [hlen.2.1, hlen.2.2]; exact Nat.le_refl _
      · rw [pe_ge _ j hj]; exact Nat.zero_le _
    · rcases cfg with ⟨a, b⟩; cases a <;> cases b <;> decide
    · rcases cfg with ⟨a, b⟩; cases a <;> cases b <;> decide
    · rcases cfg with ⟨a, b⟩; cases a <;> cases b <;> rfl
  have h := (pq_stable 1 1 0).run _ cmds hfr h0
  exact ⟨h.nn, h.ck⟩

/-- `qb_loop_poll_del` on an entry that is ACTIVE **or already moved to the job list** (JOBLIST) leaves the
    tombstone: descriptor -1, check word 0, DELETED — whatever the back end answered -/
theorem poll_del_makes_stale (s : St) (n : Bool) (fd i : Nat)
    (hfind : s.pes.findIdx? (fun e => e.fd == (fd : Int) && !e.isSig) = some i)
    (hst : (s.pe i).state = .active ∨ (s.pe i).state = .joblist) :
    ((s.pollDel n fd).1.pe i).check = 0 ∧ ((s.pollDel n fd).1.pe i).state = .deleted ∧
      ((s.pollDel n fd).1.pe i).fd = -1 := by
  have hlt : i < s.pes.length := pe_lt (by rcases hst with h | h <;> rw [h] <;> simp)
  have hcond : ((s.pe i).state == EState.deleted || (s.pe i).state == EState.empty) = false := by
    rcases hst with h | h <;> rw [h] <;> rfl
  have key : ∀ s2 : St, s2.pes = s.pes → ((s2.setPe i (s.pe i).markDeleted).pe i) = (s.pe i).markDeleted := by
    intro s2 h2
    rw [pe_setPe_le _ _ _ _ (by rw [h2]; exact Nat.le_of_lt hlt)]; simp
  unfold St.pollDel
  simp only [hfind, hcond, Bool.false_eq_true, if_false]
  rw [key]
  · exact ⟨rfl, rfl, rfl⟩
  · rw [epDel_pes]; split <;> simp

/-- **deleted_never_runs (descriptors), over histories.**  In a state reached by a nonce-free history, delete the
    descriptor whose entry i is ACTIVE or already JOBLIST (queued for dispatch) and carries a real check word:
    after EVERY nonce-free continuation the dispatch log has no new entry for that registration — its callback
    is never invoked again, also when the descriptor number is registered anew (new word). -/
theorem deleted_never_runs_fd (cfg : Cfg) (pre cmds : List Cmd) (n : Bool) (fd i : Nat) (hpre : Fresh pre)
    (hfr : Fresh cmds)
    (hfind : ((St.init cfg).run pre).1.pes.findIdx? (fun e => e.fd == (fd : Int) && !e.isSig) = some i)
    (hst : (((St.init cfg).run pre).1.pe i).state = .active ∨ (((St.init cfg).run pre).1.pe i).state = .joblist)
    (hc : 1 ≤ (((St.init cfg).run pre).1.pe i).check) :
    ((((St.init cfg).run pre).1.pollDel n fd).1.run cmds).1.dlog.count
        (Item.fd i, (((St.init cfg).run pre).1.pe i).check) =
      ((St.init cfg).run pre).1.dlog.count (Item.fd i, (((St.init cfg).run pre).1.pe i).check) := by
  generalize hs : ((St.init cfg).run pre).1 = s at *
  have hr := nn_chkP_reachable cfg pre hpre
  rw [hs] at hr
  have t := pollDel_pstep s n fd
  have hd := poll_del_makes_stale s n fd i hfind hst
  have h := fd_stale_stays_stale (s.pollDel n fd).1 cmds i (s.pe i).check (t.nn hr.1) (t.chk hr.2) hfr hc
    (Nat.le_trans (hr.2 i) t.nonce) (by rw [hd.1]; omega)
  rw [h.2, t.dlog]

/-- non-vacuity: a ready descriptor is queued (JOBLIST) and found by poll_del -/
example : ∃ pre i, Fresh pre ∧
    ((St.init {}).run pre).1.pes.findIdx? (fun e => e.fd == ((100 : Nat) : Int) && !e.isSig) = some i ∧
    (((St.init {}).run pre).1.pe i).state = .joblist ∧ 1 ≤ (((St.init {}).run pre).1.pe i).check :=
  ⟨[.op (.openFd 100), .op (.pollAdd 0 100 1 7), .iterate [(100, 1)]], 1, by
    intro c hc; simp at hc; rcases hc with rfl | rfl | rfl <;> simp [Cmd.ok, okNonce], by decide, by decide, by decide⟩

end QbVerif.Props.C08
