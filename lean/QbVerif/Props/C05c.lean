import QbVerif.Props.C05b
import Mathlib.Tactic.IntervalCases

/-! # C05, third part — a failed set-up leaves nothing behind, for EVERY failure point; final owner
on the code as it is now; the partial theorems restated with the decidable finding classes
(`Input.narrowMode`, `Input.failAt2`, the predicates behind `qb_admission --classify`). -/
namespace QbVerif.Props.C05
open QbVerif.Admission

/-- the `authset` note does not influence the ledger or the response -/
def authNote : Option Auth → List Item
  | some a => [.ev (.authset a.uid a.gid a.mode)]
  | none => []

theorem exec_noteAuth (env : Env) (a : Option Auth) (k : Prog) (s : St) :
    exec env (noteAuth a k) s = exec env k { s with log := authNote a ++ s.log } := by
  cases a <;> rfl

/-- symbolic execution of the model with every id, mode and the umask left as variables -/
macro "adm_eval" : tactic =>
  `(tactic| simp [run, connProg, exec, exec_noteAuth, doCall, applyOp, Input.env, refuse, Ledger.has,
      Ledger.add, Ledger.erase, Ledger.modify, shmConnect, shmRbOpen, rbOpen, mmapFileOpen, rbClose, teardown,
      usConnect, St.clientRes, EPERM, *])

/-- what a set-up with one failing call must end in: nothing left, and the client was answered 0
    (the failing call's result is ignored or tolerated by the code) or `-errno` of the failing call -/
def SetupEnd (i : Input) : Prop :=
  (run i).led = [] ∧ ((run i).clientRes = some 0 ∨ (run i).clientRes = some (-(i.failErr : Int)))

macro "adm_cases" i:term : tactic =>
  `(tactic| first
      | (exfalso; omega)
      | (adm_eval; done)
      | (by_cases hE : Input.failErr $i = 1 <;> adm_eval))

set_option maxRecDepth 8000 in
set_option maxHeartbeats 1600000 in
theorem setupEnd_shm_a (i : Input) (hrc : i.rc = 0) (ht : i.transport = .shm) (h2 : i.failAt ≠ 2)
    (hk : i.failAt ≤ 10) : SetupEnd i := by
  unfold SetupEnd
  obtain ⟨k, hk'⟩ : ∃ k, i.failAt = k := ⟨_, rfl⟩
  rw [hk'] at h2 hk
  interval_cases k <;> adm_cases i

set_option maxRecDepth 8000 in
set_option maxHeartbeats 1600000 in
theorem setupEnd_shm_b (i : Input) (hrc : i.rc = 0) (ht : i.transport = .shm)
    (hlo : 11 ≤ i.failAt) (hk : i.failAt ≤ 20) : SetupEnd i := by
  unfold SetupEnd
  obtain ⟨k, hk'⟩ : ∃ k, i.failAt = k := ⟨_, rfl⟩
  rw [hk'] at hlo hk
  interval_cases k <;> adm_cases i

set_option maxRecDepth 8000 in
set_option maxHeartbeats 1600000 in
theorem setupEnd_shm_c (i : Input) (hrc : i.rc = 0) (ht : i.transport = .shm)
    (hlo : 21 ≤ i.failAt) (hk : i.failAt ≤ 28) : SetupEnd i := by
  unfold SetupEnd
  obtain ⟨k, hk'⟩ : ∃ k, i.failAt = k := ⟨_, rfl⟩
  rw [hk'] at hlo hk
  interval_cases k <;> adm_cases i

set_option maxRecDepth 8000 in
set_option maxHeartbeats 1600000 in
theorem setupEnd_shm_d (i : Input) (hrc : i.rc = 0) (ht : i.transport = .shm)
    (hlo : 29 ≤ i.failAt) (hk : i.failAt ≤ 34) : SetupEnd i := by
  unfold SetupEnd
  obtain ⟨k, hk'⟩ : ∃ k, i.failAt = k := ⟨_, rfl⟩
  rw [hk'] at hlo hk
  interval_cases k <;> adm_cases i

set_option maxRecDepth 8000 in
set_option maxHeartbeats 1600000 in
theorem setupEnd_sock (i : Input) (hrc : i.rc = 0) (ht : i.transport = .sock) (h2 : i.failAt ≠ 2)
    (hk : i.failAt ≤ (if i.usDirChown then 9 else 8)) : SetupEnd i := by
  unfold SetupEnd
  obtain ⟨k, hk'⟩ : ∃ k, i.failAt = k := ⟨_, rfl⟩
  rw [hk'] at h2 hk
  cases hd : i.usDirChown <;> simp only [hd, if_true, if_false, Bool.false_eq_true] at hk <;>
    interval_cases k <;> adm_cases i

/-- **A failed set-up leaves nothing behind, for EVERY failure point** (outside finding class
    `failAt2`): the accept callback accepts, ONE call of the set-up — any of the 34 (shm) / 9 (socket)
    calls except chmod(dir, 0770) — fails with any errno, all ids, modes and the umask arbitrary.
    Then the ledger is empty at the end, and the client was answered either `-errno` of the failing
    call (every checked call) or 0 (ignored / EPERM-tolerated calls; the connection then lives and
    is torn down normally).  (`failErr ≠ 0`: a failing call never reports errno 0; the C code would
    take `res = -0` for success.) -/
theorem failed_setup_leaves_nothing (i : Input) (hrc : i.rc = 0) (hc : i.failAt2 = false)
    (hk : i.failAt ≤ i.setupCalls) (_hE0 : i.failErr ≠ 0) : SetupEnd i := by
  have h2 : i.failAt ≠ 2 := by simpa [Input.failAt2] using hc
  unfold Input.setupCalls at hk
  cases ht : i.transport with
  | shm =>
    simp only [ht] at hk
    by_cases ha : i.failAt ≤ 10
    · exact setupEnd_shm_a i hrc ht h2 ha
    · by_cases hb : i.failAt ≤ 20
      · exact setupEnd_shm_b i hrc ht (by omega) hb
      · by_cases hcc : i.failAt ≤ 28
        · exact setupEnd_shm_c i hrc ht (by omega) hcc
        · exact setupEnd_shm_d i hrc ht (by omega) hk
  | sock =>
    simp only [ht] at hk
    exact setupEnd_sock i hrc ht h2 hk

/-- non-vacuity: a full /dev/shm while the data file of the response ring is allocated -/
example : SetupEnd { uid := 1001, gid := 1002, failAt := 20, failErr := 28 } := by
  unfold SetupEnd; decide

/-- the excluded class is real: see `dir_chmod_failure_leaks` -/
example : ({ uid := 1001, gid := 1002, failAt := 2, failErr := 5 } : Input).failAt2 = true := by decide

/-! ## final owner, on the code as it is now (repair D27b in) -/

/-- Accepted, no failing call, both transports: when the connection is ESTABLISHED the directory and
    every file of the connection belong to the user/group the accept callback authorised (default:
    the ids of the control message), the files with exactly the chosen mode (default 0600). -/
theorem final_owner_is_auth (i : Input) (hrc : i.rc = 0) (hf : i.failAt = 0) (hd : i.usDirChown = true) :
    ∃ l, ledAtEstablished (run i).log = some l ∧ l ≠ [] ∧
      ∀ x ∈ l, x.2.uid = i.authOf.uid ∧ x.2.gid = i.authOf.gid ∧ (x.1 ≠ .dir → x.2.mode = i.authOf.mode) := by
  cases ht : i.transport with
  | shm =>
    obtain ⟨_, l, hl, hlen, hall⟩ := final_owner_is_auth_shm i hrc hf ht
    exact ⟨l, hl, by intro h; simp [h] at hlen, hall⟩
  | sock =>
    obtain ⟨_, l, hl, hlen, hall⟩ := final_owner_is_auth_sock i hrc hf ht
    refine ⟨l, hl, by intro h; simp [h] at hlen, ?_⟩
    intro x hx
    obtain ⟨ho, hm⟩ := hall x hx
    exact ⟨(ho (Or.inr hd)).1, (ho (Or.inr hd)).2, hm⟩

example : ({ transport := .sock, auth := some ⟨1003, 1004, 0o660⟩ } : Input).usDirChown = true := rfl

/-! ## the partial theorems, stated with the decidable finding classes -/

theorem narrowMode_false_iff (i : Input) : i.narrowMode = false ↔ sub 0o600 i.authOf.mode := by
  simp [Input.narrowMode, sub]

/-- `files_never_wider` outside class `narrowMode` (KF-C05-narrow-mode-window) -/
theorem files_never_wider_outside_class (i : Input) (hc : i.narrowMode = false)
    (l : Ledger) (hl : l ∈ (run i).moments) (p : Path) (e : Ent) (he : (p, e) ∈ l) (hp : p ≠ .dir) :
    sub e.mode i.authOf.mode :=
  files_never_wider_partial i ((narrowMode_false_iff i).1 hc) l hl p e he hp

/-- the witnesses of the two findings are inside their classes, ordinary inputs are outside both -/
theorem test_classes :
    ({ uid := 1001, gid := 1002, auth := some ⟨1001, 1002, 0o400⟩, umask := 0 } : Input).classes = ["narrowMode"] ∧
    ({ uid := 1001, gid := 1002, failAt := 2, failErr := 5 } : Input).classes = ["failAt2"] ∧
    ({ uid := 1001, gid := 1002, auth := some ⟨1003, 1004, 0o660⟩, failAt := 7 } : Input).classes = [] ∧
    ({} : Input).classes = [] := by
  decide

end QbVerif.Props.C05
