/-
C11, blackbox sentence, the "fits" clause on the reserve/commit FIFO: the drop loop of
`qb_rb_chunk_alloc` runs on the RESERVATION of a record, not on the bytes committed afterwards, so
what survives is every newest run of records whose reservations fit in the requested size
(16 bytes of overhead each).
-/
import QbVerif.Props.C11Hist

namespace QbVerif.Props.C11
open QbVerif.Ring QbVerif.RingSpec QbVerif.RingLemmas

theorem suffix_append_right {α : Type} {a b : List α} (c : List α) (h : a <:+ b) : a ++ c <:+ b ++ c := by
  obtain ⟨t, ht⟩ := h
  exact ⟨t, by rw [← List.append_assoc, ht]⟩

theorem suffix_drop_of_length {α : Type} {a b : List α} {k : Nat} (h : a <:+ b) (hl : a.length ≤ b.length - k) :
    a <:+ b.drop k := by
  obtain ⟨t, ht⟩ := h
  have hlen : t.length + a.length = b.length := by rw [← ht]; simp
  by_cases hkt : k ≤ t.length
  · refine ⟨t.drop k, ?_⟩
    rw [← ht, List.drop_append_of_le_length hkt]
  · have : a = [] := List.length_eq_zero_iff.mp (by omega)
    subst this
    exact List.nil_suffix

theorem suffix_of_concat {α : Type} {a b : List α} {x : α} (h : a ++ [x] <:+ b ++ [x]) : a <:+ b := by
  obtain ⟨t, ht⟩ := h
  rw [← List.append_assoc] at ht
  exact ⟨t, List.append_cancel_right ht⟩

/-- the bytes committed weigh at most what was reserved -/
theorem sum_len_le_sum_resv (s : List (Nat × List Nat)) (h : ∀ p ∈ s, p.2.length ≤ p.1) :
    ((s.map (·.2)).map (fun c => c.length + 16)).sum ≤ (s.map (fun p => p.1 + 16)).sum := by
  induction s with
  | nil => simp
  | cons p ps ih =>
    have h1 := h p List.mem_cons_self
    have h2 := ih (fun p' hp' => h p' (List.mem_cons_of_mem _ hp'))
    simp only [List.map_cons, List.sum_cons]
    omega

/-- **`alloc n` keeps every newest run that fits next to the reservation.**  In overwrite mode an
    allocation of `n ≤ S` bytes drops the `k` oldest chunks and succeeds; every run of newest chunks
    which, together with `n` bytes (16 bytes of overhead each), fits into `S` is longer than what
    is dropped. -/
theorem alloc_keeps (f : Fifo) (S n : Nat) (hS : S + MARGIN + 1 ≤ 4 * f.W) (hn : n ≤ S) :
    ∃ k, k ≤ f.q.length ∧
      FifoP.step true ⟨f, none⟩ (.alloc n) = some (⟨⟨f.W, f.q.drop k, f.sem⟩, some n⟩, .unit) ∧
      ∀ s1, s1 <:+ f.q → (s1.map (fun c => c.length + 16)).sum + (n + 16) ≤ S → s1.length ≤ f.q.length - k := by
  have hok := owDrop_true f.W S n f.q hS hn
  obtain ⟨k, hk, h1, _, _⟩ := owDrop_spec f.W n f.q
  refine ⟨k, hk, ?_, ?_⟩
  · simp only [FifoP.step]
    revert hok h1
    rcases owDrop f.W n f.q with ⟨q', ok⟩
    intro hok h1
    simp only at h1 hok
    subst h1 hok
    simp
  · intro s1 hs1 hfit
    have hd : (List.replicate n 0).length ≤ S := by simpa using hn
    have hkeep := ow_keeps_all_that_fit f S (List.replicate n 0) hS hd (s1 ++ [List.replicate n 0])
      (suffix_append_right _ hs1) (by simpa [List.sum_append] using hfit)
    rw [owStep_write] at hkeep
    simp only [List.length_replicate] at hkeep
    rw [if_pos hok, h1] at hkeep
    have hs := suffix_of_concat hkeep
    have := hs.length_le
    simpa using this

/-- **Every newest run whose reservations fit is kept** (reserve/commit FIFO).  `qs` records with
    which reservation each chunk of the old contents was written; after the records `ps`
    (reservation, bytes committed; committed ≤ reserved ≤ `S`), every suffix `s` of `qs ++ ps`
    whose reservations fit into the requested size `S`, 16 bytes of overhead each, is still stored,
    in order and byte-identical. -/
theorem bb_run_keeps_fit (f : Fifo) (S : Nat) (ps : List (Nat × List Nat)) (hS : S + MARGIN + 1 ≤ 4 * f.W)
    (hps : ∀ p ∈ ps, p.2.length ≤ p.1 ∧ p.1 ≤ S)
    (qs : List (Nat × List Nat)) (hqs : qs.map (·.2) = f.q) (hw : ∀ p ∈ qs, p.2.length ≤ p.1)
    (s : List (Nat × List Nat)) (hs : s <:+ qs ++ ps) (hfit : (s.map (fun p => p.1 + 16)).sum ≤ S) :
    s.map (·.2) <:+ ((FifoP.mk f none).run true (bbOps ps)).1.f.q := by
  induction ps generalizing f qs s with
  | nil =>
    simp only [List.append_nil] at hs
    simp only [bbOps, FifoP.run]
    rw [← hqs]
    exact hs.map _
  | cons p ps ih =>
    obtain ⟨n, d⟩ := p
    obtain ⟨hd, hn⟩ := hps (n, d) List.mem_cons_self
    simp only at hd hn
    obtain ⟨k, hk, hst, hkeep⟩ := alloc_keeps f S n hS hn
    have hc : FifoP.step true ⟨⟨f.W, f.q.drop k, f.sem⟩, some n⟩ (.commit d)
        = some (⟨⟨f.W, f.q.drop k ++ [d], f.sem.map (· + 1)⟩, none⟩, .num 0) := by
      simp [FifoP.step, hd, Fifo.post]
    simp only [bbOps, FifoP.run, hst, hc]
    have hqs' : (qs.drop k ++ [(n, d)]).map (·.2) = f.q.drop k ++ [d] := by
      simp [List.map_drop, hqs]
    have hw' : ∀ p ∈ qs.drop k ++ [(n, d)], p.2.length ≤ p.1 := by
      intro p hp
      rcases List.mem_append.mp hp with h | h
      · exact hw p (List.mem_of_mem_drop h)
      · simp only [List.mem_singleton] at h; subst h; exact hd
    refine ih ⟨f.W, f.q.drop k ++ [d], f.sem.map (· + 1)⟩ hS (fun p hp => hps p (List.mem_cons_of_mem _ hp))
      (qs.drop k ++ [(n, d)]) hqs' hw' s ?_ hfit
    have hs' : s <:+ (qs ++ [(n, d)]) ++ ps := by simpa using hs
    rcases suffix_append_cases s _ _ hs' with h1 | ⟨s1, rfl, h1⟩
    · exact h1.trans (List.suffix_append _ _)
    · apply suffix_append_right
      rcases suffix_append_cases s1 _ _ h1 with h2 | ⟨s2, rfl, h2⟩
      · exact h2.trans (List.suffix_append _ _)
      · apply suffix_append_right
        have hlenq : qs.length = f.q.length := by rw [← hqs]; simp
        apply suffix_drop_of_length h2
        rw [hlenq]
        have hk2 := hkeep (s2.map (·.2)) (by rw [← hqs]; exact h2.map _) (by
          have hw2 := sum_len_le_sum_resv s2 (fun p hp => hw p (h2.subset hp))
          simp only [List.map_append, List.sum_append, List.map_cons, List.sum_cons, List.map_nil, List.sum_nil] at hfit
          omega)
        simpa using hk2

/-- non-vacuity: W = 13 (S = 38); three records reserved with 3 bytes each: the reservations of
    the two newest fit (2 · 19 = 38), those of all three do not -/
example : [[2, 2], [3]] <:+ ((FifoP.mk ⟨13, [], some 0⟩ none).run true (bbOps [(3, [1]), (3, [2, 2]), (3, [3])])).1.f.q :=
  bb_run_keeps_fit ⟨13, [], some 0⟩ 38 [(3, [1]), (3, [2, 2]), (3, [3])] (by decide) (by decide) [] rfl (by simp)
    [(3, [2, 2]), (3, [3])] ⟨[(3, [1])], rfl⟩ (by decide)

end QbVerif.Props.C11
