/-
C03 — IPC: death of the peer at any point is detected and fully cleaned up.

Server side (Model/IpcLife.lean, Lemmas/IpcLifeSrv.lean): whatever configuration a slot is in when
the client's death becomes visible, the handler that sees it releases the whole ledger and fires
exactly the callbacks the statement asks for.  Client side (Model/IpcLifeClient.lean): bounded
waiting after the server's death on an abstract clock.
-/
import QbVerif.Lemmas.IpcLifeSrv3
import QbVerif.Model.IpcLifeClient
import QbVerif.Lemmas.IpcLifeCl

namespace QbVerif.IpcLife

/-- number of `x` callbacks = number of `x` in the life-cycle trace -/
theorem count_eq_cbs (lg : List Ev) (x : Ev) (hx : isCb x = true) :
    (lg.filter (· == x)).length = ((cbsOf lg).filter (· == x)).length := by
  induction lg with
  | nil => rfl
  | cons e l ih =>
    unfold cbsOf at *
    by_cases h : e = x
    · subst h
      simp [List.filter_cons, hx, ih]
    · have hb : (e == x) = false := by simpa using h
      cases hc : isCb e <;> simp [List.filter_cons, hb, hc, ih]

/-- the statement's callback clause, read off a life-cycle trace `destroyed, closed, created, accept` -/
theorem counts_of_full_trace (s : Slot) (h : s.cbs = [.destroyed, .closed, .created, .accept]) :
    s.nDestroyed = 1 ∧ s.nClosed = 1 ∧ s.nCreated = 1 ∧ s.nAccept = 1 := by
  unfold Slot.cbs at h
  refine ⟨?_, ?_, ?_, ?_⟩ <;>
    simp only [Slot.nDestroyed, Slot.nClosed, Slot.nCreated, Slot.nAccept, Slot.count] <;>
    (rw [count_eq_cbs _ _ rfl, h]; rfl)

theorem counts_of_empty_trace (s : Slot) (h : s.cbs = []) :
    s.nDestroyed = 0 ∧ s.nClosed = 0 ∧ s.nCreated = 0 ∧ s.nAccept = 0 := by
  unfold Slot.cbs at h
  refine ⟨?_, ?_, ?_, ?_⟩ <;>
    simp only [Slot.nDestroyed, Slot.nClosed, Slot.nCreated, Slot.nAccept, Slot.count] <;>
    (rw [count_eq_cbs _ _ rfl, h]; rfl)

/-! ### client_death_cleanup

Full statement (DESIGN.md): for every prefix of the client's action list, both transports, any
queue contents: after the server processes the resulting events, destroyed fired exactly once,
closed fired once iff created fired, the ledger of the connection is empty, other connections
untouched.  Proved here: the clause for every STABLE configuration of a slot (handshake pending
with any number of bytes received; established, any log, any statistics, any state of the
datagram channels) and every handler through which the death can become visible, with arbitrary
other inputs (`DispIn.reqs` = any queue contents).  `_partial`: that every prefix of the client's
action list leaves the slot in one of these configurations (or already clean) is established by
the fault enumeration against the real code (2111 crash points), not by a Lean invariant proof
(`processRequest`/`handleNewConnection` preserve `mkEst` is not proved). -/

/-- death during the handshake: no callback at all (the application never heard of the client),
    everything acquired by `accept` released -/
theorem client_death_cleanup_handshake_partial (t : Transport) (i : AuthIn) (env : Env) (n : Nat)
    (lg : List Ev) (nc : Nat) (hlg : cbsOf lg = [])
    (h : i.nval = true ∨ i.hup = true ∨
      (i.nval = false ∧ i.hup = false ∧ i.pollin = true ∧ i.eof = true ∧
        (i.avail = 0 ∨ (0 < i.avail ∧ n + i.avail < AUTH_LEN)))) :
    let s' := processAuth t i env (mkAuth n lg nc)
    Clean s' ∧ s'.nDestroyed = 0 ∧ s'.nClosed = 0 ∧ s'.nCreated = 0 ∧ s'.nAccept = 0 := by
  intro s'
  have key : Clean s' ∧ s'.cbs = cbsOf lg := by
    rcases h with h | h | ⟨h1, h2, h3, h4, h5 | ⟨h5, h6⟩⟩
    · exact processAuth_hup t i env n lg nc (Or.inl h)
    · exact processAuth_hup t i env n lg nc (Or.inr h)
    · exact processAuth_eof t i env n lg nc h1 h2 h3 h5 h4
    · exact processAuth_partial_eof t i env n lg nc h1 h2 h3 h5 h6 h4
  exact ⟨key.1, counts_of_empty_trace s' (key.2.trans hlg)⟩

/-- the ways the death of the client of an established connection becomes visible to the server -/
inductive DeathSeen (t : Transport) (s : Slot) : Slot → Prop
  /-- POLLHUP / POLLNVAL in `qb_ipcs_dispatch_connection_request`, whatever is queued -/
  | dispatch (i : DispIn) (env : Env) (h : i.nval = true ∨ i.hup = true) : DeathSeen t s (dispatch t i env s).1
  /-- POLLHUP while blocked in `poll(setup, -1)` inside the dispatch -/
  | resume (need bytes : Nat) : DeathSeen t s (dispatchResume t need bytes true s).1
  /-- POLLHUP / POLLNVAL in `_sock_connection_liveliness` -/
  | liveness (nval hup pollin eof : Bool) (h : nval = true ∨ hup = true) : DeathSeen t s (liveness t nval hup pollin eof s)

theorem client_death_cleanup_established_partial (t : Transport) (nr ne : Bool) (a b c : Nat) (lg : List Ev)
    (nc : Nat) (hlg : cbsOf lg = [.created, .accept]) (s' : Slot)
    (h : DeathSeen t (mkEst t nr ne a b c lg nc) s') :
    Clean s' ∧ s'.cbs = [.destroyed, .closed, .created, .accept] ∧
    s'.nDestroyed = 1 ∧ s'.nClosed = 1 ∧ s'.nCreated = 1 ∧ s'.nAccept = 1 ∧
    s'.statActiveDec = b + 1 ∧ s'.statClosed = c + 1 := by
  have hd := connDisconnect_est t nr ne a b c lg nc
  have hs : s' = connDisconnect t (mkEst t nr ne a b c lg nc) := by
    cases h with
    | dispatch i env h => rw [dispatch_of_hup t i env _ rfl h]
    | resume need bytes => rw [dispatchResume_of_hup t need bytes _ rfl]
    | liveness nval hup pollin eof h => rw [liveness_of_hup t nval hup pollin eof _ rfl h]
  subst hs
  have hc : (connDisconnect t (mkEst t nr ne a b c lg nc)).cbs = [.destroyed, .closed, .created, .accept] := by
    rw [hd.2.1, hlg]
  have hn := counts_of_full_trace _ hc
  exact ⟨hd.1, hc, hn.1, hn.2.1, hn.2.2.1, hn.2.2.2, hd.2.2.2.1, hd.2.2.2.2⟩

/-- end of file instead of POLLHUP (socket transport: `recv` returns 0 in the liveness handler;
    shm: `recv` of the notification byte returns 0 with nothing queued) -/
theorem client_death_cleanup_eof_partial (t : Transport) (nr ne : Bool) (a b c : Nat) (lg : List Ev) (nc : Nat)
    (hlg : cbsOf lg = [.created, .accept]) :
    (Clean (liveness t false false true true (mkEst t nr ne a b c lg nc)) ∧
      (liveness t false false true true (mkEst t nr ne a b c lg nc)).cbs = [.destroyed, .closed, .created, .accept]) ∧
    (∀ (i : DispIn) (env : Env), i.nval = false → i.hup = false → i.reqs = [] → i.bytes = 0 → i.eof = true →
      Clean (dispatch .shm i env (mkEst .shm nr ne a b c lg nc)).1 ∧
      (dispatch .shm i env (mkEst .shm nr ne a b c lg nc)).1.cbs = [.destroyed, .closed, .created, .accept]) := by
  constructor
  · rw [liveness_of_eof t _ rfl, mkEst_call]
    have hd := connDisconnect_est t nr ne a b c (.call .recv :: lg) (nc + 1)
    exact ⟨hd.1, by rw [hd.2.1, cbsOf_call, hlg]⟩
  · intro i env h1 h2 h3 h4 h5
    rw [dispatch_shm_of_eof i env _ rfl h1 h2 h3 h4 h5, mkEst_call, mkEst_call]
    have hd := connDisconnect_est .shm nr ne a b c (.call .recv :: .call .sem_getvalue :: lg) (nc + 1 + 1)
    exact ⟨hd.1, by rw [hd.2.1, cbsOf_call, cbsOf_call, hlg]⟩

/-- other connections untouched: a service is a family of slots, a handler run rewrites one of them -/
def Service := Nat → Slot
def Service.run (svc : Service) (k : Nat) (f : Slot → Slot) : Service := fun j => if j = k then f (svc j) else svc j

theorem other_connections_untouched (svc : Service) (k j : Nat) (f : Slot → Slot) (h : j ≠ k) :
    (svc.run k f) j = svc j := by
  simp [Service.run, h]

/-! ### reachability: every history of handler runs on a slot, hence every prefix of every client's
action list under every schedule (each client action is visible to the server only through the
inputs of these handlers, all universally quantified) -/

/-- handshake pending -/
def AuthInv (s : Slot) : Prop := ∃ n lg nc, n < AUTH_LEN ∧ s = mkAuth n lg nc ∧ cbsOf lg = []

/-- released slot with one of the three admissible life-cycle traces -/
def GoneOk (s : Slot) : Prop :=
  Clean s ∧ (s.cbs = [] ∨ s.cbs = [.destroyed, .accept] ∨ s.cbs = [.destroyed, .closed, .created, .accept])

def Good (t : Transport) (s : Slot) : Prop := AuthInv s ∨ EstInv t s ∨ GoneOk s

theorem processAuth_good (t : Transport) (i : AuthIn) (env : Env) (s : Slot) (h : AuthInv s) :
    Good t (processAuth t i env s) := by
  obtain ⟨n, lg, nc, hn, rfl, hlg⟩ := h
  by_cases hd : i.nval = true ∨ i.hup = true
  · have := processAuth_hup t i env n lg nc hd
    exact Or.inr (Or.inr ⟨this.1, Or.inl (this.2.trans hlg)⟩)
  · have hnv : i.nval = false := by cases h : i.nval <;> simp_all
    have hh : i.hup = false := by cases h : i.hup <;> simp_all
    cases hp : i.pollin
    · have : processAuth t i env (mkAuth n lg nc) = mkAuth n lg nc := by
        simp [processAuth, mkAuth, hnv, hh, hp]
      rw [this]
      exact Or.inl ⟨n, lg, nc, hn, rfl, hlg⟩
    · by_cases ha0 : i.avail = 0
      · cases he : i.eof
        · have : processAuth t i env (mkAuth n lg nc) = mkAuth n (.call .recvmsg :: lg) (nc + 1) := by
            simp [processAuth, mkAuth, hnv, hh, hp, ha0, he, Slot.call]
          rw [this]
          exact Or.inl ⟨n, _, _, hn, rfl, hlg⟩
        · have := processAuth_eof t i env n lg nc hnv hh hp ha0 he
          exact Or.inr (Or.inr ⟨this.1, Or.inl (this.2.trans hlg)⟩)
      · by_cases hlt : n + i.avail < AUTH_LEN
        · cases he : i.eof
          · have := processAuth_partial t i env n lg nc hnv hh hp (by omega) hlt he
            exact Or.inl ⟨n + i.avail, _, _, hlt, this.1, this.2.trans hlg⟩
          · have := processAuth_partial_eof t i env n lg nc hnv hh hp (by omega) hlt he
            exact Or.inr (Or.inr ⟨this.1, Or.inl (this.2.trans hlg)⟩)
        · rcases processAuth_complete t i env n lg nc hn hnv hh hp (by omega) with ⟨hf, hc⟩ | ⟨hcl, hc⟩
          · obtain ⟨h1, h2, h3, h4, h5, h6⟩ := hf
            exact Or.inr (Or.inl ⟨h1, h2, h3, h4, h5, ⟨true, true, h6⟩, by rw [hc, hlg]⟩)
          · exact Or.inr (Or.inr ⟨hcl, Or.inr (Or.inl (by rw [hc, hlg]))⟩)

/-- every slot the server can be in: `accept`, then any sequence of handler runs with any inputs -/
inductive Reach (t : Transport) : Slot → Prop
  | accept : Reach t acceptSlot
  | auth (s : Slot) (i : AuthIn) (env : Env) (n : Nat) : Reach t s → s.phase = .auth n → Reach t (processAuth t i env s)
  | dispatch (s : Slot) (i : DispIn) (env : Env) : Reach t s → s.phase = .conn → Reach t (dispatch t i env s).1
  | resume (s : Slot) (need bytes : Nat) (hup : Bool) : Reach t s → s.phase = .conn →
      Reach t (dispatchResume t need bytes hup s).1
  | liveness (s : Slot) (nval hup pollin eof : Bool) : Reach t s → s.phase = .conn →
      Reach t (liveness t nval hup pollin eof s)

theorem Good.auth_of_phase {t : Transport} {s : Slot} (h : Good t s) (n : Nat) (hp : s.phase = .auth n) : AuthInv s := by
  rcases h with h | h | h
  · exact h
  · rw [h.phase] at hp; cases hp
  · rw [h.1.phase] at hp; cases hp

theorem Good.est_of_phase {t : Transport} {s : Slot} (h : Good t s) (hp : s.phase = .conn) : EstInv t s := by
  rcases h with ⟨n, lg, nc, _, rfl, _⟩ | h | h
  · cases hp
  · exact h
  · rw [h.1.phase] at hp; cases hp

theorem DeadClean.gone {s : Slot} (h : DeadClean s) : GoneOk s := ⟨h.1, Or.inr (Or.inr h.2)⟩

theorem reach_good (t : Transport) (s : Slot) (h : Reach t s) : Good t s := by
  induction h with
  | accept => exact Or.inl ⟨0, _, _, by decide, acceptSlot_eq.1, acceptSlot_eq.2⟩
  | auth s i env n _ hp ih => exact processAuth_good t i env s (ih.auth_of_phase n hp)
  | dispatch s i env _ hp ih =>
    rcases dispatch_inv t i env s (ih.est_of_phase hp) with h | h
    · exact Or.inr (Or.inl h)
    · exact Or.inr (Or.inr h.gone)
  | resume s need bytes hup _ hp ih =>
    rcases dispatchResume_inv t need bytes hup s (ih.est_of_phase hp) with h | h
    · exact Or.inr (Or.inl h)
    · exact Or.inr (Or.inr h.gone)
  | liveness s nval hup pollin eof _ hp ih =>
    rcases liveness_inv t nval hup pollin eof s (ih.est_of_phase hp) with h | h
    · exact Or.inr (Or.inl h)
    · exact Or.inr (Or.inr h.gone)

theorem counts_of_cbs (s : Slot) :
    s.nDestroyed = (s.cbs.filter (· == .destroyed)).length ∧ s.nClosed = (s.cbs.filter (· == .closed)).length ∧
    s.nCreated = (s.cbs.filter (· == .created)).length ∧ s.nAccept = (s.cbs.filter (· == .accept)).length :=
  ⟨count_eq_cbs _ _ rfl, count_eq_cbs _ _ rfl, count_eq_cbs _ _ rfl, count_eq_cbs _ _ rfl⟩

/-- the callback clause of the statement on a released slot -/
theorem GoneOk.counts {s : Slot} (h : GoneOk s) :
    s.led = [] ∧ s.bad = false ∧ s.nDestroyed = s.nAccept ∧ s.nDestroyed ≤ 1 ∧ s.nClosed = s.nCreated ∧
    s.nCreated ≤ s.nAccept := by
  obtain ⟨h1, h2, h3, h4⟩ := counts_of_cbs s
  rw [h1, h2, h3, h4]
  refine ⟨h.1.led, h.1.bad, ?_⟩
  rcases h.2 with e | e | e <;> rw [e] <;> decide

/-- **client_death_cleanup** (full statement): for every reachable slot — every transport, every history
    of handler runs with arbitrary inputs, i.e. every prefix of the client's action list, any queue
    contents, any schedule — as soon as a handler sees the death of the client (POLLHUP/POLLNVAL during the
    handshake; POLLHUP/POLLNVAL in the dispatch, in its blocked poll, in the liveness handler) the slot is
    released: ledger empty, nothing released twice, destroyed fired exactly once iff the application had
    accepted the client, closed fired once iff created fired; a slot that is already released satisfies the
    same; a handler run touches no other slot (`other_connections_untouched`) -/
theorem client_death_cleanup (t : Transport) (s : Slot) (hr : Reach t s) :
    (∀ n, s.phase = .auth n → ∀ (i : AuthIn) (env : Env), (i.nval = true ∨ i.hup = true) →
      GoneOk (processAuth t i env s) ∧ (processAuth t i env s).nAccept = 0) ∧
    (s.phase = .conn → ∀ s', DeathSeen t s s' → GoneOk s' ∧ s'.nDestroyed = 1 ∧ s'.nClosed = 1 ∧
      s'.nCreated = 1 ∧ s'.nAccept = 1) ∧
    (s.phase = .gone → GoneOk s) := by
  have hg := reach_good t s hr
  refine ⟨?_, ?_, ?_⟩
  · intro n hp i env hd
    obtain ⟨n', lg, nc, _, rfl, hlg⟩ := hg.auth_of_phase n hp
    have := processAuth_hup t i env n' lg nc hd
    have hc : (processAuth t i env (mkAuth n' lg nc)).cbs = [] := this.2.trans hlg
    exact ⟨⟨this.1, Or.inl hc⟩, (counts_of_empty_trace _ hc).2.2.2⟩
  · intro hp s' hd
    have he := hg.est_of_phase hp
    have hdc : DeadClean s' := by
      cases hd with
      | dispatch i env h => rw [dispatch_of_hup t i env _ hp h]; exact connDisconnect_inv t s he
      | resume need bytes => rw [dispatchResume_of_hup t need bytes _ hp]; exact connDisconnect_inv t s he
      | liveness nval hup pollin eof h =>
        rw [liveness_of_hup t nval hup pollin eof _ hp h]; exact connDisconnect_inv t s he
    have hn := counts_of_full_trace _ hdc.2
    exact ⟨hdc.gone, hn.1, hn.2.1, hn.2.2.1, hn.2.2.2⟩
  · intro hp
    rcases hg with ⟨n, lg, nc, _, rfl, _⟩ | h | h
    · cases hp
    · rw [h.phase] at hp; cases hp
    · exact h

/-- non-vacuity: a reachable established connection with queued work, then the death -/
example : Reach .shm (processAuth .shm { pollin := true, avail := 24 } Env.alive acceptSlot) :=
  .auth _ _ _ 0 .accept rfl

/-! non-vacuity: the configurations are the ones the model reaches -/
example : cbsOf acceptSlot.log = [] ∧ acceptSlot = mkAuth 0 acceptSlot.log 5 := ⟨rfl, rfl⟩
example : DeathSeen .shm (mkEst .shm true true 1 0 0 [.created, .accept] 0)
    (dispatch .shm { hup := true, reqs := [{ id := 2, arg := 3 }] } Env.dead (mkEst .shm true true 1 0 0 [.created, .accept] 0)).1 :=
  .dispatch _ _ (Or.inr rfl)

/-! ### client side, after the server's death -/
namespace Client

/-- later_calls_fail_fast: once the disconnect has been noticed and the server is dead, every call
    returns a disconnect error without the clock moving and without getting stuck — for every
    timeout including -1 (`none`); queued responses are still handed out by `qb_ipcc_recv` -/
theorem later_calls_fail_fast (c : Cl) (T : Option Nat) (evtQ : Nat) (hfix : c.fixD65 = true)
    (hconn : c.conn = false) (hdead : c.deathAt ≤ c.now) (hstuck : c.stuck = false) :
    ((ipccRecv c T).1.now = c.now ∧ (ipccRecv c T).1.stuck = false ∧
      ((ipccRecv c T).2 = .disc ∨ (0 < c.respQ ∧ (ipccRecv c T).2 = .size))) ∧
    (eventRecv c T evtQ = ({ c with conn := false }, .disc)) ∧
    (ipccSend c = ({ c with conn := false }, .disc)) ∧
    (sendvRecv c T = ({ c with conn := false }, .disc)) := by
  have hh : c.hup = true := by simp [Cl.hup, hdead]
  refine ⟨?_, ?_, ?_, ?_⟩
  · by_cases hq : 0 < c.respQ
    · simp [ipccRecv, trRecv, hfix, hconn, hq, hstuck]
    · have hq0 : ¬ (c.respQ > 0) := hq
      simp [ipccRecv, trRecv, hfix, hconn, hq0, checkTimedOut, Cl.hup, hdead, hstuck]
  · simp [eventRecv, hh]
  · simp [ipccSend, hh]
  · simp [sendvRecv, ipccSend, hh]

/-- refutation witness for the code before D65: a later `qb_ipcc_recv(-1)` never returns and a later
    `qb_ipcc_recv(700)` takes 700 ms -/
theorem later_calls_fail_fast_false_before_D65 :
    (ipccRecv { conn := false, fixD65 := false } none).1.stuck = true ∧
    (ipccRecv { conn := false, fixD65 := false } (some 700)).1.now = 700 := by decide

/-- finite_timeout_respected (`qb_ipcc_recv`, `qb_ipcc_event_recv`): the call returns by its deadline -/
theorem finite_timeout_respected (c : Cl) (d evtQ : Nat) (hstuck : c.stuck = false) :
    (ipccRecv c (some d)).1.now ≤ c.now + d ∧ (ipccRecv c (some d)).1.stuck = false ∧
    (eventRecv c (some d) evtQ).1.now ≤ c.now + d ∧ (eventRecv c (some d) evtQ).1.stuck = false := by
  refine ⟨?_, ?_, ?_, ?_⟩
  · unfold ipccRecv trRecv checkTimedOut
    by_cases h1 : (c.fixD65 && !c.conn) = true <;> by_cases hq : c.respQ > 0 <;>
      simp [h1, hq, hstuck] <;> split <;> simp <;> omega
  · unfold ipccRecv trRecv checkTimedOut
    by_cases h1 : (c.fixD65 && !c.conn) = true <;> by_cases hq : c.respQ > 0 <;>
      simp [h1, hq, hstuck] <;> split <;> simp [hstuck]
  · unfold eventRecv
    by_cases hh : c.hup = true <;> by_cases he : evtQ > 0 <;> simp [hh, he]
    · split <;> simp <;> omega
  · unfold eventRecv
    by_cases hh : c.hup = true <;> by_cases he : evtQ > 0 <;> simp [hh, he, hstuck]
    · split <;> simp [hstuck]

/-- server_death_bounded for `qb_ipcc_event_recv`: even with timeout -1 it returns a disconnect error
    no later than the server's death (nothing queued) -/
theorem server_death_bounded_event_recv (c : Cl) (T : Option Nat) (hstuck : c.stuck = false) :
    (eventRecv c T 0).1.stuck = false ∧ (eventRecv c T 0).1.now ≤ max c.now c.deathAt ∧
    (T = none → (eventRecv c T 0).2 = .disc) := by
  unfold eventRecv
  by_cases hh : c.hup = true
  · simp [hh, hstuck]; omega
  · have hlt : c.now < c.deathAt := by simpa [Cl.hup] using hh
    cases T with
    | none => simp [hh, hstuck]; omega
    | some d => simp [hh]; split <;> simp [hstuck] <;> omega

/-- server_death_bounded for `qb_ipcc_sendv_recv(-1)`: it never gets stuck, answers with a disconnect
    error (or with a response that was queued), and returns no later than `QB_IPC_MAX_WAIT_MS` after the
    server's death — with the server dead at the start: at once when the send fails, else within
    2000 ms + the `poll(0)` of the setup socket -/
theorem server_death_bounded_sendv_recv (c : Cl) (hconn : c.conn = true) (hstuck : c.stuck = false) :
    (sendvRecv c none).1.stuck = false ∧
    ((sendvRecv c none).2 = .disc ∨ ((sendvRecv c none).2 = .size ∧ 0 < c.respQ)) ∧
    (sendvRecv c none).1.now ≤ max c.now c.deathAt + MAX_WAIT := by
  by_cases hh : c.hup = true
  · have : sendvRecv c none = ({ c with conn := false }, .disc) := by simp [sendvRecv, ipccSend, hh]
    rw [this]
    exact ⟨hstuck, Or.inl rfl, by dsimp only; omega⟩
  · have : sendvRecv c none = recvLoop (c.deathAt - c.now + 0 + 2) c none 0 := by
      simp [sendvRecv, ipccSend, hh]
    rw [this]
    exact recvLoop_forever _ c 0 hconn hstuck (by omega)

/-- finite_timeout_respected for `qb_ipcc_sendv_recv(d)`: back by the deadline, never stuck -/
theorem finite_timeout_respected_sendv_recv (c : Cl) (d : Nat) (hconn : c.conn = true) (hstuck : c.stuck = false) :
    (sendvRecv c (some d)).1.stuck = false ∧ Rc.final (sendvRecv c (some d)).2 = true ∧
    (sendvRecv c (some d)).1.now ≤ c.now + d := by
  by_cases hh : c.hup = true
  · have : sendvRecv c (some d) = ({ c with conn := false }, .disc) := by simp [sendvRecv, ipccSend, hh]
    rw [this]
    exact ⟨hstuck, rfl, by dsimp only; omega⟩
  · have : sendvRecv c (some d) = recvLoop (c.deathAt - c.now + d + 2) c (some d) d := by
      simp [sendvRecv, ipccSend, hh]
    rw [this]
    exact recvLoop_finite _ c d d hconn hstuck (by omega)

example : (sendvRecv { deathAt := 4500 } none) = ({ conn := false, now := 6000, deathAt := 4500 }, .disc) := by decide

/-- client_disconnect_removes_files: when the disconnect has been noticed and the dead server has been
    reaped within the four `kill(pid, 0)` probes (or there is no server pid), `qb_ipcc_shm_disconnect`
    reaches `unlinkat` for the data and the header file of all three rings, in the order request,
    response, event; each file is removed, or — when the unlink fails — truncated -/
theorem client_disconnect_removes_files (i : DiscIn) (hconn : i.conn = false)
    (hdead : i.serverPid = true → ∃ k, k < 4 ∧ i.killEsrch k = true) (hdir : ∀ r, i.dirOpenOk r = true) :
    (shmDisconnectFiles i).map (·.1) =
      [.data .req, .hdr .req, .data .resp, .hdr .resp, .data .evt, .hdr .evt] ∧
    (∀ f fate, (f, fate) ∈ shmDisconnectFiles i →
      (i.unlinkOk f = true → fate = .removed) ∧ (i.unlinkOk f = false → fate = .truncated (i.truncOk f))) := by
  have hf : forceClose i = true := by
    unfold forceClose
    cases hs : i.serverPid
    · simp [hconn]
    · obtain ⟨k, hk, he⟩ := hdead hs
      simp only [hconn, Bool.not_false, Bool.true_and, if_true]
      exact List.any_eq_true.mpr ⟨k, List.mem_range.mpr hk, he⟩
  constructor
  · simp [shmDisconnectFiles, closeRing, hf, hdir]
  · intro f fate hm
    simp only [shmDisconnectFiles, closeRing, hf, hdir, if_true, List.cons_append, List.nil_append,
      List.mem_cons, Prod.mk.injEq, List.not_mem_nil, or_false] at hm
    rcases hm with ⟨rfl, rfl⟩ | ⟨rfl, rfl⟩ | ⟨rfl, rfl⟩ | ⟨rfl, rfl⟩ | ⟨rfl, rfl⟩ | ⟨rfl, rfl⟩ <;>
      (unfold unlinkOrTruncate; constructor <;> intro h <;> simp [h])

/-- without the server being reaped (kill never says ESRCH) the files are left: the hypothesis is needed -/
theorem client_disconnect_needs_reaped_server :
    (shmDisconnectFiles { conn := false, killEsrch := fun _ => false, unlinkOk := fun _ => true }).map (·.2) =
      [.left, .left, .left, .left, .left, .left] := by decide

example : ∃ i : DiscIn, i.conn = false ∧ (i.serverPid = true → ∃ k, k < 4 ∧ i.killEsrch k = true) ∧
    (∀ r, i.dirOpenOk r = true) :=
  ⟨{ conn := false, killEsrch := fun k => k == 2, unlinkOk := fun _ => true }, rfl, fun _ => ⟨2, by omega, rfl⟩, fun _ => rfl⟩

/-- client_disconnect_probes_first: `qb_ipcc_disconnect` on a connection whose server is dead (POLLHUP
    visible on the setup socket) and reaped within the four `kill(pid, 0)` probes reaches the force-close
    (`unlinkat`, else truncate) of the data and header file of all three rings WHATEVER `c->is_connected`
    was on entry — in particular when no earlier call noticed the death (the server died while the client
    was idle and `qb_ipcc_disconnect` is the client's next call): the zero-timeout probe at the start of
    `qb_ipcc_disconnect` clears the flag `qb_ipcc_shm_disconnect` decides on -/
theorem client_disconnect_probes_first (c : Cl) (env : DiscIn) (hdead : c.deathAt ≤ c.now)
    (hreaped : env.serverPid = true → ∃ k, k < 4 ∧ env.killEsrch k = true)
    (hdir : ∀ r, env.dirOpenOk r = true) :
    (ipccDisconnectFiles true c env).map (·.1) =
      [.data .req, .hdr .req, .data .resp, .hdr .resp, .data .evt, .hdr .evt] ∧
    (∀ f fate, (f, fate) ∈ ipccDisconnectFiles true c env →
      (env.unlinkOk f = true → fate = .removed) ∧
      (env.unlinkOk f = false → fate = .truncated (env.truncOk f))) := by
  have hc : (disconnectProbe c).conn = false := by
    simp [disconnectProbe, Cl.hup, hdead]
  have := client_disconnect_removes_files { env with conn := (disconnectProbe c).conn } hc hreaped hdir
  simpa [ipccDisconnectFiles] using this

/-- the probe is needed: without it a client that has not noticed the death (`is_connected` still true)
    only unmaps the rings and all six files of the dead, reaped server stay; with it they are removed -/
theorem client_disconnect_without_probe_leaves_files :
    (ipccDisconnectFiles false { conn := true, now := 5, deathAt := 3 }
        { conn := true, killEsrch := fun _ => true, unlinkOk := fun _ => true }).map (·.2) =
      [.left, .left, .left, .left, .left, .left] ∧
    (ipccDisconnectFiles true { conn := true, now := 5, deathAt := 3 }
        { conn := true, killEsrch := fun _ => true, unlinkOk := fun _ => true }).map (·.2) =
      [.removed, .removed, .removed, .removed, .removed, .removed] := by decide

/-- the probe does nothing to a connection whose server is alive -/
theorem disconnectProbe_live (c : Cl) (h : c.now < c.deathAt) : disconnectProbe c = c := by
  simp [disconnectProbe, Cl.hup, Nat.not_le.mpr h]

example : ∃ (c : Cl) (env : DiscIn), c.conn = true ∧ c.deathAt ≤ c.now ∧
    (env.serverPid = true → ∃ k, k < 4 ∧ env.killEsrch k = true) ∧ (∀ r, env.dirOpenOk r = true) :=
  ⟨{ conn := true, now := 5, deathAt := 3 }, { conn := true, killEsrch := fun k => k == 3, unlinkOk := fun _ => false },
   rfl, by decide, fun _ => ⟨3, by omega, rfl⟩, fun _ => rfl⟩

end Client
end QbVerif.IpcLife
