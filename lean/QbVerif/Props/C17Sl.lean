/-
C17 — maps behave like a dictionary; notifiers fire once.  Skiplist part (lib/skiplist.c as it is
in the repository, i.e. with the repairs D19 and D23; model: Model/Skiplist.lean, compared exactly
with the real code by checks/C17.py and checks/C18.py; specification: `Dict` of Model/MapSpec.lean,
flavour `.sl`: ascending strcmp order).

FULL STATEMENT (not proved in this generality):
  theorem sl_refines_dict (ops : List Op) (h : ∀ op ∈ ops, op.isIter = false) :
      results .sl (run ops) = results .sl (Dict.run .sl ops) ∧
      trace .sl (run ops) = trace .sl (Dict.run .sl ops)
for all sequences of put/get/rm/count/foreach (complete or abandoned)/notifier add/del/destroy,
whatever levels `skiplist_level_generate` draws.

PROVED: `sl_refines_dict_partial` — the same statement for all histories in which every `put` draws
level 0 (`level0`: the interposed `random()` makes `skiplist_level_generate` return
SKIPLIST_LEVEL_MIN; the list is then a sorted singly linked list, `list->level` ∈ {-1, 0}).  All
keys, all values, all notifier registrations, any length.  It covers the whole of the code of every
operation except the iterations of the level loops above level 0: search loop of
lookup/put/rm, `skiplist_node_next`, splice, the takeover-and-repoint branch behind the header (the
header's forward array is freed and replaced by the removed node's — arrays change owner even
without iterators), level trimming down to -1 and back, `qb_map_foreach` through
iter_create/iter_next/iter_free with its reference counting, notifier lists on entry nodes and on
the header, `skiplist_destroy` (DELETED + FREE for every entry in ascending order, none for the
header).  Proof: invariant `Inv` (Lemmas/SlInv.lean: level-0 chain from the header strictly sorted,
every linked node allocated with refcount 1, forward arrays allocated and pairwise distinct, ids
fresh), preserved by every operation, one lemma per operation (`put_new`, `put_replace`, `rm_hit` +
`erase_inv`, `rm_miss`, `get_eq`, `foreach_eq`, `nadd_eq`, `ndel_eq`, `destroy_eq`).
What is missing for the full statement: the invariant for the higher levels (each level's chain a
sub-sequence of the one below; entries above a node's level NULL; the header losing its higher
links in a takeover) and the loops `linkLevels/spliceLevels/copyLevels/trimLevels` beyond one
iteration.  Multi-level histories are covered by the exact differential comparison of the model
with the real code and by the finite facts `test_sl_multilevel_*` below.
-/
import QbVerif.Lemmas.SlSim

namespace QbVerif.Skiplist
open QbVerif.Map
set_option linter.unusedSimpArgs false

/-- C17 for the skiplist, level-0 draws: results (get/rm/count/return codes up to the error code,
    traversals with their ORDER — ascending strcmp order — and completeness flag) and the
    notification trace (every callback of every operation, in order) equal the dictionary's. -/
theorem sl_refines_dict_partial (ops : List Op) (h : ∀ op ∈ ops, op.isIter = false)
    (h0 : ∀ op ∈ ops, level0 op = true) :
    results .sl (run ops) = results .sl (Dict.run .sl ops) ∧
    trace .sl (run ops) = trace .sl (Dict.run .sl ops) := by
  obtain ⟨_, h2, h3⟩ := sim_run ops sim_create h h0
  refine ⟨h3, ?_⟩
  have := congrArg (List.map CTrace.seq) h2
  simpa [trace, Flavour.sl, List.map_map, Function.comp_def, run, Dict.run] using this

/-- the abstraction behind it: after any such history the level-0 chain from the header holds
    exactly the dictionary's entries, strictly ascending; every linked node is referenced once;
    forward arrays are unshared; `count` is right; the model has not crashed -/
theorem sl_abstraction_partial (ops : List Op) (h : ∀ op ∈ ops, op.isIter = false) (h0 : ∀ op ∈ ops, level0 op = true) :
    ∃ ids, Inv (run ops).1 ids (Dict.run .sl ops).1.entries (Dict.run .sl ops).1.globals :=
  (sim_run ops sim_create h h0).1.inv

/-- no use-after-free, no double free, no divergence in iterator-free level-0 histories
    (`qb_map_foreach`'s internal iterator included) -/
theorem sl_memory_safe_c17_partial (ops : List Op) (h : ∀ op ∈ ops, op.isIter = false)
    (h0 : ∀ op ∈ ops, level0 op = true) : (run ops).1.crashed = false := by
  obtain ⟨ids, hi⟩ := sl_abstraction_partial ops h h0
  exact hi.ok

/-- a complete traversal in any state satisfying the invariant: every present entry exactly once,
    in ascending key order, nothing else, no notification, state unchanged -/
theorem sl_complete_iteration_ascending {s ids es g} (h : Inv s ids es g) :
    s.foreach 0 = .ok (s, ⟨[], .visited (es.map kv) true⟩) ∧
    (es.map kv).Pairwise (fun a b => Key.lt a.1 b.1 = true) := by
  refine ⟨by simpa [takeStop] using foreach_eq h 0, ?_⟩
  rw [List.pairwise_map]
  exact h.sorted

/-- an abandoned traversal leaves the map as it was (the D19 clause) -/
theorem sl_abandoned_iteration_leaves_map {s ids es g} (h : Inv s ids es g) (stop : Nat) :
    ∃ out, s.foreach stop = .ok (s, out) := ⟨_, foreach_eq h stop⟩

/-- non-vacuity of `sl_refines_dict_partial`'s hypotheses and a reading aid -/
example : (∀ op ∈ [Op.put [0x61] 1 0, .foreach 1 none, .rm [0x61], .destroy], op.isIter = false) ∧
    (∀ op ∈ [Op.put [0x61] 1 0, .foreach 1 none, .rm [0x61], .destroy], level0 op = true) := by decide

example : Inv create [] [] [] := create_inv

end QbVerif.Skiplist
