/-
C17 — maps behave like a dictionary; notifiers fire once.  Skiplist part (lib/skiplist.c as it is
in the repository, i.e. with the repairs D19 and D23; model: Model/Skiplist.lean, compared exactly
with the real code by checks/C17.py and checks/C18.py; specification: `Dict` of Model/MapSpec.lean,
flavour `.sl`: ascending strcmp order).

MAIN THEOREM `sl_refines_dict` (proved, all levels): for ALL sequences of
put/get/rm/count/foreach (complete or abandoned)/notifier add/del/destroy, all keys and values and
WHATEVER LEVELS `skiplist_level_generate` draws (the `lvl=` of the op line), the results
(get/rm/count/return codes up to the error number, traversals with their ORDER — ascending strcmp
order — and completeness flag) and the notification trace (every callback of every operation, in
order) of the skiplist model equal those of the sorted dictionary.

Proof.  Invariant `Inv` (Lemmas/SlmInv.lean): the level-0 chain from the header holds exactly the
dictionary's entries, strictly sorted; every linked node is allocated with refcount = 1 + number of
iterators parked on it; forward arrays are allocated and pairwise UNSHARED; entries of a forward
array at and above the node's level are NULL; for every level there is a pointer chain from the
header (`Levels`), each a sub-sequence of the one below, empty from `list->level + 1` on, holding
only nodes that are tall enough; ids fresh.  It is preserved by every operation:
* search loop of lookup/put/rm over all levels (`level_walk`, `search_levels`, `search_top`: either a
  node carrying the key, or `update[l]` = the last node of the level-`l` chain below the key, for
  every level; fuel never runs out);
* `put` of an absent key (`put_new`): the loop "Drop @new_node into @list" in closed form
  (`linkLevels_eq`), the node linked in behind `update[l]` on every level up to its own, list level
  raised; of a present key (`put_replace`);
* `rm` (`rm_hit`, `erase_inv`, `rm_miss`): splice loop, takeover-and-repoint copy loop and level
  trimming in closed form (`spliceLevels_eq`, `copyLevels_eq`, `trimLevels_eq`); plain removal (node
  destroyed with its forward array) and takeover behind the header (the header's array is freed,
  the header continues with the removed node's array and LOSES its links above the removed node's
  level — the higher chains become empty, which the invariant allows);
* `qb_map_foreach` through iter_create/iter_next/iter_free with the reference counting
  (`foreach_eq`), notifier lists on entry nodes and on the header (`nadd_eq`, `ndel_eq`),
  `skiplist_destroy` (`destroy_eq`: DELETED + FREE for every entry in ascending order, none for the
  header).
-/
import QbVerif.Lemmas.SlmSim

namespace QbVerif.Skiplist
open QbVerif.Map
set_option linter.unusedSimpArgs false

/-- C17 for the skiplist: results (get/rm/count/return codes up to the error code,
    traversals with their ORDER — ascending strcmp order — and completeness flag) and the
    notification trace (every callback of every operation, in order) equal the dictionary's. -/
theorem sl_refines_dict (ops : List Op) (h : ∀ op ∈ ops, op.isIter = false) :
    results .sl (run ops) = results .sl (Dict.run .sl ops) ∧
    trace .sl (run ops) = trace .sl (Dict.run .sl ops) := by
  obtain ⟨_, h2, h3⟩ := sim_run ops sim_create rfl h
  refine ⟨h3, ?_⟩
  have := congrArg (List.map CTrace.seq) h2
  simpa [trace, Flavour.sl, List.map_map, Function.comp_def, run, Dict.run] using this

/-- the abstraction behind it: after any such history the level-0 chain from the header holds
    exactly the dictionary's entries, strictly ascending; every linked node is referenced once;
    forward arrays are unshared; `count` is right; the model has not crashed -/
theorem sl_abstraction (ops : List Op) (h : ∀ op ∈ ops, op.isIter = false) :
    ∃ ids, Inv (run ops).1 ids (Dict.run .sl ops).1.entries (Dict.run .sl ops).1.globals :=
  (sim_run ops sim_create rfl h).1.inv

/-- no use-after-free, no double free, no divergence in iterator-free histories
    (`qb_map_foreach`'s internal iterator included) -/
theorem sl_memory_safe_c17 (ops : List Op) (h : ∀ op ∈ ops, op.isIter = false) : (run ops).1.crashed = false := by
  obtain ⟨ids, hi⟩ := sl_abstraction ops h
  exact hi.ok

/-- a complete traversal in any state satisfying the invariant (whatever iterators are open):
    every present entry exactly once, in ascending key order, nothing else, no notification, and
    the state afterwards satisfies the invariant for the same entries and iterators -/
theorem sl_complete_iteration_ascending {s ids es g} (h : Inv s ids es g) (h0 : 0 ∉ s.iters.map (·.1)) :
    (∃ s', s.foreach 0 = .ok (s', ⟨[], .visited (es.map kv) true⟩) ∧ Inv s' ids es g ∧ s'.iters = s.iters) ∧
    (es.map kv).Pairwise (fun a b => Key.lt a.1 b.1 = true) := by
  refine ⟨?_, ?_⟩
  · obtain ⟨s', h1, h2, h3, _⟩ := foreach_eq h h0 0
    exact ⟨s', by simpa [takeStop] using h1, h2, h3⟩
  · rw [List.pairwise_map]
    exact h.sorted

/-- an abandoned traversal leaves the map as it was (the D19 clause): same entries, same
    notifiers, same open iterators, invariant intact -/
theorem sl_abandoned_iteration_leaves_map {s ids es g} (h : Inv s ids es g) (h0 : 0 ∉ s.iters.map (·.1)) (stop : Nat) :
    ∃ s' out, s.foreach stop = .ok (s', out) ∧ Inv s' ids es g ∧ s'.iters = s.iters := by
  obtain ⟨s', h1, h2, h3, _⟩ := foreach_eq h h0 stop
  exact ⟨s', _, h1, h2, h3⟩

/-- non-vacuity of `sl_refines_dict`'s hypothesis -/
example : ∀ op ∈ [Op.put [0x61] 1 3, .foreach 1 none, .rm [0x61], .destroy], op.isIter = false := by decide

example : Inv create [] [] [] := create_inv

end QbVerif.Skiplist
