import QbVerif.Lemmas.IpcsLifeSvcTop3

/-!
C04 — the SERVICE object's own reference count, for EVERY history of every operation (script, connect
incl. refused handshakes and failing transports, send, sendn, gone, disc/ref/unref/ev/iter from inside any
callback, job, run, rate, fault, half, halfgone, destroy, finish), in the repaired model AND in the model
of the code before the repairs D20/D20b/D20c (`SvcInv` does not depend on `Inv`).

`cntF (frOf s) s.nconn` = number of allocated connections that have been freed, so
`svcRc + #freed = [creator] + nconn + #pending handshakes` says: the count is the creator's reference
(until qb_ipcs_destroy) + one per allocated, not yet freed connection + one per pending handshake.
-/
namespace QbVerif.Props.C04Svc
open QbVerif.IpcsLife

/-- no_touch_after_free, service object: for EVERY history the freed service is never touched
    (qb_ipcs_unref from a connection's last unref, from handle_new_connection, from destroy_ipc_auth_data,
    qb_ipcs_destroy itself, the list walks of the application and of qb_ipcs_request_rate_limit). -/
theorem no_touch_after_free_service (ops : List Op) : (run initFixed ops).svcUaf = false := by
  obtain ⟨_, h, _⟩ := run_svc ops initFixed initFixed_svc
  exact h.nu

/-- the same for the code before the repairs: the defects D20/D20b/D20c touch freed CONNECTIONS, never the
    freed service (every such touch stops the run before the service is reached) -/
theorem no_touch_after_free_service_orig (ops : List Op) : (run initOrig ops).svcUaf = false := by
  obtain ⟨_, h, _⟩ := run_svc ops initOrig initOrig_svc
  exact h.nu

/-- the service's count between operations is exactly the sum of its owners -/
theorem service_refcount_exact (ops : List Op) (hh : (run initFixed ops).halt = false) :
    (run initFixed ops).svcRc + cntF (frOf (run initFixed ops)) (run initFixed ops).nconn =
      b2n (!(run initFixed ops).svcGone) + (run initFixed ops).nconn + (run initFixed ops).halfs.length := by
  obtain ⟨p, h, hp⟩ := run_svc ops initFixed initFixed_svc
  have := h.cnt
  rw [hp hh] at this
  exact this

/-- service_freed_exactly_at_zero: for EVERY history the service is marked freed exactly when its count
    is zero, and (no sanitizer stop) that is exactly when the last owner is gone: qb_ipcs_destroy has
    dropped the creator's reference, no handshake is pending, every allocated connection has been freed. -/
theorem service_freed_exactly_at_zero (ops : List Op) :
    ((run initFixed ops).svcFreed = true ↔ (run initFixed ops).svcRc = 0) ∧
    ((run initFixed ops).halt = false →
      ((run initFixed ops).svcFreed = true ↔
        ((run initFixed ops).svcGone = true ∧ (run initFixed ops).halfs = [] ∧
         cntF (frOf (run initFixed ops)) (run initFixed ops).nconn = (run initFixed ops).nconn))) := by
  obtain ⟨p, h, hp⟩ := run_svc ops initFixed initFixed_svc
  refine ⟨h.fz, fun hh => ?_⟩
  have hc := h.cnt
  rw [hp hh] at hc
  have hle := cntF_le (frOf (run initFixed ops)) (run initFixed ops).nconn
  rw [h.fz]
  generalize (run initFixed ops).svcGone = g at hc ⊢
  generalize (run initFixed ops).halfs = hl at hc ⊢
  cases g <;> cases hl <;> simp [b2n] at hc ⊢ <;> omega

/-- every invariant-level statement, for any reachable state of either variant -/
theorem service_invariant_every_history (ops : List Op) (s : St) (h : SvcTop s) : SvcTop (run s ops) :=
  run_svc ops s h

example : SvcTop initFixed ∧ SvcTop initOrig := ⟨initFixed_svc, initOrig_svc⟩

/-- non-vacuity: a history with a refused handshake, a pending one, connections, destroy and finish runs to the
    end unhalted, and the service is freed at the end -/
theorem test_service_freed_at_end :
    (run initFixed [.connect 0, .fault 0 1, .half 3, .half 2, .destroy, .finish]).halt = false ∧
    (run initFixed [.connect 0, .fault 0 1, .half 3, .half 2, .destroy, .finish]).svcFreed = true ∧
    (run initFixed [.connect 0, .half 2]).svcRc = 3 := by decide

end QbVerif.Props.C04Svc
