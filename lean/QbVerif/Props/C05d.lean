import QbVerif.Props.C05c
import QbVerif.Model.AdmissionPlant

/-! # C05, fourth part — a hostile peer plants an object under a predictable file name

`Model/AdmissionPlant.lean`: a second process with the peer's ids puts a file or a symlink into the
connection directory (which the server has handed to the peer before it creates its files there).
The server creates every file with `open(O_CREAT|O_EXCL|O_TRUNC)` (`Op.creat`), so the planted name
makes that call fail with EEXIST; the set-up takes its error path exactly as for an injected failure
of that call (`failed_setup_leaves_nothing`), and the planted object is never touched. -/
namespace QbVerif.Props.C05
open QbVerif.Admission

/-! ## without a planter the extended executor IS the model of the other theorems -/

theorem doCallP_none (env : Env) (o : Op) (sp : StP) :
    doCallP env none o sp = ({ sp with s := (doCall env o sp.s).1 }, (doCall env o sp.s).2) := rfl

theorem execP_noPlant (env : Env) : ∀ (prog : Prog) (sp : StP),
    (execP env none prog sp).s = exec env prog sp.s ∧ (execP env none prog sp).plant = sp.plant := by
  intro prog
  induction prog with
  | halt => intro sp; exact ⟨rfl, rfl⟩
  | op o u ok err ihok iherr =>
    intro sp
    unfold execP exec
    rw [doCallP_none]
    cases hd : doCall env o sp.s with
    | mk s' r =>
      cases r with
      | none => exact ihok _
      | some e =>
        cases u with
        | checked => exact iherr _
        | tolEperm =>
          simp only
          split
          · exact ihok _
          · exact iherr _
        | branch => exact iherr _
  | ign o k ih => intro sp; unfold execP exec; rw [doCallP_none]; exact ih _
  | note e k ih => intro sp; unfold execP exec; exact ih _
  | setRes r k ih => intro sp; unfold execP exec; exact ih _
  | respond k ih => intro sp; unfold execP exec; exact ih _

/-- every theorem about `run i` is a theorem about the extended model without a planter -/
theorem runP_noPlant (i : Input) : (runP i none).s = run i ∧ (runP i none).plant = none :=
  execP_noPlant i.env (connProg i) {}

/-! ## the planted object is refused -/

/-- what a set-up with a planted object must look like -/
structure PlantRefused (i : Input) (pl : Plant) : Prop where
  /-- the kernel let the peer create its object -/
  planted : ∃ l, (runP i (some pl)).plant = some (none, l) ∧ l.get pl.path = some pl.ent
  /-- the client is answered -EEXIST: `qb_ipcc_connect` fails -/
  refused : (runP i (some pl)).s.clientRes = some (-(EEXIST : Int))
  /-- no channel: the connection never becomes ESTABLISHED -/
  never_established : Ev.established ∉ (runP i (some pl)).s.events
  /-- at every later moment the object is exactly what the peer made: never chown-ed, chmod-ed,
      truncated-and-adopted or unlinked by the server -/
  untouched : ∀ l ∈ (runP i (some pl)).s.moments.drop pl.after, l.get pl.path = some pl.ent
  /-- nothing the server created is left: only the directory (not removable: the peer's object is in it)
      and that object -/
  nothing_left : ∀ x ∈ (runP i (some pl)).s.led, x.1 = .dir ∨ x = (pl.path, pl.ent)

/-- the connection directory at the moment the planter acts: after call 3 it has just been handed to
    the peer (the ids of the control message), after call 4 the transport has handed it to the
    authorised owner; mode 0770 in both cases -/
def dirEntAt (i : Input) (k : Nat) : Ent :=
  if k = 3 then ⟨.dir, 0o770, i.uid, i.gid⟩ else ⟨.dir, 0o770, i.authOf.uid, i.authOf.gid⟩

macro "plant_eval" : tactic =>
  `(tactic| simp [runP, execP, doCallP, plantOp, Plant.ent, StP.upd, connProg, exec_noteAuth, doCall,
      applyOp, Input.env, refuse, Ledger.has, Ledger.add, Ledger.erase, Ledger.modify, Ledger.get, shmConnect,
      shmRbOpen, rbOpen, mmapFileOpen, rbClose, teardown, usConnect, St.clientRes, St.events, St.moments,
      EPERM, EEXIST, Input.authOf, noteAuth, *])

set_option hygiene false in
/-- one predictable name, planter acting after call 3 or 4 -/
macro "plant_case" i:term : tactic =>
  `(tactic| (rcases ‹Plant.after _ = 3 ∨ Plant.after _ = 4› with hk | hk <;> cases hauth : Input.auth $i <;>
      simp [dirEntAt, hk, hauth, Input.authOf] at hw <;> constructor <;> plant_eval))

section cases
variable (i : Input) (pl : Plant) (hrc : i.rc = 0) (hf : i.failAt = 0)
  (hk : pl.after = 3 ∨ pl.after = 4) (hw : mayWrite (dirEntAt i pl.after) pl.uid pl.gid = true)
include hrc hf hk hw

set_option maxRecDepth 8000 in
set_option maxHeartbeats 1600000 in
theorem plant_req_hdr (ht : i.transport = .shm) (hp : pl.path = .hdr .request) : PlantRefused i pl := by
  plant_case i

set_option maxRecDepth 8000 in
set_option maxHeartbeats 1600000 in
theorem plant_req_data (ht : i.transport = .shm) (hp : pl.path = .data .request) : PlantRefused i pl := by
  plant_case i

set_option maxRecDepth 8000 in
set_option maxHeartbeats 1600000 in
theorem plant_rsp_hdr (ht : i.transport = .shm) (hp : pl.path = .hdr .response) : PlantRefused i pl := by
  plant_case i

set_option maxRecDepth 8000 in
set_option maxHeartbeats 1600000 in
theorem plant_rsp_data (ht : i.transport = .shm) (hp : pl.path = .data .response) : PlantRefused i pl := by
  plant_case i

set_option maxRecDepth 8000 in
set_option maxHeartbeats 1600000 in
theorem plant_evt_hdr (ht : i.transport = .shm) (hp : pl.path = .hdr .event) : PlantRefused i pl := by
  plant_case i

set_option maxRecDepth 8000 in
set_option maxHeartbeats 1600000 in
theorem plant_evt_data (ht : i.transport = .shm) (hp : pl.path = .data .event) : PlantRefused i pl := by
  plant_case i

set_option maxRecDepth 8000 in
set_option maxHeartbeats 1600000 in
theorem plant_control (ht : i.transport = .sock) (hd : i.usDirChown = true) (hp : pl.path = .control) :
    PlantRefused i pl := by
  plant_case i

end cases

/-- **A planted object is refused.**  The accept callback accepts, no call is made to fail, and a
    process that may write the connection directory (the peer: the directory is its own, mode 0770)
    plants a regular file of ANY mode or a symlink (`pl.mode` arbitrary) under ANY of the names the
    server is about to create (six ring files / the control file), in the window between the hand-over
    of the directory and the first file creation (after call 3 or 4), for all ids, umask, owner and
    mode choices of the accept callback, both transports.  Then: the server's
    `open(O_CREAT|O_EXCL)` on that name fails, the client is answered -EEXIST, the connection never
    becomes ESTABLISHED, the planted object is never touched (at every later moment it is exactly
    what the peer made), and nothing the server created is left behind. -/
theorem planted_object_refused (i : Input) (pl : Plant) (hrc : i.rc = 0) (hf : i.failAt = 0)
    (hd : i.usDirChown = true) (hk : pl.after = 3 ∨ pl.after = 4)
    (hw : mayWrite (dirEntAt i pl.after) pl.uid pl.gid = true)
    (hp : pl.path ∈ createdPaths i.transport) : PlantRefused i pl := by
  cases ht : i.transport with
  | shm =>
    simp only [ht, createdPaths, List.mem_cons, List.not_mem_nil, or_false] at hp
    rcases hp with hp | hp | hp | hp | hp | hp
    · exact plant_req_hdr i pl hrc hf hk hw ht hp
    · exact plant_req_data i pl hrc hf hk hw ht hp
    · exact plant_rsp_hdr i pl hrc hf hk hw ht hp
    · exact plant_rsp_data i pl hrc hf hk hw ht hp
    · exact plant_evt_hdr i pl hrc hf hk hw ht hp
    · exact plant_evt_data i pl hrc hf hk hw ht hp
  | sock =>
    simp only [ht, createdPaths, List.mem_cons, List.not_mem_nil, or_false] at hp
    exact plant_control i pl hrc hf hk hw ht hd hp

/-- non-vacuity: peer 1001:1002 plants a symlink as `qb-response-…-data` right after it got the directory -/
example : PlantRefused { uid := 1001, gid := 1002 }
    { after := 3, path := .data .response, mode := S_IFLNK ||| 0o777, uid := 1001, gid := 1002 } :=
  planted_object_refused _ _ rfl rfl rfl (Or.inl rfl) (by decide) (by decide)

/-- the planted name acts exactly like an injected EEXIST on the call that creates it: same answer to
    the client as in `failed_setup_leaves_nothing` -/
theorem planted_like_failed_creat (i : Input) (pl : Plant) (hrc : i.rc = 0) (hf : i.failAt = 0)
    (hd : i.usDirChown = true) (hk : pl.after = 3 ∨ pl.after = 4)
    (hw : mayWrite (dirEntAt i pl.after) pl.uid pl.gid = true)
    (hp : pl.path ∈ createdPaths i.transport) :
    (runP i (some pl)).s.clientRes = some (-((EEXIST : Nat) : Int)) ∧
    SetupEnd { i with failAt := creatIndex pl.path, failErr := EEXIST } := by
  refine ⟨(planted_object_refused i pl hrc hf hd hk hw hp).refused, ?_⟩
  have hE : (EEXIST : Nat) ≠ 0 := by decide
  cases ht : i.transport with
  | shm =>
    simp only [ht, createdPaths, List.mem_cons, List.not_mem_nil, or_false] at hp
    refine failed_setup_leaves_nothing _ hrc ?_ ?_ hE <;>
      rcases hp with hp | hp | hp | hp | hp | hp <;> simp [Input.failAt2, Input.setupCalls, creatIndex, hp]
  | sock =>
    simp only [ht, createdPaths, List.mem_cons, List.not_mem_nil, or_false] at hp
    refine failed_setup_leaves_nothing _ hrc ?_ ?_ hE <;>
      simp [Input.failAt2, Input.setupCalls, creatIndex, hp, hd]

/-- refutation witness for a server that opens WITHOUT O_EXCL: not expressible as a run of this model
    (`Op.creat` is the exclusive open); the differential check compares the open flags (`creat` vs
    `creat-noexcl`) and the oracle flags any successful server `open` on a planted name. -/
theorem test_plant_kernel_refuses :
    -- a peer that is not the directory's owner, group or root cannot plant (EACCES), the set-up succeeds
    (runP { uid := 1001, gid := 1002 }
      (some { after := 3, path := .hdr .request, mode := 0o666, uid := 1003, gid := 1004 })).plant.map (·.1)
      = some (some EACCES) ∧
    (runP { uid := 1001, gid := 1002 }
      (some { after := 3, path := .hdr .request, mode := 0o666, uid := 1003, gid := 1004 })).s.clientRes = some 0 ∧
    -- planting a name the server has already created fails with EEXIST for the planter
    (runP { uid := 1001, gid := 1002 }
      (some { after := 9, path := .hdr .request, mode := 0o666, uid := 1001, gid := 1002 })).plant.map (·.1)
      = some (some EEXIST) := by
  decide

end QbVerif.Props.C05
