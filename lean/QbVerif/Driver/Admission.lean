import QbVerif.Model.Admission
import QbVerif.Model.AdmissionPlant
import QbVerif.Driver.Util

/-! Driver `admission` (C05), same lines as harness/ipc/ipc_adm.c:
`srv T UMASK` → `srv ok`; `par N` → `par N`;
`cli I uid=U gid=G ids=res|eff rc=R auth=U2:G2:MODE|- fail=K:ENAME|- msgs=M` → the block the harness
prints for that client (`fs CALL PATH [ARGS] -> RES | SNAP`, `accept`, `authset`, `connect`, `snap`,
`msgs`, teardown calls, `late`, `residue`).  Argument `prerepair` selects the model of the tree before
repair D27b (5cb555e: qb_ipcs_us_connect chowns the directory).  `--classify`: per client only
`cli I classes: <names of the known-finding class predicates the input falls into | ->`.  With `ids=eff` the child only changes its effective ids; the kernel then fills
SCM_CREDENTIALS with the REAL ids, which are the harness's own (root): ugp = 0:0.
`peer=raw hs=… frag=…` (a peer that is not libqb's client) do not change what the server does to the
file system: ignored here.  `plant=K:NAME:f666|f644|link`: a process with the client's ids plants an
object right after call K (`Model/AdmissionPlant.lean`): line `plant NAME KIND -> RES | SNAP` after the
K-th `fs` line, `planted same|gone|changed|none` and the (never modified) victim file before `residue`. -/
namespace QbVerif.Driver.Admission
open QbVerif.Admission QbVerif.Driver

structure D where
  transport : Transport := .shm
  umask : Nat := 0o022
  dirfix : Bool := true
  classify : Bool := false

def octDigits (n : Nat) : String :=
  String.ofList ((Nat.toDigits 8 n))

def oct4 (n : Nat) : String :=
  let s := octDigits n
  String.ofList (List.replicate (4 - s.length) '0') ++ s

def parseOct (s : String) : Option Nat :=
  s.toList.foldl (fun acc c => acc.bind fun a =>
    if '0' ≤ c ∧ c ≤ '7' then some (a * 8 + (c.toNat - '0'.toNat)) else none) (some 0)

def errTable : List (Nat × String) :=
  [(1, "EPERM"), (2, "ENOENT"), (4, "EINTR"), (5, "EIO"), (7, "E2BIG"), (9, "EBADF"), (11, "EAGAIN"),
   (12, "ENOMEM"), (13, "EACCES"), (14, "EFAULT"), (16, "EBUSY"), (17, "EEXIST"), (22, "EINVAL"),
   (28, "ENOSPC"), (32, "EPIPE"), (34, "ERANGE"), (39, "ENOTEMPTY"), (75, "EOVERFLOW"), (95, "ENOTSUP")]

def errName (e : Nat) : String :=
  match errTable.find? (·.1 = e) with
  | some (_, n) => n
  | none => s!"E{e}"

def errNum (s : String) : Nat :=
  match errTable.find? (·.2 = s) with
  | some (n, _) => n
  | none => ((s.drop 1).toString.toNat?).getD 5

def ringName : Ring → String
  | .request => "request" | .response => "response" | .event => "event"

def pathName : Path → String
  | .dir => "."
  | .parent => ".."
  | .hdr r => ringName r ++ "-header"
  | .data r => ringName r ++ "-data"
  | .control => "control"

def insertSorted (x : String × String) : List (String × String) → List (String × String)
  | [] => [x]
  | y :: ys => if x.1 < y.1 then x :: y :: ys else y :: insertSorted x ys

def entStr (name : String) (e : Ent) : String :=
  let t := match e.kind with | .dir => "d" | .file => if e.mode ≥ S_IFLNK then "l" else "f"
  s!"{name}={t}{oct4 (e.mode &&& 0o7777)}:{e.uid}:{e.gid}"

def snap (l : Ledger) : String :=
  match l.get .dir with
  | none => "-"
  | some d =>
    let rest := (l.filter (fun x => x.1 ≠ .dir)).foldl
      (fun acc x => insertSorted (pathName x.1, entStr (pathName x.1) x.2) acc) []
    ",".intercalate (entStr "." d :: rest.map (·.2))

def opStr : Op → String
  | .mkdtemp => "mkdtemp ."
  | .chmod p m => s!"chmod {pathName p} {oct4 m}"
  | .chown p u g => s!"chown {pathName p} {u} {g}"
  | .creat p m => s!"open {pathName p} creat {oct4 m}"
  | .ftruncate p => s!"ftruncate {pathName p}"
  | .fallocate p => s!"fallocate {pathName p}"
  | .opendir => "open . dir"
  | .unlink p => s!"unlink {pathName p}"
  | .rmdir p => s!"rmdir {pathName p}"

def itemStr : Item → Option String
  | .call o e l => some s!"fs {opStr o} -> {match e with | none => "ok" | some e => errName e} | {snap l}"
  | .ev (.accept u g) => some s!"accept {u} {g}"
  | .ev (.authset u g m) => some s!"authset {u} {g} {oct4 m}"
  | _ => none

def isTeardown : Item → Bool
  | .ev .teardown => true
  | _ => false

def kv (ws : List String) (k : String) : Option String :=
  (ws.find? (·.startsWith (k ++ "="))).map fun w => (w.drop (k.length + 1)).toString

def parseAuth (s : String) : Option Auth :=
  match s.splitOn ":" with
  | [u, g, m] =>
    match u.toNat?, g.toNat?, parseOct m with
    | some u, some g, some m => some ⟨u, g, m⟩
    | _, _, _ => none
  | _ => none

def parseFail (s : String) : Nat × Nat :=
  match s.splitOn ":" with
  | [k, e] => (k.toNat?.getD 0, errNum e)
  | _ => (0, 28)

def parsePath (s : String) : Option Path :=
  [Path.hdr .request, .data .request, .hdr .response, .data .response, .hdr .event, .data .event, .control].find?
    (fun p => pathName p == s)

/-- `K:NAME:KIND` -/
def parsePlant (s : String) (uid gid : Nat) : Option (Plant × String) :=
  match s.splitOn ":" with
  | [k, name, kind] =>
    match k.toNat?, parsePath name with
    | some k, some p =>
      let mode := if kind == "f666" then 0o666 else if kind == "f644" then 0o644 else S_IFLNK ||| 0o777
      if k = 0 then none else some ({ after := k, path := p, mode := mode, uid := uid, gid := gid }, kind)
    | _, _ => none
  | _ => none

/-- the lines of `items`, with `plantLine` right after the call that brings the call counter to `k` -/
def render (items : List Item) (n0 k : Nat) (plantLine : Option String) : List String × Nat :=
  items.foldl (fun (acc : List String × Nat) it =>
    let n := match it with | .call _ _ _ => acc.2 + 1 | _ => acc.2
    let ls := match itemStr it with | some l => [l] | none => []
    let pl := match it, plantLine with
      | .call _ _ _, some l => if n = k then [l] else []
      | _, _ => []
    (acc.1 ++ ls ++ pl, n)) ([], n0)

def cliBlock (d : D) (ws : List String) : List String :=
  let idx := ws.getD 1 "?"
  let uid := ((kv ws "uid").bind (·.toNat?)).getD 0
  let gid := ((kv ws "gid").bind (·.toNat?)).getD 0
  let eff := kv ws "ids" == some "eff"
  let rc := ((kv ws "rc").bind (·.toInt?)).getD 0
  let auth := (kv ws "auth").bind parseAuth
  let (fk, fe) := parseFail ((kv ws "fail").getD "-")
  let msgs := ((kv ws "msgs").bind (·.toNat?)).getD 0
  let (ku, kg) := if eff then (0, 0) else (uid, gid)
  let i : Input := { transport := d.transport, umask := d.umask, uid := ku, gid := kg, rc := rc,
                     auth := auth, failAt := fk, failErr := fe, usDirChown := d.dirfix }
  if d.classify then [s!"cli {idx} classes: {if i.classes.isEmpty then "-" else " ".intercalate i.classes}"] else
  let plant := (kv ws "plant").bind (parsePlant · uid gid)
  let sp := runP i (plant.map (·.1))
  let s := sp.s
  let plantLine := match plant, sp.plant with
    | some (pl, kind), some (e, l) =>
      some s!"plant {pathName pl.path} {kind} -> {match e with | none => "ok" | some e => errName e} | {snap l}"
    | _, _ => none
  let plantEnd : List String := match plant with
    | none => []
    | some (pl, _) =>
      let st := match sp.plant with
        | some (none, _) =>
          if s.led.get pl.path == some pl.ent then "same" else if s.led.has pl.path then "changed" else "gone"
        | _ => "none"
      [s!"planted {st}", "victim 0600:0:0:14 -> 0600:0:0:14"]
  let pk := (plant.map (·.1.after)).getD 0
  let items := s.log.reverse
  let setup := items.takeWhile (fun x => !isTeardown x)
  let down := items.dropWhile (fun x => !isTeardown x)
  let est := s.events.contains .established
  let cres : Int := (s.clientRes).getD 0
  let snapLed : Ledger := if est then (ledAtEstablished s.log).getD [] else s.led
  let m := if est then msgs else 0
  let (setupL, n1) := render setup 0 pk plantLine
  let (downL, _) := render down n1 pk plantLine
  [s!"cli {idx}", s!"ids real={ku}:{kg} eff={uid}:{gid}"]
    ++ setupL
    ++ [s!"connect {cres}", s!"snap {snap snapLed}", s!"msgs sent={m} cbs={m}"]
    ++ downL
    ++ [s!"late cbs={m}"] ++ plantEnd ++ [s!"residue {snap s.led}"]

def step (d : D) (ws : List String) : D × List String :=
  match ws with
  | ["srv", t, um] =>
    ({ d with transport := if t == "sock" then .sock else .shm, umask := (parseOct um).getD 0o022 }, ["srv ok"])
  | ["par", n] => (d, [s!"par {n}"])
  | "cli" :: _ => (d, cliBlock d ws)
  | _ => (d, ["EINVAL"])

def main (args : List String) : IO UInt32 := do
  lineLoop ({ dirfix := !args.contains "prerepair", classify := args.contains "--classify" } : D) step
  return 0

end QbVerif.Driver.Admission
