import QbVerif.Model.Ring
import QbVerif.Driver.Util

namespace QbVerif.Driver.Ring
open QbVerif.Ring QbVerif.Driver

def showOut : Out → String
  | .wrote n => s!"{n}"
  | .data bs => s!"{bs.length} {toHex bs}"
  | .timedOut => "timeout"
  | .err e => e.name
  | .unit => "ok"
  | .num n => s!"{n}"

def step (st : Option RbP) (ws : List String) : Option RbP × List String :=
  match st, ws with
  | _, ["open", s, flags, page] =>
    match s.toNat?, flags.toNat?, page.toNat? with
    | some s, some f, some pg =>
      if pg = 0 then (st, ["bad-op"]) else
      let r := Rb.open s pg (f / 2 % 2 = 1) (f / 16 % 2 = 0)
      (some ⟨r, none⟩, [s!"ok {r.W}"])
    | _, _, _ => (st, ["bad-op"])
  | some s, ["ptrs"] => (st, [s!"{s.rb.rp} {s.rb.wp}"])
  | some s, ["used"] => (st, [s!"{s.rb.spaceUsed}"])
  | some s, ["sem"] => (st, [match s.rb.sem with | none => "none" | some n => s!"{n}"])
  | some s, _ =>
    let op? : Option POp := match ws with
      | ["write", h] => (parseHex h).map (fun d => POp.base (Op.write d))
      | ["alloc", n] => n.toNat?.map POp.alloc
      | ["commit", h] => (parseHex h).map POp.commit
      | ["read", c] => c.toNat?.map (fun c => POp.base (Op.read c))
      | ["peek"] => some (.base .peek)
      | ["reclaim"] => some (.base .reclaim)
      | ["free"] => some (.base .free)
      | _ => none
    match op? with
    | none => (st, ["bad-op"])
    | some op =>
      match s.step op with
      | none => (st, ["bad-op"])
      | some (s', o) => (some s', [showOut o])
  | none, _ => (st, ["bad-op"])

def main (_args : List String) : IO UInt32 := do
  lineLoop (none : Option RbP) step
  return 0

end QbVerif.Driver.Ring
