import QbVerif.Model.Ring
import QbVerif.Driver.Util

namespace QbVerif.Driver.Ring
open QbVerif.Ring QbVerif.Driver

def showOut : Out → String
  | .wrote n => s!"{n}"
  | .data bs => s!"{bs.length} {toHex bs}"
  | .timedOut => "timeout"
  | .err e => e.name
  | .unit => "ok"
  | .num n => s!"{n}"

def step (st : Option Rb) (ws : List String) : Option Rb × List String :=
  match st, ws with
  | _, ["open", s, flags, page] =>
    match s.toNat?, flags.toNat?, page.toNat? with
    | some s, some f, some pg =>
      if pg = 0 then (st, ["bad-op"]) else
      let r := Rb.open s pg (f / 2 % 2 = 1) (f / 16 % 2 = 0)
      (some r, [s!"ok {r.W}"])
    | _, _, _ => (st, ["bad-op"])
  | some r, ["ptrs"] => (st, [s!"{r.rp} {r.wp}"])
  | some r, ["used"] => (st, [s!"{r.spaceUsed}"])
  | some r, ["sem"] => (st, [match r.sem with | none => "none" | some n => s!"{n}"])
  | some r, _ =>
    let op? : Option Op := match ws with
      | ["write", h] => (parseHex h).map Op.write
      | ["read", c] => c.toNat?.map Op.read
      | ["peek"] => some .peek
      | ["reclaim"] => some .reclaim
      | ["free"] => some .free
      | _ => none
    match op? with
    | none => (st, ["bad-op"])
    | some op => let (r', o) := r.step op; (some r', [showOut o])
  | none, _ => (st, ["bad-op"])

def main (_args : List String) : IO UInt32 := do
  lineLoop (none : Option Rb) step
  return 0

end QbVerif.Driver.Ring
