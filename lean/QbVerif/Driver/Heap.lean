/-
Line-protocol driver `qb_heap` for the timer heap (include/tlist.h), counterpart of
harness/loop/tl_drv.c.  Ops (one result line per op, then one `heap …` line):
  hz N            timerlist_init with qb_util_nano_monotonic_hz() = N   -> ok
  variant fixed|orig   which timerlist_add_duration is modelled          -> ok
  now NS          set the virtual monotonic clock                        -> ok
  add ID EXPIRY   timerlist_add of a timer with that absolute expiry     -> ok
  addd ID DUR     timerlist_add_duration(now + DUR)                      -> ok EXPIRY
  del ID          timerlist_del                                          -> ok
  expire NOW      timerlist_expire at clock NOW                          -> fired: ID …
  msec NOW        timerlist_msec_duration_to_expire at clock NOW         -> N (uint64)
                  followed by qb_loop_timer_msec_duration_to_expire's int32 value
-/
import QbVerif.Model.Heap
import QbVerif.Model.Timer
import QbVerif.Driver.Util

namespace QbVerif.Driver.Heap
open QbVerif.Heap QbVerif.Timer QbVerif.Driver

structure St where
  h : Heap
  hz : Nat
  now : UInt64
  cfg : Cfg

def St.init : St := { h := Heap.init, hz := Gen.TIMERLIST_HERTZ_HOST, now := 0, cfg := Cfg.repaired }

/-- FNV-1a style digest over (id, key, pos) of every entry, in array order (same in tl_drv.c) -/
def digest (a : Arr) : UInt64 :=
  a.foldl (fun (h : UInt64) e =>
    let mix (h : UInt64) (v : Nat) : UInt64 := (h ^^^ UInt64.ofNat v) * 1099511628211
    mix (mix (mix h e.id) e.key) e.pos) 14695981039346656037

def FULL_LIMIT : Nat := 40

def showHeap (h : Heap) : String :=
  let v := if h.isValid then 1 else 0
  if h.a.size ≤ FULL_LIMIT then
    s!"heap {h.allocated} v={v}:" ++ String.join (h.a.toList.map fun e => s!" {e.id}:{e.key}:{e.pos}")
  else
    s!"heap {h.allocated} v={v} n={h.a.size} root={(get h.a 0).id}:{(get h.a 0).key} d={digest h.a}"

def step (s : St) (ws : List String) : St × List String :=
  let bad := (s, ["bad-op", showHeap s.h])
  match ws with
  | ["hz", n] =>
    match n.toNat? with
    | some n => ({ s with h := Heap.init, hz := n }, ["ok", showHeap Heap.init])
    | none => bad
  | ["variant", v] =>
    if v == "orig" then ({ s with cfg := Cfg.original }, ["ok", showHeap s.h])
    else if v == "fixed" then ({ s with cfg := Cfg.repaired }, ["ok", showHeap s.h])
    else bad
  | ["now", n] =>
    match n.toNat? with
    | some n => ({ s with now := UInt64.ofNat n }, ["ok", showHeap s.h])
    | none => bad
  | ["add", id, e] =>
    match id.toNat?, e.toNat? with
    | some id, some e =>
      if (s.h.find? id).isSome then bad else
      let h := s.h.add id e
      ({ s with h := h }, ["ok", showHeap h])
    | _, _ => bad
  | ["addd", id, d] =>
    match id.toNat?, d.toNat? with
    | some id, some d =>
      if (s.h.find? id).isSome then bad else
      let e := addDuration s.cfg s.now (UInt64.ofNat d)
      let h := s.h.add id e.toNat
      ({ s with h := h }, [s!"ok {e.toNat}", showHeap h])
    | _, _ => bad
  | ["del", id] =>
    match id.toNat? with
    | some id =>
      match s.h.delId id with
      | some h => ({ s with h := h }, ["ok", showHeap h])
      | none => bad
    | none => bad
  | ["expire", n] =>
    match n.toNat? with
    | some n =>
      let (h, fired) := s.h.expire n
      ({ s with h := h, now := UInt64.ofNat n },
       ["fired:" ++ String.join (fired.map fun e => s!" {e.id}"), showHeap h])
    | none => bad
  | ["msec", n] =>
    match n.toNat? with
    | some n =>
      let now := UInt64.ofNat n
      let m := msecDurationToExpire (s.h.rootKey?.map UInt64.ofNat) now s.hz
      let t := loopMsecDurationToExpire s.cfg m
      ({ s with now := now }, [s!"{m.toNat} {t.toInt}", showHeap s.h])
    | none => bad
  | _ => bad

def main (_args : List String) : IO UInt32 := do
  lineLoop St.init step
  return 0

end QbVerif.Driver.Heap
