/-
Line-protocol driver `qb_timer` for the timer part of the main loop, counterpart of
harness/loop/timer_drv.c (real qb_loop with a virtual clock).  Ops:
  init HZ NOW [orig|fixed]   new loop, clock resolution and clock value      -> ok
  timer_add P NS ID          qb_loop_timer_add                               -> 0
  timer_del ID               qb_loop_timer_del                               -> 0 | EINVAL
  job_add P ID               qb_loop_job_add                                 -> 0
  advance NS                 virtual clock += NS                             -> now N
  iterate [NS]               run the loop up to its next epoll_wait call     -> wait=T now=N cbs: t:ID@N j:ID …
  remaining ID / running ID / exptime ID                                     -> N
-/
import QbVerif.Model.Timer
import QbVerif.Driver.Util

namespace QbVerif.Driver.Timer
open QbVerif.Heap QbVerif.Timer QbVerif.Driver

def showEv : Ev → String
  | .timerCb id now => s!" t:{id}@{now.toNat}"
  | .jobCb id => s!" j:{id}"

def initSt : Loop := Loop.init Cfg.repaired Gen.TIMERLIST_HERTZ_HOST 1000000000

def step (l : Loop) (ws : List String) : Loop × List String :=
  let bad := (l, ["bad-op"])
  match ws with
  | "init" :: hz :: now :: rest =>
    match hz.toNat?, now.toNat? with
    | some hz, some now =>
      let c := if rest == ["orig"] then Cfg.original else Cfg.repaired
      (Loop.init c hz (UInt64.ofNat now), ["ok"])
    | _, _ => bad
  | ["timer_add", p, ns, id] =>
    match p.toNat?, ns.toNat?, id.toNat? with
    | some p, some ns, some id =>
      if p > 2 then bad else
      let (l1, ok) := l.timerAdd p (UInt64.ofNat ns) id
      if ok then (l1, ["0"]) else bad
    | _, _, _ => bad
  | ["timer_del", id] =>
    match id.toNat? with
    | some id => let (l1, ok) := l.timerDel id; (l1, [if ok then "0" else "EINVAL"])
    | none => bad
  | ["job_add", p, id] =>
    match p.toNat?, id.toNat? with
    | some p, some id => if p > 2 then bad else (l.jobAdd p id, ["0"])
    | _, _ => bad
  | ["advance", ns] =>
    match ns.toNat? with
    | some ns => let l1 := { l with now := l.now + UInt64.ofNat ns }; (l1, [s!"now {l1.now.toNat}"])
    | none => bad
  | "iterate" :: rest =>
    let wake? : Option (Option UInt64) := match rest with
      | [] => some none
      | [w] => w.toNat?.map fun n => some (UInt64.ofNat n)
      | _ => none
    match wake? with
    | none => bad
    | some wake =>
      let (l1, evs, t) := l.iterate wake
      (l1, [s!"wait={t.toInt} now={l1.now.toNat} cbs:" ++ String.join (evs.map showEv)])
  | ["remaining", id] =>
    match id.toNat? with
    | some id => (l, [s!"{(l.remaining id).toNat}"])
    | none => bad
  | ["running", id] =>
    match id.toNat? with
    | some id => (l, [if l.isRunning id then "1" else "0"])
    | none => bad
  | ["exptime", id] =>
    match id.toNat? with
    | some id => (l, [s!"{(l.expireTimeGet id).toNat}"])
    | none => bad
  | _ => bad

def main (_args : List String) : IO UInt32 := do
  lineLoop initSt step
  return 0

end QbVerif.Driver.Timer
