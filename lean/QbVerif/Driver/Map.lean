/-
Line-protocol driver `qb_map` for the map models (DESIGN.md appendix A, driver `map`).

ONE driver for all implementations: the first op of a case, `map IMPL SIZE`, selects the model
from the table `impls` below.  To plug in a new model add its import and one `Impl` entry
(state type, `create`, `step`); nothing else changes.  The specification itself is available as
`spec-ht`, `spec-sl`, `spec-trie` (the `Dict` of Model/MapSpec.lean with that flavour), which lets
the python oracles be cross-checked against the Lean specification.

Arguments: `--orig` selects the pre-repair variant of every model that has one.
Pseudo-op (model only, not understood by the C harness): `mon` prints the flags the C18 monitor
`IterMon` has raised on the case so far.
-/
import QbVerif.Model.MapSpec
import QbVerif.Model.MapScript
import QbVerif.Model.Hashtable
import QbVerif.Model.Skiplist
import QbVerif.Model.Trie
import QbVerif.Model.TrieSpec
import QbVerif.Driver.Util

namespace QbVerif.Driver.Map
open QbVerif.Map QbVerif.Driver

/-- an implementation model behind the common op language -/
structure Impl where
  σ : Type
  flavour : Flavour
  /-- `create orig size` -/
  create : Bool → Nat → σ
  step : σ → Op → σ × Out

def specImpl (fl : Flavour) : Impl := ⟨Dict, fl, fun _ _ => Dict.empty fl, Dict.step⟩

def impls : List (String × Impl) := [
  ("ht", ⟨Hashtable.HT, .ht, fun orig n => Hashtable.create (!orig) (!orig) n, Hashtable.HT.step⟩),
  ("sl", ⟨Skiplist.SL, .sl, fun _ _ => Skiplist.create, Skiplist.SL.step⟩),
  ("trie", ⟨Trie.T, .trie, fun orig _ => Trie.create (!orig) (!orig), Trie.T.step⟩),
  -- ("sl", …), ("trie", …): added by the skiplist / trie models
  ("spec-ht", specImpl .ht), ("spec-sl", specImpl .sl), ("spec-trie", ⟨Dict, .trie, fun _ _ => Dict.empty .trie, TrieDict.step⟩)]

structure Running where
  impl : Impl
  st : impl.σ
  mon : IterMon.Mon
  /-- a `SAN:` outcome was printed: the real process would be dead -/
  dead : Bool

def errName : Err → String
  | .enoent => "ENOENT" | .eexist => "EEXIST" | .einval => "EINVAL" | .ebusy => "EBUSY" | .any => "E"

def showRes : Res → String
  | .ok => "ok"
  | .val none => "none"
  | .val (some v) => s!"{v}"
  | .bool b => if b then "1" else "0"
  | .num n => s!"{n}"
  | .item none => "end"
  | .item (some (k, v)) => s!"{toHex k} {v}"
  | .visited l c =>
    s!"visit {l.length}" ++ String.join (l.map fun (k, v) => s!" {toHex k} {v}") ++ (if c then " end" else " stop")
  | .rc none => "0"
  | .rc (some e) => errName e
  | .badIter => "bad-iter"
  | .uaf => "SAN:uaf"
  | .diverge => "MODEL-DIVERGE"

def showEvent (e : Event) : String := s!"n {e.id} {e.ev} {toHex e.key} {e.old} {e.new}"

def parseKeyOpt (s : String) : Option (Option Key) :=
  if s == "*" then some none else (parseHex s).map some

def parseOp : List String → Option Op
  | ["put", k, v] => do some (.put (← parseHex k) (← v.toNat?) 0)
  | ["put", k, v, l] => do
    let lv ← if l.startsWith "lvl=" then (l.drop 4).toNat? else none
    some (.put (← parseHex k) (← v.toNat?) lv)
  | ["get", k] => (parseHex k).map .get
  | ["rm", k] => (parseHex k).map .rm
  | ["count"] => some .count
  | ["iter_new", i] => i.toNat?.map (.iterNew · none)
  | ["iter_new", i, p] => do some (.iterNew (← i.toNat?) (some (← parseHex p)))
  | ["iter_next", i] => i.toNat?.map .iterNext
  | ["iter_free", i] => i.toNat?.map .iterFree
  | ["foreach", n] => n.toNat?.map (.foreach · none)
  | ["foreach", n, p] => do some (.foreach (← n.toNat?) (some (← parseHex p)))
  | ["nadd", k, ev, id] => do some (.nadd (← parseKeyOpt k) (← ev.toNat?) (← id.toNat?))
  | ["ndel", k, ev] => do some (.ndel (← parseKeyOpt k) (← ev.toNat?) none)
  | ["ndel2", k, ev, id] => do some (.ndel (← parseKeyOpt k) (← ev.toNat?) (some (← id.toNat?)))
  | ["destroy"] => some .destroy
  | _ => none

def parseSKey (s : String) : Option SKey :=
  if s == "." then some .shown else (parseHex s).map .lit

def parseSItem (s : String) : Option SItem :=
  match s.splitOn ":" with
  | [n, "rm", k] => do some ⟨← n.toNat?, .rm (← parseSKey k)⟩
  | [n, "get", k] => do some ⟨← n.toNat?, .get (← parseSKey k)⟩
  | [n, "put", k, v] => do some ⟨← n.toNat?, .put (← parseSKey k) (← v.toNat?) 0⟩
  | [n, "put", k, v, l] => do some ⟨← n.toNat?, .put (← parseSKey k) (← v.toNat?) (← l.toNat?)⟩
  | [n, "count"] => do some ⟨← n.toNat?, .count⟩
  | _ => none

def parseScript (s : String) : Option Script :=
  if s == "-" then some [] else (s.splitOn ",").mapM parseSItem

/-- `foreachs STOP SCRIPT [PREFIX]` -/
def parseForeachs : List String → Option (Nat × Option Key × Script)
  | ["foreachs", n, sc] => do some (← n.toNat?, none, ← parseScript sc)
  | ["foreachs", n, sc, p] => do some (← n.toNat?, some (← parseHex p), ← parseScript sc)
  | _ => none

def showVisit (v : Visit) : String :=
  s!" {toHex v.key} {v.val}" ++ String.join (v.inner.map fun r => " =" ++ showRes r)

def showXRes : XRes → String
  | .visited l c => s!"visit {l.length}" ++ String.join (l.map showVisit) ++ (if c then " end" else " stop")
  | .fail r => showRes r

def showFlags (f : IterMon.Flags) : String :=
  let l := (if f.memErr then ["memErr"] else []) ++ (if f.incomplete then ["incomplete"] else []) ++
    (if f.twice then ["twice"] else []) ++ (if f.invented then ["invented"] else []) ++
    (if f.stale then ["stale"] else []) ++ (if f.afterEnd then ["afterEnd"] else [])
  if l.isEmpty then "mon ok" else "mon " ++ " ".intercalate l

def step (orig : Bool) (st : Option Running) (ws : List String) : Option Running × List String :=
  match ws with
  | "map" :: name :: rest =>
    match impls.lookup name with
    | none => (none, ["unsupported-impl"])
    | some impl =>
      let size := (rest.head?.bind String.toNat?).getD 8
      (some ⟨impl, impl.create orig size, IterMon.init impl.flavour, false⟩, ["ok"])
  | _ =>
    match st with
    | none => (none, ["bad-op"])
    | some r =>
      if r.dead then (st, []) else
      if ws == ["mon"] then (st, [showFlags r.mon.flags]) else
      if ws.head? == some "foreachs" then
        match parseForeachs ws with
        | none => (st, ["bad-op"])
        | some (stop, pfx, sc) =>
          -- the scripted traversal: the model's own iter_new / iter_next / scripted ops / iter_free
          let (s', h, xr) := foreachsH r.impl.step scriptFuel r.st stop pfx sc
          let dead := xr == .fail .uaf || xr == .fail .diverge
          (some { r with st := s', mon := h.foldl (fun m p => IterMon.step m p.1 p.2.res) r.mon, dead := dead },
           (histEvents h).map showEvent ++ [showXRes xr])
      else
      match parseOp ws with
      | none => (st, ["bad-op"])
      | some op =>
        -- the harness keeps at most 64 iterators
        if (match op with | .iterNew i _ | .iterNext i | .iterFree i => decide (i ≥ 64) | _ => false) then (st, ["bad-iter"]) else
        let (s', out) := r.impl.step r.st op
        let dead := out.res == .uaf || out.res == .diverge
        (some { r with st := s', mon := IterMon.step r.mon op out.res, dead := dead },
         out.events.map showEvent ++ [showRes out.res])

/-- `Driver.lineLoop` for a state living in `Type 1` (`Running` packs the model's state type) -/
partial def lineLoop1 {σ : Type 1} (init : σ) (step : σ → List String → σ × List String) : IO Unit := do
  let stdin ← IO.getStdin
  let stdout ← IO.getStdout
  let rec loop (s : σ) : IO Unit := do
    let line ← stdin.getLine
    if line.isEmpty then
      stdout.flush
      return ()
    let ws := words line
    match ws with
    | [] => loop s
    | "case" :: _ =>
      stdout.putStrLn (" ".intercalate ws)
      loop init
    | w :: _ =>
      if w.startsWith "#" then loop s
      else
        let (s', outs) := step s ws
        for o in outs do stdout.putStrLn o
        loop s'
  loop init

def main (args : List String) : IO UInt32 := do
  lineLoop1 (none : Option Running) (step (args.contains "--orig"))
  return 0

end QbVerif.Driver.Map
