import QbVerif.Model.LogRoute
import QbVerif.Driver.Util

/-! Line-protocol driver for the log-routing model (DESIGN.md appendix A, driver `logroute`);
    same op lines as harness/log/route_drv.c.  Argument: `fixed` (default), `orig`, or three
    0/1 digits `replayAll reapply closeClears` selecting the modelled code variant. -/
namespace QbVerif.Driver.LogRoute
open QbVerif.LogRoute QbVerif.Driver

def str (tok : String) : Str :=
  if tok == "-" then [] else tok.toList.map Char.toNat

structure DState where
  rx : List (Str × Str × Bool)
  bad : List Str
  st : State

def DState.env (d : DState) : RxEnv :=
  { rx := fun t s => match d.rx.find? (fun e => e.1 == t && e.2.1 == s) with
      | some e => e.2.2
      | none => false,
    bad := fun t => d.bad.contains t }

def parseConf : String → Option FConf
  | "add" => some .add | "remove" => some .remove | "clearall" => some .clearAll
  | "tagset" => some .tagSet | "tagclear" => some .tagClear | "tagclearall" => some .tagClearAll
  | _ => none

def parseType : String → Option FType
  | "file" => some .file | "func" => some .func | "fmt" => some .format
  | "filere" => some .fileRe | "funcre" => some .funcRe | "fmtre" => some .formatRe
  | _ => none

/-- decimal, `0 ≤ v ≤ max` (the harness's `parse_num`) -/
def num (s : String) (max : Nat) : Option Nat :=
  match s.toNat? with
  | some v => if v ≤ max && !(s.startsWith "+") then some v else none
  | none => none

def showOut : Out → String
  | .ok => "ok"
  | .badop => "bad-op"
  | .slot n => s!"{n}"
  | .err e => e.name
  | .deliver l => "deliver" ++ String.join (l.map fun p => s!" {p.1}:{p.2}")
  | .abort => "SAN:abort"

def parseOp (ws : List String) : Option Op :=
  match ws with
  | ["init", p] => (num p 255).map Op.init
  | ["fini"] => some .fini
  | ["topen"] => some .topen
  | ["tclose", t] =>
    match num t (TARGET_MAX - 1) with
    | some t => some (.tclose t)
    | none => some (.tclose TARGET_MAX)          -- out of range: harness answers bad-op, so does the model
  | ["enable", t, v] =>
    match num v 1 with
    | some v =>
      match num t (TARGET_MAX - 1) with
      | some t => some (.enable t (v == 1))
      | none => some (.enable TARGET_MAX (v == 1))
    | none => none
  | ["filter", t, c, ty, text, hi, lo] =>
    match num t 0x7fffffff, parseConf c, parseType ty, num hi 255, num lo 255 with
    | some t, some c, some ty, some hi, some lo => some (.filter t c ty (str text) hi lo)
    | _, _, _, _, _ => none
  | ["log", file, func, line, prio, fmt, tags] =>
    match num line 0x7fffffff, num prio 255, num tags 0x7fffffff with
    | some line, some prio, some tags =>
      if fmt.contains '%' || fmt == "-" then none
      else some (.log ⟨str file, str func, line, prio, str fmt, tags⟩)
    | _, _, _ => none
  | _ => none

def stepLine (v : Variant) (d : DState) (ws : List String) : DState × List String :=
  match ws with
  | ["rx", t, s, verdict] => ({ d with rx := (str t, str s, verdict == "1") :: d.rx }, ["ok"])
  | ["rxbad", t] => ({ d with bad := str t :: d.bad }, ["ok"])
  | _ =>
    match parseOp ws with
    | none => (d, ["bad-op"])
    | some op =>
      let r := step d.env v d.st op
      ({ d with st := r.1 }, [showOut r.2])

def parseVariant : List String → Variant
  | ["orig"] => Variant.orig
  | [s] =>
    match s.toList with
    | [a, b, c] => ⟨a == '1', b == '1', c == '1'⟩
    | _ => Variant.fixed
  | _ => Variant.fixed

def main (args : List String) : IO UInt32 := do
  let v := parseVariant args
  lineLoop ({ rx := [], bad := [], st := State.initial } : DState) (stepLine v)
  return 0

end QbVerif.Driver.LogRoute
