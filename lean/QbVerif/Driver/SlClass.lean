/-
Line-protocol driver `qb_slclass`: evaluates the class predicate `K_C18_sl` of Props/C18Sl.lean
(stated on the skiplist model) on whole cases, so that checks/C18.py can cross-check the python
class predicate `mapgen.k_c18_sl` (the generator's filter) and the claim "outside the class the
model never crashes" on every generated case.

Input: the op lines of harness/map/map_drv.c (a case = `map sl N` + ops), plus the pseudo-op `slk`.
Output: nothing for ordinary ops; for `slk` one line `slk SHARED CRASHED PARKED` (0/1 each): the ghost
flag `sharedFree` and the `crashed` flag after the model has executed the case so far AND the
harness' clean-up (`SL.teardown`: open iterators freed, map destroyed), and whether some `rm` of the
case removed an entry while an iterator was parked on it (the class `K_parked` of the proved
theorems: the looked-up node's refcount is above 1).  Core Lean only.
-/
import QbVerif.Driver.Map

namespace QbVerif.Driver.SlClass
open QbVerif.Map QbVerif.Driver QbVerif.Skiplist

def b01 (b : Bool) : String := if b then "1" else "0"

/-- `rmParked` of Lemmas/SlmSim.lean, restated here (the driver is core Lean only and does not
    import the lemma files): the node `rm k` finds has a refcount above 1 -/
def rmParked (s : SL) : Op → Bool
  | .rm k => match s.lookup k with
    | .ok (some i) => (match s.nodes i with | some n => decide (1 < n.refcount) | none => false)
    | _ => false
  | _ => false

def step (st : Option (SL × Bool)) (ws : List String) : Option (SL × Bool) × List String :=
  match ws with
  | "map" :: "sl" :: _ => (some (create, false), [])
  | "map" :: _ => (none, [])
  | ["slk"] =>
    match st with
    | none => (st, ["slk - - -"])
    | some (s, pk) => let t := s.teardown; (st, [s!"slk {b01 t.sharedFree} {b01 t.crashed} {b01 pk}"])
  | _ =>
    match st with
    | none => (st, [])
    | some (s, pk) =>
      match Map.parseOp ws with
      | none => (st, [])
      | some op =>
        if (match op with | .iterNew i _ | .iterNext i | .iterFree i => decide (i ≥ 64) | _ => false) then (st, [])
        else (some ((s.step op).1, pk || (!s.crashed && rmParked s op)), [])

def main (_ : List String) : IO UInt32 := do
  lineLoop (none : Option (SL × Bool)) step
  return 0

end QbVerif.Driver.SlClass
