/-
Trace acceptor for property C02 (DESIGN.md 2.3, mechanism X): reads the protocol-level trace
printed by harness/ipc/ipc_pair.c (one line per model action) and replays it through
`QbVerif.Ipc.St.step`.  Every observed step must be enabled in the model state and produce the
observed result; the capacities of the two notification directions are the environment's and
are inferred from the observed EAGAIN / success results (NetFull / NetDrain), within the
model's constraint that a full socket holds at least one unread byte.

One answer line per input line: `ok`, `reject <reason>` (first failing line of a case), `skip`.
-/
import QbVerif.Model.Ipc
import QbVerif.Driver.Util

namespace QbVerif.Driver.IpcAccept
open QbVerif.Ipc QbVerif.Driver QbVerif.Gen

structure DSt where
  st : Option St := none
  /-- datagram transport: the send call announced by `C call …` (applied at `C ret`) -/
  pend : Option Msg := none
  /-- between `S disp` and `S dispret` -/
  inDisp : Bool := false
  dead : Bool := false

def kv (ws : List String) (key : String) : Option String :=
  ws.findSome? fun w => if w.startsWith (key ++ "=") then some ((w.drop (key.length + 1)).toString) else none

def errOf (s : String) : Err :=
  match s with
  | "EAGAIN" => .eagain | "EMSGSIZE" => .emsgsize | "ETIMEDOUT" => .etimedout
  | "ENOBUFS" => .enobufs | "EBADMSG" => .ebadmsg | "EINVAL" => .einval
  | n => .other n

def showRet : Except Err Nat → String
  | .ok n => toString n
  | .error e => e.name

def dgOf (r : String) : DgRes := if r.toNat?.isSome then .ok else .fail (errOf r)

/-- observed `ns=K:R` tokens -/
def nsObs (ws : List String) : List (Nat × Bool) :=
  ws.filterMap fun w =>
    if w.startsWith "ns=" then
      match ((w.drop 3).toString).splitOn ":" with
      | [k, r] => k.toNat?.map fun k => (k, r.toNat?.isSome)
      | _ => none
    else none

def prioName : Prio → String
  | .low => "LOW" | .med => "MED" | .high => "HIGH"

def rlOf : String → Option RateLimit
  | "FAST" => some .fast | "NORMAL" => some .normal | "SLOW" => some .slow
  | "OFF" => some .off | "OFF2" => some .off2 | _ => none

def checkMsg (m : Msg) (len seq ck : String) : Option String :=
  if toString m.length ≠ len then some s!"length: model {m.length}"
  else if toString (field32 m 0) ≠ seq then some s!"seq: model {field32 m 0}"
  else if toString (cksum m) ≠ ck then some s!"checksum: model {cksum m}"
  else none

/-- check the `pe=`/`pr=` suffixes against the model -/
def checkPePr (s : St) (ws : List String) : Option String :=
  match kv ws "pe" with
  | some pe => if (pe == "IO") ≠ s.pollout then some s!"poll events: model pollout={s.pollout}" else
    match kv ws "pr" with
    | some pr => if pr ≠ prioName s.prio then some s!"priority: model {prioName s.prio}" else none
    | none => none
  | none => none

/-- Make the capacity of the event-notification direction agree with one observed `send` of
    `k` bytes (`ok` = all bytes written).  `none`: the observation contradicts the model
    (EAGAIN although no unread byte is in the socket). -/
def fitCap (s : St) (k : Nat) (ok : Bool) : Option St :=
  if ok then some (if s.nbEvt + k ≤ s.capEvt then s else { s with capEvt := s.nbEvt + k })
  else if s.capEvt < s.nbEvt + k then some s
  else if 1 ≤ s.nbEvt then some { s with capEvt := s.nbEvt }
  else none

/-- the notification `send` an action will attempt (number of bytes), if any: the action is
    run with unlimited capacity and the bytes it pushes are counted -/
def expectedNs (s : St) (a : Act) : Option Nat :=
  match ({ s with capEvt := s.nbEvt + s.outstanding + 2 }).step a with
  | some (s', _) => if s.nbEvt < s'.nbEvt then some (s'.nbEvt - s.nbEvt) else none
  | none => none

/-- adjust capacity to the observations of this line and check that the observed sends are the
    predicted ones -/
def fitObs (s : St) (a : Act) (obs : List (Nat × Bool)) : Except String St :=
  match expectedNs s a, obs with
  | none, [] => .ok s
  | some k, [(k', ok)] =>
    if k ≠ k' then .error s!"notification send of {k'} bytes, model expects {k}" else
    match fitCap s k ok with
    | some s' => .ok s'
    | none => .error "EAGAIN on a notification socket that holds no unread byte"
  | none, _ => .error "notification send observed, model expects none"
  | some k, _ => .error s!"model expects one notification send of {k} bytes, observed {obs.length}"

def stepLine (d : DSt) (ws : List String) : DSt × String :=
  let rej (msg : String) : DSt × String := ({ d with dead := true }, "reject " ++ msg)
  let ok (s : St) : DSt × String := ({ d with st := some s }, "ok")
  if d.dead then (d, "skip") else
  match ws with
  | "setup" :: t :: rest =>
    match (kv rest "max").bind String.toNat?, (kv rest "W").bind String.toNat?, (kv rest "page").bind String.toNat? with
    | some mx, some w, some pg =>
      let shm := t == "shm"
      if pg = 0 then rej "page=0" else
      if shm && ringWords mx pg ≠ w then rej s!"ring words: model {ringWords mx pg}" else
      if (kv rest "reqhdr").bind String.toNat? ≠ some IPC_REQ_HDR then rej "request header size" else
      ({ st := some (St.init shm mx pg ((kv rest "sizechecks") != some "0")) }, "ok")
    | _, _, _ => rej "malformed setup line"
  | "end" :: _ => (d, "ok")
  | "free" :: _ => (d, "ok")
  | _ =>
  match d.st with
  | none => rej "no connection"
  | some s =>
  match ws with
  | ["C", "call", _, seq, len] | ["C", "call", _, seq, len, _] =>
    match seq.toNat?, len.toNat? with
    | some seq, some len =>
      let m := mkMsg seq len
      if s.shmT then
        match s.step (.cSendBegin m .ok) with
        | some (s', _) => ok s'
        | none => rej "send call not enabled (call in progress or malformed message)"
      else ({ d with pend := some m }, "ok")
    | _, _ => rej "malformed"
  | ["C", "parked"] => if s.cowes then (d, "ok") else rej "client parked but owes no notification byte"
  | ["C", "nsent"] =>
    let s1 := if s.nbReq < s.capReq then s else { s with capReq := s.nbReq + 1 }
    match s1.step .cNotify with
    | some (s', _) => ok s'
    | none => rej "notification byte not owed"
  | ["C", "ret", r] =>
    let s1? : Option St :=
      if s.shmT then some s else
      match d.pend with
      | some m => (s.step (.cSendBegin m (dgOf r))).map (·.1)
      | none => none
    match s1? with
    | none => rej "return without call"
    | some s1 =>
      match s1.step .cSendRet with
      | some (s', .ret x) =>
        if showRet x = r then ({ d with st := some s', pend := none }, "ok")
        else rej s!"send returned {r}, model {showRet x}"
      | _ => rej "send return not enabled (notification byte still owed?)"
  | ["C", "resume", "->", "none"] => (d, "ok")
  | ["C", "skip-parked"] => if s.cowes then (d, "ok") else rej "client op skipped although no send call is parked"
  | "C" :: "sndbuf" :: _ => (d, "ok")
  | "S" :: "sndbuf" :: _ => (d, "ok")
  | "C" :: kind :: cap :: "->" :: res =>
    if kind == "recv" || kind == "evrecv" then
      match cap.toNat? with
      | none => rej "malformed"
      | some cap =>
        match s.step (if kind == "recv" then .cRecv cap else .cEventRecv cap) with
        | none => rej "receive with a buffer smaller than the datagram (outside the model, see C06)"
        | some (s', .msg m) =>
          (match res with
           | [len, seq, ck] =>
             match checkMsg m len seq ck with
             | none => ok s'
             | some e => rej e
           | _ => rej s!"model delivers a message of {m.length} bytes")
        | some (s', .err e) =>
          (match res with
           | [r] => if r = e.name then ok s' else rej s!"model {e.name}"
           | _ => rej s!"model {e.name}")
        | some _ => rej "internal"
    else if kind == "fcmax" then
      match cap.toNat?, res with
      | some n, [r] =>
        match s.step (.cFcMax n) with
        | some (s', .ret x) => if showRet x = r then ok s' else rej s!"model {showRet x}"
        | _ => rej "internal"
      | _, _ => rej "malformed"
    else rej "unknown client line"
  | ["C", "poll", "->", b, sidle] =>
    -- readiness of the server's descriptor at the same instant (writability is the environment's)
    let s1? : Except String St :=
      if sidle == "sidle=1" then
        if s.srvReadable then .error "server descriptor idle, model: readable"
        else if s.srvWritable then
          (if 1 ≤ s.nbEvt then .ok { s with capEvt := s.nbEvt }
           else .error "server descriptor idle, model: POLLOUT due on an empty socket")
        else .ok s
      else
        if s.srvReadable then .ok s
        else if s.shmT && s.pollout then .ok (if s.nbEvt < s.capEvt then s else { s with capEvt := s.nbEvt + 1 })
        else .error "server descriptor ready, model: idle"
    match s1? with
    | .error e => rej e
    | .ok s1 =>
      if (b == "1") = s1.cliReadable then ok s1
      else rej s!"client descriptor readable: model {s1.cliReadable} (nbEvt={s1.nbEvt} outstanding={s1.outstanding} queued={s1.evt.queue.length})"
  | ["S", "idle"] =>
    if d.inDisp || s.disp.isSome then rej "idle inside a dispatch" else
    if s.srvReadable then rej "server descriptor idle, model: readable" else
    if s.srvWritable then
      if 1 ≤ s.nbEvt then ok { s with capEvt := s.nbEvt }
      else rej "server descriptor idle, model: POLLOUT due on an empty socket"
    else (d, "ok")
  | "S" :: "disp" :: rev :: rest =>
    let pin := rev.contains 'I'
    let pout := rev.contains 'O'
    if rev.contains 'H' || rev.contains 'E' || rev.contains 'N' then rej "HUP/ERR/NVAL on an established connection" else
    if pin ≠ s.srvReadable then rej s!"POLLIN: model readable={s.srvReadable}" else
    if pout && !s.pollout then rej "POLLOUT reported but not registered in the model" else
    -- writability is the environment's
    let s0? : Option St :=
      if pout then some (if s.nbEvt < s.capEvt then s else { s with capEvt := s.nbEvt + 1 })
      else if s.srvWritable then (if 1 ≤ s.nbEvt then some { s with capEvt := s.nbEvt } else none)
      else some s
    match s0? with
    | none => rej "no POLLOUT although registered and the socket is empty"
    | some s0 =>
      match fitObs s0 (.sDispBegin pin pout) (nsObs rest) with
      | .error e => rej e
      | .ok s1 =>
        match s1.step (.sDispBegin pin pout) with
        | some (s', _) => ({ d with st := some s', inDisp := true }, "ok")
        | none => rej "dispatch not enabled"
  | ["S", "cb", len, seq, ck] =>
    match s.step .sMsgProcess with
    | some (s', .msg m) =>
      (match checkMsg m len seq ck with
       | none => ok s'
       | some e => rej e)
    | some (_, _) => rej "callback invoked, model: no request available"
    | none => rej "callback invoked outside the processing loop of the model"
  | "S" :: "cb" :: _ => rej "corrupt message in callback"
  | ["S", "cbret", rc] =>
    match s.step (.sMsgProcessResult (rc.startsWith "-")) with
    | some (s', _) => ok s'
    | none => rej "callback return not enabled"
  | "S" :: "dispret" :: rc :: rest =>
    if !d.inDisp then rej "dispret without disp" else
    if rc ≠ "0" then rej "dispatch returned an error on an established connection" else
    -- a loop that found no request (datagram transport, spurious wake-up)
    let s1 : St := match s.disp with
      | some dd => if dd.stage = .ready then (match s.step .sMsgProcess with
                                             | some (s', .err _) => s'
                                             | _ => s) else s
      | none => s
    let nr := (kv rest "nr").bind String.toNat?
    match s1.disp with
    | none =>
      if nr ≠ some 0 then rej "bytes consumed by a dispatch that did not enter the loop" else
      (match checkPePr s1 rest with
       | none => ({ d with st := some s1, inDisp := false }, "ok")
       | some e => rej e)
    | some _ =>
      match s1.step .sDispEnd with
      | some (s', .consumed n) =>
        if nr ≠ some n then rej s!"notification bytes consumed: model {n}" else
        (match checkPePr s' rest with
         | none => ({ d with st := some s', inDisp := false }, "ok")
         | some e => rej e)
      | _ => rej "end of dispatch not enabled (callback still running or bytes missing)"
  | "S" :: "rate" :: rl :: rest =>
    match rlOf rl with
    | none => rej "malformed"
    | some rl =>
      match s.step (.sRateLimit rl) with
      | some (s', _) =>
        (match checkPePr s' rest with
         | none => ok s'
         | some e => rej e)
      | none => rej "internal"
  | "S" :: kind :: seq :: len :: rest =>
    let isEv := kind == "evsend" || kind == "evsendv"
    let isRs := kind == "rsend" || kind == "rsendv"
    if !(isEv || isRs) then rej "unknown server line" else
    let rest' := if kind.endsWith "v" then rest.drop 1 else rest
    match seq.toNat?, len.toNat?, rest' with
    | some seq, some len, "->" :: r :: more =>
      let m := mkMsg seq len
      let a : Act := if isEv then .sEventSend (kind.endsWith "v") m (dgOf r) else .sRespSend (kind.endsWith "v") m (dgOf r)
      match fitObs s a (nsObs more) with
      | .error e => rej e
      | .ok s1 =>
        match s1.step a with
        | some (s', .ret x) =>
          if showRet x ≠ r then rej s!"returned {r}, model {showRet x}" else
          (match checkPePr s' more with
           | none => ok s'
           | some e => rej e)
        | _ => rej "send not enabled (malformed message)"
    | _, _, _ => rej "malformed"
  | _ => rej "unknown line"

def step (d : DSt) (ws : List String) : DSt × List String :=
  let (d', o) := stepLine d ws
  (d', [o])

def main (_args : List String) : IO UInt32 := do
  lineLoop ({} : DSt) step
  return 0

end QbVerif.Driver.IpcAccept
