import QbVerif.Model.IpcLifeWorld
import QbVerif.Model.IpcLifeClient
import QbVerif.Driver.Util

/-! Line-protocol driver `qb_ipclife` for C03 (same op lines as harness/ipc/ipc_crash.c). -/
namespace QbVerif.Driver.IpcLife
open QbVerif.IpcLife QbVerif.Driver

def parseT (s : String) : Transport := if s == "shm" then .shm else .sock
def parseMode (s : String) : Mode := if s.startsWith "R" then .R else if s.startsWith "L" then .L else .S

def parseInt (s : String) : Int :=
  if s.startsWith "-" then - ((s.drop 1).toNat?.getD 0 : Nat) else (s.toNat?.getD 0 : Nat)

def step (st : Unit) (ws : List String) : Unit × List String :=
  match ws with
  | ["cdry", t, sc, m] => (st, caseClientDeath (parseT t) sc.toList (parseMode m) 0 true)
  | ["cdeath", t, sc, m, k] => (st, caseClientDeath (parseT t) sc.toList (parseMode m) (k.toNat?.getD 0) false)
  | ["gdry", t, sc] => (st, caseGate (parseT t) sc.toList 0 true)
  | ["gdeath", t, sc, j] => (st, caseGate (parseT t) sc.toList (j.toNat?.getD 0) false)
  | ["hs", t, m, n] => (st, caseHandshake (parseT t) (parseMode m) (n.toNat?.getD 0))
  | ["sdry", t, pre, api, tmo] => (st, Client.caseServerDeath (parseT t) pre.toList api (parseInt tmo) 0 true)
  | ["sdeath", t, pre, api, tmo, s] =>
    (st, Client.caseServerDeath (parseT t) pre.toList api (parseInt tmo) (s.toNat?.getD 0) false)
  | _ => (st, ["bad-op"])

def main (_args : List String) : IO UInt32 := do
  lineLoop () step
  return 0

end QbVerif.Driver.IpcLife
