/-
Line-protocol driver for the concurrent ring model (`qb_ringconc`), counterpart of
harness/rb/rb_conc.c.

  open S FLAGS PAGE          -> ok W
  progw w:HEX f:HEX …        -> ok        (w = qb_rb_chunk_write, f = alloc / word-wise copy / commit)
  progr r:CAP p P …          -> ok        (r = read, p = peek+copy+reclaim, P = same, word-wise copy)
  sched wrrw…                -> per step `T pc rp wp m[rp] m[rp+1] m[wp] m[wp+1] sem`, followed by
                                `W <result>` / `R <result>` when the step completed a call
  drain                      -> `drain <n> <hex>` per chunk still readable, `drain-end <E…>`,
                                `final rp wp sem memhash`
  pre NW NR                  -> `pre <schedule>`: the sequential preamble (NW writes, then NR reads)
  enum NW NR MAX             -> `s <schedule>` for one representative of every class of
                                interleavings that differ only in the order of independent steps
                                (sleep sets), after a sequential preamble of NW writes and NR
                                reads; `enum-end <count> <blocked>`
  steplist                   -> the order of shared accesses and schedule points per C function
                                that `wstep`/`rstep` implement (compared with the source text)
-/
import QbVerif.Model.RingConc
import QbVerif.Driver.Util
import QbVerif.Driver.Ring

namespace QbVerif.Driver.RingConc
open QbVerif.Ring QbVerif.RingConc QbVerif.Driver

structure St where
  rb : Option Rb := none
  wprog : List WOp := []
  rprog : List ROp := []
  conf : Option Conf := none

def hex8 (n : Nat) : String :=
  String.ofList ((List.range 8).reverse.map fun i => hexNib (n / 16 ^ i % 16))

def curFine (c : Conf) : Bool := match c.wprog with | op :: _ => op.fine | [] => false

def snapshot (c : Conf) (t : Tid) : String :=
  let r := c.rb
  let pc := match t with | .w => c.wpc.id (curFine c) | .r => c.rpc.id
  let tn := match t with | .w => "w" | .r => "r"
  let sem := match r.sem with | none => "-" | some n => toString n
  s!"{tn} {pc} {r.rp} {r.wp} {hex8 (rd32 r.mem (r.rp % r.W))} {hex8 (rd32 r.mem ((r.rp + 1) % r.W))} {hex8 (rd32 r.mem (r.wp % r.W))} {hex8 (rd32 r.mem ((r.wp + 1) % r.W))} {sem}"

def stepLines (c : Conf) (t : Tid) : Conf × List String :=
  let c' := step c t
  let res := match t with
    | .w => (c'.wOuts.drop c.wOuts.length).map fun o => "W " ++ Ring.showOut o
    | .r => (c'.rOuts.drop c.rOuts.length).map fun o => "R " ++ Ring.showOut o
  (c', snapshot c' t :: res)

def fnv (m : Array Nat) : Nat :=
  (m.foldl (fun (h : UInt32) b => (h ^^^ (UInt32.ofNat b)) * 16777619) (2166136261 : UInt32)).toNat

partial def drain (r : Rb) (acc : List String) : Rb × List String :=
  match r.read (4 * r.W) with
  | (r', .ok bs) => drain r' (s!"drain {bs.length} {toHex bs}" :: acc)
  | (r', .error e) => (r', (s!"drain-end {e.name}" :: acc).reverse)

/-! ### independence of steps, for the enumeration -/

inductive Loc where
  | rp | wp | sem
  | words (lo n : Nat)

structure Acc where
  loc : Loc
  wr : Bool

def payloadWords (W p j n : Nat) : Loc := .words (((p + HDRW) % W + j / 4) % W) ((j % 4 + n + 3) / 4)

def accW (c : Conf) : Option Acc :=
  match c.wprog with
  | [] => none
  | op :: _ =>
    let r := c.rb
    let len := op.data.length
    match c.wpc with
    | .idle => some ⟨.wp, false⟩
    | .sfRd _ => some ⟨.rp, false⟩
    | .sfCmp ws rs _ => if ws == rs && r.sem.isSome then some ⟨.sem, false⟩ else none
    | .alWp => some ⟨.wp, false⟩
    | .alSz wp => some ⟨.words wp 1, true⟩
    | .alMg wp => some ⟨.words ((wp + 1) % r.W) 1, true⟩
    | .copy wp j =>
      if op.fine then (if j < len then some ⟨payloadWords r.W wp j (min 4 (len - j)), true⟩ else none)
      else if len = 0 then none else some ⟨payloadWords r.W wp 0 len, true⟩
    | .cmWp => some ⟨.wp, false⟩
    | .cmSz old => some ⟨.words old 1, true⟩
    | .cmStep old => some ⟨.words old 1, false⟩
    | .cmNext old new => if (new + 1) % r.W ≠ old then some ⟨.words ((new + 1) % r.W) 1, true⟩ else none
    | .cmSetWp _ _ => some ⟨.wp, true⟩
    | .cmMg old => some ⟨.words ((old + 1) % r.W) 1, true⟩
    | .cmPost => if r.sem.isSome then some ⟨.sem, true⟩ else none

def accR (c : Conf) : Option Acc :=
  match c.rprog with
  | [] => none
  | op :: _ =>
    let r := c.rb
    let semW : Option Acc := if r.sem.isSome then some ⟨.sem, true⟩ else none
    match c.rpc with
    | .idle => semW
    | .rdRp | .pkRp | .rcRp => some ⟨.rp, false⟩
    | .rdMg p | .pkMg p | .rcMg p => some ⟨.words ((p + 1) % r.W) 1, false⟩
    | .rdBad | .rdShort | .pkBad => semW
    | .rdSz p | .pkSz p | .rcSz p | .rcStep p => some ⟨.words p 1, false⟩
    | .rdCpy p sz => if sz = 0 then none else some ⟨payloadWords r.W p 0 sz, false⟩
    | .rcopy p sz j =>
      let fine := match op with | .pr f => f | _ => false
      if fine then (if j < sz then some ⟨payloadWords r.W p j (min 4 (sz - j)), false⟩ else none)
      else if sz = 0 then none else some ⟨payloadWords r.W p 0 sz, false⟩
    | .rcClr old _ => some ⟨.words old 1, true⟩
    | .rcDead old _ => some ⟨.words ((old + 1) % r.W) 1, true⟩
    | .rcSetRp _ => some ⟨.rp, true⟩

def overlap (W : Nat) : Loc → Loc → Bool
  | .rp, .rp => true
  | .wp, .wp => true
  | .sem, .sem => true
  | .words l1' n1', .words l2 n2 =>
    -- word ranges are widened by one word on each side: accesses to the two words of one
    -- chunk header (and to a header and the adjacent payload word) count as dependent, so
    -- that every placement of a step inside the header windows of the other thread is explored
    let l1 := l1' + W - 1
    let n1 := n1' + 2
    if n1 ≤ n2 then (List.range n1).any fun i => ((l1 + i) % W + W - l2 % W) % W < n2
    else (List.range n2).any fun i => ((l2 + i) % W + W - l1 % W) % W < n1
  | _, _ => false

def conflict (W : Nat) : Option Acc → Option Acc → Bool
  | some a, some b => (a.wr || b.wr) && overlap W a.loc b.loc
  | _, _ => false

partial def explore (out : IO.FS.Stream) (cnt blocked : IO.Ref Nat) (limit : Nat)
    (c : Conf) (sw sr : Bool) (path : List Char) : IO Unit := do
  if (← cnt.get) ≥ limit then return
  let fw := c.finished .w
  let fr := c.finished .r
  if fw && fr then
    out.putStrLn ("s " ++ String.ofList path.reverse)
    cnt.modify (· + 1)
    return
  let indep := !(conflict c.rb.W (accW c) (accR c))
  let goW := !fw && !sw
  let goR := !fr && !sr
  if goW then
    explore out cnt blocked limit (step c .w) false (sr && indep) ('w' :: path)
  if goR then
    explore out cnt blocked limit (step c .r) ((sw || goW) && indep) false ('r' :: path)
  if !goW && !goR then blocked.modify (· + 1)

/-- run thread `t` until it has completed `n` calls (bounded) -/
def runUntil (c : Conf) (t : Tid) (n : Nat) : Nat → Conf × List Char
  | 0 => (c, [])
  | fuel + 1 =>
    let k := match t with | .w => c.wOuts.length | .r => c.rOuts.length
    if k ≥ n || c.finished t then (c, [])
    else
      let (c', p) := runUntil (step c t) t n fuel
      (c', (match t with | .w => 'w' | .r => 'r') :: p)

def stepList : List String := [
  "qb_rb_space_free: load:write_pt P1 load:read_pt P2 qlen",
  "qb_rb_chunk_alloc: call:space_free P3 load:write_pt P4 store:size=0 P5 store:magic=ALLOC",
  "qb_rb_chunk_step: load:size",
  "qb_rb_chunk_commit: P7 load:write_pt P8 store:size=len P9 call:chunk_step P10 store:magic=DEAD P11 store:write_pt P12 store:magic=MAGIC P13 post",
  "qb_rb_chunk_write: call:alloc P6 memcpy call:commit",
  "_rb_chunk_reclaim: P14 load:read_pt P15 load:magic P16 load:size P17 call:chunk_step P18 store:size=0 P19 store:magic=DEAD P20 store:read_pt",
  "qb_rb_chunk_peek: wait P21 load:read_pt P22 load:magic P23 post P24 load:size",
  "qb_rb_chunk_read: wait P25 load:read_pt P26 load:magic P27 post P28 load:size P29 post P30 memcpy call:reclaim"]

def getConf (st : St) : Option Conf :=
  match st.conf with
  | some c => some c
  | none => st.rb.map fun rb => init rb st.wprog st.rprog

def parseW (tok : String) : Option WOp :=
  match tok.splitOn ":" with
  | ["w", h] => (parseHex h).map fun d => ⟨false, d⟩
  | ["f", h] => (parseHex h).map fun d => ⟨true, d⟩
  | _ => none

def parseR (tok : String) : Option ROp :=
  match tok.splitOn ":" with
  | ["r", n] => n.toNat?.map ROp.read
  | ["p"] => some (.pr false)
  | ["P"] => some (.pr true)
  | _ => none

def handle (out : IO.FS.Stream) (st : St) (ws : List String) : IO St := do
  match ws with
  | ["open", s, flags, page] =>
    match s.toNat?, flags.toNat?, page.toNat? with
    | some s, some f, some pg =>
      if pg = 0 then out.putStrLn "bad-op"; return st
      let r := Rb.open s pg false (f / 16 % 2 = 0)
      out.putStrLn s!"ok {r.W}"
      return { rb := some r }
    | _, _, _ => out.putStrLn "bad-op"; return st
  | "progw" :: toks =>
    match toks.mapM parseW with
    | some p => out.putStrLn "ok"; return { st with wprog := p, conf := none }
    | none => out.putStrLn "bad-op"; return st
  | "progr" :: toks =>
    match toks.mapM parseR with
    | some p => out.putStrLn "ok"; return { st with rprog := p, conf := none }
    | none => out.putStrLn "bad-op"; return st
  | ["sched", s] =>
    match getConf st with
    | none => out.putStrLn "bad-op"; return st
    | some c0 =>
      let mut c := c0
      for ch in s.toList do
        let t := if ch == 'w' then Tid.w else Tid.r
        let (c', ls) := stepLines c t
        for l in ls do out.putStrLn l
        c := c'
      return { st with conf := some c }
  | ["drain"] =>
    match getConf st with
    | none => out.putStrLn "bad-op"; return st
    | some c =>
      if !c.quiescent then out.putStrLn "drain-notquiescent"; return st
      let (r', ls) := drain c.rb []
      for l in ls do out.putStrLn l
      let sem := match r'.sem with | none => "-" | some n => toString n
      out.putStrLn s!"final {r'.rp} {r'.wp} {sem} {hex8 (fnv r'.mem)}"
      return { st with conf := some { c with rb := r' } }
  | ["enum", nw, nr, mx] =>
    match getConf st, nw.toNat?, nr.toNat?, mx.toNat? with
    | some c0, some nw, some nr, some mx =>
      let (c1, p1) := runUntil c0 .w nw 100000
      let (c2, p2) := runUntil c1 .r nr 100000
      let cnt ← IO.mkRef 0
      let blocked ← IO.mkRef 0
      explore out cnt blocked mx c2 false false (p1 ++ p2).reverse
      out.putStrLn s!"enum-end {← cnt.get} {← blocked.get}"
      return st
    | _, _, _, _ => out.putStrLn "bad-op"; return st
  | ["pre", nw, nr] =>
    match getConf st, nw.toNat?, nr.toNat? with
    | some c0, some nw, some nr =>
      let (c1, p1) := runUntil c0 .w nw 100000
      let (_, p2) := runUntil c1 .r nr 100000
      out.putStrLn ("pre " ++ String.ofList (p1 ++ p2))
      return st
    | _, _, _ => out.putStrLn "bad-op"; return st
  | ["steplist"] =>
    for l in stepList do out.putStrLn l
    return st
  | _ => out.putStrLn "bad-op"; return st

partial def loop (inp out : IO.FS.Stream) (st : St) : IO Unit := do
  let line ← inp.getLine
  if line.isEmpty then out.flush; return
  let ws := words line
  match ws with
  | [] => loop inp out st
  | "case" :: _ =>
    out.putStrLn (" ".intercalate ws)
    loop inp out {}
  | w :: _ =>
    if w.startsWith "#" then loop inp out st
    else
      let st' ← handle out st ws
      loop inp out st'

def main (_args : List String) : IO UInt32 := do
  let inp ← IO.getStdin
  let out ← IO.getStdout
  loop inp out {}
  return 0

end QbVerif.Driver.RingConc
