import QbVerif.Model.Hdb
import QbVerif.Driver.Util

/-!
Line-protocol driver `hdb` (DESIGN.md appendix A), the model side of harness/hdb/hdb_drv.c.

Ops (one per line):
  `create R1 R2 …`   values returned by the successive `random()` calls (decimal; calls beyond the
                     list repeat the last value, no value = 0)   → `ok K HANDLE16HEX` | `E…`
  `createfail`       qb_hdb_handle_create with instance_size = -1 (malloc fails) → `E…`
  `dump`             → `tbl hc=N it=N SLOT:STATE:REFCOUNT:CHECK8HEX:INST …` the table itself (correspondence only)
  `get H` `geta H`   → `ok K` | `E…`        (K = number written into the instance by the harness)
  `put H` `destroy H` → [`dtor K` …] `ok` | `E…`
  `refcount H`       → `rc N`               (the raw int32 return value)
  `iter_reset`       → `ok`
  `iter_next`        → `ok K HANDLE16HEX` | `end`
Handle expressions `H` (K refers to the K-th successful create of the case, counted from 0):
  `hK`        the handle returned by create K
  `nK`        qb_hdb_nocheck_convert(qb_hdb_base_convert(hK))   (check 0xffffffff, slot of hK)
  `zK`        check 0 with the slot of hK
  `sK:N`      the check of hK with slot N (decimal)
  `kK:HEX`    check HEX with the slot of hK
  `rHEX`      the raw 64-bit value HEX
A reference to a create that has not happened answers `bad-op`.
-/
namespace QbVerif.Driver.Hdb
open QbVerif.Hdb QbVerif.Driver

structure DSt where
  st : St
  issued : Array Nat

def DSt.init : DSt := ⟨St.init, #[]⟩

def parseHexNat (s : String) : Option Nat :=
  if s.isEmpty then none else
  s.toList.foldl (fun acc c => match acc, hexDigit c with
    | some a, some d => some (16 * a + d)
    | _, _ => none) (some 0)

def hex16 (n : Nat) : String :=
  String.ofList ((List.range 16).reverse.map fun i => hexNib (n / 16^i % 16))

def hex8 (n : Nat) : String :=
  String.ofList ((List.range 8).reverse.map fun i => hexNib (n / 16^i % 16))

def errName (rc : Int) : String :=
  if rc = EBADF then "EBADF" else if rc = EINVAL then "EINVAL" else if rc = ERANGE then "ERANGE"
  else if rc = ENOMEM then "ENOMEM"
  else s!"E{-rc}"

def instName : Option Nat → String
  | none => "null"
  | some k => s!"{k}"

def parseHandle (d : DSt) (tok : String) : Option Nat :=
  let body := (tok.drop 1).toString
  let issuedAt (s : String) : Option Nat := s.toNat?.bind fun k => d.issued[k]?
  match tok.toList.head? with
  | some 'h' => issuedAt body
  | some 'n' => (issuedAt body).map fun h => mkHandle NOCHECK (hSlot h)
  | some 'z' => (issuedAt body).map fun h => mkHandle 0 (hSlot h)
  | some 's' =>
    match body.splitOn ":" with
    | [k, n] => match issuedAt k, n.toNat? with
      | some h, some n => if n < 2^32 then some (mkHandle (hCheck h) n) else none
      | _, _ => none
    | _ => none
  | some 'k' =>
    match body.splitOn ":" with
    | [k, c] => match issuedAt k, parseHexNat c with
      | some h, some c => if c < 2^32 then some (mkHandle c (hSlot h)) else none
      | _, _ => none
    | _ => none
  | some 'r' => (parseHexNat body).bind fun v => if v < 2^64 then some v else none
  | _ => none

def showOut : Out → String
  | .created rc h => if rc = 0 then s!"created {hex16 h}" else errName rc
  | .got rc inst => if rc = 0 then s!"ok {instName inst}" else errName rc
  | .rc r => if r = 0 then "ok" else errName r
  | .dtor inst => s!"dtor {instName inst}"
  | .iter rc inst h => if rc = 0 then s!"ok {instName inst} {hex16 h}" else "end"
  | .unit => "ok"

/-- struct qb_hdb and its entries below handle_count, as harness/hdb/hdb_drv.c prints them -/
def dumpLine (st : St) : String :=
  let ents := (List.range st.handleCount).map fun j =>
    let e := st.tbl.get j
    s!" {j}:{e.state}:{e.refCount}:{hex8 e.check}:{instName e.inst}"
  s!"tbl hc={st.handleCount} it={st.iterator}" ++ String.join ents

def step (d : DSt) (ws : List String) : DSt × List String :=
  match ws with
  | "create" :: rs =>
    match rs.mapM (fun (r : String) => r.toNat?) with
    | none => (d, ["bad-op"])
    | some draws =>
      let (st', o) := d.st.create draws
      match o with
      | .created 0 h => (⟨st', d.issued.push h⟩, [s!"ok {d.issued.size} {hex16 h}"])
      | o => (⟨st', d.issued⟩, [showOut o])
  | ["createfail"] => let (st', os) := d.st.step .createFail; (⟨st', d.issued⟩, os.map showOut)
  | ["dump"] => (d, [dumpLine d.st])
  | ["iter_reset"] => let (st', os) := d.st.step .iterReset; (⟨st', d.issued⟩, os.map showOut)
  | ["iter_next"] => let (st', os) := d.st.step .iterNext; (⟨st', d.issued⟩, os.map showOut)
  | [cmd, htok] =>
    match parseHandle d htok with
    | none => (d, ["bad-op"])
    | some h =>
      let op? : Option Op := match cmd with
        | "get" => some (.get h)
        | "geta" => some (.getAlways h)
        | "put" => some (.put h)
        | "destroy" => some (.destroy h)
        | "refcount" => some (.refcount h)
        | _ => none
      match op? with
      | none => (d, ["bad-op"])
      | some (.refcount h) => (d, [s!"rc {d.st.refcountGet h}"])
      | some op => let (st', os) := d.st.step op; (⟨st', d.issued⟩, os.map showOut)
  | _ => (d, ["bad-op"])

def main (_args : List String) : IO UInt32 := do
  lineLoop DSt.init step
  return 0

end QbVerif.Driver.Hdb
