import QbVerif.Model.Dump
import QbVerif.Driver.Util

/-!
Driver `qb_dump` (DESIGN.md appendix A, driver `dump`):
  `print FILEHEX [TEXTHEX:RET …]` → `dec TEXTHEX RET` per decoder call, `o HEX` per stdout line
                                     (`o~ HEX` = last line without newline), `rc N`, `residue N`
                                     (or `SAN:abort` / `SAN:oob` when the model says the process dies)
  `want …`                         → `ok`
The decoded message texts are supplied by the caller (they come from the real decoder, whose
model belongs to property C14); the k-th decoder call gets the k-th pair.
Argument `--pre` selects the code before the proposed repairs.
-/
namespace QbVerif.Driver.Dump
open QbVerif.Dump QbVerif.Driver

/-- state of the scripted decoder: pairs still to hand out, pairs handed out (reversed) -/
abbrev Script := List Dec × List Dec

def scripted : Decoder Script where
  run s _ := match s.1 with
    | [] => (([], ⟨[], 1⟩ :: s.2), ⟨[], 1⟩)
    | d :: ds => ((ds, d :: s.2), d)

def parseDec (t : String) : Option Dec :=
  match t.splitOn ":" with
  | [h, r] => match parseHex h, r.toNat? with
    | some bs, some n => some ⟨bs, n⟩
    | _, _ => none
  | _ => none

/-- split at newlines as the harness does -/
def splitLines (bs : List Nat) : List String :=
  let rec go : List Nat → List Nat → List String → List String
    | [], [], acc => acc.reverse
    | [], cur, acc => (("o~ " ++ toHex cur.reverse) :: acc).reverse
    | 10 :: rest, cur, acc => go rest [] (("o " ++ toHex cur.reverse) :: acc)
    | b :: rest, cur, acc => go rest (b :: cur) acc
  go bs [] []

def step (cfg : Cfg) (st : Unit) (ws : List String) : Unit × List String :=
  match ws with
  | "print" :: h :: ds =>
    match parseHex h, ds.mapM parseDec with
    | some f, some decs =>
      let (s, res) := printFromFile cfg scripted (decs, []) f
      let decLines := s.2.reverse.map fun d => s!"dec {toHex d.text} {d.ret}"
      match res.outcome with
      | .rc c => (st, decLines ++ splitLines res.out ++ [s!"rc {c}", s!"residue {if res.released then 0 else 2}"])
      | .abort => (st, ["SAN:abort"])
      | .oob => (st, ["SAN:oob"])
      | .fuel => (st, ["MODEL-FUEL"])
    | _, _ => (st, ["bad-op"])
  | "want" :: _ => (st, ["ok"])
  | _ => (st, ["bad-op"])

def main (args : List String) : IO UInt32 := do
  let cfg := if args.contains "--pre" then Cfg.orig else Cfg.repaired
  lineLoop () (step cfg)
  return 0

end QbVerif.Driver.Dump
