import QbVerif.Model.LogThread
import QbVerif.Gen.LogThreadConst
import QbVerif.Driver.Util
import Std.Data.HashSet

/-! Driver `logthread` (C16).  Input per case: any number of lines `C op …`, `P op …`, `s CPW…`
(appended to C's program, P's program, the schedule; ops:
`init open threaded:B enable:B ctl start startfail log:LEN fini joinp`).  At the next `case`
line / EOF the model replays the schedule exactly like `harness/log/logt_sched.c`: per schedule
character `skip T` or the events of the step followed by the snapshot line; after the
schedule the first enabled thread in the order W, P, C runs until none is enabled; final
line `end|deadlock q= mem= drop=`; a crash is the final line `SAN:…`.

Arguments: `exit=0|1 null=0|1 reset=0|1` select the code as found (0) or repaired (1, default),
`limit=N rec=N` override the regenerated constants.
`enum all MAX` / `enum cover MAX`: instead of replaying, print for every case `s <schedule>` lines:
all maximal schedules (every choice among the enabled threads), resp. one schedule per
transition of the reachable state graph (prefix = the case's `s` lines), at most MAX. -/
namespace QbVerif.Driver.LogThread
open QbVerif.LogThread QbVerif.Driver

def tidChar : Tid → Char
  | .C => 'C' | .P => 'P' | .W => 'W'

def charTid (c : Char) : Option Tid :=
  if c == 'C' then some .C else if c == 'P' then some .P else if c == 'W' then some .W else none

def opNameStr : OpName → String
  | .init => "init" | .open_ => "open" | .threaded => "threaded" | .enable => "enable"
  | .ctl => "ctl" | .start => "start" | .startfail => "startfail" | .log => "log"
  | .fini => "fini" | .joinp => "joinp"

def parseOp (w : String) : Option Op :=
  match w.splitOn ":" with
  | ["init"] => some .init
  | ["open"] => some .open_
  | ["ctl"] => some .ctl
  | ["start"] => some .start
  | ["startfail"] => some .startfail
  | ["fini"] => some .fini
  | ["joinp"] => some .joinp
  | ["threaded", b] => b.toNat?.map fun n => .threaded (n != 0)
  | ["enable", b] => b.toNat?.map fun n => .enable (n != 0)
  | ["log", n] => n.toNat?.map .log
  | _ => none

def b01 (b : Bool) : String := if b then "1" else "0"

def evStr : Ev → String
  | .log seq len e t => s!"log {seq} {len} e={b01 e} t={b01 t}"
  | .write seq => s!"write {seq}"
  | .lost n => s!"{n} messages lost"
  | .ret t op => s!"ret {tidChar t} {opNameStr op}"

def apcLabel (a : App) : String :=
  match a.pc with
  | .idle => if a.prog.isEmpty then "done" else "idle"
  | .logLock _ => "log/lock"
  | .logUnlock => "log/unlock"
  | .logPost => "log/post"
  | .logUnlockDrop => "log/unlock"
  | .ctlLock en => (if en.isSome then "enable" else "ctl") ++ "/lock"
  | .ctlUnlock isEn => (if isEn then "enable" else "ctl") ++ "/unlock"
  | .startWait => "start/wait"
  | .finiLock => "fini/lock"
  | .finiUnlock => "fini/unlock"
  | .finiPost => "fini/post"
  | .finiJoin => "fini/join"
  | .finiGetvalue => "fini/getvalue"
  | .joinP => "joinp/joinp"

def wpcLabel : WPc → String
  | .none => "none" | .startPost => "post" | .wait => "wait" | .lock => "lock"
  | .getvalue => "getvalue" | .unlock => "unlock" | .exitUnlock => "unlock" | .done => "done"

def semStr : Option Nat → String
  | none => "-"
  | some n => toString n

def lockStr (s : St) : String :=
  match s.lock with
  | .null => "null"
  | .dead => "dead"
  | .live => match s.owner with
    | none => "free"
    | some t => String.singleton (tidChar t)

def label (s : St) : Tid → String
  | .C => apcLabel s.c
  | .P => apcLabel s.p
  | .W => wpcLabel s.pcW

def snapshot (s : St) (t : Tid) : String :=
  s!"step {tidChar t} {label s t} sem={semStr s.sem} st={semStr s.startSem} lock={lockStr s} q={s.queue.length} mem={s.mem} drop={s.droppedCtr}"

def outcomeStr : Outcome → String
  | .running => "running" | .sanNull => "SAN:null" | .sanUaf => "SAN:uaf" | .badSem => "SAN:badsem"
  | .emptyPop => "SAN:emptypop" | .unmodelled => "UNMODELLED"

/-- execute one (enabled) step of `t`, returning the lines it prints -/
def doStep (cfg : Cfg) (s : St) (t : Tid) : St × List String :=
  let s' := exec cfg s t
  let newEvs := (s'.evs.take (s'.evs.length - s.evs.length)).reverse
  let lines := newEvs.map evStr
  if s'.outcome == .running then (s', lines ++ [snapshot s' t])
  else (s', lines ++ [outcomeStr s'.outcome])

def tailOrder : List Tid := [.W, .P, .C]

partial def tail (cfg : Cfg) (s : St) (acc : Array String) : St × Array String :=
  if s.outcome != .running then (s, acc) else
  match tailOrder.find? (enabled s) with
  | none => (s, acc)
  | some t =>
    let (s', ls) := doStep cfg s t
    tail cfg s' (acc ++ ls.toArray)

def replay (cfg : Cfg) (progC progP : List Op) (sched : String) : Array String := Id.run do
  let mut s := init progC progP
  let mut out : Array String := #[]
  for c in sched.toList do
    match charTid c with
    | none => pure ()
    | some t =>
      if s.outcome == .running then
        if enabled s t then
          let (s', ls) := doStep cfg s t
          s := s'
          out := out ++ ls.toArray
        else
          out := out.push s!"skip {c}"
  let (s', out') := tail cfg s out
  if s'.outcome == .running then
    let fin := s'.appDone .C && s'.appDone .P
    return out'.push s!"{if fin then "end" else "deadlock"} q={s'.queue.length} mem={s'.mem} drop={s'.droppedCtr}"
  else
    return out'

/-! ### schedule enumeration -/

def allTids : List Tid := [.C, .P, .W]

def schedStr (rev : List Tid) : String := String.ofList (rev.reverse.map tidChar)

/-- all maximal schedules (DFS), at most `max` -/
partial def enumAll (cfg : Cfg) (max : Nat) (s : St) (rev : List Tid) (acc : Array String) : Array String :=
  if acc.size ≥ max then acc else
  let en := if s.outcome == .running then allTids.filter (enabled s) else []
  if en.isEmpty then acc.push (schedStr rev)
  else en.foldl (fun acc t => enumAll cfg max (exec cfg s t) (t :: rev) acc) acc

def key (s : St) : St := { s with evs := [] }

/-- breadth-first over the reachable states; one schedule per transition -/
partial def enumCover (cfg : Cfg) (max : Nat) (s0 : St) (rev0 : List Tid) : Array String := Id.run do
  let mut seen : Std.HashSet St := {}
  seen := seen.insert (key s0)
  let mut frontier : Array (St × List Tid) := #[(s0, rev0)]
  let mut out : Array String := #[]
  while !frontier.isEmpty && out.size < max do
    let mut next : Array (St × List Tid) := #[]
    for (s, rev) in frontier do
      if s.outcome == .running then
        for t in allTids do
          if enabled s t && out.size < max then
            let s' := exec cfg s t
            out := out.push (schedStr (t :: rev))
            if !seen.contains (key s') then
              seen := seen.insert (key s')
              next := next.push (s', t :: rev)
    frontier := next
  return out

structure D where
  progC : List Op := []
  progP : List Op := []
  sched : String := ""
  any : Bool := false
  bad : Bool := false

inductive Mode | replay | enumAll (max : Nat) | enumCover (max : Nat)

def parseProg (ws : List String) : Option (List Op) := ws.mapM parseOp

def runPrefix (cfg : Cfg) (d : D) : St × List Tid :=
  d.sched.toList.foldl (fun (acc : St × List Tid) c =>
    match charTid c with
    | none => acc
    | some t => if acc.1.outcome == .running && enabled acc.1 t then (exec cfg acc.1 t, t :: acc.2) else acc)
    (init d.progC d.progP, [])

/-- a line of the current case -/
def addLine (d : D) (ws : List String) : D :=
  match ws with
  | w :: rest =>
    if w == "C" || w == "C:" then
      match parseProg rest with
      | some p => { d with progC := d.progC ++ p, any := true }
      | none => { d with bad := true }
    else if w == "P" || w == "P:" then
      match parseProg rest with
      | some p => { d with progP := d.progP ++ p, any := true }
      | none => { d with bad := true }
    else if w == "s" || w == "sched" then
      { d with sched := d.sched ++ rest.headD "", any := true }
    else { d with bad := true }
  | [] => d

/-- the case is complete: produce its output -/
def flush (cfg : Cfg) (mode : Mode) (d : D) : Array String :=
  if !d.any then #[] else
  if d.bad then #["bad-op"] else
  match mode with
  | .replay => replay cfg d.progC d.progP d.sched
  | .enumAll max =>
    let (s, rev) := runPrefix cfg d
    (enumAll cfg max s rev #[]).map ("s " ++ ·)
  | .enumCover max =>
    let (s, rev) := runPrefix cfg d
    (enumCover cfg max s rev).map ("s " ++ ·)

def parseArgs (args : List String) : Cfg × Mode := Id.run do
  let mut cfg : Cfg := { limit := QbVerif.Gen.LOGT_BACKLOG_LIMIT, recSize := QbVerif.Gen.LOGT_REC_SIZE,
                         fixExit := true, fixNull := true, fixReset := true }
  let mut mode := Mode.replay
  let mut rest := args
  while !rest.isEmpty do
    match rest with
    | "enum" :: "all" :: n :: r => mode := .enumAll (n.toNat?.getD 1000); rest := r
    | "enum" :: "cover" :: n :: r => mode := .enumCover (n.toNat?.getD 1000); rest := r
    | a :: r =>
      rest := r
      match a.splitOn "=" with
      | ["exit", v] => cfg := { cfg with fixExit := v != "0" }
      | ["null", v] => cfg := { cfg with fixNull := v != "0" }
      | ["reset", v] => cfg := { cfg with fixReset := v != "0" }
      | ["limit", v] => cfg := { cfg with limit := v.toNat?.getD cfg.limit }
      | ["rec", v] => cfg := { cfg with recSize := v.toNat?.getD cfg.recSize }
      | _ => pure ()
    | [] => pure ()
  return (cfg, mode)

partial def loop (cfg : Cfg) (mode : Mode) (stdin stdout : IO.FS.Stream) (d : D) : IO Unit := do
  let line ← stdin.getLine
  if line.isEmpty then
    for o in flush cfg mode d do stdout.putStrLn o
    stdout.flush
    return ()
  let ws := words line
  match ws with
  | [] => loop cfg mode stdin stdout d
  | "case" :: _ =>
    for o in flush cfg mode d do stdout.putStrLn o
    stdout.putStrLn (" ".intercalate ws)
    loop cfg mode stdin stdout {}
  | w :: _ =>
    if w.startsWith "#" then loop cfg mode stdin stdout d
    else loop cfg mode stdin stdout (addLine d ws)

def main (args : List String) : IO UInt32 := do
  let (cfg, mode) := parseArgs args
  loop cfg mode (← IO.getStdin) (← IO.getStdout) {}
  return 0

end QbVerif.Driver.LogThread
