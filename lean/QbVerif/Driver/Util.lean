/- Shared helpers for the line-protocol drivers (core Lean only). -/
namespace QbVerif.Driver

def hexDigit (c : Char) : Option Nat :=
  if '0' ≤ c ∧ c ≤ '9' then some (c.toNat - '0'.toNat)
  else if 'a' ≤ c ∧ c ≤ 'f' then some (c.toNat - 'a'.toNat + 10)
  else if 'A' ≤ c ∧ c ≤ 'F' then some (c.toNat - 'A'.toNat + 10)
  else none

/-- "-" is the empty string; otherwise pairs of hex digits -/
def parseHex (s : String) : Option (List Nat) :=
  if s == "-" then some [] else
  let rec go : List Char → List Nat → Option (List Nat)
    | [], acc => some acc.reverse
    | [_], _ => none
    | a :: b :: rest, acc =>
      match hexDigit a, hexDigit b with
      | some x, some y => go rest ((16*x + y) :: acc)
      | _, _ => none
  go s.toList []

def hexNib (n : Nat) : Char := "0123456789abcdef".toList.getD n '?'

def toHex (bs : List Nat) : String :=
  if bs.isEmpty then "-" else
  String.ofList (bs.flatMap fun b => [hexNib (b / 16 % 16), hexNib (b % 16)])

def words (line : String) : List String :=
  (line.trimAscii.toString.splitOn " ").filter (· ≠ "")

/-- Generic loop: `step` consumes one input line and returns the new state and the output
    lines for it.  A line `case N` is echoed and resets the state to `init`. -/
partial def lineLoop {σ : Type} (init : σ) (step : σ → List String → σ × List String) : IO Unit := do
  let stdin ← IO.getStdin
  let stdout ← IO.getStdout
  let rec loop (s : σ) : IO Unit := do
    let line ← stdin.getLine
    if line.isEmpty then
      stdout.flush
      return ()
    let ws := words line
    match ws with
    | [] => loop s
    | "case" :: _ =>
      stdout.putStrLn (" ".intercalate ws)
      loop init
    | w :: _ =>
      if w.startsWith "#" then loop s
      else
        let (s', outs) := step s ws
        for o in outs do stdout.putStrLn o
        loop s'
  loop init

end QbVerif.Driver
