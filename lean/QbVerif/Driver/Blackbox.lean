import QbVerif.Model.Blackbox
import QbVerif.Driver.Util

/-!
Driver `qb_blackbox`: the blackbox ops of harness/log/bb_print.c run through `Model/Blackbox.lean`.

  `mk SIZE`        → `ok W` | `EINVAL`     disable, QB_LOG_CONF_SIZE, enable (`qb_log_blackbox_open`)
  `maxline N`      → `ok` | `EINVAL`       QB_LOG_CONF_MAX_LINE_LEN
  `resize SIZE`    → `ok W` | `EINVAL`     QB_LOG_CONF_SIZE on the enabled target (`_blackbox_reload`)
  `r PRIO LINE TAGS SEC NSEC FUNCHEX SHAPE FMTHEX A1 …`
                   → `logged`              one call of `_blackbox_vlogger` (argument types by SHAPE,
                                           as `log_shape` in the harness)
  `dump`           → `live K rp wp`, `wrote N`, `file HEX`   (`qb_log_blackbox_write_to_file`), then disabled
Argument `--page N`: `sysconf(_SC_PAGESIZE)` (default 4096); `--original`: the encoder before its repairs;
`--d33`: `_blackbox_vlogger` with the proposed repair fixes/D33-… (message bound min(max_line_length, QB_LOG_MAX_LEN));
`--pre-d32`: `_blackbox_vlogger` before the repair of defect D32 (bound of the "too long" text).
-/
namespace QbVerif.Driver.Blackbox
open QbVerif.Blackbox QbVerif.Ring QbVerif.Driver

structure St where
  t : Target
  on : Bool

def St.init : St := { t := Target.init 0, on := false }

def toBytes (l : List Nat) : Ser.Bytes := l.map (·.toUInt8)

def strArg (s : String) : Option Ser.Arg := (parseHex s).map (fun b => Ser.Arg.str (some (toBytes b)))
def intArg (s : String) : Option Ser.Arg := s.toInt?.map Ser.Arg.int

/-- the variable arguments `log_shape` of the harness passes for a shape -/
def shapeArgs (shape : Nat) (a : List String) : Option (List Ser.Arg) :=
  let g (i : Nat) : String := a.getD i "0"
  match shape with
  | 0 => some []
  | 1 => do let x ← intArg (g 0); pure [x]
  | 2 => do let x ← strArg (g 0); pure [x]
  | 3 => do let x ← intArg (g 0); let y ← strArg (g 1); pure [x, y]
  | 4 => do let x ← (g 0).toInt?; pure [Ser.Arg.llong x]
  | 5 => do let x ← strArg (g 0); let y ← intArg (g 1); pure [x, y]
  | 6 => do let x ← intArg (g 0); let y ← intArg (g 1); pure [x, y]
  | 7 => do let x ← (g 0).toInt?; let y ← intArg (g 1); pure [Ser.Arg.long x, y]
  | 8 => do let x ← strArg (g 0); let y ← strArg (g 1); pure [x, y]
  | 9 => do let x ← (g 0).toInt?; let y ← strArg (g 1); let z ← intArg (g 2); pure [Ser.Arg.star x, y, z]
  | 10 => do let x ← strArg (g 0); let y ← intArg (g 1); let z ← strArg (g 2); let w ← intArg (g 3); pure [x, y, z, w]
  | _ => some []

/-- number of chunks between `read_pt` and `write_pt`, walking the headers as the harness does -/
def liveCount (r : Rb) : Nat :=
  let rec go : Nat → Nat → Nat → Nat
    | 0, _, k => k
    | fuel + 1, p, k => if p = r.wp then k else go fuel (r.chunkStep p) (k + 1)
  go (r.W + 1) r.rp 0

def u64 (i : Int) : Nat := (i % (18446744073709551616 : Int)).toNat

def step (e : Env) (s : St) (ws : List String) : St × List String :=
  match ws with
  | ["mk", n] =>
    match n.toInt? with
    | none => (s, ["bad-op"])
    | some n =>
      let t0 := bbClose s.t
      match ctlSize e t0 n with
      | (t1, false) => ({ t := t1, on := false }, ["EINVAL"])
      | (t1, true) =>
        match bbOpen e t1 with
        | (t2, false) => ({ t := t2, on := false }, ["EINVAL"])
        | (t2, true) => ({ t := t2, on := true }, [s!"ok {(t2.inst.map (·.W)).getD 0}"])
  | ["maxline", n] =>
    match s.on, n.toInt? with
    | true, some n =>
      match ctlMaxLine s.t n with
      | (t1, false) => ({ s with t := t1 }, ["EINVAL"])
      | (t1, true) => ({ s with t := t1 }, ["ok"])
    | _, _ => (s, ["bad-op"])
  | ["resize", n] =>
    match s.on, n.toInt? with
    | true, some n =>
      match ctlSize e s.t n with
      | (t1, false) => ({ s with t := t1 }, ["EINVAL"])
      | (t1, true) => ({ s with t := t1 }, [s!"ok {(t1.inst.map (·.W)).getD 0}"])
    | _, _ => (s, ["bad-op"])
  | "r" :: prio :: line :: tags :: sec :: nsec :: fn :: shape :: fmt :: a =>
    if !s.on then (s, ["bad-op"]) else
    match prio.toNat?, line.toNat?, tags.toNat?, sec.toInt?, nsec.toInt?, parseHex fn, shape.toNat?, parseHex fmt with
    | some prio, some line, some tags, some sec, some nsec, some fn, some shape, some fmt =>
      match shapeArgs shape a with
      | some args =>
        let c : Call := { lineno := line, tags := tags, prio := prio, fn := fn, fmt := toBytes fmt, args := args,
                          sec := u64 sec, nsec := u64 nsec }
        ({ s with t := vlogger e s.t c }, ["logged"])
      | none => (s, ["bad-op"])
    | _, _, _, _, _, _, _, _ => (s, ["bad-op"])
  | ["dump"] =>
    if !s.on then (s, ["bad-op"]) else
    match s.t.inst with
    | none => (s, ["no-instance"])
    | some rb =>
      let (w, f) := writeToFile s.t
      ({ t := bbClose s.t, on := false }, [s!"live {liveCount rb} {rb.rp} {rb.wp}", s!"wrote {w}", s!"file {toHex f}"])
  | _ => (s, ["bad-op"])

def argAfter (args : List String) (key : String) : Option String :=
  match args with
  | a :: b :: rest => if a == key then some b else argAfter (b :: rest) key
  | _ => none

def main (args : List String) : IO UInt32 := do
  let page := ((argAfter args "--page").bind (·.toNat?)).getD 4096
  let ser := if args.contains "--original" then Ser.Cfg.original else Ser.Cfg.repaired
  let e : Env := { page := page, ser := ser, fixD32 := !args.contains "--pre-d32", fixD33 := args.contains "--d33" }
  lineLoop St.init (step e)
  return 0

end QbVerif.Driver.Blackbox
