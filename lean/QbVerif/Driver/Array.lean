import QbVerif.Model.QbArray
import QbVerif.Driver.Util

/-! Line-protocol driver `qb_array` for the sequential growable-array model (DESIGN.md appendix A,
    driver `array`; the harness is harness/array/arr_drv.c). -/
namespace QbVerif.Driver.Array
open QbVerif.QbArray QbVerif.Driver

def showRes : Res → String
  | .addr b o => s!"addr {b} {o}"
  | .err e => e.name
  | .rc0 => "0"
  | .num n => s!"{n}"
  | .bytes l => toHex l
  | .badop => "bad-op"
  | .abort => "SAN:abort"
  | .wild => "wild"
  | .ub => "SAN:ub"

def parseInt (s : String) : Option Int :=
  if s.startsWith "-" then (s.drop 1).toNat?.map fun n => - (n : Int)
  else s.toNat?.map fun n => (n : Int)

def inI32 (i : Int) : Bool := decide (-2147483648 ≤ i) && decide (i ≤ 2147483647)

/-- heap contents before the array is created: not zero, so that "reads as zero" rests on calloc -/
def junk : Nat → Nat → Nat := fun _ _ => 0xA5

def step (orig : Bool) (st : Option St) (ws : List String) : Option St × List String :=
  match ws with
  | ["create", m, e, g] =>
    match m.toNat?, e.toNat?, g.toNat? with
    | some m, some e, some g =>
      match create junk m e g with
      | .ok s => (some s, ["ok"])
      | .error er => (none, [er.name])
    | _, _, _ => (st, ["bad-op"])
  | _ =>
    match st with
    | none => (st, ["bad-op"])
    | some s =>
      let op? : Option Op := match ws with
        | ["index", i] => (parseInt i).bind fun i => if inI32 i then some (Op.index i) else none
        | ["peek", i] => (parseInt i).bind fun i => if inI32 i then some (Op.peek i) else none
        | ["poke", i, o, v] =>
          match parseInt i, o.toNat?, v.toNat? with
          | some i, some o, some v => if inI32 i then some (Op.poke i o (v % 256)) else none
          | _, _, _ => none
        | ["grow", n] => n.toNat?.map Op.grow
        | ["numbins"] => some .numBins
        | ["epb"] => some .elemsPerBin
        | ["cbset", b] => b.toNat?.map fun b => Op.cbSet (b ≠ 0)
        | _ => none
      match op? with
      | none => (st, ["bad-op"])
      | some op =>
        -- `--orig`: the code before repair D28 (idx + 1 in int32_t)
        let o := match orig, op with
          | true, .index i => indexOrig s i
          | true, .peek i => if (indexOrig s i).res = Res.ub then indexOrig s i else QbArray.step s op
          | true, .poke i _ _ => if (indexOrig s i).res = Res.ub then indexOrig s i else QbArray.step s op
          | _, _ => QbArray.step s op
        (some o.s, o.newBins.map (fun b => s!"newbin {b}") ++ [showRes o.res])

def main (args : List String) : IO UInt32 := do
  lineLoop (none : Option St) (step (args.contains "--orig"))
  return 0

end QbVerif.Driver.Array
