import QbVerif.Model.Sched
import QbVerif.Driver.Util

/-! Driver `sched` (C10): `add P N` queues N fresh items on level P (0/1/2) for the poll phase of
the next iteration; `del P K` unlinks position K there; `iterate` runs one pass → `served H M L`
(+ `ids …` the dispatched ids per level); `info` → generated constants. -/
namespace QbVerif.Driver.Sched
open QbVerif.Sched QbVerif.Driver QbVerif.Gen

structure D where
  st : St := {}
  pre : List Act := []
  next : Nat := 0

def prioOf (n : Nat) : Option Prio :=
  if n = QB_LOOP_LOW then some .low else if n = QB_LOOP_MED then some .med
  else if n = QB_LOOP_HIGH then some .high else none

def step (d : D) (ws : List String) : D × List String :=
  match ws with
  | ["info"] =>
    (d, [s!"to_process {toProcess .high} {toProcess .med} {toProcess .low}"])
  | ["add", p, n] =>
    match p.toNat?.bind prioOf, n.toNat? with
    | some p, some n =>
      let ids := (List.range n).map (· + d.next)
      ({ d with pre := d.pre ++ ids.map (Act.add p), next := d.next + n }, ["ok"])
    | _, _ => (d, ["bad-op"])
  | ["del", p, k] =>
    match p.toNat?.bind prioOf, k.toNat? with
    | some p, some k => ({ d with pre := d.pre ++ [Act.del p k] }, ["ok"])
    | _, _ => (d, ["bad-op"])
  | ["iterate"] =>
    let (s', lg) := iterate d.st { pre := d.pre }
    let cnt (p : Prio) := (lg.dispOf p).length
    let ids (p : Prio) := " ".intercalate ((lg.dispOf p).map toString)
    ({ d with st := s', pre := [] },
     [s!"served {cnt .high} {cnt .med} {cnt .low}", s!"ids H {ids .high} M {ids .med} L {ids .low}"])
  | _ => (d, ["bad-op"])

def main (_args : List String) : IO UInt32 := do
  lineLoop ({} : D) step
  return 0

end QbVerif.Driver.Sched
