import QbVerif.Model.QbArrayConc
import QbVerif.Driver.Util

/-! Line-protocol driver `qb_arrayconc` for the concurrent growable-array model (schedule harness:
    harness/array/arr_conc.c).

      create MAX ESZ AUTO      -> ok | EINVAL
      thr T: op; op; ...       -> ok            (ops: index I | grow N | numbins)
      sched t t t ...          -> per turn: the results completed in it (`r T OPNO result`), then
                                  `t T <park point>`; finally `end`

    `--orig` selects the code as it is (unlocked tail read), default is the repaired code. -/
namespace QbVerif.Driver.ArrayConc
open QbVerif.QbArrayConc QbVerif.Driver

structure DSt where
  cfg : Option (Nat × Nat × Nat) := none
  progs : List (List Req) := []

def parseInt (s : String) : Option Int :=
  if s.startsWith "-" then (s.drop 1).toNat?.map fun n => - (n : Int)
  else s.toNat?.map fun n => (n : Int)

def parseOp (ws : List String) : Option Req :=
  match ws with
  | ["index", i] => (parseInt i).map Req.index
  | ["grow", n] => n.toNat?.map Req.grow
  | ["numbins"] => some .numBins
  | _ => none

/-- split `a b ; c d ; e` into ops -/
def splitOps (ws : List String) : List (List String) :=
  let rec go : List String → List String → List (List String) → List (List String)
    | [], cur, acc => (if cur.isEmpty then acc else cur.reverse :: acc).reverse
    | w :: rest, cur, acc =>
      if w == ";" then go rest [] (if cur.isEmpty then acc else cur.reverse :: acc)
      else if w.endsWith ";" then
        go rest [] (((w.dropEnd 1).toString :: cur).reverse :: acc)
      else go rest (w :: cur) acc
  go ws [] []

def setNth (l : List (List Req)) (n : Nat) (p : List Req) : List (List Req) :=
  let l' := l ++ List.replicate (n + 1 - l.length) []
  l'.set n p

/-- canonical block ids: first-seen order in the output -/
def canon (seen : List Nat) (k : Nat) : List Nat × Nat :=
  match seen.idxOf? k with
  | some n => (seen, n)
  | none => (seen ++ [k], seen.length)

def showRes (seen : List Nat) : Res → List Nat × String
  | .addr k o => let (s', n) := canon seen k; (s', s!"addr {n} {o}")
  | .err e => (seen, e.name)
  | .rc0 => (seen, "0")
  | .num n => (seen, s!"{n}")
  | .wild => (seen, "wild")
  | .abort => (seen, "SAN:abort")
  | .uaf => (seen, "SAN:uaf")

/-- The real code parks *inside* `qb_thread_unlock`, i.e. before the call that did the unlock has
    returned; the model's unlock step also produces the call's result.  So a result produced by a turn
    that ends at an unlock is printed at the start of the thread's next turn (as the harness does). -/
def runSched (fixed : Bool) (d : DSt) (sched : List Nat) : List String :=
  match d.cfg with
  | none => ["bad-op"]
  | some (m, e, g) =>
    let c0 := init fixed m e g d.progs
    let emit := fun (st : List Nat × (Nat → Nat) × List String × Bool) (en : Entry) =>
      let (sn, dn, ls, dd) := st
      if dd then st else
      let (tid, _, r) := en
      -- the real process dies at the sanitizer report: the runner appends the bare outcome
      if r == Res.uaf then (sn, dn, "SAN:uaf" :: ls, true)
      else if r == Res.abort then (sn, dn, "SAN:abort" :: ls, true)
      else
        let (sn', txt) := showRes sn r
        (sn', (fun x => if x = tid then dn tid + 1 else dn x), s!"r {tid} {dn tid} {txt}" :: ls, false)
    let rec go (c : Conf) (seen : List Nat) (done : Nat → Nat) (pend : List Entry) (ts : List Nat)
        (acc : List String) : List String :=
      match ts with
      | [] => (("end" :: acc).reverse)
      | t :: rest =>
        let (c', p) := turn 64 c t
        let newEntries := c'.log.drop c.log.length
        let mine := pend.filter (fun en => en.1 == t)
        let pend' := pend.filter (fun en => en.1 != t)
        let (now, later) := if p == Park.unlocked then (mine, newEntries) else (mine ++ newEntries, [])
        let (seen', done', lines, dead) := now.foldl emit (seen, done, [], false)
        if dead then (lines ++ acc).reverse
        else go c' seen' done' (pend' ++ later) rest (s!"t {t} {p.name}" :: (lines ++ acc))
    go c0 [] (fun _ => 0) [] sched []

def step (fixed : Bool) (d : DSt) (ws : List String) : DSt × List String :=
  match ws with
  | ["create", m, e, g] =>
    match m.toNat?, e.toNat?, g.toNat? with
    | some m, some e, some g =>
      if m > QbArray.MAXELEMS ∨ e < 1 ∨ g > QbArray.EPB then ({ cfg := none, progs := [] }, ["EINVAL"])
      else ({ cfg := some (m, e, g), progs := [] }, ["ok"])
    | _, _, _ => (d, ["bad-op"])
  | "thr" :: tid :: rest =>
    let tid := if tid.endsWith ":" then (tid.dropEnd 1).toString else tid
    match tid.toNat? with
    | none => (d, ["bad-op"])
    | some t =>
      let ops := (splitOps rest).map parseOp
      if ops.any Option.isNone then (d, ["bad-op"])
      else ({ d with progs := setNth d.progs t (ops.filterMap id) }, ["ok"])
  | "sched" :: ts =>
    let sched := ts.filterMap String.toNat?
    (d, runSched fixed d sched)
  | _ => (d, ["bad-op"])

def main (args : List String) : IO UInt32 := do
  lineLoop ({} : DSt) (step (!args.contains "--orig"))
  return 0

end QbVerif.Driver.ArrayConc
