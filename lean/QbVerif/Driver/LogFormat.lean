import QbVerif.Model.LogFormat
import QbVerif.Driver.Util

/-! Line-protocol driver `qb_logformat` for the C13 model (ops as in harness/log/fmt_drv.c).
    `qb_logformat original` runs the pre-repair variant of the model.
    `cut` (a direct call of the static helper `_strcpy_cutoff`) is only executed with `buf_len ≥ 1`;
    `buf_len = 0` cannot come from the library's callers and is answered `EDOM` on both sides. -/
namespace QbVerif.Driver.LogFormat
open QbVerif.LogFormat QbVerif.Driver

structure St where
  v : Variant
  /-- the implementation would have been stopped by the sanitizer earlier in this case -/
  dead : Bool

def kv (ws : List String) (key : String) : Option String :=
  (ws.find? (fun w => w.startsWith (key ++ "="))).map (fun w => (w.drop (key.length + 1)).toString)

def kvHex (ws : List String) (key : String) : Bytes :=
  match kv ws key with
  | some h => (parseHex h).getD []
  | none => []

def kvNat (ws : List String) (key : String) (dflt : Nat) : Nat :=
  match kv ws key with
  | some s => s.toNat?.getD dflt
  | none => dflt

def kvInt (ws : List String) (key : String) (dflt : Int) : Int :=
  match kv ws key with
  | some s => s.toInt?.getD dflt
  | none => dflt

/-- `HEX nul=K maxw=I` / `NONUL HEX maxw=I` -/
def report (m : Mem) : String :=
  match m.text with
  | some t => s!"{toHex t} nul={t.length} maxw={m.maxW}"
  | none => s!"NONUL {toHex m.data.toList} maxw={m.maxW}"

def capFor (ws : List String) (maxlen : Int) : Nat :=
  match kv ws "cap" with
  | some s => s.toNat?.getD 0
  | none => if maxlen < 0 then 0 else if maxlen > 8192 then 8192 else maxlen.toNat

def sfields (ws : List String) : SFields :=
  { name := kvHex ws "name", pid := kvInt ws "pid" 4242,
    host := match kv ws "host" with
      | some "fail" => none
      | some h => some ((parseHex h).getD [])
      | none => some [] }

def optOut (key : String) : Option Bytes → String
  | none => s!"{key}=none"
  | some b => s!"{key}={toHex b}"

def optLen (ws : List String) (key : String) : Option Int :=
  match kv ws key with
  | none => none
  | some "off" => none
  | some s => s.toInt?

def step (st : St) (ws : List String) : St × List String :=
  if st.dead then (st, []) else
  let oob : St × List String := ({ st with dead := true }, ["SAN:oob"])
  let v := st.v
  match ws with
  | "fmt" :: maxlen :: ell :: fmt :: rest =>
    let ml := maxlen.toInt?.getD 0
    match ctlMaxLineLen v ml with
    | none => (st, ["EINVAL"])
    | some M =>
      let fl : Fields :=
        { fn := kvHex rest "fn", file := kvHex rest "file", line := kvNat rest "line" 0,
          prio := kvNat rest "prio" 6, msg := kvHex rest "msg", t := kvHex rest "t",
          tT := kvHex rest "T",
          tags := match kv rest "tags" with
            | some "none" => none
            | some h => some ((parseHex h).getD [])
            | none => none }
      let (m, over) := targetFormat v ((parseHex fmt).getD []) fl M (ell != "0")
        (Mem.fresh (capFor rest ml) 170)
      if over || m.oob then oob else (st, [report m])
  | "static" :: maxlen :: outcap :: fmt :: rest =>
    match ctlMaxLineLen v (maxlen.toInt?.getD 0) with
    | none => (st, ["EINVAL"])
    | some M =>
      let (m, over) := formatStatic v ((parseHex fmt).getD []) (sfields rest) M
        (Mem.fresh (outcap.toNat?.getD 0) 170)
      if over || m.oob then oob else (st, [report m])
  | "fset" :: maxlen :: fmt :: rest =>
    match ctlMaxLineLen v (maxlen.toInt?.getD 0) with
    | none => (st, ["EINVAL"])
    | some M =>
      match formatSet v ((parseHex fmt).getD []) (sfields rest) M with
      | none => oob
      | some t => (st, [toHex t])
  | ["cut", cap, src, cutoff, ralign, buflen] =>
    -- outside the domain the callers can produce (Props.C13.caller_buf_len_ge_two): not executed
    if buflen.toNat?.getD 0 == 0 then (st, ["EDOM"]) else
    let (m, ret) := (Mem.fresh (cap.toNat?.getD 0) 170).cutoffAt v 0 ((parseHex src).getD [])
      (cutoff.toNat?.getD 0) (ralign != "0") (buflen.toNat?.getD 0)
    if m.oob then oob else (st, [s!"{ret} {report m}"])
  | "log" :: rest =>
    let cfg : LogCfg :=
      { mc := optLen rest "mc", mf := optLen rest "mf", ms := optLen rest "ms",
        ell := kvNat rest "ell" 0 != 0, ext := kvNat rest "ext" 1 != 0, old := kvNat rest "old" 0 != 0,
        ffmt := kvHex rest "ffmt", exp := kvHex rest "exp", prio := kvNat rest "prio" 6,
        line := kvNat rest "line" 1, fn := kvHex rest "fn", file := kvHex rest "file",
        sf := sfields rest }
    match logCall v cfg with
    | .einval => (st, ["EINVAL"])
    | .oob => oob
    | .out c f s o => (st, [s!"{optOut "c" c} {optOut "f" f} {optOut "s" s} {optOut "o" o}"])
  | _ => (st, ["bad-op"])

def main (args : List String) : IO UInt32 := do
  let v := if args.contains "original" then Variant.original else Variant.repaired
  lineLoop ({ v := v, dead := false } : St) step
  return 0

end QbVerif.Driver.LogFormat
