import QbVerif.Model.IpcsLife
import QbVerif.Driver.Util

/-! Line-protocol driver for the C04 model (same op lines as harness/ipc/ipcs_life.c).
    `qb_ipcslife [orig | abc]` : variant (three 0/1 digits fixClosed fixDispatch fixWalk; default all fixed). -/
namespace QbVerif.Driver.IpcsLife
open QbVerif.IpcsLife QbVerif.Driver

def kindName : Kind → String
  | .accept => "accept" | .created => "created" | .msg => "msg" | .closed => "closed" | .destroyed => "destroyed"

def showEv : Ev → String
  | .cb .accept c r _ => s!"cb accept c{c} ret={r}"
  | .cb .closed c r _ => s!"cb closed c{c} ret={r}"
  | .cb .destroyed c _ rc => s!"cb destroyed c{c} rc={rc}"
  | .cb k c _ _ => s!"cb {kindName k} c{c}"
  | .doOp ch c => s!"do {ch} c{c}"
  | .doIter ids => "do i" ++ String.join (ids.map fun c => s!" c{c}")
  | .skip => "do skip"
  | .res s => s

def parseTarget (s : String) : Option Nat :=
  if s == "s" then some 0 else match s.toNat? with | some n => if 1 ≤ n ∧ n ≤ 64 then some n else none | none => none

def parseSOp (t : String) : Option SOp :=
  if t == "i" then some .i else
  match t.splitOn ":" with
  | [o, x] =>
    match parseTarget x with
    | none => none
    | some n =>
      if o == "d" then some (.d n) else if o == "r" then some (.r n)
      else if o == "u" then some (.u n) else if o == "e" then some (.e n) else none
  | _ => none

def parseEntry (w : String) : Option Entry :=
  if w == "-" then some {} else
  (w.splitOn ",").foldl (fun acc t =>
    match acc with
    | none => none
    | some e =>
      if t.startsWith "ret=" then
        match (t.drop 4).toString.toInt? with
        | some r => some { e with ret := r }
        | none => none
      else match parseSOp t with
        | some o => if e.ops.length ≥ 8 then none else some { e with ops := e.ops ++ [o] }
        | none => none) (some {})

def parseKind (w : String) : Option Kind :=
  match w with
  | "accept" => some .accept | "created" => some .created | "msg" => some .msg
  | "closed" => some .closed | "destroyed" => some .destroyed | _ => none

def parseOp (ws : List String) : Option Op :=
  match ws with
  | "script" :: k :: es =>
    match parseKind k with
    | none => none
    | some k =>
      let ps := es.map parseEntry
      if ps.all Option.isSome then some (.script k (ps.filterMap id)) else none
  | ["connect", k] => k.toNat?.bind fun k => if k < 16 then some (.connect k) else none
  | ["send", k] => k.toNat?.bind fun k => if k < 16 then some (.send k) else none
  | ["gone", k] => k.toNat?.bind fun k => if k < 16 then some (.gone k) else none
  | ["disc", n] => n.toNat?.map fun n => .app (.d n)
  | ["ref", n] => n.toNat?.map fun n => .app (.r n)
  | ["unref", n] => n.toNat?.map fun n => .app (.u n)
  | ["ev", n] => n.toNat?.map fun n => .app (.e n)
  | ["iter"] => some (.app .i)
  | ["destroy"] => some .destroy
  | ["job"] => some .job
  | ["run"] => some .run
  | ["half", p] => p.toNat?.bind fun p => if p < 16 then some (.half p) else none
  | ["halfgone", p] => p.toNat?.bind fun p => if p < 16 then some (.halfgone p) else none
  | ["finish"] => some .finish
  | ["sendn", k, n] =>
    match k.toNat?, n.toNat? with
    | some k, some n => if k < 16 ∧ 1 ≤ n ∧ n ≤ 12 then some (.sendn k n) else none
    | _, _ => none
  | ["rate", r] => if r == "slow" then some (.rate 0) else if r == "normal" then some (.rate 1)
      else if r == "fast" then some (.rate 2) else none
  | ["fault", k, n] =>
    match n.toNat? with
    | some n =>
      if n < 1 ∨ n > 9 then none else
      if k == "add" then some (.fault 0 n) else if k == "mod" then some (.fault 1 n)
      else if k == "del" then some (.fault 2 n) else none
    | none => none
  | _ => none

structure D where
  st : Option St := none
  variant : St

def step (d : D) (ws : List String) : D × List String :=
  match ws with
  | ["svc", t] => ({ d with st := some { d.variant with sock := t == "sock" } }, ["ok"])
  | _ =>
    match d.st with
    | none =>
      -- scripts may precede nothing: the harness answers bad-op without a service, except `script`
      match ws with
      | "script" :: _ => (d, ["bad-op"])
      | _ => (d, ["bad-op"])
    | some s =>
      if s.halt then (d, []) else
      match parseOp ws with
      | none => (d, ["bad-op"])
      | some op =>
        let s' := QbVerif.IpcsLife.step { s with out := [] } op
        let outs := s'.out.reverse.map showEv
        let outs := if s'.halt then outs ++ ["SAN:uaf"] else outs
        ({ d with st := some s' }, outs)

def main (args : List String) : IO UInt32 := do
  let v : St := match args with
    | ["orig"] => initOrig
    | [w] =>
      match w.toList with
      | [a, b, c] => { fixClosed := a == '1', fixDispatch := b == '1', fixWalk := c == '1' }
      | _ => initFixed
    | _ => initFixed
  lineLoop ({ variant := v } : D) step
  return 0

end QbVerif.Driver.IpcsLife
