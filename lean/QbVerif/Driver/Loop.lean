import QbVerif.Model.LoopRun
import QbVerif.Driver.Util

/-! Driver `loop` (C08): the op lines of harness/loop/loop_drv.c, same output format.
`qb_loop --orig` models the code before the proposed repairs (Cfg all false). -/
namespace QbVerif.Driver.Loop
open QbVerif.Loop QbVerif.Driver

def errName (e : Int) : String :=
  let n := e.natAbs
  if n = 2 then "ENOENT" else if n = 9 then "EBADF" else if n = 17 then "EEXIST"
  else if n = 22 then "EINVAL" else if n = 12 then "ENOMEM" else if n = 34 then "ERANGE"
  else s!"E{n}"

def showRc (v : Int) : String := if v < 0 then errName v else toString v

def pfx (nested : Bool) : String := if nested then "> " else ""

def showFd (fd : Nat) : String := if fd = PIPE_FD then "P" else toString fd

def showFdI (fd : Int) : String := if fd = (PIPE_FD : Int) then "P" else toString fd

def render : Ev → String
  | .rc n v => pfx n ++ showRc v
  | .word n w => pfx n ++ w
  | .epoll n op fd hasData ev chk slot res =>
    pfx n ++ s!"epoll {op} {showFd fd}" ++ (if hasData then s!" {ev} {chk}:{slot}" else "") ++
      " " ++ (if res = 0 then "0" else errName res)
  | .wait t => s!"wait {t}"
  | .usleep => "usleep"
  | .cb .job id _ _ => s!"cb job {id}"
  | .cb .timer id _ _ => s!"cb timer {id}"
  | .cb .fd id a b => s!"cb fd {id} {showFdI a} {b}"
  | .cb .sig id a _ => s!"cb sig {id} {a}"
  | .done => "done"
  | .runReturned => "run-returned"
  | .fault w => s!"SAN:{w}"

def nat4 (a b c d : String) : Option (Nat × Nat × Nat × Nat) :=
  match a.toNat?, b.toNat?, c.toNat?, d.toNat? with
  | some a, some b, some c, some d => some (a, b, c, d)
  | _, _, _, _ => none

def parseOp (ws : List String) : Option Op :=
  match ws with
  | ["job_add", p, i] => match p.toNat?, i.toNat? with | some p, some i => some (.jobAdd p i) | _, _ => none
  | ["job_del", p, i] => match p.toNat?, i.toNat? with | some p, some i => some (.jobDel p i) | _, _ => none
  | ["timer_add", p, ns, h, i] => (nat4 p ns h i).map fun (p, ns, h, i) => .timerAdd p ns h i
  | ["timer_del", h] => h.toNat?.map .timerDel
  | ["timer_running", h] => h.toNat?.map .timerRunning
  | ["poll_add", p, fd, ev, i] => (nat4 p fd ev i).map fun (p, fd, ev, i) => .pollAdd p fd ev i
  | ["poll_mod", p, fd, ev, i] => (nat4 p fd ev i).map fun (p, fd, ev, i) => .pollMod p fd ev i
  | ["poll_del", fd] => fd.toNat?.map .pollDel
  | ["sig_add", p, sg, h, i] => (nat4 p sg h i).map fun (p, sg, h, i) => .sigAdd p sg h i
  | ["sig_mod", p, sg, h, i] => (nat4 p sg h i).map fun (p, sg, h, i) => .sigMod p sg h i
  | ["sig_del", h] => h.toNat?.map .sigDel
  | ["stop"] => some .stop
  | ["open", fd] => fd.toNat?.map .openFd
  | ["close", fd] => fd.toNat?.map .closeFd
  | ["advance", ns] => ns.toNat?.map .advance
  | ["nonce", v] => v.toNat?.map .nonce
  | ["signal", sg] => sg.toNat?.map .signal
  | ["info"] => some .info
  | _ => none

/-- split a token list at ";" -/
def splitSemi (ws : List String) : List (List String) :=
  let rec go (ws : List String) (cur : List String) (acc : List (List String)) : List (List String) :=
    match ws with
    | [] => (if cur.isEmpty then acc else cur.reverse :: acc).reverse
    | w :: rest => if w == ";" then go rest [] (if cur.isEmpty then acc else cur.reverse :: acc) else go rest (w :: cur) acc
  go ws [] []

def parseScript (ws : List String) : Option (Nat × Script) :=
  match ws with
  | idS :: rest =>
    match idS.toNat? with
    | none => none
    | some id =>
      let (times, body) := match rest with
        | t :: r => if t.startsWith "times=" then ((t.drop 6).toString.toNat?, r) else (none, rest)
        | [] => (none, [])
      let parts := splitSemi body
      let sc := parts.foldl (fun (sc : Script) part =>
        match part with
        | ["ret", v] => { sc with ret := v.toInt?.getD 0 }
        | _ => match parseOp part with
          | some op => if sc.ops.length < 32 then { sc with ops := sc.ops ++ [op] } else sc
          | none => sc) ({ times := times } : Script)
      some (id, sc)
  | [] => none

def parseReady (ws : List String) : List (Nat × Nat) :=
  ws.filterMap fun w =>
    match w.splitOn ":" with
    | [fd] => fd.toNat?.map (·, 1)
    | [fd, ev] => match fd.toNat?, ev.toNat? with | some fd, some ev => some (fd, ev) | _, _ => none
    | _ => none

def finish (s0 s1 : St) (evs : List Ev) : St × List String :=
  let outs := evs.map render
  match s0.fault, s1.fault with
  | none, some w => (s1, outs ++ [s!"SAN:{w}"])
  | _, _ => (s1, outs)

/-- every parsed line is executed by `St.cmd` (Model/LoopRun.lean), the function the theorems are about -/
def step (cfg : Cfg) (st : St) (ws : List String) : St × List String :=
  let _ := cfg
  if st.fault.isSome then (st, []) else
  match ws with
  | "script" :: rest =>
    match parseScript rest with
    | some (id, sc) => if id < MAXID then ((st.cmd (.script id sc)).1, ["ok"]) else (st, ["bad-op"])
    | none => (st, ["bad-op"])
  | "iterate" :: rest =>
    let (s1, evs) := st.cmd (.iterate (parseReady rest))
    finish st s1 evs
  | _ =>
    match parseOp ws with
    | none => (st, ["bad-op"])
    | some op => let (s1, evs) := st.cmd (.op op); finish st s1 evs

def main (args : List String) : IO UInt32 := do
  let cfg : Cfg := if args.contains "--orig" then { fixSigDel := false, fixAddFail := false }
    else { fixSigDel := !args.contains "--orig-sigdel", fixAddFail := !args.contains "--orig-addfail" }
  lineLoop (St.init cfg) (step cfg)
  return 0

end QbVerif.Driver.Loop
