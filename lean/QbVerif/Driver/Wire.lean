/-
Line-protocol driver for the C06 model (`qb_wire`): reads the same op lines as
harness/ipc/ipc_hostile.c and prints what the model says the real server does.
The system is a table of independent `Wire.Peer` machines (raw hostile peers and the
well-behaved control clients are the same machine, fed different events); connection ids are
handed out in the order the accept callback runs.  `qb_wire prerepair` runs the model of the
code without fixes/D21, D21b, D22.
-/
import QbVerif.Model.Wire
import QbVerif.Driver.Util

namespace QbVerif.Driver.Wire
open QbVerif.Wire QbVerif.Driver QbVerif.Gen

structure PeerRec where
  id : Nat
  st : PSt
  cid : Nat := 0
  /-- unread connection response on the client's side: (error, max_msg_size) -/
  resp : Option (Int × Nat) := none
  haveResp : Bool := false
  attached : Bool := false
  deriving Repr

structure Sys where
  up : Bool := false
  shm : Bool := true
  svcMax : Nat := 0
  acceptRc : Int := 0
  fix : Fix := Fix.all
  peers : List PeerRec := []
  nextCid : Nat := 1
  dead : Bool := false
  deriving Repr

def Sys.cfg (s : Sys) : Cfg :=
  { shm := s.shm, svcMax := s.svcMax, acceptRc := s.acceptRc, credsOk := true, fix := s.fix }

def errName (rc : Int) : String :=
  match rc.natAbs with
  | 1 => "EPERM" | 11 => "EAGAIN" | 12 => "ENOMEM" | 13 => "EACCES" | 22 => "EINVAL"
  | 5 => "EIO" | 16 => "EBUSY" | 107 => "ENOTCONN" | 108 => "ESHUTDOWN"
  | n => s!"E{n}"

def find (s : Sys) (id : Nat) : Option PeerRec := s.peers.find? (·.id == id)

def put (s : Sys) (p : PeerRec) : Sys :=
  if s.peers.any (·.id == p.id) then { s with peers := s.peers.map fun q => if q.id == p.id then p else q }
  else { s with peers := (s.peers ++ [p]).mergeSort (fun a b => a.id ≤ b.id) }

def drop (s : Sys) (id : Nat) : Sys := { s with peers := s.peers.filter (·.id != id) }

def queued : PSt → List Req
  | .conn _ _ rq => rq
  | _ => []

def maxOf : PSt → Nat
  | .conn m _ _ => m
  | _ => 0

/-- render the callbacks of one model step of peer `p` -/
def render (s : Sys) (p : PeerRec) (before : List Req) (st' : PSt) (cbs : List Cb) : Sys × PeerRec × List String :=
  let rec go (s : Sys) (p : PeerRec) (rq : List Req) (cbs : List Cb) (acc : List String) : Sys × PeerRec × List String :=
    match cbs with
    | [] => (s, p, acc.reverse)
    | .accept :: rest =>
      let p := { p with cid := s.nextCid }
      go { s with nextCid := s.nextCid + 1 } p rq rest (s!"cb accept c{p.cid}" :: acc)
    | .created :: rest =>
      go s { p with resp := some (0, maxOf st') } rq rest (s!"cb created c{p.cid}" :: acc)
    | .msg n _ _ :: rest =>
      let (bytes, rq') := match rq with
        | r :: rq' => ((r.d ++ r.stale ++ List.replicate 16 0).take (min n 16), rq')
        | [] => ([], [])
      go s p rq' rest (s!"cb msg c{p.cid} size={n} hdr={toHex bytes}" :: acc)
    | .closed :: rest => go s p rq rest (s!"cb closed c{p.cid}" :: acc)
    | .destroyed :: rest => go s p rq rest (s!"cb destroyed c{p.cid}" :: acc)
    | .oob :: _ => ({ s with dead := true }, p, ("SAN:oob" :: acc).reverse)
  go s p before cbs []

/-- run the server for peer `id` until it has nothing more to do (bounded) -/
def pumpPeer (s : Sys) (id : Nat) : Sys × List String :=
  let rec loop (fuel : Nat) (s : Sys) (acc : List String) : Sys × List String :=
    match fuel with
    | 0 => (s, acc)
    | fuel + 1 =>
      match find s id with
      | none => (s, acc)
      | some p =>
        if s.dead || !p.st.ready then (s, acc) else
        let (st', cbs) := Peer.step s.cfg p.st .poll
        let (s1, p1, lines) := render s p (queued p.st) st' cbs
        -- refused by connection_accept: the client finds the error response, then EOF
        let p1 := if cbs == [.accept, .destroyed] then { p1 with resp := some (s.acceptRc, 0) } else p1
        let p2 := { p1 with st := st' }
        let s2 := put s1 p2
        let s3 := match st' with | .bad => { s2 with dead := true } | _ => s2
        loop fuel s3 (acc ++ lines)
  loop 300 s []

def pumpAll (s : Sys) : Sys × List String :=
  s.peers.foldl (fun (acc : Sys × List String) p =>
    let (s', l) := pumpPeer acc.1 p.id
    (s', acc.2 ++ l)) (s, [])

def applyEv (s : Sys) (p : PeerRec) (e : PEv) : Sys :=
  put s { p with st := (Peer.step s.cfg p.st e).1 }

def isGone : PSt → Bool
  | .gone => true | _ => false
def isConn : PSt → Bool
  | .conn _ _ _ => true | _ => false
def sockOf : PSt → Sock
  | .hs _ k => k | .conn _ k _ => k | _ => {}

def emitOp (s : Sys) (p : PeerRec) (d : List Nat) : Sys × List String :=
  if !p.attached then (s, ["ENOTCONN"])
  else if !isConn p.st || (sockOf p.st).eof then (s, ["closed"])
  else if s.shm && d.length ≥ maxOf p.st + 8192 then (s, ["EAGAIN"])
  else (applyEv s p (.emit d []), [s!"sent {d.length}"])

def step (s : Sys) (ws : List String) : Sys × List String :=
  if s.dead then (s, []) else
  match ws with
  | ["svc", t, mb] =>
    ({ fix := s.fix, up := true, shm := t != "sock", svcMax := mb.toNat?.getD 0 }, ["ok"])
  | _ =>
  if !s.up then (s, ["bad-op"]) else
  match ws with
  | ["accept_rc", n] => ({ s with acceptRc := n.toInt?.getD 0 }, ["ok"])
  | ["hs_open", ps] =>
    match ps.toNat? with
    | some id => (put (drop s id) { id := id, st := Peer.init }, ["ok"])
    | none => (s, ["bad-op"])
  | ["hs_send", ps, hex] =>
    match ps.toNat?.bind (find s), parseHex hex with
    | some p, some bs =>
      if isGone p.st || (sockOf p.st).eof then (s, ["closed"])
      else (applyEv s p (.write bs), [s!"sent {bs.length}"])
    | _, _ => (s, ["bad-op"])
  | ["hs_shutwr", ps] =>
    match ps.toNat?.bind (find s) with
    | some p => (applyEv s p .shutWr, ["ok"])
    | none => (s, ["ok"])
  | [op, ps] =>
    if op == "hs_close" || op == "hs_die" then
      match ps.toNat?.bind (find s) with
      | some p => (applyEv s { p with haveResp := false, attached := false, resp := none } .close, ["ok"])
      | none => (s, ["ok"])
    else if op == "hs_state" then
      match ps.toNat?.bind (find s) with
      | some p =>
        match p.resp with
        | some (e, m) =>
          let line := if e = 0 then s!"resp 0 {m} {if s.shm then "shm" else "sock"}" else s!"resp {errName e} 0 -"
          (put s { p with resp := none, haveResp := e = 0 }, [line])
        | none => (s, [if isGone p.st then "closed" else "pending"])
      | none => (s, ["bad-op"])
    else if op == "attach" then
      match ps.toNat?.bind (find s) with
      | some p =>
        if !p.haveResp || p.attached then (s, ["bad-op"])
        else if isConn p.st then (put s { p with attached := true }, ["ok"])
        else (s, [if s.shm then "ENOENT" else "ECONNREFUSED"])
      | none => (s, ["bad-op"])
    else if op == "ctl_close" then
      match ps.toNat?.bind (fun k => find s (100 + k)) with
      | some p =>
        let s1 := applyEv s p .close
        let (s2, lines) := pumpAll s1
        (drop s2 p.id, lines ++ (if s2.dead then [] else ["ok"]))
      | none => let (s2, lines) := pumpAll s; (s2, lines ++ ["ok"])
    else (s, ["bad-op"])
  | ["pump"] =>
    let (s', lines) := pumpAll s
    (s', lines ++ (if s'.dead then [] else ["pumped"]))
  | ["msg", ps, ids, szs, lens] =>
    match ps.toNat?.bind (find s), ids.toInt?, szs.toInt?, lens.toNat? with
    | some p, some id, some sz, some len => emitOp s p (mkMsg id sz len)
    | _, _, _, _ => (s, ["ENOTCONN"])
  | ["raw", ps, hex] =>
    match ps.toNat?.bind (find s), parseHex hex with
    | some p, some bs => emitOp s p bs
    | _, _ => (s, ["ENOTCONN"])
  | ["ctl_connect", ks, ms] =>
    match ks.toNat?, ms.toNat? with
    | some k, some m =>
      let p : PeerRec := { id := 100 + k, st := Peer.init }
      let s1 := applyEv (put s p) p (.write (validReq (max m RESP)))
      let (s2, lines) := pumpAll s1
      if s2.dead then (s2, lines) else
      match find s2 (100 + k) with
      | some p' =>
        if isConn p'.st then (put s2 { p' with resp := none, haveResp := true, attached := true }, lines ++ ["ok"])
        else (drop s2 p'.id, lines ++ [errName s.acceptRc])
      | none => (s2, lines ++ ["bad-op"])
    | _, _ => (s, ["bad-op"])
  | ["ctl_echo", ks, ls] =>
    match ks.toNat?.bind (fun k => find s (100 + k)), ls.toNat? with
    | some p, some len =>
      if len < 16 then (s, ["bad-op"])
      else if len > maxOf p.st then (s, ["EMSGSIZE"])
      else
        let s1 := applyEv s p (.emit (mkMsg 100 len len) [])
        let (s2, lines) := pumpAll s1
        (s2, lines ++ (if s2.dead then [] else [s!"echo {len}"]))
    | _, _ => (s, ["bad-op"])
  | ["residue"] =>
    let cfg := s.cfg
    let fds := (s.peers.map fun p => p.st.fds cfg).foldl (· + ·) 0
    let dirs := (s.peers.map fun p => p.st.dirs).foldl (· + ·) 0
    (s, [s!"fds {fds} dirs {dirs}"])
  | _ => (s, ["bad-op"])

def main (args : List String) : IO UInt32 := do
  let fix := if args.contains "prerepair" then Fix.none else Fix.all
  lineLoop ({ fix := fix } : Sys) step
  return 0

end QbVerif.Driver.Wire
