import QbVerif.Model.Serialize
import QbVerif.Model.SerRender
import QbVerif.Driver.Util

/-! Line-protocol driver `qb_ser` for the blackbox record encoder/decoder model (property C14);
    same op lines as harness/log/ser_drv.c:

      ser   MAXLEN FMTHEX arg…                        -> `ser R HEX`
      deser STRLEN RECHEX [r:…]                       -> `deser R HEX maxw=I`
      rt    MAXLEN STRLEN FMTHEX arg… [r:…] [noref]   -> the `ser` line, then the `deser` line
      tables                                          -> the character tables of the model (for the
                                                         comparison with the case labels in the C source)
    `r:MINIHEX:ARGKEY:LEN:TEXTHEX` = libc's rendering of a mini format the model does not render.
    A store outside the buffer prints `SAN:oob` and silences the rest of the case (the real code
    dies there under ASan).  `qb_ser --original` runs the model of the unrepaired code. -/
namespace QbVerif.Driver.Ser
open QbVerif.Ser QbVerif.Driver

def toBytes (l : List Nat) : Bytes := l.map (·.toUInt8)
def ofBytes (b : Bytes) : List Nat := b.map (·.toNat)
def hexOf (b : Bytes) : String := toHex (ofBytes b)

def parseHexNat (s : String) : Option Nat :=
  s.toList.foldl (fun acc c => match acc, hexDigit c with
    | some a, some d => some (16 * a + d)
    | _, _ => none) (some 0)

def natHex (n : Nat) : String := String.ofList (Nat.toDigits 16 n)

def parseArg (t : String) : Option Arg :=
  match t.splitOn ":" with
  | ["i", v] => v.toInt?.map Arg.int
  | ["l", v] => v.toInt?.map Arg.long
  | ["q", v] => v.toInt?.map Arg.llong
  | ["*", v] => v.toInt?.map Arg.star
  | ["c", v] => v.toNat?.map Arg.chr
  | ["p", v] => (parseHexNat v).map Arg.ptr
  | ["d", v] => (parseHexNat v).map Arg.dbl
  | ["s", "null"] => some (Arg.str none)
  | ["s", v] => (parseHex v).map (fun b => Arg.str (some (toBytes b)))
  | _ => none

/-- key of a decoder argument in an `r:` token -/
def argKey : DArg → String
  | .w32 v => "w" ++ natHex v
  | .w64 v => "w" ++ natHex v
  | .dbl b => "d" ++ natHex b
  | .chr b => "c" ++ natHex b
  | .str s => "s" ++ hexOf s
  | .ptr v => "p" ++ natHex v

structure RTok where
  mini : Bytes
  key : String
  len : Nat
  text : Bytes

def parseRTok (t : String) : Option RTok :=
  match t.splitOn ":" with
  | ["r", m, k, l, x] =>
    match parseHex m, l.toNat?, parseHex x with
    | some m, some l, some x => some ⟨toBytes m, k, l, toBytes x⟩
    | _, _, _ => none
  | _ => none

/-- marker text used when libc's rendering is needed but was not supplied -/
def missing : Bytes := "<model-needs-rendering>".toUTF8.toList

def mkRender (toks : List RTok) : Render := fun mini a =>
  match renderStd mini a with
  | some t => t
  | none =>
    match toks.find? (fun t => t.mini == mini && t.key == argKey a) with
    | some t => t.text ++ List.replicate (t.len - t.text.length) 0x3f
    | none => missing

/-- split the tokens after the fixed ones into arguments and renderings -/
def splitToks (ts : List String) : Option (List Arg × List RTok) :=
  ts.foldl (fun acc t =>
    match acc with
    | none => none
    | some (as, rs) =>
      if t == "noref" || t.startsWith "reffmt:" then some (as, rs)
      else if t.startsWith "r:" then (parseRTok t).map (fun r => (as, rs ++ [r]))
      else (parseArg t).map (fun a => (as ++ [a], rs))) (some ([], []))

def showSer (r : SerResult) : String := s!"ser {r.ret} {hexOf r.bytes}"

def showDeser (r : DeResult) (strLen : Nat) : String :=
  if r.oob || r.hi > strLen then "SAN:oob"
  else s!"deser {r.ret} {hexOf r.text} maxw={if r.hi = 0 then "none" else toString (r.hi - 1)}"

def classes : List (String × Cls) :=
  [("flag", .flag), ("dot", .dot), ("digit", .digit), ("star", .star), ("l", .modL), ("z", .modZ), ("t", .modT),
   ("j", .modJ), ("int", .intc), ("dbl", .dblc), ("chr", .chrc), ("str", .strc), ("ptr", .ptrc), ("pct", .pct)]

def tablesLine : String :=
  let all : List Nat := List.range 256
  "tables " ++ " ".intercalate (classes.map fun (n, k) =>
    n ++ "=" ++ toHex (all.filter fun c => classify c.toUInt8 == k))

/-- state: `true` = the case is dead (an out-of-bounds store was reported) -/
def step (cfg : Cfg) (dead : Bool) (ws : List String) : Bool × List String :=
  if dead then (true, []) else
  match ws with
  | ["tables"] => (false, [tablesLine])
  | "ser" :: ml :: fh :: rest =>
    match ml.toNat?, parseHex fh, splitToks rest with
    | some maxLen, some f, some (args, _) =>
      if maxLen = 0 then (false, ["bad-op"]) else
      let r := serialize cfg (toBytes f) args maxLen
      if r.hi > maxLen then (true, ["SAN:oob"]) else (false, [showSer r])
    | _, _, _ => (false, ["bad-op"])
  | "deser" :: sl :: rh :: rest =>
    match sl.toNat?, parseHex rh, splitToks rest with
    | some strLen, some rec, some (_, toks) =>
      if strLen = 0 then (false, ["bad-op"]) else
      let r := deserialize cfg (mkRender toks) (toBytes rec) strLen
      let o := showDeser r strLen
      (o == "SAN:oob", [o])
    | _, _, _ => (false, ["bad-op"])
  | "rt" :: ml :: sl :: fh :: rest =>
    match ml.toNat?, sl.toNat?, parseHex fh, splitToks rest with
    | some maxLen, some strLen, some f, some (args, toks) =>
      if maxLen = 0 || strLen = 0 then (false, ["bad-op"]) else
      let r := serialize cfg (toBytes f) args maxLen
      if r.hi > maxLen then (true, ["SAN:oob"]) else
      let d := deserialize cfg (mkRender toks) r.bytes strLen
      let o := showDeser d strLen
      (o == "SAN:oob", [showSer r, o])
    | _, _, _, _ => (false, ["bad-op"])
  | _ => (false, ["bad-op"])

def main (args : List String) : IO UInt32 := do
  let cfg := if args.contains "--original" then Cfg.original else Cfg.repaired
  lineLoop false (step cfg)
  return 0

end QbVerif.Driver.Ser
