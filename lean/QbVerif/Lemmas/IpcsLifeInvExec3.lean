import QbVerif.Lemmas.IpcsLifeInvExec2

/-! C04 — induction on the fuel: every API call with everything it triggers preserves the invariant. -/
namespace QbVerif.IpcsLife

theorem good_zero_fuel : Good 0 := fun s _ hi _ => ⟨hi, Frame.refl s⟩

theorem good_zero {f : Nat} (ih : Good f) (s : St) (c : Nat) (hi : Inv s) (hh : s.halt = false)
    (hn : (s.conns c).phase ≠ .none) (hd : (s.conns c).phase ≠ .dead) :
    Inv (exec (f+1) s (.zero c)) ∧ Frame s (exec (f+1) s (.zero c)) := by
  simp only [exec, hh, Bool.false_eq_true, ↓reduceIte]
  by_cases hr : (s.conns c).rc = 0
  · simp only [hr, bne_self_eq_false, Bool.false_eq_true, ↓reduceIte]
    obtain ⟨hiz, hzo, hb1, hb2, hb3, hzp, hzf⟩ := zeroPre_ok hi c hr hn hd
    have hsp := same_pop (zeroPre s c) .destroyed
    have he := ih ((zeroPre s c).pop .destroyed).2 (.ops c ((zeroPre s c).pop .destroyed).1.ops) (hsp.inv hiz) trivial
    have hd5 := (he.2 c).dead (by rw [hsp.conns]; exact hzp) (by rw [hsp.conns]; exact hzf)
    obtain ⟨hi6, ho6, c1, c2, c3, c4⟩ := zeroPost_ok he.1 c hd5.1 hd5.2
    have h0 := (hi.conn c).rc0 hr
    refine ⟨hi6, Frame.of_vac c h0.2.2.2.2.2.1 hd h0.2.2.2.2.2.2 hn (by rw [c4]; simp) ?_ ?_ ?_ ?_⟩
    · rw [c1, (he.2 c).b1, hsp.conns, hb1]
    · rw [c2, (he.2 c).b2, hsp.conns, hb2]
    · rw [c3, (he.2 c).b3, hsp.conns, hb3]
    · intro i hne
      rw [ho6 i hne]
      have := he.2 i
      rw [hsp.conns, hzo i hne] at this
      exact this
  · have : ((s.conns c).rc != 0) = true := by simp [hr]
    simp only [this, ↓reduceIte]
    exact ⟨hi, Frame.refl s⟩

theorem good_disc {f : Nat} (ih : Good f) (s : St) (c : Nat) (hi : Inv s) (hh : s.halt = false)
    (hfr : (s.conns c).freed = false) :
    Inv (exec (f+1) s (.disc c)) ∧ Frame s (exec (f+1) s (.disc c)) := by
  simp only [exec, hh, touch_eq s c hfr, Bool.false_eq_true, ↓reduceIte]
  split
  · exact ⟨hi, Frame.refl s⟩
  · next hst =>
    obtain ⟨h1, h2, h3⟩ := discActive_ok hi c hh hst
    have he := ih (discActive s c) (.zero c) h1 h3
    exact ⟨he.1, h2.trans he.2⟩
  · next hn1 hn2 =>
    have hst : (s.conns c).st = .established ∨ (s.conns c).st = .shuttingDown := by
      cases h : (s.conns c).st <;> simp_all
    by_cases hcl : (s.conns c).cl = .todo
    · have hc : ((s.upd c fun k => { k with st := .shuttingDown }).fixClosed &&
          ((s.upd c fun k => { k with st := .shuttingDown }).conns c).cl != .todo) = false := by
        simp [hcl]
      simp only [hc, Bool.false_eq_true, ↓reduceIte]
      have hsp := same_pop (s.upd c fun k => { k with st := .shuttingDown }) .closed
      generalize hp : (s.upd c fun k => { k with st := .shuttingDown }).pop .closed = p at hsp
      obtain ⟨hi2, hf2, hcl2, hph2, hnd⟩ := closedPre_ok hi c p.1.ret hst hcl p.2 hsp
      have he := ih (closedPre p.2 c p.1.ret) (.ops c p.1.ops) hi2 trivial
      have hrun := (he.2 c).run hcl2
      have hnf := ((he.1.conn c).running hrun.1).1
      by_cases h3 : (exec f (closedPre p.2 c p.1.ret) (.ops c p.1.ops)).halt = true
      · simp only [h3, ↓reduceIte]
        exact ⟨he.1, hf2.trans he.2⟩
      · have h3' : (exec f (closedPre p.2 c p.1.ret) (.ops c p.1.ops)).halt = false := by simpa using h3
        simp only [h3', touch_eq _ c hnf, Bool.false_eq_true, ↓reduceIte]
        have hna := (hi.conn c).notAcc hst
        have hnr : (s.conns c).cl ≠ .running := by rw [hcl]; simp
        by_cases hret : p.1.ret = 0
        · have hph : ((exec f (closedPre p.2 c p.1.ret) (.ops c p.1.ops)).conns c).phase = .closedOk := by
            rw [hrun.2, hph2]; simp [hret]
          simp only [hret, bne_self_eq_false, Bool.false_eq_true, ↓reduceIte]
          rw [hret] at he hrun hnf h3' hph
          obtain ⟨hi4, ho4, d1, d2, d3, hok4⟩ := closedDone_ok he.1 c h3' hrun.1 hph
          have he5 := ih _ (.zero c) hi4 hok4
          rw [hret] at hf2
          refine ⟨he5.1, Frame.of_vac c hnr hnd hna.1 hna.2 ((he5.2 c).nn hok4.1) ?_ ?_ ?_ ?_⟩
          · rw [(he5.2 c).b1, d1, (he.2 c).b1, (hf2 c).b1]
          · rw [(he5.2 c).b2, d2, (he.2 c).b2, (hf2 c).b2]
          · rw [(he5.2 c).b3, d3, (he.2 c).b3, (hf2 c).b3]
          · intro i hne
            have := he5.2 i
            rw [ho4 i hne] at this
            exact ((hf2 i).trans (he.2 i)).trans this
        · have hph : ((exec f (closedPre p.2 c p.1.ret) (.ops c p.1.ops)).conns c).phase = .closing := by
            rw [hrun.2, hph2]; simp [hret]
          have hb : (p.1.ret != 0) = true := by simp [hret]
          simp only [hb, ↓reduceIte]
          obtain ⟨hi4, ho4, d1, d2, d3, d4⟩ := closedRetry_ok he.1 c hrun.1 hph
          refine ⟨hi4, Frame.of_vac c hnr hnd hna.1 hna.2 (by rw [d4]; simp) ?_ ?_ ?_ ?_⟩
          · rw [d1, (he.2 c).b1, (hf2 c).b1]
          · rw [d2, (he.2 c).b2, (hf2 c).b2]
          · rw [d3, (he.2 c).b3, (hf2 c).b3]
          · intro i hne
            rw [ho4 i hne]
            exact (hf2 i).trans (he.2 i)
    · have hc : ((s.upd c fun k => { k with st := .shuttingDown }).fixClosed &&
          ((s.upd c fun k => { k with st := .shuttingDown }).conns c).cl != .todo) = true := by
        simp [hcl, hi.fix.1]
      simp only [hc, ↓reduceIte]
      exact shutEarly_ok hi c hst hcl

theorem skip_ok {s : St} (hi : Inv s) : Inv (s.emit .skip) ∧ Frame s (s.emit .skip) :=
  ⟨(same_emit s _).inv hi, (same_emit s _).frame⟩

theorem good_app {f : Nat} (ih : Good f) (s : St) (self : Nat) (o : SOp) (hi : Inv s) (hh : s.halt = false) :
    Inv (exec (f+1) s (.app self o)) ∧ Frame s (exec (f+1) s (.app self o)) := by
  cases o with
  | d t =>
    simp only [exec, hh, Bool.false_eq_true, ↓reduceIte]
    by_cases ht : touchable (s.conns (tgt self t)) = true
    · simp only [ht, Bool.not_true, Bool.false_eq_true, ↓reduceIte]
      obtain ⟨h1, h2, h3⟩ := appD_ok hi (tgt self t) ht
      have he := ih _ (.disc (tgt self t)) h1 h3
      exact ⟨he.1, h2.trans he.2⟩
    · have : (!touchable (s.conns (tgt self t))) = true := by simpa using ht
      simp only [this, ↓reduceIte]
      exact skip_ok hi
  | r t =>
    simp only [exec, hh, Bool.false_eq_true, ↓reduceIte]
    by_cases ht : touchable (s.conns (tgt self t)) = true
    · simp only [ht, Bool.not_true, Bool.false_eq_true, ↓reduceIte]
      exact appR_ok hi (tgt self t) hh ht
    · have : (!touchable (s.conns (tgt self t))) = true := by simpa using ht
      simp only [this, ↓reduceIte]
      exact skip_ok hi
  | u t =>
    simp only [exec, hh, Bool.false_eq_true, ↓reduceIte]
    by_cases hc : ((s.conns (tgt self t)).phase == .none || (s.conns (tgt self t)).appref == 0) = true
    · simp only [hc, ↓reduceIte]
      exact skip_ok hi
    · simp only [hc, Bool.false_eq_true, ↓reduceIte]
      have hn : (s.conns (tgt self t)).phase ≠ .none := by
        intro h; apply hc; simp [h]
      have ha : (s.conns (tgt self t)).appref ≠ 0 := by
        intro h; apply hc; simp [h]
      obtain ⟨h1, h2, h3⟩ := appU_ok hi (tgt self t) hh hn ha
      have he := ih _ (.zero (tgt self t)) h1 h3
      exact ⟨he.1, h2.trans he.2⟩
  | e t =>
    simp only [exec, hh, Bool.false_eq_true, ↓reduceIte]
    by_cases hc : (!touchable (s.conns (tgt self t)) || !(s.conns (tgt self t)).created ||
        (s.conns (tgt self t)).closedSeen || (s.conns (tgt self t)).appDisc) = true
    · simp only [hc, ↓reduceIte]
      exact skip_ok hi
    · simp only [hc, Bool.false_eq_true, ↓reduceIte]
      have ht : touchable (s.conns (tgt self t)) = true := by
        cases h : touchable (s.conns (tgt self t))
        · exfalso; apply hc; simp [h]
        · rfl
      exact appE_ok hi (tgt self t) ht
  | i =>
    simp only [exec, hh, Bool.false_eq_true, ↓reduceIte]
    by_cases hg : s.svcGone = true
    · simp only [hg, ↓reduceIte]
      exact skip_ok hi
    · simp only [hg, Bool.false_eq_true, ↓reduceIte]
      exact appI_ok hi

theorem good_succ {f : Nat} (ih : Good f) : Good (f+1) := by
  intro s call hi hok
  by_cases hh : s.halt = true
  · have : exec (f+1) s call = s := by simp [exec, hh]
    rw [this]; exact ⟨hi, Frame.refl s⟩
  have hh' : s.halt = false := by simpa using hh
  cases call with
  | disc c => exact good_disc ih s c hi hh' hok
  | zero c => exact good_zero ih s c hi hh' hok.1 hok.2
  | app self o => exact good_app ih s self o hi hh'
  | ops self os =>
    cases os with
    | nil =>
      simp only [exec, hh', Bool.false_eq_true, ↓reduceIte]
      exact ⟨hi, Frame.refl s⟩
    | cons o os =>
      simp only [exec, hh', Bool.false_eq_true, ↓reduceIte]
      have h1 := ih s (.app self o) hi trivial
      have h2 := ih _ (.ops self os) h1.1 trivial
      exact ⟨h2.1, h1.2.trans h2.2⟩

/-- every API call, with every scripted callback it triggers, at any fuel, preserves the invariant -/
theorem good_all : ∀ f, Good f
  | 0 => good_zero_fuel
  | f+1 => good_succ (good_all f)

theorem exec_inv (f : Nat) (s : St) (call : Call) (hi : Inv s) (hok : CallOk s call) :
    Inv (exec f s call) := (good_all f s call hi hok).1

theorem exec_frame (f : Nat) (s : St) (call : Call) (hi : Inv s) (hok : CallOk s call) :
    Frame s (exec f s call) := (good_all f s call hi hok).2

end QbVerif.IpcsLife
