/-
The structural invariant of the trie model (DESIGN.md, C17: "path(node) = concatenation of index
characters and segments from the root; key node = path node for valued nodes; children indexed by
the next byte") and its preservation by writes that leave the shape alone.

`Inv t`:
* `header`     the root is allocated, has no parent, no segment, no key, no value;
* `child_ok`   a child pointer in slot `i` points to an allocated node whose parent pointer points
               back and whose `idx` is `i` (children indexed by the next byte);
* `parent_ok`  an allocated node hangs in its parent's slot `idx`;
* `reach`      every allocated node has a path from the root (`Start`);
* `key_path`   a node that carries a key sits where that key's path ends (key node = path node);
* `val_key`, `key_val`, `removed_val`  value ⇔ key, a valued node is referenced, only valued nodes
               are marked removed.
(The exact refcount equation — presence + parked iterators — is NOT part of it: D83 breaks it.)

`Inv.update`: overwriting the non-structural fields (key, value, refcount, removed, notifiers) of
one node preserves `Inv` if the new fields satisfy the local clauses.  `start_unique` /
`path_unique_node`: under `Inv` a node has exactly one path.
-/
import QbVerif.Lemmas.TrieShape

namespace QbVerif.Trie
open QbVerif.Map

structure Inv (t : T) : Prop where
  header : ∃ h, t.node? 0 = some h ∧ h.parent = none ∧ h.seg = [] ∧ h.key = none ∧ h.val = 0
  child_ok : ∀ p i c, (t.nd p).child i = some c →
    ∃ cn, t.node? c = some cn ∧ cn.parent = some p ∧ cn.idx = i
  parent_ok : ∀ id n p, t.node? id = some n → n.parent = some p → (t.nd p).child n.idx = some id
  reach : ∀ id n, t.node? id = some n → ∃ p, Start t id p
  key_path : ∀ id k, (t.nd id).key = some k → Path t id k
  val_key : ∀ id, (t.nd id).val ≠ 0 → (t.nd id).key.isSome = true ∧ (t.nd id).refcount > 0
  key_val : ∀ id, (t.nd id).key.isSome = true → (t.nd id).val ≠ 0
  removed_val : ∀ id, (t.nd id).removed = true → (t.nd id).val ≠ 0
  seg_bytes : ∀ id, ∀ c ∈ (t.nd id).seg, 0 < c ∧ c < 256

theorem nd_empty (j : Nat) : empty.nd j = Node.blank none := by
  cases j <;> rfl

theorem node?_empty (j : Nat) : empty.node? j = if j = 0 then some (Node.blank none) else none := by
  cases j <;> rfl

/-- the empty trie satisfies the invariant -/
theorem inv_empty : Inv empty where
  header := ⟨Node.blank none, rfl, rfl, rfl, rfl, rfl⟩
  child_ok := by intro p i c h; rw [nd_empty] at h; simp [Node.child, Node.blank] at h
  parent_ok := by
    intro id n p h hp
    rw [node?_empty] at h
    split at h
    · injection h with h; subst h; simp [Node.blank] at hp
    · exact absurd h (by simp)
  reach := by
    intro id n h
    rw [node?_empty] at h
    split at h
    · rename_i h0; subst h0; exact ⟨[], Start.root⟩
    · exact absurd h (by simp)
  key_path := by intro id k h; rw [nd_empty] at h; simp [Node.blank] at h
  val_key := by intro id h; rw [nd_empty] at h; simp [Node.blank] at h
  key_val := by intro id h; rw [nd_empty] at h; simp [Node.blank] at h
  removed_val := by intro id h; rw [nd_empty] at h; simp [Node.blank] at h
  seg_bytes := by intro id c h; rw [nd_empty] at h; simp [Node.blank] at h

/-- the invariant only talks about the node store -/
theorem Inv.congr {t t' : T} (h : Inv t) (e : ∀ j, t'.node? j = t.node? j) : Inv t' := by
  have nd_eq : ∀ j, t'.nd j = t.nd j := fun j => by unfold T.nd; rw [e j]
  have sh : SameShape t t' := sameShape_of_nd nd_eq
  refine ⟨?_, ?_, ?_, ?_, ?_, ?_, ?_, ?_, ?_⟩
  · simpa [e] using h.header
  · intro p i c hc; rw [nd_eq] at hc; simpa [e] using h.child_ok p i c hc
  · intro id n p hn hp; rw [e] at hn; rw [nd_eq]; exact h.parent_ok id n p hn hp
  · intro id n hn; rw [e] at hn
    obtain ⟨p, hp⟩ := h.reach id n hn
    exact ⟨p, start_shape sh hp⟩
  · intro id k hk; rw [nd_eq] at hk; exact path_shape sh (h.key_path id k hk)
  · intro id; rw [nd_eq]; exact h.val_key id
  · intro id; rw [nd_eq]; exact h.key_val id
  · intro id; rw [nd_eq]; exact h.removed_val id
  · intro id; rw [nd_eq]; exact h.seg_bytes id

/-- overwriting the non-structural fields of one node -/
theorem Inv.update {t : T} (h : Inv t) {id : Nat} {n n' : Node} (hn : t.node? id = some n)
    (hidx : n'.idx = n.idx) (hseg : n'.seg = n.seg) (hch : n'.children = n.children)
    (hpar : n'.parent = n.parent)
    (hkey : ∀ k, n'.key = some k → Path t id k)
    (hvk : n'.val ≠ 0 → n'.key.isSome = true ∧ n'.refcount > 0)
    (hkv : n'.key.isSome = true → n'.val ≠ 0)
    (hrv : n'.removed = true → n'.val ≠ 0)
    (h0 : id = 0 → n'.key = none ∧ n'.val = 0) : Inv (t.set id n') := by
  have hlt := lt_of_node? hn
  have hnd : t.nd id = n := nd_of_node? hn
  have sh : SameShape t (t.set id n') := sameShape_set t id n' (by rw [hnd]; exact hseg) (by rw [hnd]; exact hch)
  have hnode : ∀ j, (t.set id n').node? j = if j = id then some n' else t.node? j := by
    intro j; rw [node?_set]; simp [hlt]
  have hndj : ∀ j, (t.set id n').nd j = if j = id then n' else t.nd j := by
    intro j; rw [nd_set]; simp [hlt]
  refine ⟨?_, ?_, ?_, ?_, ?_, ?_, ?_, ?_, ?_⟩
  · obtain ⟨hd, hd0, hp, hs, hk, hv⟩ := h.header
    rw [hnode]
    by_cases e : 0 = id
    · subst e
      rw [hn] at hd0; injection hd0 with hd0; subst hd0
      exact ⟨n', by simp, by rw [hpar, hp], by rw [hseg, hs], (h0 rfl).1, (h0 rfl).2⟩
    · exact ⟨hd, by simp [e, hd0], hp, hs, hk, hv⟩
  · intro p i c hc
    rw [child_shape sh] at hc
    obtain ⟨cn, hcn, hcp, hci⟩ := h.child_ok p i c hc
    rw [hnode]
    by_cases e : c = id
    · subst e
      rw [hn] at hcn; injection hcn with hcn; subst hcn
      exact ⟨n', by simp, by rw [hpar, hcp], by rw [hidx, hci]⟩
    · exact ⟨cn, by simp [e, hcn], hcp, hci⟩
  · intro j m p hm hp
    rw [child_shape sh]
    rw [hnode] at hm
    by_cases e : j = id
    · subst e
      simp at hm; subst hm
      rw [hidx]; exact h.parent_ok j n p hn (by rw [← hpar]; exact hp)
    · simp [e] at hm; exact h.parent_ok j m p hm hp
  · intro j m hm
    rw [hnode] at hm
    by_cases e : j = id
    · subst e
      obtain ⟨p, hp⟩ := h.reach j n hn
      exact ⟨p, start_shape sh hp⟩
    · simp [e] at hm
      obtain ⟨p, hp⟩ := h.reach j m hm
      exact ⟨p, start_shape sh hp⟩
  · intro j k hk
    rw [hndj] at hk
    by_cases e : j = id
    · subst e; simp at hk; exact path_shape sh (hkey k hk)
    · simp [e] at hk; exact path_shape sh (h.key_path j k hk)
  · intro j; rw [hndj]
    by_cases e : j = id
    · simp [e]; exact hvk
    · simp [e]; exact h.val_key j
  · intro j; rw [hndj]
    by_cases e : j = id
    · simp [e]; exact hkv
    · simp [e]; exact h.key_val j
  · intro j; rw [hndj]
    by_cases e : j = id
    · simp [e]; exact hrv
    · simp [e]; exact h.removed_val j
  · intro j; rw [(sh j).1]; exact h.seg_bytes j

/-- under the invariant a node has exactly one path -/
theorem start_unique {t : T} (h : Inv t) {id : Nat} {p p' : List Nat} (h1 : Start t id p)
    (h2 : Start t id p') : p = p' := by
  induction h1 generalizing p' with
  | root =>
    cases h2 with
    | root => rfl
    | @edge par _ pp c _ hc _ =>
      obtain ⟨cn, hcn, hcp, _⟩ := h.child_ok par _ 0 hc
      obtain ⟨hd, hd0, hp, _⟩ := h.header
      rw [hd0] at hcn; injection hcn with hcn; subst hcn
      rw [hp] at hcp; exact absurd hcp (by simp)
  | @edge par id pp c _ hc hb ih =>
    cases h2 with
    | root =>
      obtain ⟨cn, hcn, hcp, _⟩ := h.child_ok par _ 0 hc
      obtain ⟨hd, hd0, hp, _⟩ := h.header
      rw [hd0] at hcn; injection hcn with hcn; subst hcn
      rw [hp] at hcp; exact absurd hcp (by simp)
    | @edge par' _ pp' c' hs' hc' hb' =>
      obtain ⟨cn, hcn, hcp, hci⟩ := h.child_ok par _ id hc
      obtain ⟨cn', hcn', hcp', hci'⟩ := h.child_ok par' _ id hc'
      rw [hcn] at hcn'; injection hcn' with hcn'; subst hcn'
      rw [hcp] at hcp'; injection hcp' with hpar; subst hpar
      have : c = c' := charIdx_inj hb hb' (by rw [← hci, ← hci'])
      subst this
      rw [ih hs']

theorem path_unique_node {t : T} (h : Inv t) {id : Nat} {k k' : List Nat} (h1 : Path t id k)
    (h2 : Path t id k') : k = k' := by
  obtain ⟨p, hp, rfl⟩ := h1
  obtain ⟨p', hp', rfl⟩ := h2
  rw [start_unique h hp hp']

/-- the node a lookup returns is allocated -/
theorem Inv.path_live {t : T} (h : Inv t) {id : Nat} {k : List Nat} (hp : Path t id k) :
    ∃ n, t.node? id = some n := by
  obtain ⟨p, hs, _⟩ := hp
  cases hs with
  | root => obtain ⟨hd, hd0, _⟩ := h.header; exact ⟨hd, hd0⟩
  | edge _ hc _ => obtain ⟨cn, hcn, _⟩ := h.child_ok _ _ _ hc; exact ⟨cn, hcn⟩

end QbVerif.Trie
