/-
Helper lemmas for C09: an invariant of the loop-level timer model (Model/Timer.lean: qb_loop_timer_add /
_del, qb_loop_job_add, one pass of qb_loop_run under a virtual clock) over whole operation histories.

`LInvF l log F`: the heap invariant; a timer is QB_POLL_ENTRY_ACTIVE exactly while it is in the heap;
every expiry in the heap is what timerlist_add_duration computed from a logged (id, clock, duration);
every timer sitting in a job list has passed the expiry test `expire_time < now`.  `log` is a ghost
list, `F` the timers timerlist_expire has removed but make_job_from_tmo has not queued yet.
Core Lean only.
-/
import QbVerif.Lemmas.HeapHist
import QbVerif.Lemmas.TimerArith

set_option linter.unusedSimpArgs false

namespace QbVerif.Timer
open QbVerif.Heap

/-! ### projections of the loop state under the primitive updates -/

def Loop.heapIds (l : Loop) : List Nat := (idKeys l.heap.a).map Prod.fst
def Loop.jobItems (l : Loop) : List Item := l.lv0.jobs ++ l.lv1.jobs ++ l.lv2.jobs
def Loop.waitItems (l : Loop) : List Item := l.lv0.wait ++ l.lv1.wait ++ l.lv2.wait
def Loop.timerIds (l : Loop) : List Nat := l.timers.map (·.id)

local macro "setlevel_tac" : tactic => `(tactic| (unfold Loop.setLevel; split <;> (try split) <;> rfl))

section setLevel
variable (l : Loop) (p : Nat) (v : Level)

@[simp] theorem setLevel_heap : (l.setLevel p v).heap = l.heap := by setlevel_tac
@[simp] theorem setLevel_timers : (l.setLevel p v).timers = l.timers := by setlevel_tac
@[simp] theorem setLevel_now : (l.setLevel p v).now = l.now := by setlevel_tac
@[simp] theorem setLevel_cfg : (l.setLevel p v).cfg = l.cfg := by setlevel_tac
@[simp] theorem setLevel_hz : (l.setLevel p v).hz = l.hz := by setlevel_tac
@[simp] theorem setLevel_pStop : (l.setLevel p v).pStop = l.pStop := by setlevel_tac
@[simp] theorem setLevel_remainingTodo : (l.setLevel p v).remainingTodo = l.remainingTodo := by setlevel_tac
@[simp] theorem setLevel_pending : (l.setLevel p v).pending = l.pending := by setlevel_tac
@[simp] theorem setLevel_heapIds : (l.setLevel p v).heapIds = l.heapIds := by simp [Loop.heapIds]
@[simp] theorem setLevel_timerIds : (l.setLevel p v).timerIds = l.timerIds := by simp [Loop.timerIds]

theorem mem_jobItems_setLevel {x : Item} (h : x ∈ (l.setLevel p v).jobItems) : x ∈ v.jobs ∨ x ∈ l.jobItems := by
  unfold Loop.setLevel at h
  split at h
  · simp only [Loop.jobItems, List.mem_append] at h ⊢; rcases h with (h|h)|h <;> simp [h]
  · split at h <;> (simp only [Loop.jobItems, List.mem_append] at h ⊢; rcases h with (h|h)|h <;> simp [h])

theorem mem_waitItems_setLevel {x : Item} (h : x ∈ (l.setLevel p v).waitItems) : x ∈ v.wait ∨ x ∈ l.waitItems := by
  unfold Loop.setLevel at h
  split at h
  · simp only [Loop.waitItems, List.mem_append] at h ⊢; rcases h with (h|h)|h <;> simp [h]
  · split at h <;> (simp only [Loop.waitItems, List.mem_append] at h ⊢; rcases h with (h|h)|h <;> simp [h])

theorem mem_level_jobs {x : Item} (h : x ∈ (l.level p).jobs) : x ∈ l.jobItems := by
  unfold Loop.level at h
  unfold Loop.jobItems
  simp only [List.mem_append]
  split at h
  · simp [h]
  · split at h <;> simp [h]

theorem mem_level_wait {x : Item} (h : x ∈ (l.level p).wait) : x ∈ l.waitItems := by
  unfold Loop.level at h
  unfold Loop.waitItems
  simp only [List.mem_append]
  split at h
  · simp [h]
  · split at h <;> simp [h]

end setLevel

section setState
variable (l : Loop) (id : Nat) (s : TState)

@[simp] theorem setState_heap : (l.setState id s).heap = l.heap := rfl
@[simp] theorem setState_now : (l.setState id s).now = l.now := rfl
@[simp] theorem setState_cfg : (l.setState id s).cfg = l.cfg := rfl
@[simp] theorem setState_hz : (l.setState id s).hz = l.hz := rfl
@[simp] theorem setState_lv0 : (l.setState id s).lv0 = l.lv0 := rfl
@[simp] theorem setState_lv1 : (l.setState id s).lv1 = l.lv1 := rfl
@[simp] theorem setState_lv2 : (l.setState id s).lv2 = l.lv2 := rfl
@[simp] theorem setState_pStop : (l.setState id s).pStop = l.pStop := rfl
@[simp] theorem setState_remainingTodo : (l.setState id s).remainingTodo = l.remainingTodo := rfl
@[simp] theorem setState_pending : (l.setState id s).pending = l.pending := rfl
@[simp] theorem setState_heapIds : (l.setState id s).heapIds = l.heapIds := rfl
@[simp] theorem setState_jobItems : (l.setState id s).jobItems = l.jobItems := rfl
@[simp] theorem setState_waitItems : (l.setState id s).waitItems = l.waitItems := rfl
@[simp] theorem setState_level (p : Nat) : (l.setState id s).level p = l.level p := rfl

@[simp] theorem setState_timerIds : (l.setState id s).timerIds = l.timerIds := by
  unfold Loop.timerIds Loop.setState
  simp only [List.map_map]
  apply List.map_congr_left
  intro t _
  simp only [Function.comp]
  split <;> rfl

theorem mem_setState_timers {t' : TimerRec} (h : t' ∈ (l.setState id s).timers) :
    ∃ t ∈ l.timers, t'.id = t.id ∧ t'.prio = t.prio ∧ (if t.id = id then t'.state = s else t'.state = t.state) := by
  unfold Loop.setState at h
  simp only [List.mem_map] at h
  obtain ⟨t, ht, rfl⟩ := h
  refine ⟨t, ht, ?_⟩
  by_cases hid : t.id = id <;> simp [hid]

end setState


/-! ### lookup in the timer table -/

theorem timer?_none_iff (l : Loop) (id : Nat) : l.timer? id = none ↔ id ∉ l.timerIds := by
  unfold Loop.timer? Loop.timerIds
  rw [List.find?_eq_none, List.mem_map]
  constructor
  · rintro h ⟨t, ht, rfl⟩
    exact h t ht (by simp)
  · intro h t ht hp
    exact h ⟨t, ht, by simpa using hp⟩

theorem timer?_some_mem {l : Loop} {id : Nat} {t : TimerRec} (h : l.timer? id = some t) :
    t ∈ l.timers ∧ t.id = id := by
  unfold Loop.timer? at h
  exact ⟨List.mem_of_find?_eq_some h, by simpa using List.find?_some h⟩

/-! ### the loop invariant

`log` is a ghost list of `(id, clock at qb_loop_timer_add, duration)`; `F` lists the timers that
`timerlist_expire` has just removed from the heap and `make_job_from_tmo` has not queued yet
(non-empty only in the middle of `expire_the_timers`). -/

abbrev Log := List (Nat × UInt64 × UInt64)

/-- the timer was added with a clock value and duration whose expiry (as the code computes it)
    is before `now` -/
def Due (c : Cfg) (log : Log) (id : Nat) (now : UInt64) : Prop :=
  ∃ a d, (id, a, d) ∈ log ∧ (addDuration c a d).toNat < now.toNat

structure LInvF (l : Loop) (log : Log) (F : List Nat) : Prop where
  heap : Heap.Inv l.heap.a
  tnodup : l.timerIds.Nodup
  /-- QB_POLL_ENTRY_ACTIVE exactly while the timer is in the heap -/
  active_iff : ∀ t ∈ l.timers, (t.state = .active ↔ (t.id ∈ l.heapIds ∨ t.id ∈ F))
  heap_sub : ∀ id ∈ l.heapIds, id ∈ l.timerIds
  jobs_sub : ∀ id, Item.timer id ∈ l.jobItems → id ∈ l.timerIds
  jobs_not_heap : ∀ id, Item.timer id ∈ l.jobItems → id ∉ l.heapIds
  wait_no_timer : ∀ id, Item.timer id ∉ l.waitItems
  /-- every expiry in the heap is what `timerlist_add_duration` computed at add time -/
  g_heap : ∀ x ∈ idKeys l.heap.a, ∃ a d, (x.1, a, d) ∈ log ∧ x.2 = (addDuration l.cfg a d).toNat
  /-- every timer waiting in a job list has passed the expiry test -/
  g_jobs : ∀ id, Item.timer id ∈ l.jobItems → Due l.cfg log id l.now
  fnodup : F.Nodup
  f_ok : ∀ id ∈ F, id ∉ l.heapIds ∧ id ∈ l.timerIds ∧ Due l.cfg log id l.now

abbrev LInv (l : Loop) (log : Log) : Prop := LInvF l log []

theorem Due.mono {c : Cfg} {log log' : Log} {id : Nat} {now now' : UInt64} (h : Due c log id now)
    (hl : ∀ x ∈ log, x ∈ log') (hn : now.toNat ≤ now'.toNat) : Due c log' id now' := by
  obtain ⟨a, d, h1, h2⟩ := h
  exact ⟨a, d, hl _ h1, by omega⟩

theorem LInv.init (c : Cfg) (hz : Nat) (now : UInt64) : LInv (Loop.init c hz now) [] := by
  refine ⟨Inv.empty, by simp [Loop.timerIds, Loop.init], ?_, ?_, ?_, ?_, ?_, ?_, ?_, by simp, by simp⟩ <;>
    simp [Loop.init, Loop.heapIds, Loop.jobItems, Loop.waitItems, Loop.timerIds, Heap.init, idKeys]

/-- a state with the same heap and timer table, a clock that did not go back, and no new timer
    items in the job/wait lists satisfies the invariant -/
theorem LInvF.of_same {l l' : Loop} {log : Log} {F : List Nat} (h : LInvF l log F)
    (hh : l'.heap = l.heap) (ht : l'.timers = l.timers) (hc : l'.cfg = l.cfg)
    (hn : l.now.toNat ≤ l'.now.toNat)
    (hj : ∀ id, Item.timer id ∈ l'.jobItems → Item.timer id ∈ l.jobItems)
    (hw : ∀ id, Item.timer id ∈ l'.waitItems → Item.timer id ∈ l.waitItems) : LInvF l' log F := by
  have hhi : l'.heapIds = l.heapIds := by simp [Loop.heapIds, hh]
  have hti : l'.timerIds = l.timerIds := by simp [Loop.timerIds, ht]
  refine ⟨by rw [hh]; exact h.heap, by rw [hti]; exact h.tnodup, ?_, ?_, ?_, ?_, ?_, ?_, ?_, h.fnodup, ?_⟩
  · intro t htm; rw [ht] at htm; rw [hhi]; exact h.active_iff t htm
  · intro id hid; rw [hhi] at hid; rw [hti]; exact h.heap_sub id hid
  · intro id hid; rw [hti]; exact h.jobs_sub id (hj id hid)
  · intro id hid; rw [hhi]; exact h.jobs_not_heap id (hj id hid)
  · intro id hid; exact h.wait_no_timer id (hw id hid)
  · intro x hx; rw [hh] at hx; rw [hc]; exact h.g_heap x hx
  · intro id hid; rw [hc]; exact (h.g_jobs id (hj id hid)).mono (fun _ h => h) hn
  · intro id hid
    obtain ⟨h1, h2, h3⟩ := h.f_ok id hid
    rw [hhi, hti, hc]; exact ⟨h1, h2, h3.mono (fun _ h => h) hn⟩

/-- marking a timer that is not in the heap (and not about to be queued) as non-active -/
theorem LInvF.setState_nonactive {l : Loop} {log : Log} {F : List Nat} (h : LInvF l log F) (id : Nat)
    (s : TState) (hs : s ≠ .active) (hid : id ∉ l.heapIds) (hf : id ∉ F) : LInvF (l.setState id s) log F := by
  refine ⟨h.heap, by simpa using h.tnodup, ?_, by simpa using h.heap_sub, by simpa using h.jobs_sub,
    by simpa using h.jobs_not_heap, by simpa using h.wait_no_timer, by simpa using h.g_heap,
    by simpa using h.g_jobs, h.fnodup, by simpa using h.f_ok⟩
  intro t' ht'
  obtain ⟨t, ht, h1, _, h3⟩ := mem_setState_timers l id s ht'
  simp only [setState_heapIds]
  rw [h1]
  by_cases hti : t.id = id
  · simp only [hti, if_true] at h3
    rw [h3, hti]
    constructor
    · intro h; exact absurd h hs
    · rintro (h | h)
      · exact absurd h hid
      · exact absurd h hf
  · simp only [hti, if_false] at h3
    rw [h3]; exact h.active_iff t ht


/-! ### `qb_loop_timer_add` -/

theorem LInv.timerAdd {l : Loop} {log : Log} (h : LInv l log) (p : Nat) (ns : UInt64) (id : Nat) :
    LInv (l.timerAdd p ns id).1 (if (l.timer? id).isNone then (id, l.now, ns) :: log else log) := by
  unfold Loop.timerAdd
  cases hq : l.timer? id with
  | some t => simpa using h
  | none =>
    simp only [Option.isNone_none, if_true]
    have hnt : id ∉ l.timerIds := (timer?_none_iff l id).1 hq
    have hnh : id ∉ l.heapIds := fun hm => hnt (h.heap_sub id hm)
    have hperm := idKeys_addArr l.heap.a id (addDuration l.cfg l.now ns).toNat
    have hmem : ∀ j, j ∈ ((idKeys (l.heap.add id (addDuration l.cfg l.now ns).toNat).a).map Prod.fst) ↔ j = id ∨ j ∈ l.heapIds := by
      intro j
      rw [Heap.add_a, ((hperm.map Prod.fst).mem_iff)]
      simp [Loop.heapIds]
    refine ⟨?_, ?_, ?_, ?_, ?_, ?_, h.wait_no_timer, ?_, ?_, by simp, by simp⟩
    · show Heap.Inv (l.heap.add id _).a
      rw [Heap.add_a]; exact h.heap.addArr id _ hnh
    · show (List.map (·.id) (l.timers ++ [_])).Nodup
      rw [List.map_append, List.nodup_append]
      refine ⟨h.tnodup, by simp, ?_⟩
      intro a ha b hb
      simp at hb
      rintro rfl
      subst hb
      exact hnt ha
    · intro t ht
      simp only [List.mem_append, List.mem_singleton] at ht
      show t.state = .active ↔ (t.id ∈ ((idKeys (l.heap.add id _).a).map Prod.fst) ∨ t.id ∈ [])
      rw [hmem]
      rcases ht with ht | rfl
      · have hne : t.id ≠ id := fun heq => hnt (by rw [← heq]; exact List.mem_map.2 ⟨t, ht, rfl⟩)
        have := h.active_iff t ht
        simp only [List.not_mem_nil, or_false] at this ⊢
        simp [hne, this]
      · simp
    · intro j hj
      have hj' : j = id ∨ j ∈ l.heapIds := (hmem j).1 hj
      show j ∈ List.map (·.id) (l.timers ++ [_])
      rw [List.map_append, List.mem_append]
      rcases hj' with rfl | hj'
      · right; simp
      · left; exact h.heap_sub j hj'
    · intro j hj
      show j ∈ List.map (·.id) (l.timers ++ [_])
      rw [List.map_append, List.mem_append]
      left; exact h.jobs_sub j hj
    · intro j hj hm
      have hm' : j = id ∨ j ∈ l.heapIds := (hmem j).1 hm
      rcases hm' with rfl | hm'
      · exact hnt (h.jobs_sub j hj)
      · exact h.jobs_not_heap j hj hm'
    · intro x hx
      have hx' : x ∈ (id, (addDuration l.cfg l.now ns).toNat) :: idKeys l.heap.a := by
        have : x ∈ idKeys (l.heap.add id (addDuration l.cfg l.now ns).toNat).a := hx
        rw [Heap.add_a] at this
        exact (hperm.mem_iff).1 this
      rcases List.mem_cons.1 hx' with rfl | hx'
      · exact ⟨l.now, ns, List.mem_cons_self, rfl⟩
      · obtain ⟨a, d, h1, h2⟩ := h.g_heap x hx'
        exact ⟨a, d, List.mem_cons_of_mem _ h1, h2⟩
    · intro j hj
      exact (h.g_jobs j hj).mono (fun _ hx => List.mem_cons_of_mem _ hx) (Nat.le_refl _)

/-! ### `qb_loop_timer_del` -/

theorem LInv.delActive {l : Loop} {log : Log} (h : LInv l log) (id : Nat) (e : Entry)
    (hf : l.heap.find? id = some e) : LInv ({ l with heap := l.heap.del e }.setState id .empty) log := by
  obtain ⟨h1, h2, h3⟩ := find?_some_spec h.heap.back hf
  have hperm := idKeys_heapDelete l.heap.a e h2 h3
  have hpf := hperm.map Prod.fst
  have hnd : (e.id :: (idKeys (heapDelete l.heap.a e)).map Prod.fst).Nodup := by
    have := (hpf.nodup_iff).1 h.heap.nodup
    simpa [idKey] using this
  have hnew : ∀ j, j ∈ (idKeys (heapDelete l.heap.a e)).map Prod.fst → j ∈ l.heapIds ∧ j ≠ id := by
    intro j hj
    refine ⟨(hpf.mem_iff).2 (List.mem_cons_of_mem _ hj), ?_⟩
    rintro rfl
    rw [← h1] at hj
    exact (List.nodup_cons.1 hnd).1 hj
  have hold : ∀ j, j ∈ l.heapIds → j = id ∨ j ∈ (idKeys (heapDelete l.heap.a e)).map Prod.fst := by
    intro j hj
    have := (hpf.mem_iff).1 hj
    simp only [List.map_cons, List.mem_cons, idKey] at this
    rcases this with rfl | this
    · left; exact h1
    · right; exact this
  refine ⟨?_, by rw [setState_timerIds]; exact h.tnodup, ?_, ?_,
    fun j hj => by rw [setState_timerIds]; exact h.jobs_sub j hj, ?_, h.wait_no_timer,
    ?_, h.g_jobs, by simp, by simp⟩
  · exact h.heap.heapDelete e h2 h3
  · intro t' ht'
    obtain ⟨t, ht, e1, _, e3⟩ := mem_setState_timers _ id .empty ht'
    show t'.state = .active ↔ (t'.id ∈ (idKeys (heapDelete l.heap.a e)).map Prod.fst ∨ t'.id ∈ [])
    simp only [List.not_mem_nil, or_false]
    rw [e1]
    have hact := h.active_iff t ht
    simp only [List.not_mem_nil, or_false] at hact
    by_cases hti : t.id = id
    · simp only [hti, if_true] at e3
      rw [e3, hti]
      constructor
      · intro hh; cases hh
      · intro hh; exact absurd rfl (hnew id hh).2
    · simp only [hti, if_false] at e3
      rw [e3, hact]
      constructor
      · intro hh; rcases hold _ hh with h' | h'
        · exact absurd h' hti
        · exact h'
      · intro hh; exact (hnew _ hh).1
  · intro j hj
    have : j ∈ (idKeys (heapDelete l.heap.a e)).map Prod.fst := hj
    rw [setState_timerIds]; exact h.heap_sub j (hnew j this).1
  · intro j hj hm
    have : j ∈ (idKeys (heapDelete l.heap.a e)).map Prod.fst := hm
    exact h.jobs_not_heap j hj (hnew j this).1
  · intro x hx
    have : x ∈ idKeys (heapDelete l.heap.a e) := hx
    exact h.g_heap x ((hperm.mem_iff).2 (List.mem_cons_of_mem _ this))

theorem LInv.timerDel {l : Loop} {log : Log} (h : LInv l log) (id : Nat) : LInv (l.timerDel id).1 log := by
  unfold Loop.timerDel
  cases hq : l.timer? id with
  | none => exact h
  | some t =>
    obtain ⟨htm, htid⟩ := timer?_some_mem hq
    have hact := h.active_iff t htm
    simp only [List.not_mem_nil, or_false] at hact
    simp only
    cases hs : t.state with
    | empty => exact h
    | joblist =>
      simp only
      have hnh : id ∉ l.heapIds := by
        rw [← htid]; intro hm; have := hact.2 hm; rw [hs] at this; cases this
      have h1 : LInv (l.setLevel t.prio ((l.level t.prio).del (.timer id))) log := by
        apply h.of_same (by simp) (by simp) (by simp) (by simp)
        · intro j hj
          rcases mem_jobItems_setLevel _ _ _ hj with hj | hj
          · exact mem_level_jobs _ _ (List.mem_of_mem_erase hj)
          · exact hj
        · intro j hj
          rcases mem_waitItems_setLevel _ _ _ hj with hj | hj
          · exact mem_level_wait _ _ hj
          · exact hj
      exact h1.setState_nonactive id .empty (by intro hh; cases hh) (by simpa using hnh) (by simp)
    | active =>
      simp only
      unfold Heap.delId
      cases hf : l.heap.find? id with
      | none =>
        simp only [Option.map_none]
        exact h.setState_nonactive id .empty (by intro hh; cases hh) (find?_none_spec hf) (by simp)
      | some e =>
        simp only [Option.map_some]
        exact h.delActive id e hf

/-! ### `qb_loop_job_add`, clock -/

theorem LInv.jobAdd {l : Loop} {log : Log} (h : LInv l log) (p id : Nat) : LInv (l.jobAdd p id) log := by
  unfold Loop.jobAdd
  apply h.of_same (by simp) (by simp) (by simp) (by simp)
  · intro j hj
    rcases mem_jobItems_setLevel _ _ _ hj with hj | hj
    · exact mem_level_jobs _ _ hj
    · exact hj
  · intro j hj
    rcases mem_waitItems_setLevel _ _ _ hj with hj | hj
    · simp only [List.mem_append, List.mem_singleton] at hj
      rcases hj with hj | hj
      · exact mem_level_wait _ _ hj
      · cases hj
    · exact hj

theorem LInvF.setNow {l : Loop} {log : Log} {F : List Nat} (h : LInvF l log F) (n : UInt64)
    (hn : l.now.toNat ≤ n.toNat) : LInvF { l with now := n } log F :=
  h.of_same rfl rfl rfl hn (fun _ hj => hj) (fun _ hj => hj)


/-! ### dispatch: `qb_loop_run_level` -/

/-- every timer callback in `evs` belongs to a timer that had passed the expiry test by then -/
def EvOk (c : Cfg) (log : Log) (evs : List Ev) : Prop :=
  ∀ id t, Ev.timerCb id t ∈ evs → Due c log id t

/-- fields a dispatch pass leaves alone -/
structure SameCore (l l' : Loop) : Prop where
  heap : l'.heap = l.heap
  now : l'.now = l.now
  cfg : l'.cfg = l.cfg
  hz : l'.hz = l.hz

theorem EvOk.nil (c : Cfg) (log : Log) : EvOk c log [] := fun _ _ hm => by cases hm

theorem SameCore.refl (l : Loop) : SameCore l l := ⟨rfl, rfl, rfl, rfl⟩
theorem SameCore.trans {a b c : Loop} (h1 : SameCore a b) (h2 : SameCore b c) : SameCore a c :=
  ⟨h2.heap.trans h1.heap, h2.now.trans h1.now, h2.cfg.trans h1.cfg, h2.hz.trans h1.hz⟩

theorem LInv.runLevel {l : Loop} {log : Log} (h : LInv l log) (p n : Nat) :
    LInv (l.runLevel p n).1 log ∧ EvOk l.cfg log (l.runLevel p n).2 ∧ SameCore l (l.runLevel p n).1 ∧
      (l.runLevel p n).1.pStop = l.pStop := by
  induction n generalizing l with
  | zero => exact ⟨h, EvOk.nil _ _, SameCore.refl l, rfl⟩
  | succ n ih =>
    unfold Loop.runLevel
    cases hjobs : (l.level p).jobs with
    | nil => exact ⟨h, EvOk.nil _ _, SameCore.refl l, rfl⟩
    | cons it rest =>
      simp only
      have hit : it ∈ l.jobItems := mem_level_jobs l p (by rw [hjobs]; exact List.mem_cons_self)
      have h1 : LInv (l.setLevel p { (l.level p) with jobs := rest }) log := by
        apply h.of_same (by simp) (by simp) (by simp) (by simp)
        · intro j hj
          rcases mem_jobItems_setLevel _ _ _ hj with hj | hj
          · exact mem_level_jobs l p (by rw [hjobs]; exact List.mem_cons_of_mem _ hj)
          · exact hj
        · intro j hj
          rcases mem_waitItems_setLevel _ _ _ hj with hj | hj
          · exact mem_level_wait _ _ hj
          · exact hj
      cases it with
      | timer id =>
        simp only [Loop.dispatch]
        have hnh : id ∉ l.heapIds := h.jobs_not_heap id hit
        have h2 := h1.setState_nonactive id .empty (by intro hh; cases hh) (by simpa using hnh) (by simp)
        obtain ⟨i1, i2, i3, i4⟩ := ih h2
        refine ⟨i1, ?_, ?_, by simpa using i4⟩
        · intro j t hm
          rcases List.mem_cons.1 hm with heq | hm
          · cases heq
            simpa using h.g_jobs id hit
          · simpa using i2 j t hm
        · exact SameCore.trans ⟨by simp, by simp, by simp, by simp⟩ i3
      | job id =>
        simp only [Loop.dispatch]
        obtain ⟨i1, i2, i3, i4⟩ := ih h1
        refine ⟨i1, ?_, ?_, by simpa using i4⟩
        · intro j t hm
          rcases List.mem_cons.1 hm with heq | hm
          · cases heq
          · simpa using i2 j t hm
        · exact SameCore.trans ⟨by simp, by simp, by simp, by simp⟩ i3

theorem EvOk.append {c : Cfg} {log : Log} {a b : List Ev} (ha : EvOk c log a) (hb : EvOk c log b) :
    EvOk c log (a ++ b) := by
  intro id t hm
  rcases List.mem_append.1 hm with hm | hm
  · exact ha id t hm
  · exact hb id t hm

theorem LInv.runLevels {l : Loop} {log : Log} (h : LInv l log) :
    LInv l.runLevels.1 log ∧ EvOk l.cfg log l.runLevels.2 ∧ SameCore l l.runLevels.1 := by
  unfold Loop.runLevels
  simp only
  -- the three conditional level passes
  have step : ∀ (l : Loop) (p : Nat), LInv l log →
      LInv (if p ≥ l.pStop then l.runLevel p TO_PROCESS else (l, [])).1 log ∧
      EvOk l.cfg log (if p ≥ l.pStop then l.runLevel p TO_PROCESS else (l, [])).2 ∧
      SameCore l (if p ≥ l.pStop then l.runLevel p TO_PROCESS else (l, [])).1 := by
    intro l p hl
    split
    · obtain ⟨i1, i2, i3, _⟩ := hl.runLevel p TO_PROCESS
      exact ⟨i1, i2, i3⟩
    · exact ⟨hl, EvOk.nil _ _, SameCore.refl l⟩
  obtain ⟨a1, a2, a3⟩ := step l 2 h
  obtain ⟨b1, b2, b3⟩ := step _ 1 a1
  obtain ⟨c1, c2, c3⟩ := step _ 0 b1
  rw [a3.cfg] at b2
  rw [b3.cfg, a3.cfg] at c2
  refine ⟨?_, (a2.append b2).append c2, ?_⟩
  · exact c1.of_same rfl rfl rfl (Nat.le_refl _) (fun _ hj => hj) (fun _ hj => hj)
  · have := (a3.trans b3).trans c3
    exact ⟨this.heap, this.now, this.cfg, this.hz⟩

/-! ### `get_more_jobs` -/

theorem LInv.getMoreJobs {l : Loop} {log : Log} (h : LInv l log) :
    LInv l.getMoreJobs.1 log ∧ SameCore l l.getMoreJobs.1 ∧ l.getMoreJobs.1.remainingTodo = l.remainingTodo := by
  unfold Loop.getMoreJobs
  simp only
  have mv : ∀ (l : Loop) (p : Nat), LInv l log →
      LInv (l.setLevel p { wait := [], jobs := (l.level p).jobs ++ (l.level p).wait }) log := by
    intro l p hl
    apply hl.of_same (by simp) (by simp) (by simp) (by simp)
    · intro j hj
      rcases mem_jobItems_setLevel _ _ _ hj with hj | hj
      · simp only [List.mem_append] at hj
        rcases hj with hj | hj
        · exact mem_level_jobs _ _ hj
        · exact absurd (mem_level_wait _ _ hj) (hl.wait_no_timer j)
      · exact hj
    · intro j hj
      rcases mem_waitItems_setLevel _ _ _ hj with hj | hj
      · cases hj
      · exact hj
  have a := mv l 0 h
  have b := mv _ 1 a
  have c := mv _ 2 b
  exact ⟨c, ⟨by simp, by simp, by simp, by simp⟩, by simp⟩

/-! ### `expire_the_timers` -/

theorem LInvF.queueFired {l : Loop} {log : Log} (fired : List Entry) (h : LInvF l log (fired.map (·.id))) :
    LInv (l.queueFired fired) log ∧ SameCore l (l.queueFired fired) ∧
      (l.queueFired fired).remainingTodo = l.remainingTodo := by
  induction fired generalizing l with
  | nil => exact ⟨h, SameCore.refl l, rfl⟩
  | cons e rest ih =>
    unfold Loop.queueFired
    simp only
    generalize hp : ((l.timer? e.id).map (·.prio)).getD 0 = p
    have hF : (e :: rest).map (·.id) = e.id :: rest.map (·.id) := rfl
    obtain ⟨f1, f2, f3⟩ := h.f_ok e.id (by simp)
    have hnd := List.nodup_cons.1 (hF ▸ h.fnodup)
    have h1 : LInvF ((l.setLevel p { (l.level p) with jobs := (l.level p).jobs ++ [.timer e.id] }).setState e.id .joblist)
        log (rest.map (·.id)) := by
      have hjobs : ∀ j, Item.timer j ∈ (l.setLevel p { (l.level p) with jobs := (l.level p).jobs ++ [.timer e.id] }).jobItems →
          j = e.id ∨ Item.timer j ∈ l.jobItems := by
        intro j hj
        rcases mem_jobItems_setLevel _ _ _ hj with hj | hj
        · simp only [List.mem_append, List.mem_singleton] at hj
          rcases hj with hj | hj
          · right; exact mem_level_jobs _ _ hj
          · left; cases hj; rfl
        · right; exact hj
      refine ⟨by simpa using h.heap, by simpa using h.tnodup, ?_, by simpa using h.heap_sub, ?_, ?_, ?_,
        by simpa using h.g_heap, ?_, hnd.2, ?_⟩
      · intro t' ht'
        obtain ⟨t, ht, e1, _, e3⟩ := mem_setState_timers _ e.id .joblist ht'
        simp only [setLevel_timers] at ht
        simp only [setState_heapIds, setLevel_heapIds]
        rw [e1]
        have hact := h.active_iff t ht
        rw [hF] at hact
        by_cases hti : t.id = e.id
        · simp only [hti, if_true] at e3
          rw [e3, hti]
          constructor
          · intro hh; cases hh
          · rintro (hh | hh)
            · exact absurd hh f1
            · exact absurd hh hnd.1
        · simp only [hti, if_false] at e3
          rw [e3, hact]
          simp [hti]
      · intro j hj
        simp only [setState_jobItems] at hj
        simp only [setState_timerIds, setLevel_timerIds]
        rcases hjobs j hj with rfl | hj
        · exact f2
        · exact h.jobs_sub j hj
      · intro j hj
        simp only [setState_jobItems] at hj
        simp only [setState_heapIds, setLevel_heapIds]
        rcases hjobs j hj with rfl | hj
        · exact f1
        · exact h.jobs_not_heap j hj
      · intro j hj
        simp only [setState_waitItems] at hj
        rcases mem_waitItems_setLevel _ _ _ hj with hj | hj
        · exact h.wait_no_timer j (mem_level_wait _ _ hj)
        · exact h.wait_no_timer j hj
      · intro j hj
        simp only [setState_jobItems] at hj
        simp only [setState_cfg, setLevel_cfg, setState_now, setLevel_now]
        rcases hjobs j hj with rfl | hj
        · exact f3
        · exact h.g_jobs j hj
      · intro j hj
        obtain ⟨g1, g2, g3⟩ := h.f_ok j (by rw [hF]; exact List.mem_cons_of_mem _ hj)
        simpa using ⟨g1, g2, g3⟩
    obtain ⟨i1, i2, i3⟩ := ih h1
    exact ⟨i1, SameCore.trans ⟨by simp, by simp, by simp, by simp⟩ i2, by simpa using i3⟩

/-- what `expire_the_timers` leaves behind: the invariant, and no timer in the heap that is due -/
theorem LInv.expireTimers {l : Loop} {log : Log} (h : LInv l log) :
    LInv l.expireTimers.1 log ∧
    l.expireTimers.1.now = l.now ∧ l.expireTimers.1.cfg = l.cfg ∧ l.expireTimers.1.hz = l.hz ∧
    l.expireTimers.1.remainingTodo = l.remainingTodo ∧
    (∀ x ∈ idKeys l.expireTimers.1.heap.a, ¬ x.2 < l.now.toNat) := by
  unfold Loop.expireTimers
  rw [Heap.expire_eq]
  simp only
  obtain ⟨i1, i2, i3, i4, _⟩ := expireLoop_spec l.heap.a.size l.heap.a l.now.toNat h.heap (Nat.le_refl _)
  generalize hr : expireLoop l.heap.a.size l.heap.a l.now.toNat [] = r at *
  have hpf := i2.map Prod.fst
  rw [List.map_append, List.map_map] at hpf
  have hFeq : (r.2.map idKey).map Prod.fst = r.2.map (·.id) := by
    rw [List.map_map]; rfl
  have hndall : (r.2.map (·.id) ++ (idKeys r.1).map Prod.fst).Nodup := by
    have := (hpf.nodup_iff).1 h.heap.nodup
    rwa [List.map_map] at hFeq
  have hnda := List.nodup_append.1 hndall
  have hmem : ∀ j, j ∈ l.heapIds ↔ (j ∈ r.2.map (·.id) ∨ j ∈ (idKeys r.1).map Prod.fst) := by
    intro j
    unfold Loop.heapIds
    rw [hpf.mem_iff, List.mem_append]
    rfl
  have h0 : LInvF { l with heap := { l.heap with a := r.1 } } log (r.2.map (·.id)) := by
    refine ⟨i1, h.tnodup, ?_, ?_, h.jobs_sub, ?_, h.wait_no_timer, ?_, h.g_jobs, hnda.1, ?_⟩
    · intro t ht
      have := h.active_iff t ht
      simp only [List.not_mem_nil, or_false] at this
      rw [this, hmem]
      exact Or.comm
    · intro j hj
      exact h.heap_sub j ((hmem j).2 (Or.inr hj))
    · intro j hj hm
      exact h.jobs_not_heap j hj ((hmem j).2 (Or.inr hm))
    · intro x hx
      exact h.g_heap x ((i2.mem_iff).2 (List.mem_append_right _ hx))
    · intro j hj
      refine ⟨fun hm => hnda.2.2 j hj j hm rfl, h.heap_sub j ((hmem j).2 (Or.inl hj)), ?_⟩
      rw [List.mem_map] at hj
      obtain ⟨e, he, rfl⟩ := hj
      have hk := i3 e he
      obtain ⟨a, d, g1, g2⟩ := h.g_heap (idKey e) ((i2.mem_iff).2 (List.mem_append_left _ (List.mem_map_of_mem he)))
      refine ⟨a, d, g1, ?_⟩
      show (addDuration l.cfg a d).toNat < l.now.toNat
      rw [← g2]; exact hk
  obtain ⟨q1, q2, q3⟩ := h0.queueFired r.2
  refine ⟨q1, q2.now, q2.cfg, q2.hz, q3, ?_⟩
  intro x hx
  rw [q2.heap] at hx
  exact i4 x hx


/-! ### one pass of `qb_loop_run` -/

/-- what the first half of the loop body establishes -/
theorem LInv.top {l : Loop} {log : Log} (h : LInv l log) :
    LInv l.top.1 log ∧ l.top.1.now = l.now ∧ l.top.1.cfg = l.cfg ∧ l.top.1.hz = l.hz ∧
    l.top.1.pending = some l.top.2 ∧
    (∀ x ∈ idKeys l.top.1.heap.a, ¬ x.2 < l.now.toNat) ∧
    (∃ rem tt jt, (tt = 0 → ∀ x ∈ idKeys l.top.1.heap.a, ¬ x.2 < l.now.toNat) ∧
        l.top.2 = chooseTimeout l.cfg rem tt jt l.top.1.root l.now l.hz) := by
  unfold Loop.top
  simp only
  generalize hl0 : ({ l with pStop := if l.pStop = Gen.LOOP_LOW then Gen.LOOP_HIGH else l.pStop - 1 } : Loop) = l0
  have h0 : LInv l0 log := by
    subst hl0
    exact h.of_same rfl rfl rfl (Nat.le_refl _) (fun _ hj => hj) (fun _ hj => hj)
  have e0 : l0.now = l.now ∧ l0.cfg = l.cfg ∧ l0.hz = l.hz := by subst hl0; simp
  obtain ⟨g1, g2, _⟩ := h0.getMoreJobs
  generalize hl1 : l0.getMoreJobs = r1 at *
  obtain ⟨x1, x2, x3, x4, _, x6⟩ := g1.expireTimers
  generalize hl2 : r1.1.expireTimers = r2 at *
  have hnow : r2.1.now = l.now := by rw [x2, g2.now, e0.1]
  have hcfg : r2.1.cfg = l.cfg := by rw [x3, g2.cfg, e0.2.1]
  have hhz : r2.1.hz = l.hz := by rw [x4, g2.hz, e0.2.2]
  have hnow1 : r1.1.now = l.now := by rw [g2.now, e0.1]
  rw [hnow1] at x6
  refine ⟨?_, hnow, hcfg, hhz, trivial, x6, ?_⟩
  · exact x1.of_same rfl rfl rfl (Nat.le_refl _) (fun _ hj => hj) (fun _ hj => hj)
  · refine ⟨r2.1.remainingTodo, r2.2, r1.2, fun _ => x6, ?_⟩
    show chooseTimeout r2.1.cfg r2.1.remainingTodo r2.2 r1.2 r2.1.root r2.1.now r2.1.hz = _
    rw [hcfg, hnow, hhz]
    rfl

/-- the virtual clock does not wrap during this operation -/
def ClockOkStep (l : Loop) : LOp → Prop
  | .advance ns => l.now.toNat + ns.toNat < 2^64
  | .iterate wake => ∀ tmo, l.pending = some tmo → l.now.toNat + (sleepNs tmo wake).toNat < 2^64
  | _ => True

/-- ghost: the `(id, clock, duration)` of every successful `qb_loop_timer_add` -/
def logStep (l : Loop) (log : Log) : LOp → Log
  | .timerAdd _ ns id => if (l.timer? id).isNone then (id, l.now, ns) :: log else log
  | _ => log

theorem add_toNat_of_lt (a b : UInt64) (h : a.toNat + b.toNat < 2^64) : (a + b).toNat = a.toNat + b.toNat := by
  rw [UInt64.toNat_add]; exact Nat.mod_eq_of_lt h

theorem LInv.iterate {l : Loop} {log : Log} (h : LInv l log) (wake : Option UInt64)
    (hc : ClockOkStep l (.iterate wake)) :
    LInv (l.iterate wake).1 log ∧ EvOk l.cfg log (l.iterate wake).2.1 ∧
    (l.iterate wake).1.cfg = l.cfg ∧ (l.iterate wake).1.hz = l.hz ∧
    l.now.toNat ≤ (l.iterate wake).1.now.toNat ∧
    (∃ l1 : Loop, LInv l1 log ∧ l1.cfg = l.cfg ∧ l1.hz = l.hz ∧
        (l.iterate wake).1 = l1.top.1 ∧ (l.iterate wake).2.2 = l1.top.2) := by
  unfold Loop.iterate
  cases hp : l.pending with
  | none =>
    simp only
    have h0 : LInv ({ l with pStop := Gen.LOOP_LOW, remainingTodo := 0, pending := none } : Loop) log :=
      h.of_same rfl rfl rfl (Nat.le_refl _) (fun _ hj => hj) (fun _ hj => hj)
    obtain ⟨t1, t2, t3, t4, _⟩ := h0.top
    exact ⟨t1, EvOk.nil _ _, t3, t4, by rw [t2]; exact Nat.le_refl _, _, h0, rfl, rfl, rfl, rfl⟩
  | some tmo =>
    simp only
    have hclock := hc tmo hp
    have hn : l.now.toNat ≤ (l.now + sleepNs tmo wake).toNat := by
      rw [add_toNat_of_lt _ _ hclock]; omega
    have h1 : LInv ({ l with now := l.now + sleepNs tmo wake, pending := some tmo } : Loop) log :=
      h.of_same rfl rfl rfl hn (fun _ hj => hj) (fun _ hj => hj)
    obtain ⟨r1, r2, r3⟩ := h1.runLevels
    obtain ⟨t1, t2, t3, t4, _⟩ := r1.top
    refine ⟨t1, ?_, ?_, ?_, ?_, _, r1, r3.cfg, r3.hz, rfl, rfl⟩
    · intro id t hm
      exact r2 id t hm
    · rw [t3, r3.cfg]
    · rw [t4, r3.hz]
    · rw [t2, r3.now]; exact hn

/-! ### whole histories -/

theorem logStep_mono (l : Loop) (log : Log) (op : LOp) : ∀ x ∈ log, x ∈ logStep l log op := by
  intro x hx
  cases op with
  | timerAdd p ns id =>
    simp only [logStep]
    split
    · exact List.mem_cons_of_mem _ hx
    · exact hx
  | _ => exact hx

theorem EvOk.mono {c : Cfg} {log log' : Log} {evs : List Ev} (h : EvOk c log evs) (hl : ∀ x ∈ log, x ∈ log') :
    EvOk c log' evs := fun id t hm => (h id t hm).mono hl (Nat.le_refl _)

/-- one operation keeps the invariant; its callbacks are all due -/
theorem LInv.step {l : Loop} {log : Log} (h : LInv l log) (op : LOp) (hc : ClockOkStep l op) :
    LInv (l.step op).1 (logStep l log op) ∧ EvOk l.cfg (logStep l log op) (l.step op).2.evs ∧
    (l.step op).1.cfg = l.cfg := by
  cases op with
  | timerAdd p ns id =>
    refine ⟨h.timerAdd p ns id, EvOk.nil _ _, ?_⟩
    simp only [Loop.step, Loop.timerAdd]
    split <;> rfl
  | timerDel id =>
    refine ⟨h.timerDel id, EvOk.nil _ _, ?_⟩
    simp only [Loop.step, Loop.timerDel]
    split
    · rfl
    · split
      · rfl
      · simp
      · split <;> simp
  | jobAdd p id => exact ⟨h.jobAdd p id, EvOk.nil _ _, by simp [Loop.step, Loop.jobAdd]⟩
  | advance ns =>
    refine ⟨?_, EvOk.nil _ _, rfl⟩
    have hc' : l.now.toNat + ns.toNat < 2^64 := hc
    exact h.setNow (l.now + ns) (by rw [add_toNat_of_lt _ _ hc']; omega)
  | iterate wake =>
    obtain ⟨i1, i2, i3, _⟩ := h.iterate wake hc
    exact ⟨i1, i2, i3⟩

/-- the clock never wraps along the run -/
def ClockOk (l : Loop) : List LOp → Prop
  | [] => True
  | op :: ops => ClockOkStep l op ∧ ClockOk (l.step op).1 ops

/-- ghost log at the end of a run -/
def runLog (l : Loop) (log : Log) : List LOp → Log
  | [] => log
  | op :: ops => runLog (l.step op).1 (logStep l log op) ops

theorem runLog_mono (l : Loop) (log : Log) (ops : List LOp) : ∀ x ∈ log, x ∈ runLog l log ops := by
  induction ops generalizing l log with
  | nil => intro x hx; exact hx
  | cons op ops ih =>
    intro x hx
    exact ih _ _ x (logStep_mono l log op x hx)

theorem LInv.run {l : Loop} {log : Log} (h : LInv l log) (ops : List LOp) (hc : ClockOk l ops) :
    LInv (l.run ops).1 (runLog l log ops) ∧
    (∀ o ∈ (l.run ops).2, EvOk l.cfg (runLog l log ops) o.evs) ∧
    (l.run ops).1.cfg = l.cfg := by
  induction ops generalizing l log with
  | nil => exact ⟨h, fun o ho => (by cases ho), rfl⟩
  | cons op ops ih =>
    obtain ⟨hc1, hc2⟩ := hc
    obtain ⟨s1, s2, s3⟩ := h.step op hc1
    obtain ⟨i1, i2, i3⟩ := ih s1 hc2
    simp only [Loop.run, runLog]
    refine ⟨i1, ?_, by rw [i3, s3]⟩
    intro o ho
    rcases List.mem_cons.1 ho with rfl | ho
    · exact s2.mono (runLog_mono _ _ ops)
    · rw [← s3]; exact i2 o ho

/-! ### consequences of the invariant for the queries -/

theorem fst_unique {l : List (Nat × Nat)} (hn : (l.map Prod.fst).Nodup) {a b c : Nat}
    (h1 : (a, b) ∈ l) (h2 : (a, c) ∈ l) : b = c := by
  induction l with
  | nil => cases h1
  | cons x xs ih =>
    rw [List.map_cons, List.nodup_cons] at hn
    rcases List.mem_cons.1 h1 with e1 | h1 <;> rcases List.mem_cons.1 h2 with e2 | h2
    · rw [← e1] at e2; cases e2; rfl
    · exfalso; apply hn.1; rw [← e1]; exact List.mem_map.2 ⟨(a, c), h2, rfl⟩
    · exfalso; apply hn.1; rw [← e2]; exact List.mem_map.2 ⟨(a, b), h1, rfl⟩
    · exact ih hn.2 h1 h2

theorem LInvF.key_lt {l : Loop} {log : Log} {F : List Nat} (h : LInvF l log F) (x : Nat × Nat)
    (hx : x ∈ idKeys l.heap.a) : x.2 < 2^64 := by
  obtain ⟨a, d, _, h2⟩ := h.g_heap x hx
  rw [h2]; exact UInt64.toNat_lt _

theorem ofNat_toNat_of_lt (k : Nat) (h : k < 2^64) : (UInt64.ofNat k).toNat = k := by
  rw [UInt64.toNat_ofNat']; exact Nat.mod_eq_of_lt h

/-- the queries on a timer that is in the heap with expiry `k`, and on one that is not -/
theorem LInv.queries {l : Loop} {log : Log} (h : LInv l log) (id : Nat) :
    (id ∉ l.heapIds → l.remaining id = 0 ∧ l.isRunning id = false ∧ l.expireTimeGet id = 0) ∧
    (∀ k, (id, k) ∈ idKeys l.heap.a →
      (l.remaining id).toNat = k - l.now.toNat ∧ (l.isRunning id = true ↔ k ≠ 0) ∧
      (l.expireTimeGet id).toNat = k) := by
  constructor
  · intro hn
    unfold Loop.isRunning Loop.remaining Loop.expireTimeGet
    cases hq : l.timer? id with
    | none => simp
    | some t =>
      obtain ⟨htm, htid⟩ := timer?_some_mem hq
      have hact := h.active_iff t htm
      simp only [List.not_mem_nil, or_false] at hact
      have : t.state ≠ .active := fun hs => hn (htid ▸ hact.1 hs)
      simp [this]
  · intro k hk
    have hin : id ∈ l.heapIds := List.mem_map.2 ⟨(id, k), hk, rfl⟩
    have hs := (find?_isSome_iff h.heap.back).2 hin
    obtain ⟨e, he⟩ := Option.isSome_iff_exists.1 hs
    obtain ⟨e1, e2, e3⟩ := find?_some_spec h.heap.back he
    have hek : (id, e.key) ∈ idKeys l.heap.a :=
      (mem_idKeys_iff _ _).2 ⟨e.pos, e2, by rw [e3]; simp [idKey, e1]⟩
    have hke : e.key = k := fst_unique h.heap.nodup hek hk
    have hklt : k < 2^64 := h.key_lt _ hk
    have hti : id ∈ l.timerIds := h.heap_sub id hin
    cases hq : l.timer? id with
    | none => exact absurd hti ((timer?_none_iff l id).1 hq)
    | some t =>
      obtain ⟨htm, htid⟩ := timer?_some_mem hq
      have hact := h.active_iff t htm
      simp only [List.not_mem_nil, or_false] at hact
      have hst : t.state = .active := hact.2 (htid ▸ hin)
      have hexp : l.expireOf id = some (UInt64.ofNat k) := by
        unfold Loop.expireOf; rw [he, Option.map_some, hke]
      have hkn := ofNat_toNat_of_lt k hklt
      have hnl := l.now.toNat_lt
      refine ⟨?_, ?_, ?_⟩
      · unfold Loop.remaining
        rw [hq]; simp only [hst, if_true, hexp, Option.getD_some]
        by_cases hlt : UInt64.ofNat k < l.now
        · have := UInt64.lt_iff_toNat_lt.1 hlt
          rw [hkn] at this
          simp only [hlt, if_true]
          show (0 : UInt64).toNat = _
          simp; omega
        · have hge : ¬ k < l.now.toNat := fun hh => hlt (UInt64.lt_iff_toNat_lt.2 (by rw [hkn]; exact hh))
          simp only [hlt, if_false]
          rw [UInt64.toNat_sub, hkn]; omega
      · unfold Loop.isRunning Loop.expireTimeGet
        rw [hq]; simp only [hst, if_true, hexp, Option.getD_some, decide_eq_true_eq, gt_iff_lt]
        rw [UInt64.lt_iff_toNat_lt, hkn]
        show 0 < k ↔ k ≠ 0
        omega
      · unfold Loop.expireTimeGet
        rw [hq]; simp only [hst, if_true, hexp, Option.getD_some]
        exact hkn

end QbVerif.Timer
