/-
C08: the STRUCTURAL invariant of Model/Loop.lean, part 1 — how often an item is linked in the three job
lists (`cnt`), under the list primitives (qb_loop_level_item_add / _del, the pop of qb_loop_run_level).
`QLe s s'`: the step s → s' linked no timer slot and no poll entry anew.  Core Lean only.
-/
import QbVerif.Lemmas.LoopWalk3
import QbVerif.Lemmas.LoopJobs

namespace QbVerif.Loop
open QbVerif.Gen

def St.allJobs (s : St) : List Item := s.lo.jobs ++ (s.me.jobs ++ s.hi.jobs)

/-- how often `it` is linked in the job lists of the three levels -/
def St.cnt (s : St) (it : Item) : Nat := s.allJobs.count it

/-- items that live in a slot array (`timers[i].item`, `poll_entries[i].item`) -/
def isSlot : Item → Bool
  | .timer _ => true
  | .fd _ => true
  | _ => false

def QLe (s s' : St) : Prop := ∀ it, isSlot it = true → s'.cnt it ≤ s.cnt it

theorem QLe.refl (s : St) : QLe s s := fun _ _ => Nat.le_refl _
theorem QLe.trans {a b c : St} (h1 : QLe a b) (h2 : QLe b c) : QLe a c :=
  fun it hi => Nat.le_trans (h2 it hi) (h1 it hi)

theorem QLe.of_eq {s s' : St} (h1 : s'.lo = s.lo) (h2 : s'.me = s.me) (h3 : s'.hi = s.hi) : QLe s s' := by
  intro it _; unfold St.cnt St.allJobs; rw [h1, h2, h3]; exact Nat.le_refl _

theorem QLe.ite {s a b : St} {c : Prop} [Decidable c] (ha : QLe s a) (hb : QLe s b) :
    QLe s (if c then a else b) := by split <;> assumption

theorem allJobs_split (s : St) (p : Nat) : ∃ X Y : List Item,
    s.allJobs = X ++ ((s.lv p).jobs ++ Y) ∧ ∀ l : Level, (s.setLv p l).allJobs = X ++ (l.jobs ++ Y) := by
  have hml : QB_LOOP_MED ≠ QB_LOOP_LOW := by decide
  by_cases h0 : p = QB_LOOP_LOW
  · exact ⟨[], s.me.jobs ++ s.hi.jobs, by simp [St.allJobs, St.lv, h0],
      fun l => by simp [St.allJobs, setLv_lo, setLv_me, setLv_hi, h0]⟩
  · by_cases h1 : p = QB_LOOP_MED
    · exact ⟨s.lo.jobs, s.hi.jobs, by simp [St.allJobs, St.lv, h1, hml],
        fun l => by simp [St.allJobs, setLv_lo, setLv_me, setLv_hi, h1, hml]⟩
    · exact ⟨s.lo.jobs ++ s.me.jobs, [], by simp [St.allJobs, St.lv, h0, h1],
        fun l => by simp [St.allJobs, setLv_lo, setLv_me, setLv_hi, h0, h1]⟩

theorem cnt_setLv_same (s : St) (p : Nat) (l : Level) (h : l.jobs = (s.lv p).jobs) (x : Item) :
    (s.setLv p l).cnt x = s.cnt x := by
  obtain ⟨X, Y, e1, e2⟩ := allJobs_split s p
  unfold St.cnt; rw [e1, e2 l, h]

theorem cnt_itemAdd (s : St) (p : Nat) (it x : Item) :
    (s.itemAdd p it).cnt x = s.cnt x + (if it = x then 1 else 0) := by
  obtain ⟨X, Y, e1, e2⟩ := allJobs_split s p
  unfold St.itemAdd St.cnt
  rw [e1, e2]
  simp only [List.count_append, List.count_cons, List.count_nil]
  by_cases h : it = x
  · subst h; simp; omega
  · have : (it == x) = false := by simpa using h
    simp [this, h]

/-- the pop of `qb_loop_run_level` -/
theorem cnt_pop (s : St) (p : Nat) (it : Item) (rest : List Item) (hj : (s.lv p).jobs = it :: rest) (x : Item) :
    (s.popped p it rest).cnt x + (if it = x then 1 else 0) = s.cnt x := by
  obtain ⟨X, Y, e1, e2⟩ := allJobs_split s p
  have e3 : (s.popped p it rest).allJobs = X ++ (rest ++ Y) := e2 { s.lv p with jobs := rest }
  unfold St.cnt
  rw [e1, e3, hj]
  simp only [List.count_append, List.count_cons]
  by_cases h : it = x
  · subst h; simp; omega
  · have : (it == x) = false := by simpa using h
    simp [this, h]

theorem count_erase_le {α : Type} [BEq α] [LawfulBEq α] (l : List α) (a x : α) :
    (l.erase a).count x ≤ l.count x := List.Sublist.count_le x List.erase_sublist

theorem linked_false_cnt (s : St) (it : Item) (h : s.linked it = false) : s.cnt it = 0 := by
  unfold St.linked at h
  simp only [Bool.or_eq_false_iff, List.contains_eq_mem, decide_eq_false_iff_not] at h
  unfold St.cnt St.allJobs
  simp only [List.count_append]
  rw [List.count_eq_zero.2 h.1.1, List.count_eq_zero.2 h.1.2, List.count_eq_zero.2 h.2]

/-- the three `qb_list_del`s of the model's `qb_loop_level_item_del` -/
def St.erased (s : St) (it : Item) : St :=
  { s with lo := { s.lo with jobs := s.lo.jobs.erase it },
           me := { s.me with jobs := s.me.jobs.erase it },
           hi := { s.hi with jobs := s.hi.jobs.erase it } }

theorem itemDel_eq (s : St) (p : Nat) (it : Item) :
    s.itemDel p it = if s.linked it then (s.erased it).todoDec p else s := rfl

theorem cnt_todoDec (s : St) (p : Nat) (x : Item) : (s.todoDec p).cnt x = s.cnt x :=
  cnt_setLv_same s p { s.lv p with todo := (s.lv p).todo - 1 } rfl x

/-- `qb_loop_level_item_del`: nothing is linked anew … -/
theorem cnt_itemDel_le (s : St) (p : Nat) (it x : Item) : (s.itemDel p it).cnt x ≤ s.cnt x := by
  rw [itemDel_eq]
  split
  · rw [cnt_todoDec]
    unfold St.cnt St.allJobs St.erased
    simp only [List.count_append]
    have h1 := count_erase_le s.lo.jobs it x
    have h2 := count_erase_le s.me.jobs it x
    have h3 := count_erase_le s.hi.jobs it x
    omega
  · exact Nat.le_refl _

/-- … and an item that was linked at most once is linked nowhere afterwards -/
theorem cnt_itemDel_self (s : St) (p : Nat) (it : Item) (h : s.cnt it ≤ 1) : (s.itemDel p it).cnt it = 0 := by
  rw [itemDel_eq]
  split
  · rw [cnt_todoDec]
    unfold St.cnt St.allJobs St.erased at *
    simp only [List.count_append, List.count_erase_self] at h ⊢
    omega
  · rename_i hl
    exact linked_false_cnt s it (by simpa using hl)

theorem itemDel_qle (s : St) (p : Nat) (it : Item) : QLe s (s.itemDel p it) :=
  fun x _ => cnt_itemDel_le s p it x

theorem itemAdd_qle (s : St) (p : Nat) (it : Item) (h : isSlot it = false) : QLe s (s.itemAdd p it) := by
  intro x hx
  rw [cnt_itemAdd]
  have : it ≠ x := by intro e; subst e; rw [h] at hx; cases hx
  simp [this]

theorem setLv_qle (s : St) (p : Nat) (l : Level) (h : l.jobs = (s.lv p).jobs) : QLe s (s.setLv p l) :=
  fun x _ => Nat.le_of_eq (cnt_setLv_same s p l h x)

theorem cnt_congr {a b : St} (h1 : a.lo = b.lo) (h2 : a.me = b.me) (h3 : a.hi = b.hi) (x : Item) :
    a.cnt x = b.cnt x := by unfold St.cnt St.allJobs; rw [h1, h2, h3]

/-! ### the wait lists hold jobs only -/

def WG (s : St) : Prop := ∀ it, it ∈ s.lo.wait ++ (s.me.wait ++ s.hi.wait) → isSlot it = false

theorem WG.of_eq {s s' : St} (h : WG s) (h1 : s'.lo.wait = s.lo.wait) (h2 : s'.me.wait = s.me.wait)
    (h3 : s'.hi.wait = s.hi.wait) : WG s' := by
  unfold WG; rw [h1, h2, h3]; exact h

theorem wait_split (s : St) (p : Nat) : ∃ X Y : List Item,
    s.lo.wait ++ (s.me.wait ++ s.hi.wait) = X ++ ((s.lv p).wait ++ Y) ∧
    ∀ l : Level, (s.setLv p l).lo.wait ++ ((s.setLv p l).me.wait ++ (s.setLv p l).hi.wait) = X ++ (l.wait ++ Y) := by
  have hml : QB_LOOP_MED ≠ QB_LOOP_LOW := by decide
  by_cases h0 : p = QB_LOOP_LOW
  · exact ⟨[], s.me.wait ++ s.hi.wait, by simp [St.lv, h0], fun l => by simp [setLv_lo, setLv_me, setLv_hi, h0]⟩
  · by_cases h1 : p = QB_LOOP_MED
    · exact ⟨s.lo.wait, s.hi.wait, by simp [St.lv, h1, hml],
        fun l => by simp [setLv_lo, setLv_me, setLv_hi, h1, hml]⟩
    · exact ⟨s.lo.wait ++ s.me.wait, [], by simp [St.lv, h0, h1],
        fun l => by simp [setLv_lo, setLv_me, setLv_hi, h0, h1]⟩

theorem WG.setLv {s : St} (h : WG s) (p : Nat) (l : Level)
    (hl : ∀ it ∈ l.wait, it ∈ (s.lv p).wait ∨ isSlot it = false) : WG (s.setLv p l) := by
  obtain ⟨X, Y, e1, e2⟩ := wait_split s p
  unfold WG at h ⊢
  rw [e2 l]; rw [e1] at h
  intro it hit
  simp only [List.mem_append] at hit h
  rcases hit with hx | hw | hy
  · exact h it (Or.inl hx)
  · rcases hl it hw with hw' | hs
    · exact h it (Or.inr (Or.inl hw'))
    · exact hs
  · exact h it (Or.inr (Or.inr hy))

theorem WG.lv {s : St} (h : WG s) (p : Nat) : ∀ it ∈ (s.lv p).wait, isSlot it = false := by
  obtain ⟨X, Y, e1, _⟩ := wait_split s p
  unfold WG at h; rw [e1] at h
  intro it hit; exact h it (by simp [hit])

end QbVerif.Loop
