/-
C01 — linearizability, second part: the reader's steps, and the induction over schedules
(see Lemmas/RingConcLin.lean for the definitions).
-/
import QbVerif.Lemmas.RingConcLin

namespace QbVerif.RingConcLemmas
open QbVerif.Ring QbVerif.RingSpec QbVerif.RingLemmas QbVerif.RingConc

theorem rtokOf_rc_read (cap : Nat) (rest : List ROp) (pc : RPc) (h : pc ≠ .idle) (h2 : ∀ p s j, pc ≠ .rcopy p s j) :
    rtokOf pc (.read cap :: rest) = 1 := by
  cases pc <;> first | rfl | exact absurd rfl h | exact absurd rfl (h2 _ _ _)

section
variable {c : Conf} {q : List (List Nat)} {op : ROp} {rest : List ROp} {f0 : Fifo}

/-- steps of `qb_rb_chunk_read` up to the copy-out -/
theorem rlin_read (h : CInv c q) (hl : LinOk f0 c q) (hp : c.rprog = op :: rest)
    (hpc : c.rpc = .idle ∨ c.rpc = .rdRp ∨ (∃ p, c.rpc = .rdMg p) ∨ c.rpc = .rdBad ∨ (∃ p, c.rpc = .rdSz p) ∨
      c.rpc = .rdShort ∨ ∃ p sz, c.rpc = .rdCpy p sz) : LinOk f0 (rstep c) q := by
  have hrf := RFacts_get hp h.rf
  rcases hpc with hpc | hpc | ⟨p, hpc⟩ | hpc | ⟨p, hpc⟩ | hpc | ⟨p, sz, hpc⟩
  · -- idle: sem_trywait
    rcases tryWait_cases c.rb with ⟨hsem, htw⟩ | ⟨s, htw, hs⟩
    · have hsa : semAbs c = some 0 := by simp [semAbs, hsem, hpc, rtokOf]
      cases op with
      | read cap =>
        have e : rstep c = Conf.rDone { c with lin := c.lin ++ [(.read cap, .err .etimedout)] } (.err .etimedout) := by
          unfold rstep Conf.rDone Conf.addLin; simp only [hp, hpc, htw, List.tail_cons]
        rw [e]
        refine hl.event rfl rfl ?_
        have hsa' : semAbs (Conf.rDone { c with lin := c.lin ++ [(Op.read cap, Out.err Err.etimedout)] } (.err .etimedout)) = some 0 := by
          simp [semAbs, Conf.rDone, hsem, rtokOf]
        rw [hsa']
        simp [absC, hsa, Fifo.step, Fifo.tryWait]
      | pr f =>
        have e : rstep c = Conf.rDone { c with lin := c.lin ++ [(.peek, .timedOut)] } .timedOut := by
          unfold rstep Conf.rDone Conf.addLin; simp only [hp, hpc, htw, List.tail_cons]
        rw [e]
        refine hl.event rfl rfl ?_
        have hsa' : semAbs (Conf.rDone { c with lin := c.lin ++ [(Op.peek, Out.timedOut)] } .timedOut) = some 0 := by
          simp [semAbs, Conf.rDone, hsem, rtokOf]
        rw [hsa']
        simp [absC, hsa, Fifo.step, Fifo.tryWait]
    · have key : ∀ pc', rtokOf pc' (op :: rest) = 1 →
          LinOk f0 { c with rb := { c.rb with sem := s }, rpc := pc' } q := by
        intro pc' h1
        refine hl.silent rfl rfl ?_
        unfold semAbs
        show s.map (· + rtokOf pc' c.rprog) = _
        rw [hp, h1, hpc]
        rcases hs with ⟨a, b⟩ | ⟨n, a, b⟩
        · rw [a, b]; rfl
        · rw [a, b]; simp [rtokOf]
      cases op with
      | read cap =>
        have e : rstep c = { c with rb := { c.rb with sem := s }, rpc := .rdRp } := by
          unfold rstep; simp only [hp, hpc, htw]
        rw [e]; exact key _ rfl
      | pr f =>
        have e : rstep c = { c with rb := { c.rb with sem := s }, rpc := .pkRp } := by
          unfold rstep; simp only [hp, hpc, htw]
        rw [e]; exact key _ rfl
  · -- rdRp
    have e : rstep c = { c with rpc := .rdMg c.rb.rp, rbuf := c.rbuf, lin := c.lin } := by
      unfold rstep; simp only [hp, hpc]
    rw [e]
    exact hl.silent rfl rfl (by simp [semAbs, hpc, rtokOf])
  · -- rdMg: the magic word is loaded
    rw [hpc] at hrf
    obtain ⟨hrd, hpp⟩ := hrf
    obtain ⟨cap, rfl⟩ := isRead_elim hrd
    have hmi := h.magic_iff hpp (by rw [hpc]; rfl) (by rw [hpc]; rfl)
    by_cases hm : c.rb.magic p = MAGIC
    · have e : rstep c = { c with rpc := .rdSz p, rbuf := c.rbuf, lin := c.lin } := by
        unfold rstep; simp only [hp, hpc, hm, ne_eq, not_true_eq_false, if_false]
      rw [e]
      exact hl.silent rfl rfl (by simp [semAbs, hpc, rtokOf])
    · have hq : q = [] := by
        cases q with
        | nil => rfl
        | cons d ds => exact absurd (hmi.mpr (by simp)) hm
      cases hs : c.rb.sem with
      | some n => exact absurd hq (h.ne_of_tok (by rw [hpc]; rfl) hs)
      | none =>
        have e : rstep c = Conf.rDone { c with lin := c.lin ++ [(.read cap, .err .etimedout)] } (.err .etimedout) := by
          unfold rstep Conf.rDone Conf.addLin; simp only [hp, hpc, hm, hs, ne_eq, not_false_eq_true, if_true, List.tail_cons]
        rw [e]
        refine hl.event rfl rfl ?_
        have hsa : semAbs c = none := by simp [semAbs, hs]
        have hsa' : semAbs (Conf.rDone { c with lin := c.lin ++ [(Op.read cap, Out.err Err.etimedout)] } (.err .etimedout)) = none := by
          simp [semAbs, Conf.rDone, hs]
        rw [hsa', hq]
        simp [absC, hsa, Fifo.step, Fifo.tryWait]
  · -- rdBad: not reachable
    rw [hpc] at hrf; exact absurd hrf (by simp [RF])
  · -- rdSz
    rw [hpc] at hrf
    obtain ⟨hrd, hpp, hne⟩ := hrf
    obtain ⟨cap, rfl⟩ := isRead_elim hrd
    obtain ⟨d, ds, hq⟩ := ne_nil_elim hne
    have hsz : rd32 c.rb.mem p = d.length := by rw [size_at hpp]; exact h.size_head hq (by rw [hpc]; rfl)
    by_cases hcap : cap < d.length
    · have e : rstep c = { c with rpc := .rdShort, rbuf := c.rbuf, lin := c.lin } := by
        unfold rstep; simp only [hp, hpc, hsz, hcap, if_true]
      rw [e]
      exact hl.silent rfl rfl (by simp [semAbs, hpc, rtokOf])
    · have e : rstep c = { c with rpc := .rdCpy p d.length, rbuf := c.rbuf, lin := c.lin } := by
        unfold rstep; simp only [hp, hpc, hsz, hcap, if_false]
      rw [e]
      exact hl.silent rfl rfl (by simp [semAbs, hpc, rtokOf])
  · -- rdShort: the token goes back, ENOBUFS
    rw [hpc] at hrf
    obtain ⟨cap, d, ds, rfl, hq, hcap⟩ := hrf
    cases hs : c.rb.sem with
    | none =>
      have e : rstep c = Conf.rDone { c with lin := c.lin ++ [(.read cap, .err .enobufs)] } (.err .enobufs) := by
        unfold rstep Conf.rDone Conf.addLin; simp only [hp, hpc, post_none hs, List.tail_cons]
      rw [e]
      refine hl.event rfl rfl ?_
      have hsa : semAbs c = none := by simp [semAbs, hs]
      have hsa' : semAbs (Conf.rDone { c with lin := c.lin ++ [(Op.read cap, Out.err Err.enobufs)] } (.err .enobufs)) = none := by
        simp [semAbs, Conf.rDone, hs]
      rw [hsa', hq]
      simp [absC, hsa, Fifo.step, Fifo.tryWait, Fifo.post, hcap]
    | some n =>
      have e : rstep c = Conf.rDone { c with rb := { c.rb with sem := some (n + 1) }, lin := c.lin ++ [(.read cap, .err .enobufs)] } (.err .enobufs) := by
        unfold rstep Conf.rDone Conf.addLin; simp only [hp, hpc, post_some hs, List.tail_cons]
      rw [e]
      refine hl.event rfl rfl ?_
      have hsa : semAbs c = some (n + 1) := by simp [semAbs, hs, hpc, rtokOf]
      have hsa' : semAbs (Conf.rDone { c with rb := { c.rb with sem := some (n + 1) }, lin := c.lin ++ [(Op.read cap, Out.err Err.enobufs)] } (.err .enobufs)) = some (n + 1) := by
        simp [semAbs, Conf.rDone, rtokOf]
      rw [hsa', hq]
      simp [absC, hsa, Fifo.step, Fifo.tryWait, Fifo.post, hcap]
  · -- rdCpy
    rw [hpc] at hrf
    obtain ⟨cap, d, ds, rfl, _⟩ := hrf
    have e : rstep c = { c with rpc := .rcRp, rbuf := c.rb.copyOut p sz, lin := c.lin } := by
      unfold rstep; simp only [hp, hpc]
    rw [e]
    exact hl.silent rfl rfl (by simp [semAbs, hpc, hp, rtokOf])

/-- steps of `qb_rb_chunk_peek` and of the caller's copy loop -/
theorem rlin_peek (h : CInv c q) (hl : LinOk f0 c q) (hp : c.rprog = op :: rest)
    (hpc : c.rpc = .pkRp ∨ (∃ p, c.rpc = .pkMg p) ∨ c.rpc = .pkBad ∨ (∃ p, c.rpc = .pkSz p) ∨
      ∃ p sz j, c.rpc = .rcopy p sz j) : LinOk f0 (rstep c) q := by
  have hrf := RFacts_get hp h.rf
  rcases hpc with hpc | ⟨p, hpc⟩ | hpc | ⟨p, hpc⟩ | ⟨p, sz, j, hpc⟩
  · have e : rstep c = { c with rpc := .pkMg c.rb.rp, rbuf := c.rbuf, lin := c.lin } := by
      unfold rstep; simp only [hp, hpc]
    rw [e]
    exact hl.silent rfl rfl (by simp [semAbs, hpc, rtokOf])
  · -- pkMg
    rw [hpc] at hrf
    obtain ⟨hrd, hpp⟩ := hrf
    have hmi := h.magic_iff hpp (by rw [hpc]; rfl) (by rw [hpc]; rfl)
    by_cases hm : c.rb.magic p = MAGIC
    · have e : rstep c = { c with rpc := .pkSz p, rbuf := c.rbuf, lin := c.lin } := by
        unfold rstep; simp only [hp, hpc, hm, ne_eq, not_true_eq_false, if_false]
      rw [e]
      exact hl.silent rfl rfl (by simp [semAbs, hpc, rtokOf])
    · have hq : q = [] := by
        cases q with
        | nil => rfl
        | cons d ds => exact absurd (hmi.mpr (by simp)) hm
      cases hs : c.rb.sem with
      | some n => exact absurd hq (h.ne_of_tok (by rw [hpc]; rfl) hs)
      | none =>
        have e : rstep c = { c with rpc := .pkBad, rbuf := c.rbuf, lin := c.lin ++ [(.peek, .err .ebadmsg)] } := by
          unfold rstep Conf.addLin; simp only [hp, hpc, hm, ne_eq, not_false_eq_true, if_true]
        rw [e]
        refine hl.event rfl rfl ?_
        have hsa : semAbs c = none := by simp [semAbs, hs]
        have hsa' : semAbs { c with rpc := .pkBad, rbuf := c.rbuf, lin := c.lin ++ [(Op.peek, Out.err Err.ebadmsg)] } = none := by
          simp [semAbs, hs]
        rw [hsa', hq]
        simp [absC, hsa, Fifo.step, Fifo.tryWait, Fifo.post]
  · -- pkBad (no semaphore)
    rw [hpc] at hrf
    have hs := hrf.2
    have e : rstep c = Conf.rDone { c with lin := c.lin } (.err .ebadmsg) := by
      unfold rstep Conf.rDone; simp only [hp, hpc, post_none hs, List.tail_cons]
    rw [e]
    exact hl.silent rfl rfl (by simp [semAbs, Conf.rDone, hs])
  · -- pkSz: the peek takes effect
    rw [hpc] at hrf
    obtain ⟨hrd, hpp, hne⟩ := hrf
    obtain ⟨f, rfl⟩ := isPr_elim hrd
    obtain ⟨d, ds, hq⟩ := ne_nil_elim hne
    have hsz : rd32 c.rb.mem p = d.length := by rw [size_at hpp]; exact h.size_head hq (by rw [hpc]; rfl)
    have hco : c.rb.copyOut p d.length = d := copyOut_at h.wpos hpp (h.payload_head hq)
    have e : rstep c = { c with rpc := .rcopy p d.length 0, rbuf := [], lin := c.lin ++ [(.peek, .data (c.rb.copyOut p d.length))] } := by
      unfold rstep Conf.addLin; simp only [hp, hpc, hsz]
    rw [e, hco]
    refine hl.event rfl rfl ?_
    cases hs : c.rb.sem with
    | none =>
      have hsa : semAbs c = none := by simp [semAbs, hs]
      have hsa' : semAbs { c with rpc := .rcopy p d.length 0, rbuf := [], lin := c.lin ++ [(Op.peek, Out.data d)] } = none := by
        simp [semAbs, hs]
      rw [hsa', hq]
      simp [absC, hsa, Fifo.step, Fifo.tryWait]
    | some n =>
      have hsa : semAbs c = some (n + 1) := by simp [semAbs, hs, hpc, rtokOf]
      have hsa' : semAbs { c with rpc := .rcopy p d.length 0, rbuf := [], lin := c.lin ++ [(Op.peek, Out.data d)] } = some n := by
        simp [semAbs, hs, rtokOf]
      rw [hsa', hq]
      simp [absC, hsa, Fifo.step, Fifo.tryWait]
  · -- the caller's copy loop
    rw [hpc] at hrf
    obtain ⟨f, d, ds, rfl, hq, hpp, hsz, hj, hbuf, hf0⟩ := hrf
    have hsil : ∀ c' : Conf, c'.rb = c.rb → c'.lin = c.lin → c'.rprog = c.rprog →
        ((∃ j', c'.rpc = .rcopy p sz j') ∨ c'.rpc = .rcRp) → LinOk f0 c' q := by
      intro c' h1 h2 h3 h4
      refine hl.silent (by rw [h1]) h2 ?_
      unfold semAbs
      rw [h1, h3, hp, hpc]
      rcases h4 with ⟨j', h4⟩ | h4 <;> rw [h4] <;> rfl
    cases f with
    | true =>
      by_cases hlt : j < sz
      · have e : rstep c = { c with rpc := .rcopy p sz (j + min 4 (sz - j)), rbuf := c.rbuf ++ copyOutFrom c.rb p j (min 4 (sz - j)), lin := c.lin } := by
          unfold rstep; simp only [hp, hpc, hlt, if_true]
        rw [e]; exact hsil _ rfl rfl rfl (.inl ⟨_, rfl⟩)
      · have e : rstep c = { c with rpc := .rcRp, rbuf := c.rbuf, lin := c.lin } := by
          unfold rstep; simp only [hp, hpc, hlt, if_true, if_false]
        rw [e]; exact hsil _ rfl rfl rfl (.inr rfl)
    | false =>
      have e : rstep c = { c with rpc := .rcRp, rbuf := c.rb.copyOut p sz, lin := c.lin } := by
        unfold rstep; simp only [hp, hpc]; rfl
      rw [e]; exact hsil _ rfl rfl rfl (.inr rfl)

/-- steps of `_rb_chunk_reclaim` -/
theorem rlin_reclaim (h : CInv c q) (hl : LinOk f0 c q) (hp : c.rprog = op :: rest)
    (hpc : c.rpc = .rcRp ∨ (∃ o, c.rpc = .rcMg o) ∨ (∃ o, c.rpc = .rcSz o) ∨ (∃ o, c.rpc = .rcStep o) ∨
      (∃ o n, c.rpc = .rcClr o n) ∨ ∃ o n, c.rpc = .rcDead o n) : LinOk f0 (rstep c) q := by
  have hrf := RFacts_get hp h.rf
  have hsil : ∀ c' : Conf, c'.rb.W = c.rb.W → c'.rb.sem = c.rb.sem → c'.lin = c.lin → c'.rprog = c.rprog →
      rtokOf c'.rpc (op :: rest) = rtokOf c.rpc (op :: rest) → LinOk f0 c' q := by
    intro c' h1 h2 h3 h4 h5
    refine hl.silent h1 h3 ?_
    unfold semAbs
    rw [h2, h4, hp, h5]
  rcases hpc with hpc | ⟨old, hpc⟩ | ⟨old, hpc⟩ | ⟨old, hpc⟩ | ⟨old, new, hpc⟩ | ⟨old, new, hpc⟩
  · have e : rstep c = { c with rpc := .rcMg c.rb.rp, rbuf := c.rbuf, lin := c.lin } := by
      unfold rstep; simp only [hp, hpc]
    rw [e]; exact hsil _ rfl rfl rfl rfl (by rw [hpc]; rfl)
  · rw [hpc] at hrf
    obtain ⟨d, hrc, hold⟩ := hrf
    obtain ⟨ds, hq⟩ := hrc.1
    have hm : c.rb.magic old = MAGIC :=
      (h.magic_iff hold (by rw [hpc]; rfl) (by rw [hpc]; rfl)).mpr (by rw [hq]; simp)
    have e : rstep c = { c with rpc := .rcSz old, rbuf := c.rbuf, lin := c.lin } := by
      unfold rstep; simp only [hp, hpc, hm, ne_eq, not_true_eq_false, if_false]
    rw [e]; exact hsil _ rfl rfl rfl rfl (by rw [hpc]; rfl)
  · have e : rstep c = { c with rpc := .rcStep old, rbuf := c.rbuf, lin := c.lin } := by
      unfold rstep; simp only [hp, hpc]
    rw [e]; exact hsil _ rfl rfl rfl rfl (by rw [hpc]; rfl)
  · have e : rstep c = { c with rpc := .rcClr old (c.rb.chunkStep old), rbuf := c.rbuf, lin := c.lin } := by
      unfold rstep; simp only [hp, hpc]
    rw [e]; exact hsil _ rfl rfl rfl rfl (by rw [hpc]; rfl)
  · have e : rstep c = { c with rb := { c.rb with mem := wr32 c.rb.mem old 0 }, rpc := .rcDead old new } := by
      unfold rstep; simp only [hp, hpc]
    rw [e]; exact hsil _ rfl rfl rfl rfl (by rw [hpc]; rfl)
  · have e : rstep c = { c with rb := c.rb.setMagic old DEAD, rpc := .rcSetRp new } := by
      unfold rstep; simp only [hp, hpc]
    rw [e]; exact hsil _ rfl rfl rfl rfl (by rw [hpc]; rfl)

/-- the `read_pt` store: the read / the reclaim takes effect -/
theorem rlin_setRp {new} (h : CInv c q) (hl : LinOk f0 c q) (hp : c.rprog = op :: rest)
    (hpc : c.rpc = .rcSetRp new) : ∀ d ds, q = d :: ds → LinOk f0 (rstep c) ds := by
  intro d ds hq
  have hrf := RFacts_get hp h.rf
  rw [hpc] at hrf
  obtain ⟨d', hrc, hnew⟩ := hrf
  obtain ⟨⟨ds', hq'⟩, hbuf, hcap⟩ := hrc
  rw [hq] at hq'
  obtain ⟨rfl, rfl⟩ := List.cons.inj hq'
  have e : rstep c = { c with rb := { c.rb with rp := new }, rpc := .idle, rprog := rest, rbuf := [], rOuts := c.rOuts ++ [.data c.rbuf], readsOk := c.readsOk ++ [c.rbuf], lin := c.lin ++ [match op with | .read cap => (.read cap, .data c.rbuf) | .pr _ => (.reclaim, .unit)] } := by
    unfold rstep Conf.rDone Conf.addLin
    cases op <;> simp only [hp, hpc, List.tail_cons]
  have hW : (rstep c).rb.W = c.rb.W := by rw [e]
  have hidle : (rstep c).rpc = .idle := by rw [e]
  have hsem : (rstep c).rb.sem = c.rb.sem := by rw [e]
  have hsa' : semAbs (rstep c) = c.rb.sem := by
    unfold semAbs; rw [hidle, hsem]; cases c.rb.sem <;> simp [rtokOf]
  cases op with
  | read cap =>
    have hlin : (rstep c).lin = c.lin ++ [(.read cap, .data d)] := by rw [e, hbuf]
    refine hl.event hW hlin ?_
    rw [hsa']
    have hc := hcap cap rfl
    cases hs : c.rb.sem with
    | none =>
      have hsa : semAbs c = none := by simp [semAbs, hs]
      rw [hq]
      simp [absC, hsa, Fifo.step, Fifo.tryWait, Nat.not_lt.mpr hc]
    | some n =>
      have hsa : semAbs c = some (n + 1) := by simp [semAbs, hs, hpc, hp, rtokOf]
      rw [hq]
      simp [absC, hsa, Fifo.step, Fifo.tryWait, Nat.not_lt.mpr hc]
  | pr f =>
    have hlin : (rstep c).lin = c.lin ++ [(.reclaim, .unit)] := by rw [e]
    refine hl.event hW hlin ?_
    rw [hsa']
    have hsa : semAbs c = c.rb.sem := by
      unfold semAbs; rw [hpc, hp]; cases c.rb.sem <;> simp [rtokOf]
    rw [hq]
    simp only [absC, hsa, Fifo.step, List.tail_cons]

/-- **Reader steps and the linearisation history.** -/
theorem rstep_lin (h : CInv c q) (hl : LinOk f0 c q) : ∃ q', CInv (rstep c) q' ∧ LinOk f0 (rstep c) q' := by
  cases hp : c.rprog with
  | nil =>
    have e : rstep c = c := by unfold rstep; simp only [hp]
    rw [e]; exact ⟨q, h, hl⟩
  | cons op rest =>
    cases hpc : c.rpc with
    | idle => exact ⟨q, r_idle h hp hpc, rlin_read h hl hp (.inl hpc)⟩
    | rdRp => exact ⟨q, r_rdRp h hp hpc, rlin_read h hl hp (.inr (.inl hpc))⟩
    | rdMg p => exact ⟨q, r_rdMg h hp hpc, rlin_read h hl hp (.inr (.inr (.inl ⟨p, hpc⟩)))⟩
    | rdBad => exact ⟨q, r_rdBad h hp hpc, rlin_read h hl hp (.inr (.inr (.inr (.inl hpc))))⟩
    | rdSz p => exact ⟨q, r_rdSz h hp hpc, rlin_read h hl hp (.inr (.inr (.inr (.inr (.inl ⟨p, hpc⟩)))))⟩
    | rdShort => exact ⟨q, r_rdShort h hp hpc, rlin_read h hl hp (.inr (.inr (.inr (.inr (.inr (.inl hpc))))))⟩
    | rdCpy p sz => exact ⟨q, r_rdCpy h hp hpc, rlin_read h hl hp (.inr (.inr (.inr (.inr (.inr (.inr ⟨p, sz, hpc⟩))))))⟩
    | pkRp => exact ⟨q, r_pkRp h hp hpc, rlin_peek h hl hp (.inl hpc)⟩
    | pkMg p => exact ⟨q, r_pkMg h hp hpc, rlin_peek h hl hp (.inr (.inl ⟨p, hpc⟩))⟩
    | pkBad => exact ⟨q, r_pkBad h hp hpc, rlin_peek h hl hp (.inr (.inr (.inl hpc)))⟩
    | pkSz p => exact ⟨q, r_pkSz h hp hpc, rlin_peek h hl hp (.inr (.inr (.inr (.inl ⟨p, hpc⟩))))⟩
    | rcopy p sz j => exact ⟨q, r_rcopy h hp hpc, rlin_peek h hl hp (.inr (.inr (.inr (.inr ⟨p, sz, j, hpc⟩))))⟩
    | rcRp => exact ⟨q, r_rcRp h hp hpc, rlin_reclaim h hl hp (.inl hpc)⟩
    | rcMg o => exact ⟨q, r_rcMg h hp hpc, rlin_reclaim h hl hp (.inr (.inl ⟨o, hpc⟩))⟩
    | rcSz o => exact ⟨q, r_rcSz h hp hpc, rlin_reclaim h hl hp (.inr (.inr (.inl ⟨o, hpc⟩)))⟩
    | rcStep o => exact ⟨q, r_rcStep h hp hpc, rlin_reclaim h hl hp (.inr (.inr (.inr (.inl ⟨o, hpc⟩))))⟩
    | rcClr o n => exact ⟨q, r_rcClr h hp hpc, rlin_reclaim h hl hp (.inr (.inr (.inr (.inr (.inl ⟨o, n, hpc⟩)))))⟩
    | rcDead o n => exact ⟨q, r_rcDead h hp hpc, rlin_reclaim h hl hp (.inr (.inr (.inr (.inr (.inr ⟨o, n, hpc⟩)))))⟩
    | rcSetRp n =>
      obtain ⟨d, ds, hq, _, hi⟩ := r_rcSetRp h hp hpc
      exact ⟨ds, hi, rlin_setRp h hl hp hpc d ds hq⟩

end

/-- invariant + linearisation history along every schedule -/
theorem run_lin {f0 : Fifo} {c : Conf} (h : ∃ q, CInv c q ∧ LinOk f0 c q) (sched : List Tid) :
    ∃ q, CInv (run c sched) q ∧ LinOk f0 (run c sched) q := by
  induction sched generalizing c with
  | nil => exact h
  | cons t ts ih =>
    apply ih
    obtain ⟨q, hi, hl⟩ := h
    cases t with
    | w =>
      rcases wstep_lin hi hl with ⟨a, b⟩ | ⟨op, rest, _, a, b⟩
      · exact ⟨q, a, b⟩
      · exact ⟨_, a, b⟩
    | r => exact rstep_lin hi hl

theorem init_lin (rb : Rb) (wprog : List WOp) (rprog : List ROp) :
    LinOk ⟨rb.W, [], rb.sem⟩ (init rb wprog rprog) [] := by
  unfold LinOk absC semAbs init
  simp only [List.map_nil, Fifo.run, rtokOf]
  cases rb.sem <;> rfl

end QbVerif.RingConcLemmas
