/-
Big-step behaviour of the encoder model on well-formed formats (helper lemmas for the round-trip
and alignment theorems of Props/C14.lean): running `serRun` over the characters of one item
(literal run, `%%`, conversion) from a "synchronised" state appends exactly `Item.enc` to the
record if that fits below `max_len`, and otherwise ends in a state from which the final return
value is `≥ max_len` (`SerOver`), which no later character can undo.
-/
import QbVerif.Model.SerSpec
import QbVerif.Lemmas.SerBounds

namespace QbVerif.Ser
open QbVerif.Gen

/-- the record is full / an early `return max_len` happened: the final return value is `≥ max_len` -/
def SerOver (maxLen : Nat) (s : SerSt) : Prop :=
  s.ret = some maxLen ∨ (s.ret = none ∧ maxLen ≤ s.loc)

theorem serFixed_over {maxLen : Nat} {s : SerSt} (size : Nat) (e : Bool) (h : SerOver maxLen s)
    (hr : s.ret = none) : SerOver maxLen (serFixed maxLen s size e) := by
  unfold serFixed
  split
  · exact Or.inl rfl
  · rcases h with h | ⟨_, h⟩
    · rw [hr] at h; cases h
    · exact Or.inr ⟨hr, by simp only; omega⟩

theorem serStep_over (cfg : Cfg) (maxLen : Nat) (s : SerSt) (c : UInt8) (peek : Option UInt8)
    (h : SerOver maxLen s) : SerOver maxLen (serStep cfg maxLen s c peek) := by
  unfold serStep
  split
  · exact h
  rename_i hret
  have hr : s.ret = none := by
    cases hs : s.ret with
    | none => rfl
    | some r => simp [hs] at hret
  have hloc : maxLen ≤ s.loc := by
    rcases h with h | ⟨_, h⟩
    · rw [hr] at h; cases h
    · exact h
  have hkeep : ∀ t : SerSt, t.loc = s.loc → t.ret = s.ret → SerOver maxLen t := by
    intro t hl hrt
    exact Or.inr ⟨by rw [hrt]; exact hr, by rw [hl]; exact hloc⟩
  split
  · exact hkeep _ rfl rfl
  split
  · split <;> exact hkeep _ rfl rfl
  split
  · exact h
  · exact hkeep _ rfl rfl
  · split
    · exact hkeep _ rfl rfl
    · exact h
  · exact serFixed_over _ _ h hr
  · split <;> exact hkeep _ rfl rfl
  · split <;> exact hkeep _ rfl rfl
  · split <;> exact hkeep _ rfl rfl
  · split <;> exact hkeep _ rfl rfl
  · split
    · exact serFixed_over _ _ h hr
    · split <;> exact serFixed_over _ _ h hr
  · exact serFixed_over _ _ h hr
  · exact serFixed_over _ _ h hr
  · -- %s
    split
    · exact Or.inl rfl
    · exact Or.inr ⟨hr, by simp only; omega⟩
  · exact serFixed_over _ _ h hr
  · split
    · exact hkeep _ rfl rfl
    · split
      · exact Or.inl rfl
      · exact Or.inr ⟨hr, by simp only; omega⟩
  · exact hkeep _ rfl rfl

theorem serRun_over (cfg : Cfg) (maxLen : Nat) (s : SerSt) (f : Bytes) (h : SerOver maxLen s) :
    SerOver maxLen (serRun cfg maxLen s f) := by
  induction f generalizing s with
  | nil => exact h
  | cons c rest ih => exact ih _ (serStep_over cfg maxLen s c _ h)

/-! ### synchronised states -/

/-- between two items: text mode, nothing pending, the record so far is `out`, `rest` still to be read -/
structure SerSync (s : SerSt) (out : Bytes) (rest : List Arg) : Prop where
  ret : s.ret = none
  dir : s.inDir = false
  skip : s.skip = false
  data : s.buf.data = out
  loc : s.loc = out.length
  args : s.args = rest

/-- inside a conversion -/
structure SerDir (s : SerSt) (out : Bytes) (rest : List Arg) (slen : Nat) (sprec tl tll : Bool) : Prop where
  ret : s.ret = none
  dir : s.inDir = true
  skip : s.skip = false
  data : s.buf.data = out
  loc : s.loc = out.length
  args : s.args = rest
  slen : s.slen = slen
  sprec : s.sprec = sprec
  tl : s.tl = tl
  tll : s.tll = tll

theorem Buf.store_end (b : Buf) (bs : Bytes) : (b.store b.data.length bs).data = b.data ++ bs := by
  unfold Buf.store
  split
  · rename_i he
    simp only [List.isEmpty_iff] at he
    simp [he]
  · simp [writeAt]

abbrev R := Cfg.repaired

theorem serRun_cons (maxLen : Nat) (s : SerSt) (c : UInt8) (rest : Bytes) :
    serRun R maxLen s (c :: rest) = serRun R maxLen (serStep R maxLen s c rest.head?) rest := rfl

/-- literal text: nothing happens -/
theorem serRun_lit (maxLen : Nat) (s : SerSt) (out : Bytes) (rest : List Arg) (bs tail : Bytes)
    (h : SerSync s out rest) (hb : ∀ c ∈ bs, c ≠ 0x25) :
    serRun R maxLen s (bs ++ tail) = serRun R maxLen s tail := by
  induction bs with
  | nil => rfl
  | cons c cs ih =>
    have hc : c ≠ 0x25 := hb c (by simp)
    have : serStep R maxLen s c (cs ++ tail).head? = s := by
      simp [serStep, h.ret, h.skip, h.dir, hc]
    rw [List.cons_append, serRun_cons, this]
    exact ih (fun c hc' => hb c (by simp [hc']))

/-- the '%' that opens a conversion -/
theorem serStep_enter (maxLen : Nat) (s : SerSt) (out : Bytes) (rest : List Arg) (pk : Option UInt8)
    (h : SerSync s out rest) : SerDir (serStep R maxLen s 0x25 pk) out rest 0 false false false := by
  have : serStep R maxLen s 0x25 pk = { s with inDir := true, tl := false, tll := false, slen := 0, sprec := false } := by
    simp [serStep, h.ret, h.skip, h.dir, R, Cfg.repaired]
  rw [this]
  exact ⟨h.ret, rfl, h.skip, h.data, h.loc, h.args, rfl, rfl, rfl, rfl⟩

/-- "%%": nothing is stored -/
theorem serRun_pct (maxLen : Nat) (s : SerSt) (out : Bytes) (rest : List Arg) (tail : Bytes)
    (h : SerSync s out rest) :
    ∃ s', serRun R maxLen s (0x25 :: 0x25 :: tail) = serRun R maxLen s' tail ∧ SerSync s' out rest := by
  have h1 := serStep_enter maxLen s out rest (some 0x25) h
  refine ⟨serStep R maxLen (serStep R maxLen s 0x25 (some 0x25)) 0x25 tail.head?, rfl, ?_⟩
  generalize serStep R maxLen s 0x25 (some 0x25) = s1 at h1
  have hcls : classify 0x25 = .pct := by decide
  have : serStep R maxLen s1 0x25 tail.head? = { s1 with slen := 0, sprec := false, inDir := false } := by
    simp [serStep, h1.ret, h1.skip, h1.dir, hcls, R, Cfg.repaired]
  rw [this]
  exact ⟨h1.ret, rfl, h1.skip, h1.data, h1.loc, h1.args⟩

/-- flag and width characters before any '.' do nothing -/
theorem serRun_pre (maxLen : Nat) (s : SerSt) (out : Bytes) (rest : List Arg) (sl : Nat) (tl tll : Bool)
    (pre tail : Bytes) (h : SerDir s out rest sl false tl tll) (hp : ∀ c ∈ pre, isCopyChar c = true) :
    serRun R maxLen s (pre ++ tail) = serRun R maxLen s tail := by
  induction pre with
  | nil => rfl
  | cons c cs ih =>
    have hc := hp c (by simp)
    have : serStep R maxLen s c (cs ++ tail).head? = s := by
      unfold isCopyChar at hc
      simp only [Bool.or_eq_true, beq_iff_eq] at hc
      rcases hc with hc | hc <;> simp [serStep, h.ret, h.skip, h.dir, hc, h.sprec]
    rw [List.cons_append, serRun_cons, this]
    exact ih (fun c hc' => hp c (by simp [hc']))

theorem serFixed_ok (maxLen : Nat) (s : SerSt) (size : Nat) (e : Bool) (out : Bytes) (hd : s.buf.data = out)
    (hl : s.loc = out.length) (hfit : out.length + size ≤ maxLen) :
    (serFixed maxLen s size e).ret = s.ret ∧
    (serFixed maxLen s size e).buf.data = out ++ le size (popSlot s.args).1 ∧
    (serFixed maxLen s size e).loc = out.length + size ∧
    (serFixed maxLen s size e).args = (popSlot s.args).2 ∧
    (serFixed maxLen s size e).inDir = (if e then false else s.inDir) ∧
    (serFixed maxLen s size e).skip = s.skip ∧ (serFixed maxLen s size e).slen = s.slen ∧
    (serFixed maxLen s size e).sprec = s.sprec ∧ (serFixed maxLen s size e).tl = s.tl ∧
    (serFixed maxLen s size e).tll = s.tll := by
  unfold serFixed
  split
  · rename_i h; omega
  · refine ⟨rfl, ?_, by simp only; omega, rfl, rfl, rfl, rfl, rfl, rfl, rfl⟩
    simp only [hl, ← hd]
    exact Buf.store_end _ _

theorem serFixed_fail (maxLen : Nat) (s : SerSt) (size : Nat) (e : Bool) (h : s.loc + size > maxLen) :
    (serFixed maxLen s size e).ret = some maxLen := by
  unfold serFixed
  simp only [h, if_true]

/-- `*`: the int is stored if it fits … -/
theorem serStep_star_ok (maxLen : Nat) (s : SerSt) (out : Bytes) (a : Arg) (rest : List Arg) (sl : Nat)
    (sp tl tll : Bool) (pk : Option UInt8) (h : SerDir s out (a :: rest) sl sp tl tll)
    (hfit : out.length + SIZEOF_INT ≤ maxLen) :
    SerDir (serStep R maxLen s 0x2a pk) (out ++ le SIZEOF_INT a.slot) rest sl sp tl tll := by
  have hcls : classify 0x2a = .star := by decide
  have : serStep R maxLen s 0x2a pk = serFixed maxLen s SIZEOF_INT false := by
    simp [serStep, h.ret, h.skip, h.dir, hcls]
  rw [this]
  obtain ⟨f1, f2, f3, f4, f5, f6, f7, f8, f9, f10⟩ := serFixed_ok maxLen s SIZEOF_INT false out h.data h.loc hfit
  simp only [h.args, popSlot] at f2 f4
  exact ⟨f1.trans h.ret, by rw [f5]; simpa using h.dir, f6.trans h.skip, f2, by rw [f3]; simp [le_length], f4,
    f7.trans h.slen, f8.trans h.sprec, f9.trans h.tl, f10.trans h.tll⟩

/-- … and otherwise the function returns `max_len` -/
theorem serStep_star_fail (maxLen : Nat) (s : SerSt) (out : Bytes) (rest : List Arg) (sl : Nat)
    (sp tl tll : Bool) (pk : Option UInt8) (h : SerDir s out rest sl sp tl tll)
    (hfit : ¬ out.length + SIZEOF_INT ≤ maxLen) : SerOver maxLen (serStep R maxLen s 0x2a pk) := by
  have hcls : classify 0x2a = .star := by decide
  have : serStep R maxLen s 0x2a pk = serFixed maxLen s SIZEOF_INT false := by
    simp [serStep, h.ret, h.skip, h.dir, hcls]
  rw [this]
  exact Or.inl (serFixed_fail _ _ _ _ (by rw [h.loc]; omega))

theorem serStep_dot (maxLen : Nat) (s : SerSt) (out : Bytes) (rest : List Arg) (sl : Nat)
    (sp tl tll : Bool) (pk : Option UInt8) (h : SerDir s out rest sl sp tl tll) :
    SerDir (serStep R maxLen s 0x2e pk) out rest sl true tl tll := by
  have hcls : classify 0x2e = .dot := by decide
  have : serStep R maxLen s 0x2e pk = { s with sprec := true } := by
    simp [serStep, h.ret, h.skip, h.dir, hcls]
  rw [this]
  exact ⟨h.ret, h.dir, h.skip, h.data, h.loc, h.args, h.slen, rfl, h.tl, h.tll⟩

/-- precision digits accumulate in `sformat_length` -/
theorem serRun_digits (maxLen : Nat) (ds tail : Bytes) (s : SerSt) (out : Bytes) (rest : List Arg) (sl : Nat)
    (tl tll : Bool) (h : SerDir s out rest sl true tl tll) (hd : ∀ c ∈ ds, classify c = .digit) :
    ∃ s', serRun R maxLen s (ds ++ tail) = serRun R maxLen s' tail ∧
      SerDir s' out rest (ds.foldl (fun acc c => acc * 10 + (c.toNat - 0x30)) sl) true tl tll := by
  induction ds generalizing s sl with
  | nil => exact ⟨s, rfl, h⟩
  | cons c cs ih =>
    have hc := hd c (by simp)
    have hs : serStep R maxLen s c (cs ++ tail).head? = { s with slen := s.slen * 10 + (c.toNat - 0x30) } := by
      simp [serStep, h.ret, h.skip, h.dir, hc, h.sprec]
    have h1 : SerDir (serStep R maxLen s c (cs ++ tail).head?) out rest (sl * 10 + (c.toNat - 0x30)) true tl tll := by
      rw [hs]
      exact ⟨h.ret, h.dir, h.skip, h.data, h.loc, h.args, by simp [h.slen], h.sprec, h.tl, h.tll⟩
    obtain ⟨s', e, hs'⟩ := ih _ _ h1 (fun c hc' => hd c (by simp [hc']))
    exact ⟨s', by rw [List.cons_append, serRun_cons, e], by simpa [List.foldl_cons] using hs'⟩

def modTl : LenMod → Bool
  | .l => true
  | _ => false

def modTll : LenMod → Bool
  | .ll | .z | .t | .j => true
  | _ => false

/-- the length modifier sets `type_long` / `type_longlong` -/
theorem serRun_mod (maxLen : Nat) (m : LenMod) (conv : UInt8) (tail : Bytes) (s : SerSt) (out : Bytes)
    (rest : List Arg) (sl : Nat) (sp : Bool) (h : SerDir s out rest sl sp false false) (hconv : conv ≠ 0x6c) :
    ∃ s', serRun R maxLen s (modChars m ++ (conv :: tail)) = serRun R maxLen s' (conv :: tail) ∧
      SerDir s' out rest sl sp (modTl m) (modTll m) := by
  cases m with
  | none => exact ⟨s, rfl, h⟩
  | l =>
    have hcls : classify 0x6c = .modL := by decide
    refine ⟨serStep R maxLen s 0x6c (some conv), rfl, ?_⟩
    have : serStep R maxLen s 0x6c (some conv) = { s with tl := true } := by
      simp [serStep, h.ret, h.skip, h.dir, hcls, hconv]
    rw [this]
    exact ⟨h.ret, h.dir, h.skip, h.data, h.loc, h.args, h.slen, h.sprec, rfl, h.tll⟩
  | ll =>
    have hcls : classify 0x6c = .modL := by decide
    refine ⟨serStep R maxLen (serStep R maxLen s 0x6c (some 0x6c)) 0x6c (some conv), rfl, ?_⟩
    have e1 : serStep R maxLen s 0x6c (some 0x6c) = { s with tl := false, tll := true, skip := true } := by
      simp [serStep, h.ret, h.skip, h.dir, hcls]
    rw [e1]
    have e2 : serStep R maxLen { s with tl := false, tll := true, skip := true } 0x6c (some conv)
        = { s with tl := false, tll := true, skip := false } := by
      simp [serStep, h.ret]
    rw [e2]
    exact ⟨h.ret, h.dir, rfl, h.data, h.loc, h.args, h.slen, h.sprec, rfl, rfl⟩
  | z =>
    have hcls : classify 0x7a = .modZ := by decide
    refine ⟨serStep R maxLen s 0x7a (some conv), rfl, ?_⟩
    have : serStep R maxLen s 0x7a (some conv) = { s with tll := true } := by
      simp [serStep, h.ret, h.skip, h.dir, hcls, zIsLL, SIZEOF_SIZE_T, SIZEOF_LLONG]
    rw [this]
    exact ⟨h.ret, h.dir, h.skip, h.data, h.loc, h.args, h.slen, h.sprec, h.tl, rfl⟩
  | t =>
    have hcls : classify 0x74 = .modT := by decide
    refine ⟨serStep R maxLen s 0x74 (some conv), rfl, ?_⟩
    have : serStep R maxLen s 0x74 (some conv) = { s with tll := true } := by
      simp [serStep, h.ret, h.skip, h.dir, hcls, tIsLL, SIZEOF_PTRDIFF, SIZEOF_LLONG]
    rw [this]
    exact ⟨h.ret, h.dir, h.skip, h.data, h.loc, h.args, h.slen, h.sprec, h.tl, rfl⟩
  | j =>
    have hcls : classify 0x6a = .modJ := by decide
    refine ⟨serStep R maxLen s 0x6a (some conv), rfl, ?_⟩
    have : serStep R maxLen s 0x6a (some conv) = { s with tll := true } := by
      simp [serStep, h.ret, h.skip, h.dir, hcls, jIsLL, SIZEOF_INTMAX, SIZEOF_LLONG]
    rw [this]
    exact ⟨h.ret, h.dir, h.skip, h.data, h.loc, h.args, h.slen, h.sprec, h.tl, rfl⟩

/-- what the run over `X ++ tail` has to achieve: append `enc` if it fits, be over otherwise -/
def SerGoal (maxLen : Nat) (s : SerSt) (out X enc : Bytes) (rest : List Arg) (tail : Bytes) : Prop :=
  (out.length + enc.length ≤ maxLen →
    ∃ s', serRun R maxLen s (X ++ tail) = serRun R maxLen s' tail ∧ SerSync s' (out ++ enc) rest) ∧
  (¬ out.length + enc.length ≤ maxLen → SerOver maxLen (serRun R maxLen s (X ++ tail)))

/-- a fixed-size store that ends the conversion -/
theorem serGoal_fixed (maxLen : Nat) (s : SerSt) (out : Bytes) (v : Arg) (rest : List Arg) (sl : Nat)
    (sp tl tll : Bool) (c : UInt8) (size : Nat) (tail : Bytes)
    (h : SerDir s out (v :: rest) sl sp tl tll)
    (hstep : ∀ pk, serStep R maxLen s c pk = serFixed maxLen s size true) :
    SerGoal maxLen s out [c] (le size v.slot) rest tail := by
  constructor
  · intro hfit
    rw [le_length] at hfit
    refine ⟨serStep R maxLen s c tail.head?, rfl, ?_⟩
    rw [hstep]
    obtain ⟨f1, f2, f3, f4, f5, f6, _⟩ := serFixed_ok maxLen s size true out h.data h.loc hfit
    simp only [h.args, popSlot] at f2 f4
    exact ⟨f1.trans h.ret, by rw [f5]; rfl, f6.trans h.skip, f2, by rw [f3]; simp [le_length], f4⟩
  · intro hfit
    rw [le_length] at hfit
    show SerOver maxLen (serRun R maxLen (serStep R maxLen s c tail.head?) tail)
    apply serRun_over
    rw [hstep]
    exact Or.inl (serFixed_fail _ _ _ _ (by rw [h.loc]; omega))

/-- composition: a `*` in front of the rest of a conversion -/
theorem serGoal_star (maxLen : Nat) (s : SerSt) (out : Bytes) (a : Arg) (rest' : List Arg) (sl : Nat)
    (sp tl tll : Bool) (X enc : Bytes) (rest : List Arg) (tail : Bytes)
    (h : SerDir s out (a :: rest') sl sp tl tll)
    (hk : ∀ s1, SerDir s1 (out ++ le SIZEOF_INT a.slot) rest' sl sp tl tll →
      SerGoal maxLen s1 (out ++ le SIZEOF_INT a.slot) X enc rest tail) :
    SerGoal maxLen s out (0x2a :: X) (le SIZEOF_INT a.slot ++ enc) rest tail := by
  by_cases h4 : out.length + SIZEOF_INT ≤ maxLen
  · have h1 := serStep_star_ok maxLen s out a rest' sl sp tl tll (X ++ tail).head? h h4
    obtain ⟨g1, g2⟩ := hk _ h1
    constructor
    · intro hfit
      obtain ⟨s', e, hs'⟩ := g1 (by simp only [List.length_append, le_length] at hfit ⊢; omega)
      exact ⟨s', by rw [List.cons_append, serRun_cons, e], by simpa [List.append_assoc] using hs'⟩
    · intro hfit
      rw [List.cons_append, serRun_cons]
      exact g2 (by simp only [List.length_append, le_length] at hfit ⊢; omega)
  · constructor
    · intro hfit
      simp only [List.length_append, le_length] at hfit
      omega
    · intro _
      rw [List.cons_append, serRun_cons]
      exact serRun_over _ _ _ _ (serStep_star_fail maxLen s out _ sl sp tl tll _ h h4)

/-- length the encoder keeps of a `%s` argument, given `sformat_length` -/
def strKeep (sl : Nat) (p : Option Bytes) : Nat := min (strN sl p - 1) (strSrc p).length

theorem serGoal_str (maxLen : Nat) (s : SerSt) (out : Bytes) (v : Arg) (rest : List Arg) (sl : Nat)
    (sp tl tll : Bool) (c : UInt8) (tail : Bytes) (h : SerDir s out (v :: rest) sl sp tl tll)
    (hcls : classify c = .strc) :
    SerGoal maxLen s out [c] ((strSrc v.asStr).take (strKeep sl v.asStr) ++ [0]) rest tail := by
  have hX : 1 ≤ strN sl v.asStr := by
    unfold strN; split
    · omega
    · split <;> omega
  have hT : strKeep sl v.asStr ≤ (strSrc v.asStr).length := Nat.min_le_right _ _
  have hlen : ((strSrc v.asStr).take (strKeep sl v.asStr) ++ [0]).length = strKeep sl v.asStr + 1 := by
    simp only [List.length_append, List.length_take, List.length_singleton]; omega
  have hpop : popStr s.args = (v.asStr, rest) := by rw [h.args]; rfl
  constructor
  · intro hfit
    rw [hlen] at hfit
    refine ⟨serStep R maxLen s c tail.head?, rfl, ?_⟩
    have hlt : ¬ (s.loc ≥ maxLen) := by rw [h.loc]; omega
    have hroom : subSz maxLen s.loc = maxLen - s.loc := subSz_of_le (by omega)
    have hstep : serStep R maxLen s c tail.head? =
        { s with buf := (myStrlcpy s.buf s.loc (strSrc v.asStr) (min (strN sl v.asStr) (maxLen - s.loc))).1,
                 loc := s.loc + (myStrlcpy s.buf s.loc (strSrc v.asStr) (min (strN sl v.asStr) (maxLen - s.loc))).2 + 1,
                 args := rest, inDir := false } := by
      simp [serStep, h.ret, h.skip, h.dir, hcls, hpop, hlt, hroom, h.slen]
    rw [hstep]
    have hn : ¬ (min (strN sl v.asStr) (maxLen - s.loc) = 0) := by rw [h.loc]; omega
    have hk : min (min (strN sl v.asStr) (maxLen - s.loc) - 1) (strSrc v.asStr).length = strKeep sl v.asStr := by
      unfold strKeep at hfit hT ⊢; rw [h.loc]; omega
    have hsub : subSz (min (strN sl v.asStr) (maxLen - s.loc)) 1 = min (strN sl v.asStr) (maxLen - s.loc) - 1 :=
      subSz_of_le (by rw [h.loc]; omega)
    refine ⟨h.ret, rfl, h.skip, ?_, ?_, rfl⟩
    · simp only [myStrlcpy, hn, if_false, hk]
      rw [h.loc, ← h.data]
      exact Buf.store_end _ _
    · simp only [myStrlcpy, hsub, List.length_append, hlen]
      unfold strKeep at hfit hT ⊢
      rw [h.loc]; omega
  · intro hfit
    rw [hlen] at hfit
    show SerOver maxLen (serRun R maxLen (serStep R maxLen s c tail.head?) tail)
    apply serRun_over
    by_cases hge : s.loc ≥ maxLen
    · have hstep : serStep R maxLen s c tail.head? = { s with args := rest, ret := some maxLen } := by
        simp [serStep, h.ret, h.skip, h.dir, hcls, hpop, hge, R, Cfg.repaired]
      rw [hstep]
      exact Or.inl rfl
    · have hroom : subSz maxLen s.loc = maxLen - s.loc := subSz_of_le (by omega)
      have hstep : serStep R maxLen s c tail.head? =
          { s with buf := (myStrlcpy s.buf s.loc (strSrc v.asStr) (min (strN sl v.asStr) (maxLen - s.loc))).1,
                   loc := s.loc + (myStrlcpy s.buf s.loc (strSrc v.asStr) (min (strN sl v.asStr) (maxLen - s.loc))).2 + 1,
                   args := rest, inDir := false } := by
        simp [serStep, h.ret, h.skip, h.dir, hcls, hpop, hge, hroom, h.slen]
      rw [hstep]
      have hsub : subSz (min (strN sl v.asStr) (maxLen - s.loc)) 1 = min (strN sl v.asStr) (maxLen - s.loc) - 1 :=
        subSz_of_le (by omega)
      refine Or.inr ⟨h.ret, ?_⟩
      simp only [myStrlcpy, hsub]
      unfold strKeep at hfit hT
      have := h.loc
      omega

end QbVerif.Ser
