/-
C13, "follows the format spec": the SPECIFICATION of a formatted log line, independent of buffers and
indices, and the pure (list-level) lemmas about it.

  `render fmt fields`        the documented directive table applied to the whole format string
  `renderStatic fmt sfields` the same for the static pass of qb_log_format_set (%N %P %H)
  `specLine M ell r`         the line a target with max_line_length `M` shows for the rendering `r`
  `csSpec maxlen e`          the message cs_format leaves for the printf expansion `e`

and the exact description of what the loops append when the rendering does not fit (`gCut`), which is
`(render …).take room` except in one class (`gStraddle`): a right-aligned padded field that crosses
the limit is right-aligned in the room that is left instead of being cut.
-/
import QbVerif.Model.LogFormat
import QbVerif.Lemmas.LogFormat

namespace QbVerif.LogFormat
open QbVerif.Gen

/-! ## specification -/

def blanks (n : Nat) : Bytes := List.replicate n 32

/-- the value padded with blanks, or chopped at its end, to exactly `w` bytes; `ralign`: the blanks
    go in front -/
def padTo (src : Bytes) (w : Nat) (ralign : Bool) : Bytes :=
  let n := min src.length w
  if ralign then blanks (w - n) ++ src.take n else src.take n ++ blanks (w - n)

/-- `%[-][width]X`: no width (or width 0) = the value as it is; otherwise pad or chop to the width -/
def fieldText (src : Bytes) (w : Nat) (ralign : Bool) : Bytes :=
  padTo src (if w = 0 then src.length else w) ralign

/-- the documented directive table of qb_log_format_set (include/qb/qblog.h):
    %n function, %f file name, %l line, %p priority name, %t / %T timestamps, %b message, %g tags;
    every other letter (and a format that ends inside the directive) expands to nothing -/
def specValue (fl : Fields) : Option Nat → Bytes
  | none => []
  | some c =>
    if c = 'n'.toNat then fl.fn
    else if c = 'f'.toNat then (if LOG_BUILDING_IN_PLACE = 1 then fl.file else basename fl.file)
    else if c = 'l'.toNat then decimal (fl.line % 2 ^ 32)
    else if c = 'p'.toNat then prioName (fl.prio % 256)
    else if c = 't'.toNat then fl.t
    else if c = 'T'.toNat then fl.tT
    else if c = 'b'.toNat then fl.msg
    else if c = 'g'.toNat then fl.tags.getD []
    else []

/-- the decimal number between `%` and the letter -/
def specWidth (digits : List Nat) : Nat := digits.foldl (fun a d => a * 10 + (d - 48)) 0

def Item.render (fl : Fields) : Item → Bytes
  | .lit c => [c]
  | .dir ralign digits ch => fieldText (specValue fl ch) (cutoffOf digits) ralign

def renderItems (fl : Fields) : List Item → Bytes
  | [] => []
  | it :: rest => it.render fl ++ renderItems fl rest

/-- **the rendering of a format**: literal text copied, every directive replaced by its field -/
def render (fmt : Bytes) (fl : Fields) : Bytes := renderItems fl (tokenize .lit fmt)

/-- static pass: %P pid, %N name, %H host name are expanded; every other directive is copied
    verbatim for the per-message pass (a format ending inside a directive gets one blank appended) -/
def Item.renderStatic (sf : SFields) : Item → Bytes
  | .lit c => [c]
  | .dir ralign digits ch =>
    match ch with
    | none => (Item.dir ralign digits none).src ++ [32]
    | some c =>
      if c = 'P'.toNat then fieldText (decimalInt sf.pid) (cutoffOf digits) ralign
      else if c = 'N'.toNat then fieldText sf.name (cutoffOf digits) ralign
      else if c = 'H'.toNat then fieldText (hostText sf.host) (cutoffOf digits) ralign
      else (Item.dir ralign digits (some c)).src

def renderStaticItems (sf : SFields) : List Item → Bytes
  | [] => []
  | it :: rest => it.renderStatic sf ++ renderStaticItems sf rest

def renderStatic (fmt : Bytes) (sf : SFields) : Bytes := renderStaticItems sf (tokenize .lit fmt)

/-- the line shown for a rendering `r` by a target with `max_line_length = M`: cut to `M - 1` bytes;
    with the ellipsis option, when the rendering has `M - 1` bytes OR MORE (the code cannot tell a
    rendering that fits exactly from one that was cut) the last three bytes are `...`; otherwise one
    newline at the end of the (cut) text is dropped -/
def specLine (M : Nat) (ell : Bool) (r : Bytes) : Bytes :=
  if ell && decide (M - 1 ≤ r.length) then r.take (M - 4) ++ [46, 46, 46]
  else if (r.take (M - 1)).getLast? = some 10 then (r.take (M - 1)).dropLast else r.take (M - 1)

/-- the same read literally from the property text ("marked with an ellipsis when truncated") -/
def strictLine (M : Nat) (ell : Bool) (r : Bytes) : Bytes :=
  if ell && decide (M - 1 < r.length) then r.take (M - 4) ++ [46, 46, 46]
  else if (r.take (M - 1)).getLast? = some 10 then (r.take (M - 1)).dropLast else r.take (M - 1)

/-- cs_format: the expansion cut to `maxlen - 1` bytes; one trailing newline of an expansion that
    fits is dropped -/
def csSpec (maxlen : Nat) (e : Bytes) : Bytes :=
  if e.length < maxlen then (if e.getLast? = some 10 then e.dropLast else e) else e.take (maxlen - 1)

/-! ## what the loops append: generic over the `switch` -/

/-- string, cutoff and alignment handed to `_strcpy_cutoff` for a directive (`rest` = items after it) -/
abbrev ArgFn := Bool → List Nat → Option Nat → List Item → Bytes × Nat × Bool

def fmtArg (fl : Fields) : ArgFn := fun r ds ch _ => (expansion fl ch, cutoffOf ds, r)

/-- `if (cutoff == 0) cutoff = len;` -/
def argWidth (a : Bytes × Nat × Bool) : Nat := if a.2.1 = 0 then a.1.length else a.2.1

/-- bytes appended by a format loop that starts with `R` bytes of room (`max_line_length - 1 - idx`) -/
def gCut (arg : ArgFn) : List Item → Nat → Bytes
  | [], _ => []
  | .lit c :: rest, R => if R = 0 then [] else c :: gCut arg rest (R - 1)
  | .dir r ds ch :: rest, R =>
    if R = 0 then [] else
      padTo (arg r ds ch rest).1 (min (argWidth (arg r ds ch rest)) R) (arg r ds ch rest).2.2 ++
        (match ch with
         | none => []
         | some _ => gCut arg rest (R - min (argWidth (arg r ds ch rest)) R))

def gRender (arg : ArgFn) : List Item → Bytes
  | [] => []
  | .lit c :: rest => c :: gRender arg rest
  | .dir r ds ch :: rest =>
    padTo (arg r ds ch rest).1 (argWidth (arg r ds ch rest)) (arg r ds ch rest).2.2 ++ gRender arg rest

/-- the class in which the loops do NOT produce a prefix of the rendering: a right-aligned field,
    padded (value non-empty and shorter than the width), that starts inside the room and ends beyond it -/
def gStraddle (arg : ArgFn) : List Item → Nat → Bool
  | [], _ => false
  | .lit _ :: rest, R => if R = 0 then false else gStraddle arg rest (R - 1)
  | .dir r ds ch :: rest, R =>
    if R = 0 then false
    else if argWidth (arg r ds ch rest) ≤ R then gStraddle arg rest (R - argWidth (arg r ds ch rest))
    else (arg r ds ch rest).2.2 && decide ((arg r ds ch rest).1.length < argWidth (arg r ds ch rest))
          && !(arg r ds ch rest).1.isEmpty

/-- a format can end inside a directive only at its end -/
def NoneLast : List Item → Prop
  | [] => True
  | .dir _ _ none :: rest => rest = []
  | _ :: rest => NoneLast rest

theorem tokenize_noneLast : ∀ (fmt : Bytes) (mode : Mode), NoneLast (tokenize mode fmt) := by
  intro fmt
  induction fmt with
  | nil => intro mode; cases mode <;> simp [tokenize, NoneLast]
  | cons c cs ih =>
    intro mode
    cases mode with
    | lit =>
      simp only [tokenize]
      split
      · exact ih _
      · exact ih _
    | pct =>
      simp only [tokenize]
      split
      · exact ih _
      · split
        · exact ih _
        · exact ih _
    | dig r acc =>
      simp only [tokenize]
      split
      · exact ih _
      · exact ih _

/-! ## the scanner loses nothing: the items, written back, are the format -/

def modePrefix : Mode → Bytes
  | .lit => []
  | .pct => [37]
  | .dig r acc => 37 :: ((if r then [45] else []) ++ acc)

/-- a format is cut into literal bytes and stretches `%[-]digits*X`; concatenating the stretches
    gives the format back (so `render` replaces each stretch of the format and nothing else) -/
theorem detok_tokenize : ∀ (fmt : Bytes) (mode : Mode), detok (tokenize mode fmt) = modePrefix mode ++ fmt := by
  intro fmt
  induction fmt with
  | nil => intro mode; cases mode <;> simp [tokenize, detok, Item.src, modePrefix]
  | cons c cs ih =>
    intro mode
    cases mode with
    | lit =>
      simp only [tokenize]
      split
      · subst_vars; rw [ih]; simp [modePrefix]
      · simp [detok, Item.src, ih, modePrefix]
    | pct =>
      simp only [tokenize]
      split
      · subst_vars; rw [ih]; simp [modePrefix]
      · split
        · rw [ih]; simp [modePrefix]
        · simp [detok, Item.src, ih, modePrefix]
    | dig r acc =>
      simp only [tokenize]
      split
      · rw [ih]; simp [modePrefix]
      · simp [detok, Item.src, ih, modePrefix]

/-- shape of the items: a literal is not `%`, the width consists of digits, the letter is not a digit -/
def Item.Wf : Item → Prop
  | .lit c => c ≠ 37
  | .dir _ ds ch => (∀ d ∈ ds, isDigit d = true) ∧ ∀ c, ch = some c → isDigit c = false

def Mode.Wf : Mode → Prop
  | .dig _ acc => ∀ d ∈ acc, isDigit d = true
  | _ => True

theorem tokenize_wf : ∀ (fmt : Bytes) (mode : Mode), mode.Wf → ∀ it ∈ tokenize mode fmt, it.Wf := by
  intro fmt
  induction fmt with
  | nil =>
    intro mode hm it hit
    cases mode with
    | lit => simp [tokenize] at hit
    | pct => simp [tokenize] at hit; subst hit; simp [Item.Wf]
    | dig r acc => simp [tokenize] at hit; subst hit; exact ⟨hm, by simp⟩
  | cons c cs ih =>
    intro mode hm it hit
    cases mode with
    | lit =>
      simp only [tokenize] at hit
      split at hit
      · exact ih .pct trivial it hit
      · rename_i hc
        rcases List.mem_cons.1 hit with h | h
        · subst h; exact hc
        · exact ih .lit trivial it h
    | pct =>
      simp only [tokenize] at hit
      split at hit
      · exact ih (.dig true []) (by simp [Mode.Wf]) it hit
      · split at hit
        · rename_i hd
          exact ih (.dig false [c]) (by simpa [Mode.Wf] using hd) it hit
        · rename_i hd
          rcases List.mem_cons.1 hit with h | h
          · subst h; exact ⟨by simp, by simpa using hd⟩
          · exact ih .lit trivial it h
    | dig r acc =>
      simp only [tokenize] at hit
      split at hit
      · rename_i hd
        refine ih (.dig r (acc ++ [c])) ?_ it hit
        intro d hdm
        rcases List.mem_append.1 hdm with h | h
        · exact hm d h
        · simp at h; subst h; exact hd
      · rename_i hd
        rcases List.mem_cons.1 hit with h | h
        · subst h; exact ⟨hm, by simpa using hd⟩
        · exact ih .lit trivial it h

/-! ## `padTo` -/

@[simp] theorem blanks_length (n : Nat) : (blanks n).length = n := by simp [blanks]

@[simp] theorem padTo_length (src : Bytes) (w : Nat) (r : Bool) : (padTo src w r).length = w := by
  unfold padTo
  cases r <;> simp [List.length_take] <;> omega

theorem take_blanks (n k : Nat) : (blanks n).take k = blanks (min k n) := by
  simp [blanks, List.take_replicate]

/-- cutting a padded field: a prefix of the field, unless the field is right-aligned with blanks
    in front of a non-empty value -/
theorem padTo_take (src : Bytes) (w R : Nat) (r : Bool) (hR : R < w)
    (h : ¬ (r = true ∧ src.length < w ∧ src ≠ [])) : (padTo src w r).take R = padTo src R r := by
  cases r with
  | false =>
    simp only [padTo, Bool.false_eq_true, if_false]
    by_cases hl : R ≤ src.length
    · have h1 : min src.length R = R := by omega
      have h2 : R ≤ min src.length w := by omega
      rw [List.take_append_of_le_length (by simp [List.length_take]; omega), List.take_take, h1]
      simp [blanks]; omega
    · have h1 : min src.length R = src.length := by omega
      have h2 : min src.length w = src.length := by omega
      rw [h1, h2, List.take_length, List.take_append, List.take_of_length_le (by omega), take_blanks]
      congr 2; omega
  | true =>
    simp only [padTo, if_true]
    by_cases hs : src = []
    · subst hs
      simp [blanks]; omega
    · have hl : w ≤ src.length := by
        by_cases hw : src.length < w
        · exact absurd ⟨rfl, hw, hs⟩ h
        · omega
      have h1 : min src.length R = R := by omega
      have h2 : min src.length w = w := by omega
      rw [h1, h2]
      simp [blanks, List.take_take]; omega

/-! ## `gCut` against `gRender` -/

@[simp] theorem gCut_zero (arg : ArgFn) (items : List Item) : gCut arg items 0 = [] := by
  cases items with
  | nil => rfl
  | cons it rest => cases it <;> simp [gCut]

theorem gCut_length_le (arg : ArgFn) : ∀ (items : List Item) (R : Nat), (gCut arg items R).length ≤ R := by
  intro items
  induction items with
  | nil => intro R; simp [gCut]
  | cons it rest ih =>
    intro R
    cases it with
    | lit c =>
      simp only [gCut]; split
      · simp
      · have := ih (R - 1); simp; omega
    | dir r ds ch =>
      simp only [gCut]; split
      · simp
      · cases ch with
        | none => simp; omega
        | some c =>
          have := ih (R - min (argWidth (arg r ds (some c) rest)) R)
          simp only [List.length_append, padTo_length]; omega

/-- the loops fill the room exactly when the rendering has at least that many bytes -/
theorem gCut_length (arg : ArgFn) : ∀ (items : List Item) (R : Nat), NoneLast items →
    (gCut arg items R).length = min R (gRender arg items).length := by
  intro items
  induction items with
  | nil => intro R _; simp [gCut, gRender]
  | cons it rest ih =>
    intro R hn
    cases it with
    | lit c =>
      simp only [gCut, gRender]; split
      · subst_vars; simp
      · have := ih (R - 1) hn; simp only [List.length_cons, this]; omega
    | dir r ds ch =>
      simp only [gCut, gRender]; split
      · subst_vars; simp
      · cases ch with
        | none =>
          have hr : rest = [] := hn
          subst hr
          simp [gRender]; omega
        | some c =>
          have := ih (R - min (argWidth (arg r ds (some c) rest)) R) hn
          simp only [List.length_append, padTo_length, this]; omega

/-- **outside the straddle class the loops append a prefix of the rendering** -/
theorem gCut_eq_take (arg : ArgFn) : ∀ (items : List Item) (R : Nat), NoneLast items →
    gStraddle arg items R = false → gCut arg items R = (gRender arg items).take R := by
  intro items
  induction items with
  | nil => intro R _ _; simp [gCut, gRender]
  | cons it rest ih =>
    intro R hn hs
    cases it with
    | lit c =>
      simp only [gCut, gRender]
      simp only [gStraddle] at hs
      split
      · subst_vars; simp
      · rename_i hR
        rw [if_neg hR] at hs
        rw [ih (R - 1) hn hs]
        obtain ⟨k, rfl⟩ : ∃ k, R = k + 1 := ⟨R - 1, by omega⟩
        simp
    | dir r ds ch =>
      simp only [gCut, gRender]
      simp only [gStraddle] at hs
      split
      · subst_vars; simp
      · rename_i hR
        rw [if_neg hR] at hs
        by_cases hw : argWidth (arg r ds ch rest) ≤ R
        · rw [if_pos hw] at hs
          have hmin : min (argWidth (arg r ds ch rest)) R = argWidth (arg r ds ch rest) := by omega
          rw [hmin, List.take_append, List.take_of_length_le (by simp; omega)]
          congr 1
          cases ch with
          | none =>
            have hr : rest = [] := hn
            subst hr; simp [gRender]
          | some c =>
            simp only [padTo_length]
            exact ih _ hn hs
        · rw [if_neg hw] at hs
          have hmin : min (argWidth (arg r ds ch rest)) R = R := by omega
          rw [hmin, Nat.sub_self]
          have hcut : (match ch with | none => ([] : Bytes) | some _ => gCut arg rest 0) = [] := by
            cases ch <;> simp
          rw [hcut, List.append_nil, List.take_append_of_le_length (by simp; omega)]
          symm
          apply padTo_take _ _ _ _ (by omega)
          rintro ⟨h1, h2, h3⟩
          simp [h1, h2, h3] at hs

end QbVerif.LogFormat
