/-
Skiplist: how a chain changes under the three store updates the operations
perform — a node linked in after the predecessor (`chain_insert`), a node rewritten in place
(`chain_update`: replace, notifier add/del), a node spliced out (`chain_erase`).
-/
import QbVerif.Lemmas.SlmInv

namespace QbVerif.Skiplist
open QbVerif.Map
set_option linter.unusedSimpArgs false

/-- frame, fine-grained: a chain depends on `forward[0]` of its nodes and on the entry nodes -/
theorem Chain.frame2 {s s' : SL} : ∀ {x ids es}, Chain s x ids es →
    (∀ i ∈ x :: ids, next0 s' i = next0 s i) → (∀ i ∈ ids, ∀ e, NodeOk s i e → NodeOk s' i e) →
    Chain s' x ids es
  | x, [], [], h, hn, _ => by
    have h0 : next0 s x = none := h
    show next0 s' x = none
    rw [hn x (by simp), h0]
  | x, i :: ids, e :: es, h, hn, ho => by
    refine ⟨by rw [hn x (by simp), h.1], ho i (by simp) e h.2.1, ?_⟩
    exact Chain.frame2 h.2.2 (fun j hj => hn j (List.mem_cons_of_mem _ hj))
      (fun j hj => ho j (List.mem_cons_of_mem _ hj))
  | _, [], _ :: _, h, _, _ => by cases h
  | _, _ :: _, [], h, _, _ => by cases h

theorem next0_eq {s s' : SL} {x : NodeId} (hn : s'.nodes x = s.nodes x)
    (hf : s'.fwds (fwdOf s x) = s.fwds (fwdOf s x)) : next0 s' x = next0 s x := by
  simp only [next0, fwdOf] at *
  rw [hn]
  cases hx : s.nodes x with
  | none => rfl
  | some n => simp only [hx] at hf ⊢; rw [hf]

theorem NodeOk.frame {s s' : SL} {i : NodeId} {e : Entry} (h : NodeOk s i e) (hn : s'.nodes i = s.nodes i)
    (hf : (s'.fwds (fwdOf s i)).isSome) : NodeOk s' i e := by
  obtain ⟨lv, rc, f, a, hrc, hl1, hl2, h1, h2⟩ := h
  simp only [fwdOf, h1] at hf
  obtain ⟨a', ha'⟩ := Option.isSome_iff_exists.1 hf
  exact ⟨lv, rc, f, a', hrc, hl1, hl2, by rw [hn, h1], ha'⟩

/-- ids after linking `new` in behind the predecessor of `k` -/
def insIds (new : NodeId) (k : Key) : List NodeId → List Entry → List NodeId
  | i :: ids, e :: es => if Key.lt e.key k then i :: insIds new k ids es else new :: i :: ids
  | _, _ => [new]

theorem insIds_perm {new : NodeId} {k : Key} : ∀ {ids : List NodeId} {es : List Entry}, ids.length = es.length →
    (insIds new k ids es).Perm (new :: ids)
  | [], [], _ => by simp [insIds]
  | i :: ids, e :: es, h => by
    have ih := @insIds_perm new k ids es (by simpa using h)
    simp only [insIds]
    split
    · exact (List.Perm.cons i ih).trans (List.Perm.swap new i ids)
    · exact List.Perm.refl _
  | [], _ :: _, h => by simp at h
  | _ :: _, [], h => by simp at h

/-- moving the start of a chain, fine-grained -/
theorem Chain.retarget2 {s s' : SL} {x i : NodeId} : ∀ {ids es}, Chain s i ids es → next0 s' x = next0 s i →
    (∀ j ∈ ids, next0 s' j = next0 s j) → (∀ j ∈ ids, ∀ e, NodeOk s j e → NodeOk s' j e) → Chain s' x ids es
  | [], [], h, hn, _, _ => by
    have h0 : next0 s i = none := h
    show next0 s' x = none
    rw [hn, h0]
  | j :: ids, e :: es, h, hn, hnx, ho => by
    exact ⟨by rw [hn, h.1], ho j (by simp) e h.2.1, Chain.frame2 h.2.2 hnx
      (fun a ha => ho a (List.mem_cons_of_mem _ ha))⟩
  | [], _ :: _, h, _, _, _ => by cases h
  | _ :: _, [], h, _, _, _ => by cases h

/-- what "link `new` in behind `p`" does to the level-0 structure -/
structure Linked (s s' : SL) (M : List NodeId) (p new : NodeId) (e' : Entry) : Prop where
  newOk : NodeOk s' new e'
  newNext : next0 s' new = next0 s p
  predNext : next0 s' p = some new
  others : ∀ j ∈ M, j ≠ p → j ≠ new → next0 s' j = next0 s j
  nodes : ∀ j ∈ M, ∀ e, j ≠ new → NodeOk s j e → NodeOk s' j e

theorem chain_insert {s s' : SL} {new : NodeId} {e' : Entry} {M : List NodeId} : ∀ {es : List Entry} {ids : List NodeId}
    {x : NodeId}, Chain s x ids es →
    Linked s s' M (predOf e'.key x ids es) new e' → (∀ e ∈ es, e.key ≠ e'.key) →
    (∀ j ∈ x :: ids, j ≠ new) → (x :: ids).Nodup → (∀ j ∈ x :: ids, j ∈ M) →
    Chain s' x (insIds new e'.key ids es) (insertEntry e' es)
  | [], [], x, h, L, _, hfr, _, _ => by
    have h0 : next0 s x = none := h
    simp only [predOf] at L
    refine ⟨L.predNext, L.newOk, ?_⟩
    show next0 s' new = none
    rw [L.newNext, h0]
  | e :: es, i :: ids, x, h, L, hk, hfr, hnd, hM => by
    obtain ⟨h1, hi, h2⟩ := h
    have hek : e.key ≠ e'.key := hk e (by simp)
    rw [insertEntry_walk]
    simp only [insIds, predOf] at L ⊢
    have hxi : x ∉ i :: ids := (List.nodup_cons.1 hnd).1
    by_cases hlt : Key.lt e.key e'.key = true
    · simp only [hlt, if_true] at L ⊢
      have hp := predOf_mem e'.key i ids es
      refine ⟨?_, L.nodes i (hM i (by simp)) e (hfr i (by simp)) hi, ?_⟩
      · rw [L.others x (hM x (by simp)) (fun he => hxi (he ▸ hp)) (hfr x (by simp)), h1]
      · exact chain_insert h2 L (fun e he => hk e (List.mem_cons_of_mem _ he))
          (fun j hj => hfr j (List.mem_cons_of_mem _ hj)) (List.nodup_cons.1 hnd).2
          (fun j hj => hM j (List.mem_cons_of_mem _ hj))
    · have hlt' : Key.lt e.key e'.key = false := by simpa using hlt
      simp only [hlt', hek, Bool.false_eq_true, if_false] at L ⊢
      refine ⟨L.predNext, L.newOk, ?_⟩
      refine Chain.retarget2 (i := x) (s := s) ⟨h1, hi, h2⟩ L.newNext ?_ ?_
      · intro j hj
        exact L.others j (hM j (List.mem_cons_of_mem _ hj)) (fun he => hxi (he ▸ hj)) (hfr j (List.mem_cons_of_mem _ hj))
      · intro j hj e0 hok
        exact L.nodes j (hM j (List.mem_cons_of_mem _ hj)) e0 (hfr j (List.mem_cons_of_mem _ hj)) hok
  | [], _ :: _, _, h, _, _, _, _, _ => by cases h
  | _ :: _, [], _, h, _, _, _, _, _ => by cases h

/-- a node rewritten in place (same forward array): replace, notifier add/del -/
theorem chain_update {s s' : SL} {i : NodeId} {e e' : Entry} (hnext : ∀ j, next0 s' j = next0 s j)
    (hok : ∀ j, j ≠ i → ∀ e, NodeOk s j e → NodeOk s' j e) (hnew : NodeOk s' i e') (hk : e.key = e'.key) :
    ∀ {es : List Entry} {ids : List NodeId} {x : NodeId}, Chain s x ids es →
    succOf e'.key ids es = some (i, e) → ids.Nodup → Chain s' x ids (insertEntry e' es)
  | [], [], _, _, hs, _ => by simp [succOf] at hs
  | e0 :: es, i0 :: ids, x, h, hs, hnd => by
    rw [insertEntry_walk]
    simp only [succOf] at hs
    by_cases hlt : Key.lt e0.key e'.key = true
    · simp only [hlt, if_true] at hs ⊢
      have hi : i ∈ ids := (succOf_mem hs).1
      have hne : i0 ≠ i := fun h => (List.nodup_cons.1 hnd).1 (h ▸ hi)
      exact ⟨by rw [hnext, h.1], hok i0 hne e0 h.2.1,
        chain_update hnext hok hnew hk h.2.2 hs (List.nodup_cons.1 hnd).2⟩
    · have hlt' : Key.lt e0.key e'.key = false := by simpa using hlt
      simp only [hlt', Bool.false_eq_true, if_false] at hs ⊢
      cases hs
      simp only [hk, if_true]
      refine ⟨by rw [hnext, h.1], hnew, Chain.frame2 h.2.2 (fun j _ => hnext j) ?_⟩
      intro j hj
      exact hok j fun h => (List.nodup_cons.1 hnd).1 (h ▸ hj)
  | [], _ :: _, _, h, _, _ => by cases h
  | _ :: _, [], _, h, _, _ => by cases h

/-- ids after splicing out the first node not below `k` -/
def delIds (k : Key) : List NodeId → List Entry → List NodeId
  | i :: ids, e :: es => if Key.lt e.key k then i :: delIds k ids es else ids
  | _, _ => []

theorem delIds_sublist (k : Key) : ∀ (ids : List NodeId) (es : List Entry), (delIds k ids es).Sublist ids
  | [], _ => by simp [delIds]
  | _ :: _, [] => by simp [delIds]
  | i :: ids, e :: es => by
    simp only [delIds]
    split
    · exact (delIds_sublist k ids es).cons_cons i
    · exact List.sublist_cons_self i ids

theorem not_mem_delIds {k : Key} : ∀ {ids : List NodeId} {es : List Entry} {found e},
    succOf k ids es = some (found, e) → ids.Nodup → found ∉ delIds k ids es
  | [], _, _, _, h, _ => by simp [succOf] at h
  | _ :: _, [], _, _, h, _ => by simp [succOf] at h
  | i :: ids, e0 :: es, found, e, h, hnd => by
    simp only [succOf, delIds] at h ⊢
    split at h
    · next hlt =>
      simp only [hlt, if_true, List.mem_cons, not_or]
      have hi : found ∈ ids := (succOf_mem h).1
      exact ⟨fun hf => (List.nodup_cons.1 hnd).1 (hf ▸ hi), not_mem_delIds h (List.nodup_cons.1 hnd).2⟩
    · next hlt =>
      cases h
      simp only [hlt, if_false]
      exact (List.nodup_cons.1 hnd).1

theorem mem_delIds_of_ne {k : Key} {j : NodeId} : ∀ {ids : List NodeId} {es : List Entry} {found e},
    succOf k ids es = some (found, e) → j ∈ ids → j ≠ found → j ∈ delIds k ids es
  | [], _, _, _, h, _, _ => by simp [succOf] at h
  | _ :: _, [], _, _, h, _, _ => by simp [succOf] at h
  | i :: ids, e0 :: es, found, e, h, hj, hne => by
    simp only [succOf, delIds] at h ⊢
    split at h
    · next hlt =>
      simp only [hlt, if_true]
      rcases List.mem_cons.1 hj with rfl | hj
      · simp
      · exact List.mem_cons_of_mem _ (mem_delIds_of_ne h hj hne)
    · next hlt =>
      cases h
      simp only [hlt, if_false]
      rcases List.mem_cons.1 hj with rfl | hj
      · exact absurd rfl hne
      · exact hj

/-- a node spliced out behind its predecessor -/
theorem chain_erase {s s' : SL} {k : Key} {found : NodeId} {e : Entry} (hk : e.key = k) :
    ∀ {es : List Entry} {ids : List NodeId} {x : NodeId}, Chain s x ids es →
    succOf k ids es = some (found, e) → (x :: ids).Nodup → Sorted es →
    next0 s' (predOf k x ids es) = next0 s found →
    (∀ j ∈ x :: ids, j ≠ predOf k x ids es → j ≠ found → next0 s' j = next0 s j) →
    (∀ j ∈ ids, j ≠ found → ∀ e, NodeOk s j e → NodeOk s' j e) →
    Chain s' x (delIds k ids es) (eraseEntry k es)
  | [], [], _, _, hs, _, _, _, _, _ => by simp [succOf] at hs
  | e0 :: es, i0 :: ids, x, h, hs, hnd, hso, hp, hnx, hok => by
    rw [eraseEntry_walk k e0 es hso]
    simp only [succOf, predOf, delIds] at hs hp hnx ⊢
    have hnd' := (List.nodup_cons.1 hnd).2
    have hx : x ∉ i0 :: ids := (List.nodup_cons.1 hnd).1
    by_cases hlt : Key.lt e0.key k = true
    · simp only [hlt, if_true] at hs hp hnx ⊢
      have hi : found ∈ ids := (succOf_mem hs).1
      have hpm := predOf_mem k i0 ids es
      refine ⟨?_, hok i0 (by simp) (fun hf => (List.nodup_cons.1 hnd').1 (hf ▸ hi)) e0 h.2.1, ?_⟩
      · rw [hnx x (by simp) (fun hf => hx (hf ▸ hpm)) (fun hf => hx (hf ▸ List.mem_cons_of_mem _ hi)), h.1]
      · exact chain_erase hk h.2.2 hs hnd' (List.pairwise_cons.1 hso).2 hp
          (fun j hj => hnx j (List.mem_cons_of_mem _ hj))
          (fun j hj => hok j (List.mem_cons_of_mem _ hj))
    · have hlt' : Key.lt e0.key k = false := by simpa using hlt
      simp only [hlt', Bool.false_eq_true, if_false] at hs hp hnx ⊢
      cases hs
      simp only [hk, if_true]
      refine Chain.retarget2 h.2.2 hp ?_ ?_
      · intro j hj
        exact hnx j (by simp [hj]) (fun hf => hx (hf ▸ List.mem_cons_of_mem _ hj))
          (fun hf => (List.nodup_cons.1 hnd').1 (hf ▸ hj))
      · intro j hj
        exact hok j (List.mem_cons_of_mem _ hj) (fun hf => (List.nodup_cons.1 hnd').1 (hf ▸ hj))
  | [], _ :: _, _, h, _, _, _, _, _, _ => by cases h
  | _ :: _, [], _, h, _, _, _, _, _, _ => by cases h

end QbVerif.Skiplist
