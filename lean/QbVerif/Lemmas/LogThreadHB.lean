import QbVerif.Lemmas.LogThreadHA

/-! `HInv` is preserved by `appStep` (all park points), hence by every step and every schedule. -/
namespace QbVerif.LogThread

set_option linter.unusedSimpArgs false
set_option linter.unusedVariables false

theorem Op.isLog_elim' {op : Op} (h : op.isLog = true) : ∃ len, op = .log len := by
  cases op <;> simp_all [Op.isLog]

local macro "hcongr " h:ident " using " hpc:ident : tactic =>
  `(tactic| exact HInv.congr $h rfl rfl rfl rfl rfl rfl
      (by first | rfl | simp [$hpc:ident, APc.pending, St.ret, St.setPc, St.setApp, St.app, St.emit, finiRest,
                              destroyAll_c, destroyAll_p, ctlBody])
      (by first | rfl | simp [$hpc:ident, APc.pending, St.ret, St.setPc, St.setApp, St.app, St.emit, finiRest,
                              destroyAll_c, destroyAll_p, ctlBody])
      rfl rfl rfl rfl rfl)

theorem ctlBody_eq (s : St) (en : Option Bool) :
    ctlBody s en = { s with tgtEnabled := (match en with | some b => b | none => s.tgtEnabled) } := by
  cases en <;> rfl

/-- the step at `logLock r`: the record is appended, or dropped at the backlog limit -/
theorem hinv_logLock_C (cfg : Cfg) (s : St) (r : Rec) (h : HInv s) (hex : Excl s) (hpc : s.c.pc = .logLock r) :
    HInv (if s.mem + r.total > cfg.limit then
        ({ s with owner := some Tid.C, droppedCtr := s.droppedCtr + 1, dropTotal := s.dropTotal + 1 }).setPc .C .logUnlockDrop
      else
        ({ s with owner := some Tid.C, queue := s.queue ++ [r], mem := s.mem + r.total,
                  accepted := s.accepted ++ [r.seq] }).setPc .C .logUnlock) := by
  obtain ⟨h1, h2, h3, h4, h5, h6, h7, h8, h9⟩ := h
  have hp : s.p.pc = .idle := hex (by rw [hpc]; rfl)
  obtain ⟨hlt, hgt⟩ := h6 r hpc
  apply HInv.ite <;> intro _
  · refine ⟨h1, h2, h3, h4, h5, ?_, h7, ?_, ?_⟩
    · intro r' hr'; cases hr'
    · show s.dropTotal + 1 = s.reports.sum + (s.droppedCtr + 1); omega
    · intro hr
      have := h9 hr
      simp only [hpc, hp, APc.pend_logLock, APc.pend_idle] at this
      simp only [St.setPc, St.setApp, St.app, hp, APc.pend_logUnlockDrop, APc.pend_idle]
      omega
  · refine ⟨?_, h2, h3, pairwise_snoc h4 hgt, ?_, ?_, ?_, h8, ?_⟩
    · show s.accepted ++ [r.seq] = s.popped ++ (s.queue ++ [r]).map Rec.seq
      rw [h1, List.map_append, List.append_assoc]; rfl
    · intro x hx
      have hx' : x ∈ s.accepted ++ [r.seq] := hx
      have : x ∈ s.accepted ∨ x = r.seq := by simpa using hx'
      cases this with
      | inl hm => exact h5 x hm
      | inr he => rw [he]; exact hlt
    · intro r' hr'; cases hr'
    · intro r' hr'
      have : s.p.pc = .logLock r' := hr'
      rw [hp] at this; cases this
    · intro hr
      have := h9 hr
      simp only [hpc, hp, APc.pend_logLock, APc.pend_idle] at this
      simp only [St.setPc, St.setApp, St.app, hp, APc.pend_logUnlock, APc.pend_idle, List.length_append,
        List.length_singleton]
      omega

theorem hinv_logLock_P (cfg : Cfg) (s : St) (r : Rec) (h : HInv s) (hex : Excl s) (hpc : s.p.pc = .logLock r) :
    HInv (if s.mem + r.total > cfg.limit then
        ({ s with owner := some Tid.P, droppedCtr := s.droppedCtr + 1, dropTotal := s.dropTotal + 1 }).setPc .P .logUnlockDrop
      else
        ({ s with owner := some Tid.P, queue := s.queue ++ [r], mem := s.mem + r.total,
                  accepted := s.accepted ++ [r.seq] }).setPc .P .logUnlock) := by
  obtain ⟨h1, h2, h3, h4, h5, h6, h7, h8, h9⟩ := h
  have hc : s.c.pc.inLog = false := by
    cases hh : s.c.pc.inLog
    · rfl
    · have := hex hh
      rw [hpc] at this; cases this
  have hc0 : s.c.pc.pend = 0 := by
    cases hcc : s.c.pc <;> simp_all
  have hcn : ∀ r', s.c.pc ≠ .logLock r' := by
    intro r' hr'; rw [hr'] at hc; simp at hc
  obtain ⟨hlt, hgt⟩ := h7 r hpc
  apply HInv.ite <;> intro _
  · refine ⟨h1, h2, h3, h4, h5, h6, ?_, ?_, ?_⟩
    · intro r' hr'; cases hr'
    · show s.dropTotal + 1 = s.reports.sum + (s.droppedCtr + 1); omega
    · intro hr
      have := h9 hr
      simp only [hpc, hc0, APc.pend_logLock] at this
      simp only [St.setPc, St.setApp, St.app, hc0, APc.pend_logUnlockDrop]
      omega
  · refine ⟨?_, h2, h3, pairwise_snoc h4 hgt, ?_, ?_, ?_, h8, ?_⟩
    · show s.accepted ++ [r.seq] = s.popped ++ (s.queue ++ [r]).map Rec.seq
      rw [h1, List.map_append, List.append_assoc]; rfl
    · intro x hx
      have hx' : x ∈ s.accepted ++ [r.seq] := hx
      have : x ∈ s.accepted ∨ x = r.seq := by simpa using hx'
      cases this with
      | inl hm => exact h5 x hm
      | inr he => rw [he]; exact hlt
    · intro r' hr'
      exact absurd hr' (hcn r')
    · intro r' hr'; cases hr'
    · intro hr
      have := h9 hr
      simp only [hpc, hc0, APc.pend_logLock] at this
      simp only [St.setPc, St.setApp, St.app, hc0, APc.pend_logUnlock, List.length_append,
        List.length_singleton]
      omega

theorem hinv_appStep (cfg : Cfg) (s : St) (i : AppId) (h : HInv s) (hex : Excl s) : HInv (appStep cfg s i) := by
  unfold appStep
  simp only
  split
  · -- operation boundary
    rename_i hpc
    split
    · exact h
    · rename_i op rest hprog
      have h0 : HInv (s.setApp i ⟨.idle, rest⟩) := by
        cases i <;> simp only [St.app] at hpc <;> hcongr h using hpc
      have hpc0 : ((s.setApp i ⟨.idle, rest⟩).app i).pc = .idle := by cases i <;> rfl
      cases hl : op.isLog
      · exact hinv_beginOp_other cfg _ i op h0 hpc0 hl
      · obtain ⟨len, rfl⟩ := Op.isLog_elim' hl
        exact hinv_beginOp_log cfg _ i len h0 hpc0
  · -- logLock r
    rename_i r hpc
    apply HInv.ite <;> intro _
    · exact h.crash _
    · cases i
      · exact hinv_logLock_C cfg s r h hex hpc
      · exact hinv_logLock_P cfg s r h hex hpc
  all_goals
    rename_i hpc
    cases i <;> simp only [St.app] at hpc
  all_goals (repeat' (first | (apply HInv.ite <;> intro _) | split))
  all_goals
    first
    | hcongr h using hpc
    | exact HInv.crash h _
    | exact destroyAll_hist _ _ h
    | (rw [ctlBody_eq]; hcongr h using hpc)
    | (have h' := destroyAll_hist cfg s h; hcongr h' using hpc)
    | skip

end QbVerif.LogThread
