/-
Skiplist model (Model/Skiplist.lean): the abstraction behind `sl_refines_dict` (Props/C17Sl.lean),
level 0.

`Chain s x ids es`: following `forward[0]` from node `x` visits exactly the nodes `ids`, which are
the entry nodes (any level 1..9 in the model's encoding, refcount >= 1) of the entries `es`, and
then ends in NULL.  The whole state between two operations is `Inv` (Lemmas/SlmInv.lean); the
higher levels are in Lemmas/SlmLevel.lean and Lemmas/SlmSearch.lean.

This file: store primitives under known contents, the frame lemma, and the specification of the
search loop on a single-level list (`search_spec`, kept as the one-level instance).
-/
import QbVerif.Model.Skiplist
import QbVerif.Lemmas.MapList

namespace QbVerif.Skiplist
open QbVerif.Map
set_option linter.unusedSimpArgs false

theorem upd_same {β} (f : Nat → β) (a : Nat) (v : β) : upd f a v a = v := by simp [upd]
theorem upd_other {β} (f : Nat → β) {a b : Nat} (v : β) (h : b ≠ a) : upd f a v b = f b := by simp [upd, h]
theorem upd_upd {β} (f : Nat → β) (a : Nat) (v w : β) : upd (upd f a v) a w = upd f a w := by
  funext x; simp only [upd]; split <;> rfl
theorem upd_self {β} (f : Nat → β) (a : Nat) : upd f a (f a) = f := by
  funext x; simp only [upd]; split <;> simp_all

/-- level-0 successor read through both heaps (`none` also when something is not allocated) -/
def next0 (s : SL) (x : NodeId) : Option NodeId :=
  match s.nodes x with
  | some n => (match s.fwds n.fwd with | some a => a 0 | none => none)
  | none => none

/-- `x->forward` (0 when `x` is not allocated) -/
def fwdOf (s : SL) (x : NodeId) : FwdId := match s.nodes x with | some n => n.fwd | none => 0

/-- `x` and its forward array are allocated -/
def XOk (s : SL) (x : NodeId) : Prop := ∃ n a, s.nodes x = some n ∧ s.fwds n.fwd = some a

/-- `i` is the node of entry `e`: level 0, referenced (`rc` = 1 + the iterators parked on it),
    forward array allocated -/
def NodeOk (s : SL) (i : NodeId) (e : Entry) : Prop :=
  ∃ lv rc f a, 1 ≤ rc ∧ 1 ≤ lv ∧ lv ≤ LEVEL_MAX + 1 ∧ s.nodes i = some ⟨some e.key, e.val, lv, rc, f, e.notifs⟩ ∧
    s.fwds f = some a

theorem NodeOk.xok {s : SL} {i : NodeId} {e : Entry} (h : NodeOk s i e) : XOk s i := by
  obtain ⟨lv, rc, f, a, _, _, _, h1, h2⟩ := h
  exact ⟨_, a, h1, h2⟩

def Chain (s : SL) : NodeId → List NodeId → List Entry → Prop
  | x, [], [] => next0 s x = none
  | x, i :: ids, e :: es => next0 s x = some i ∧ NodeOk s i e ∧ Chain s i ids es
  | _, _, _ => False

theorem Chain.length_eq {s : SL} : ∀ {x ids es}, Chain s x ids es → ids.length = es.length
  | _, [], [], _ => rfl
  | _, _ :: ids, _ :: es, h => by
    have := Chain.length_eq h.2.2
    simp [this]
  | _, [], _ :: _, h => by cases h
  | _, _ :: _, [], h => by cases h

/-- frame: a chain only depends on its nodes and their arrays -/
theorem Chain.frame {s s' : SL} : ∀ {x ids es}, Chain s x ids es →
    (∀ i ∈ x :: ids, s'.nodes i = s.nodes i ∧ s'.fwds (fwdOf s i) = s.fwds (fwdOf s i)) → Chain s' x ids es
  | x, [], [], h, hf => by
    obtain ⟨hn, ha⟩ := hf x (by simp)
    simp only [Chain, next0, fwdOf] at *
    rw [hn]
    cases hx : s.nodes x with
    | none => rfl
    | some n => simp only [hx] at h ha ⊢; rw [ha]; exact h
  | x, i :: ids, e :: es, h, hf => by
    obtain ⟨hn, ha⟩ := hf x (by simp)
    obtain ⟨h1, ⟨lv, rc, f, a, hrc, hl1, hl2, h2, h3⟩, h4⟩ := h
    refine ⟨?_, ?_, Chain.frame h4 fun j hj => hf j (List.mem_cons_of_mem _ hj)⟩
    · simp only [next0, fwdOf] at *
      rw [hn]
      cases hx : s.nodes x with
      | none => simp [hx] at h1
      | some n => simp only [hx] at h1 ha ⊢; rw [ha]; exact h1
    · obtain ⟨hn', ha'⟩ := hf i (by simp)
      refine ⟨lv, rc, f, a, hrc, hl1, hl2, by rw [hn', h2], ?_⟩
      simp only [fwdOf, h2] at ha'
      rw [ha', h3]
  | _, [], _ :: _, h, _ => by cases h
  | _, _ :: _, [], h, _ => by cases h

/-! ### primitives on known contents -/

theorem node_ok {s : SL} {x : NodeId} {n : Node} (h : s.nodes x = some n) : s.node x = .ok n := by
  simp [SL.node, h]

theorem fwdAt_ok {s : SL} {x : NodeId} {n : Node} {a} (h : s.nodes x = some n) (ha : s.fwds n.fwd = some a)
    (l : Nat) : s.fwdAt x l = .ok (a l) := by
  simp [SL.fwdAt, SL.node, SL.arr, h, ha, bind, Except.bind]

theorem fwdAt0_of_next0 {s : SL} {x : NodeId} (hx : XOk s x) : s.fwdAt x 0 = .ok (next0 s x) := by
  obtain ⟨n, a, h1, h2⟩ := hx
  rw [fwdAt_ok h1 h2]
  simp [next0, h1, h2]

theorem setFwdAt_ok {s : SL} {x : NodeId} {n : Node} {a} (h : s.nodes x = some n) (ha : s.fwds n.fwd = some a)
    (l : Nat) (v : Option NodeId) :
    s.setFwdAt x l v = .ok { s with fwds := upd s.fwds n.fwd (some (upd a l v)) } := by
  simp [SL.setFwdAt, SL.node, SL.arr, h, ha, bind, Except.bind]

/-! ### the search loop on a single-level chain -/

/-- the last node of `x :: ids` whose key is below `key` (the walk of the search loop) -/
def predOf (key : Key) : NodeId → List NodeId → List Entry → NodeId
  | x, i :: ids, e :: es => if Key.lt e.key key then predOf key i ids es else x
  | x, _, _ => x

/-- the first node whose key is not below `key` -/
def succOf (key : Key) : List NodeId → List Entry → Option (NodeId × Entry)
  | i :: ids, e :: es => if Key.lt e.key key then succOf key ids es else some (i, e)
  | _, _ => none

/-- what `SL.search` returns at list level 0 -/
def searchRes (key : Key) (stopEq : Bool) (x : NodeId) (ids : List NodeId) (es : List Entry)
    (u : Nat → NodeId) : NodeId ⊕ (NodeId × (Nat → NodeId)) :=
  match succOf key ids es with
  | some (i, e) => if stopEq = true ∧ e.key = key then .inl i else .inr (predOf key x ids es, u)
  | none => .inr (predOf key x ids es, u)

theorem search_spec (s : SL) (key : Key) (stopEq : Bool) : ∀ (es : List Entry) (ids : List NodeId)
    (x : NodeId) (fuel : Nat) (u : Nat → NodeId), Chain s x ids es → XOk s x → es.length + 2 ≤ fuel →
    ∃ u', u' 0 = predOf key x ids es ∧
      s.search key stopEq fuel x 1 u = .ok (searchRes key stopEq x ids es u')
  | [], [], x, fuel, u, h, hx, hf => by
    obtain ⟨f, rfl⟩ : ∃ f, fuel = f + 2 := ⟨fuel - 2, by simp at hf; omega⟩
    refine ⟨upd u 0 x, by simp [upd, predOf], ?_⟩
    have h0 : next0 s x = none := h
    simp [SL.search, fwdAt0_of_next0 hx, h0, SL.opSearch, bind, Except.bind, searchRes, succOf, predOf]
  | e :: es, i :: ids, x, fuel, u, h, hx, hf => by
    obtain ⟨f, rfl⟩ : ∃ f, fuel = f + 1 := ⟨fuel - 1, by simp at hf; omega⟩
    obtain ⟨h1, hn, h2⟩ := h
    obtain ⟨lvi, rci, fi, ai, _, _, _, hi1, hi2⟩ := hn
    by_cases hlt : Key.lt e.key key = true
    · obtain ⟨u', hu', hs⟩ := search_spec s key stopEq es ids i f (upd u 0 i) h2 ⟨_, ai, hi1, hi2⟩
        (by simp at hf ⊢; omega)
      refine ⟨u', by simp [predOf, hlt, hu'], ?_⟩
      simp only [SL.search, fwdAt0_of_next0 hx, h1, SL.opSearch, node_ok hi1, bind, Except.bind, hlt, if_true,
        Option.getD_some]
      rw [hs]
      simp [searchRes, succOf, predOf, hlt]
    · have hlt' : Key.lt e.key key = false := by simpa using hlt
      obtain ⟨f', rfl⟩ : ∃ f', f = f' + 1 := ⟨f - 1, by simp at hf; omega⟩
      refine ⟨upd u 0 x, by simp [upd, predOf, hlt'], ?_⟩
      by_cases hk : e.key = key
      · subst hk
        cases stopEq <;>
          simp [SL.search, fwdAt0_of_next0 hx, h1, SL.opSearch, node_ok hi1, bind, Except.bind, hlt',
            searchRes, succOf, predOf]
      · simp [SL.search, fwdAt0_of_next0 hx, h1, SL.opSearch, node_ok hi1, bind, Except.bind, hlt', hk,
          searchRes, succOf, predOf]
  | [], _ :: _, _, _, _, h, _, _ => by cases h
  | _ :: _, [], _, _, _, h, _, _ => by cases h

end QbVerif.Skiplist
