/-
C08: the structural invariant, part 3 — the TIMER group `TG fl s` (`fl` = the slot whose timer_dispatch is
running, if any): timer-list entries name ACTIVE slots, each slot at most once; a linked `timers[i].item`
means slot i is JOBLIST, is linked once, and is not the one in flight; the slot in flight is JOBLIST with
check = 0 (so no handle reaches it); handles carry a non-zero check word; no slot is ever DELETED; occupied
slots carry a non-zero check word.  Kept by qb_loop_timer_add / _del and expire_the_timers.  Core Lean only.
-/
import QbVerif.Lemmas.LoopStruct2
import QbVerif.Lemmas.LoopStale

namespace QbVerif.Loop
open QbVerif.Gen

structure TG (fl : Option Nat) (s : St) : Prop where
  tlAct : ∀ e ∈ s.tl, (s.timerSlot e.2).state = .active
  tlNd : (s.tl.map Prod.snd).Nodup
  qJob : ∀ i, 0 < s.cnt (.timer i) → (s.timerSlot i).state = .joblist ∧ fl ≠ some i
  qNd : ∀ i, s.cnt (.timer i) ≤ 1
  fly : ∀ i, fl = some i → (s.timerSlot i).state = .joblist ∧ (s.timerSlot i).check = 0
  hnd : ∀ e ∈ s.th, 1 ≤ e.2 / 2^32
  notDel : ∀ i, (s.timerSlot i).state ≠ .deleted
  actTl : ∀ i, (s.timerSlot i).state = .active → (s.timerSlot i).hasTl = true
  nz : ∀ i, (s.timerSlot i).state ≠ .empty → fl ≠ some i → (s.timerSlot i).check ≠ 0

/-- a step that leaves the timer data alone and links no timer slot anew -/
theorem TG.frame' {fl : Option Nat} {s s' : St} (h : TG fl s) (h1 : s'.timers = s.timers) (h2 : s'.tl = s.tl)
    (h3 : s'.th = s.th) (hq : ∀ k, s'.cnt (.timer k) ≤ s.cnt (.timer k)) : TG fl s' := by
  have hslot : ∀ k, s'.timerSlot k = s.timerSlot k := fun k => by unfold St.timerSlot; rw [h1]
  refine ⟨?_, by rw [h2]; exact h.tlNd, ?_, ?_, ?_, by rw [h3]; exact h.hnd, ?_, ?_, ?_⟩
  · intro e he; rw [hslot]; rw [h2] at he; exact h.tlAct e he
  · intro i hi; rw [hslot]; exact h.qJob i (Nat.lt_of_lt_of_le hi (hq i))
  · intro i; exact Nat.le_trans (hq i) (h.qNd i)
  · intro i hi; rw [hslot]; exact h.fly i hi
  · intro i; rw [hslot]; exact h.notDel i
  · intro i; rw [hslot]; exact h.actTl i
  · intro i; rw [hslot]; exact h.nz i

theorem TG.frame {fl : Option Nat} {s s' : St} {P : Bool} (h : TG fl s) (f : Fr s s' true P) : TG fl s' :=
  h.frame' (f.t rfl).1 (f.t rfl).2.1 (f.t rfl).2.2 (fun _ => f.q _ rfl)

/-! ### slots -/

theorem timerSlot_lt {s : St} {j : Nat} (h : (s.timerSlot j).state ≠ .empty) : j < s.timers.length := by
  by_cases hl : j < s.timers.length
  · exact hl
  · rw [timerSlot_ge s j hl] at h; exact absurd rfl h

theorem timerSlot_setTimer_le (s : St) (j i : Nat) (t : TimerSlot) (hj : j ≤ s.timers.length) :
    (s.setTimer j t).timerSlot i = if i = j then t else s.timerSlot i := by
  rw [timerSlot_setTimer]
  by_cases hlt : j < s.timers.length
  · simp [hlt]
  · have : j = s.timers.length := by omega
    simp [hlt, this]

theorem firstEmptyT_spec (ts : List TimerSlot) :
    firstEmptyT ts ≤ ts.length ∧ (ts.getD (firstEmptyT ts) {}).state = .empty := by
  induction ts with
  | nil => exact ⟨Nat.le_refl _, rfl⟩
  | cons t ts ih =>
    unfold firstEmptyT at ih ⊢
    rw [List.findIdx?_cons]
    by_cases ht : (t.state == EState.empty) = true
    · simp only [ht, if_true]
      exact ⟨Nat.zero_le _, by simpa using ht⟩
    · simp only [ht, Bool.false_eq_true, if_false]
      cases hf : List.findIdx? (fun t => t.state == EState.empty) ts with
      | none => rw [hf] at ih; simp only [Option.map_none, List.length_cons]; exact ⟨Nat.le_refl _, by simp [List.getD]⟩
      | some k =>
        rw [hf] at ih
        simp only [Option.map_some, List.length_cons]
        exact ⟨Nat.succ_le_succ ih.1, by simpa [List.getD] using ih.2⟩

theorem tlInsert_perm (tl : List (Nat × Nat)) (e j : Nat) : (tlInsert tl e j).Perm ((e, j) :: tl) := by
  induction tl with
  | nil => exact List.Perm.refl _
  | cons x rest ih =>
    obtain ⟨e', s'⟩ := x
    unfold tlInsert
    split
    · exact List.Perm.refl _
    · exact (List.Perm.cons _ ih).trans (List.Perm.swap _ _ _)

/-! ### qb_loop_timer_add -/

theorem TG.timerAdd {fl : Option Nat} {s : St} (h : TG fl s) (p d hh id : Nat) : TG fl (s.timerAdd p d hh id).1 := by
  unfold St.timerAdd
  dsimp only
  generalize hj : firstEmptyT s.timers = j
  generalize ht : ({ state := .active, check := s.draw.fst, prio := p, data := id, hasTl := true } : TimerSlot) = t
  have hsp := firstEmptyT_spec s.timers
  rw [hj] at hsp
  have hje : (s.timerSlot j).state = .empty := hsp.2
  have hts : t.state = .active ∧ t.check = s.nonce + 1 ∧ t.hasTl = true := by subst ht; exact ⟨rfl, rfl, rfl⟩
  have hslot0 : ∀ k, (s.draw.2.setTimer j t).timerSlot k = if k = j then t else s.timerSlot k :=
    fun k => timerSlot_setTimer_le s.draw.2 j k t hsp.1
  have e1 : (s.draw.2.setTimer j t).tl = s.tl := by simp
  have e2 : (s.draw.2.setTimer j t).th = s.th := by simp
  have e3 : ∀ x, (s.draw.2.setTimer j t).cnt x = s.cnt x := fun x => cnt_congr (by simp) (by simp) (by simp) x
  have e4 : s.draw.fst = s.nonce + 1 := rfl
  generalize s.draw.2.setTimer j t = s2 at hslot0 e1 e2 e3 ⊢
  generalize s.draw.fst = c at e4 ⊢
  have hperm := tlInsert_perm s2.tl (s2.now + d) j
  rw [e1] at hperm
  have hjtl : j ∉ s.tl.map Prod.snd := by
    intro hm
    obtain ⟨e, he, rfl⟩ := List.mem_map.1 hm
    have := h.tlAct e he; rw [hje] at this; cases this
  have hslot : ∀ k, ({ s2 with tl := tlInsert s2.tl (s2.now + d) j, th := assoc s2.th hh (c * 2^32 + j) } : St).timerSlot k
      = if k = j then t else s.timerSlot k := hslot0
  have hcnt : ∀ x, ({ s2 with tl := tlInsert s2.tl (s2.now + d) j, th := assoc s2.th hh (c * 2^32 + j) } : St).cnt x
      = s.cnt x := e3
  refine ⟨?_, ?_, ?_, ?_, ?_, ?_, ?_, ?_, ?_⟩
  · intro e he
    rw [hslot]
    have he' : e ∈ tlInsert s.tl (s2.now + d) j := by rw [← e1]; exact he
    rcases List.mem_cons.1 ((hperm.mem_iff).1 he') with rfl | hm
    · simp [hts.1]
    · split
      · exact hts.1
      · exact h.tlAct e hm
  · show (List.map Prod.snd (tlInsert s2.tl (s2.now + d) j)).Nodup
    rw [e1]
    exact ((hperm.map Prod.snd).nodup_iff).2 (List.nodup_cons.2 ⟨hjtl, h.tlNd⟩)
  · intro i hi
    rw [hcnt] at hi
    have hq := h.qJob i hi
    rw [hslot]
    have : i ≠ j := by intro e; subst e; rw [hje] at hq; cases hq.1
    simp only [this, if_false]; exact hq
  · intro i; rw [hcnt]; exact h.qNd i
  · intro i hi
    have hq := h.fly i hi
    rw [hslot]
    have : i ≠ j := by intro e; subst e; rw [hje] at hq; cases hq.1
    simp only [this, if_false]; exact hq
  · intro e he
    have he' : e ∈ assoc s.th hh (c * 2^32 + j) := by rw [← e2]; exact he
    unfold assoc at he'
    rcases List.mem_cons.1 he' with rfl | he'
    · show 1 ≤ (c * 2^32 + j) / 2^32
      rw [e4]
      have h2 : 0 < 2^32 := by decide
      exact (Nat.le_div_iff_mul_le h2).2 (by omega)
    · exact h.hnd e (List.mem_filter.1 he').1
  · intro i
    rw [hslot]; split
    · rw [hts.1]; simp
    · exact h.notDel i
  · intro i
    rw [hslot]; split
    · exact fun _ => hts.2.2
    · exact h.actTl i
  · intro i
    rw [hslot]; split
    · intro _ _; rw [hts.2.1]; omega
    · exact h.nz i

/-! ### qb_loop_timer_del -/

theorem TG.timerDel {fl : Option Nat} {s : St} (h : TG fl s) (v : Nat) (hv : v = 0 ∨ 1 ≤ v / 2^32) :
    TG fl (s.timerDel v).1 := by
  unfold St.timerDel
  split
  · exact h
  · rename_i i hok
    dsimp only
    split
    · exact h
    · split
      · exact h
      · rename_i hnd hst
        -- the handle is valid: slot i carries its (non-zero) check word and is ACTIVE or JOBLIST
        have hchk : (s.timerSlot i).check ≠ 0 := by
          unfold St.timerFromHandle at hok
          split at hok
          · cases hok
          · rename_i h0
            dsimp only at hok
            split at hok
            · cases hok
            · rename_i hc
              have hi : v % 2^32 = i := by injection hok
              rcases hv with h0' | h1
              · exact absurd h0' h0
              · rw [← hi]; simp only [ne_eq, Decidable.not_not] at hc; rw [hc]; omega
        have hnfl : fl ≠ some i := fun e => hchk (h.fly i e).2
        have hst' : (s.timerSlot i).state = .active ∨ (s.timerSlot i).state = .joblist := by
          cases hs : (s.timerSlot i).state <;> simp_all
        have hlt : i < s.timers.length := timerSlot_lt (by rcases hst' with e | e <;> rw [e] <;> simp)
        generalize hs1 : (if ((s.timerSlot i).state == EState.joblist) = true then
          s.itemDel (s.timerSlot i).prio (.timer i) else s) = s1
        have f1 : Fr s s1 true true := by subst hs1; exact Fr.ite (itemDel_fr _ _ _) (Fr.refl s _ _)
        have hc0 : s1.cnt (.timer i) = 0 := by
          subst hs1
          rcases hst' with e | e
          · have : ((s.timerSlot i).state == EState.joblist) = false := by rw [e]; rfl
            simp only [this, Bool.false_eq_true, if_false]
            rcases Nat.eq_zero_or_pos (s.cnt (.timer i)) with h0 | hp
            · exact h0
            · have := (h.qJob i hp).1
              rw [e] at this; cases this
          · have : ((s.timerSlot i).state == EState.joblist) = true := by rw [e]; rfl
            simp only [this, if_true]
            exact cnt_itemDel_self s _ _ (h.qNd i)
        have g1 : TG fl s1 := h.frame f1
        have hslot1 : ∀ k, s1.timerSlot k = s.timerSlot k := fun k => by unfold St.timerSlot; rw [(f1.t rfl).1]
        generalize hs2 : (if (s.timerSlot i).hasTl = true then
          ({ s1 with tl := s1.tl.filter (fun e => e.2 != i) } : St) else s1) = s2
        have h2a : s2.timers = s1.timers ∧ s2.th = s1.th ∧ (∀ x, s2.cnt x = s1.cnt x) ∧
            (∀ e ∈ s2.tl, e ∈ s1.tl ∧ e.2 ≠ i) ∧ (s2.tl.map Prod.snd).Nodup := by
          subst hs2
          split
          · refine ⟨rfl, rfl, fun _ => rfl, ?_, (List.filter_sublist.map _).nodup g1.tlNd⟩
            intro e he
            have := List.mem_filter.1 he
            exact ⟨this.1, by simpa using this.2⟩
          · rename_i hno
            refine ⟨rfl, rfl, fun _ => rfl, ?_, g1.tlNd⟩
            intro e he
            refine ⟨he, ?_⟩
            intro hei
            have ha := g1.tlAct e he
            rw [hei, hslot1] at ha
            exact hno (h.actTl i ha)
        obtain ⟨e1, e2, e3, e4, e5⟩ := h2a
        have hlt2 : i < s2.timers.length := by rw [e1, (f1.t rfl).1]; exact hlt
        have hslot : ∀ k, (s2.setTimer i { s.timerSlot i with state := .empty, hasTl := false }).timerSlot k =
            if k = i then { s.timerSlot i with state := .empty, hasTl := false } else s.timerSlot k := by
          intro k
          rw [timerSlot_setTimer_le _ _ _ _ (Nat.le_of_lt hlt2)]
          split
          · rfl
          · rw [← hslot1]; unfold St.timerSlot; rw [e1]
        have hcnt : ∀ x, (s2.setTimer i { s.timerSlot i with state := .empty, hasTl := false }).cnt x = s1.cnt x :=
          fun x => (cnt_congr (by simp) (by simp) (by simp) x).trans (e3 x)
        refine ⟨?_, by simpa using e5, ?_, ?_, ?_, by simpa [e2] using g1.hnd, ?_, ?_, ?_⟩
        · intro e he
          rw [hslot]
          have he' : e ∈ s2.tl := by simpa using he
          simp only [(e4 e he').2, if_false]
          rw [← hslot1]; exact g1.tlAct e (e4 e he').1
        · intro k hk
          rw [hcnt] at hk
          rw [hslot]
          have : k ≠ i := by intro e; subst e; rw [hc0] at hk; cases hk
          simp only [this, if_false]
          rw [← hslot1]; exact g1.qJob k hk
        · intro k; rw [hcnt]; exact g1.qNd k
        · intro k hk
          rw [hslot]
          have : k ≠ i := by intro e; subst e; exact hnfl hk
          simp only [this, if_false]
          exact h.fly k hk
        · intro k; rw [hslot]; split
          · simp
          · exact h.notDel k
        · intro k; rw [hslot]; split
          · intro hh; cases hh
          · exact h.actTl k
        · intro k; rw [hslot]; split
          · intro hh; exact absurd rfl hh
          · exact h.nz k

end QbVerif.Loop
