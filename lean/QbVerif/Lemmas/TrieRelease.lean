/-
`trie_node_release`: unlinking and freeing a keyless, childless node (and then, recursively, its
parent) keeps the structural invariant `Inv` and does not change what any `trie_get` returns.

`Unlink t id p n pn`: the situation of one step — `Inv t`, node `id` (= `n`) is allocated, has parent
`p` (= `pn`), no key, no children.  `unlinked t id p n` is the store after
`p->children[node->idx] = NULL; trie_destroy_node(node)`.
-/
import QbVerif.Lemmas.TrieInv

namespace QbVerif.Trie
open QbVerif.Map

theorem node?_free (t : T) (id j : Nat) : (t.free id).node? j = if j = id then none else t.node? j := by
  unfold T.node? T.free
  simp only [List.getElem?_set]
  by_cases h : id = j
  · subst h; by_cases h2 : id < t.nodes.length <;> simp [h2]
  · have : ¬ j = id := fun e => h e.symm
    simp [h, this]

theorem child_set_none (n : Node) (a i : Nat) :
    ({ n with children := n.children.set a none } : Node).child i = if i = a then none else n.child i := by
  unfold Node.child
  simp only [List.getElem?_set]
  by_cases h : a = i
  · subst h; by_cases h2 : a < n.children.length <;> simp [h2]
  · have : ¬ i = a := fun e => h e.symm
    simp [h, this]

theorem child_none_of_all {n : Node} (h : n.children.all (·.isNone) = true) (i : Nat) : n.child i = none := by
  unfold Node.child
  cases hi : n.children[i]? with
  | none => rfl
  | some o =>
    have := List.all_eq_true.1 h o (List.mem_of_getElem? hi)
    cases o with
    | none => rfl
    | some x => simp at this

theorem child_none_of_dead {t : T} {q : Nat} (h : t.node? q = none) (i : Nat) : (t.nd q).child i = none := by
  simp [T.nd, h, Node.child, Node.blank]

/-- the store after `p->children[node->idx] = NULL; trie_destroy_node(node)` -/
def unlinked (t : T) (id p : Nat) (n : Node) : T :=
  (t.modify p fun x => { x with children := x.children.set n.idx none }).free id

structure Unlink (t : T) (id p : Nat) (n pn : Node) : Prop where
  inv : Inv t
  hn : t.node? id = some n
  hp : n.parent = some p
  hkey : n.key = none
  hall : n.children.all (·.isNone) = true
  hpn : t.node? p = some pn

namespace Unlink
variable {t : T} {id p : Nat} {n pn : Node}

/-- the parent of an allocated node is allocated -/
theorem mk' (inv : Inv t) (hn : t.node? id = some n) (hp : n.parent = some p) (hkey : n.key = none)
    (hall : n.children.all (·.isNone) = true) : ∃ pn, Unlink t id p n pn := by
  have hc := inv.parent_ok id n p hn hp
  cases hpn : t.node? p with
  | none => rw [child_none_of_dead hpn] at hc; exact absurd hc (by simp)
  | some pn => exact ⟨pn, ⟨inv, hn, hp, hkey, hall, hpn⟩⟩

theorem hne (u : Unlink t id p n pn) : p ≠ id := by
  intro e; subst e
  have hc := u.inv.parent_ok p n p u.hn u.hp
  rw [nd_of_node? u.hn, child_none_of_all u.hall] at hc
  exact absurd hc (by simp)

theorem hid0 (u : Unlink t id p n pn) : id ≠ 0 := by
  intro e; subst e
  obtain ⟨hd, hd0, hpar, _⟩ := u.inv.header
  rw [u.hn] at hd0; injection hd0 with hd0; subst hd0
  rw [u.hp] at hpar; exact absurd hpar (by simp)

theorem hval (u : Unlink t id p n pn) : n.val = 0 := by
  by_cases h : n.val = 0
  · exact h
  · have := (u.inv.val_key id (by rw [nd_of_node? u.hn]; exact h)).1
    rw [nd_of_node? u.hn, u.hkey] at this
    exact absurd this (by simp)

theorem node?_eq (u : Unlink t id p n pn) (j : Nat) :
    (unlinked t id p n).node? j =
      if j = id then none else if j = p then some { pn with children := pn.children.set n.idx none }
      else t.node? j := by
  unfold unlinked T.modify
  rw [node?_free, node?_set, nd_of_node? u.hpn]
  simp [lt_of_node? u.hpn]

theorem nd_eq (u : Unlink t id p n pn) (j : Nat) :
    (unlinked t id p n).nd j =
      if j = id then Node.blank none else if j = p then { pn with children := pn.children.set n.idx none }
      else t.nd j := by
  unfold T.nd
  rw [u.node?_eq]
  split
  · rfl
  · split <;> rfl

theorem seg_eq (u : Unlink t id p n pn) {q : Nat} (hq : q ≠ id) : ((unlinked t id p n).nd q).seg = (t.nd q).seg := by
  rw [u.nd_eq]
  simp only [hq, if_false]
  split
  · rename_i e; subst e; rw [nd_of_node? u.hpn]
  · rfl

theorem child_eq (u : Unlink t id p n pn) (q i : Nat) :
    ((unlinked t id p n).nd q).child i =
      if q = id then none else if q = p ∧ i = n.idx then none else (t.nd q).child i := by
  rw [u.nd_eq]
  by_cases hq : q = id
  · simp [hq, Node.child, Node.blank]
  · simp only [hq, if_false]
    by_cases hqp : q = p
    · subst hqp
      simp only [if_true, true_and]
      rw [child_set_none, nd_of_node? u.hpn]
    · simp [hqp]

/-- an edge of the new store is an edge of the old one, and does not touch the freed node -/
theorem child_sub (u : Unlink t id p n pn) {q i c : Nat} (h : ((unlinked t id p n).nd q).child i = some c) :
    (t.nd q).child i = some c ∧ q ≠ id ∧ c ≠ id ∧ ¬ (q = p ∧ i = n.idx) := by
  rw [u.child_eq] at h
  split at h
  · exact absurd h (by simp)
  · rename_i hq
    split at h
    · exact absurd h (by simp)
    · rename_i hqi
      refine ⟨h, hq, ?_, hqi⟩
      intro e; subst e
      obtain ⟨cn, hcn, hcp, hci⟩ := u.inv.child_ok q i c h
      rw [u.hn] at hcn; injection hcn with hcn; subst hcn
      rw [u.hp] at hcp; injection hcp with hcp
      exact hqi ⟨hcp.symm, hci.symm⟩

theorem child_keep (u : Unlink t id p n pn) {q i c : Nat} (h : (t.nd q).child i = some c) (hc : c ≠ id) :
    ((unlinked t id p n).nd q).child i = some c := by
  rw [u.child_eq]
  have hq : q ≠ id := by
    intro e; subst e
    rw [nd_of_node? u.hn, child_none_of_all u.hall] at h
    exact absurd h (by simp)
  simp only [hq, if_false]
  split
  · rename_i e
    obtain ⟨e1, e2⟩ := e
    subst e1; subst e2
    rw [u.inv.parent_ok id n q u.hn u.hp] at h
    injection h with h; exact absurd h.symm hc
  · exact h

theorem start_fwd (u : Unlink t id p n pn) {x : Nat} {px : List Nat} (h : Start t x px) (hx : x ≠ id) :
    Start (unlinked t id p n) x px := by
  induction h with
  | root => exact Start.root
  | @edge par x pp c hs hc hb ih =>
    have hpar : par ≠ id := by
      intro e; subst e
      rw [nd_of_node? u.hn, child_none_of_all u.hall] at hc
      exact absurd hc (by simp)
    rw [← u.seg_eq hpar]
    exact Start.edge (ih hpar) (u.child_keep hc hx) hb

theorem start_bwd (u : Unlink t id p n pn) {x : Nat} {px : List Nat} (h : Start (unlinked t id p n) x px) :
    Start t x px ∧ x ≠ id := by
  induction h with
  | root => exact ⟨Start.root, fun e => u.hid0 e.symm⟩
  | @edge par x pp c hs hc hb ih =>
    obtain ⟨h1, h2, h3, _⟩ := u.child_sub hc
    rw [u.seg_eq h2]
    exact ⟨Start.edge ih.1 h1 hb, h3⟩

theorem path_iff (u : Unlink t id p n pn) (x : Nat) (k : List Nat) :
    Path (unlinked t id p n) x k ↔ Path t x k ∧ x ≠ id := by
  constructor
  · rintro ⟨px, hs, rfl⟩
    obtain ⟨h1, h2⟩ := u.start_bwd hs
    exact ⟨⟨px, h1, by rw [u.seg_eq h2]⟩, h2⟩
  · rintro ⟨⟨px, hs, rfl⟩, hx⟩
    exact ⟨px, u.start_fwd hs hx, by rw [u.seg_eq hx]⟩

/-- non-structural fields of the surviving nodes are untouched -/
theorem fields_eq (u : Unlink t id p n pn) {q : Nat} (hq : q ≠ id) :
    ((unlinked t id p n).nd q).key = (t.nd q).key ∧ ((unlinked t id p n).nd q).val = (t.nd q).val ∧
    ((unlinked t id p n).nd q).removed = (t.nd q).removed ∧
    ((unlinked t id p n).nd q).refcount = (t.nd q).refcount := by
  rw [u.nd_eq]
  simp only [hq, if_false]
  split
  · rename_i e; subst e; rw [nd_of_node? u.hpn]; exact ⟨rfl, rfl, rfl, rfl⟩
  · exact ⟨rfl, rfl, rfl, rfl⟩

/-- one step of `trie_node_release` keeps the invariant -/
theorem inv_step (u : Unlink t id p n pn) : Inv (unlinked t id p n) := by
  refine ⟨?_, ?_, ?_, ?_, ?_, ?_, ?_, ?_, ?_⟩
  · obtain ⟨hd, hd0, hpar, hs, hk, hv⟩ := u.inv.header
    rw [u.node?_eq]
    have h0 : ¬ (0 = id) := fun e => u.hid0 e.symm
    simp only [h0, if_false]
    by_cases e : 0 = p
    · subst e
      rw [u.hpn] at hd0; injection hd0 with hd0; subst hd0
      exact ⟨{ pn with children := pn.children.set n.idx none }, by simp, hpar, hs, hk, hv⟩
    · exact ⟨hd, by simp [e, hd0], hpar, hs, hk, hv⟩
  · intro q i c hc
    obtain ⟨h1, _, h3, _⟩ := u.child_sub hc
    obtain ⟨cn, hcn, hcp, hci⟩ := u.inv.child_ok q i c h1
    rw [u.node?_eq]
    simp only [h3, if_false]
    by_cases e : c = p
    · subst e
      rw [u.hpn] at hcn; injection hcn with hcn; subst hcn
      exact ⟨{ pn with children := pn.children.set n.idx none }, by simp, hcp, hci⟩
    · exact ⟨cn, by simp [e, hcn], hcp, hci⟩
  · intro j m q hm hq
    rw [u.node?_eq] at hm
    by_cases hj : j = id
    · simp [hj] at hm
    · simp only [hj, if_false] at hm
      by_cases e : j = p
      · subst e
        simp at hm; subst hm
        exact u.child_keep (u.inv.parent_ok j pn q u.hpn hq) hj
      · simp only [e, if_false] at hm
        exact u.child_keep (u.inv.parent_ok j m q hm hq) hj
  · intro j m hm
    rw [u.node?_eq] at hm
    by_cases hj : j = id
    · simp [hj] at hm
    · simp only [hj, if_false] at hm
      have : ∃ m', t.node? j = some m' := by
        by_cases e : j = p
        · subst e; exact ⟨pn, u.hpn⟩
        · simp only [e, if_false] at hm; exact ⟨m, hm⟩
      obtain ⟨m', hm'⟩ := this
      obtain ⟨px, hpx⟩ := u.inv.reach j m' hm'
      exact ⟨px, u.start_fwd hpx hj⟩
  · intro j k hk
    have hj : j ≠ id := by
      intro e; subst e
      rw [u.nd_eq] at hk; simp [Node.blank] at hk
    rw [(u.fields_eq hj).1] at hk
    exact (u.path_iff j k).2 ⟨u.inv.key_path j k hk, hj⟩
  · intro j
    by_cases hj : j = id
    · subst hj; rw [u.nd_eq]; simp [Node.blank]
    · obtain ⟨e1, e2, _, e4⟩ := u.fields_eq hj
      rw [e1, e2, e4]; exact u.inv.val_key j
  · intro j
    by_cases hj : j = id
    · subst hj; rw [u.nd_eq]; simp [Node.blank]
    · obtain ⟨e1, e2, _, _⟩ := u.fields_eq hj
      rw [e1, e2]; exact u.inv.key_val j
  · intro j
    by_cases hj : j = id
    · subst hj; rw [u.nd_eq]; simp [Node.blank]
    · obtain ⟨_, e2, e3, _⟩ := u.fields_eq hj
      rw [e2, e3]; exact u.inv.removed_val j
  · intro j
    by_cases hj : j = id
    · subst hj; rw [u.nd_eq]; simp [Node.blank]
    · rw [u.seg_eq hj]; exact u.inv.seg_bytes j

/-- … and does not change what `trie_lookup` finds, except that the freed node is not found -/
theorem lookup_eq (u : Unlink t id p n pn) {k : List Nat} (hb : ∀ c ∈ k, c < 256) :
    (unlinked t id p n).lookup k true = if t.lookup k true = some id then none else t.lookup k true := by
  cases hl : t.lookup k true with
  | none =>
    simp only [reduceCtorEq, if_false]
    cases hl' : (unlinked t id p n).lookup k true with
    | none => rfl
    | some x =>
      have := ((u.path_iff x k).1 (lookup_sound hb hl')).1
      rw [lookup_complete this true] at hl; exact absurd hl (by simp)
  | some x =>
    by_cases hx : x = id
    · rw [hx] at hl
      simp only [hx, if_true]
      cases hl' : (unlinked t id p n).lookup k true with
      | none => rfl
      | some y =>
        obtain ⟨h1, h2⟩ := (u.path_iff y k).1 (lookup_sound hb hl')
        rw [lookup_complete h1 true] at hl
        injection hl with hl; exact absurd hl h2
    · have : ¬ (some x = some id) := fun e => hx (Option.some.inj e)
      simp only [this, if_false]
      exact lookup_complete ((u.path_iff x k).2 ⟨lookup_sound hb hl, hx⟩) true

/-- … nor what any `trie_get` returns -/
theorem get_eq (u : Unlink t id p n pn) {k : List Nat} (hb : ∀ c ∈ k, c < 256) :
    (unlinked t id p n).get k = t.get k := by
  unfold T.get
  rw [u.lookup_eq hb]
  cases hl : t.lookup k true with
  | none => rfl
  | some x =>
    by_cases hx : x = id
    · simp [hx, nd_of_node? u.hn, u.hval]
    · have : ¬ (some x = some id) := fun e => hx (Option.some.inj e)
      simp only [this, if_false]
      obtain ⟨_, e2, e3, _⟩ := u.fields_eq hx
      rw [e2, e3]

end Unlink

/-- `trie_node_release` keeps the invariant and leaves every `trie_get` unchanged -/
theorem release_inv_get : ∀ (fuel : Nat) (t : T) (id : Nat), Inv t → (∃ n, t.node? id = some n) →
    Inv (t.release fuel id) ∧ ∀ k : List Nat, (∀ c ∈ k, c < 256) → (t.release fuel id).get k = t.get k := by
  intro fuel
  induction fuel with
  | zero => intro t id h _; exact ⟨h, fun _ _ => rfl⟩
  | succ f ih =>
    intro t id h hlive
    obtain ⟨n, hn⟩ := hlive
    simp only [T.release, nd_of_node? hn]
    cases hp : n.parent with
    | none => exact ⟨h, fun _ _ => rfl⟩
    | some p =>
      simp only
      split
      · rename_i hc
        simp only [Bool.and_eq_true] at hc
        obtain ⟨⟨hk, _⟩, hall⟩ := hc
        have hkey : n.key = none := by
          cases hkk : n.key with
          | none => rfl
          | some x => rw [hkk] at hk; simp at hk
        obtain ⟨pn, u⟩ := Unlink.mk' h hn hp hkey hall
        have hlive' : ∃ m, (unlinked t id p n).node? p = some m := by
          rw [u.node?_eq]; simp [u.hne]
        obtain ⟨h1, h2⟩ := ih (unlinked t id p n) p u.inv_step hlive'
        exact ⟨h1, fun k hb => (h2 k hb).trans (u.get_eq hb)⟩
      · exact ⟨h, fun _ _ => rfl⟩

end QbVerif.Trie
