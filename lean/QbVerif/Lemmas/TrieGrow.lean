/-
The two growth steps of `trie_insert` that do not split a node:

* `new_child_node(t, parent, ch)` where slot `TRIE_CHAR2INDEX(ch)` of `parent` is empty (`Grow`);
* the segment extension "we are on a leaf (with no value) so just add it as a segment" (`Extend`).

Both keep the structural invariant `Inv`, keep the path of every existing node, and keep the set of
entries (`Entries t k v`: some not-removed node on path `k` holds value `v`), hence every `trie_get`.
-/
import QbVerif.Lemmas.TrieInv

namespace QbVerif.Trie
open QbVerif.Map

/-- the trie holds `v` under key `k` -/
def Entries (t : T) (k : List Nat) (v : Val) : Prop :=
  ∃ x, Path t x k ∧ (t.nd x).removed = false ∧ (t.nd x).val = v ∧ v ≠ 0

theorem get_iff_entries {t : T} {k : Key} {v : Val} (hb : ∀ c ∈ k, c < 256) :
    t.get k = some v ↔ Entries t k v := by
  constructor
  · intro h
    unfold T.get at h
    cases hl : t.lookup k true with
    | none => rw [hl] at h; exact absurd h (by simp)
    | some id =>
      rw [hl] at h
      simp only at h
      split at h
      · exact absurd h (by simp)
      · rename_i hc
        injection h with h
        simp at hc
        exact ⟨id, lookup_sound hb hl, hc.1, h, by rw [← h]; exact hc.2⟩
  · rintro ⟨id, hp, hr, hv, hv0⟩
    rw [get_eq_of_path hp]
    subst hv
    simp [hr, hv0]

/-- two stores with the same entries answer every `trie_get` alike -/
theorem get_ext {t t' : T} {k : Key} (hb : ∀ c ∈ k, c < 256) (h : ∀ v, Entries t' k v ↔ Entries t k v) :
    t'.get k = t.get k := by
  cases hg : t.get k with
  | none =>
    cases hg' : t'.get k with
    | none => rfl
    | some v => rw [((get_iff_entries hb).2 ((h v).1 ((get_iff_entries hb).1 hg')))] at hg; exact absurd hg (by simp)
  | some v => exact (get_iff_entries hb).2 ((h v).2 ((get_iff_entries hb).1 hg))

/-! ### the child array after `new_child_node` -/

/-- `realloc` + NULL fill of `new_child_node` -/
def padKids (l : List (Option Nat)) (idx : Nat) : List (Option Nat) :=
  if idx ≥ l.length then l ++ List.replicate (max (idx + 1) 30 - l.length) none else l

theorem padKids_length (l : List (Option Nat)) (idx : Nat) : idx < (padKids l idx).length := by
  unfold padKids
  split
  · simp; omega
  · omega

theorem padKids_get (l : List (Option Nat)) (idx i : Nat) : ((padKids l idx)[i]?).join = (l[i]?).join := by
  unfold padKids
  split
  · by_cases hi : i < l.length
    · rw [List.getElem?_append_left hi]
    · rw [List.getElem?_append_right (by omega), List.getElem?_eq_none (by omega : l.length ≤ i)]
      rw [List.getElem?_replicate]
      split <;> rfl
  · rfl

theorem child_pad_set (n : Node) (idx x i : Nat) :
    ({ n with children := (padKids n.children idx).set idx (some x) } : Node).child i =
      if i = idx then some x else n.child i := by
  unfold Node.child
  simp only [List.getElem?_set]
  by_cases h : idx = i
  · subst h; simp [padKids_length]
  · have : ¬ i = idx := fun e => h e.symm
    simp only [h, this, if_false]
    exact padKids_get _ _ _

/-! ### `new_child_node` on an empty slot -/

structure Grow (t : T) (par c : Nat) (pn : Node) : Prop where
  inv : Inv t
  hpn : t.node? par = some pn
  hnone : pn.child (charIdx c) = none
  hc : c < 256

/-- the store after `new_child_node(t, par, c)` -/
def grown (t : T) (par c : Nat) : T := (t.newChild par c).1

namespace Grow
variable {t : T} {par c : Nat} {pn : Node}

/-- the parent after the call -/
def pn' (pn : Node) (c newId : Nat) : Node :=
  { pn with children := (padKids pn.children (charIdx c)).set (charIdx c) (some newId) }

/-- the new node -/
def fresh (par c : Nat) : Node := { Node.blank (some par) with idx := charIdx c }

theorem newChild_id (t : T) (par c : Nat) : (t.newChild par c).2 = t.nodes.length := rfl

theorem node?_eq (g : Grow t par c pn) (j : Nat) :
    (grown t par c).node? j =
      if j = par then some (pn' pn c t.nodes.length)
      else if j = t.nodes.length then some (fresh par c) else t.node? j := by
  have hlt := lt_of_node? g.hpn
  unfold grown T.newChild
  simp only
  rw [node?_set, nd_of_node? g.hpn]
  by_cases hj : j = par
  · subst hj
    rw [if_pos ⟨rfl, by simp only [List.length_append, List.length_singleton]; omega⟩, if_pos rfl]
    rfl
  · simp only [hj, false_and, if_false]
    unfold T.node?
    simp only
    by_cases h1 : j < t.nodes.length
    · have : ¬ j = t.nodes.length := by omega
      rw [List.getElem?_append_left h1]; simp [this]
    · rw [List.getElem?_append_right (by omega)]
      by_cases h2 : j = t.nodes.length
      · simp [h2, fresh]
      · have : j - t.nodes.length ≠ 0 := by omega
        simp [h2, List.getElem?_eq_none (by omega : t.nodes.length ≤ j)]
        cases hh : j - t.nodes.length with
        | zero => exact absurd hh this
        | succ m => simp

theorem par_ne (g : Grow t par c pn) : par ≠ t.nodes.length := by
  have := lt_of_node? g.hpn; omega

theorem dead_new (t : T) : t.node? t.nodes.length = none := by
  unfold T.node?; rw [List.getElem?_eq_none (Nat.le_refl _)]; rfl

theorem nd_eq (g : Grow t par c pn) (j : Nat) :
    (grown t par c).nd j =
      if j = par then pn' pn c t.nodes.length
      else if j = t.nodes.length then fresh par c else t.nd j := by
  unfold T.nd
  rw [g.node?_eq]
  split
  · rfl
  · split <;> rfl

theorem seg_eq (g : Grow t par c pn) (q : Nat) : ((grown t par c).nd q).seg = (t.nd q).seg := by
  rw [g.nd_eq]
  split
  · rename_i e; subst e; rw [nd_of_node? g.hpn]; rfl
  · split
    · rename_i e; subst e; simp [T.nd, dead_new, fresh, Node.blank]
    · rfl

theorem child_eq (g : Grow t par c pn) (q i : Nat) :
    ((grown t par c).nd q).child i =
      if q = par then (if i = charIdx c then some t.nodes.length else pn.child i)
      else if q = t.nodes.length then none else (t.nd q).child i := by
  rw [g.nd_eq]
  split
  · exact child_pad_set pn (charIdx c) t.nodes.length i
  · split
    · simp [fresh, Node.blank, Node.child]
    · rfl

theorem child_keep (g : Grow t par c pn) {q i x : Nat} (h : (t.nd q).child i = some x) :
    ((grown t par c).nd q).child i = some x := by
  rw [g.child_eq]
  split
  · rename_i e; subst e
    rw [nd_of_node? g.hpn] at h
    have : i ≠ charIdx c := by
      intro e; subst e; rw [g.hnone] at h; exact absurd h (by simp)
    simp [this, h]
  · split
    · rename_i e; subst e
      simp [T.nd, dead_new, Node.blank, Node.child] at h
    · exact h

/-- a child pointer of the old store points to an allocated node, hence not to the new one -/
theorem old_child_ne (g : Grow t par c pn) {q i x : Nat} (h : (t.nd q).child i = some x) : x ≠ t.nodes.length := by
  obtain ⟨cn, hcn, _⟩ := g.inv.child_ok q i x h
  have := lt_of_node? hcn; omega

theorem start_fwd (g : Grow t par c pn) {x : Nat} {px : List Nat} (h : Start t x px) :
    Start (grown t par c) x px := by
  induction h with
  | root => exact Start.root
  | @edge q x pp c' _ hc hb ih =>
    rw [← g.seg_eq q]
    exact Start.edge ih (g.child_keep hc) hb

theorem start_new (g : Grow t par c pn) {pp : List Nat} (h : Start t par pp) :
    Start (grown t par c) t.nodes.length (pp ++ pn.seg ++ [c]) := by
  have := Start.edge (g.start_fwd h) (c := c) (id := t.nodes.length) (by rw [g.child_eq]; simp) g.hc
  rw [g.seg_eq, nd_of_node? g.hpn] at this
  exact this

theorem start_bwd (g : Grow t par c pn) {x : Nat} {px : List Nat} (h : Start (grown t par c) x px) :
    (x ≠ t.nodes.length ∧ Start t x px) ∨
    (x = t.nodes.length ∧ ∃ pp, Start t par pp ∧ px = pp ++ pn.seg ++ [c]) := by
  induction h with
  | root =>
    obtain ⟨hd, hd0, _⟩ := g.inv.header
    have := lt_of_node? hd0
    exact Or.inl ⟨by omega, Start.root⟩
  | @edge q x pp c' _ hc hb ih =>
    rw [g.child_eq] at hc
    rw [g.seg_eq]
    split at hc
    · rename_i e; subst e
      rcases ih with ⟨_, ih⟩ | ⟨e, _⟩
      · split at hc
        · rename_i e2
          injection hc with hc; subst hc
          have : c' = c := charIdx_inj hb g.hc e2
          subst this
          rw [nd_of_node? g.hpn]
          exact Or.inr ⟨rfl, pp, ih, rfl⟩
        · have hc' : (t.nd q).child (charIdx c') = some x := by rw [nd_of_node? g.hpn]; exact hc
          exact Or.inl ⟨g.old_child_ne hc', Start.edge ih hc' hb⟩
      · exact absurd e g.par_ne
    · split at hc
      · exact absurd hc (by simp)
      · rename_i hq1 hq2
        rcases ih with ⟨_, ih⟩ | ⟨e, _⟩
        · exact Or.inl ⟨g.old_child_ne hc, Start.edge ih hc hb⟩
        · exact absurd e hq2

theorem fields_eq (g : Grow t par c pn) (q : Nat) :
    ((grown t par c).nd q).key = (t.nd q).key ∧ ((grown t par c).nd q).val = (t.nd q).val ∧
    ((grown t par c).nd q).removed = (t.nd q).removed ∧
    ((grown t par c).nd q).refcount = (t.nd q).refcount := by
  rw [g.nd_eq]
  split
  · rename_i e; subst e; rw [nd_of_node? g.hpn]; exact ⟨rfl, rfl, rfl, rfl⟩
  · split
    · rename_i e; subst e; simp [T.nd, dead_new, fresh, Node.blank]
    · exact ⟨rfl, rfl, rfl, rfl⟩

/-- paths of the old nodes are what they were -/
theorem path_old (g : Grow t par c pn) {x : Nat} (hx : x ≠ t.nodes.length) (k : List Nat) :
    Path (grown t par c) x k ↔ Path t x k := by
  constructor
  · rintro ⟨px, hs, rfl⟩
    rcases g.start_bwd hs with ⟨_, h⟩ | ⟨e, _⟩
    · exact ⟨px, h, by rw [g.seg_eq]⟩
    · exact absurd e hx
  · rintro ⟨px, hs, rfl⟩
    exact ⟨px, g.start_fwd hs, by rw [g.seg_eq]⟩

theorem entries_eq (g : Grow t par c pn) (k : List Nat) (v : Val) :
    Entries (grown t par c) k v ↔ Entries t k v := by
  constructor
  · rintro ⟨x, hp, hr, hv, hv0⟩
    have hx : x ≠ t.nodes.length := by
      intro e; subst e
      rw [(g.fields_eq _).2.1] at hv
      simp [T.nd, dead_new, Node.blank] at hv
      exact hv0 hv.symm
    obtain ⟨_, e2, e3, _⟩ := g.fields_eq x
    exact ⟨x, (g.path_old hx k).1 hp, by rw [← e3]; exact hr, by rw [← e2]; exact hv, hv0⟩
  · rintro ⟨x, hp, hr, hv, hv0⟩
    have hx : x ≠ t.nodes.length := by
      intro e; subst e
      simp [T.nd, dead_new, Node.blank] at hv
      exact hv0 hv.symm
    obtain ⟨_, e2, e3, _⟩ := g.fields_eq x
    exact ⟨x, (g.path_old hx k).2 hp, by rw [e3]; exact hr, by rw [e2]; exact hv, hv0⟩

/-- `new_child_node` on an empty slot keeps the invariant -/
theorem inv_step (g : Grow t par c pn) : Inv (grown t par c) := by
  have hparlt := lt_of_node? g.hpn
  refine ⟨?_, ?_, ?_, ?_, ?_, ?_, ?_, ?_, ?_⟩
  · obtain ⟨hd, hd0, hpar, hs, hk, hv⟩ := g.inv.header
    rw [g.node?_eq]
    by_cases e : 0 = par
    · subst e
      rw [g.hpn] at hd0; injection hd0 with hd0; subst hd0
      exact ⟨pn' pn c t.nodes.length, by simp, hpar, hs, hk, hv⟩
    · have : ¬ (0 = t.nodes.length) := by have := lt_of_node? hd0; omega
      exact ⟨hd, by simp [e, this, hd0], hpar, hs, hk, hv⟩
  · intro q i x hx
    rw [g.child_eq] at hx
    rw [g.node?_eq]
    split at hx
    · rename_i e; subst e
      split at hx
      · rename_i e2
        injection hx with hx; subst hx
        have : ¬ (t.nodes.length = q) := fun e => g.par_ne e.symm
        exact ⟨fresh q c, by simp [this], rfl, by rw [e2]; rfl⟩
      · have hx' : (t.nd q).child i = some x := by rw [nd_of_node? g.hpn]; exact hx
        obtain ⟨cn, hcn, hcp, hci⟩ := g.inv.child_ok q i x hx'
        by_cases e : x = q
        · subst e
          rw [g.hpn] at hcn; injection hcn with hcn; subst hcn
          exact ⟨pn' pn c t.nodes.length, by simp, hcp, hci⟩
        · have := g.old_child_ne hx'
          exact ⟨cn, by simp [e, this, hcn], hcp, hci⟩
    · split at hx
      · exact absurd hx (by simp)
      · obtain ⟨cn, hcn, hcp, hci⟩ := g.inv.child_ok q i x hx
        by_cases e : x = par
        · subst e
          rw [g.hpn] at hcn; injection hcn with hcn; subst hcn
          exact ⟨pn' pn c t.nodes.length, by simp, hcp, hci⟩
        · have := g.old_child_ne hx
          exact ⟨cn, by simp [e, this, hcn], hcp, hci⟩
  · intro j m q hm hq
    rw [g.node?_eq] at hm
    by_cases e : j = par
    · subst e
      simp at hm; subst hm
      exact g.child_keep (g.inv.parent_ok j pn q g.hpn hq)
    · simp only [e, if_false] at hm
      by_cases e2 : j = t.nodes.length
      · subst e2
        simp at hm; subst hm
        simp [fresh, Node.blank] at hq; subst hq
        rw [g.child_eq]; simp [fresh]
      · simp only [e2, if_false] at hm
        exact g.child_keep (g.inv.parent_ok j m q hm hq)
  · intro j m hm
    rw [g.node?_eq] at hm
    by_cases e2 : j = t.nodes.length
    · subst e2
      obtain ⟨pp, hpp⟩ := g.inv.reach par pn g.hpn
      exact ⟨_, g.start_new hpp⟩
    · have : ∃ m', t.node? j = some m' := by
        by_cases e : j = par
        · subst e; exact ⟨pn, g.hpn⟩
        · simp only [e, e2, if_false] at hm; exact ⟨m, hm⟩
      obtain ⟨m', hm'⟩ := this
      obtain ⟨px, hpx⟩ := g.inv.reach j m' hm'
      exact ⟨px, g.start_fwd hpx⟩
  · intro j k hk
    rw [(g.fields_eq j).1] at hk
    have hj : j ≠ t.nodes.length := by
      intro e; subst e
      simp [T.nd, dead_new, Node.blank] at hk
    exact (g.path_old hj k).2 (g.inv.key_path j k hk)
  · intro j
    obtain ⟨e1, e2, _, e4⟩ := g.fields_eq j
    rw [e1, e2, e4]; exact g.inv.val_key j
  · intro j
    obtain ⟨e1, e2, _, _⟩ := g.fields_eq j
    rw [e1, e2]; exact g.inv.key_val j
  · intro j
    obtain ⟨_, e2, e3, _⟩ := g.fields_eq j
    rw [e2, e3]; exact g.inv.removed_val j
  · intro j; rw [g.seg_eq]; exact g.inv.seg_bytes j

end Grow

/-! ### segment extension -/

structure Extend (t : T) (cur c : Nat) (n : Node) : Prop where
  inv : Inv t
  hn : t.node? cur = some n
  hne : cur ≠ 0
  hval : n.val = 0
  hkids : n.children = []
  hc : c < 256
  hc0 : 0 < c

/-- the store after `cur_node->segment[cur_node->num_segments++] = c` -/
def extended (t : T) (cur c : Nat) (n : Node) : T := t.set cur { n with seg := n.seg ++ [c] }

namespace Extend
variable {t : T} {cur c : Nat} {n : Node}

theorem nd_eq (e : Extend t cur c n) (j : Nat) :
    (extended t cur c n).nd j = if j = cur then { n with seg := n.seg ++ [c] } else t.nd j := by
  unfold extended; rw [nd_set]; simp [lt_of_node? e.hn]

theorem node?_eq (e : Extend t cur c n) (j : Nat) :
    (extended t cur c n).node? j = if j = cur then some { n with seg := n.seg ++ [c] } else t.node? j := by
  unfold extended; rw [node?_set]; simp [lt_of_node? e.hn]

theorem child_eq (e : Extend t cur c n) (q i : Nat) : ((extended t cur c n).nd q).child i = (t.nd q).child i := by
  rw [e.nd_eq]
  split
  · rename_i h; subst h; rw [nd_of_node? e.hn]; rfl
  · rfl

theorem no_child (e : Extend t cur c n) (i : Nat) : (t.nd cur).child i = none := by
  rw [nd_of_node? e.hn]; simp [Node.child, e.hkids]

theorem seg_eq (e : Extend t cur c n) {q : Nat} (hq : q ≠ cur) : ((extended t cur c n).nd q).seg = (t.nd q).seg := by
  rw [e.nd_eq]; simp [hq]

theorem start_iff (e : Extend t cur c n) (x : Nat) (px : List Nat) :
    Start (extended t cur c n) x px ↔ Start t x px := by
  constructor
  · intro h
    induction h with
    | root => exact Start.root
    | @edge q x pp c' _ hc hb ih =>
      rw [e.child_eq] at hc
      have hq : q ≠ cur := by intro h; subst h; rw [e.no_child] at hc; exact absurd hc (by simp)
      rw [e.seg_eq hq]
      exact Start.edge ih hc hb
  · intro h
    induction h with
    | root => exact Start.root
    | @edge q x pp c' _ hc hb ih =>
      have hq : q ≠ cur := by intro h; subst h; rw [e.no_child] at hc; exact absurd hc (by simp)
      rw [← e.seg_eq hq]
      exact Start.edge ih (by rw [e.child_eq]; exact hc) hb

theorem path_other (e : Extend t cur c n) {x : Nat} (hx : x ≠ cur) (k : List Nat) :
    Path (extended t cur c n) x k ↔ Path t x k := by
  unfold Path
  simp only [e.start_iff, e.seg_eq hx]

theorem fields_eq (e : Extend t cur c n) (q : Nat) :
    ((extended t cur c n).nd q).key = (t.nd q).key ∧ ((extended t cur c n).nd q).val = (t.nd q).val ∧
    ((extended t cur c n).nd q).removed = (t.nd q).removed ∧
    ((extended t cur c n).nd q).refcount = (t.nd q).refcount := by
  rw [e.nd_eq]
  split
  · rename_i h; subst h; rw [nd_of_node? e.hn]; exact ⟨rfl, rfl, rfl, rfl⟩
  · exact ⟨rfl, rfl, rfl, rfl⟩

theorem entries_eq (e : Extend t cur c n) (k : List Nat) (v : Val) :
    Entries (extended t cur c n) k v ↔ Entries t k v := by
  have hcur : (t.nd cur).val = 0 := by rw [nd_of_node? e.hn]; exact e.hval
  constructor
  · rintro ⟨x, hp, hr, hv, hv0⟩
    obtain ⟨_, e2, e3, _⟩ := e.fields_eq x
    have hx : x ≠ cur := by
      intro h; subst h; rw [e2, hcur] at hv; exact hv0 hv.symm
    exact ⟨x, (e.path_other hx k).1 hp, by rw [← e3]; exact hr, by rw [← e2]; exact hv, hv0⟩
  · rintro ⟨x, hp, hr, hv, hv0⟩
    obtain ⟨_, e2, e3, _⟩ := e.fields_eq x
    have hx : x ≠ cur := by
      intro h; subst h; rw [hcur] at hv; exact hv0 hv.symm
    exact ⟨x, (e.path_other hx k).2 hp, by rw [e3]; exact hr, by rw [e2]; exact hv, hv0⟩

/-- the segment extension keeps the invariant -/
theorem inv_step (e : Extend t cur c n) : Inv (extended t cur c n) := by
  have hkey : n.key = none := by
    cases hk : n.key with
    | none => rfl
    | some k =>
      have := e.inv.key_val cur (by rw [nd_of_node? e.hn, hk]; rfl)
      rw [nd_of_node? e.hn] at this; exact absurd e.hval this
  refine ⟨?_, ?_, ?_, ?_, ?_, ?_, ?_, ?_, ?_⟩
  · obtain ⟨hd, hd0, hrest⟩ := e.inv.header
    rw [e.node?_eq]
    have : ¬ (0 = cur) := fun h => e.hne h.symm
    exact ⟨hd, by simp [this, hd0], hrest⟩
  · intro q i x hx
    rw [e.child_eq] at hx
    obtain ⟨cn, hcn, hcp, hci⟩ := e.inv.child_ok q i x hx
    rw [e.node?_eq]
    by_cases h : x = cur
    · subst h
      rw [e.hn] at hcn; injection hcn with hcn; subst hcn
      exact ⟨{ n with seg := n.seg ++ [c] }, by simp, hcp, hci⟩
    · exact ⟨cn, by simp [h, hcn], hcp, hci⟩
  · intro j m q hm hq
    rw [e.child_eq]
    rw [e.node?_eq] at hm
    by_cases h : j = cur
    · subst h
      simp at hm; subst hm
      exact e.inv.parent_ok j n q e.hn hq
    · simp only [h, if_false] at hm
      exact e.inv.parent_ok j m q hm hq
  · intro j m hm
    have : ∃ m', t.node? j = some m' := by
      rw [e.node?_eq] at hm
      by_cases h : j = cur
      · subst h; exact ⟨n, e.hn⟩
      · simp only [h, if_false] at hm; exact ⟨m, hm⟩
    obtain ⟨m', hm'⟩ := this
    obtain ⟨px, hpx⟩ := e.inv.reach j m' hm'
    exact ⟨px, (e.start_iff j px).2 hpx⟩
  · intro j k hk
    rw [(e.fields_eq j).1] at hk
    have hj : j ≠ cur := by
      intro h; subst h; rw [nd_of_node? e.hn, hkey] at hk; exact absurd hk (by simp)
    exact (e.path_other hj k).2 (e.inv.key_path j k hk)
  · intro j
    obtain ⟨e1, e2, _, e4⟩ := e.fields_eq j
    rw [e1, e2, e4]; exact e.inv.val_key j
  · intro j
    obtain ⟨e1, e2, _, _⟩ := e.fields_eq j
    rw [e1, e2]; exact e.inv.key_val j
  · intro j
    obtain ⟨_, e2, e3, _⟩ := e.fields_eq j
    rw [e2, e3]; exact e.inv.removed_val j
  · intro j
    rw [e.nd_eq]
    split
    · intro x hx
      simp at hx
      rcases hx with hx | hx
      · have := e.inv.seg_bytes cur x (by rw [nd_of_node? e.hn]; exact hx); exact this
      · rw [hx]; exact ⟨e.hc0, e.hc⟩
    · exact e.inv.seg_bytes j

end Extend

end QbVerif.Trie
