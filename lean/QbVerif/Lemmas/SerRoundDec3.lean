/-
Round trip, decoder half, part 3 (C14): one whole conversion, one item, a whole item list.
`deRun_items` is the alignment + text invariant of the round trip: started in a synchronised
state with `data_pos = D` and `rec.drop D = encOf items ++ …`, the decoder ends synchronised
with `data_pos = D + (encOf items).length` and has produced `printfRec render items`.
-/
import QbVerif.Lemmas.SerRoundDec2

namespace QbVerif.Ser
open QbVerif.Gen

/-- text of one item as the decoder produces it -/
def itemText (render : Render) : Item → Bytes
  | .lit bs => bs
  | .pct => [0x25]
  | .dir d w p v => render (d.mini w p) (dargRec d v)

/-- `printfSpec` with `%s` arguments cut to their literal precision (`dargRec`) -/
def printfRec (render : Render) (items : List Item) : Bytes := items.flatMap (itemText render)

theorem isPush_of_copy (c : UInt8) (h : isCopyChar c = true) : isPush c := by
  unfold isCopyChar at h
  simp only [Bool.or_eq_true, beq_iff_eq] at h
  rcases h with h | h
  · exact Or.inl h
  · exact Or.inr (Or.inr h)

theorem last_not_dot (pre : Bytes) (hpre : ∀ c ∈ pre, isCopyChar c = true) :
    ([0x25] ++ pre).getLast? ≠ some 0x2e := by
  intro h
  have hm := List.mem_of_getLast? h
  simp only [List.singleton_append, List.mem_cons] at hm
  rcases hm with hm | hm
  · revert hm; decide
  · have := hpre _ hm
    revert this; decide

section
variable (render : Render) (rec : Bytes) (strLen : Nat)

/-- precision, length modifier, conversion character -/
theorem deGoal_prec (s : DeSt) (T : Bytes) (D : Nat) (M : Bytes) (d : Dir) (p : Int) (v : Arg) (Rr tail : Bytes)
    (h : DeDir strLen s T D M false false)
    (hM : M.length + (precMini d p).length + (modChars d.mod).length ≤ 17)
    (hM2 : d.prec = .star → p < 0 → M.length + 1 ≤ 17)
    (hds : ∀ ds, d.prec = .lit ds → ∀ c ∈ ds, classify c = .digit)
    (hp : d.prec = .star → int32 p = true)
    (hok : argOk d v = true) (hrec : rec.drop D = pEnc d p ++ (encArg d v ++ Rr))
    (hfit : T.length + (render (M ++ (precMini d p ++ (modChars d.mod ++ [d.conv]))) (dargRec d v)).length < strLen) :
    DeGoal render rec strLen s (precChars d.prec ++ (modChars d.mod ++ [d.conv])) tail
      (T ++ render (M ++ (precMini d p ++ (modChars d.mod ++ [d.conv]))) (dargRec d v))
      (D + ((pEnc d p).length + (encArg d v).length)) := by
  unfold pEnc at hrec ⊢
  unfold precMini at hM hfit ⊢
  cases hpr : d.prec with
  | none =>
    simp only [hpr, precChars, List.nil_append, reduceCtorEq, if_false, List.length_nil, Nat.add_zero,
      Nat.zero_add] at hM hrec hfit ⊢
    exact deGoal_modconv render rec strLen s T D M d v Rr tail h hM hok hrec hfit
  | lit ds =>
    simp only [hpr, precChars, List.nil_append, reduceCtorEq, if_false, List.length_nil, List.length_cons,
      Nat.zero_add] at hM hrec hfit ⊢
    have hpush : ∀ c ∈ (0x2e : UInt8) :: ds, isPush c := by
      intro c hc
      simp only [List.mem_cons] at hc
      rcases hc with rfl | hc
      · exact Or.inr (Or.inl (by decide))
      · exact Or.inr (Or.inr (hds ds hpr c hc))
    obtain ⟨s', e, hs'⟩ := deRun_push render rec strLen (0x2e :: ds) ((modChars d.mod ++ [d.conv]) ++ tail) s T D M
      false false h (by simp only [List.length_cons]; omega) hpush
    refine DeGoal.pre render rec strLen e ?_
    have g := deGoal_modconv render rec strLen s' T D (M ++ 0x2e :: ds) d v Rr tail hs'
      (by simp only [List.length_append, List.length_cons]; omega) hok hrec
      (by simpa only [List.append_assoc, List.cons_append] using hfit)
    simpa only [List.append_assoc, List.cons_append] using g
  | star =>
    have hp' := hp hpr
    simp only [hpr, precChars, if_true, List.cons_append, List.nil_append, le_length] at hM hrec hfit ⊢
    apply DeGoal.cons
    have h1 := deStep_push render rec strLen s T D M false false 0x2e
      (((0x2a : UInt8) :: (modChars d.mod ++ [d.conv])) ++ tail).head? h (by omega) (Or.inr (Or.inl (by decide)))
    apply DeGoal.cons
    have hlen1 : (M ++ [0x2e]).length ≤ 17 := by
      simp only [List.length_append, List.length_singleton]
      by_cases hn : p < 0
      · exact hM2 hpr hn
      · simp only [hn, if_false, List.length_cons] at hM; omega
    have h2 := deStep_star render rec strLen _ T D (M ++ [0x2e]) false false
      ((modChars d.mod ++ [d.conv]) ++ tail).head? p (encArg d v ++ Rr) h1 hlen1 hp' hrec
    have hrec2 : rec.drop (D + SIZEOF_INT) = encArg d v ++ Rr := by
      have := drop_after rec _ _ D hrec
      rwa [le_length] at this
    simp only [List.getLast?_append, List.getLast?_singleton, Option.some_or, and_true,
      List.dropLast_concat] at h2
    by_cases hn : p < 0
    · simp only [hn, if_true, List.length_nil, Nat.add_zero, List.nil_append] at h2 hM hfit ⊢
      have g := deGoal_modconv render rec strLen _ T (D + SIZEOF_INT) M d v Rr tail h2 hM hok hrec2 hfit
      simpa only [Nat.add_assoc] using g
    · simp only [hn, if_false, List.length_cons] at h2 hM hfit ⊢
      have g := deGoal_modconv render rec strLen _ T (D + SIZEOF_INT) (M ++ [0x2e] ++ decInt p) d v Rr tail h2
        (by simp only [List.length_append, List.length_singleton]; omega) hok hrec2
        (by simpa only [List.append_assoc, List.cons_append, List.nil_append] using hfit)
      simpa only [List.append_assoc, List.cons_append, List.nil_append, Nat.add_assoc] using g

/-- **one whole conversion**, from the '%' on: the pending literal text and the rendering of the
    conversion are appended, `data_pos` moves over the bytes the encoder stored for it -/
theorem deGoal_dir (s : DeSt) (T run : Bytes) (D : Nat) (d : Dir) (w p : Int) (v : Arg) (Rr tail : Bytes)
    (h : DeSync strLen s T run D) (hwf : (Item.dir d w p v).wf = true)
    (hmf : d.miniNeed w p + 2 ≤ MINI_FORMAT_STR_LEN)
    (hrec : rec.drop D = (Item.dir d w p v).enc ++ Rr)
    (hfit : (T ++ run).length + (render (d.mini w p) (dargRec d v)).length < strLen) :
    DeGoal render rec strLen s d.chars tail (T ++ run ++ render (d.mini w p) (dargRec d v))
      (D + (Item.dir d w p v).enc.length) := by
  simp only [Item.wf, Bool.and_eq_true, List.all_eq_true] at hwf
  obtain ⟨⟨⟨⟨hpre, hprec⟩, hok⟩, hwi⟩, hpi⟩ := hwf
  have hds : ∀ ds, d.prec = .lit ds → ∀ c ∈ ds, classify c = .digit := by
    intro ds hp c hc
    rw [hp] at hprec
    simp only [List.all_eq_true, beq_iff_eq] at hprec
    exact hprec c hc
  have hpi' : d.prec = .star → int32 p = true := by
    intro hp
    simpa [hp] using hpi
  unfold Dir.miniNeed at hmf
  rw [Dir.mini_eq] at hmf hfit ⊢
  simp only [MINI_FORMAT_STR_LEN, List.length_cons, List.length_append, List.length_singleton] at hmf
  unfold Dir.chars
  simp only [Item.enc, List.append_assoc, List.length_append] at hrec ⊢
  apply DeGoal.cons
  have h1 := deStep_enter render rec strLen s T run D
    ((d.pre ++ ((if d.wstar then [0x2a] else []) ++ (precChars d.prec ++ (modChars d.mod ++ [d.conv])))) ++ tail).head?
    h (by omega)
  obtain ⟨s2, e2, h2⟩ := deRun_push render rec strLen d.pre
    (((if d.wstar then [0x2a] else []) ++ (precChars d.prec ++ (modChars d.mod ++ [d.conv]))) ++ tail) _ (T ++ run) D
    [0x25] false false h1 (by simp only [List.length_singleton]; omega) (fun c hc => isPush_of_copy c (hpre c hc))
  refine DeGoal.pre render rec strLen e2 ?_
  have hM2 : ∀ (k : Nat), d.prec = .star → p < 0 → k = (if d.wstar then decInt w else []).length →
      1 + d.pre.length + k + 1 ≤ 17 := by
    intro k hp hn hk
    by_cases hmod : d.mod = .none
    · simp only [hp, hn, hmod, and_self, if_true] at hmf; omega
    · have : 1 ≤ (modChars d.mod).length := by cases hm : d.mod <;> simp_all [modChars]
      omega
  cases hw : d.wstar with
  | false =>
    simp only [hw, Bool.false_eq_true, if_false, List.nil_append, List.length_nil, Nat.zero_add] at hmf hrec hfit hM2 ⊢
    have g := deGoal_prec render rec strLen s2 (T ++ run) D ([0x25] ++ d.pre) d p v Rr tail h2
      (by simp only [List.length_append, List.length_singleton]; omega)
      (fun hp hn => by
        have := hM2 0 hp hn rfl
        simp only [List.length_append, List.length_singleton]; omega)
      hds hpi' hok hrec (by simpa only [List.append_assoc, List.cons_append, List.nil_append] using hfit)
    simpa only [List.append_assoc, List.cons_append, List.nil_append, pEnc] using g
  | true =>
    have hwi' : int32 w = true := by simpa [hw] using hwi
    simp only [hw, if_true, List.cons_append, List.nil_append, le_length] at hmf hrec hfit hM2 ⊢
    apply DeGoal.cons
    have h3 := deStep_star render rec strLen s2 (T ++ run) D ([0x25] ++ d.pre) false false
      ((precChars d.prec ++ (modChars d.mod ++ [d.conv])) ++ tail).head? w _ h2
      (by simp only [List.length_append, List.length_singleton]; omega) hwi' hrec
    have hnd := last_not_dot d.pre hpre
    simp only [hnd, and_false, if_false] at h3
    have hrec2 := drop_after rec _ _ D hrec
    rw [le_length] at hrec2
    have g := deGoal_prec render rec strLen _ (T ++ run) (D + SIZEOF_INT) ([0x25] ++ d.pre ++ decInt w) d p v Rr tail h3
      (by simp only [List.length_append, List.length_singleton]; omega)
      (fun hp hn => by
        have := hM2 _ hp hn rfl
        simp only [List.length_append, List.length_singleton]; omega)
      hds hpi' hok hrec2 (by simpa only [List.append_assoc, List.cons_append, List.nil_append] using hfit)
    simpa only [List.append_assoc, List.cons_append, List.nil_append, Nat.add_assoc, pEnc] using g

/-- one item -/
theorem deRun_item (i : Item) (s : DeSt) (T run : Bytes) (D : Nat) (Rr tail : Bytes)
    (h : DeSync strLen s T run D) (hwf : i.wf = true)
    (hmf : ∀ d w p v, i = .dir d w p v → d.miniNeed w p + 2 ≤ MINI_FORMAT_STR_LEN)
    (hrec : rec.drop D = i.enc ++ Rr)
    (hfit : (T ++ run).length + (itemText render i).length < strLen) :
    ∃ s' T' run', deRun R render rec strLen s (i.chars ++ tail) = deRun R render rec strLen s' tail ∧
      DeSync strLen s' T' run' (D + i.enc.length) ∧ T' ++ run' = T ++ run ++ itemText render i := by
  cases i with
  | lit bs =>
    simp only [Item.wf, List.all_eq_true, Bool.and_eq_true, bne_iff_ne, ne_eq] at hwf
    obtain ⟨s', e, hs'⟩ := deRun_lit render rec strLen bs tail s T run D h (fun c hc => (hwf c hc).2)
    exact ⟨s', T, run ++ bs, e, by simpa [Item.enc] using hs', by simp [itemText]⟩
  | pct =>
    simp only [itemText, List.length_singleton] at hfit
    have h1 := deStep_enter render rec strLen s T run D (([0x25] : Bytes) ++ tail).head? h (by omega)
    obtain ⟨s', e, hs'⟩ := deGoal_pct2 render rec strLen _ (T ++ run) D tail h1 (by omega)
    exact ⟨s', T ++ run ++ [0x25], [], e, by simpa [Item.enc] using hs', by simp [itemText]⟩
  | dir d w p v =>
    obtain ⟨s', e, hs'⟩ := deGoal_dir render rec strLen s T run D d w p v Rr tail h hwf (hmf d w p v rfl) hrec hfit
    exact ⟨s', _, [], e, hs', by simp [itemText]⟩

/-- **alignment and text, whole format**: from a synchronised state with `data_pos = D` at the
    stored arguments of `items`, the decoder ends with `data_pos = D + (encOf items).length`, having
    produced the pending text followed by `printfRec render items` -/
theorem deRun_items (items : List Item) : ∀ (s : DeSt) (T run : Bytes) (D : Nat) (Rr tail : Bytes),
    DeSync strLen s T run D → WellTyped items → MiniFits items → rec.drop D = encOf items ++ Rr →
    (T ++ run).length + (printfRec render items).length < strLen →
    ∃ s' T' run', deRun R render rec strLen s (fmtOf items ++ tail) = deRun R render rec strLen s' tail ∧
      DeSync strLen s' T' run' (D + (encOf items).length) ∧ T' ++ run' = T ++ run ++ printfRec render items := by
  induction items with
  | nil =>
    intro s T run D Rr tail h _ _ _ _
    exact ⟨s, T, run, rfl, by simpa [encOf] using h, by simp [printfRec]⟩
  | cons i items ih =>
    intro s T run D Rr tail h hwf hmf hrec hfit
    have hwi : i.wf = true := hwf i (by simp)
    have hwr : WellTyped items := fun j hj => hwf j (by simp [hj])
    have hmi : ∀ d w p v, i = .dir d w p v → d.miniNeed w p + 2 ≤ MINI_FORMAT_STR_LEN := hmf i (by simp)
    have hmr : MiniFits items := fun j hj => hmf j (by simp [hj])
    simp only [encOf, fmtOf, printfRec, List.flatMap_cons, List.append_assoc, List.length_append] at hrec hfit ⊢
    obtain ⟨s1, T1, run1, e1, h1, ht1⟩ := deRun_item render rec strLen i s T run D _
      (List.flatMap Item.chars items ++ tail) h hwi hmi hrec (by simp only [List.length_append]; omega)
    have hrec1 := drop_after rec _ _ D hrec
    have hl1 : (T1 ++ run1).length = (T ++ run).length + (itemText render i).length := by
      rw [ht1]; simp only [List.length_append]
    obtain ⟨s2, T2, run2, e2, h2, ht2⟩ := ih s1 T1 run1 (D + i.enc.length) Rr tail h1 hwr hmr
      (by simpa [encOf] using hrec1) (by simp only [printfRec, List.length_append] at hl1 hfit ⊢; omega)
    refine ⟨s2, T2, run2, by rw [e1]; exact e2, by simpa [encOf, Nat.add_assoc] using h2, ?_⟩
    rw [ht2, ht1]
    simp [printfRec, List.append_assoc]

end
end QbVerif.Ser
