/-
C13, "follows the format spec": what a buffer holds (`HoldsLine`), the statements of qb_log_target_format
after its loop (terminator, newline strip, ellipsis) and cs_format (lib/log.c), against the
specification functions `specLine`, `csSpec` of Lemmas/LogFormatSpec.lean.
-/
import QbVerif.Lemmas.LogFormatSpec

namespace QbVerif.LogFormat
open QbVerif.Gen

/-- the buffer starts with `line` followed by a NUL: what every C string function sees in it -/
def HoldsLine (m : Mem) (line : Bytes) : Prop :=
  m.data.toList.take line.length = line ∧ m.data.toList[line.length]? = some 0

theorem holds_of_prefix {m : Mem} {t rest : Bytes} (h : m.data.toList = t ++ 0 :: rest) : HoldsLine m t := by
  unfold HoldsLine
  rw [h]
  simp

theorem list_split_at {l : List Nat} {n v : Nat} (h : l[n]? = some v) :
    l = l.take n ++ v :: l.drop (n + 1) := by
  obtain ⟨hlt, hv⟩ := List.getElem?_eq_some_iff.1 h
  have h' := (List.take_append_drop n l).symm
  rw [List.drop_eq_getElem_cons hlt, hv] at h'
  exact h'

/-- a NUL-free line that a buffer holds is the buffer's C string -/
theorem HoldsLine.text {m : Mem} {line : Bytes} (h : HoldsLine m line) (hz : ∀ b ∈ line, b ≠ 0) :
    m.text = some line := by
  obtain ⟨h1, h2⟩ := h
  unfold Mem.text
  rw [list_split_at h2, h1]
  exact cstr_append_nul line _ hz

theorem HoldsLine.length_lt {m : Mem} {line : Bytes} (h : HoldsLine m line) : line.length < m.cap := by
  obtain ⟨hlt, _⟩ := List.getElem?_eq_some_iff.1 h.2
  simpa [Mem.cap] using hlt

/-- writing the terminator at `k` leaves the `k` bytes in front of it as the line -/
theorem holds_set {l : List Nat} {m : Mem} (k : Nat) (hk : k < l.length) (hm : m.data.toList = l.set k 0) :
    HoldsLine m (l.take k) := by
  have hl : (l.take k).length = k := by rw [List.length_take]; omega
  unfold HoldsLine
  rw [hl, hm, List.take_set_of_le (Nat.le_refl k)]
  exact ⟨rfl, by simp [hk]⟩

theorem Mem.get_nat (m : Mem) (k : Nat) : m.get (k : Int) = m.data.toList[k]?.getD 0 := by
  unfold Mem.get
  simp [Array.getD_eq_getD_getElem?]

/-! ### after the loop of qb_log_target_format -/

/-- line for the bytes `out` the loop produced -/
def finishCut (M : Nat) (ell : Bool) (out : Bytes) : Bytes :=
  if ell && decide (M - 1 ≤ out.length) then out.take (out.length - 3) ++ [46, 46, 46]
  else if out.getLast? = some 10 then out.dropLast else out

theorem getLast?_take (l : List Nat) (idx : Nat) (h0 : 0 < idx) (hle : idx ≤ l.length) :
    (l.take idx).getLast? = l[idx - 1]? := by
  rw [List.getLast?_eq_getElem?, List.length_take, List.getElem?_take]
  have : min idx l.length - 1 = idx - 1 := by omega
  rw [this, if_pos (by omega)]

/-- the terminator statement: where the NUL goes -/
theorem terminate_data (idx : Nat) (m : Mem) (hcap : idx < m.cap) :
    (terminate .repaired idx m).cap = m.cap ∧
    (terminate .repaired idx m).data.toList
      = m.data.toList.set (if (m.data.toList.take idx).getLast? = some 10 then idx - 1 else idx) 0 := by
  have hlen : idx < m.data.toList.length := by simpa [Mem.cap] using hcap
  unfold terminate
  by_cases h0 : idx = 0
  · subst h0
    simp only [repaired_d8, beq_self_eq_true, Bool.and_self, if_true]
    refine ⟨by simp, ?_⟩
    have : (Int.ofNat 0) = ((0 : Nat) : Int) := rfl
    rw [show ((0 : Nat) : Int) = ((0 : Nat) : Int) from rfl, Mem.write_toList]
    simp
  · have hne : (idx == 0) = false := by simp [h0]
    simp only [hne, Bool.and_false, Bool.false_eq_true, if_false]
    have hi1 : (idx : Int) - 1 = ((idx - 1 : Nat) : Int) := by omega
    have hget : (m.read ((idx : Int) - 1)).get ((idx : Int) - 1) = m.data.toList[idx - 1]?.getD 0 := by
      rw [hi1, Mem.get_nat]; rfl
    rw [hget, getLast?_take _ _ (by omega) (by omega)]
    have hsome : m.data.toList[idx - 1]? = some (m.data.toList[idx - 1]'(by omega)) :=
      List.getElem?_eq_getElem (by omega)
    rw [hsome]
    simp only [Option.getD_some, Option.some.injEq]
    split
    · refine ⟨by simp, ?_⟩
      rw [hi1, Mem.write_toList]; rfl
    · refine ⟨by simp, ?_⟩
      rw [Mem.write_toList]; rfl

theorem ellipsis_data (k : Nat) (m : Mem) :
    ((((m.write (((k + 3 : Nat) : Int) - 3) 46).write (((k + 3 : Nat) : Int) - 2) 46).write
        (((k + 3 : Nat) : Int) - 1) 46).write ((k + 3 : Nat) : Int) 0).data.toList
      = (((m.data.toList.set k 46).set (k + 1) 46).set (k + 2) 46).set (k + 3) 0 := by
  have e3 : ((k + 3 : Nat) : Int) - 3 = ((k : Nat) : Int) := by omega
  have e2 : ((k + 3 : Nat) : Int) - 2 = ((k + 1 : Nat) : Int) := by omega
  have e1 : ((k + 3 : Nat) : Int) - 1 = ((k + 2 : Nat) : Int) := by omega
  rw [e3, e2, e1]
  simp only [Mem.write_toList]

theorem set4_take (l : List Nat) (k : Nat) (h : k + 3 < l.length) :
    ((((l.set k 46).set (k + 1) 46).set (k + 2) 46).set (k + 3) 0).take (k + 3) = l.take k ++ [46, 46, 46] := by
  rw [List.take_set_of_le (Nat.le_refl _)]
  rw [show k + 3 = (k + 2) + 1 from rfl, list_set_take _ _ _ (by simp; omega)]
  rw [show k + 2 = (k + 1) + 1 from rfl, list_set_take _ _ _ (by simp; omega)]
  rw [list_set_take _ _ _ (by omega)]
  simp

/-- **the statements after the loop**: for every index the loop can end with and every buffer
    content, the buffer then holds `finishCut` of the bytes the loop produced -/
theorem finishLine_holds (M : Nat) (ell : Bool) (idx : Nat) (m : Mem) (hM : 4 ≤ M) (hidx : idx ≤ M - 1)
    (hcap : M ≤ m.cap) :
    HoldsLine (finishLine .repaired M ell idx m) (finishCut M ell (m.data.toList.take idx)) := by
  have hs1 : subSZ M 1 = M - 1 := subSZ_of_le (by omega)
  have hlen : idx < m.data.toList.length := by simp [Mem.cap] at hcap ⊢; omega
  have hol : (m.data.toList.take idx).length = idx := by rw [List.length_take]; omega
  obtain ⟨tc, td⟩ := terminate_data idx m (by omega)
  unfold finishLine ellipsisMark finishCut
  rw [hs1, hol]
  by_cases he : (ell && decide (M - 1 ≤ idx)) = true
  · rw [if_pos he, if_pos he]
    simp only [repaired_d8b, if_true]
    simp only [Bool.and_eq_true, decide_eq_true_eq] at he
    obtain ⟨k, hk⟩ : ∃ k, idx = k + 3 := ⟨idx - 3, by omega⟩
    subst hk
    have hk3 : k + 3 - 3 = k := by omega
    rw [hk3]
    have hdata := ellipsis_data k (terminate .repaired (k + 3) m)
    have hpre : (terminate .repaired (k + 3) m).data.toList.take k = (m.data.toList.take (k + 3)).take k := by
      rw [td, List.take_take, Nat.min_eq_left (by omega)]
      apply List.take_set_of_le
      split <;> omega
    have htl : k + 3 < (terminate .repaired (k + 3) m).data.toList.length := by
      rw [td]; simp only [List.length_set]; omega
    unfold HoldsLine
    have hll : ((m.data.toList.take (k + 3)).take k ++ [46, 46, 46]).length = k + 3 := by
      rw [List.length_append, List.length_take, List.length_take]
      simp only [List.length_cons, List.length_nil]; omega
    rw [hll, hdata, set4_take _ _ htl, hpre]
    refine ⟨rfl, ?_⟩
    rw [List.getElem?_set_self (by simpa using htl)]
  · rw [if_neg he, if_neg he]
    split
    · -- newline stripped
      rename_i hnl
      rw [if_pos hnl] at td
      have h0 : 0 < idx := by
        rcases Nat.eq_zero_or_pos idx with h | h
        · subst h; simp at hnl
        · exact h
      rw [List.dropLast_eq_take, hol, List.take_take, Nat.min_eq_left (by omega)]
      exact holds_set (idx - 1) (by omega) td
    · rename_i hnl
      rw [if_neg hnl] at td
      exact holds_set idx hlen td

/-- cutting first and finishing = the specified line -/
theorem finishCut_take (M : Nat) (ell : Bool) (r : Bytes) (hM : 4 ≤ M) :
    finishCut M ell (r.take (M - 1)) = specLine M ell r := by
  unfold finishCut specLine
  have hl : (r.take (M - 1)).length = min (M - 1) r.length := List.length_take
  have hc : decide (M - 1 ≤ (r.take (M - 1)).length) = decide (M - 1 ≤ r.length) := by
    rw [hl]; congr 1; apply propext; omega
  rw [hc]
  split
  · rename_i h
    simp only [Bool.and_eq_true, decide_eq_true_eq] at h
    rw [hl, List.take_take]
    congr 2
    omega
  · rfl

/-! ### cs_format -/

theorem csFormat_holds (maxlen : Nat) (e : Bytes) (m : Mem) (h1 : 1 ≤ maxlen) (hcap : maxlen ≤ m.cap) :
    HoldsLine (csFormat .repaired maxlen e m) (csSpec maxlen e) := by
  have hm0 : ¬ maxlen = 0 := by omega
  have htl : (e.take (maxlen - 1)).length = min (maxlen - 1) e.length := List.length_take
  have hwa : (m.writeAll ((0 : Nat) : Int) (e.take (maxlen - 1) ++ [0])).data.toList
      = e.take (maxlen - 1) ++ 0 :: m.data.toList.drop ((e.take (maxlen - 1)).length + 1) := by
    rw [Mem.writeAll_toList _ 0 _ (by simp; omega)]
    simp
  unfold csFormat csSpec
  simp only [hm0, if_false, repaired_d7, Bool.true_and]
  have hz : ((0 : Nat) : Int) = (0 : Int) := rfl
  rw [← hz]
  generalize hm1 : m.writeAll ((0 : Nat) : Int) (e.take (maxlen - 1) ++ [0]) = m1 at hwa
  by_cases hfit : e.length < maxlen
  · -- the expansion fits
    have hnot : ¬ maxlen < e.length := by omega
    have htake : e.take (maxlen - 1) = e := List.take_of_length_le (by omega)
    rw [htake] at hwa
    simp only [hnot, if_false, if_pos hfit]
    by_cases he : e.length = 0
    · have : e = [] := List.eq_nil_of_length_eq_zero he
      subst this
      simp only [List.length_nil, beq_self_eq_true, if_true]
      exact holds_of_prefix (by simpa using hwa)
    · have hne : (e.length == 0) = false := by simp [he]
      simp only [hne, Bool.false_eq_true, if_false]
      have hi1 : ((e.length : Nat) : Int) - 1 = ((e.length - 1 : Nat) : Int) := by omega
      have hlast : e.getLast? = some (e[e.length - 1]'(by omega)) := by
        rw [List.getLast?_eq_getElem?, List.getElem?_eq_getElem (by omega)]
      have hget : (m1.read (((e.length : Nat) : Int) - 1)).get (((e.length : Nat) : Int) - 1)
          = e[e.length - 1]'(by omega) := by
        rw [hi1, Mem.get_nat]
        show (m1.data.toList[e.length - 1]?).getD 0 = _
        rw [hwa, List.getElem?_append_left (by omega), List.getElem?_eq_getElem (by omega)]
        rfl
      rw [hget, hlast]
      simp only [Option.some.injEq]
      split
      · rw [List.dropLast_eq_take]
        have hset : ((m1.read (((e.length : Nat) : Int) - 1)).write (((e.length : Nat) : Int) - 1) 0).data.toList
            = m1.data.toList.set (e.length - 1) 0 := by rw [hi1, Mem.write_toList]; rfl
        have h := holds_set (e.length - 1) (by rw [hwa]; simp; omega) hset
        have : m1.data.toList.take (e.length - 1) = e.take (e.length - 1) := by
          rw [hwa, List.take_append_of_le_length (by omega)]
        rw [← this]; exact h
      · exact holds_of_prefix (m := m1.read (((e.length : Nat) : Int) - 1)) hwa
  · -- truncated by vsnprintf: `len` is clamped to `maxlen`, the byte tested is the terminator
    rw [if_neg hfit]
    have hlen : (if maxlen < e.length then maxlen else e.length) = maxlen := by split <;> omega
    rw [hlen]
    have hne : (maxlen == 0) = false := by simp [hm0]
    simp only [hne, Bool.false_eq_true, if_false]
    have hi1 : ((maxlen : Nat) : Int) - 1 = ((maxlen - 1 : Nat) : Int) := by omega
    have hget : (m1.read (((maxlen : Nat) : Int) - 1)).get (((maxlen : Nat) : Int) - 1) = 0 := by
      rw [hi1, Mem.get_nat]
      show (m1.data.toList[maxlen - 1]?).getD 0 = _
      rw [hwa, List.getElem?_append_right (by rw [htl]; omega)]
      have : maxlen - 1 - (e.take (maxlen - 1)).length = 0 := by rw [htl]; omega
      rw [this]; rfl
    rw [hget]
    simp only [show ¬ ((0 : Nat) = 10) by decide, if_false]
    exact holds_of_prefix (m := m1.read (((maxlen : Nat) : Int) - 1)) hwa

theorem csFormat_bounds (maxlen : Nat) (e : Bytes) (m : Mem) (h1 : 1 ≤ maxlen) (hw : m.wr = []) (hr : m.rd = []) :
    WrIn (csFormat .repaired maxlen e m) maxlen ∧ RdIn (csFormat .repaired maxlen e m) maxlen ∧
    (csFormat .repaired maxlen e m).cap = m.cap := by
  have hm0 : ¬ maxlen = 0 := by omega
  have htl : (e.take (maxlen - 1)).length = min (maxlen - 1) e.length := List.length_take
  have hw0 : WrIn m maxlen := by intro j hj; simp [hw] at hj
  have hw1 : WrIn (m.writeAll 0 (e.take (maxlen - 1) ++ [0])) maxlen :=
    hw0.writeAll _ (Int.le_refl 0) (by simp [htl]; omega)
  have hr1 : RdIn (m.writeAll 0 (e.take (maxlen - 1) ++ [0])) maxlen := by
    intro j hj; simp [hr] at hj
  have hc1 : (m.writeAll 0 (e.take (maxlen - 1) ++ [0])).cap = m.cap := by simp
  unfold csFormat
  simp only [hm0, if_false, repaired_d7, Bool.true_and]
  generalize m.writeAll 0 (e.take (maxlen - 1) ++ [0]) = m1 at hw1 hr1 hc1 ⊢
  generalize hlen : (if maxlen < e.length then maxlen else e.length) = len
  have hle : len ≤ maxlen := by subst hlen; split <;> omega
  by_cases h0 : len = 0
  · subst h0
    simp only [beq_self_eq_true, if_true]
    exact ⟨hw1, hr1, hc1⟩
  · have hne : (len == 0) = false := by simp [h0]
    simp only [hne, Bool.false_eq_true, if_false]
    have hrd : RdIn (m1.read ((len : Int) - 1)) maxlen := by
      intro j hj
      simp at hj
      rcases hj with hj | hj
      · omega
      · exact hr1 j hj
    split
    · exact ⟨WrIn.write ((WrIn_read _ _ _).2 hw1) 0 (by omega) (by omega), by simpa using hrd, by simpa using hc1⟩
    · exact ⟨(WrIn_read _ _ _).2 hw1, hrd, by simpa using hc1⟩

end QbVerif.LogFormat
