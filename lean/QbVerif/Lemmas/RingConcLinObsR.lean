/-
C01 — reader side of "the linearisation history is what the calls returned" (see
Lemmas/RingConcLinObs.lean), and the induction over schedules.
-/
import QbVerif.Lemmas.RingConcLinObs

namespace QbVerif.RingConcLemmas
open QbVerif.Ring QbVerif.RingSpec QbVerif.RingLemmas QbVerif.RingConc

/-- the history events of one completed reader call that returned `o`: a `read` is one event; a
    peek + copy + reclaim that delivered a chunk is a `peek` and a `reclaim` event; a peek that found
    nothing is one event -/
def rCall1 (op : ROp) (o : Out) : List (Op × Out) :=
  match op with
  | .read cap => [(.read cap, o)]
  | .pr _ =>
    match o with
    | .data d => [(.peek, .data d), (.reclaim, .unit)]
    | o => [(.peek, o)]

def rCalls (ops : List ROp) (outs : List Out) : List (Op × Out) :=
  (ops.zip outs).flatMap (fun p => rCall1 p.1 p.2)

theorem rCalls_snoc (ops : List ROp) (outs : List Out) (op : ROp) (o : Out) (h : ops.length = outs.length) :
    rCalls (ops ++ [op]) (outs ++ [o]) = rCalls ops outs ++ rCall1 op o := by
  unfold rCalls; rw [List.zip_append h, List.flatMap_append]; simp

/-- the peek of the call in progress has taken effect -/
def peekDone : RPc → Bool
  | .rcopy _ _ _ | .rcRp | .rcMg _ | .rcSz _ | .rcStep _ | .rcClr _ _ | .rcDead _ _ | .rcSetRp _ => true
  | _ => false

/-- the event of the reader call in progress that is already in the history: only a
    peek + reclaim call has one before it returns -/
def inflightLinR (c : Conf) (q : List (List Nat)) : List (Op × Out) :=
  match c.rprog with
  | (.pr _) :: _ =>
    if c.rpc = .pkBad then [(.peek, .err .ebadmsg)]
    else if peekDone c.rpc then [(.peek, .data (q.headD []))] else []
  | _ => []

def LinObsR (prog0 : List ROp) (c : Conf) (q : List (List Nat)) : Prop :=
  ∃ dr, prog0 = dr ++ c.rprog ∧ dr.length = c.rOuts.length ∧
    rEvents c.lin = rCalls dr c.rOuts ++ inflightLinR c q

theorem rEvents_snoc (lin : List (Op × Out)) (op : Op) (o : Out) (h : ∀ d, op ≠ .write d) :
    rEvents (lin ++ [(op, o)]) = rEvents lin ++ [(op, o)] := by
  unfold rEvents; rw [List.filter_append]
  congr 1
  cases op <;> first | rfl | exact absurd rfl (h _)

theorem LinObsR.local {prog0 : List ROp} {c c' : Conf} {q q'} (h : LinObsR prog0 c q) (h1 : c'.rprog = c.rprog)
    (h2 : c'.rOuts = c.rOuts) (h3 : rEvents c'.lin = rEvents c.lin) (h4 : inflightLinR c' q' = inflightLinR c q) :
    LinObsR prog0 c' q' := by
  obtain ⟨d, a, b, e⟩ := h
  exact ⟨d, by rw [h1]; exact a, by rw [h2]; exact b, by rw [h3, h2, h4]; exact e⟩

theorem LinObsR.done {prog0 : List ROp} {c c' : Conf} {q q'} {op : ROp} {rest : List ROp} (h : LinObsR prog0 c q)
    (hp : c.rprog = op :: rest) (o : Out) (h1 : c'.rprog = rest) (h2 : c'.rOuts = c.rOuts ++ [o])
    (hidle : c'.rpc = .idle)
    (h3 : ∀ pre, rEvents c.lin = pre ++ inflightLinR c q → rEvents c'.lin = pre ++ rCall1 op o) :
    LinObsR prog0 c' q' := by
  obtain ⟨d, a, b, e⟩ := h
  refine ⟨d ++ [op], by rw [h1, a, hp]; simp, by rw [h2]; simp [b], ?_⟩
  have hi : inflightLinR c' q' = [] := by
    unfold inflightLinR; rw [hidle]; split <;> simp [peekDone]
  rw [h2, rCalls_snoc _ _ _ _ b, hi, List.append_nil]
  exact h3 _ e

theorem inflightLinR_read {c : Conf} {q} {cap rest} (hp : c.rprog = .read cap :: rest) : inflightLinR c q = [] := by
  unfold inflightLinR; rw [hp]

theorem inflightLinR_pr {c : Conf} {q} {f rest} (hp : c.rprog = .pr f :: rest) :
    inflightLinR c q = if c.rpc = .pkBad then [(.peek, .err .ebadmsg)]
      else if peekDone c.rpc then [(.peek, .data (q.headD []))] else [] := by
  unfold inflightLinR; rw [hp]

theorem RF_peekDone_ne {W TR : Nat} {q} {sem : Option Nat} {rbuf : List Nat} {op : ROp} {pc : RPc}
    (h : RF W TR q sem rbuf op pc) (hd : peekDone pc = true) : q ≠ [] := by
  cases pc with
  | rcopy p sz j => obtain ⟨f, d, ds, _, e, _⟩ := h; rw [e]; simp
  | rcRp => obtain ⟨d, ⟨⟨ds, e⟩, _⟩⟩ := h; rw [e]; simp
  | rcMg o => obtain ⟨d, ⟨⟨ds, e⟩, _⟩, _⟩ := h; rw [e]; simp
  | rcSz o => obtain ⟨d, ⟨⟨ds, e⟩, _⟩, _⟩ := h; rw [e]; simp
  | rcStep o => obtain ⟨d, ⟨⟨ds, e⟩, _⟩, _⟩ := h; rw [e]; simp
  | rcClr o n => obtain ⟨d, ⟨⟨ds, e⟩, _⟩, _⟩ := h; rw [e]; simp
  | rcDead o n => obtain ⟨d, ⟨⟨ds, e⟩, _⟩, _⟩ := h; rw [e]; simp
  | rcSetRp n => obtain ⟨d, ⟨⟨ds, e⟩, _⟩, _⟩ := h; rw [e]; simp
  | _ => simp [peekDone] at hd

/-- writer steps append no reader event and leave the reader's side alone -/
theorem wstep_rEvents (c : Conf) : rEvents (wstep c).lin = rEvents c.lin := by
  unfold wstep
  repeat' split
  all_goals (try dsimp only)
  all_goals (repeat' split)
  all_goals first
    | rfl
    | (simp [Conf.wDone, Conf.addLin, Conf.linWrite, rEvents_snoc_write]; done)
    | (cases c.rb.sem <;> simp [Conf.wDone, Conf.addLin, Conf.linWrite, rEvents_snoc_write]; done)

theorem wstep_linObsR {prog0 : List ROp} {c : Conf} {q : List (List Nat)} (hi : CInv c q) (h : LinObsR prog0 c q)
    (d : List Nat) : LinObsR prog0 (wstep c) q ∧ LinObsR prog0 (wstep c) (q ++ [d]) := by
  have hr := wstep_rside c
  have ho := wstep_robs c
  have key : ∀ q', (q ≠ [] → q'.headD [] = q.headD []) → LinObsR prog0 (wstep c) q' := by
    intro q' hq'
    refine h.local hr.2 ho.2 (wstep_rEvents c) ?_
    unfold inflightLinR
    rw [hr.1, hr.2]
    cases hp : c.rprog with
    | nil => rfl
    | cons op rest =>
      cases op with
      | read cap => rfl
      | pr f =>
        simp only
        by_cases hb : c.rpc = .pkBad
        · rw [if_pos hb, if_pos hb]
        · rw [if_neg hb, if_neg hb]
          by_cases hd : peekDone c.rpc = true
          · rw [if_pos hd, if_pos hd]
            have := RF_peekDone_ne (RFacts_get hp hi.rf) hd
            rw [hq' this]
          · rw [if_neg hd, if_neg hd]
  refine ⟨key q (fun _ => rfl), key _ ?_⟩
  intro hne
  cases q with
  | nil => exact absurd rfl hne
  | cons a as => rfl

section
variable {c : Conf} {q : List (List Nat)} {op : ROp} {rest : List ROp} {prog0 : List ROp}

/-- a reader step inside a call that appends nothing -/
theorem LinObsR.silent (h : LinObsR prog0 c q) (hp : c.rprog = op :: rest) (c' : Conf) (h1 : c'.rprog = c.rprog)
    (h2 : c'.rOuts = c.rOuts) (h3 : c'.lin = c.lin)
    (h4 : (∃ cap, op = .read cap) ∨ (c'.rpc ≠ .pkBad ∧ c.rpc ≠ .pkBad ∧ peekDone c'.rpc = peekDone c.rpc)) :
    LinObsR prog0 c' q := by
  refine h.local h1 h2 (by rw [h3]) ?_
  rcases h4 with ⟨cap, rfl⟩ | ⟨a, b, e⟩
  · rw [inflightLinR_read hp, inflightLinR_read (h1.trans hp)]
  · cases op with
    | read cap => rw [inflightLinR_read hp, inflightLinR_read (h1.trans hp)]
    | pr f => rw [inflightLinR_pr hp, inflightLinR_pr (h1.trans hp), if_neg a, if_neg b, e]

/-- all reader steps except the `read_pt` store -/
theorem rstep_linObsR (hi : CInv c q) (h : LinObsR prog0 c q) (hp : c.rprog = op :: rest)
    (hns : ∀ n, c.rpc ≠ .rcSetRp n) : LinObsR prog0 (rstep c) q := by
  have hrf := RFacts_get hp hi.rf
  cases hpc : c.rpc with
  | idle =>
    rcases tryWait_cases c.rb with ⟨hsem, htw⟩ | ⟨s, htw, hs⟩
    · have i0 : inflightLinR c q = [] := by
        unfold inflightLinR; rw [hpc]; split <;> simp [peekDone]
      cases op with
      | read cap =>
        have e : rstep c = Conf.rDone { c with lin := c.lin ++ [(.read cap, .err .etimedout)] } (.err .etimedout) := by
          unfold rstep Conf.rDone Conf.addLin; simp only [hp, hpc, htw, List.tail_cons]
        rw [e]
        refine h.done hp (.err .etimedout) (by simp [Conf.rDone, hp]) rfl rfl ?_
        intro pre e1
        rw [i0, List.append_nil] at e1
        show rEvents (c.lin ++ [(.read cap, .err .etimedout)]) = _
        rw [rEvents_snoc _ _ _ (by simp), e1]; rfl
      | pr f =>
        have e : rstep c = Conf.rDone { c with lin := c.lin ++ [(.peek, .timedOut)] } .timedOut := by
          unfold rstep Conf.rDone Conf.addLin; simp only [hp, hpc, htw, List.tail_cons]
        rw [e]
        refine h.done hp .timedOut (by simp [Conf.rDone, hp]) rfl rfl ?_
        intro pre e1
        rw [i0, List.append_nil] at e1
        show rEvents (c.lin ++ [(.peek, .timedOut)]) = _
        rw [rEvents_snoc _ _ _ (by simp), e1]; rfl
    · cases op with
      | read cap =>
        have e : rstep c = { c with rb := { c.rb with sem := s }, rpc := .rdRp } := by
          unfold rstep; simp only [hp, hpc, htw]
        rw [e]; exact h.silent hp _ rfl rfl rfl (.inl ⟨_, rfl⟩)
      | pr f =>
        have e : rstep c = { c with rb := { c.rb with sem := s }, rpc := .pkRp } := by
          unfold rstep; simp only [hp, hpc, htw]
        rw [e]; exact h.silent hp _ rfl rfl rfl (.inr ⟨by simp, by rw [hpc]; simp, by rw [hpc]; rfl⟩)
  | rdRp =>
    have e : rstep c = { c with rpc := .rdMg c.rb.rp, rbuf := c.rbuf, lin := c.lin } := by
      unfold rstep; simp only [hp, hpc]
    rw [e]; exact h.silent hp _ rfl rfl rfl (.inr ⟨by simp, by rw [hpc]; simp, by rw [hpc]; rfl⟩)
  | rdMg p =>
    rw [hpc] at hrf
    obtain ⟨hrd, hpp⟩ := hrf
    obtain ⟨cap, rfl⟩ := isRead_elim hrd
    by_cases hm : c.rb.magic p = MAGIC
    · have e : rstep c = { c with rpc := .rdSz p, rbuf := c.rbuf, lin := c.lin } := by
        unfold rstep; simp only [hp, hpc, hm, ne_eq, not_true_eq_false, if_false]
      rw [e]; exact h.silent hp _ rfl rfl rfl (.inl ⟨_, rfl⟩)
    · cases hs : c.rb.sem with
      | some n =>
        have e : rstep c = { c with rpc := .rdBad, rbuf := c.rbuf, lin := c.lin } := by
          unfold rstep; simp only [hp, hpc, hm, hs, ne_eq, not_false_eq_true, if_true]
        rw [e]; exact h.silent hp _ rfl rfl rfl (.inl ⟨_, rfl⟩)
      | none =>
        have e : rstep c = Conf.rDone { c with lin := c.lin ++ [(.read cap, .err .etimedout)] } (.err .etimedout) := by
          unfold rstep Conf.rDone Conf.addLin; simp only [hp, hpc, hm, hs, ne_eq, not_false_eq_true, if_true, List.tail_cons]
        rw [e]
        refine h.done hp (.err .etimedout) (by simp [Conf.rDone, hp]) rfl rfl ?_
        intro pre e1
        rw [inflightLinR_read hp, List.append_nil] at e1
        show rEvents (c.lin ++ [(.read cap, .err .etimedout)]) = _
        rw [rEvents_snoc _ _ _ (by simp), e1]; rfl
  | rdBad => rw [hpc] at hrf; exact absurd hrf (by simp [RF])
  | rdSz p =>
    rw [hpc] at hrf
    obtain ⟨hrd, hpp, hne⟩ := hrf
    obtain ⟨cap, rfl⟩ := isRead_elim hrd
    have hcases : (rstep c).rprog = c.rprog ∧ (rstep c).rOuts = c.rOuts ∧ (rstep c).lin = c.lin := by
      simp only [rstep, hp, hpc]; split <;> exact ⟨hp.symm ▸ rfl, rfl, rfl⟩
    exact h.silent hp _ hcases.1 hcases.2.1 hcases.2.2 (.inl ⟨_, rfl⟩)
  | rdShort =>
    rw [hpc] at hrf
    obtain ⟨cap, d, ds, rfl, hq, hcap⟩ := hrf
    have e : rstep c = Conf.rDone { c with rb := c.rb.post, lin := c.lin ++ [(.read cap, .err .enobufs)] } (.err .enobufs) := by
      unfold rstep Conf.rDone Conf.addLin; simp only [hp, hpc, List.tail_cons]
    rw [e]
    refine h.done hp (.err .enobufs) (by simp [Conf.rDone, hp]) rfl rfl ?_
    intro pre e1
    rw [inflightLinR_read hp, List.append_nil] at e1
    show rEvents (c.lin ++ [(.read cap, .err .enobufs)]) = _
    rw [rEvents_snoc _ _ _ (by simp), e1]; rfl
  | rdCpy p sz =>
    rw [hpc] at hrf
    obtain ⟨cap, d, ds, rfl, _⟩ := hrf
    have e : rstep c = { c with rpc := .rcRp, rbuf := c.rb.copyOut p sz, lin := c.lin } := by
      unfold rstep; simp only [hp, hpc]
    rw [e]; exact h.silent hp _ rfl rfl rfl (.inl ⟨_, rfl⟩)
  | pkRp =>
    have e : rstep c = { c with rpc := .pkMg c.rb.rp, rbuf := c.rbuf, lin := c.lin } := by
      unfold rstep; simp only [hp, hpc]
    rw [e]; exact h.silent hp _ rfl rfl rfl (.inr ⟨by simp, by rw [hpc]; simp, by rw [hpc]; rfl⟩)
  | pkMg p =>
    rw [hpc] at hrf
    obtain ⟨hrd, hpp⟩ := hrf
    obtain ⟨f, rfl⟩ := isPr_elim hrd
    by_cases hm : c.rb.magic p = MAGIC
    · have e : rstep c = { c with rpc := .pkSz p, rbuf := c.rbuf, lin := c.lin } := by
        unfold rstep; simp only [hp, hpc, hm, ne_eq, not_true_eq_false, if_false]
      rw [e]; exact h.silent hp _ rfl rfl rfl (.inr ⟨by simp, by rw [hpc]; simp, by rw [hpc]; rfl⟩)
    · have e : rstep c = { c with rpc := .pkBad, rbuf := c.rbuf, lin := c.lin ++ [(.peek, .err .ebadmsg)] } := by
        unfold rstep Conf.addLin; simp only [hp, hpc, hm, ne_eq, not_false_eq_true, if_true]
      rw [e]
      obtain ⟨d, a, b, e1⟩ := h
      refine ⟨d, a, b, ?_⟩
      show rEvents (c.lin ++ [(.peek, .err .ebadmsg)]) = _
      rw [rEvents_snoc _ _ _ (by simp), e1]
      have i0 : inflightLinR c q = [] := by rw [inflightLinR_pr hp, hpc]; simp [peekDone]
      rw [i0, List.append_nil]
      congr 1
      rw [inflightLinR_pr (c := { c with rpc := .pkBad, rbuf := c.rbuf, lin := c.lin ++ [(Op.peek, Out.err Err.ebadmsg)] }) hp]
      simp
  | pkBad =>
    rw [hpc] at hrf
    obtain ⟨f, rfl⟩ := isPr_elim hrf.1
    have e : rstep c = Conf.rDone { c with rb := c.rb.post } (.err .ebadmsg) := by
      unfold rstep Conf.rDone; simp only [hp, hpc, List.tail_cons]
    rw [e]
    refine h.done hp (.err .ebadmsg) (by simp [Conf.rDone, hp]) rfl rfl ?_
    intro pre e1
    rw [inflightLinR_pr hp, if_pos hpc] at e1
    exact e1
  | pkSz p =>
    rw [hpc] at hrf
    obtain ⟨hrd, hpp, hne⟩ := hrf
    obtain ⟨f, rfl⟩ := isPr_elim hrd
    obtain ⟨d, ds, hq⟩ := ne_nil_elim hne
    have hsz : rd32 c.rb.mem p = d.length := by rw [size_at hpp]; exact hi.size_head hq (by rw [hpc]; rfl)
    have hco : c.rb.copyOut p d.length = d := copyOut_at hi.wpos hpp (hi.payload_head hq)
    have e : rstep c = { c with rpc := .rcopy p d.length 0, rbuf := [], lin := c.lin ++ [(.peek, .data (c.rb.copyOut p d.length))] } := by
      unfold rstep Conf.addLin; simp only [hp, hpc, hsz]
    rw [e, hco]
    obtain ⟨dr, a, b, e1⟩ := h
    refine ⟨dr, a, b, ?_⟩
    show rEvents (c.lin ++ [(.peek, .data d)]) = _
    rw [rEvents_snoc _ _ _ (by simp), e1]
    have i0 : inflightLinR c q = [] := by rw [inflightLinR_pr hp, hpc]; simp [peekDone]
    rw [i0, List.append_nil]
    congr 1
    rw [inflightLinR_pr (c := { c with rpc := .rcopy p d.length 0, rbuf := [], lin := c.lin ++ [(Op.peek, Out.data d)] }) hp, hq]
    simp [peekDone]
  | rcopy p sz j =>
    rw [hpc] at hrf
    obtain ⟨f, d, ds, rfl, hq, hpp, hsz, hj, hbuf, hf0⟩ := hrf
    have hcases : (rstep c).rprog = c.rprog ∧ (rstep c).rOuts = c.rOuts ∧ (rstep c).lin = c.lin ∧
        ((∃ j', (rstep c).rpc = .rcopy p sz j') ∨ (rstep c).rpc = .rcRp) := by
      simp only [rstep, hp, hpc]; repeat' split
      all_goals first
        | exact ⟨hp.symm ▸ rfl, rfl, rfl, .inl ⟨_, rfl⟩⟩
        | exact ⟨hp.symm ▸ rfl, rfl, rfl, .inr rfl⟩
    refine h.silent hp _ hcases.1 hcases.2.1 hcases.2.2.1 (.inr ⟨?_, by rw [hpc]; simp, ?_⟩)
    · rcases hcases.2.2.2 with ⟨j', e⟩ | e <;> rw [e] <;> simp
    · rcases hcases.2.2.2 with ⟨j', e⟩ | e <;> rw [e, hpc] <;> rfl
  | rcRp =>
    have e : rstep c = { c with rpc := .rcMg c.rb.rp, rbuf := c.rbuf, lin := c.lin } := by
      unfold rstep; simp only [hp, hpc]
    rw [e]; exact h.silent hp _ rfl rfl rfl (.inr ⟨by simp, by rw [hpc]; simp, by rw [hpc]; rfl⟩)
  | rcMg old =>
    rw [hpc] at hrf
    obtain ⟨d, hrc, hold⟩ := hrf
    obtain ⟨ds, hq⟩ := hrc.1
    have hm : c.rb.magic old = MAGIC :=
      (hi.magic_iff hold (by rw [hpc]; rfl) (by rw [hpc]; rfl)).mpr (by rw [hq]; simp)
    have e : rstep c = { c with rpc := .rcSz old, rbuf := c.rbuf, lin := c.lin } := by
      unfold rstep; simp only [hp, hpc, hm, ne_eq, not_true_eq_false, if_false]
    rw [e]; exact h.silent hp _ rfl rfl rfl (.inr ⟨by simp, by rw [hpc]; simp, by rw [hpc]; rfl⟩)
  | rcSz old =>
    have e : rstep c = { c with rpc := .rcStep old, rbuf := c.rbuf, lin := c.lin } := by
      unfold rstep; simp only [hp, hpc]
    rw [e]; exact h.silent hp _ rfl rfl rfl (.inr ⟨by simp, by rw [hpc]; simp, by rw [hpc]; rfl⟩)
  | rcStep old =>
    have e : rstep c = { c with rpc := .rcClr old (c.rb.chunkStep old), rbuf := c.rbuf, lin := c.lin } := by
      unfold rstep; simp only [hp, hpc]
    rw [e]; exact h.silent hp _ rfl rfl rfl (.inr ⟨by simp, by rw [hpc]; simp, by rw [hpc]; rfl⟩)
  | rcClr old new =>
    have e : rstep c = { c with rb := { c.rb with mem := wr32 c.rb.mem old 0 }, rpc := .rcDead old new } := by
      unfold rstep; simp only [hp, hpc]
    rw [e]; exact h.silent hp _ rfl rfl rfl (.inr ⟨by simp, by rw [hpc]; simp, by rw [hpc]; rfl⟩)
  | rcDead old new =>
    have e : rstep c = { c with rb := c.rb.setMagic old DEAD, rpc := .rcSetRp new } := by
      unfold rstep; simp only [hp, hpc]
    rw [e]; exact h.silent hp _ rfl rfl rfl (.inr ⟨by simp, by rw [hpc]; simp, by rw [hpc]; rfl⟩)
  | rcSetRp n => exact absurd hpc (hns n)

/-- the `read_pt` store: the call returns the chunk -/
theorem rstep_linObsR_set {new} (hi : CInv c q) (h : LinObsR prog0 c q) (hp : c.rprog = op :: rest)
    (hpc : c.rpc = .rcSetRp new) : ∀ d ds, q = d :: ds → LinObsR prog0 (rstep c) ds := by
  intro d ds hq
  have hrf := RFacts_get hp hi.rf
  rw [hpc] at hrf
  obtain ⟨d', hrc, hnew⟩ := hrf
  obtain ⟨⟨ds', hq'⟩, hbuf, hcap⟩ := hrc
  rw [hq] at hq'
  obtain ⟨rfl, rfl⟩ := List.cons.inj hq'
  have e : rstep c = { c with rb := { c.rb with rp := new }, rpc := .idle, rprog := rest, rbuf := [], rOuts := c.rOuts ++ [.data c.rbuf], readsOk := c.readsOk ++ [c.rbuf], lin := c.lin ++ [match op with | .read cap => (.read cap, .data c.rbuf) | .pr _ => (.reclaim, .unit)] } := by
    unfold rstep Conf.rDone Conf.addLin
    cases op <;> simp only [hp, hpc, List.tail_cons]
  have h1 : (rstep c).rprog = rest := by rw [e]
  have h2 : (rstep c).rOuts = c.rOuts ++ [.data d] := by rw [e, hbuf]
  have h3 : (rstep c).rpc = .idle := by rw [e]
  refine h.done hp (.data d) h1 h2 h3 ?_
  intro pre e1
  cases op with
  | read cap =>
    have hlin : (rstep c).lin = c.lin ++ [(.read cap, .data d)] := by rw [e, hbuf]
    rw [inflightLinR_read hp, List.append_nil] at e1
    rw [hlin, rEvents_snoc _ _ _ (by simp), e1]; rfl
  | pr f =>
    have hlin : (rstep c).lin = c.lin ++ [(.reclaim, .unit)] := by rw [e]
    rw [inflightLinR_pr hp, hpc, hq] at e1
    simp only [reduceCtorEq, if_false, peekDone, if_true, List.headD_cons] at e1
    rw [hlin, rEvents_snoc _ _ _ (by simp), e1]
    simp [rCall1]

end

end QbVerif.RingConcLemmas
