/-
Channel-level lemmas for the IPC model (property C02): what `Chan.send` / `Chan.recv` and the
ring operations used by the server dispatch (`peek`, `reclaim`) do to the queue of a channel
and to its semaphore / `sent` counter.
-/
import QbVerif.Model.Ipc

namespace QbVerif.IpcLemmas
open QbVerif QbVerif.RingSpec QbVerif.Ipc

def Chan.isShm : Chan → Bool
  | .shm _ => true
  | .dgram _ _ => false

/-- the counter of a channel agrees with its queue, except for `k` chunks that have been
    peeked (semaphore taken) but not yet reclaimed -/
def ChanOk (c : Chan) (k : Nat) : Prop :=
  match c with
  | .shm f => f.sem = some (f.q.length - k) ∧ k ≤ f.q.length
  | .dgram q sent => sent = q.length ∧ k = 0

@[simp] theorem chanOk_shm (f : Fifo) (k : Nat) :
    ChanOk (.shm f) k ↔ f.sem = some (f.q.length - k) ∧ k ≤ f.q.length := Iff.rfl
@[simp] theorem chanOk_dgram (q : List Msg) (n k : Nat) : ChanOk (.dgram q n) k ↔ n = q.length ∧ k = 0 := Iff.rfl
@[simp] theorem queue_shm (f : Fifo) : (Chan.shm f).queue = f.q := rfl
@[simp] theorem queue_dgram (q : List Msg) (n : Nat) : (Chan.dgram q n).queue = q := rfl
@[simp] theorem isShm_shm (f : Fifo) : Chan.isShm (.shm f) = true := rfl
@[simp] theorem isShm_dgram (q : List Msg) (n : Nat) : Chan.isShm (.dgram q n) = false := rfl
@[simp] theorem ite_stage_ne_inCb (c : Prop) [Decidable c] :
    ((if c then Stage.ready else Stage.finished) = Stage.inCb) = False := by split <;> simp

theorem fifo_write_cases (f : Fifo) (m : Msg) :
    f.step (.write m) = (f, .err .eagain) ∨
    f.step (.write m) = (({ f with q := f.q ++ [m] } : Fifo).post, .wrote m.length) := by
  simp only [Fifo.step]
  split <;> simp

theorem send_ok {c c' : Chan} {m : Msg} {dg : DgRes} (h : c.send m dg = .ok c') :
    c'.queue = c.queue ++ [m] ∧ (∀ k, ChanOk c k → ChanOk c' k) ∧ Chan.isShm c' = Chan.isShm c := by
  cases c with
  | shm f =>
    simp only [Chan.send] at h
    rcases fifo_write_cases f m with hw | hw
    · rw [hw] at h; simp at h
    · rw [hw] at h
      simp at h
      subst h
      refine ⟨by simp [Chan.queue, Fifo.post], ?_, by simp [Chan.isShm]⟩
      intro k hk
      simp only [ChanOk, Fifo.post] at hk ⊢
      obtain ⟨h1, h2⟩ := hk
      simp [h1]
      omega
  | dgram q sent =>
    simp only [Chan.send] at h
    cases dg with
    | ok =>
      simp at h
      subst h
      refine ⟨by simp [Chan.queue], ?_, by simp [Chan.isShm]⟩
      intro k hk
      simp only [ChanOk] at hk ⊢
      simp [hk.1, hk.2]
    | fail e => simp at h

theorem recv_spec {c c' : Chan} {cap : Nat} {r : Except Ipc.Err Msg} (h : c.recv cap = some (c', r))
    (hok : ChanOk c 0) :
    ChanOk c' 0 ∧ Chan.isShm c' = Chan.isShm c ∧
    (∀ m, r = .ok m → c.queue = m :: c'.queue) ∧
    (∀ e, r = .error e → c'.queue = c.queue) ∧
    (r = .error .etimedout → c.queue = []) := by
  cases c with
  | shm f =>
    obtain ⟨W, q, sem⟩ := f
    simp only [ChanOk] at hok
    obtain ⟨hs, -⟩ := hok
    simp at hs
    subst hs
    cases q with
    | nil =>
      simp [Chan.recv, Fifo.step, Fifo.tryWait] at h
      obtain ⟨rfl, rfl⟩ := h
      simp [ChanOk, Chan.isShm, Chan.queue]
    | cons m rest =>
      by_cases hc : cap < m.length
      · simp [Chan.recv, Fifo.step, Fifo.tryWait, hc, Fifo.post] at h
        obtain ⟨rfl, rfl⟩ := h
        simp [ChanOk, Chan.isShm, Chan.queue]
      · simp [Chan.recv, Fifo.step, Fifo.tryWait, hc] at h
        obtain ⟨rfl, rfl⟩ := h
        simp [ChanOk, Chan.isShm, Chan.queue]
  | dgram q sent =>
    simp only [ChanOk] at hok
    obtain ⟨rfl, -⟩ := hok
    cases q with
    | nil =>
      simp [Chan.recv] at h
      obtain ⟨rfl, rfl⟩ := h
      simp [ChanOk, Chan.isShm, Chan.queue]
    | cons m rest =>
      simp only [Chan.recv] at h
      split at h
      · simp at h
      · simp at h
        obtain ⟨rfl, rfl⟩ := h
        simp [ChanOk, Chan.isShm, Chan.queue]

/-- `qb_rb_chunk_peek` on a ring whose semaphore counts its chunks: the head chunk, or nothing
    when the ring is empty -/
theorem peek_spec (f : Fifo) (hs : f.sem = some f.q.length) :
    (f.q = [] ∧ f.step .peek = (f, .timedOut)) ∨
    (∃ m rest, f.q = m :: rest ∧ f.step .peek = ({ f with sem := some rest.length }, .data m)) := by
  obtain ⟨W, q, sem⟩ := f
  simp at hs
  subst hs
  cases q with
  | nil => left; simp [Fifo.step, Fifo.tryWait]
  | cons m rest => right; exact ⟨m, rest, rfl, by simp [Fifo.step, Fifo.tryWait]⟩

theorem reclaim_spec (f : Fifo) : (f.step .reclaim).1 = { f with q := f.q.tail } := by
  simp [Fifo.step]

end QbVerif.IpcLemmas
