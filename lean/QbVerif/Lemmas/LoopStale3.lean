/-
C08: `TStep` for the timer functions, every API call of a nonce-free history and the top of the loop body.
Core Lean only.
-/
import QbVerif.Lemmas.LoopStale2

namespace QbVerif.Loop
open QbVerif.Gen

/-- `qb_loop_timer_add`: the slot gets the word random() has just drawn — larger than every earlier one -/
theorem timerAdd_tstep (s : St) (p d h id : Nat) : TStep s (s.timerAdd p d h id).1 := by
  unfold St.timerAdd
  dsimp only
  generalize hj : firstEmptyT s.timers = j
  generalize ht : ({ state := .active, check := s.draw.fst, prio := p, data := id, hasTl := true } : TimerSlot) = t
  have htc : t.check = s.nonce + 1 := by subst ht; rfl
  have hlen : s.draw.2.timers.length = s.timers.length := rfl
  have hslot : ∀ k, s.draw.2.timerSlot k = s.timerSlot k := fun _ => rfl
  have key : TStep s (s.draw.2.setTimer j t) := by
    refine ⟨fun h => by unfold NN; rw [setTimer_scripts]; exact h, by simp, by simp, ?_, ?_, by simp⟩
    · intro hc i
      rw [timerSlot_setTimer]; simp only [setTimer_nonce, draw_nonce]
      split
      · rw [htc]; exact Nat.le_refl _
      · rw [hslot]; exact Nat.le_succ_of_le (hc i)
    · intro i c h1 h2 hn
      right; unfold liveT
      rw [timerSlot_setTimer]
      split
      · intro hl; have := hl.1; rw [htc] at this; omega
      · rw [hslot]; exact hn
  exact key.trans (TStep.of_eq rfl rfl rfl rfl rfl)

/-- `qb_loop_timer_del` -/
theorem timerDel_tstep (s : St) (h : Nat) : TStep s (s.timerDel h).1 := by
  unfold St.timerDel
  split
  · exact TStep.refl s
  · dsimp only
    split
    · exact TStep.refl s
    · split
      · exact TStep.refl s
      · rename_i i _ _ _
        generalize hs2 : (if (s.timerSlot i).hasTl = true then _ else _ : St) = s2
        have h2 : TStep s s2 ∧ s2.timers = s.timers ∧ s2.nonce = s.nonce := by
          subst hs2
          constructor
          · refine TStep.ite ?_ ?_
            · exact TStep.trans (TStep.ite (itemDel_tstep _ _ _) (TStep.refl s)) (TStep.of_eq rfl rfl rfl rfl rfl)
            · exact TStep.ite (itemDel_tstep _ _ _) (TStep.refl s)
          · split <;> split <;> simp
        have hslot : s2.timerSlot i = s.timerSlot i := by unfold St.timerSlot; rw [h2.2.1]
        refine h2.1.trans (TStep.setTimer_new s2 i _ ?_ ?_)
        · intro hc; have := hc i; rw [hslot] at this; exact this
        · intro c _ _ hl; exact absurd rfl hl.2

/-- `expire_the_timers`: a slot becomes JOBLIST; if it was not ACTIVE the model (the real code: `assert`) faults -/
theorem timerPollAux_tstep (n : Nat) (s : St) (k : Int) : TStep s (St.timerPollAux n s k).1 := by
  induction n generalizing s k with
  | zero => exact TStep.refl s
  | succ n ih =>
    rw [St.timerPollAux]
    split
    · exact TStep.refl s
    · split
      · refine TStep.trans ?_ (ih _ _)
        dsimp only
        rename_i e i rest _ _
        generalize hs2 : (if ((s.timerSlot i).state != EState.active && s.fault.isNone) = true then
          ({ s with tl := rest, fault := some "abort" } : St) else { s with tl := rest }) = s2
        have ht2 : s2.timers = s.timers ∧ s2.nonce = s.nonce ∧ s2.scripts = s.scripts ∧ s2.dlog = s.dlog := by
          subst hs2; split <;> exact ⟨rfl, rfl, rfl, rfl⟩
        have hf2 : (s.fault.isSome → s2.fault.isSome) ∧ ((s.timerSlot i).state ≠ .active → s2.fault.isSome) := by
          subst hs2
          constructor
          · intro h; split <;> simp_all
          · intro h; cases hfa : s.fault <;> simp [hfa, h]
        generalize hs3 : s2.itemAdd (s.timerSlot i).prio (Item.timer i) = s3
        have ht3 : s3.timers = s.timers ∧ s3.nonce = s.nonce ∧ s3.scripts = s.scripts ∧ s3.dlog = s.dlog ∧
            s3.fault = s2.fault := by
          subst hs3; simp [ht2.1, ht2.2.1, ht2.2.2.1, ht2.2.2.2]
        have hslot : ∀ j, s3.timerSlot j = s.timerSlot j := fun j => by unfold St.timerSlot; rw [ht3.1]
        have hlen : s3.timers.length = s.timers.length := by rw [ht3.1]
        refine ⟨fun h => by unfold NN; rw [setTimer_scripts, ht3.2.2.1]; exact h, by simp [ht3.2.1],
          fun h => by rw [setTimer_fault, ht3.2.2.2.2]; exact hf2.1 h, ?_, ?_, by simp [ht3.2.2.2.1]⟩
        · intro hc j
          rw [timerSlot_setTimer]; simp only [setTimer_nonce, ht3.2.1]
          split
          · exact hc i
          · rw [hslot]; exact hc j
        · intro j c h1 hcn hn
          unfold liveT
          rw [timerSlot_setTimer]
          split
          · rename_i hcase
            by_cases hchk : (s.timerSlot i).check = c
            · rcases hcase with ⟨_, rfl⟩ | ⟨hge, _⟩
              · have : (s.timerSlot j).state = .empty := by
                  cases hst : (s.timerSlot j).state <;> first | rfl | exact absurd ⟨hchk, by rw [hst]; simp⟩ hn
                left; rw [setTimer_fault, ht3.2.2.2.2]
                exact hf2.2 (by rw [this]; simp)
              · rw [hlen] at hge
                rw [timerSlot_ge s i hge] at hchk
                exact absurd hchk (by show (0 : Nat) ≠ c; omega)
            · right; intro hl; exact hchk hl.1
          · right; rw [hslot]; exact hn
      · exact TStep.refl s

/-- every API call of a history that does not steer random() -/
theorem api_tstep (s : St) (n : Bool) (op : Op) (h : okNonce op) : TStep s (s.api n op).1 := by
  unfold St.api
  split
  · exact TStep.refl s
  · cases op with
    | jobAdd p id => exact jobAdd_tstep s p id
    | jobDel p id => exact jobDel_tstep s p id
    | timerAdd p ns hh id =>
      dsimp only; split
      · exact TStep.refl s
      · exact TStep.trans (b := { s with tseq := s.tseq + 1 }) (TStep.of_eq rfl rfl rfl rfl rfl)
          (timerAdd_tstep _ p (ns + (s.tseq + 1)) hh id)
    | timerDel hh =>
      dsimp only; split
      · exact TStep.refl s
      · exact timerDel_tstep s _
    | timerRunning hh => dsimp only; split <;> exact TStep.refl s
    | pollAdd p fd ev id =>
      dsimp only; split
      · exact TStep.refl s
      · exact pollAdd_tstep s n p fd ev id
    | pollMod p fd ev id =>
      dsimp only; split
      · exact TStep.refl s
      · exact pollMod_tstep s n p fd ev id
    | pollDel fd => exact pollDel_tstep s n fd
    | sigAdd p sg hh id =>
      dsimp only; split
      · exact TStep.refl s
      · split
        · exact TStep.refl s
        · exact sigAdd_tstep s p sg hh id
    | sigMod p sg hh id =>
      dsimp only; split
      · exact TStep.refl s
      · split
        · exact TStep.refl s
        · rename_i aid _; exact sigMod_tstep s p sg aid id
    | sigDel hh =>
      dsimp only; split
      · exact TStep.refl s
      · split
        · exact TStep.refl s
        · rename_i aid _; exact sigDel_tstep s aid
    | stop => exact TStep.of_eq rfl rfl rfl rfl rfl
    | openFd fd => dsimp only; split <;> first | exact TStep.refl s | exact TStep.of_eq rfl rfl rfl rfl rfl
    | closeFd fd => dsimp only; split <;> first | exact TStep.refl s | exact TStep.of_eq rfl rfl rfl rfl rfl
    | advance ns => exact TStep.of_eq rfl rfl rfl rfl rfl
    | nonce v => exact absurd rfl (h v)
    | signal sg =>
      dsimp only; split
      · exact TStep.refl s
      · split <;> first | exact TStep.refl s | exact TStep.of_eq rfl rfl rfl rfl rfl
    | info => exact TStep.refl s

theorem beginIteration_tstep (s : St) : TStep s s.beginIteration := by
  unfold St.beginIteration
  dsimp only
  generalize hs0 : ({ s with pstop := if s.pstop = QB_LOOP_LOW then QB_LOOP_HIGH else s.pstop - 1 } : St) = s0
  have h1 : TStep s s0 := by subst hs0; exact TStep.of_eq rfl rfl rfl rfl rfl
  have h2 := jobPoll_tstep s0
  have h3 := timerPollAux_tstep s0.jobPoll.1.tl.length s0.jobPoll.1 0
  exact ((h1.trans h2).trans h3).trans (TStep.of_eq rfl rfl rfl rfl rfl)

end QbVerif.Loop
