/-
A complete iteration pass over the handle database (C20): `qb_hdb_iterator_reset`, then
`qb_hdb_iterator_next` until it fails, returns exactly the ACTIVE entries in slot order, each with its
instance pointer and the handle value composed from the entry's own check.
-/
import QbVerif.Lemmas.HdbHist

namespace QbVerif.Hdb
open QbVerif.Gen

/-- what iteration hands out for slot `j`: `*instance`, `*handle` -/
def Tbl.visit (t : Tbl) (j : Nat) : Option Nat × Nat := ((t.get j).inst, mkHandle (t.get j).check j)

/-- the ACTIVE entries among the slots `a, a+1, …, a+n-1`, in slot order -/
def Tbl.activeList (t : Tbl) : Nat → Nat → List (Option Nat × Nat)
  | _, 0 => []
  | a, n + 1 => (if (t.get a).state = ACTIVE then [t.visit a] else []) ++ Tbl.activeList t (a + 1) n

theorem Tbl.activeList_congr {t t' : Tbl} {a n : Nat} (h : ∀ i, a ≤ i → t'.get i = t.get i) :
    t'.activeList a n = t.activeList a n := by
  induction n generalizing a with
  | zero => rfl
  | succ n ih =>
    unfold Tbl.activeList Tbl.visit
    rw [h a (Nat.le_refl a), ih (fun i hi => h i (by omega))]

theorem Tbl.mem_activeList {t : Tbl} {a n : Nat} {x : Option Nat × Nat} :
    x ∈ t.activeList a n ↔ ∃ j, a ≤ j ∧ j < a + n ∧ (t.get j).state = ACTIVE ∧ x = t.visit j := by
  induction n generalizing a with
  | zero =>
    unfold Tbl.activeList
    constructor
    · intro h; cases h
    · rintro ⟨j, h1, h2, _⟩; omega
  | succ n ih =>
    unfold Tbl.activeList
    rw [List.mem_append, ih]
    constructor
    · rintro (h | ⟨j, h1, h2, h3, h4⟩)
      · split at h
        · rename_i hact
          exact ⟨a, Nat.le_refl a, by omega, hact, List.mem_singleton.mp h⟩
        · cases h
      · exact ⟨j, by omega, by omega, h3, h4⟩
    · rintro ⟨j, h1, h2, h3, h4⟩
      by_cases hja : j = a
      · subst hja
        left; rw [if_pos h3]; exact List.mem_singleton.mpr h4
      · right; exact ⟨j, by omega, by omega, h3, h4⟩

/-- the handle values handed out are pairwise different (slots are) -/
theorem Tbl.activeList_nodup {t : Tbl} {a n : Nat} (hb : a + n ≤ 2^32) :
    ((t.activeList a n).map (·.2)).Nodup := by
  induction n generalizing a with
  | zero => unfold Tbl.activeList; exact List.nodup_nil
  | succ n ih =>
    unfold Tbl.activeList
    rw [List.map_append]
    have ih' := ih (a := a + 1) (by omega)
    split
    · rw [List.map_singleton, List.singleton_append, List.nodup_cons]
      refine ⟨?_, ih'⟩
      intro hm
      obtain ⟨x, hx, hxe⟩ := List.mem_map.mp hm
      obtain ⟨j, h1, h2, _, h4⟩ := Tbl.mem_activeList.mp hx
      rw [h4] at hxe
      have e1 : hSlot (mkHandle (t.get j).check j) = j := hSlot_mk (by omega)
      have e2 : hSlot (mkHandle (t.get a).check a) = a := hSlot_mk (by omega)
      have hxe' : mkHandle (t.get j).check j = mkHandle (t.get a).check a := hxe
      rw [hxe'] at e1
      omega
    · rw [List.map_nil, List.nil_append]; exact ih'

/-- one `qb_hdb_iterator_next` call with `n` slots left under the cursor: it fails iff none of them is
    ACTIVE; otherwise it stops at the first ACTIVE one (slot `j`), takes a reference on it and leaves the
    cursor behind it -/
theorem iterLoop_scan {st : St} (g : G st) (n : Nat) (res : Int) (hn : st.iterator + n = st.handleCount)
    (hres : res ≠ 0) :
    ((st.iterLoop n res).2.1 ≠ 0 ∧ st.tbl.activeList st.iterator n = []) ∨
    ((st.iterLoop n res).2.1 = 0 ∧ ∃ j m, st.iterator ≤ j ∧ j + 1 + m = st.handleCount ∧
        st.tbl.activeList st.iterator n = st.tbl.visit j :: st.tbl.activeList (j + 1) m ∧
        (st.iterLoop n res).2.2 = st.tbl.visit j ∧
        (st.iterLoop n res).1 =
          { st with tbl := st.tbl.set j ({ (st.tbl.get j) with refCount := (st.tbl.get j).refCount + 1 }),
                    iterator := j + 1 }) := by
  induction n generalizing st res with
  | zero => left; exact ⟨hres, rfl⟩
  | succ n ih =>
    have hlt : st.iterator < st.handleCount := by omega
    by_cases hy : st.getOk (mkHandle (st.tbl.get st.iterator).check st.iterator)
    · right
      have hact := (iter_getOk_iff g hlt).mp hy
      rw [iterLoop_hit g n res hlt hy]
      refine ⟨rfl, st.iterator, n, Nat.le_refl _, by omega, ?_, rfl, rfl⟩
      show (if _ then _ else _) ++ _ = _
      rw [if_pos hact]; rfl
    · have hact : ¬ (st.tbl.get st.iterator).state = ACTIVE := fun hc => hy ((iter_getOk_iff g hlt).mpr hc)
      rw [iterLoop_miss g n res hlt hy]
      have hal : st.tbl.activeList st.iterator (n + 1) = st.tbl.activeList (st.iterator + 1) n := by
        show (if _ then _ else _) ++ _ = _
        rw [if_neg hact]; rfl
      rw [hal]
      rcases ih (st := { st with iterator := st.iterator + 1 }) (g.setIter _) EBADF
          (by show st.iterator + 1 + n = st.handleCount; omega) ebadf_ne_zero with h1 | ⟨h0, j, m, hj, hm, ha, hv, hs⟩
      · left; exact h1
      · right
        exact ⟨h0, j, m, by have : st.iterator + 1 ≤ j := hj; omega, hm, ha, hv, hs⟩

/-- `fuel` calls of `qb_hdb_iterator_next` (more than there are slots left) return the ACTIVE entries -/
theorem iterCollect_eq {st : St} (g : G st) (n fuel : Nat) (hn : st.iterator + n = st.handleCount)
    (hf : n < fuel) : St.iterCollect fuel st = st.tbl.activeList st.iterator n := by
  induction fuel generalizing st n with
  | zero => omega
  | succ fuel ih =>
    have hnn : st.handleCount - st.iterator = n := by omega
    have hsc := iterLoop_scan g n (-1) hn (by decide)
    unfold St.iterCollect St.iterNext
    rw [hnn]
    rcases hsc with ⟨h1, h2⟩ | ⟨h0, j, m, hj, hm, ha, hv, hs⟩
    · simp only
      rw [if_neg h1, h2]
    · simp only
      rw [if_pos h0, ha]
      have hpair : ((st.iterLoop n (-1)).2.2.1, (st.iterLoop n (-1)).2.2.2) = st.tbl.visit j := hv
      rw [hpair, hs]
      congr 1
      have g' : G { st with tbl := st.tbl.set j ({ (st.tbl.get j) with refCount := (st.tbl.get j).refCount + 1 }),
                            iterator := j + 1 } :=
        g.setEntry _ _ _ (g.checkLt _) (g.instLt _) (g.activeInst _)
      rw [ih g' m (by show j + 1 + m = st.handleCount; exact hm) (by omega)]
      exact Tbl.activeList_congr (fun i hi => Tbl.get_set_ne _ _ (by show i ≠ j; have : j + 1 ≤ i := hi; omega))

/-- **a complete pass** (reset, next until failure) returns exactly the ACTIVE entries, in slot order -/
theorem iterAll_eq {st : St} (g : G st) : st.iterAll = st.tbl.activeList 0 st.handleCount := by
  unfold St.iterAll
  exact iterCollect_eq (st := { st with iterator := 0 }) (g.setIter 0) st.handleCount _
    (by show 0 + st.handleCount = st.handleCount; omega) (by omega)

end QbVerif.Hdb
