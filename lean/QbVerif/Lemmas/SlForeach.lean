/-
Skiplist, single-level fragment: `qb_map_foreach` (iterator under key 0: create, loop, free) visits
the chain in order, complete or abandoned at the `stop`-th callback, emits nothing and gives the
state back unchanged.
-/
import QbVerif.Lemmas.SlRm

namespace QbVerif.Skiplist
open QbVerif.Map
set_option linter.unusedSimpArgs false

def kv (e : Entry) : Key × Val := (e.key, e.val)

/-- the pairs a traversal that stops at the `stop`-th callback hands out -/
def takeStop (stop : Nat) (l : List (Key × Val)) : List (Key × Val) := if stop = 0 then l else l.take stop

/-- the internal iterator of `qb_map_foreach` parked on `p` (one more reference on `p`) -/
def park (s : SL) (p : NodeId) (pn : Node) : SL :=
  { s with nodes := upd s.nodes p (some { pn with refcount := 2 }), iters := [(0, some p)] }

/-- what `SL.foreach` does after the loop -/
def foreachPost (r : M (SL × List Event × List (Key × Val) × Bool)) : M (SL × Out) := do
  let (s1, evs, vis, stopped) ← r
  let (s2, e2) ← s1.iterFree 0 ((s1.iters.lookup 0).getD none)
  .ok (s2, ⟨evs ++ e2, .visited vis (!stopped)⟩)

theorem foreach_unfold (s : SL) (stop : Nat) :
    s.foreach stop = (do let s0 ← s.iterCreate 0; foreachPost (SL.foreachLoop (s.length + 2) s0 stop [] [])) := by
  unfold SL.foreach foreachPost
  rfl

theorem rc1_eta {pn : Node} (h : pn.refcount = 1) : ({ pn with refcount := 1 } : Node) = pn := by
  cases pn; simp_all

theorem iterNext_park_some {s : SL} {p n : NodeId} {pn nn : Node} {pa} (hp : s.nodes p = some pn) (hrc : pn.refcount = 1)
    (hpa : s.fwds pn.fwd = some pa) (hn0 : pa 0 = some n) (hn : s.nodes n = some nn) (hnrc : nn.refcount = 1)
    (hne : p ≠ n) (hi : s.iters = []) :
    (park s p pn).iterNext 0 (some p) = .ok (park s n nn, [], some (nn.key.getD [], nn.val)) := by
  have e1 : (park s p pn).nodeNext (park s p pn).fuel p = .ok (some n) := by
    show (park s p pn).nodeNext (s.length + 11 + 1) p = _
    simp [SL.nodeNext, SL.fwdAt, SL.node, SL.arr, park, upd, hpa, hn0, bind, Except.bind, hne.symm, hn, hnrc]
  simp only [SL.iterNext, e1, bind, Except.bind]
  simp [SL.node, SL.setNode, SL.nodeDeref, park, upd, hne, hne.symm, hn, bind, Except.bind, setIter, hnrc]
  funext x
  have := rc1_eta hrc
  by_cases hx : x = p
  · subst hx; simp [upd, hne, hp]; exact this
  · simp [upd, hx]

theorem iterNext_park_none {s : SL} {p : NodeId} {pn : Node} {pa} (hp : s.nodes p = some pn) (hrc : pn.refcount = 1)
    (hpa : s.fwds pn.fwd = some pa) (hn0 : pa 0 = none) (hi : s.iters = []) :
    (park s p pn).iterNext 0 (some p) = .ok ({ s with iters := [(0, none)] }, [], none) := by
  have e1 : (park s p pn).nodeNext (park s p pn).fuel p = .ok none := by
    show (park s p pn).nodeNext (s.length + 11 + 1) p = _
    simp [SL.nodeNext, SL.fwdAt, SL.node, SL.arr, park, upd, hpa, hn0, bind, Except.bind]
  simp only [SL.iterNext, e1, bind, Except.bind]
  simp [SL.node, SL.setNode, SL.nodeDeref, park, upd, bind, Except.bind, setIter]
  have : upd (upd s.nodes p (some { pn with refcount := 2 })) p (some { pn with refcount := 1 }) = s.nodes := by
    funext x
    by_cases hx : x = p
    · subst hx; simp [upd, hp]; exact rc1_eta hrc
    · simp [upd, hx]
  exact this

theorem iters_nil_eta {s : SL} (hi : s.iters = []) : { s with iters := [] } = s := by
  cases s; simp_all

theorem iterFree_park {s : SL} {p : NodeId} {pn : Node} (hp : s.nodes p = some pn) (hrc : pn.refcount = 1)
    (hi : s.iters = []) : (park s p pn).iterFree 0 (some p) = .ok (s, []) := by
  simp [SL.iterFree, SL.nodeDeref, SL.node, SL.setNode, park, upd, bind, Except.bind]
  have : upd (upd s.nodes p (some { pn with refcount := 2 })) p (some { pn with refcount := 1 }) = s.nodes := by
    funext x
    by_cases hx : x = p
    · subst hx; simp [upd, hp]; exact rc1_eta hrc
    · simp [upd, hx]
  rw [this]
  exact iters_nil_eta hi

theorem loop_eq {s : SL} (hi : s.iters = []) (stop : Nat) : ∀ (es : List Entry) (ids : List NodeId) (p : NodeId) (pn : Node)
    (vis : List (Key × Val)) (fuel : Nat),
    Chain s p ids es → (p :: ids).Nodup → s.nodes p = some pn → pn.refcount = 1 → (∃ pa, s.fwds pn.fwd = some pa) →
    ids.length < fuel → (stop = 0 ∨ vis.length < stop) →
    foreachPost (SL.foreachLoop fuel (park s p pn) stop [] vis) =
      .ok (s, ⟨[], .visited (takeStop stop (vis ++ es.map kv)) (stop = 0 || vis.length + es.length < stop)⟩)
  | [], [], p, pn, vis, fuel, hc, _, hp, hrc, ⟨pa, hpa⟩, hf, hst => by
    obtain ⟨f, rfl⟩ : ∃ f, fuel = f + 1 := ⟨fuel - 1, by omega⟩
    have h0 : pa 0 = none := by
      have : next0 s p = none := hc
      simpa [next0, hp, hpa] using this
    have hl : (park s p pn).iters.lookup 0 = some (some p) := by simp [park, List.lookup]
    simp only [SL.foreachLoop, hl, iterNext_park_none hp hrc hpa h0 hi, bind, Except.bind, foreachPost]
    simp [SL.iterFree, List.lookup, bind, Except.bind, iters_nil_eta hi]
    refine ⟨?_, ?_⟩
    · unfold takeStop
      split
      · rfl
      · rcases hst with h | h
        · contradiction
        · exact (List.take_of_length_le (by omega)).symm
    · rcases hst with h | h <;> simp [h]
  | e :: es, i :: ids, p, pn, vis, fuel, hc, hnd, hp, hrc, ⟨pa, hpa⟩, hf, hst => by
    obtain ⟨f, rfl⟩ : ∃ f, fuel = f + 1 := ⟨fuel - 1, by omega⟩
    obtain ⟨h1, ⟨fi, ai, hin, hia⟩, h2⟩ := hc
    have h0 : pa 0 = some i := by simpa [next0, hp, hpa] using h1
    have hne : p ≠ i := fun he => (List.nodup_cons.1 hnd).1 (he ▸ List.mem_cons_self)
    have hl : (park s p pn).iters.lookup 0 = some (some p) := by simp [park, List.lookup]
    simp only [SL.foreachLoop, hl, iterNext_park_some hp hrc hpa h0 hin rfl hne hi, bind, Except.bind]
    by_cases hcnd : (decide (stop > 0) && decide (vis.length + 1 ≥ stop)) = true
    · simp only [hcnd, if_true, foreachPost, bind, Except.bind]
      have hl2 : (park s i ⟨some e.key, e.val, 1, 1, fi, e.notifs⟩).iters.lookup 0 = some (some i) := by
        simp [park, List.lookup]
      simp only [hl2, Option.getD_some, iterFree_park hin rfl hi]
      simp only [Bool.and_eq_true, decide_eq_true_eq] at hcnd
      have hs : stop = vis.length + 1 := by rcases hst with h | h <;> omega
      have : vis ++ (e.key, e.val) :: List.map kv es = (vis ++ [(e.key, e.val)]) ++ List.map kv es := by simp
      simp [takeStop, hs, kv]
      rw [this, List.take_left' (by simp)]
    · simp only [hcnd, Bool.false_eq_true, if_false]
      simp only [Bool.and_eq_true, decide_eq_true_eq, not_and] at hcnd
      have hst' : stop = 0 ∨ (vis ++ [(e.key, e.val)]).length < stop := by
        simp only [List.length_append, List.length_singleton]
        by_cases h0 : stop = 0
        · exact Or.inl h0
        · right; have := hcnd (by omega); omega
      have ih := loop_eq hi stop es ids i ⟨some e.key, e.val, 1, 1, fi, e.notifs⟩ (vis ++ [(e.key, e.val)]) f h2
        (List.nodup_cons.1 hnd).2 hin rfl ⟨ai, hia⟩ (by simp at hf; omega) hst'
      simp only [List.append_nil, Option.getD_some] at ih ⊢
      rw [ih]
      simp [kv, Nat.add_assoc, Nat.add_comm 1]
  | [], _ :: _, _, _, _, _, hc, _, _, _, _, _, _ => by cases hc
  | _ :: _, [], _, _, _, _, hc, _, _, _, _, _, _ => by cases hc

theorem foreach_eq {s ids es g} (h : Inv s ids es g) (stop : Nat) :
    s.foreach stop = .ok (s, ⟨[], .visited (takeStop stop (es.map kv)) (stop = 0 || es.length < stop)⟩) := by
  obtain ⟨hf, ha, hv, hh1, hh2⟩ := h.hdr
  rw [foreach_unfold]
  have hc : s.iterCreate 0 = .ok (park s s.header ⟨none, hv, LEVEL_MAX + 1, 1, hf, g⟩) := by
    simp [SL.iterCreate, SL.node, hh1, SL.setNode, park, h.iters, bind, Except.bind]
  simp only [hc, bind, Except.bind]
  have := loop_eq h.iters stop es ids s.header _ [] (s.length + 2) h.chain h.nodup hh1 rfl ⟨ha, hh2⟩
    (by rw [h.len, h.chain.length_eq]; omega) (by
      by_cases h0 : stop = 0
      · exact Or.inl h0
      · right; simp; omega)
  simpa using this

end QbVerif.Skiplist
