/-
Overwrite mode (C11): the reclaim loop of `qb_rb_chunk_alloc` under the invariant, simulation of
the overwriting ring by the overwrite FIFO (`Model/RingOwSpec.lean`), and the arithmetic of
"which chunks survive" on the FIFO.
-/
import QbVerif.Model.RingOwSpec
import QbVerif.Lemmas.RingSim

namespace QbVerif.RingLemmas
open QbVerif.Ring QbVerif.RingSpec

theorem length_le_total (q : List (List Nat)) : 2 * q.length ≤ total q := by
  induction q with
  | nil => simp [total]
  | cons c cs ih => have := cw_ge c.length; simp only [List.length_cons, total_cons]; omega

theorem Inv.length_lt {r q TR} (h : Inv r q TR) : q.length < r.W := by
  have := length_le_total q
  have := h.used
  omega

theorem makeRoom_stop (r : Rb) (len fuel : Nat) (hc : ¬ r.spaceFree < len + MARGIN) :
    r.makeRoom len (fuel + 1) = (r, true) := by
  have hc' : ¬ r.spaceFreeGen true < len + MARGIN := hc
  simp only [Rb.makeRoom, Rb.makeRoomGen, if_neg hc']

theorem makeRoom_fail (r : Rb) (len fuel : Nat) (hc : r.spaceFree < len + MARGIN)
    (hr : r.reclaim = (r, false)) : r.makeRoom len (fuel + 1) = (r, false) := by
  have hc' : r.spaceFreeGen true < len + MARGIN := hc
  simp only [Rb.makeRoom, Rb.makeRoomGen, if_pos hc', hr]

theorem makeRoom_drop (r r' : Rb) (len fuel : Nat) (hc : r.spaceFree < len + MARGIN)
    (hr : r.reclaim = (r', true)) : r.makeRoom len (fuel + 1) = r'.makeRoom len fuel := by
  have hc' : r.spaceFreeGen true < len + MARGIN := hc
  simp only [Rb.makeRoom, Rb.makeRoomGen, if_pos hc', hr]

theorem owDrop_nil (W len : Nat) :
    owDrop W len [] = ([], !decide (owFree W [] < len + MARGIN)) := rfl

theorem owDrop_cons_drop (W len : Nat) (c cs)
    (hc : owFree W (c :: cs) < len + MARGIN) :
    owDrop W len (c :: cs) = owDrop W len cs := by
  simp only [owDrop, if_pos hc]

theorem owDrop_cons_stop (W len : Nat) (c cs)
    (hc : ¬ owFree W (c :: cs) < len + MARGIN) :
    owDrop W len (c :: cs) = (c :: cs, true) := by
  simp only [owDrop, if_neg hc]

/-- the reclaim loop does on the ring what `owDrop` does on the queue (and never runs out of
    fuel); the notification count is left alone -/
theorem makeRoom_sim {r : Rb} {q : List (List Nat)} {TR : Nat} (h : Inv r q TR) (how : r.ow = true)
    (len fuel : Nat) (hfuel : q.length < fuel) :
    ∃ TR', Inv (r.makeRoom len fuel).1 (owDrop r.W len q).1 TR' ∧
      (r.makeRoom len fuel).1.sem = r.sem ∧
      (r.makeRoom len fuel).1.W = r.W ∧ (r.makeRoom len fuel).1.ow = r.ow ∧
      (r.makeRoom len fuel).2 = (owDrop r.W len q).2 := by
  induction q generalizing r TR fuel with
  | nil =>
    cases fuel with
    | zero => simp at hfuel
    | succ fuel =>
      have hf : r.spaceFree = owFree r.W [] := spaceFree_eq_ow h how
      rw [owDrop_nil]
      by_cases hc : r.spaceFree < len + MARGIN
      · rw [makeRoom_fail r len fuel hc (reclaim_nil h)]
        refine ⟨TR, h, rfl, rfl, rfl, ?_⟩
        simp [← hf, hc]
      · rw [makeRoom_stop r len fuel hc]
        refine ⟨TR, h, rfl, rfl, rfl, ?_⟩
        simp [← hf, hc]
  | cons c cs ih =>
    cases fuel with
    | zero => simp at hfuel
    | succ fuel =>
      have hf : r.spaceFree = owFree r.W (c :: cs) := spaceFree_eq_ow h how
      by_cases hc : r.spaceFree < len + MARGIN
      · rw [makeRoom_drop r _ len fuel hc (reclaim_eq_cons h), owDrop_cons_drop _ _ _ _ (by rw [← hf]; exact hc)]
        obtain ⟨_, hi, hsem, hW, how'⟩ := reclaim_cons h
        rw [reclaim_eq_cons h] at hi hsem hW how'
        have hlen : cs.length < fuel := by simp only [List.length_cons] at hfuel; omega
        obtain ⟨TR', k1, k2, k3, k4, k5⟩ := ih hi (by rw [how', how]) fuel hlen
        refine ⟨TR', ?_, by rw [k2, hsem], by rw [k3, hW], by rw [k4, how'], ?_⟩
        · rw [hW] at k1; exact k1
        · rw [hW] at k5; exact k5
      · rw [makeRoom_stop r len fuel hc, owDrop_cons_stop _ _ _ _ (by rw [← hf]; exact hc)]
        exact ⟨TR, h, rfl, rfl, rfl, rfl⟩

/-- when `owDrop` reports room, the free-space rule holds for what is left -/
theorem owDrop_ok {W len : Nat} {q : List (List Nat)}
    (h : (owDrop W len q).2 = true) :
    ¬ owFree W (owDrop W len q).1 < len + MARGIN := by
  induction q with
  | nil =>
    unfold owDrop at h ⊢
    simpa using h
  | cons c cs ih =>
    unfold owDrop at h ⊢
    by_cases hc : owFree W (c :: cs) < len + MARGIN
    · rw [if_pos hc] at h ⊢
      exact ih h
    · rw [if_neg hc]
      exact hc

/-- "`r'`, `o` is a correct outcome of `op`" for the overwriting ring -/
def OwStepOk (r : Rb) (q : List (List Nat)) (op : Op) (r' : Rb) (o : Out) : Prop :=
  ∃ q' TR', Inv r' q' TR' ∧ r'.ow = r.ow ∧ (absF r q).owStep op = (absF r' q', o)

theorem step_write_ow {r q TR} (h : Inv r q TR) (how : r.ow = true) (d : List Nat) :
    OwStepOk r q (.write d) (r.step (.write d)).1 (r.step (.write d)).2 := by
  obtain ⟨TR', hi, hsem, hW, how', hok⟩ := makeRoom_sim h how d.length r.W h.length_lt
  have hstep : r.step (.write d) = match r.makeRoom d.length r.W with
      | (r', false) => (r', .err .einval)
      | (r', true) => (writeTail r' d, .wrote d.length) := by
    simp only [Rb.step, write_ow r d how]
    rcases r.makeRoom d.length r.W with ⟨r', b⟩
    cases b <;> rfl
  rw [hstep]
  unfold OwStepOk
  simp only [Fifo.owStep, absF]
  revert hi hsem hW how' hok
  have hokd := owDrop_ok (W := r.W) (len := d.length) (q := q)
  revert hokd
  rcases r.makeRoom d.length r.W with ⟨r', b⟩
  rcases owDrop r.W d.length q with ⟨q', ok⟩
  intro hokd hi hsem hW how' hok
  simp only at hi hsem hW how' hok hokd
  subst hok
  cases b with
  | false =>
    refine ⟨q', TR', hi, how', ?_⟩
    simp only [hsem, hW]
  | true =>
    have hroom : Room r'.W (total q') (cw d.length) := by
      rw [hW]; exact room_of_free (sem := none) (hokd rfl)
    obtain ⟨hi2, hsem2, hW2, how2⟩ := writeTail_inv d hi hroom
    refine ⟨q' ++ [d], TR', hi2, by rw [how2, how'], ?_⟩
    simp only [Fifo.post, hsem2, hW2, hsem, hW]

theorem step_free_ow {r q TR} (h : Inv r q TR) (how : r.ow = true) :
    OwStepOk r q .free (r.step .free).1 (r.step .free).2 := by
  refine ⟨q, TR, h, rfl, ?_⟩
  simp only [Rb.step, Fifo.owStep, spaceFree_eq_ow h how]
  rfl

theorem step_sim_ow {r q TR} (h : Inv r q TR) (how : r.ow = true) (op : Op) :
    OwStepOk r q op (r.step op).1 (r.step op).2 := by
  cases op with
  | write d => exact step_write_ow h how d
  | read cap => exact step_read h cap
  | peek => exact step_peek h
  | reclaim => exact step_reclaim h
  | free => exact step_free_ow h how

theorem run_sim_ow' {r q TR} (h : Inv r q TR) (how : r.ow = true) (ops : List Op) :
    ∃ q' TR', Inv (r.run ops).1 q' TR' ∧ (r.run ops).1.ow = true ∧
      (absF r q).owRun ops = (absF (r.run ops).1 q', (r.run ops).2) := by
  induction ops generalizing r q TR with
  | nil => exact ⟨q, TR, h, how, rfl⟩
  | cons op ops ih =>
    obtain ⟨q1, TR1, hi, how', hstep⟩ := step_sim_ow h how op
    obtain ⟨q', TR', hi', how'', he⟩ := ih hi (by rw [how', how])
    refine ⟨q', TR', ?_, ?_, ?_⟩
    · simpa only [Rb.run] using hi'
    · simpa only [Rb.run] using how''
    · simp only [Rb.run, Fifo.owRun, hstep, he]

theorem run_sim_ow {r q TR} (h : Inv r q TR) (how : r.ow = true) (ops : List Op) :
    ∃ q' TR', Inv (r.run ops).1 q' TR' ∧ (absF r q).owRun ops = (absF (r.run ops).1 q', (r.run ops).2) := by
  obtain ⟨q', TR', h1, _, h2⟩ := run_sim_ow' h how ops
  exact ⟨q', TR', h1, h2⟩

/-! ### what `owDrop` keeps -/

/-- `owDrop` drops a prefix: the `k` oldest chunks, where every shorter drop left no room -/
theorem owDrop_spec (W len : Nat) (q : List (List Nat)) :
    ∃ k, k ≤ q.length ∧ (owDrop W len q).1 = q.drop k ∧
      (∀ j, j < k → owFree W (q.drop j) < len + MARGIN) ∧
      ((owDrop W len q).2 = false → k = q.length) := by
  induction q with
  | nil =>
    exact ⟨0, Nat.le_refl _, rfl, by intro j hj; omega, fun _ => rfl⟩
  | cons c cs ih =>
    unfold owDrop
    by_cases hc : owFree W (c :: cs) < len + MARGIN
    · rw [if_pos hc]
      obtain ⟨k, hk, h1, h3, h4⟩ := ih
      refine ⟨k + 1, by simp only [List.length_cons]; omega, by simpa using h1, ?_, ?_⟩
      · intro j hj
        cases j with
        | zero => simpa using hc
        | succ j => simpa using h3 j (by omega)
      · intro hf; simp only [List.length_cons]; rw [h4 hf]
    · rw [if_neg hc]
      refine ⟨0, Nat.zero_le _, rfl, ?_, ?_⟩
      · intro j hj; omega
      · intro hf; simp at hf

end QbVerif.RingLemmas
