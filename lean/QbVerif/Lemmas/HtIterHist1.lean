/-
Hashtable model, history level of C18 (complete / exactly once), part 1: how "what is ahead of an
iterator" (`remOf`) changes when the table changes under it.
* `MF t t' g q bad`: the shape of every table update except the insertion of a new node — nodes are
  updated in place by `g` (id and key kept, `removed` only ever set), some are unlinked (`q`), and a
  live node that is not `bad` (= the one being removed) stays live and linked;
* `MF.remOf`: under such an update, for an iterator whose parked node stays linked, what is ahead
  afterwards is exactly the image of what was ahead before — nothing is skipped, nothing re-enters;
* `mem_remOf`, `putNew_remOf`: `hashtable_put` of a new key appends at the tail of a bucket, so
  everything that was ahead of an iterator still is.
-/
import QbVerif.Lemmas.HtSimRun

namespace QbVerif.Hashtable
open QbVerif.Map
set_option linter.unusedSimpArgs false

structure MF (t t' : HT) (g : Node → Node) (q : Node → Bool) (bad : Node → Prop) : Prop where
  buckets : t'.buckets = t.buckets.map fun l => (l.map g).filter q
  gid : ∀ x, (g x).id = x.id
  gkey : ∀ x ∈ t.flat, (g x).key = x.key
  mono : ∀ x ∈ t.flat, (g x).removed = false → x.removed = false
  keep : ∀ x ∈ t.flat, x.removed = false → ¬ bad x → (g x).removed = false ∧ q (g x) = true

theorem MF.bucketOf {t t' : HT} {g q bad} (m : MF t t' g q bad) (b : Nat) :
    t'.bucketOf b = ((t.bucketOf b).map g).filter q := by
  unfold HT.bucketOf
  rw [m.buckets]
  exact getD_map_nil (fun l => (l.map g).filter q) rfl _ _

theorem MF.flat {t t' : HT} {g q bad} (m : MF t t' g q bad) : t'.flat = (t.flat.map g).filter q := by
  unfold HT.flat
  rw [m.buckets, buckets_mf]

theorem MF.refl (t : HT) : MF t t (fun x => x) (fun _ => true) (fun _ => False) := by
  refine ⟨?_, fun _ => rfl, fun _ _ => rfl, fun _ _ h => h, fun _ _ h _ => ⟨h, rfl⟩⟩
  rw [filter_true_buckets, map_id_buckets]

theorem after_mf {L : List Node} {g : Node → Node} {q : Node → Bool} {p : Nat} {np : Node}
    (hg : ∀ x, (g x).id = x.id) (hnd : (L.map (·.id)).Nodup) (hnp : np ∈ L) (hid : np.id = p)
    (hq : q (g np) = true) : after p ((L.map g).filter q) = ((after p L).map g).filter q := by
  obtain ⟨pre, post, rfl⟩ := List.append_of_mem hnp
  have hpre : ∀ x ∈ pre, x.id ≠ p := by
    intro x hx; rw [← hid]; exact no_dup_before hnd rfl x hx
  rw [after_split hid hpre]
  simp only [List.map_append, List.map_cons, List.filter_append, List.filter_cons, hq, ite_true]
  apply after_split (by rw [hg, hid])
  intro x hx
  obtain ⟨hx1, _⟩ := List.mem_filter.1 hx
  obtain ⟨y, hy, rfl⟩ := List.mem_map.1 hx1
  rw [hg]; exact hpre y hy

/-- what is ahead of an iterator after an in-place update: the image of what was ahead before -/
theorem MF.remOf_eq {t t' : HT} {g q bad} (m : MF t t' g q bad) (hnd : (t.flat.map (·.id)).Nodup) {it : Iter}
    (hp : ∀ p, it.node = some p → ∃ np ∈ t.bucketOf it.bucket, np.id = p ∧ q (g np) = true) :
    remOf t' it = ((remOf t it).map g).filter q := by
  have hl : t'.iterLists it = (t.iterLists it).map fun l => (l.map g).filter q := by
    unfold HT.iterLists
    rw [m.buckets]
    simp only [List.length_map]
    split
    · simp only [List.map_cons, List.map_drop]
      congr 1
      cases hn : it.node with
      | none => exact getD_map_nil (fun l => (l.map g).filter q) rfl _ _
      | some p =>
        simp only
        rw [getD_map_nil (fun l => (l.map g).filter q) rfl]
        obtain ⟨np, hnp, hid, hq⟩ := hp p hn
        exact after_mf m.gid (nodup_bucket (·.id) t.buckets it.bucket hnd) hnp hid hq
    · rfl
  unfold remOf
  rw [hl, buckets_mf]

/-- the first list `hashtable_iter_next` walks -/
def headList (t : HT) (it : Iter) : List Node :=
  match it.node with
  | none => t.bucketOf it.bucket
  | some p => after p (t.bucketOf it.bucket)

theorem mem_remOf {t : HT} {it : Iter} {x : Node} :
    x ∈ remOf t it ↔
      it.bucket < t.buckets.length ∧ (x ∈ headList t it ∨ ∃ b, it.bucket < b ∧ x ∈ t.bucketOf b) := by
  unfold remOf HT.iterLists
  by_cases hlt : it.bucket < t.buckets.length
  · rw [if_pos hlt]
    simp only [List.flatten_cons, List.mem_append, hlt, true_and]
    apply or_congr
    · unfold headList HT.bucketOf; cases it.node <;> exact Iff.rfl
    · constructor
      · intro hx
        obtain ⟨b, hb⟩ := exists_getD_of_mem_flatten hx
        rw [getD_drop] at hb
        exact ⟨it.bucket + 1 + b, by omega, hb⟩
      · rintro ⟨b, hb, hx⟩
        apply mem_flatten_of_getD (b := b - (it.bucket + 1))
        rw [getD_drop]
        have : it.bucket + 1 + (b - (it.bucket + 1)) = b := by omega
        rw [this]; exact hx
  · rw [if_neg hlt]; simp [hlt]

theorem after_append {p : Nat} {x : Node} (M : List Node) :
    ∀ {L : List Node}, x ∈ after p L → x ∈ after p (L ++ M)
  | [], h => by simp [after] at h
  | a :: L, h => by
    by_cases e : a.id = p
    · have h1 : after p (a :: L) = L := by simp [after, List.dropWhile_cons, e]
      have h2 : after p (a :: L ++ M) = L ++ M := by simp [after, List.dropWhile_cons, e]
      rw [h1] at h; rw [h2]; simp [h]
    · have h1 : after p (a :: L) = after p L := by simp [after, List.dropWhile_cons, e]
      have h2 : after p (a :: L ++ M) = after p (L ++ M) := by simp [after, List.dropWhile_cons, e]
      rw [h1] at h; rw [h2]; exact after_append M h

theorem putNew_bucketOf (t : HT) (key : Key) (v : Val) (b : Nat) :
    ∃ M, (putNew t key v).bucketOf b = t.bucketOf b ++ M := by
  show ∃ M, (t.buckets.modify (hash key t.order) (· ++ [_])).getD b [] = t.buckets.getD b [] ++ M
  simp only [List.getD_eq_getElem?_getD, List.getElem?_modify]
  cases t.buckets[b]? with
  | none => exact ⟨[], by simp⟩
  | some l =>
    by_cases e : hash key t.order = b
    · exact ⟨[⟨t.nextId, key, v, 1, false, []⟩], by simp [e]⟩
    · exact ⟨[], by simp [e]⟩

/-- `hashtable_put` of a new key links the node at the tail of its bucket: whatever was ahead of an
    iterator still is -/
theorem putNew_remOf {t : HT} (key : Key) (v : Val) {it : Iter} {x : Node} (hx : x ∈ remOf t it) :
    x ∈ remOf (putNew t key v) it := by
  rw [mem_remOf] at hx ⊢
  have hlen : (putNew t key v).buckets.length = t.buckets.length := by
    show (t.buckets.modify _ _).length = _
    rw [List.length_modify]
  have hmem : ∀ b y, y ∈ t.bucketOf b → y ∈ (putNew t key v).bucketOf b := by
    intro b y hy
    obtain ⟨M, hM⟩ := putNew_bucketOf t key v b
    rw [hM]; simp [hy]
  obtain ⟨h1, h2⟩ := hx
  refine ⟨by rw [hlen]; exact h1, ?_⟩
  rcases h2 with h2 | ⟨b, hb, h2⟩
  · left
    unfold headList at h2 ⊢
    cases hn : it.node with
    | none => rw [hn] at h2; exact hmem _ _ h2
    | some p =>
      rw [hn] at h2
      obtain ⟨M, hM⟩ := putNew_bucketOf t key v it.bucket
      simp only [hM]
      exact after_append M h2
  · exact Or.inr ⟨b, hb, hmem _ _ h2⟩

end QbVerif.Hashtable
