import QbVerif.Lemmas.IpcsLifeInvConn

/-! C04 — connection-level lemmas for the external operations (handle_new_connection, dispatch). -/
namespace QbVerif.IpcsLife

def Brs (k : Conn) : Bool × Bool × Bool := (k.brCreated, k.brDispatch, k.brWalk)

theorem FrameC.brs {k k' : Conn} (h : FrameC k k') : Brs k' = Brs k := by
  simp [Brs, h.b1, h.b2, h.b3]

/-- qb_ipcs_connection_alloc + connection_accept invoked -/
theorem P.alloc (ret : Int) (k' : Conn) (hk : k' = monitor .accept ret { rc := 1, init := true }) :
    P k' ∧ k'.phase = .accepting ∧ Brs k' = (false, false, false) ∧ k'.cl = .todo := by
  subst hk
  refine ⟨⟨?_, ?_, ?_, ?_, ?_⟩, ?_, ?_, ?_⟩ <;> simp [monitor, phaseStep, PhaseOk, Brs, b2n]

/-- accept refused -/
theorem P.reject {k : Conn} (hp : P k) (hph : k.phase = .accepting)
    (k' : Conn) (hk : k' = { k with phase := .rejected, rc := k.rc - 1, init := false }) :
    P k' ∧ k.rc ≠ 0 ∧ k.freed = false ∧ k'.phase = .rejected ∧ k'.cl = k.cl ∧ Brs k' = Brs k := by
  subst hk; simp only [Brs]; conn_crush k hp

/-- ACTIVE, temporary reference, connection_created invoked -/
theorem P.activate {k : Conn} (hp : P k) (hph : k.phase = .accepting) (hb : k.brCreated = false)
    (k' : Conn) (hk : k' = { monitor .created 0 { k with st := .active, rc := k.rc + 1, brCreated := true } with
      created := true }) :
    P k' ∧ k.freed = false ∧ k'.phase = .live ∧ k'.cl = k.cl ∧ k'.brCreated = true ∧
    k'.brDispatch = k.brDispatch ∧ k'.brWalk = k.brWalk := by
  subst hk; conn_crush k hp

/-- after created: ESTABLISHED unless disconnected meanwhile; the temporary reference goes -/
theorem P.establish {k : Conn} (hp : P k) (hb : k.brCreated = true)
    (k' : Conn) (hk : k' = { (if k.st = .active then { k with st := .established } else k) with
      rc := (if k.st = .active then { k with st := .established } else k).rc - 1, brCreated := false }) :
    P k' ∧ k.rc ≠ 0 ∧ k.freed = false ∧ k'.phase = k.phase ∧ k.phase ≠ .none ∧ k.phase ≠ .dead ∧
    k'.cl = k.cl ∧ k'.brCreated = false ∧ k'.brDispatch = k.brDispatch ∧ k'.brWalk = k.brWalk := by
  subst hk
  by_cases hst : k.st = .active
  · simp only [hst, ↓reduceIte]; conn_crush k hp
  · simp only [hst, ↓reduceIte]; conn_crush k hp

/-- msg_process invoked on an ESTABLISHED connection -/
theorem P.msg {k : Conn} (hp : P k) (hst : k.st = .established)
    (k' : Conn) (hk : k' = monitor .msg 0 k) :
    P k' ∧ FrameC k k' ∧ k'.phase = k.phase ∧ k'.cl = k.cl := by
  subst hk; conn_crush k hp

theorem P.established {k : Conn} (hp : P k) (hst : k.st = .established) :
    k.freed = false ∧ k.phase ≠ .none ∧ k.phase ≠ .dead := by
  conn_crush k hp

theorem P.notNone {k : Conn} (hp : P k) (h : k.cl = .retry ∨ k.appref ≠ 0) :
    k.phase ≠ .none ∧ k.phase ≠ .dead := by
  conn_crush k hp

end QbVerif.IpcsLife
