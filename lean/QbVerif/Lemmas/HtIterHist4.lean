/-
Hashtable model, history level of C18, part 4: the relation `R t m` between the table and the
monitor `IterMon` after the same history — invariant, simulation of the monitor's dictionary, every
watch coupled (`WOK`), and neither `incomplete` nor `twice` raised — is preserved by every
operation except iter_next (part 5).
-/
import QbVerif.Lemmas.HtIterHist3

namespace QbVerif.Hashtable
open QbVerif.Map QbVerif.Map.IterMon
set_option linter.unusedSimpArgs false

structure R (t : HT) (m : Mon) : Prop where
  inv : Inv t
  sim : Sim t m.dict
  inc : m.flags.incomplete = false
  tw : m.flags.twice = false
  wok : ∀ w ∈ m.watches, WOK t w

/-- the monitor's bookkeeping common to all operations -/
def m1 (m : Mon) (op : Op) (res : Res) : Mon :=
  { m with dict := (m.dict.step op).1,
           flags := if res = .uaf ∨ res = .diverge then { m.flags with memErr := true } else m.flags }

theorem m1_flags (m : Mon) (op : Op) (res : Res) :
    (m1 m op res).flags.incomplete = m.flags.incomplete ∧ (m1 m op res).flags.twice = m.flags.twice := by
  unfold m1
  simp only
  split <;> exact ⟨rfl, rfl⟩

/-- an operation that moves no watched iterator, inserts no key and removes none -/
theorem R.keep {t t' : HT} {m : Mon} (r : R t m) (op : Op) (res : Res) (hI : Inv t')
    (hS : Sim t' (m.dict.step op).1) {g q} (mf : MF t t' g q (fun _ => False))
    (hit : ∀ w ∈ m.watches, t'.iters.lookup (w.id + 1) = t.iters.lookup (w.id + 1)) : R t' (m1 m op res) :=
  ⟨hI, hS, (m1_flags m op res).1.trans r.inc, (m1_flags m op res).2.trans r.tw, fun w hw =>
    WOK.mf r.inv hI mf (r.wok w hw) rfl (hit w hw) (fun k hk => ⟨hk, fun _ _ _ _ f => f⟩) rfl (fun h => h)⟩

theorem R.put {t : HT} {m : Mon} (r : R t m) (k : Key) (v : Val) (l : Nat) :
    R (t.step (.put k v l)).1 (IterMon.step m (.put k v l) (t.step (.put k v l)).2.res) := by
  have hI := (step_inv r.inv (.put k v l)).1
  have hS := (sim_step r.inv r.sim (.put k v l)).sim
  have hstep := step_eq r.inv (.put k v l)
  simp only [put_eq] at hstep
  have hfind := r.sim.find r.inv k
  cases hl : t.lookup k with
  | none =>
    rw [hl] at hstep hfind
    simp only [Option.map_none] at hfind
    simp only at hstep
    rw [hstep] at hI hS ⊢
    refine ⟨hI, hS, ?_, ?_, ?_⟩
    · exact (m1_flags m (.put k v l) .ok).1.trans r.inc
    · exact (m1_flags m (.put k v l) .ok).2.trans r.tw
    · intro w' hw'
      simp only [IterMon.step, hfind, Option.isNone_none, ite_true] at hw'
      obtain ⟨w, hw, rfl⟩ := List.mem_map.1 hw'
      exact WOK.putNew k v (r.wok w hw) rfl rfl rfl rfl
  | some n =>
    rw [hl] at hstep hfind
    simp only [Option.map_some] at hfind
    simp only at hstep
    rw [hstep] at hI hS ⊢
    refine ⟨hI, hS, ?_, ?_, ?_⟩
    · exact (m1_flags m (.put k v l) .ok).1.trans r.inc
    · exact (m1_flags m (.put k v l) .ok).2.trans r.tw
    · intro w hw
      simp only [IterMon.step, hfind, Option.isNone_some, Bool.false_eq_true, ite_false] at hw
      exact WOK.mf r.inv hI (putOld_mf r.inv v hl) (r.wok w hw) rfl rfl
        (fun k hk => ⟨hk, fun _ _ _ _ f => f⟩) rfl (fun h => h)

theorem R.rm {t : HT} {m : Mon} (r : R t m) (k : Key) :
    R (t.step (.rm k)).1 (IterMon.step m (.rm k) (t.step (.rm k)).2.res) := by
  have hI := (step_inv r.inv (.rm k)).1
  have hS := (sim_step r.inv r.sim (.rm k)).sim
  have hstep := step_eq r.inv (.rm k)
  simp only [rm_eq r.inv] at hstep
  have hstab : ∀ w' ∈ (IterMon.step m (.rm k) (t.step (.rm k)).2.res).watches,
      ∃ w ∈ m.watches, w'.id = w.id ∧ w'.returned = w.returned ∧ w'.inserted = w.inserted ∧
        ∀ k' ∈ w'.stable, k' ∈ w.stable ∧ k' ≠ k := by
    intro w' hw'
    simp only [IterMon.step] at hw'
    obtain ⟨w, hw, rfl⟩ := List.mem_map.1 hw'
    refine ⟨w, hw, rfl, rfl, rfl, ?_⟩
    intro k' hk'
    have := List.mem_filter.1 hk'
    exact ⟨this.1, by simpa using this.2⟩
  have hf1 : (IterMon.step m (.rm k) (t.step (.rm k)).2.res).flags.incomplete = false :=
    (m1_flags m (.rm k) _).1.trans r.inc
  have hf2 : (IterMon.step m (.rm k) (t.step (.rm k)).2.res).flags.twice = false :=
    (m1_flags m (.rm k) _).2.trans r.tw
  refine ⟨hI, hS, hf1, hf2, ?_⟩
  intro w' hw'
  obtain ⟨w, hw, e1, e2, e3, e4⟩ := hstab w' hw'
  cases hl : t.lookup k with
  | none =>
    rw [hl] at hstep
    simp only at hstep
    have ht : (t.step (.rm k)).1 = t := by rw [hstep]
    rw [ht] at hI ⊢
    exact WOK.mf r.inv hI (MF.refl t) (r.wok w hw) e1 rfl
      (fun k' hk' => ⟨(e4 k' hk').1, fun _ _ _ _ f => f⟩) e2 (fun h => by rw [← e3]; exact h)
  | some n =>
    rw [hl] at hstep
    simp only at hstep
    have ht : (t.step (.rm k)).1 = (rmResult t n).1 := by rw [hstep]
    rw [ht] at hI ⊢
    obtain ⟨hn, _, hnk⟩ := r.inv.lookup_some hl
    obtain ⟨g, q, mf⟩ := rmResult_mf (t := t) n
    refine WOK.mf r.inv hI mf (r.wok w hw) e1 (by rw [(rmResult_misc t n).2]) ?_ e2 (fun h => by rw [← e3]; exact h)
    intro k' hk'
    refine ⟨(e4 k' hk').1, ?_⟩
    intro x hx hxk _ e
    have := r.inv.inj hx hn e
    subst this
    exact (e4 k' hk').2 (hxk.symm.trans hnk)

theorem R.simple {t : HT} {m : Mon} (r : R t m) (op : Op)
    (hop : (∃ k, op = .get k) ∨ op = .count ∨ (∃ s p, op = .foreach s p) ∨ (∃ k e i, op = .nadd k e i) ∨
      (∃ k e i, op = .ndel k e i)) :
    R (t.step op).1 (IterMon.step m op (t.step op).2.res) := by
  have hI := (step_inv r.inv op).1
  have hS := (sim_step r.inv r.sim op).sim
  have hstep := step_eq r.inv op
  rcases hop with ⟨k, rfl⟩ | rfl | ⟨s, p, rfl⟩ | ⟨k, e, i, rfl⟩ | ⟨k, e, i, rfl⟩
  · simp only at hstep
    have ht : (t.step (.get k)).1 = t := by rw [hstep]
    rw [ht] at hI hS ⊢
    exact r.keep (.get k) _ hI hS (MF.refl t) (fun _ _ => rfl)
  · simp only at hstep
    have ht : (t.step .count).1 = t := by rw [hstep]
    rw [ht] at hI hS ⊢
    exact r.keep .count _ hI hS (MF.refl t) (fun _ _ => rfl)
  · simp only [foreach_eq r.inv.wf] at hstep
    have ht : (t.step (.foreach s p)).1 = t := by rw [hstep]
    rw [ht] at hI hS ⊢
    exact r.keep (.foreach s p) _ hI hS (MF.refl t) (fun _ _ => rfl)
  · simp only at hstep
    have ht : (t.step (.nadd k e i)).1 = (t.notifyAdd k e i).1 := by rw [hstep]
    rw [ht] at hI hS ⊢
    obtain ⟨g, mf, hit⟩ := notifyAdd_mf t k e i
    exact r.keep (.nadd k e i) _ hI hS mf (fun _ _ => by rw [hit])
  · simp only at hstep
    have ht : (t.step (.ndel k e i)).1 = (t.notifyDel k e i).1 := by rw [hstep]
    rw [ht] at hI hS ⊢
    obtain ⟨g, mf, hit⟩ := notifyDel_mf t k e i
    exact r.keep (.ndel k e i) _ hI hS mf (fun _ _ => by rw [hit])

theorem R.destroy {t : HT} {m : Mon} (r : R t m) :
    R (t.step .destroy).1 (IterMon.step m .destroy (t.step .destroy).2.res) := by
  have hI := (step_inv r.inv .destroy).1
  have hS := (sim_step r.inv r.sim .destroy).sim
  by_cases hi : t.iters = []
  · have hw : m.watches = [] := by
      cases hm : m.watches with
      | nil => rfl
      | cons w ws =>
        obtain ⟨it, hl, _⟩ := r.wok w (by rw [hm]; simp)
        rw [hi] at hl; simp [List.lookup] at hl
    refine ⟨hI, hS, (m1_flags m .destroy _).1.trans r.inc, (m1_flags m .destroy _).2.trans r.tw, ?_⟩
    intro w hw'
    have : (IterMon.step m .destroy (t.step .destroy).2.res).watches = m.watches := rfl
    rw [this, hw] at hw'; cases hw'
  · have hstep := step_eq r.inv .destroy
    have : (!t.iters.isEmpty) = true := by
      cases hq : t.iters with
      | nil => exact absurd hq hi
      | cons a l => rfl
    simp only [this, ite_true] at hstep
    have ht : (t.step .destroy).1 = t := by rw [hstep]
    rw [ht] at hI hS ⊢
    exact r.keep .destroy _ hI hS (MF.refl t) (fun _ _ => rfl)

theorem lookup_cons_ne {its : List (Nat × Iter)} {k k' : Nat} {it : Iter} (h : k' ≠ k) :
    ((k, it) :: its).lookup k' = its.lookup k' := by
  have : (k' == k) = false := by simpa using h
  simp [List.lookup, this]

theorem R.iterNew {t : HT} {m : Mon} (r : R t m) (i : Nat) (pfx : Option Key) :
    R (t.step (.iterNew i pfx)).1 (IterMon.step m (.iterNew i pfx) (t.step (.iterNew i pfx)).2.res) := by
  have hI := (step_inv r.inv (.iterNew i pfx)).1
  have hS := (sim_step r.inv r.sim (.iterNew i pfx)).sim
  have hstep := step_eq r.inv (.iterNew i pfx)
  simp only at hstep
  cases hl : t.iters.lookup (i + 1) with
  | some it =>
    rw [hl] at hstep
    simp only [Option.isSome_some, ite_true] at hstep
    rw [hstep] at hI hS ⊢
    have : IterMon.step m (.iterNew i pfx) .badIter = m1 m (.iterNew i pfx) .badIter := by
      simp [IterMon.step, m1]
    rw [this]
    exact r.keep _ _ hI hS (MF.refl t) (fun _ _ => rfl)
  | none =>
    rw [hl] at hstep
    simp only [Option.isSome_none, Bool.false_eq_true, ite_false] at hstep
    rw [hstep] at hI hS ⊢
    have hne : ∀ w ∈ m.watches, w.id + 1 ≠ i + 1 := by
      intro w hw e
      obtain ⟨it, hl', _⟩ := r.wok w hw
      rw [e, hl] at hl'; cases hl'
    have hold : ∀ w ∈ m.watches, WOK (t.iterCreate (i + 1)) w := fun w hw =>
      WOK.mf r.inv hI (MF.of_buckets rfl) (r.wok w hw) rfl (lookup_cons_ne (hne w hw))
        (fun k hk => ⟨hk, fun _ _ _ _ f => f⟩) rfl (fun h => h)
    by_cases hc : (m.watches.find? (·.id == i)).isNone = true
    · have : IterMon.step m (.iterNew i pfx) .ok =
          { m1 m (.iterNew i pfx) .ok with watches :=
            ⟨i, if m.dict.fl.prefixIter then pfx else none,
              m.dict.keys.filter (·.hasPrefix (if m.dict.fl.prefixIter then pfx else none)), [], false, false⟩ ::
              m.watches } := by
        simp [IterMon.step, m1, hc]
      rw [this]
      refine ⟨hI, hS, (m1_flags m (.iterNew i pfx) .ok).1.trans r.inc, (m1_flags m (.iterNew i pfx) .ok).2.trans r.tw, ?_⟩
      intro w hw
      rcases List.mem_cons.1 hw with rfl | hw
      · refine WOK.new (i + 1) rfl ?_ rfl
        intro key hk
        have hk1 : key ∈ m.dict.keys := (List.mem_filter.1 hk).1
        obtain ⟨e, he, hek⟩ := List.mem_map.1 hk1
        have := (r.sim.entries.mem_iff).1 he
        obtain ⟨n, hn, rfl⟩ := List.mem_map.1 this
        obtain ⟨hnf, hnr⟩ := List.mem_filter.1 hn
        exact ⟨n, hnf, hek, by simpa using hnr⟩
      · exact hold w hw
    · have : IterMon.step m (.iterNew i pfx) .ok = m1 m (.iterNew i pfx) .ok := by
        simp [IterMon.step, m1, hc]
      rw [this]
      exact ⟨hI, hS, (m1_flags m (.iterNew i pfx) .ok).1.trans r.inc, (m1_flags m (.iterNew i pfx) .ok).2.trans r.tw, hold⟩

theorem R.iterFree {t : HT} {m : Mon} (r : R t m) (i : Nat) :
    R (t.step (.iterFree i)).1 (IterMon.step m (.iterFree i) (t.step (.iterFree i)).2.res) := by
  have hI := (step_inv r.inv (.iterFree i)).1
  have hS := (sim_step r.inv r.sim (.iterFree i)).sim
  have hstep := step_eq r.inv (.iterFree i)
  simp only at hstep
  cases hl : t.iters.lookup (i + 1) with
  | none =>
    rw [iterFree_none hl] at hstep
    simp only at hstep
    rw [hstep] at hI hS ⊢
    have : IterMon.step m (.iterFree i) .badIter = m1 m (.iterFree i) .badIter := by
      simp [IterMon.step, m1]
    rw [this]
    exact r.keep _ _ hI hS (MF.refl t) (fun _ _ => rfl)
  | some it =>
    obtain ⟨dec, hd, hdm⟩ := r.inv.parkedNode hl
    rw [iterFree_eq r.inv hl hd hdm] at hstep
    simp only [freeResult] at hstep
    rw [hstep] at hI hS ⊢
    have : IterMon.step m (.iterFree i) .ok =
        { m1 m (.iterFree i) .ok with watches := m.watches.filter fun w => !(w.id == i) } := by
      simp [IterMon.step, m1]
    rw [this]
    obtain ⟨g, q, mf⟩ := moveState_mf r.inv none dec (t.iters.filter fun p => !(p.1 == i + 1)) (by
      intro np e
      exact ⟨mem_flat_of_bucket (hdm np e), parked_pos_of_mem (mem_of_lookup hl) (by rw [hd, e]; rfl)⟩)
    refine ⟨hI, hS, (m1_flags m (.iterFree i) .ok).1.trans r.inc, (m1_flags m (.iterFree i) .ok).2.trans r.tw, ?_⟩
    intro w hw
    obtain ⟨hw1, hw2⟩ := List.mem_filter.1 hw
    have hne : w.id + 1 ≠ i + 1 := by
      intro e
      have : w.id = i := by omega
      simp [this] at hw2
    refine WOK.mf r.inv hI mf (r.wok w hw1) rfl ?_ (fun k hk => ⟨hk, fun _ _ _ _ f => f⟩) rfl (fun h => h)
    rw [(moveState_misc _ _ _ _).2]
    exact lookup_filter_ne _ _ _ hne

end QbVerif.Hashtable
