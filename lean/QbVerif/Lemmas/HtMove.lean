/-
Hashtable model: `Inv.move` — the common shape of `hashtable_iter_next` / `hashtable_iter_free`:
optionally take a reference on a node (`inc`), optionally drop one (`dec`, which destroys the node
when it was the last), and replace the iterator table by one whose parked counts changed
accordingly.  The invariant is preserved.
-/
import QbVerif.Lemmas.HtInv

namespace QbVerif.Hashtable
open QbVerif.Map
set_option linter.unusedSimpArgs false

/-- the table after the reference moves of an iterator operation, and the deferred notifications -/
def moveState (t : HT) (inc dec : Option Node) (its' : List (Nat × Iter)) : HT × List Event :=
  let t1 := match inc with | some n => t.mapNode n.id incRc | none => t
  let r := match dec with | some np => release t1 np | none => (t1, [])
  ({ r.1 with iters := its' }, r.2)

def incG (inc : Option Node) (x : Node) : Node :=
  match inc with | some n => upd n.id incRc x | none => x

theorem ind_some (i id : Nat) : ind (some i) id = if i = id then 1 else 0 := by
  unfold ind; by_cases h : i = id <;> simp [h]

theorem ind_ne {i id : Nat} (h : i ≠ id) : ind (some i) id = 0 := by rw [ind_some, if_neg h]

theorem upd_inc_fields (i : Nat) (x : Node) :
    (upd i incRc x).id = x.id ∧ (upd i incRc x).key = x.key ∧ (upd i incRc x).removed = x.removed ∧
    (upd i incRc x).refcount = x.refcount + ind (some i) x.id := by
  unfold upd
  rw [ind_some]
  by_cases h : x.id = i
  · simp [h, incRc]
  · have : ¬ i = x.id := fun e => h e.symm
    simp [h, this]

theorem upd_dec_fields (i : Nat) (x : Node) :
    (upd i decRc x).id = x.id ∧ (upd i decRc x).key = x.key ∧ (upd i decRc x).removed = x.removed ∧
    (upd i decRc x).refcount = x.refcount - ind (some i) x.id := by
  unfold upd
  rw [ind_some]
  by_cases h : x.id = i
  · simp [h, decRc]
  · have : ¬ i = x.id := fun e => h e.symm
    simp [h, this]

theorem incG_fields (inc : Option Node) (x : Node) :
    (incG inc x).id = x.id ∧ (incG inc x).key = x.key ∧ (incG inc x).removed = x.removed ∧
    (incG inc x).refcount = x.refcount + ind (inc.map (·.id)) x.id := by
  cases inc with
  | none => simp [incG, ind]
  | some n => exact upd_inc_fields n.id x

theorem base_congr {x y : Node} (h : x.removed = y.removed) : base x = base y := by
  unfold base; rw [h]

theorem map_id_buckets (bs : List (List Node)) : bs.map (·.map fun x => x) = bs := by
  induction bs with
  | nil => rfl
  | cons l bs ih => simp [ih]

theorem filter_true_buckets (bs : List (List Node)) (g : Node → Node) :
    (bs.map fun l => (l.map g).filter fun _ => true) = bs.map (·.map g) := by
  apply List.map_congr_left; intro l _; simp

theorem Inv.move {t : HT} (h : Inv t) (inc dec : Option Node) (its' : List (Nat × Iter))
    (hinc : ∀ n, inc = some n → n ∈ t.flat ∧ n.removed = false)
    (hdec : ∀ np, dec = some np → np ∈ t.flat ∧ ∀ n, inc = some n → n.id ≠ np.id)
    (hpk : ∀ id, parked its' id + ind (dec.map (·.id)) id = parked t.iters id + ind (inc.map (·.id)) id)
    (hit : ∀ p ∈ its', ∀ id, p.2.node = some id → ∃ x ∈ t.bucketOf p.2.bucket, x.id = id)
    (hkeys : (its'.map (·.1)).Nodup) (h0 : ∀ p ∈ its', p.1 ≠ 0) :
    Inv (moveState t inc dec its').1 := by
  -- the table after the optional `refcount++`
  have ht1 : ∀ t1, t1 = (match inc with | some n => t.mapNode n.id incRc | none => t) →
      t1.buckets = t.buckets.map (·.map (incG inc)) ∧ t1.fix14 = t.fix14 ∧ t1.fix15 = t.fix15 ∧
      t1.order = t.order ∧ t1.count = t.count ∧ t1.crashed = t.crashed ∧ t1.nextId = t.nextId := by
    intro t1 e
    subst e
    cases inc with
    | none => exact ⟨(map_id_buckets _).symm, rfl, rfl, rfl, rfl, rfl, rfl⟩
    | some n => exact ⟨rfl, rfl, rfl, rfl, rfl, rfl, rfl⟩
  have hlive : ∀ (g : Node → Node), (∀ x, (g x).removed = x.removed) →
      ((t.flat.map g).filter fun n => !n.removed).length = (live t).length := by
    intro g hg
    unfold live
    rw [List.filter_map, List.length_map]
    congr 2
    funext x
    simp [Function.comp, hg]
  have hft : ∀ l : List Node, l.filter (fun _ => true) = l := fun l =>
    List.filter_eq_self.2 (by intro a _; rfl)
  cases dec with
  | none =>
    obtain ⟨hb, e1, e2, e3, e4, e5, e6⟩ := ht1 _ rfl
    have hpk' : ∀ id, parked its' id = parked t.iters id + ind (inc.map (·.id)) id := by
      intro id; have := hpk id; simp [ind] at this; simpa [ind] using this
    refine h.of_map_filter (incG inc) (fun _ => true) ?_ (e1.trans h.fix14) (e2.trans h.fix15) e3 ?_ ?_ ?_ ?_ ?_
      hkeys h0 ?_ (e5.trans h.notCrashed) (Nat.le_of_eq e6.symm)
    · show (match inc with | some n => t.mapNode n.id incRc | none => t).buckets = _
      rw [hb, filter_true_buckets]
    · intro x _; exact ⟨(incG_fields inc x).1, (incG_fields inc x).2.1⟩
    · intro x _ hr; rw [(incG_fields inc x).2.2.1] at hr; exact hr
    · intro x hx _
      show _ = _ + parked its' x.id
      rw [(incG_fields inc x).2.2.2, base_congr (incG_fields inc x).2.2.1, hpk', h.rc x hx]
      omega
    · intro x hx _ hr
      show 0 < parked its' x.id
      rw [(incG_fields inc x).2.2.1] at hr
      rw [hpk']; have := h.zombie x hx hr; omega
    · intro p hp id hid
      obtain ⟨x, hx, hxid⟩ := hit p hp id hid
      exact ⟨x, hx, hxid, rfl⟩
    · show (match inc with | some n => t.mapNode n.id incRc | none => t).count = _
      rw [e4, h.count, hft]
      exact (hlive (incG inc) fun x => (incG_fields inc x).2.2.1).symm
  | some np =>
    obtain ⟨hnp, hne⟩ := hdec np rfl
    obtain ⟨hb, e1, e2, e3, e4, e5, e6⟩ := ht1 _ rfl
    have hinp : incG inc np = np := by
      cases inc with
      | none => rfl
      | some n =>
        have : ¬ np.id = n.id := fun e => hne n rfl e.symm
        simp [incG, upd, this]
    have hindnp : ind (inc.map (·.id)) np.id = 0 := by
      cases inc with
      | none => simp [ind]
      | some n =>
        have : ¬ n.id = np.id := hne n rfl
        simp [ind, this]
    have hpknp : parked its' np.id + 1 = parked t.iters np.id := by
      have h1 := hpk np.id
      rw [hindnp] at h1
      have h2 : ind (Option.map (·.id) (some np)) np.id = 1 := by simp [ind]
      omega
    have hinj : ∀ x ∈ t.flat, x.id = np.id → x = np := fun x hx e =>
      inj_of_nodup_map (·.id) h.idsNodup hx hnp e
    by_cases hkeep : np.refcount - 1 > 0
    · -- the node stays: `refcount--`
      have hst : (moveState t inc (some np) its').1 =
          { (match inc with | some n => t.mapNode n.id incRc | none => t).mapNode np.id decRc with iters := its' } := by
        simp only [moveState, release, if_pos hkeep]
      rw [hst]
      refine h.of_map_filter (fun x => upd np.id decRc (incG inc x)) (fun _ => true) ?_ (e1.trans h.fix14)
        (e2.trans h.fix15) e3 ?_ ?_ ?_ ?_ ?_ hkeys h0 ?_ (e5.trans h.notCrashed) (Nat.le_of_eq e6.symm)
      · show ((match inc with | some n => t.mapNode n.id incRc | none => t).mapNode np.id decRc).buckets = _
        rw [mapNode_buckets, hb, filter_true_buckets, List.map_map]
        apply List.map_congr_left; intro l _; simp [List.map_map, Function.comp_def]
      · intro x _
        exact ⟨(upd_dec_fields _ _).1.trans (incG_fields inc x).1, (upd_dec_fields _ _).2.1.trans (incG_fields inc x).2.1⟩
      · intro x _ hr
        rw [(upd_dec_fields _ _).2.2.1, (incG_fields inc x).2.2.1] at hr; exact hr
      · intro x hx _
        show _ = _ + parked its' x.id
        have hr : (upd np.id decRc (incG inc x)).removed = x.removed :=
          (upd_dec_fields _ _).2.2.1.trans (incG_fields inc x).2.2.1
        rw [(upd_dec_fields _ _).2.2.2, (incG_fields inc x).2.2.2, base_congr hr, (incG_fields inc x).1, h.rc x hx]
        have := hpk x.id
        simp only [Option.map_some] at this
        have hpos := h.rcPos x hx
        have hrcx := h.rc x hx
        by_cases hx' : x.id = np.id
        · rw [hx'] at this ⊢; rw [hindnp] at this ⊢
          have : ind (some np.id) np.id = 1 := by simp [ind]
          omega
        · have : ind (some np.id) x.id = 0 := by
            exact ind_ne fun e => hx' e.symm
          omega
      · intro x hx _ hr
        show 0 < parked its' x.id
        rw [(upd_dec_fields _ _).2.2.1, (incG_fields inc x).2.2.1] at hr
        have hz := h.zombie x hx hr
        have := hpk x.id
        simp only [Option.map_some] at this
        by_cases hx' : x.id = np.id
        · have hxe := hinj x hx hx'
          subst hxe
          have hrc := h.rc x hx
          unfold base at hrc
          simp [hr] at hrc
          omega
        · have : ind (some np.id) x.id = 0 := by
            exact ind_ne fun e => hx' e.symm
          omega
      · intro p hp id hid
        obtain ⟨x, hx, hxid⟩ := hit p hp id hid
        exact ⟨x, hx, hxid, rfl⟩
      · show ((match inc with | some n => t.mapNode n.id incRc | none => t).mapNode np.id decRc).count = _
        show (match inc with | some n => t.mapNode n.id incRc | none => t).count = _
        rw [e4, h.count, hft]
        exact (hlive _ fun x => (upd_dec_fields _ _).2.2.1.trans (incG_fields inc x).2.2.1).symm
    · -- last reference: the node is destroyed (it had been removed; no iterator is left on it)
      have hrcnp := h.rc np hnp
      have hposnp := h.rcPos np hnp
      have hrem : np.removed = true := by
        cases hr : np.removed with
        | true => rfl
        | false => unfold base at hrcnp; simp [hr] at hrcnp; omega
      have hpk0 : parked its' np.id = 0 := by
        unfold base at hrcnp; simp [hrem] at hrcnp; omega
      have hms : (moveState t inc (some np) its').1 =
          { ((match inc with | some n => t.mapNode n.id incRc | none => t).nodeDestroy
              { np with refcount := np.refcount - 1 }).1 with iters := its' } := by
        simp only [moveState, release, if_neg hkeep]
      rw [hms]
      refine h.of_map_filter (incG inc) (fun x => !(x.id == np.id)) ?_ (e1.trans h.fix14) (e2.trans h.fix15) e3
        ?_ ?_ ?_ ?_ ?_ hkeys h0 ?_ (e5.trans h.notCrashed) (Nat.le_of_eq e6.symm)
      · show ((match inc with | some n => t.mapNode n.id incRc | none => t).buckets.map
          fun (l : List Node) => l.filter fun (x : Node) => !(x.id == np.id)) = _
        rw [hb, List.map_map]; rfl
      · intro x _; exact ⟨(incG_fields inc x).1, (incG_fields inc x).2.1⟩
      · intro x _ hr; rw [(incG_fields inc x).2.2.1] at hr; exact hr
      · intro x hx hq
        show _ = _ + parked its' x.id
        have hx' : x.id ≠ np.id := by simpa [(incG_fields inc x).1] using hq
        rw [(incG_fields inc x).2.2.2, base_congr (incG_fields inc x).2.2.1, h.rc x hx]
        have := hpk x.id
        simp only [Option.map_some] at this
        have : ind (some np.id) x.id = 0 := by
          exact ind_ne fun e => hx' e.symm
        omega
      · intro x hx hq hr
        show 0 < parked its' x.id
        have hx' : x.id ≠ np.id := by simpa [(incG_fields inc x).1] using hq
        rw [(incG_fields inc x).2.2.1] at hr
        have hz := h.zombie x hx hr
        have := hpk x.id
        simp only [Option.map_some] at this
        have : ind (some np.id) x.id = 0 := by
          exact ind_ne fun e => hx' e.symm
        omega
      · intro p hp id hid
        show ∃ x ∈ t.bucketOf p.2.bucket, x.id = id ∧ _
        have hp' : p ∈ its' := hp
        obtain ⟨x, hx, hxid⟩ := hit p hp' id hid
        refine ⟨x, hx, hxid, ?_⟩
        have : id ≠ np.id := fun e => parked_zero hpk0 p hp' (e ▸ hid)
        simp [(incG_fields inc x).1, hxid, this]
      · show (match inc with | some n => t.mapNode n.id incRc | none => t).count = _
        rw [e4, h.count]
        unfold live
        rw [List.filter_filter, List.filter_map, List.length_map]
        congr 1
        apply List.filter_congr
        intro x hx
        simp only [Function.comp, (incG_fields inc x).2.2.1, (incG_fields inc x).1]
        by_cases hx' : x.id = np.id
        · rw [hinj x hx hx', hrem]; simp
        · simp [hx']

end QbVerif.Hashtable
