/-
Ledger and output facts used by the C20 property theorems: the ledger over a concatenated history,
"gone stays gone", object numbers only grow, a destructor only ever runs on an object that exists.
-/
import QbVerif.Lemmas.HdbHist

namespace QbVerif.Hdb
open QbVerif.Gen

theorem ledgerFrom_cons (h K : Nat) (st : St) (L : Ledger) (op : Op) (ops : List Op) :
    ledgerFrom h K st L (op :: ops) = ledgerFrom h K (st.step op).1 (L.step h K op (st.step op).2) ops := rfl

theorem ledgerFrom_append (h K : Nat) (st : St) (L : Ledger) (a b : List Op) :
    ledgerFrom h K st L (a ++ b) = ledgerFrom h K (runFrom st a) (ledgerFrom h K st L a) b := by
  induction a generalizing st L with
  | nil => rfl
  | cons op a ih => rw [List.cons_append, ledgerFrom_cons, ledgerFrom_cons, ih, runFrom_cons]

/-- the ledger after one more call -/
theorem ledger_snoc (pre : List Op) (d : List Nat) (post : List Op) (h K : Nat) (op : Op) :
    ledger pre d (post ++ [op]) h K =
      (ledger pre d post h K).step h K op ((runFrom (after pre d) post).step op).2 := by
  unfold ledger
  rw [ledgerFrom_append]
  rfl

/-- once the count has reached zero the ledger's count and destroy number no longer move -/
theorem ledgerFrom_dead {h K : Nat} {st : St} {L : Ledger} (hd : ¬ 0 < L.count) (ops : List Op) :
    (ledgerFrom h K st L ops).count = L.count := by
  induction ops generalizing st L with
  | nil => rfl
  | cons op ops ih =>
    rw [ledgerFrom_cons]
    have h1 := (ledger_step_dead (h := h) (K := K) hd op (st.step op).2).1
    rw [ih (by rw [h1]; exact hd), h1]

theorem ledger_dead_stays {pre : List Op} {d : List Nat} {post : List Op} {h K : Nat}
    (hd : ¬ 0 < (ledger pre d post h K).count) (more : List Op) :
    (ledger pre d (post ++ more) h K).count = (ledger pre d post h K).count := by
  unfold ledger at hd ⊢
  rw [ledgerFrom_append]
  exact ledgerFrom_dead hd more

/-! ### object numbers -/

theorem nextObj_mono_step {st : St} (g : G st) (op : Op) : st.nextObj ≤ (st.step op).1.nextObj := by
  rcases nextObj_step g op with h | ⟨_, _, _, _, h⟩ <;> omega

theorem nextObj_mono {st : St} (g : G st) (ops : List Op) : st.nextObj ≤ (runFrom st ops).nextObj := by
  induction ops generalizing st with
  | nil => exact Nat.le_refl _
  | cons op ops ih =>
    rw [runFrom_cons]
    exact Nat.le_trans (nextObj_mono_step g op) (ih (G_step g op))

theorem put_dtor_lt {st : St} (g : G st) (h k : Nat) (hm : Out.dtor (some k) ∈ (st.put h).2) :
    k < st.nextObj := by
  by_cases hy : st.lookOk h
  · rw [put_accepted g hy] at hm
    split at hm
    · simp only [List.mem_cons, Out.dtor.injEq, List.mem_nil_iff, or_false] at hm
      rcases hm with hm | hm
      · exact g.instLt _ _ hm.symm
      · cases hm
    · simp only [List.mem_singleton] at hm; cases hm
  · rw [put_refused g hy] at hm
    simp only [List.mem_singleton] at hm; cases hm

/-- the destructor is only ever called on an instance that a create has allocated before -/
theorem dtor_inst_lt {st : St} (g : G st) (op : Op) (k : Nat) (hm : Out.dtor (some k) ∈ (st.step op).2) :
    k < st.nextObj := by
  cases op with
  | create d =>
    rw [step_create] at hm
    rcases create_spec g d with ⟨rc, _, he, _⟩ | ⟨j, _, ho, _⟩
    · rw [he] at hm; simp only [List.mem_singleton] at hm; cases hm
    · rw [ho] at hm; simp only [List.mem_singleton] at hm; cases hm
  | createFail =>
    rw [step_createFail] at hm
    simp only [List.mem_singleton] at hm
    exact absurd hm.symm (createFail_out_ne g _)
  | get h => rw [step_get] at hm; simp only [List.mem_singleton] at hm; cases hm
  | getAlways h => rw [step_getAlways] at hm; simp only [List.mem_singleton] at hm; cases hm
  | put h => rw [step_put] at hm; exact put_dtor_lt g h k hm
  | destroy h =>
    rw [step_destroy] at hm
    by_cases hy : st.lookOk h
    · rw [destroy_accepted g hy] at hm
      exact put_dtor_lt (G_marked g h) h k hm
    · rw [destroy_refused g hy] at hm
      simp only [List.mem_singleton] at hm; cases hm
  | refcount h => rw [step_refcount] at hm; simp only [List.mem_singleton] at hm; cases hm
  | iterReset => rw [step_iterReset] at hm; simp only [List.mem_singleton] at hm; cases hm
  | iterNext => rw [step_iterNext] at hm; simp only [List.mem_singleton] at hm; cases hm

theorem dtorCount_eq_zero_of_not_mem {K : Nat} {outs : List Out} (h : Out.dtor (some K) ∉ outs) :
    dtorCount K outs = 0 := by
  unfold dtorCount
  exact List.count_eq_zero.mpr h

end QbVerif.Hdb
