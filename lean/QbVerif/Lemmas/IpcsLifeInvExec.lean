import QbVerif.Lemmas.IpcsLifeInvConn

/-! C04 — `exec` (every API call, with every scripted callback it triggers, any fuel) preserves the
    invariant and the frame facts nested calls rely on: the straight-line pieces. -/
namespace QbVerif.IpcsLife

def CallOk (s : St) : Call → Prop
  | .zero c => (s.conns c).phase ≠ .none ∧ (s.conns c).phase ≠ .dead
  | .disc c => (s.conns c).freed = false
  | _ => True

def Good (f : Nat) : Prop :=
  ∀ s call, Inv s → CallOk s call → Inv (exec f s call) ∧ Frame s (exec f s call)

theorem cb_eq (s : St) (kind : Kind) (c : Nat) (ret : Int) :
    s.cb kind c ret = (s.emit (.cb kind c ret (s.conns c).rc)).upd c (monitor kind ret) := rfl

theorem inv_setList {s : St} (hi : Inv s) (l : List Nat) (h : ∀ x, x ∈ l → x ∈ s.list) :
    Inv { s with list := l } :=
  ⟨hi.fix, hi.conn, fun c hc => hi.lst c (h c hc), hi.jnd, hi.job⟩

/-- one connection updated, everything else the invariant looks at unchanged -/
structure UpdOf (s : St) (c : Nat) (k' : Conn) (s' : St) : Prop where
  at_c : s'.conns c = k'
  other : ∀ i, i ≠ c → s'.conns i = s.conns i
  list : s'.list = s.list
  jobs : s'.jobs = s.jobs
  f1 : s'.fixClosed = s.fixClosed
  f2 : s'.fixDispatch = s.fixDispatch
  f3 : s'.fixWalk = s.fixWalk

theorem UpdOf.inv {s s' : St} {c : Nat} {k' : Conn} (h : UpdOf s c k' s') (hi : Inv s) (hp : P k')
    (hd : c ∈ s.list → k'.phase ≠ .dead) (hre : k'.cl = .retry ↔ (s.conns c).cl = .retry) : Inv s' where
  fix := by rw [h.f1, h.f2, h.f3]; exact hi.fix
  conn i := by
    by_cases hc : i = c
    · subst hc; rw [h.at_c]; exact hp
    · rw [h.other i hc]; exact hi.conn i
  lst x hx := by
    rw [h.list] at hx
    by_cases hc : x = c
    · subst hc; rw [h.at_c]; exact hd hx
    · rw [h.other x hc]; exact hi.lst x hx
  jnd := by rw [h.jobs]; exact hi.jnd
  job x := by
    rw [h.jobs]
    by_cases hc : x = c
    · subst hc; rw [h.at_c, hre]; exact hi.job x
    · rw [h.other x hc]; exact hi.job x

theorem UpdOf.frame {s s' : St} {c : Nat} {k' : Conn} (h : UpdOf s c k' s')
    (hf : FrameC (s.conns c) k') : Frame s s' := by
  intro i
  by_cases hc : i = c
  · subst hc; rw [h.at_c]; exact hf
  · rw [h.other i hc]; exact FrameC.refl _

theorem updOf_upd (s : St) (c : Nat) (f : Conn → Conn) : UpdOf s c (f (s.conns c)) (s.upd c f) :=
  ⟨by simp, fun i hi => by simp [hi], rfl, rfl, rfl, rfl, rfl⟩

theorem UpdOf.same {s s' s'' : St} {c : Nat} {k' : Conn} (h : UpdOf s c k' s') (h2 : Same s' s'') :
    UpdOf s c k' s'' :=
  ⟨by rw [h2.conns]; exact h.at_c, fun i hi => by rw [h2.conns]; exact h.other i hi,
   h2.list.trans h.list, h2.jobs.trans h.jobs, h2.f1.trans h.f1, h2.f2.trans h.f2, h2.f3.trans h.f3⟩

theorem UpdOf.of_same {s s0 s' : St} {c : Nat} {k' : Conn} (h2 : Same s s0) (h : UpdOf s0 c k' s') :
    UpdOf s c k' s' :=
  ⟨h.at_c, fun i hi => by rw [h.other i hi, h2.conns],
   h.list.trans h2.list, h.jobs.trans h2.jobs, h.f1.trans h2.f1, h.f2.trans h2.f2, h.f3.trans h2.f3⟩

theorem UpdOf.then {s s' s'' : St} {c : Nat} {k' k'' : Conn} (h : UpdOf s c k' s') (h2 : UpdOf s' c k'' s'') :
    UpdOf s c k'' s'' :=
  ⟨h2.at_c, fun i hi => by rw [h2.other i hi, h.other i hi],
   h2.list.trans h.list, h2.jobs.trans h.jobs, h2.f1.trans h.f1, h2.f2.trans h.f2, h2.f3.trans h.f3⟩

theorem FrameC.vac {k k' : Conn} (h1 : k.cl ≠ .running) (h2 : k.phase ≠ .dead)
    (h3 : k.phase ≠ .accepting) (h4 : k.phase ≠ .none) (h5 : k'.phase ≠ .none) (b1 : k'.brCreated = k.brCreated)
    (b2 : k'.brDispatch = k.brDispatch) (b3 : k'.brWalk = k.brWalk) : FrameC k k' :=
  ⟨b1, b2, b3, fun h => absurd h h1, fun h _ => absurd h h2, fun h => absurd h h3, fun h => absurd h h4, fun _ => h5⟩

/-- the frame facts between two states that differ, at `c`, in a way that breaks none of them
    because `c` was in no protected situation to begin with -/
theorem Frame.of_vac {s s' : St} (c : Nat) (h1 : (s.conns c).cl ≠ .running)
    (h2 : (s.conns c).phase ≠ .dead) (h3 : (s.conns c).phase ≠ .accepting) (h4 : (s.conns c).phase ≠ .none)
    (h5 : (s'.conns c).phase ≠ .none)
    (b1 : (s'.conns c).brCreated = (s.conns c).brCreated)
    (b2 : (s'.conns c).brDispatch = (s.conns c).brDispatch)
    (b3 : (s'.conns c).brWalk = (s.conns c).brWalk)
    (ho : ∀ i, i ≠ c → FrameC (s.conns i) (s'.conns i)) : Frame s s' := by
  intro i
  by_cases hc : i = c
  · subst hc; exact FrameC.vac h1 h2 h3 h4 h5 b1 b2 b3
  · exact ho i hc

end QbVerif.IpcsLife

namespace QbVerif.IpcsLife

theorem zeroPre_ok {s : St} (hi : Inv s) (c : Nat) (hr : (s.conns c).rc = 0)
    (hn : (s.conns c).phase ≠ .none) (hd : (s.conns c).phase ≠ .dead) :
    Inv (zeroPre s c) ∧ (∀ i, i ≠ c → (zeroPre s c).conns i = s.conns i) ∧
    ((zeroPre s c).conns c).brCreated = (s.conns c).brCreated ∧
    ((zeroPre s c).conns c).brDispatch = (s.conns c).brDispatch ∧
    ((zeroPre s c).conns c).brWalk = (s.conns c).brWalk ∧
    ((zeroPre s c).conns c).phase = .dead ∧ ((zeroPre s c).conns c).freed = false := by
  have hu : UpdOf { s with list := s.list.filter (· != c) } c
      ({ monitor .destroyed 0 (s.conns c) with destroyed := true }) (zeroPre s c) :=
    ⟨by simp [zeroPre, cb_eq], fun i h => by simp [zeroPre, cb_eq, h], rfl, rfl, rfl, rfl, rfl⟩
  obtain ⟨hp, h1, h2, h3, h4, h5, h6⟩ := (hi.conn c).destroyed hr hn hd _ rfl
  have hi0 : Inv { s with list := s.list.filter (· != c) } :=
    inv_setList hi _ (fun x hx => (List.mem_filter.mp hx).1)
  refine ⟨hu.inv hi0 hp (fun hx => ?_) ?_, hu.other, ?_, ?_, ?_, ?_, ?_⟩
  · simp at hx
  · show _ ↔ (s.conns c).cl = .retry
    rw [h3]
  all_goals (rw [hu.at_c]; try assumption)

theorem zeroPost_ok {s : St} (hi : Inv s) (c : Nat) (hph : (s.conns c).phase = .dead)
    (hfr : (s.conns c).freed = false) :
    Inv (zeroPost s c) ∧ (∀ i, i ≠ c → (zeroPost s c).conns i = s.conns i) ∧
    ((zeroPost s c).conns c).brCreated = (s.conns c).brCreated ∧
    ((zeroPost s c).conns c).brDispatch = (s.conns c).brDispatch ∧
    ((zeroPost s c).conns c).brWalk = (s.conns c).brWalk ∧ ((zeroPost s c).conns c).phase = .dead := by
  unfold zeroPost
  by_cases hh : s.halt = true
  · simp [hh]; exact ⟨hi, hph⟩
  · simp only [hh, touch_eq s c hfr]
    simp only [Bool.false_eq_true, ↓reduceIte]
    have hs := same_svcUnref s
    have hu : UpdOf s c ({ s.conns c with freed := true }) (s.svcUnref.upd c fun k => { k with freed := true }) :=
      UpdOf.of_same hs (by have := updOf_upd s.svcUnref c (fun k => { k with freed := true }); rwa [hs.conns] at this)
    obtain ⟨hp, h1, h2, h3, h4, h5⟩ := (hi.conn c).free hph _ rfl
    refine ⟨hu.inv hi hp (fun hx => absurd hph (hi.lst c hx)) ?_, hu.other, ?_, ?_, ?_, ?_⟩
    · rw [h2]
    all_goals (rw [hu.at_c]; try assumption)

theorem discActive_ok {s : St} (hi : Inv s) (c : Nat) (hh : s.halt = false)
    (hst : (s.conns c).st = .active) :
    Inv (discActive s c) ∧ Frame s (discActive s c) ∧ CallOk (discActive s c) (.zero c) := by
  obtain ⟨hp, hf, hrc, hfr, hph, hcl, hnd⟩ := (hi.conn c).discActive hst _ rfl
  have he : discActive s c = s.upd c fun k =>
      { k with st := .inactive, phase := .aborted, rc := k.rc - 1, init := false } := by
    unfold discActive
    rw [dec_eq _ _ _ (by simpa using hh) (by simpa using hfr) (by simpa using hrc), upd_upd]
  rw [he]
  have hu := updOf_upd s c fun k => { k with st := .inactive, phase := .aborted, rc := k.rc - 1, init := false }
  refine ⟨hu.inv hi hp (fun _ => by simp) (by simp), hu.frame hf, ?_⟩
  simp [CallOk]

theorem shutEarly_ok {s : St} (hi : Inv s) (c : Nat)
    (hst : (s.conns c).st = .established ∨ (s.conns c).st = .shuttingDown) (hcl : (s.conns c).cl ≠ .todo) :
    Inv (s.upd c fun k => { k with st := .shuttingDown }) ∧
    Frame s (s.upd c fun k => { k with st := .shuttingDown }) := by
  obtain ⟨hp, hf, hph, hc⟩ := (hi.conn c).shutEarly hst hcl _ rfl
  have hu := updOf_upd s c fun k => { k with st := .shuttingDown }
  exact ⟨hu.inv hi hp (fun hx => by rw [hph]; exact hi.lst c hx) (by rw [hc]), hu.frame hf⟩

end QbVerif.IpcsLife
