/-
Basic lemmas for the handle-database model (C20): table get/set, the two halves of a handle,
normal forms of the acceptance tests, the global invariant `G` and its preservation.
-/
import QbVerif.Model.HdbSpec

namespace QbVerif.Hdb
open QbVerif.Gen

/-! ### the zero-initialised table -/

theorem Tbl.get_set (t : Tbl) (i j : Nat) (e : Entry) :
    (t.set i e).get j = if j = i then e else t.get j := by
  unfold Tbl.set Tbl.get
  by_cases hi : i < t.size
  · simp only [hi, if_true]
    by_cases hj : j = i
    · subst hj; simp [Array.getD, hi]
    · simp only [hj, if_false]
      simp only [Array.getD_eq_getD_getElem?]
      rw [Array.getElem?_setIfInBounds_ne (Ne.symm hj)]
  · simp only [hi, if_false]
    simp only [Array.getD_eq_getD_getElem?]
    by_cases hj : j = i
    · subst hj
      have : (t ++ Array.replicate (j - t.size) Entry.zero).size = j := by
        simp; omega
      rw [Array.getElem?_push, this]
      simp
    · simp only [hj, if_false]
      rw [Array.getElem?_push]
      have hsz : (t ++ Array.replicate (i - t.size) Entry.zero).size = i := by
        simp; omega
      rw [hsz]
      simp only [hj, if_false]
      by_cases hjt : j < t.size
      · rw [Array.getElem?_append_left hjt]
      · rw [Array.getElem?_append_right (by omega)]
        rw [Array.getElem?_eq_none (by omega : t.size ≤ j)]
        rw [Array.getElem?_replicate]
        split <;> rfl

theorem Tbl.get_set_eq (t : Tbl) (i : Nat) (e : Entry) : (t.set i e).get i = e := by
  rw [Tbl.get_set]; simp

theorem Tbl.get_set_ne (t : Tbl) {i j : Nat} (e : Entry) (h : j ≠ i) : (t.set i e).get j = t.get j := by
  rw [Tbl.get_set]; simp [h]

theorem Tbl.get_empty (j : Nat) : Tbl.get #[] j = Entry.zero := by
  simp [Tbl.get, Array.getD]

/-! ### facts about the regenerated constants (these are the places where the proofs depend on
the values in lib/hdb.c; they are re-checked whenever `Gen/HdbConst.lean` changes) -/

/-- a zeroed entry is an EMPTY entry: `memset(entry, 0, …)` / `calloc` rely on the enum order -/
theorem empty_eq_zero : EMPTY = 0 := by decide
theorem active_ne_empty : ACTIVE ≠ EMPTY := by decide
theorem pending_ne_empty : PENDING ≠ EMPTY := by decide
theorem pending_ne_active : PENDING ≠ ACTIVE := by decide
theorem maxelems_le : MAXELEMS ≤ 2^31 := by decide
theorem ebadf_ne_zero : EBADF ≠ 0 := by decide
theorem erange_ne_zero : ERANGE ≠ 0 := by decide
theorem einval_ne_zero : EINVAL ≠ 0 := by decide
theorem nocheck_not_pos : ¬ 0 < toI32 NOCHECK := by decide
theorem nocheck_lt : NOCHECK < 2^32 := by decide

/-! ### the two halves of a handle -/

theorem hSlot_lt (h : Nat) : hSlot h < 2^32 := Nat.mod_lt _ (by decide)
theorem hCheck_lt (h : Nat) : hCheck h < 2^32 := Nat.mod_lt _ (by decide)

theorem hCheck_mk {c s : Nat} (hc : c < 2^32) (hs : s < 2^32) : hCheck (mkHandle c s) = c := by
  unfold hCheck mkHandle
  have h1 : (2^32 * c + s) / 2^32 = c := by
    rw [Nat.add_comm, Nat.add_mul_div_left _ _ (by decide : 0 < 2^32), Nat.div_eq_of_lt hs]; simp
  rw [h1, Nat.mod_eq_of_lt hc]

theorem hSlot_mk {c s : Nat} (hs : s < 2^32) : hSlot (mkHandle c s) = s := by
  unfold hSlot mkHandle
  rw [Nat.add_comm, Nat.add_mul_mod_self_left, Nat.mod_eq_of_lt hs]

theorem toI32_of_lt {n : Nat} (h : n < 2^31) : toI32 n = (n : Int) := by
  unfold toI32; simp [h]

theorem toI32_neg {n : Nat} (h : 2^31 ≤ n) (h2 : n < 2^32) : toI32 n < 0 := by
  unfold toI32
  have : ¬ n < 2^31 := by omega
  simp only [this, if_false]
  omega

theorem toI32_pos_iff {n : Nat} (h2 : n < 2^32) : 0 < toI32 n ↔ 0 < n ∧ n < 2^31 := by
  unfold toI32
  by_cases h : n < 2^31
  · simp only [h, if_true, and_true]; omega
  · simp only [h, if_false, and_false, iff_false]; omega

/-! ### the global invariant -/

/-- holds in every reachable state -/
structure G (st : St) : Prop where
  hcMax : st.handleCount ≤ st.maxElems
  maxLe : st.maxElems ≤ MAXELEMS
  checkLt : ∀ j, (st.tbl.get j).check < 2^32
  instLt : ∀ j k, (st.tbl.get j).inst = some k → k < st.nextObj
  activeInst : ∀ j, (st.tbl.get j).state = ACTIVE → (st.tbl.get j).inst ≠ none

theorem G.slot_small {st : St} (g : G st) {j : Nat} (h : j < st.handleCount) : j < 2^31 := by
  have := g.hcMax; have := g.maxLe; have := maxelems_le; omega

theorem arrayIndex_ok {st : St} (g : G st) {j : Nat} (h : j < st.handleCount) :
    st.arrayIndex (j : Int) = 0 := by
  unfold St.arrayIndex
  have := g.hcMax
  have h1 : ¬ ((j : Int) < 0) := by omega
  have h2 : ¬ ((j : Int) ≥ (st.maxElems : Int)) := by omega
  simp [h1, h2]

/-- normal form of the acceptance test of put / destroy / refcount_get -/
theorem lookup_eq {st : St} (g : G st) (h : Nat) :
    st.lookup h =
      if hSlot h < st.handleCount ∧ (hCheck h = NOCHECK ∨ hCheck h = (st.tbl.get (hSlot h)).check)
      then some (hSlot h) else none := by
  unfold St.lookup
  by_cases hs : hSlot h < st.handleCount
  · have hsm := g.slot_small hs
    have ht : toI32 (hSlot h) = (hSlot h : Int) := toI32_of_lt hsm
    simp only [ht, Int.toNat_natCast]
    have h1 : ¬ ((hSlot h : Int) ≥ (st.handleCount : Int)) := by omega
    simp only [h1, if_false, arrayIndex_ok g hs, ne_eq, not_true_eq_false, false_or, hs, true_and]
    by_cases hc : hCheck h = NOCHECK
    · simp [hc]
    · by_cases hc2 : hCheck h = (st.tbl.get (hSlot h)).check
      · simp [hc2]
      · simp [hc, hc2]
  · simp only [hs, false_and, if_false]
    by_cases hsm : hSlot h < 2^31
    · have ht : toI32 (hSlot h) = (hSlot h : Int) := toI32_of_lt hsm
      have h1 : ((hSlot h : Int) ≥ (st.handleCount : Int)) := by omega
      simp [ht, h1]
    · have hneg := toI32_neg (Nat.le_of_not_lt hsm) (hSlot_lt h)
      have h1 : ¬ (toI32 (hSlot h) ≥ (st.handleCount : Int)) := by omega
      have h2 : st.arrayIndex (toI32 (hSlot h)) ≠ 0 := by
        unfold St.arrayIndex; simp [hneg, erange_ne_zero]
      simp [h1, h2]

/-- normal form of the acceptance test of get -/
theorem lookupGet_eq {st : St} (g : G st) (h : Nat) :
    st.lookupGet h =
      if hSlot h < st.handleCount ∧ (st.tbl.get (hSlot h)).state = ACTIVE ∧
         (hCheck h = NOCHECK ∨ hCheck h = (st.tbl.get (hSlot h)).check)
      then some (hSlot h) else none := by
  unfold St.lookupGet
  by_cases hs : hSlot h < st.handleCount
  · have hsm := g.slot_small hs
    have ht : toI32 (hSlot h) = (hSlot h : Int) := toI32_of_lt hsm
    simp only [ht, Int.toNat_natCast]
    have h1 : ¬ ((hSlot h : Int) ≥ (st.handleCount : Int)) := by omega
    simp only [h1, if_false, arrayIndex_ok g hs, ne_eq, not_true_eq_false, false_or, hs, true_and]
    by_cases ha : (st.tbl.get (hSlot h)).state = ACTIVE
    · by_cases hc : hCheck h = NOCHECK
      · simp [hc, ha]
      · by_cases hc2 : hCheck h = (st.tbl.get (hSlot h)).check
        · simp [hc2, ha]
        · simp [hc, hc2, ha]
    · simp [ha]
  · simp only [hs, false_and, if_false]
    by_cases hsm : hSlot h < 2^31
    · have ht : toI32 (hSlot h) = (hSlot h : Int) := toI32_of_lt hsm
      have h1 : ((hSlot h : Int) ≥ (st.handleCount : Int)) := by omega
      simp [ht, h1]
    · have hneg := toI32_neg (Nat.le_of_not_lt hsm) (hSlot_lt h)
      have h1 : ¬ (toI32 (hSlot h) ≥ (st.handleCount : Int)) := by omega
      have h2 : st.arrayIndex (toI32 (hSlot h)) ≠ 0 := by
        unfold St.arrayIndex; simp [hneg, erange_ne_zero]
      simp [h1, h2]

end QbVerif.Hdb
