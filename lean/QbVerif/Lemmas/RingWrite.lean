/-
The writer side under the invariant (C07, C11): what the memory looks like after a chunk has
been written at the write pointer, and preservation of `Inv` by `writeTail`.
-/
import QbVerif.Lemmas.RingOps

namespace QbVerif.RingLemmas
open QbVerif.Ring QbVerif.RingSpec

/-- the guard of the repaired `qb_rb_chunk_commit` is false exactly when the chunk fills the ring -/
theorem guard_iff {W TW n : Nat} (h2 : 2 ≤ n) (hn : n + 1 ≤ W) :
    ((TW + n + 1) % W ≠ TW % W) ↔ n + 1 < W := by
  constructor
  · intro h
    apply Nat.lt_of_le_of_ne hn
    intro e
    apply h
    rw [Nat.add_assoc, e, Nat.add_mod_right]
  · intro h
    exact fun e => mod_ne_of_window (N := W) (a := TW) (b := TW + n + 1) (by omega) e.symm

section commit
variable {m : Array Nat} {W TW len : Nat}

theorem size_commitMem : (commitMem m W TW len).size = m.size := by
  unfold commitMem; split <;> simp

theorem commitMem_cell_below {a : Nat} (hW : 0 < W) (ha : a < 4 * TW)
    (hb : 4 * (TW + cw len + 2) ≤ a + 4 * W) : cell (commitMem m W TW len) W a = cell m W a := by
  have := cw_ge len
  unfold commitMem
  rw [cell_setWord_ne hW (by omega)]
  split
  · rw [cell_setWord_ne hW (by omega), cell_setWord_ne hW (by omega)]
  · rw [cell_setWord_ne hW (by omega)]

theorem commitMem_cell_payload {a : Nat} (hW : 0 < W) (hn : cw len + 1 ≤ W) (ha : 4 * (TW + 2) ≤ a)
    (hb : a < 4 * (TW + cw len)) : cell (commitMem m W TW len) W a = cell m W a := by
  unfold commitMem
  rw [cell_setWord_ne hW (by omega)]
  split
  · rw [cell_setWord_ne hW (by omega), cell_setWord_ne hW (by omega)]
  · rw [cell_setWord_ne hW (by omega)]

theorem commitMem_word_size (hs : m.size = 4 * W) (hW : 0 < W) (hn : cw len + 1 ≤ W) (hlen : len < 2 ^ 32) :
    word (commitMem m W TW len) W TW = len := by
  have h2 := cw_ge len
  unfold commitMem
  rw [word_setWord_ne hW (by unfold Apart; omega)]
  split
  · rename_i hg
    have := (guard_iff h2 hn).mp hg
    rw [word_setWord_ne hW (by unfold Apart; omega), word_setWord_eq hs hW, Nat.mod_eq_of_lt hlen]
  · rw [word_setWord_eq hs hW, Nat.mod_eq_of_lt hlen]

theorem commitMem_word_magic (hs : m.size = 4 * W) (hW : 0 < W) :
    word (commitMem m W TW len) W (TW + 1) = MAGIC := by
  unfold commitMem
  rw [word_setWord_eq (by split <;> simp [hs]) hW]
  exact Nat.mod_eq_of_lt MAGIC_lt

theorem commitMem_word_next (hs : m.size = 4 * W) (hW : 0 < W) (hn : cw len + 1 ≤ W) (hlen : len < 2 ^ 31) :
    word (commitMem m W TW len) W (TW + cw len + 1) ≠ MAGIC := by
  have h2 := cw_ge len
  by_cases hfull : cw len + 1 < W
  · unfold commitMem
    rw [if_pos ((guard_iff h2 hn).mpr hfull), word_setWord_ne hW (by unfold Apart; omega),
      word_setWord_eq (by simp [hs]) hW, Nat.mod_eq_of_lt DEAD_lt]
    exact DEAD_ne_MAGIC
  · have e : TW + cw len + 1 = TW + W := by omega
    rw [e, word_add_period, commitMem_word_size hs hW hn (by omega)]
    have := MAGIC_ge
    omega

end commit

section write
variable {m : Array Nat} {W TW : Nat} {d : List Nat}

theorem size_writeMem : (writeMem m W TW d).size = m.size := by
  unfold writeMem; rw [size_commitMem]; simp

/-- cells of live data (below the write pointer, one ring above the end of the new chunk) keep
    their contents -/
theorem writeMem_cell_below {a : Nat} (hW : 0 < W) (ha : a < 4 * TW)
    (hb : 4 * (TW + cw d.length + 2) ≤ a + 4 * W) : cell (writeMem m W TW d) W a = cell m W a := by
  have := cw_lo d.length
  unfold writeMem
  rw [commitMem_cell_below hW ha hb, cell_copyIn_out (by omega), cell_setWord_ne hW (by omega),
    cell_setWord_ne hW (by omega)]

theorem writeMem_payload (hs : m.size = 4 * W) (hW : 0 < W) (hn : cw d.length + 1 ≤ W) (i : Nat)
    (hi : i < d.length) : cell (writeMem m W TW d) W (4 * (TW + 2) + i) = d[i] := by
  have := cw_lo d.length
  unfold writeMem
  rw [commitMem_cell_payload hW hn (by omega) (by omega)]
  exact cell_copyIn_in (j := 0) (by simp [hs]) hW (by omega) i hi

theorem writeMem_stored (hs : m.size = 4 * W) (hW : 0 < W) (hn : cw d.length + 1 ≤ W)
    (hlen : d.length < 2 ^ 32) : Stored (writeMem m W TW d) W TW [d] := by
  refine ⟨?_, ?_, ?_, trivial⟩
  · exact commitMem_word_size (by simp [hs]) hW hn hlen
  · exact commitMem_word_magic (by simp [hs]) hW
  · apply List.ext_getElem
    · simp
    · intro i h1 h2
      simp only [List.getElem_map, List.getElem_range]
      exact writeMem_payload hs hW hn i h2

theorem writeMem_next (hs : m.size = 4 * W) (hW : 0 < W) (hn : cw d.length + 1 ≤ W)
    (hlen : d.length < 2 ^ 31) : word (writeMem m W TW d) W (TW + cw d.length + 1) ≠ MAGIC :=
  commitMem_word_next (by simp [hs]) hW hn hlen

end write

/-- room for a chunk of `n` words next to `U` used words in a ring of `W` words: either the
    ring is empty and the chunk leaves one word, or two words stay free after it -/
def Room (W U n : Nat) : Prop := (U = 0 ∧ n + 1 ≤ W) ∨ (U + n + 2 ≤ W)

theorem room_of_free {W : Nat} {q : List (List Nat)} {sem : Option Nat} {len : Nat}
    (h : ¬ Fifo.free ⟨W, q, sem⟩ < len + MARGIN) : Room W (total q) (cw len) := by
  have hm := MARGIN_eq
  have hc := cw_hi len
  unfold Fifo.free at h
  cases q with
  | nil =>
    left
    refine ⟨rfl, ?_⟩
    cases sem with
    | none => simp only at h; omega
    | some n => cases n <;> simp only at h <;> omega
  | cons c cs =>
    right
    simp only at h
    omega

theorem writeTail_inv {r : Rb} {q : List (List Nat)} {TR : Nat} (d : List Nat) (h : Inv r q TR)
    (hroom : Room r.W (total q) (cw d.length)) :
    Inv (writeTail r d) (q ++ [d]) TR ∧ (writeTail r d).sem = r.sem.map (· + 1) ∧
      (writeTail r d).W = r.W ∧ (writeTail r d).ow = r.ow := by
  have hW := h.wpos
  have hwlt := h.wlt
  have hlo := cw_lo d.length
  have h2 := cw_ge d.length
  have hn : cw d.length + 1 ≤ r.W := by unfold Room at hroom; omega
  have hlen : d.length < 2 ^ 31 := by omega
  rw [writeTail_eq (TW := TR + total q) d h.size hW h.hwp (by omega)]
  refine ⟨⟨?_, h.wge, h.wlt, h.hrp, ?_, ?_, ?_, ?_⟩, rfl, rfl, rfl⟩
  · simp only [size_writeMem]; exact h.size
  · simp only; rw [total_append, Nat.add_assoc]
  · simp only; rw [total_append]; unfold Room at hroom; omega
  · simp only
    apply Stored_append
    · rcases hroom with ⟨h0, _⟩ | hr
      · rw [total_eq_zero h0]; trivial
      · apply Stored_frame hW _ h.stored
        intro a ha hb
        exact writeMem_cell_below hW (by omega) (by omega)
    · exact writeMem_stored h.size hW hn (by omega)
  · simp only
    rw [total_append, ← Nat.add_assoc]
    exact writeMem_next h.size hW hn hlen

end QbVerif.RingLemmas
