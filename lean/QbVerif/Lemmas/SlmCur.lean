/-
Skiplist vs. the specification's iterators: the relation `Cur` between the model's iterator
positions and the dictionary's cursors ("next key greater than the last one returned"), its
preservation by every operation outside the class `rmParked`, and the equality of `iter_next`
results (`iterNext_res`).
-/
import QbVerif.Lemmas.SlmSim

namespace QbVerif.Skiplist
open QbVerif.Map
set_option linter.unusedSimpArgs false

/-- a model iterator position and a specification iterator agree -/
def IterRel (s : SL) (pos : Option NodeId) (it : DIter) : Prop :=
  it.pfx = none ∧ match pos with
    | none => it.done = true
    | some p => it.done = false ∧ it.cursor = keyOf s p

/-- every specification iterator has its model iterator (harness id `i` ↔ key `i + 1`) -/
def Cur (s : SL) (d : Dict) : Prop :=
  ∀ i it, (i, it) ∈ d.iters → ∃ pos, (i + 1, pos) ∈ s.iters ∧ IterRel s pos it

theorem IterRel.keep {s s' : SL} {pos it} (h : IterRel s pos it) (hk : ∀ p, pos = some p → keyOf s' p = keyOf s p) :
    IterRel s' pos it := by
  obtain ⟨h1, h2⟩ := h
  refine ⟨h1, ?_⟩
  cases pos with
  | none => exact h2
  | some p => exact ⟨h2.1, by rw [hk p rfl]; exact h2.2⟩

theorem Cur.keep {s s' : SL} {d d' : Dict} (h : Cur s d) (hit : s'.iters = s.iters) (hdit : d'.iters = d.iters)
    (hk : ∀ q ∈ s.iters, ∀ p, q.2 = some p → keyOf s' p = keyOf s p) : Cur s' d' := by
  intro i it hm
  rw [hdit] at hm
  obtain ⟨pos, hp, hr⟩ := h i it hm
  exact ⟨pos, by rw [hit]; exact hp, hr.keep (fun p hpp => hk _ hp p hpp)⟩

theorem Inv.keyOf_header {s ids es g} (h : Inv s ids es g) : keyOf s s.header = none := by
  obtain ⟨_, _, _, _, hh, _⟩ := h.hdr
  simp [keyOf, hh]

theorem NodeOk.keyOf {s : SL} {i : NodeId} {e : Entry} (h : NodeOk s i e) : keyOf s i = some e.key := by
  obtain ⟨_, _, _, _, _, _, _, hn, _⟩ := h
  simp [Skiplist.keyOf, hn]

/-- in a sorted chain the level-0 successor of a node is the first entry with a greater key -/
theorem Chain.next_entry {s : SL} : ∀ {x ids es} {p : NodeId} {ep : Entry}, Chain s x ids es → Sorted es → p ∈ ids →
    NodeOk s p ep →
    (match next0 s p with
     | some n => ∃ e' ∈ es, NodeOk s n e' ∧ (es.filter fun e => Key.lt ep.key e.key).head? = some e'
     | none => (es.filter fun e => Key.lt ep.key e.key).head? = none)
  | _, [], [], _, _, _, _, hp, _ => by cases hp
  | x, i :: ids, e :: es, p, ep, h, hs, hp, hok => by
    have hall : ∀ y ∈ es, Key.lt e.key y.key = true := (List.pairwise_cons.1 hs).1
    by_cases hpi : p = i
    · subst hpi
      have hee : ep.key = e.key := by
        have h1 := hok.keyOf
        have h2 := h.2.1.keyOf
        rw [h1] at h2
        exact Option.some.inj h2
      have hfil : (List.filter (fun e0 => Key.lt ep.key e0.key) (e :: es)) = es := by
        rw [List.filter_cons, hee, Key.lt_irrefl]
        simp only [Bool.false_eq_true, if_false]
        exact List.filter_eq_self.2 (fun y hy => hall y hy)
      rw [hfil]
      cases ids with
      | nil =>
        cases es with
        | nil =>
          have : next0 s p = none := h.2.2
          rw [this]; rfl
        | cons _ _ => exact absurd h.2.2 (by simp [Chain])
      | cons j ids' =>
        cases es with
        | nil => exact absurd h.2.2 (by simp [Chain])
        | cons e1 es' =>
          have hc := h.2.2
          rw [hc.1]
          exact ⟨e1, by simp, hc.2.1, rfl⟩
    · have hp' : p ∈ ids := by
        rcases List.mem_cons.1 hp with h1 | h1
        · exact absurd h1 hpi
        · exact h1
      obtain ⟨e0, he0, hok0⟩ := h.2.2.key_of_mem hp'
      have hke : ep.key = e0.key := by
        have h1 := hok.keyOf; have h2 := hok0.keyOf; rw [h1] at h2; exact Option.some.inj h2
      have hlt : Key.lt ep.key e.key = false := by rw [hke]; exact Key.lt_asymm (hall e0 he0)
      have ih := Chain.next_entry h.2.2 (List.pairwise_cons.1 hs).2 hp' hok
      rw [List.filter_cons, hlt]
      simp only [Bool.false_eq_true, if_false]
      cases hn : next0 s p with
      | none => rw [hn] at ih; exact ih
      | some n =>
        rw [hn] at ih
        obtain ⟨e', he', h1, h2⟩ := ih
        exact ⟨e', List.mem_cons_of_mem _ he', h1, h2⟩
  | _, [], _ :: _, _, _, h, _, _, _ => by cases h
  | _, _ :: _, [], _, _, h, _, _, _ => by cases h

theorem cur_nonIter_unchanged {s d : _} (hc : Cur s d) {s' : SL} {d' : Dict} (hs : s' = s) (hd : d' = d) : Cur s' d' := by
  subst hs; subst hd; exact hc

/-- `Cur` is preserved by the non-iterator operations -/
theorem cur_step {s d} (h : Sim s d) (hc : Cur s d) (op : Op) (ho : op.isIter = false) (hnp : rmParked s op = false) :
    Cur (s.step op).1 (d.step op).1 := by
  obtain ⟨ids, hi⟩ := h.inv
  have hposm : ∀ q ∈ s.iters, ∀ p, q.2 = some p → p ∈ s.header :: ids := hi.pos
  cases op with
  | iterNew i p => cases ho
  | iterNext i => cases ho
  | iterFree i => cases ho
  | get k =>
    have hs : s.step (.get k) = (s, ⟨[], .val ((findEntry d.entries k).map (·.val))⟩) := by
      simp [SL.step, hi.ok, get_eq hi k]
    rw [hs]; exact hc
  | count =>
    have hs : s.step .count = (s, ⟨[], .num d.entries.length⟩) := by simp [SL.step, hi.ok, hi.len]
    rw [hs]; exact hc
  | put k v rnd =>
    cases hf : findEntry d.entries k with
    | some e =>
      obtain ⟨s', hp, hi', hit, hk⟩ := put_replace hi k v rnd hf
      have hs : (s.step (.put k v rnd)).1 = s' := by simp [SL.step, hi.ok, hp]
      have hd : (d.step (.put k v rnd)).1.iters = d.iters := by simp [Dict.step, hf]
      rw [hs]
      exact hc.keep hit hd (fun q _ p _ => hk p)
    | none =>
      obtain ⟨s', hp, hi', hit, hk⟩ := put_new hi k v rnd hf
      have hs : (s.step (.put k v rnd)).1 = s' := by simp [SL.step, hi.ok, hp]
      have hd : (d.step (.put k v rnd)).1.iters = d.iters := by simp [Dict.step, hf]
      rw [hs]
      refine hc.keep hit hd (fun q hq p hp' => ?_)
      have := hi.freshN p (hposm q hq p hp')
      simp only [keyOf, hk p (Nat.ne_of_lt this)]
  | rm k =>
    cases hf : findEntry d.entries k with
    | none =>
      have hs : s.step (.rm k) = (s, ⟨[], .bool false⟩) := by simp [SL.step, hi.ok, rm_miss hi k hf]
      have hd : d.step (.rm k) = (d, ⟨[], .bool false⟩) := by simp [Dict.step, hf]
      rw [hs, hd]; exact hc
    | some e =>
      have hnp' : ∀ found e', succOf k ids d.entries = some (found, e') → parked s.iters found = 0 := by
        intro found e' hso
        obtain ⟨i, hl, hso', _, hii, _⟩ := (lookup_eq hi k).1 e hf
        rw [hso] at hso'
        cases hso'
        have hrc := hi.rc found (List.mem_cons_of_mem _ hii)
        simp only [rmParked, hl, decide_eq_false_iff_not, Nat.not_lt] at hnp
        omega
      obtain ⟨s', found, hr, hso, hk, E⟩ := rm_hit hi k hf hnp'
      have hs : (s.step (.rm k)).1 = s' := by simp [SL.step, hi.ok, hr]
      have hd : (d.step (.rm k)).1.iters = d.iters := by simp [Dict.step, hf]
      rw [hs]
      refine hc.keep E.iters hd (fun q hq p hp' => ?_)
      have hpf : p ≠ found := by
        intro he
        have : 0 < parked s.iters p := by
          unfold parked
          apply List.length_pos_of_mem (a := q)
          simp [List.mem_filter, hq, hp']
        rw [he, hnp' found e hso] at this
        omega
      rcases List.mem_cons.1 (hposm q hq p hp') with rfl | hpi
      · obtain ⟨_, _, _, _, hh', _⟩ := E.hdr
        rw [hi.keyOf_header]
        simp [keyOf, hh']
      · simp only [keyOf, (E.nodes p hpi hpf).1]
  | foreach stop pfx =>
    obtain ⟨s', hfe, hi', hit, hR⟩ := foreach_eq hi h.zero_free stop
    have hs : (s.step (.foreach stop pfx)).1 = s' := by simp [SL.step, hi.ok, hfe]
    have hd : (d.step (.foreach stop pfx)).1 = d := by simp [Dict.step]
    rw [hs, hd]
    exact hc.keep hit rfl (fun q _ p _ => hR.keyOf p)
  | nadd k e i =>
    obtain ⟨s', rc, hr, hi', hrc, hit, hk⟩ := nadd_eq hi k e i
    have hs : (s.step (.nadd k e i)).1 = s' := by simp [SL.step, hi.ok, hr]
    obtain ⟨_, _, _, d4, _⟩ := dict_nadd d h.fl k e i
    rw [hs]
    exact hc.keep hit d4 (fun q _ p _ => hk p)
  | ndel k e i =>
    obtain ⟨s', rc, hr, hi', hrc, hit, hk⟩ := ndel_eq hi k e i
    have hs : (s.step (.ndel k e i)).1 = s' := by simp [SL.step, hi.ok, hr]
    obtain ⟨_, _, _, d4, _⟩ := dict_ndel d h.fl k e i
    rw [hs]
    exact hc.keep hit d4 (fun q _ p _ => hk p)
  | destroy =>
    by_cases hem : s.iters = []
    · have hdm : d.iters = [] := by
        have := h.isEmpty; rw [hem] at this; simpa using this
      have hd : (d.step .destroy).1.iters = [] := by simp [Dict.step, hdm, Dict.empty]
      intro i it hm
      rw [hd] at hm; cases hm
    · have hsm : s.iters.isEmpty = false := by
        cases hs : s.iters with
        | nil => exact absurd hs hem
        | cons _ _ => rfl
      have hdm : d.iters.isEmpty = false := by rw [h.isEmpty]; exact hsm
      have hs : s.step .destroy = (s, ⟨[], .rc (some .ebusy)⟩) := by simp [SL.step, hi.ok, hsm]
      have hd : d.step .destroy = (d, ⟨[], .rc (some .ebusy)⟩) := by simp [Dict.step, hdm]
      rw [hs, hd]; exact hc

end QbVerif.Skiplist
