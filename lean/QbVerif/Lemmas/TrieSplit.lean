/-
`trie_node_split(t, cur_node, seg_cnt)`: the node store it produces, node by node (`Split.node?_eq`).

With `n` = the node `cur` before the call, `L` = the fresh allocation, `ch = n.seg[sc]`:
* `cur` ↦ `upper n sc L`: keeps idx/parent, segment `n.seg.take sc`, a child array holding only `L`
  in slot `charIdx ch`, no key, no value, refcount 0, no notifiers;
* `L`   ↦ `lower n cur sc`: idx `charIdx ch`, parent `cur`, segment `n.seg.drop (sc+1)`, and the
  children, key, value, refcount, removed mark and notifiers of `n`;
* every child of `n` gets parent `L`; all other nodes are untouched.
-/
import QbVerif.Lemmas.TrieGrow

namespace QbVerif.Trie
open QbVerif.Map

/-- under the invariant no node is its own child -/
theorem no_self_child {t : T} (h : Inv t) {x : Nat} {n : Node} (hn : t.node? x = some n) (i : Nat) :
    (t.nd x).child i ≠ some x := by
  obtain ⟨px, hs⟩ := h.reach x n hn
  clear hn
  induction hs generalizing i with
  | root =>
    intro hc
    obtain ⟨cn, hcn, hcp, _⟩ := h.child_ok 0 i 0 hc
    obtain ⟨hd, hd0, hp, _⟩ := h.header
    rw [hd0] at hcn; injection hcn with hcn; subst hcn
    rw [hp] at hcp; exact absurd hcp (by simp)
  | @edge par x pp c _ hc _ ih =>
    intro hself
    obtain ⟨cn, hcn, hcp, hci⟩ := h.child_ok par _ x hc
    obtain ⟨cn', hcn', hcp', _⟩ := h.child_ok x i x hself
    rw [hcn] at hcn'; injection hcn' with hcn'; subst hcn'
    rw [hcp] at hcp'; injection hcp' with e; subst e
    exact ih i hself

/-- `some j` occurs in a child array iff `j` sits in some slot -/
theorem mem_children_iff (n : Node) (j : Nat) : some j ∈ n.children ↔ ∃ i, n.child i = some j := by
  constructor
  · intro h
    obtain ⟨i, hi, e⟩ := List.getElem_of_mem h
    exact ⟨i, by simp [Node.child, List.getElem?_eq_getElem hi, e]⟩
  · rintro ⟨i, hi⟩
    unfold Node.child at hi
    cases hg : n.children[i]? with
    | none => rw [hg] at hi; exact absurd hi (by simp)
    | some o =>
      rw [hg] at hi; simp at hi; subst hi
      exact List.mem_of_getElem? hg

/-! ### `reparent` -/

def setParent (p : Nat) (x : Node) : Node := { x with parent := some p }

theorem modify_node? (t : T) (c : Nat) (f : Node → Node) {m : Node} (hm : t.node? c = some m) (j : Nat) :
    (t.modify c f).node? j = if j = c then some (f m) else t.node? j := by
  unfold T.modify
  rw [node?_set, nd_of_node? hm]
  simp [lt_of_node? hm]

theorem reparent_node? (p : Nat) : ∀ (kids : List (Option Nat)) (t : T),
    (∀ c, some c ∈ kids → ∃ m, t.node? c = some m) → ∀ j,
    (t.reparent kids p).node? j =
      if some j ∈ kids then (t.node? j).map (setParent p) else t.node? j := by
  intro kids
  induction kids with
  | nil => intro t _ j; simp [T.reparent]
  | cons k rest ih =>
    intro t hlive j
    cases k with
    | none =>
      have e : t.reparent (none :: rest) p = t.reparent rest p := by simp [T.reparent]
      rw [e, ih t (fun c hc => hlive c (by simp [hc])) j]
      simp
    | some c =>
      obtain ⟨m, hm⟩ := hlive c (by simp)
      have e : t.reparent (some c :: rest) p = (t.modify c (setParent p)).reparent rest p := rfl
      have hlive' : ∀ c', some c' ∈ rest → ∃ m', (t.modify c (setParent p)).node? c' = some m' := by
        intro c' hc'
        rw [modify_node? t c _ hm]
        by_cases h : c' = c
        · exact ⟨setParent p m, by simp [h]⟩
        · obtain ⟨m', hm'⟩ := hlive c' (by simp [hc'])
          exact ⟨m', by simp [h, hm']⟩
      rw [e, ih _ hlive' j, modify_node? t c _ hm]
      by_cases hj : j = c
      · subst hj
        by_cases hr : some j ∈ rest
        · simp [hr, hm, setParent]
        · simp [hr, hm]
      · have : ¬ (some j = some c) := fun e => hj (Option.some.inj e)
        simp [hj, List.mem_cons, this]

/-! ### the store after a split -/

/-- raw `new_child_node` -/
theorem newChild_node? (t : T) (par c : Nat) (hlt : par < t.nodes.length) (j : Nat) :
    (t.newChild par c).1.node? j =
      if j = par then some { t.nd par with children := (padKids (t.nd par).children (charIdx c)).set (charIdx c) (some t.nodes.length) }
      else if j = t.nodes.length then some (Grow.fresh par c) else t.node? j := by
  unfold T.newChild
  simp only
  rw [node?_set]
  by_cases hj : j = par
  · subst hj
    rw [if_pos ⟨rfl, by simp only [List.length_append, List.length_singleton]; omega⟩, if_pos rfl]
    rfl
  · simp only [hj, false_and, if_false]
    unfold T.node?
    simp only
    by_cases h1 : j < t.nodes.length
    · have : ¬ j = t.nodes.length := by omega
      rw [List.getElem?_append_left h1]; simp [this]
    · rw [List.getElem?_append_right (by omega)]
      by_cases h2 : j = t.nodes.length
      · simp [h2, Grow.fresh]
      · have : j - t.nodes.length ≠ 0 := by omega
        simp [h2, List.getElem?_eq_none (by omega : t.nodes.length ≤ j)]
        cases hh : j - t.nodes.length with
        | zero => exact absurd hh this
        | succ m => simp

theorem newChild_length (t : T) (par c : Nat) : (t.newChild par c).1.nodes.length = t.nodes.length + 1 := by
  simp [T.newChild, T.set]

/-- the split node afterwards -/
def upper (n : Node) (sc L : Nat) : Node :=
  { n with children := (padKids [] (charIdx (n.seg.getD sc 0))).set (charIdx (n.seg.getD sc 0)) (some L),
           val := 0, key := none, refcount := 0, removed := false, notifs := [], seg := n.seg.take sc }

/-- the new node that takes over the entry and the children -/
def lower (n : Node) (cur sc : Nat) : Node :=
  { Grow.fresh cur (n.seg.getD sc 0) with
    children := n.children, val := n.val, key := n.key, refcount := n.refcount, removed := n.removed,
    notifs := n.notifs, seg := n.seg.drop (sc + 1) }

/-- the assignment `trie_node_split` makes to the new node -/
abbrev lowerFn (n : Node) (sc : Nat) : Node → Node := fun x =>
  { x with children := n.children, val := n.val, key := n.key, refcount := n.refcount,
           removed := n.removed, notifs := n.notifs, seg := n.seg.drop (sc + 1) }

structure Split (t : T) (cur sc : Nat) (n : Node) : Prop where
  inv : Inv t
  hn : t.node? cur = some n
  hsc : sc < n.seg.length

namespace Split
variable {t : T} {cur sc : Nat} {n : Node}

theorem kid_live (s : Split t cur sc n) {c : Nat} (hc : some c ∈ n.children) :
    ∃ m, t.node? c = some m ∧ c ≠ cur ∧ c < t.nodes.length := by
  obtain ⟨i, hi⟩ := (mem_children_iff n c).1 hc
  have hi' : (t.nd cur).child i = some c := by rw [nd_of_node? s.hn]; exact hi
  obtain ⟨m, hm, _⟩ := s.inv.child_ok cur i c hi'
  refine ⟨m, hm, ?_, lt_of_node? hm⟩
  intro e; subst e
  exact no_self_child s.inv s.hn i hi'

theorem node?_eq (s : Split t cur sc n) (j : Nat) :
    (t.split cur sc).node? j =
      if j = cur then some (upper n sc t.nodes.length)
      else if j = t.nodes.length then some (lower n cur sc)
      else if some j ∈ n.children then (t.node? j).map (setParent t.nodes.length)
      else t.node? j := by
  have hlt := lt_of_node? s.hn
  have hcurL : cur ≠ t.nodes.length := by omega
  -- t1
  have h1 : ∀ j, (t.set cur { n with children := [] }).node? j =
      if j = cur then some { n with children := [] } else t.node? j := by
    intro j; rw [node?_set]; simp [hlt]
  have hlen1 : (t.set cur { n with children := [] }).nodes.length = t.nodes.length := nodes_length_set _ _ _
  have hnd1 : (t.set cur { n with children := [] }).nd cur = { n with children := [] } := nd_set_same _ _ hlt
  -- t2
  have h2 := newChild_node? (t.set cur { n with children := [] }) cur (n.seg.getD sc 0) (by rw [hlen1]; exact hlt)
  rw [hlen1, hnd1] at h2
  have hlen2 := newChild_length (t.set cur { n with children := [] }) cur (n.seg.getD sc 0)
  rw [hlen1] at hlen2
  -- unfold the definition
  unfold T.split
  simp only [nd_of_node? s.hn, s.hsc, if_true]
  generalize ht2 : (t.set cur { n with children := [] }).newChild cur (n.seg.getD sc 0) = r at h2 hlen2
  obtain ⟨t2, sid⟩ := r
  have hsid : sid = t.nodes.length := by
    have := congrArg Prod.snd ht2
    simp only [Grow.newChild_id, hlen1] at this
    exact this.symm
  subst hsid
  simp only at h2 hlen2 ⊢
  -- t3
  have hL2 : t2.node? t.nodes.length = some (Grow.fresh cur (n.seg.getD sc 0)) := by
    have hLc : ¬ (t.nodes.length = cur) := fun e => hcurL e.symm
    rw [h2]; simp [hLc]
  have h3 := modify_node? t2 t.nodes.length (lowerFn n sc) hL2
  -- t4
  have hlive3 : ∀ c, some c ∈ n.children → ∃ m, (t2.modify t.nodes.length (lowerFn n sc)).node? c = some m := by
    intro c hc
    obtain ⟨m, hm, hne, hclt⟩ := s.kid_live hc
    have : c ≠ t.nodes.length := by omega
    rw [h3, h2, h1]
    exact ⟨m, by simp [this, hne, hm]⟩
  have h4 := reparent_node? t.nodes.length n.children _ hlive3
  -- cur in t4
  have hcur_notkid : some cur ∉ n.children := by
    intro hc; obtain ⟨_, _, hne, _⟩ := s.kid_live hc; exact hne rfl
  have hL_notkid : some t.nodes.length ∉ n.children := by
    intro hc; obtain ⟨_, _, _, hl⟩ := s.kid_live hc; omega
  have hcur4 : ((t2.modify t.nodes.length (lowerFn n sc)).reparent n.children t.nodes.length).node? cur =
      some { n with children := (padKids [] (charIdx (n.seg.getD sc 0))).set (charIdx (n.seg.getD sc 0)) (some t.nodes.length) } := by
    rw [h4, h3, h2]; simp [hcur_notkid, hcurL, padKids]
  rw [modify_node? _ cur _ hcur4, h4, h3, h2, h1]
  by_cases e1 : j = cur
  · simp [e1, upper]
  · by_cases e2 : j = t.nodes.length
    · subst e2
      have hLc : ¬ (t.nodes.length = cur) := fun e => hcurL e.symm
      simp [hLc, hL_notkid, lower, Grow.fresh]
    · simp only [e1, e2, if_false]

end Split

end QbVerif.Trie
