/-
Skiplist model vs. the dictionary specification, single-level fragment: the simulation relation
`Sim`, one step (`sim_step`) and whole histories (`sim_run`).
-/
import QbVerif.Lemmas.SlDestroy

namespace QbVerif.Skiplist
open QbVerif.Map
set_option linter.unusedSimpArgs false

/-- the operation draws level 0 for a new node (`put … lvl=0`; every other operation draws nothing) -/
def level0 : Op → Bool
  | .put _ _ l => l == 0
  | _ => true

structure Sim (s : SL) (d : Dict) : Prop where
  fl : d.fl = .sl
  inv : ∃ ids, Inv s ids d.entries d.globals
  iters : d.iters = []

theorem canon_rc {a b : Option Err} (h : a.isSome = b.isSome) : (Res.rc a).canon .sl = (Res.rc b).canon .sl := by
  cases a <;> cases b <;> simp_all [Res.canon, Res.dropCode]

theorem dict_notify_sl {d : Dict} (hfl : d.fl = .sl) (ns : List Notifier) (ev : Nat) (k : Key) (o n : Val) :
    d.notify ns ev k o n = dispatch ns d.globals ev k o n := by
  simp [Dict.notify, hfl, Flavour.sl]

structure StepSim (s : SL) (d : Dict) (op : Op) : Prop where
  sim : Sim (s.step op).1 (d.step op).1
  events : (s.step op).2.events = (d.step op).2.events
  res : (s.step op).2.res.canon .sl = (d.step op).2.res.canon .sl

theorem StepSim_iff {s d op} : StepSim s d op ↔ (Sim (s.step op).1 (d.step op).1 ∧
    (s.step op).2.events = (d.step op).2.events ∧ (s.step op).2.res.canon .sl = (d.step op).2.res.canon .sl) :=
  ⟨fun h => ⟨h.sim, h.events, h.res⟩, fun h => ⟨h.1, h.2.1, h.2.2⟩⟩

theorem sim_put {s d} (h : Sim s d) (k : Key) (v : Val) : StepSim s d (.put k v 0) := by
  obtain ⟨ids, hi⟩ := h.inv
  cases hf : findEntry d.entries k with
  | some e =>
    obtain ⟨s', hp, hi'⟩ := put_replace hi k v hf
    have hs : s.step (.put k v 0) = (s', ⟨dispatch e.notifs d.globals EV_REPLACED k e.val v, .ok⟩) := by
      simp [SL.step, hi.ok, hp]
    have hd : d.step (.put k v 0) = ({ d with entries := insertEntry { e with val := v } d.entries },
        ⟨dispatch e.notifs d.globals EV_REPLACED k e.val v, .ok⟩) := by
      simp [Dict.step, hf, dict_notify_sl h.fl]
    rw [StepSim_iff, hs, hd]
    exact ⟨⟨h.fl, ⟨ids, hi'⟩, h.iters⟩, rfl, rfl⟩
  | none =>
    obtain ⟨s', hp, hi'⟩ := put_new hi k v hf
    have hs : s.step (.put k v 0) = (s', ⟨dispatch [] d.globals EV_INSERTED k 0 v, .ok⟩) := by
      simp [SL.step, hi.ok, hp]
    have hd : d.step (.put k v 0) = ({ d with entries := insertEntry ⟨k, v, []⟩ d.entries },
        ⟨dispatch [] d.globals EV_INSERTED k 0 v, .ok⟩) := by
      simp [Dict.step, hf, dict_notify_sl h.fl]
    rw [StepSim_iff, hs, hd]
    exact ⟨⟨h.fl, ⟨_, hi'⟩, h.iters⟩, rfl, rfl⟩

theorem sim_get {s d} (h : Sim s d) (k : Key) : StepSim s d (.get k) := by
  obtain ⟨ids, hi⟩ := h.inv
  have hs : s.step (.get k) = (s, ⟨[], .val ((findEntry d.entries k).map (·.val))⟩) := by
    simp [SL.step, hi.ok, get_eq hi k]
  rw [StepSim_iff, hs]
  exact ⟨h, rfl, rfl⟩

theorem sim_count {s d} (h : Sim s d) : StepSim s d .count := by
  obtain ⟨ids, hi⟩ := h.inv
  have hs : s.step .count = (s, ⟨[], .num d.entries.length⟩) := by
    simp [SL.step, hi.ok, hi.len]
  rw [StepSim_iff, hs]
  exact ⟨h, rfl, rfl⟩

theorem sim_rm {s d} (h : Sim s d) (k : Key) : StepSim s d (.rm k) := by
  obtain ⟨ids, hi⟩ := h.inv
  cases hf : findEntry d.entries k with
  | none =>
    have hs : s.step (.rm k) = (s, ⟨[], .bool false⟩) := by simp [SL.step, hi.ok, rm_miss hi k hf]
    have hd : d.step (.rm k) = (d, ⟨[], .bool false⟩) := by simp [Dict.step, hf]
    rw [StepSim_iff, hs, hd]
    exact ⟨h, rfl, rfl⟩
  | some e =>
    obtain ⟨s', found, hr, hso, hk, E⟩ := rm_hit hi k hf
    have hs : s.step (.rm k) = (s', ⟨dispatch e.notifs d.globals EV_DELETED k e.val 0, .bool true⟩) := by
      simp [SL.step, hi.ok, hr]
    have hd : d.step (.rm k) = ({ d with entries := eraseEntry k d.entries },
        ⟨dispatch e.notifs d.globals EV_DELETED k e.val 0, .bool true⟩) := by
      simp [Dict.step, hf, dict_notify_sl h.fl]
    rw [StepSim_iff, hs, hd]
    exact ⟨⟨h.fl, ⟨_, erase_inv hi hso hk E⟩, h.iters⟩, rfl, rfl⟩

theorem sim_foreach {s d} (h : Sim s d) (stop : Nat) (pfx : Option Key) : StepSim s d (.foreach stop pfx) := by
  obtain ⟨ids, hi⟩ := h.inv
  have hs : s.step (.foreach stop pfx) = (s, ⟨[], .visited (takeStop stop (d.entries.map kv))
      (stop = 0 || d.entries.length < stop)⟩) := by
    simp [SL.step, hi.ok, foreach_eq hi stop]
  have hd : d.step (.foreach stop pfx) = (d, ⟨[], .visited (takeStop stop (d.entries.map kv))
      (stop = 0 || d.entries.length < stop)⟩) := by
    simp only [Dict.step, Dict.range, h.fl, Flavour.sl, Bool.false_eq_true, if_false, takeStop]
    by_cases h0 : stop = 0
    · simp [h0, kv]
    · simp [h0, List.map_take]
      rfl
  rw [StepSim_iff, hs, hd]
  exact ⟨h, rfl, rfl⟩

theorem dict_nadd (d : Dict) (hfl : d.fl = .sl) (k : Option Key) (events id : Nat) :
    (d.step (.nadd k events id)).1.fl = d.fl ∧
    (d.step (.nadd k events id)).1.entries = (naddSpec d.entries d.globals k events id).1 ∧
    (d.step (.nadd k events id)).1.globals = (naddSpec d.entries d.globals k events id).2.1 ∧
    (d.step (.nadd k events id)).1.iters = d.iters ∧
    (d.step (.nadd k events id)).2 = ⟨[], .rc (naddSpec d.entries d.globals k events id).2.2⟩ := by
  obtain ⟨fl, es, g, pn, its⟩ := d
  simp only at hfl
  subst hfl
  cases k with
  | none =>
    simp only [Dict.step, naddSpec]
    cases notifierAdd g events id <;> simp
  | some k =>
    simp only [Dict.step, naddSpec, Flavour.sl]
    split
    · simp
    · simp only [Bool.false_eq_true, if_false]
      cases findEntry es k with
      | none => simp
      | some e => simp only []; cases notifierAdd e.notifs events id <;> simp

theorem dict_ndel (d : Dict) (hfl : d.fl = .sl) (k : Option Key) (events : Nat) (id : Option Nat) :
    (d.step (.ndel k events id)).1.fl = d.fl ∧
    (d.step (.ndel k events id)).1.entries = (ndelSpec d.entries d.globals k events id).1 ∧
    (d.step (.ndel k events id)).1.globals = (ndelSpec d.entries d.globals k events id).2.1 ∧
    (d.step (.ndel k events id)).1.iters = d.iters ∧
    (d.step (.ndel k events id)).2 = ⟨[], .rc (ndelSpec d.entries d.globals k events id).2.2⟩ := by
  obtain ⟨fl, es, g, pn, its⟩ := d
  simp only at hfl
  subst hfl
  cases k with
  | none =>
    simp only [Dict.step, ndelSpec]
    cases notifierDel g events id <;> simp
  | some k =>
    simp only [Dict.step, ndelSpec, Flavour.sl, Bool.false_eq_true, if_false]
    cases findEntry es k with
    | none => simp
    | some e => simp only []; cases notifierDel e.notifs events id <;> simp

theorem sim_nadd {s d} (h : Sim s d) (k : Option Key) (events id : Nat) : StepSim s d (.nadd k events id) := by
  obtain ⟨ids, hi⟩ := h.inv
  obtain ⟨s', rc, hr, hi', hrc⟩ := nadd_eq hi k events id
  have hs : s.step (.nadd k events id) = (s', ⟨[], .rc rc⟩) := by simp [SL.step, hi.ok, hr]
  obtain ⟨d1, d2, d3, d4, d5⟩ := dict_nadd d h.fl k events id
  rw [StepSim_iff, hs, d5]
  refine ⟨⟨by rw [d1]; exact h.fl, ⟨ids, by rw [d2, d3]; exact hi'⟩, by rw [d4]; exact h.iters⟩, rfl, canon_rc hrc⟩

theorem sim_ndel {s d} (h : Sim s d) (k : Option Key) (events : Nat) (id : Option Nat) : StepSim s d (.ndel k events id) := by
  obtain ⟨ids, hi⟩ := h.inv
  obtain ⟨s', rc, hr, hi', hrc⟩ := ndel_eq hi k events id
  have hs : s.step (.ndel k events id) = (s', ⟨[], .rc rc⟩) := by simp [SL.step, hi.ok, hr]
  obtain ⟨d1, d2, d3, d4, d5⟩ := dict_ndel d h.fl k events id
  rw [StepSim_iff, hs, d5]
  refine ⟨⟨by rw [d1]; exact h.fl, ⟨ids, by rw [d2, d3]; exact hi'⟩, by rw [d4]; exact h.iters⟩, rfl, canon_rc hrc⟩

theorem sim_destroy {s d} (h : Sim s d) : StepSim s d .destroy := by
  obtain ⟨ids, hi⟩ := h.inv
  obtain ⟨s', hr, hi'⟩ := destroy_eq hi
  have hs : s.step .destroy = (s', ⟨d.entries.flatMap fun e => dispatch e.notifs d.globals EV_DELETED e.key e.val 0, .ok⟩) := by
    simp [SL.step, hi.ok, hi.iters, hr]
  have hd : d.step .destroy = (Dict.empty d.fl,
      ⟨d.entries.flatMap fun e => dispatch e.notifs d.globals EV_DELETED e.key e.val 0, .ok⟩) := by
    simp [Dict.step, h.iters, dict_notify_sl h.fl]
  rw [StepSim_iff, hs, hd]
  exact ⟨⟨h.fl, ⟨[], hi'⟩, rfl⟩, rfl, rfl⟩

/-- one operation of the C17 language (iterator-free, level 0 drawn) -/
theorem sim_step {s d} (h : Sim s d) (op : Op) (hi : op.isIter = false) (hl : level0 op = true) : StepSim s d op := by
  cases op with
  | put k v l =>
    have : l = 0 := by simpa [level0] using hl
    subst this
    exact sim_put h k v
  | get k => exact sim_get h k
  | rm k => exact sim_rm h k
  | count => exact sim_count h
  | foreach stop pfx => exact sim_foreach h stop pfx
  | nadd k e i => exact sim_nadd h k e i
  | ndel k e i => exact sim_ndel h k e i
  | destroy => exact sim_destroy h
  | iterNew i p => cases hi
  | iterNext i => cases hi
  | iterFree i => cases hi

theorem sim_create : Sim create (Dict.empty .sl) := ⟨rfl, ⟨[], create_inv⟩, rfl⟩

/-- whole histories: results, notification trace, and the relation at the end -/
theorem sim_run : ∀ (ops : List Op) {s : SL} {d : Dict}, Sim s d → (∀ op ∈ ops, op.isIter = false) →
    (∀ op ∈ ops, level0 op = true) →
    Sim (s.runFrom ops).1 (d.runFrom ops).1 ∧
    (s.runFrom ops).2.map (·.events) = (d.runFrom ops).2.map (·.events) ∧
    (s.runFrom ops).2.map (fun o => o.res.canon .sl) = (d.runFrom ops).2.map (fun o => o.res.canon .sl)
  | [], _, _, h, _, _ => ⟨h, rfl, rfl⟩
  | op :: ops, s, d, h, hi, hl => by
    have st := sim_step h op (hi op (by simp)) (hl op (by simp))
    obtain ⟨h1, h2, h3⟩ := sim_run ops st.sim (fun o ho => hi o (List.mem_cons_of_mem _ ho))
      (fun o ho => hl o (List.mem_cons_of_mem _ ho))
    refine ⟨h1, ?_, ?_⟩
    · show (s.step op).2.events :: _ = (d.step op).2.events :: _
      rw [st.events]; exact congrArg _ h2
    · show (s.step op).2.res.canon .sl :: _ = (d.step op).2.res.canon .sl :: _
      rw [st.res]; exact congrArg _ h3

end QbVerif.Skiplist
