/-
C08: `JInv` under qb_loop_job_add and under the pop of qb_loop_run_level; the instance of the generic walk;
`JInv` holds after every history.  Core Lean only.
-/
import QbVerif.Lemmas.LoopJobs3

namespace QbVerif.Loop
open QbVerif.Gen

/-- the ids of `s` around the pending list of level `p` -/
theorem allIds_split (s : St) (p : Nat) : ∃ X Y : List Nat,
    s.allIds = s.dAids ++ (X ++ (pendOf (s.lv p) ++ Y)) ∧
    (∀ (l' : Level) (dl : List (Item × Nat)), ({ s.setLv p l' with dlog := dl } : St).allIds =
      aids (dl.map Prod.fst) ++ (X ++ (pendOf l' ++ Y))) ∧
    (∀ (l' : Level) (dl : List (Item × Nat)), (pendOf l').Pairwise (· < ·) →
      (pendOf s.lo).Pairwise (· < ·) → (pendOf s.me).Pairwise (· < ·) → (pendOf s.hi).Pairwise (· < ·) →
      (pendOf ({ s.setLv p l' with dlog := dl } : St).lo).Pairwise (· < ·) ∧
      (pendOf ({ s.setLv p l' with dlog := dl } : St).me).Pairwise (· < ·) ∧
      (pendOf ({ s.setLv p l' with dlog := dl } : St).hi).Pairwise (· < ·)) := by
  have hml : QB_LOOP_MED ≠ QB_LOOP_LOW := by decide
  by_cases h0 : p = QB_LOOP_LOW
  · refine ⟨[], pendOf s.me ++ pendOf s.hi, ?_, ?_, ?_⟩
    · simp [St.allIds, St.lv, h0]
    · intro l' dl; simp [St.allIds, St.dAids, setLv_lo, setLv_me, setLv_hi, h0]
    · intro l' dl h1 h2 h3 h4; simp [setLv_lo, setLv_me, setLv_hi, h0]; exact ⟨h1, h3, h4⟩
  · by_cases h1 : p = QB_LOOP_MED
    · refine ⟨pendOf s.lo, pendOf s.hi, ?_, ?_, ?_⟩
      · simp [St.allIds, St.lv, h1, hml]
      · intro l' dl; simp [St.allIds, St.dAids, setLv_lo, setLv_me, setLv_hi, h1, hml]
      · intro l' dl g1 g2 g3 g4; simp [setLv_lo, setLv_me, setLv_hi, h1, hml]; exact ⟨g2, g1, g4⟩
    · refine ⟨pendOf s.lo ++ pendOf s.me, [], ?_, ?_, ?_⟩
      · simp [St.allIds, St.lv, h0, h1]
      · intro l' dl; simp [St.allIds, St.dAids, setLv_lo, setLv_me, setLv_hi, h0, h1]
      · intro l' dl g1 g2 g3 g4; simp [setLv_lo, setLv_me, setLv_hi, h0, h1]; exact ⟨g2, g3, g1⟩

theorem allIds_congr {a b : St} (h1 : a.lo = b.lo) (h2 : a.me = b.me) (h3 : a.hi = b.hi) (h4 : a.dlog = b.dlog) :
    a.allIds = b.allIds := by
  unfold St.allIds St.dAids; rw [h1, h2, h3, h4]

theorem pend_lv_sorted {s : St} (h : JInv s) (p : Nat) : (pendOf (s.lv p)).Pairwise (· < ·) := by
  unfold St.lv; split
  · exact h.slo
  · split
    · exact h.sme
    · exact h.shi

/-- `qb_loop_job_add` -/
theorem JInv.jobAdd {s : St} (h : JInv s) (p id : Nat) : JInv (s.jobAdd p id).1 := by
  unfold St.jobAdd
  split
  · exact h
  · show JInv ({ s.setLv p { s.lv p with wait := (s.lv p).wait ++ [Item.job s.nextAid id] } with
        nextAid := s.nextAid + 1 } : St)
    obtain ⟨X, Y, e1, e2, e3⟩ := allIds_split s p
    have hp : pendOf { s.lv p with wait := (s.lv p).wait ++ [Item.job s.nextAid id] } = pendOf (s.lv p) ++ [s.nextAid] := by
      simp [pendOf, aids, List.filterMap_append, jobAid]
    have e2' := e2 { s.lv p with wait := (s.lv p).wait ++ [Item.job s.nextAid id] } s.dlog
    have e3' := e3 { s.lv p with wait := (s.lv p).wait ++ [Item.job s.nextAid id] } s.dlog
    rw [hp] at e2' e3'
    have e2'' : ({ s.setLv p { s.lv p with wait := (s.lv p).wait ++ [Item.job s.nextAid id] } with
        nextAid := s.nextAid + 1 } : St).allIds =
        aids (List.map Prod.fst s.dlog) ++ (X ++ (pendOf (s.lv p) ++ [s.nextAid] ++ Y)) := by
      rw [← e2']; exact allIds_congr (by simp) (by simp) (by simp) (by simp)
    have hlt : ∀ a ∈ s.dAids ++ (X ++ (pendOf (s.lv p) ++ Y)), a < s.nextAid := by rw [← e1]; exact h.lt
    have hnd : (s.dAids ++ (X ++ (pendOf (s.lv p) ++ Y))).Nodup := by rw [← e1]; exact h.nodup
    have hperm : (aids (s.dlog.map Prod.fst) ++ (X ++ (pendOf (s.lv p) ++ [s.nextAid] ++ Y))).Perm
        (s.nextAid :: (s.dAids ++ (X ++ (pendOf (s.lv p) ++ Y)))) := by
      have : aids (s.dlog.map Prod.fst) ++ (X ++ (pendOf (s.lv p) ++ [s.nextAid] ++ Y)) =
          (s.dAids ++ (X ++ pendOf (s.lv p))) ++ s.nextAid :: Y := by simp [St.dAids, List.append_assoc]
      rw [this]
      have h2 : s.dAids ++ (X ++ (pendOf (s.lv p) ++ Y)) = (s.dAids ++ (X ++ pendOf (s.lv p))) ++ Y := by
        simp [List.append_assoc]
      rw [h2]
      exact List.perm_middle
    have hsorted := e3' (by
      rw [List.pairwise_append]
      refine ⟨pend_lv_sorted h p, by simp, ?_⟩
      intro a ha b hb
      simp at hb; subst hb
      exact hlt a (by simp [ha])) h.slo h.sme h.shi
    refine ⟨?_, ?_, hsorted.1, hsorted.2.1, hsorted.2.2⟩
    · rw [e2'']
      refine (hperm.nodup_iff).2 (List.nodup_cons.2 ⟨?_, hnd⟩)
      intro hm; exact Nat.lt_irrefl _ (hlt _ hm)
    · show ∀ a ∈ St.allIds _, a < s.nextAid + 1
      rw [e2'']
      intro a ha
      have := (hperm.mem_iff).1 ha
      rcases List.mem_cons.1 this with rfl | hm
      · exact Nat.lt_succ_self _
      · exact Nat.lt_succ_of_lt (hlt a hm)

/-- the pop of `qb_loop_run_level` -/
theorem JInv.pop {s : St} (h : JInv s) (p : Nat) (it : Item) (rest : List Item) (hj : (s.lv p).jobs = it :: rest) :
    JInv (s.popped p it rest) := by
  unfold St.popped
  obtain ⟨X, Y, e1, e2, e3⟩ := allIds_split s p
  have e2' := e2 { s.lv p with jobs := rest } ((it, s.regCheck it) :: s.dlog)
  have e3' := e3 { s.lv p with jobs := rest } ((it, s.regCheck it) :: s.dlog)
  have hsub : (pendOf { s.lv p with jobs := rest }).Sublist (pendOf (s.lv p)) := by
    show (aids (rest ++ (s.lv p).wait)).Sublist (aids ((s.lv p).jobs ++ (s.lv p).wait))
    rw [hj]; exact aids_sublist ((List.sublist_cons_self _ _).append (List.Sublist.refl _))
  have hsorted := e3' ((pend_lv_sorted h p).sublist hsub) h.slo h.sme h.shi
  have hlt : ∀ a ∈ s.dAids ++ (X ++ (pendOf (s.lv p) ++ Y)), a < s.nextAid := by rw [← e1]; exact h.lt
  have hnd : (s.dAids ++ (X ++ (pendOf (s.lv p) ++ Y))).Nodup := by rw [← e1]; exact h.nodup
  have hpl : pendOf (s.lv p) = aids [it] ++ pendOf { s.lv p with jobs := rest } := by
    cases hja : jobAid it <;> simp [pendOf, aids, hj, List.filterMap_cons, List.filterMap_append, hja]
  have hperm : (aids (((it, s.regCheck it) :: s.dlog).map Prod.fst) ++ (X ++ (pendOf { s.lv p with jobs := rest } ++ Y))).Perm
      (s.dAids ++ (X ++ (pendOf (s.lv p) ++ Y))) := by
    rw [hpl]
    have : aids (((it, s.regCheck it) :: s.dlog).map Prod.fst) = aids [it] ++ s.dAids := by
      cases hja : jobAid it <;> simp [St.dAids, aids, List.filterMap_cons, hja]
    rw [this]
    generalize aids [it] = A
    generalize pendOf { s.lv p with jobs := rest } = Q
    have h1 : A ++ s.dAids ++ (X ++ (Q ++ Y)) = A ++ ((s.dAids ++ X) ++ (Q ++ Y)) := by simp [List.append_assoc]
    have h2 : s.dAids ++ (X ++ (A ++ Q ++ Y)) = (s.dAids ++ X) ++ (A ++ (Q ++ Y)) := by simp [List.append_assoc]
    rw [h1, h2]
    exact List.perm_append_comm_assoc _ _ _
  refine ⟨?_, ?_, hsorted.1, hsorted.2.1, hsorted.2.2⟩
  · rw [e2']; exact (hperm.nodup_iff).2 hnd
  · rw [e2']; intro a ha
    have := hlt a ((hperm.mem_iff).1 ha)
    simpa using this

end QbVerif.Loop
