/-
Hashtable model vs. dictionary: one operation.  `sim_put`, `sim_rm`, … : from `Inv t` and
`Sim t d`, the states after the operation are again related, the results agree up to the canonical
form `Res.canon .ht`, and — when no iterator is open — so do the notifications, key by key.
-/
import QbVerif.Lemmas.HtSimLive

namespace QbVerif.Hashtable
open QbVerif.Map
set_option linter.unusedSimpArgs false

/-- equality of `trace .ht` items: the callbacks of one operation, per key -/
def traceEq (e e' : List Event) : Prop := ∀ k : Key, e.filter (·.key == k) = e'.filter (·.key == k)

theorem traceEq_of_eq {e e' : List Event} (h : e = e') : traceEq e e' := by intro k; rw [h]

/-- what `sim_step` establishes for one operation -/
structure StepOK (t : HT) (d : Dict) (op : Op) : Prop where
  sim : Sim (t.step op).1 (d.step op).1
  res : (∀ i, op ≠ .iterNext i) → (t.step op).2.res.canon .ht = (d.step op).2.res.canon .ht
  events : t.iters = [] → traceEq (t.step op).2.events (d.step op).2.events

theorem step_eq {t : HT} (h : Inv t) (op : Op) : t.step op =
    match op with
    | .put k v _ => let r := t.put k v; (r.1, ⟨r.2, .ok⟩)
    | .get k => (t, ⟨[], .val (t.get k)⟩)
    | .rm k => let r := t.rm k; (r.1, ⟨r.2.1, .bool r.2.2⟩)
    | .count => (t, ⟨[], .num t.count⟩)
    | .foreach stop _ => t.foreach stop
    | .nadd k events id => let r := t.notifyAdd k events id; (r.1, ⟨[], .rc r.2⟩)
    | .ndel k events id => let r := t.notifyDel k events id; (r.1, ⟨[], .rc r.2⟩)
    | .destroy =>
      if !t.iters.isEmpty then (t, ⟨[], .rc (some .ebusy)⟩) else
      match HT.destroyNodes (t.flat.map (·.id)) t [] with
      | none => ({ t with crashed := true }, ⟨[], .uaf⟩)
      | some (t', evs) =>
        ({ t' with buckets := List.replicate t.buckets.length [], count := 0, globals := [], iters := [] },
         ⟨evs, .ok⟩)
    | .iterNew i _ =>
      if (t.iters.lookup (i + 1)).isSome then (t, ⟨[], .badIter⟩) else (t.iterCreate (i + 1), ⟨[], .ok⟩)
    | .iterNext i =>
      match t.iterNext (i + 1) with
      | none => (t, ⟨[], .badIter⟩)
      | some (t1, evs, r) => (t1, ⟨evs, r⟩)
    | .iterFree i =>
      match t.iterFree (i + 1) with
      | none => (t, ⟨[], .badIter⟩)
      | some (t1, evs, r) => (t1, ⟨evs, r⟩) := by
  unfold HT.step
  rw [if_neg (by rw [h.notCrashed]; simp)]
  cases op <;> rfl

theorem sim_put {t : HT} {d : Dict} (h : Inv t) (s : Sim t d) (k : Key) (v : Val) (l : Nat) :
    StepOK t d (.put k v l) := by
  have hstep := step_eq h (.put k v l)
  simp only at hstep
  have hd : d.step (.put k v l) = match findEntry d.entries k with
      | some e => ({ d with entries := insertEntry { e with val := v } d.entries }, ⟨d.notify e.notifs EV_REPLACED k e.val v, .ok⟩)
      | none => ({ d with entries := insertEntry ⟨k, v, []⟩ d.entries }, ⟨d.notify [] EV_INSERTED k 0 v, .ok⟩) := rfl
  rw [s.find h k] at hd
  cases hl : t.lookup k with
  | none =>
    rw [hl] at hd
    simp only [Option.map_none] at hd
    have hput : t.put k v = (putNew t k v, (putNew t k v).notify ⟨t.nextId, k, v, 1, false, []⟩ EV_INSERTED k 0 v) := by
      rw [put_eq, hl]
    refine ⟨?_, ?_, ?_⟩
    · rw [hstep, hd, hput]
      have hno : ∀ e ∈ d.entries, (!(e.key == k)) = true := by
        intro e he
        have hf := s.find h k
        rw [hl] at hf
        have := List.find?_eq_none.1 hf e he
        simpa using this
      refine ⟨s.fl, ?_, insertEntry_sorted _ s.sorted, s.globals, s.iters⟩
      show (insertEntry ⟨k, v, []⟩ d.entries).Perm _
      refine (insertEntry_perm _ s.sorted).trans ?_
      rw [List.filter_eq_self.2 hno]
      exact (s.entries.cons _).trans ((putNew_live h k v).map absNode).symm
    · intro _; rw [hstep, hd]
    · intro _
      rw [hstep, hd, hput]
      apply traceEq_of_eq
      exact (s.notify ⟨t.nextId, k, v, 1, false, []⟩ EV_INSERTED k 0 v).symm
  | some n =>
    rw [hl] at hd
    simp only [Option.map_some] at hd
    obtain ⟨hn, hr, hk⟩ := h.lookup_some hl
    have hnl : n ∈ live t := List.mem_filter.2 ⟨hn, by simp [hr]⟩
    have hput : t.put k v = (t.mapNode n.id fun x => { x with key := k, val := v },
        (t.mapNode n.id fun x => { x with key := k, val := v }).notify n EV_REPLACED n.key n.val v) := by
      rw [put_eq, hl]
    refine ⟨?_, ?_, ?_⟩
    · rw [hstep, hd, hput]
      have := sim_update h s hnl (fun x => { x with key := k, val := v }) hk.symm
        (t' := t.mapNode n.id fun x => { x with key := k, val := v })
        (live_mapNode n.id _ (fun _ => rfl)) rfl rfl (absNode n) rfl
      have e1 : absNode ((fun x : Node => { x with key := k, val := v }) n) = { absNode n with val := v } := by
        simp [absNode, hk]
      rw [e1] at this
      exact this
    · intro _; rw [hstep, hd]
    · intro _
      rw [hstep, hd, hput]
      apply traceEq_of_eq
      rw [hk]
      exact (s.notify n EV_REPLACED k n.val v).symm

theorem sim_rm {t : HT} {d : Dict} (h : Inv t) (s : Sim t d) (k : Key) : StepOK t d (.rm k) := by
  have hstep := step_eq h (.rm k)
  simp only at hstep
  have hd : d.step (.rm k) = match findEntry d.entries k with
      | some e => ({ d with entries := eraseEntry k d.entries }, ⟨d.notify e.notifs EV_DELETED k e.val 0, .bool true⟩)
      | none => (d, ⟨[], .bool false⟩) := rfl
  rw [s.find h k] at hd
  rw [rm_eq h] at hstep
  cases hl : t.lookup k with
  | none =>
    rw [hl] at hd hstep
    simp only [Option.map_none] at hd hstep
    refine ⟨by rw [hstep, hd]; exact s, by intro _; rw [hstep, hd], by intro _; rw [hstep, hd]; exact traceEq_of_eq rfl⟩
  | some n =>
    rw [hl] at hd hstep
    simp only [Option.map_some] at hd hstep
    obtain ⟨hn, hr, hk⟩ := h.lookup_some hl
    have hnl : n ∈ live t := List.mem_filter.2 ⟨hn, by simp [hr]⟩
    refine ⟨?_, by intro _; rw [hstep, hd], ?_⟩
    · rw [hstep, hd, ← hk]
      exact sim_erase h s hnl (rmResult_live h hn) (rmResult_misc t n).1 (rmResult_misc t n).2
    · intro hi
      rw [hstep, hd]
      apply traceEq_of_eq
      -- no iterator: the node is destroyed at once
      have hrc : n.refcount = 1 := by
        have := h.rc n hn
        rw [hi] at this
        unfold base at this
        simp [hr, parked] at this
        exact this
      show (rmResult t n).2 = _
      unfold rmResult release
      rw [if_neg (show ¬ (setRem n).refcount - 1 > 0 by show ¬ n.refcount - 1 > 0; omega)]
      rw [← hk]
      exact (s.notify n EV_DELETED n.key n.val 0).symm

end QbVerif.Hashtable
