/-
Skiplist, all levels: `skiplist_rm` of a present key on which no iterator is parked.
-/
import QbVerif.Lemmas.SlmRm

namespace QbVerif.Skiplist
open QbVerif.Map
set_option linter.unusedSimpArgs false

theorem delIds_eq_delL {s : SL} {k : Key} : ∀ {x ids es}, Chain s x ids es → delIds k ids es = delL s k ids
  | _, [], [], _ => rfl
  | x, i :: ids, e :: es, h => by
    simp only [delIds, delL, h.2.1.keyLt k]
    split
    · rw [delIds_eq_delL h.2.2]
    · rfl
  | _, [], _ :: _, h => by cases h
  | _, _ :: _, [], h => by cases h

theorem LChain.nil_of_none {s : SL} {l : Nat} {x : NodeId} : ∀ {L : List NodeId}, LChain s l x L → nextL s l x = none → L = []
  | [], _, _ => rfl
  | _ :: _, h, hn => by rw [h.1] at hn; cases hn

theorem rm_hit {s ids es g} (h : Inv s ids es g) (k : Key) {e : Entry} (hf : findEntry es k = some e)
    (hnp : ∀ found e', succOf k ids es = some (found, e') → parked s.iters found = 0) :
    ∃ s' found, s.rm k = .ok (s', dispatch e.notifs g EV_DELETED k e.val 0, true) ∧
      succOf k ids es = some (found, e) ∧ e.key = k ∧
      Erased s s' ids (delIds k ids es) g (predOf k s.header ids es) found := by
  obtain ⟨ch, hL, htop, hlvl⟩ := h.hl
  obtain ⟨u', hs, hu⟩ := search_rm h hL htop k
  obtain rfl : u' = fun l => walkL s k s.header (ch l) := funext hu
  obtain ⟨found, hso, hk, hfi, hfok⟩ := hit_of_find h hf
  have hpm := predOf_mem k s.header ids es
  have hx := h.xok_of_mem hpm
  have hnx := next0_pred k h.chain
  rw [hso] at hnx
  simp only [Option.map_some] at hnx
  have hnn := nodeNext_some hx hnx hfok s.length
  have hfkl : keyLt s k found = false := by rw [hfok.keyLt k, hk]; exact Key.lt_irrefl _
  obtain ⟨flv, frc, ff, fa, _, hflv1, hflv2, hfn, hfa⟩ := hfok
  have hfrc : frc = 1 := by
    have := h.rc found (List.mem_cons_of_mem _ hfi)
    rw [hnp found e hso] at this
    simpa [rcOf, hfn] using this
  subst hfrc
  obtain ⟨hf', ha, hv, hrc, hh1, hh2⟩ := h.hdr
  have hhf : s.header ≠ found := fun he => (List.nodup_cons.1 h.nodup).1 (he ▸ hfi)
  have hffw : fwdOf s found = ff := by simp [fwdOf, hfn]
  have hhfw : fwdOf s s.header = hf' := by simp [fwdOf, hh1]
  have hfne : hf' ≠ ff := by
    intro he
    exact hhf (h.inj s.header (by simp) found (List.mem_cons_of_mem _ hfi) (by rw [hffw, hhfw, he]))
  have hlv1 : 1 ≤ s.lv := by
    cases hlv : s.lv with
    | zero =>
      have := htop 0 (by omega)
      rw [hL.ch0] at this
      rw [this] at hfi; cases hfi
    | succ n => omega
  have hUm : ∀ l, walkL s k s.header (ch l) ∈ s.header :: ids := fun l =>
    ((hL.sub_ids l).cons_cons _).subset (walkL_mem s k s.header (ch l))
  have e1 := spliceLevels_eq found (fun l => walkL s k s.header (ch l)) s.lv 0 s ⟨_, fa, hfn, hfa⟩
    (fun l _ _ => h.xok_of_mem (hUm l))
  generalize hUdef : (fun l => walkL s k s.header (ch l)) = U at *
  have hUl : ∀ l, U l = walkL s k s.header (ch l) := fun l => by rw [← hUdef]
  have hU0 : U 0 = predOf k s.header ids es := by rw [hUl, hL.ch0]; exact (h.chain.walk_eq k).1
  generalize hpd : predOf k s.header ids es = p at *
  -- common facts about the walk ends `U l` and the removed node
  have hpf : p ≠ found := hpd ▸ predOf_ne_succ h.nodup hso
  have hUm' : ∀ l, U l ∈ s.header :: ids := fun l => by rw [hUl]; exact hUm l
  have hUch : ∀ l, U l ∈ s.header :: ch l := fun l => by rw [hUl]; exact walkL_mem s k s.header (ch l)
  have hfU : ∀ l, U l ≠ found := by
    intro l he
    rcases walkL_or s k s.header (ch l) with h1 | h1
    · rw [← hUl, he] at h1; exact hhf h1.symm
    · rw [← hUl, he, hfkl] at h1; cases h1
  have hidsnd : ids.Nodup := (List.nodup_cons.1 h.nodup).2
  have hbefore := h.chain.before_found hidsnd hso
  have hstop : ∀ l, found ∈ ch l → stopL s k (ch l) = some found := fun l hm =>
    stopL_of_mem hm (List.Pairwise.sublist (hL.sub_ids l) hbefore) hfkl
  have hnxU : ∀ l, l < LEVEL_MAX + 1 → nextL s l (U l) = stopL s k (ch l) := fun l hl => by
    rw [hUl]; exact nextL_walk k (hL.chain l hl)
  have hchnd : ∀ l, (s.header :: ch l).Nodup := fun l => List.Nodup.sublist ((hL.sub_ids l).cons_cons _) h.nodup
  have hchm : ∀ l, ∀ j ∈ s.header :: ch l, j ∈ s.header :: ids := fun l j hj => ((hL.sub_ids l).cons_cons _).subset hj
  -- the successor function after the splice loop
  let sp : Nat → NodeId → Option NodeId := fun l x =>
    if l < s.lv ∧ x = U l ∧ nextL s l (U l) = some found then nextL s l found else nextL s l x
  have hspArr : ∀ l, ∀ x ∈ s.header :: ids, ∀ n a, s.nodes x = some n → s.fwds n.fwd = some a →
      spliceArr s found U 0 s.lv n.fwd a l = if l < s.lv ∧ x = U l ∧ nextL s l (U l) = some found then nextL s l found else a l := by
    intro l x hx n a hn hna
    simp only [spliceArr, Nat.zero_le, true_and]
    have hxf : fwdOf s x = n.fwd := by simp [fwdOf, hn]
    by_cases hxu : x = U l
    · subst hxu; simp [hxf]
    · have : n.fwd ≠ fwdOf s (U l) := fun he => hxu (h.inj x hx (U l) (hUm' l) (by rw [hxf, he]))
      simp [this, hxu]
  -- what a description of the final state in terms of `sp` gives
  have build : ∀ (s' : SL) (tk : Bool) (hfw' : FwdId),
      (∀ j, j ≠ found → j ≠ s.header → s'.nodes j = s.nodes j) →
      s'.nodes s.header = some ⟨none, hv, LEVEL_MAX + 1, hrc, hfw', g⟩ → (s'.fwds hfw').isSome = true →
      (hfw' = hf' ∨ hfw' = ff) →
      (∀ l, ∀ x ∈ ids, x ≠ found → nextL s' l x = sp l x) →
      (∀ l, nextL s' l s.header = if tk = true ∧ flv ≤ l then none else sp l s.header) →
      (∀ x ∈ ids, x ≠ found → (s'.fwds (fwdOf s x)).isSome = true) →
      (∀ x ∈ ids, x ≠ found → ∀ a', s'.fwds (fwdOf s x) = some a' → ∀ l, lvOf s x ≤ l → a' l = none) →
      s'.header = s.header → s'.lv ≤ s.lv → (∀ l, s'.lv ≤ l → l < s.lv → nextL s' l s.header = none) →
      s'.length = s.length - 1 → s'.iters = s.iters → s'.nextNode = s.nextNode → s'.nextFwd = s.nextFwd →
      s'.crashed = s.crashed → (tk = true → p = s.header) →
      Erased s s' ids (delIds k ids es) g p found := by
    intro s' tk hfw' hN hH hHa hHf hX hXh hD hD' hhd hlv' htrim hlen hit hnn' hnf' hcr htk
    have hdel : delIds k ids es = ids.filter (fun j => j != found) := by
      rw [delIds_eq_delL h.chain]
      exact delL_eq_filter (by rw [(h.chain.walk_eq k).2, hso]; rfl) hidsnd
    have hpU : p = U 0 := hU0.symm
    have hsp0 : ∀ x, x ≠ p → sp 0 x = nextL s 0 x := by
      intro x hx
      simp only [sp]
      rw [if_neg (fun hc => hx (hpU ▸ hc.2.1))]
    have hspp : sp 0 p = nextL s 0 found := by
      simp only [sp]
      rw [if_pos ⟨by omega, hpU, by rw [← hpU]; exact hnx⟩]
    have hfwh : fwdOf s' s.header = hfw' := by simp [fwdOf, hH]
    have hlvO : ∀ x ∈ ids, x ≠ found → lvOf s' x = lvOf s x := by
      intro x hx hxf
      have hxh : x ≠ s.header := fun he => (List.nodup_cons.1 h.nodup).1 (he ▸ hx)
      simp only [lvOf, hN x hxf hxh]
    have hfwO : ∀ x ∈ ids, x ≠ found → fwdOf s' x = fwdOf s x := by
      intro x hx hxf
      have hxh : x ≠ s.header := fun he => (List.nodup_cons.1 h.nodup).1 (he ▸ hx)
      simp only [fwdOf, hN x hxf hxh]
    have hmemd : ∀ j, j ∈ delIds k ids es ↔ j ∈ ids ∧ j ≠ found := by
      intro j; rw [hdel]; simp [List.mem_filter]
    refine ⟨hhd, ⟨hfw', ?_, hv, hrc, hH, ?_⟩, by simp [rcOf, hH, hh1], ?_, ?_, ?_, ?_, hnn', hnf', hlen, hit, hcr,
      by have := h.lv; omega, ?_, ?_⟩
    · exact (Option.isSome_iff_exists.1 hHa).choose
    · exact (Option.isSome_iff_exists.1 hHa).choose_spec
    · -- pred
      show nextL s' 0 p = nextL s 0 found
      rcases List.mem_cons.1 hpm with hp | hp
      · rw [hp, hXh 0]
        have : ¬(tk = true ∧ flv ≤ 0) := by omega
        rw [if_neg this, ← hp, hspp]
      · rw [hX 0 p hp hpf, hspp]
    · -- others
      intro j hj hjp hjf
      show nextL s' 0 j = nextL s 0 j
      rcases List.mem_cons.1 hj with hjh | hji
      · rw [hjh, hXh 0]
        have : ¬(tk = true ∧ flv ≤ 0) := by omega
        rw [if_neg this, ← hjh, hsp0 j hjp]
      · rw [hX 0 j hji hjf, hsp0 j hjp]
    · intro j hj hjf
      have hjh : j ≠ s.header := fun he => (List.nodup_cons.1 h.nodup).1 (he ▸ hj)
      exact ⟨hN j hjf hjh, hD j hj hjf⟩
    · rcases hHf with he | he
      · left; rw [hfwh, he, hhfw]
      · right; rw [hfwh, he, hffw]
    · -- above
      intro i hi a hia l hl
      obtain ⟨hi1, hi2⟩ := (hmemd i).1 hi
      rw [hfwO i hi1 hi2] at hia
      rw [hlvO i hi1 hi2] at hl
      exact hD' i hi1 hi2 a hia l hl
    · -- the higher levels
      have hspx : ∀ l, l < LEVEL_MAX + 1 → ∀ j ∈ s.header :: ch l, j ≠ U l → sp l j = nextL s l j := by
        intro l _ j _ hju
        simp only [sp]
        rw [if_neg (fun hc => hju hc.2.1)]
      have hnx' : ∀ l, ∀ j ∈ s.header :: ids, j ≠ found → ¬(tk = true ∧ flv ≤ l) → nextL s' l j = sp l j := by
        intro l j hj hjf htl
        rcases List.mem_cons.1 hj with hjh | hji
        · rw [hjh, hXh l, if_neg htl]
        · exact hX l j hji hjf
      refine ⟨fun l => if tk = true ∧ flv ≤ l then [] else (ch l).filter (fun j => j != found), ⟨?_, ?_, ?_⟩, ?_, ?_⟩
      · have : ¬(tk = true ∧ flv ≤ 0) := by omega
        simp only [this, if_false, hL.ch0]
        exact hdel.symm
      · intro l hl9
        rw [hhd]
        by_cases htl : tk = true ∧ flv ≤ l
        · simp only [htl, and_self, if_true]
          show nextL s' l s.header = none
          rw [hXh l, if_pos htl]
        · simp only [htl, if_false]
          by_cases hm : found ∈ ch l
          · have hst := hstop l hm
            rw [← delL_eq_filter hst (List.nodup_cons.1 (hchnd l)).2]
            have hlt : l < s.lv := by
              cases Nat.lt_or_ge l s.lv with
              | inl h1 => exact h1
              | inr h1 => rw [htop l h1] at hm; cases hm
            refine lchain_erase (hL.chain l hl9) hst (hchnd l) ?_ ?_
            · rw [← hUl]
              have hUf : U l ≠ found := hfU l
              rw [hnx' l (U l) (hUm' l) hUf htl]
              simp only [sp]
              rw [if_pos ⟨hlt, by simp, by rw [hnxU l hl9, hst]⟩]
            · intro j hj hjw hjf
              rw [← hUl] at hjw
              rw [hnx' l j (hchm l j hj) hjf htl, hspx l hl9 j hj hjw]
          · have hfl : (ch l).filter (fun j => j != found) = ch l := by
              apply List.filter_eq_self.2
              intro j hj
              have : j ≠ found := fun he => hm (he ▸ hj)
              simpa using this
            rw [hfl]
            refine LChain.congr (hL.chain l hl9) ?_
            intro j hj
            have hjf : j ≠ found := by
              intro he
              rcases List.mem_cons.1 hj with h1 | h1
              · exact hhf (he ▸ h1).symm
              · exact hm (he ▸ h1)
            rw [hnx' l j (hchm l j hj) hjf htl]
            simp only [sp]
            rw [if_neg]
            intro hc
            have := hnxU l hl9
            rw [hc.2.2] at this
            exact hm (stopL_mem this.symm).1
      · intro l
        by_cases h1 : tk = true ∧ flv ≤ l + 1
        · simp only [h1, and_self, if_true]; exact List.nil_sublist _
        · have h2 : ¬(tk = true ∧ flv ≤ l) := fun hc => h1 ⟨hc.1, by omega⟩
          simp only [h1, h2, if_false]
          exact (hL.sub l).filter _
      · intro l hl
        by_cases h1 : tk = true ∧ flv ≤ l
        · simp only [h1, and_self, if_true]
        · simp only [h1, if_false]
          by_cases h2 : s.lv ≤ l
          · rw [htop l h2]; rfl
          · have hl9 : l < LEVEL_MAX + 1 := by have := h.lv; omega
            have hnone := htrim l hl (by omega)
            -- the chain of this level starts with NULL
            have hc : LChain s' l s.header ((ch l).filter (fun j => j != found)) := by
              by_cases hm : found ∈ ch l
              · have hst := hstop l hm
                rw [← delL_eq_filter hst (List.nodup_cons.1 (hchnd l)).2]
                refine lchain_erase (hL.chain l hl9) hst (hchnd l) ?_ ?_
                · rw [← hUl]
                  rw [hnx' l (U l) (hUm' l) (hfU l) h1]
                  simp only [sp]
                  rw [if_pos ⟨by omega, by simp, by rw [hnxU l hl9, hst]⟩]
                · intro j hj hjw hjf
                  rw [← hUl] at hjw
                  rw [hnx' l j (hchm l j hj) hjf h1, hspx l hl9 j hj hjw]
              · have hfl : (ch l).filter (fun j => j != found) = ch l := by
                  apply List.filter_eq_self.2
                  intro j hj
                  have : j ≠ found := fun he => hm (he ▸ hj)
                  simpa using this
                rw [hfl]
                refine LChain.congr (hL.chain l hl9) ?_
                intro j hj
                have hjf : j ≠ found := by
                  intro he
                  rcases List.mem_cons.1 hj with h3 | h3
                  · exact hhf (he ▸ h3).symm
                  · exact hm (he ▸ h3)
                rw [hnx' l j (hchm l j hj) hjf h1]
                simp only [sp]
                rw [if_neg]
                intro hc
                have := hnxU l hl9
                rw [hc.2.2] at this
                exact hm (stopL_mem this.symm).1
            exact hc.nil_of_none hnone
      · intro l i hi
        by_cases h1 : tk = true ∧ flv ≤ l
        · simp only [h1, and_self, if_true] at hi; cases hi
        · simp only [h1, if_false] at hi
          obtain ⟨hi1, hi2⟩ := List.mem_filter.1 hi
          have hi3 : i ≠ found := by simpa using hi2
          have hi4 : i ∈ ids := (hL.sub_ids l).subset hi1
          rw [hlvO i hi4 hi3]
          exact hlvl l i hi1
  simp only [Nat.zero_add] at e1
  have hlv0 : s.lv ≠ 0 := by omega
  rcases List.mem_cons.1 hpm with hph | hpi
  · -- takeover-and-repoint behind the header
    subst hph
    let s1 : SL := { s with fwds := fun f => (s.fwds f).map (spliceArr s found U 0 s.lv f) }
    let copyArr : Nat → Option NodeId := fun l =>
      if 0 ≤ l ∧ l < 0 + flv then spliceArr s found U 0 s.lv hf' ha l else spliceArr s found U 0 s.lv ff fa l
    have e2 : SL.copyLevels found s.header flv 0 s1 = .ok { s1 with fwds := upd s1.fwds ff (some copyArr) } :=
      copyLevels_eq found s.header (fn := ⟨some e.key, e.val, flv, 1, ff, e.notifs⟩)
        (cn := ⟨none, hv, LEVEL_MAX + 1, hrc, hf', g⟩) flv 0 s1 hfn (by simp [s1, hfa]) hh1 (by simp [s1, hh2]) hfne
    simp only [s1] at e2
    have hrm : ∃ s', s.rm k = .ok (s', dispatch e.notifs g EV_DELETED k e.val 0, true) ∧
        s'.nodes = upd (upd s.nodes s.header (some ⟨none, hv, LEVEL_MAX + 1, hrc, ff, g⟩)) found none ∧
        s'.fwds = upd (upd (fun f => (s.fwds f).map (spliceArr s found U 0 s.lv f)) ff (some copyArr)) hf' none ∧
        s'.header = s.header ∧ s'.lv = trimLv copyArr s.lv ∧ s'.length = s.length - 1 ∧
        s'.iters = s.iters ∧ s'.nextNode = s.nextNode ∧ s'.nextFwd = s.nextFwd ∧ s'.crashed = s.crashed := by
      cases hr : s.rm k with
      | error err =>
        simp [SL.rm, hs, hnn, SL.fuel, bind, Except.bind, SL.node, hfn, hk, e1, SL.takeover, e2, SL.nodeDeref, SL.setNode,
          SL.nodeDestroy, SL.notify, SL.nodeFree, SL.freeFwd, upd, hhf, hhf.symm, hh1, hh2, hfa, hflv1, hfne, hfne.symm, hlv0] at hr
        rw [trimLevels_eq (hn := ⟨none, hv, LEVEL_MAX + 1, hrc, ff, g⟩) (ha := copyArr)] at hr
        · cases hr
        · rfl
        · simp [upd, hhf]
        · simp [upd, hfne.symm]
      | ok r =>
        simp [SL.rm, hs, hnn, SL.fuel, bind, Except.bind, SL.node, hfn, hk, e1, SL.takeover, e2, SL.nodeDeref, SL.setNode,
          SL.nodeDestroy, SL.notify, SL.nodeFree, SL.freeFwd, upd, hhf, hhf.symm, hh1, hh2, hfa, hflv1, hfne, hfne.symm, hlv0] at hr
        rw [trimLevels_eq (hn := ⟨none, hv, LEVEL_MAX + 1, hrc, ff, g⟩) (ha := copyArr)] at hr
        · cases hr
          refine ⟨_, rfl, ?_, rfl, rfl, rfl, rfl, rfl, rfl, rfl, rfl⟩
          funext x
          simp only [upd]
          by_cases hxf : x = found
          · simp [hxf]
          · by_cases hxh : x = s.header
            · simp [hxh, hhf]
            · simp [hxf, hxh]
        · rfl
        · simp [upd, hhf]
        · simp [upd, hfne.symm]
    obtain ⟨s', hrm1, hn', hf2, hhd, hlv', hlen, hit, hnn', hnf', hcr⟩ := hrm
    refine ⟨s', found, hrm1, hso, hk, ?_⟩
    have hsurv : ∀ x ∈ ids, x ≠ found → ∀ n a, s.nodes x = some n → s.fwds n.fwd = some a →
        s'.nodes x = some n ∧ s'.fwds n.fwd = some (spliceArr s found U 0 s.lv n.fwd a) := by
      intro x hx hxf n a hn hna
      have hx' : x ∈ s.header :: ids := List.mem_cons_of_mem _ hx
      have hxh : x ≠ s.header := fun he => (List.nodup_cons.1 h.nodup).1 (he ▸ hx)
      have hnf : n.fwd ≠ ff := by
        intro he
        exact hxf (h.inj x hx' found (List.mem_cons_of_mem _ hfi) (by rw [hffw]; simp [fwdOf, hn, he]))
      have hnh : n.fwd ≠ hf' := by
        intro he
        exact hxh (h.inj x hx' s.header (by simp) (by rw [hhfw]; simp [fwdOf, hn, he]))
      exact ⟨by rw [hn']; simp [upd, hxf, hxh, hn], by rw [hf2]; simp [upd, hnf, hnh, hna]⟩
    have hnxs : ∀ l, ∀ x ∈ ids, x ≠ found → nextL s' l x = sp l x := by
      intro l x hx hxf
      have hx' : x ∈ s.header :: ids := List.mem_cons_of_mem _ hx
      obtain ⟨n, a, hn, hna⟩ := h.xok_of_mem hx'
      obtain ⟨h1, h2⟩ := hsurv x hx hxf n a hn hna
      rw [nextL_of h1 h2, hspArr l x hx' n a hn hna]
      simp only [sp, nextL_of hn hna]
    have habv : ∀ x ∈ ids, x ≠ found → ∀ a', s'.fwds (fwdOf s x) = some a' → ∀ l, lvOf s x ≤ l → a' l = none := by
      intro x hx hxf a' ha' l hl
      have hx' : x ∈ s.header :: ids := List.mem_cons_of_mem _ hx
      obtain ⟨n, a, hn, hna⟩ := h.xok_of_mem hx'
      obtain ⟨_, h2⟩ := hsurv x hx hxf n a hn hna
      have hfx : fwdOf s x = n.fwd := by simp [fwdOf, hn]
      rw [hfx, h2] at ha'
      cases ha'
      rw [hspArr l x hx' n a hn hna]
      have hab := h.above x hx a (by rw [hfx]; exact hna) l hl
      rw [if_neg, hab]
      intro hc
      have hxu := hUch l
      rw [← hc.2.1] at hxu
      rcases List.mem_cons.1 hxu with h3 | h3
      · exact (List.nodup_cons.1 h.nodup).1 (h3 ▸ hx)
      · have := hlvl l x h3; omega
    have hHn : s'.nodes s.header = some ⟨none, hv, LEVEL_MAX + 1, hrc, ff, g⟩ := by rw [hn']; simp [upd, hhf]
    have hHa : s'.fwds ff = some copyArr := by rw [hf2]; simp [upd, hfne.symm]
    have hcopy : ∀ l, copyArr l = if flv ≤ l then none else sp l s.header := by
      intro l
      simp only [copyArr, Nat.zero_le, true_and, Nat.zero_add]
      by_cases hl : l < flv
      · rw [if_pos hl, if_neg (by omega), hspArr l s.header (by simp) _ ha hh1 hh2]
        simp only [sp, nextL_of hh1 hh2]
      · rw [if_neg hl, if_pos (by omega)]
        have hab := h.above found hfi fa (by rw [hffw]; exact hfa) l (by simp [lvOf, hfn]; omega)
        simp only [spliceArr]
        rw [if_neg, hab]
        intro hc
        have : found = U l := h.inj found (List.mem_cons_of_mem _ hfi) (U l) (hUm' l) (by rw [hffw]; exact hc.2.2.1)
        exact hfU l this.symm
    refine build s' true ff ?_ hHn (by rw [hHa]; rfl) (Or.inr rfl) hnxs ?_ ?_ habv
      hhd (by rw [hlv']; exact trimLv_le _ _) ?_ hlen hit hnn' hnf' hcr (fun _ => rfl)
    · intro j hjf hjh
      rw [hn']; simp [upd, hjf, hjh]
    · intro l
      rw [nextL_of hHn hHa, hcopy l]
      simp
    · intro x hx hxf
      have hx' : x ∈ s.header :: ids := List.mem_cons_of_mem _ hx
      obtain ⟨n, a, hn, hna⟩ := h.xok_of_mem hx'
      obtain ⟨_, h2⟩ := hsurv x hx hxf n a hn hna
      have hfx : fwdOf s x = n.fwd := by simp [fwdOf, hn]
      rw [hfx, h2]; rfl
    · intro l hl1 hl2
      rw [hlv'] at hl1
      rw [nextL_of hHn hHa]
      exact trimLv_none _ _ l hl1 hl2
  · -- plain removal behind an entry node
    obtain ⟨ep, _, ⟨plv, prc, pf, pa, _, _, _, hpn, hpa⟩⟩ := h.chain.key_of_mem hpi
    have hrm : ∃ s', s.rm k = .ok (s', dispatch e.notifs g EV_DELETED k e.val 0, true) ∧
        s'.nodes = upd s.nodes found none ∧
        s'.fwds = upd (fun f => (s.fwds f).map (spliceArr s found U 0 s.lv f)) ff none ∧
        s'.header = s.header ∧ s'.lv = trimLv (spliceArr s found U 0 s.lv hf' ha) s.lv ∧ s'.length = s.length - 1 ∧
        s'.iters = s.iters ∧ s'.nextNode = s.nextNode ∧ s'.nextFwd = s.nextFwd ∧ s'.crashed = s.crashed := by
      cases hr : s.rm k with
      | error err =>
        simp [SL.rm, hs, hnn, SL.fuel, bind, Except.bind, SL.node, hfn, hk, e1, hpn, SL.nodeDeref, SL.setNode,
          SL.nodeDestroy, SL.notify, SL.nodeFree, SL.freeFwd, upd, hhf, hhf.symm, hh1, hfa, hflv1] at hr
        rw [trimLevels_eq (hn := ⟨none, hv, LEVEL_MAX + 1, hrc, hf', g⟩) (ha := spliceArr s found U 0 s.lv hf' ha)] at hr
        · cases hr
        · rfl
        · simp [upd, hhf, hh1]
        · simp [upd, hfne, hh2]
      | ok r =>
        simp [SL.rm, hs, hnn, SL.fuel, bind, Except.bind, SL.node, hfn, hk, e1, hpn, SL.nodeDeref, SL.setNode,
          SL.nodeDestroy, SL.notify, SL.nodeFree, SL.freeFwd, upd, hhf, hhf.symm, hh1, hfa, hflv1] at hr
        rw [trimLevels_eq (hn := ⟨none, hv, LEVEL_MAX + 1, hrc, hf', g⟩) (ha := spliceArr s found U 0 s.lv hf' ha)] at hr
        · cases hr
          refine ⟨_, rfl, ?_, rfl, rfl, rfl, rfl, rfl, rfl, rfl, rfl⟩
          funext x
          simp only [upd]
          split <;> rfl
        · rfl
        · simp [upd, hhf, hh1]
        · simp [upd, hfne, hh2]
    obtain ⟨s', hrm1, hn', hf2, hhd, hlv', hlen, hit, hnn', hnf', hcr⟩ := hrm
    refine ⟨s', found, hrm1, hso, hk, ?_⟩
    -- survivors keep their node; their array is the spliced one
    have hsurv : ∀ x ∈ s.header :: ids, x ≠ found → ∀ n a, s.nodes x = some n → s.fwds n.fwd = some a →
        s'.nodes x = some n ∧ s'.fwds n.fwd = some (spliceArr s found U 0 s.lv n.fwd a) := by
      intro x hx hxf n a hn hna
      have hnf : n.fwd ≠ ff := by
        intro he
        exact hxf (h.inj x hx found (List.mem_cons_of_mem _ hfi) (by rw [hffw]; simp [fwdOf, hn, he]))
      exact ⟨by rw [hn']; simp [upd, hxf, hn], by rw [hf2]; simp [upd, hnf, hna]⟩
    have hnxs : ∀ l, ∀ x ∈ s.header :: ids, x ≠ found → nextL s' l x = sp l x := by
      intro l x hx hxf
      obtain ⟨n, a, hn, hna⟩ := h.xok_of_mem hx
      obtain ⟨h1, h2⟩ := hsurv x hx hxf n a hn hna
      rw [nextL_of h1 h2, hspArr l x hx n a hn hna]
      simp only [sp, nextL_of hn hna]
    have habv : ∀ x ∈ ids, x ≠ found → ∀ a', s'.fwds (fwdOf s x) = some a' → ∀ l, lvOf s x ≤ l → a' l = none := by
      intro x hx hxf a' ha' l hl
      have hx' : x ∈ s.header :: ids := List.mem_cons_of_mem _ hx
      obtain ⟨n, a, hn, hna⟩ := h.xok_of_mem hx'
      obtain ⟨_, h2⟩ := hsurv x hx' hxf n a hn hna
      have hfx : fwdOf s x = n.fwd := by simp [fwdOf, hn]
      rw [hfx, h2] at ha'
      cases ha'
      rw [hspArr l x hx' n a hn hna]
      have hab := h.above x hx a (by rw [hfx]; exact hna) l hl
      rw [if_neg, hab]
      intro hc
      have hxu := hUch l
      rw [← hc.2.1] at hxu
      rcases List.mem_cons.1 hxu with h3 | h3
      · exact (List.nodup_cons.1 h.nodup).1 (h3 ▸ hx)
      · have := hlvl l x h3; omega
    refine build s' false hf' ?_ ?_ ?_ (Or.inl rfl) (fun l x hx hxf => hnxs l x (List.mem_cons_of_mem _ hx) hxf) ?_ ?_ habv
      hhd (by rw [hlv']; exact trimLv_le _ _) ?_ hlen hit hnn' hnf' hcr (fun h => by cases h)
    · intro j hjf _
      rw [hn']; simp [upd, hjf]
    · rw [hn']; simp [upd, hhf, hh1]
    · rw [hf2]; simp [upd, hfne, hh2]
    · intro l
      simp only [Bool.false_eq_true, false_and, if_false]
      exact hnxs l s.header (by simp) hhf
    · intro x hx hxf
      have hx' : x ∈ s.header :: ids := List.mem_cons_of_mem _ hx
      obtain ⟨n, a, hn, hna⟩ := h.xok_of_mem hx'
      obtain ⟨_, h2⟩ := hsurv x hx' hxf n a hn hna
      have hfx : fwdOf s x = n.fwd := by simp [fwdOf, hn]
      rw [hfx, h2]; rfl
    · intro l hl1 hl2
      rw [hlv'] at hl1
      have := trimLv_none _ _ l hl1 hl2
      obtain ⟨h1, h2⟩ := hsurv s.header (by simp) hhf _ ha hh1 hh2
      rw [nextL_of h1 h2]
      exact this

end QbVerif.Skiplist
