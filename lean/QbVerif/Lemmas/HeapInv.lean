/-
Helper lemmas for C09: the array min-heap of Model/Heap.lean (include/tlist.h).
Heap order, back-pointers and contents (as a multiset) under `entrySet`, `siftUp`, `siftDown`,
`heapDelete`, `Heap.add`, `expireLoop`.  Core Lean only.
-/
import QbVerif.Model.Heap

set_option linter.unusedSimpArgs false

namespace QbVerif.Heap

/-! ### elementary facts about `get`, `entrySet`, `cmp` -/

theorem get_eq_getElem (a : Arr) (i : Nat) (h : i < a.size) : get a i = a[i] := by
  simp [get, Array.getElem?_eq_getElem h]

theorem get_entrySet_eq (a : Arr) (i : Nat) (e : Entry) (h : i < a.size) :
    get (entrySet a i e) i = { e with pos := i } := by
  simp [get, entrySet, h]

theorem get_entrySet_ne (a : Arr) (i j : Nat) (e : Entry) (h : j ≠ i) :
    get (entrySet a i e) j = get a j := by
  simp [get, entrySet, Ne.symm h]

theorem get_entrySet (a : Arr) (i j : Nat) (e : Entry) (h : i < a.size) :
    get (entrySet a i e) j = if j = i then { e with pos := i } else get a j := by
  by_cases hj : j = i
  · subst hj; simp [get_entrySet_eq _ _ _ h]
  · simp [hj, get_entrySet_ne _ _ _ _ hj]

theorem get_pop (a : Arr) (i : Nat) (h : i < a.size - 1) : get a.pop i = get a i := by
  unfold get; rw [Array.getElem?_pop]; simp [h]

theorem get_push_lt (a : Arr) (e : Entry) (i : Nat) (h : i < a.size) : get (a.push e) i = get a i := by
  have : i ≠ a.size := by omega
  unfold get; rw [Array.getElem?_push]; simp [this]

theorem get_push_eq (a : Arr) (e : Entry) : get (a.push e) a.size = e := by
  simp [get, Array.getElem?_push]

theorem cmp_lt_zero (x y : Entry) : cmp x y < 0 ↔ x.key < y.key := by
  unfold cmp
  split
  · omega
  · split <;> omega

theorem cmp_gt_zero (x y : Entry) : cmp x y > 0 ↔ x.key > y.key := by
  unfold cmp
  split
  · omega
  · split <;> omega

/-- the key stored at index `i` -/
def keyAt (a : Arr) (i : Nat) : Nat := (get a i).key

/-- effect of one swap (two `entrySet`s) on the keys -/
theorem keyAt_swap (a : Arr) (i p j : Nat) (hi : i < a.size) (hp : p < a.size) :
    keyAt (entrySet (entrySet a p (get a i)) i (get a p)) j
      = if j = i then keyAt a p else if j = p then keyAt a i else keyAt a j := by
  unfold keyAt
  rw [get_entrySet _ _ _ _ (by simpa [size_entrySet] using hi)]
  by_cases h1 : j = i
  · simp [h1]
  · simp only [h1, if_false]
    rw [get_entrySet _ _ _ _ hp]
    by_cases h2 : j = p <;> simp [h2]

/-! ### the invariants -/

/-- heap property, as `timerlist_debug_is_valid_heap` checks it (parent ≤ child) -/
def Ord (a : Arr) : Prop := ∀ j, 0 < j → j < a.size → keyAt a (parent j) ≤ keyAt a j

/-- every timer's `heap_pos` is its index -/
def BackOk (a : Arr) : Prop := ∀ j, j < a.size → (get a j).pos = j

/-- heap order everywhere except possibly between `i` and its parent; the children of `i`
    respect `i`'s parent (state of the array inside `sift_up`) -/
def UpInv (a : Arr) (i : Nat) : Prop :=
  (∀ j, 0 < j → j < a.size → j ≠ i → keyAt a (parent j) ≤ keyAt a j) ∧
  (∀ j, 0 < j → j < a.size → parent j = i → 0 < i → keyAt a (parent i) ≤ keyAt a j)

/-- heap order everywhere except possibly between `i` and its children; the children of `i`
    respect `i`'s parent (state of the array inside `sift_down`) -/
def DownInv (a : Arr) (i : Nat) : Prop :=
  (∀ j, 0 < j → j < a.size → parent j ≠ i → keyAt a (parent j) ≤ keyAt a j) ∧
  (∀ j, 0 < j → j < a.size → parent j = i → 0 < i → keyAt a (parent i) ≤ keyAt a j)

theorem Ord.upInv {a : Arr} (h : Ord a) (i : Nat) : UpInv a i := by
  refine ⟨fun j h0 hs _ => h j h0 hs, fun j h0 hs hp hi => ?_⟩
  have h1 := h j h0 hs
  have h2 := h i hi (by unfold parent at hp; omega)
  rw [hp] at h1; omega

theorem Ord.downInv {a : Arr} (h : Ord a) (i : Nat) : DownInv a i := by
  refine ⟨fun j h0 hs _ => h j h0 hs, fun j h0 hs hp hi => ?_⟩
  have h1 := h j h0 hs
  have h2 := h i hi (by unfold parent at hp; omega)
  rw [hp] at h1; omega

/-! ### `siftUp` -/

theorem size_siftUp (a : Arr) (i : Nat) : (siftUp a i).size = a.size := by
  induction i using Nat.strongRecOn generalizing a with
  | _ i ih =>
    rw [siftUp]
    split
    · rename_i hi
      simp only
      split
      · rw [ih (parent i) (by unfold parent; omega)]; simp [size_entrySet]
      · rfl
    · rfl

theorem backOk_entrySet {a : Arr} (h : BackOk a) (i : Nat) (e : Entry) : BackOk (entrySet a i e) := by
  intro j hj
  rw [size_entrySet] at hj
  by_cases hji : j = i
  · subst hji; rw [get_entrySet_eq _ _ _ hj]
  · rw [get_entrySet_ne _ _ _ _ hji]; exact h j hj

theorem backOk_siftUp {a : Arr} (h : BackOk a) (i : Nat) : BackOk (siftUp a i) := by
  induction i using Nat.strongRecOn generalizing a with
  | _ i ih =>
    rw [siftUp]
    split
    · simp only
      split
      · exact ih (parent i) (by unfold parent; omega) (backOk_entrySet (backOk_entrySet h _ _) _ _)
      · exact h
    · exact h

theorem ord_siftUp {a : Arr} (i : Nat) (hi : i < a.size) (h : UpInv a i) : Ord (siftUp a i) := by
  induction i using Nat.strongRecOn generalizing a with
  | _ i ih =>
    rw [siftUp]
    split
    · rename_i hpos
      simp only
      split
      · rename_i hc
        -- swap with the parent and continue there
        have hp : parent i < a.size := by unfold parent; omega
        have hpi : parent i < i := by unfold parent; omega
        have hck : keyAt a (parent i) > keyAt a i := (cmp_gt_zero _ _).1 hc
        apply ih (parent i) hpi
        · simpa [size_entrySet] using hp
        · obtain ⟨h1, h2⟩ := h
          constructor
          · intro j hj0 hjs hjp
            simp only [size_entrySet] at hjs
            rw [keyAt_swap a i (parent i) _ hi hp, keyAt_swap a i (parent i) _ hi hp]
            by_cases hji : j = i
            · subst hji
              have : parent j ≠ j := by omega
              simp [this]; omega
            · have hpj : parent j < j := by unfold parent; omega
              simp only [hji, hjp, if_false]
              by_cases hpji : parent j = i
              · simp only [hpji, if_true]
                have := h2 j hj0 hjs hpji hpos
                omega
              · by_cases hpjp : parent j = parent i
                · simp only [hpjp, hpji, if_false, if_true]
                  have hne : parent i ≠ i := by omega
                  simp only [hne, if_false]
                  have := h1 j hj0 hjs hji
                  rw [hpjp] at this; omega
                · simp only [hpji, hpjp, if_false]
                  exact h1 j hj0 hjs hji
          · intro j hj0 hjs hjp hp0
            simp only [size_entrySet] at hjs
            rw [keyAt_swap a i (parent i) _ hi hp, keyAt_swap a i (parent i) _ hi hp]
            have hpp : parent (parent i) < parent i := by unfold parent; unfold parent at hp0; omega
            have e1 : parent (parent i) ≠ i := by omega
            have e2 : parent (parent i) ≠ parent i := by omega
            simp only [e1, e2, if_false]
            have hgp := h1 (parent i) hp0 hp (by omega)
            by_cases hji : j = i
            · simp only [hji, if_true]; omega
            · have hjne : j ≠ parent i := by unfold parent at hjp ⊢; omega
              simp only [hji, hjne, if_false]
              have := h1 j hj0 hjs hji
              rw [hjp] at this; omega
      · rename_i hc
        have hck : ¬ keyAt a (parent i) > keyAt a i := fun hgt => hc ((cmp_gt_zero _ _).2 hgt)
        intro j hj0 hjs
        by_cases hji : j = i
        · subst hji; omega
        · exact h.1 j hj0 hjs hji
    · rename_i hpos
      intro j hj0 hjs
      exact h.1 j hj0 hjs (by omega)

/-! ### `siftDown` -/

theorem size_siftDown (a : Arr) (i : Nat) : (siftDown a i).size = a.size := by
  induction hn : a.size - i using Nat.strongRecOn generalizing a i with
  | _ n ih =>
    rw [siftDown]
    simp only
    split
    · rfl
    · rename_i hs
      have hc := smallest_cases a i
      rw [ih (a.size - smallest a i) (by omega) _ _ (by simp [size_entrySet])]
      simp [size_entrySet]

theorem backOk_siftDown {a : Arr} (h : BackOk a) (i : Nat) : BackOk (siftDown a i) := by
  induction hn : a.size - i using Nat.strongRecOn generalizing a i with
  | _ n ih =>
    rw [siftDown]
    simp only
    split
    · exact h
    · rename_i hs
      have hc := smallest_cases a i
      exact ih (a.size - smallest a i) (by omega) (backOk_entrySet (backOk_entrySet h _ _) _ _) _
        (by simp [size_entrySet])

/-- what the two comparisons of one `sift_down` round establish -/
theorem smallest_spec (a : Arr) (i : Nat) :
    (smallest a i = i ∧ (left i < a.size → keyAt a i ≤ keyAt a (left i)) ∧
        (right i < a.size → keyAt a i ≤ keyAt a (right i))) ∨
    (smallest a i = left i ∧ left i < a.size ∧ keyAt a (left i) < keyAt a i ∧
        (right i < a.size → keyAt a (left i) ≤ keyAt a (right i))) ∨
    (smallest a i = right i ∧ right i < a.size ∧ keyAt a (right i) < keyAt a i ∧
        keyAt a (right i) ≤ keyAt a (left i)) := by
  unfold smallest smallest1
  simp only [cmp_lt_zero]
  unfold keyAt
  have hlr : left i < right i := by unfold left right; omega
  by_cases h1 : left i < a.size ∧ (get a (left i)).key < (get a i).key
  · rw [if_pos h1]
    by_cases h2 : right i < a.size ∧ (get a (right i)).key < (get a (left i)).key
    · rw [if_pos h2]
      right; right
      exact ⟨rfl, h2.1, by omega, by omega⟩
    · rw [if_neg h2]
      right; left
      refine ⟨rfl, h1.1, h1.2, fun hr => ?_⟩
      have : ¬ (get a (right i)).key < (get a (left i)).key := fun hlt => h2 ⟨hr, hlt⟩
      omega
  · rw [if_neg h1]
    by_cases h2 : right i < a.size ∧ (get a (right i)).key < (get a i).key
    · rw [if_pos h2]
      right; right
      have hl : left i < a.size := by omega
      have : ¬ (get a (left i)).key < (get a i).key := fun hlt => h1 ⟨hl, hlt⟩
      exact ⟨rfl, h2.1, h2.2, by omega⟩
    · rw [if_neg h2]
      left
      refine ⟨rfl, fun hl => ?_, fun hr => ?_⟩
      · have : ¬ (get a (left i)).key < (get a i).key := fun hlt => h1 ⟨hl, hlt⟩
        omega
      · have : ¬ (get a (right i)).key < (get a i).key := fun hlt => h2 ⟨hr, hlt⟩
        omega

theorem parent_eq_iff (j i : Nat) (hj : 0 < j) : parent j = i ↔ (j = left i ∨ j = right i) := by
  unfold parent left right; omega

theorem ord_siftDown {a : Arr} (i : Nat) (hi : i < a.size) (h : DownInv a i) : Ord (siftDown a i) := by
  induction hn : a.size - i using Nat.strongRecOn generalizing a i with
  | _ n ih =>
    rw [siftDown]
    simp only
    obtain ⟨h1, h2⟩ := h
    split
    · rename_i hs
      -- item is smallest: heap order restored
      intro j hj0 hjs
      by_cases hpj : parent j = i
      · rcases smallest_spec a i with ⟨_, hl, hr⟩ | ⟨he, hlt, _, _⟩ | ⟨he, hlt, _, _⟩
        · rw [hpj]
          rcases (parent_eq_iff j i hj0).1 hpj with hjl | hjr
          · subst hjl; exact hl hjs
          · subst hjr; exact hr hjs
        · exfalso; rw [he] at hs; unfold left at hs; omega
        · exfalso; rw [he] at hs; unfold right at hs; omega
      · exact h1 j hj0 hjs hpj
    · rename_i hs
      have hc := smallest_cases a i
      have hslt : i < smallest a i := by omega
      have hss : smallest a i < a.size := by omega
      -- facts about the chosen child s: it is a child of i, smaller than i, ≤ its sibling
      have hfacts : parent (smallest a i) = i ∧ keyAt a (smallest a i) < keyAt a i ∧
          (∀ j, 0 < j → j < a.size → parent j = i → keyAt a (smallest a i) ≤ keyAt a j) := by
        rcases smallest_spec a i with ⟨he, _, _⟩ | ⟨he, hlt, hk, hr⟩ | ⟨he, hlt, hk, hl⟩
        · exact absurd he hs
        · rw [he]
          refine ⟨by unfold parent left; omega, hk, fun j hj0 hjs hpj => ?_⟩
          rcases (parent_eq_iff j i hj0).1 hpj with hjl | hjr
          · subst hjl; omega
          · subst hjr; exact hr hjs
        · rw [he]
          refine ⟨by unfold parent right; omega, hk, fun j hj0 hjs hpj => ?_⟩
          rcases (parent_eq_iff j i hj0).1 hpj with hjl | hjr
          · subst hjl; exact hl
          · subst hjr; omega
      obtain ⟨hps, hks, hsib⟩ := hfacts
      generalize hsdef : smallest a i = s at *
      apply ih (a.size - s) (by omega) s
      · simpa [size_entrySet] using hss
      · constructor
        · intro j hj0 hjs hpj
          simp only [size_entrySet] at hjs
          rw [keyAt_swap a s i _ hss hi, keyAt_swap a s i _ hss hi]
          have hpjlt : parent j < j := by unfold parent; omega
          by_cases hjs' : j = s
          · -- j = s, parent = i
            subst hjs'
            have e1 : parent j ≠ j := by omega
            simp only [hps, e1, if_true, if_false]
            have : i ≠ j := by omega
            simp [this]; omega
          · by_cases hji : j = i
            · subst hji
              have e1 : parent j ≠ s := by omega
              have e2 : parent j ≠ j := by omega
              simp only [hjs', e1, e2, if_true, if_false]
              exact h2 s (by omega) hss hps hj0
            · simp only [hjs', hji, if_false]
              by_cases hpji : parent j = i
              · have e1 : parent j ≠ s := by omega
                simp only [hpji, if_true]
                have e2 : i ≠ s := by omega
                simp only [e2, if_false]
                exact hsib j hj0 hjs hpji
              · simp only [hpj, hpji, if_false]
                exact h1 j hj0 hjs hpji
        · intro j hj0 hjs hpj hs0
          simp only [size_entrySet] at hjs
          rw [keyAt_swap a s i _ hss hi, keyAt_swap a s i _ hss hi]
          have hjgt : s < j := by unfold parent at hpj; omega
          have e1 : j ≠ s := by omega
          have e2 : j ≠ i := by omega
          have e3 : parent s ≠ s := by omega
          simp only [e1, e2, hps, if_false, if_true]
          have e4 : i ≠ s := by omega
          simp only [e4, if_false]
          have := h1 j hj0 hjs (by omega)
          rw [hpj] at this; exact this
      · simp [size_entrySet]

/-! ### contents of the heap as a multiset of (id, expiry) pairs -/

def idKey (e : Entry) : Nat × Nat := (e.id, e.key)

/-- the (id, expiry) pairs stored in the heap, in array order -/
def idKeys (a : Arr) : List (Nat × Nat) := a.toList.map idKey

theorem idKey_setPos (e : Entry) (i : Nat) : idKey { e with pos := i } = idKey e := rfl

theorem getElem?_entrySet (a : Arr) (i k : Nat) (e : Entry) :
    (entrySet a i e)[k]? = if i = k then (if i < a.size then some { e with pos := i } else none) else a[k]? := by
  simp [entrySet, Array.getElem?_setIfInBounds]

theorem get_some (a : Arr) (i : Nat) (h : i < a.size) : a[i]? = some (get a i) := by
  simp [get, Array.getElem?_eq_getElem h]

/-- one swap (two `entrySet`s) permutes the contents -/
theorem idKeys_swap (a : Arr) (i p : Nat) (hi : i < a.size) (hp : p < a.size) :
    (idKeys (entrySet (entrySet a p (get a i)) i (get a p))).Perm (idKeys a) := by
  have hp' : p < (a.map idKey).size := by simpa using hp
  have hi' : i < (a.map idKey).size := by simpa using hi
  have hsw : (entrySet (entrySet a p (get a i)) i (get a p)).map idKey
      = (a.map idKey).swap p i hp' hi' := by
    apply Array.ext_getElem?
    intro k
    rw [Array.getElem?_map, getElem?_entrySet, size_entrySet, getElem?_entrySet, Array.getElem?_swap]
    by_cases h1 : i = k
    · subst h1
      simp [hi, get_eq_getElem a p hp, idKey_setPos]
    · by_cases h2 : p = k
      · subst h2
        simp [h1, hp, get_eq_getElem a i hi, idKey_setPos]
      · simp [h1, h2]
  have := (Array.swap_perm (xs := a.map idKey) hp' hi').toList
  rw [← hsw] at this
  simpa [idKeys, Array.toList_map] using this

theorem idKeys_siftUp (a : Arr) (i : Nat) (hi : i < a.size) : (idKeys (siftUp a i)).Perm (idKeys a) := by
  induction i using Nat.strongRecOn generalizing a with
  | _ i ih =>
    rw [siftUp]
    split
    · simp only
      split
      · have hp : parent i < a.size := by unfold parent; omega
        exact (ih (parent i) (by unfold parent; omega) _ (by simpa [size_entrySet] using hp)).trans
          (idKeys_swap a i (parent i) hi hp)
      · exact List.Perm.refl _
    · exact List.Perm.refl _

theorem idKeys_siftDown (a : Arr) (i : Nat) (hi : i < a.size) : (idKeys (siftDown a i)).Perm (idKeys a) := by
  induction hn : a.size - i using Nat.strongRecOn generalizing a i with
  | _ n ih =>
    rw [siftDown]
    simp only
    split
    · exact List.Perm.refl _
    · rename_i hs
      have hc := smallest_cases a i
      have hss : smallest a i < a.size := by omega
      exact (ih (a.size - smallest a i) (by omega) _ (smallest a i) (by simpa [size_entrySet] using hss)
          (by simp [size_entrySet])).trans (idKeys_swap a (smallest a i) i hss hi)

/-! ### `heapDelete` -/

theorem keyAt_del (a : Arr) (e j : Nat) (he : e < a.size) (hj : j < a.size - 1) :
    keyAt ((entrySet a e (get a (a.size - 1))).pop) j
      = if j = e then keyAt a (a.size - 1) else keyAt a j := by
  unfold keyAt
  rw [get_pop _ _ (by simpa [size_entrySet] using hj), get_entrySet _ _ _ _ he]
  by_cases h : j = e <;> simp [h]

theorem size_heapDelete (a : Arr) (entry : Entry) : (heapDelete a entry).size = a.size - 1 := by
  unfold heapDelete
  simp only
  split
  · simp [size_siftUp, size_entrySet]
  · split
    · simp [size_siftDown, size_entrySet]
    · simp [size_entrySet]

theorem backOk_pop {a : Arr} (h : BackOk a) : BackOk a.pop := by
  intro j hj
  rw [Array.size_pop] at hj
  rw [get_pop _ _ hj]; exact h j (by omega)

theorem backOk_heapDelete {a : Arr} (h : BackOk a) (entry : Entry) : BackOk (heapDelete a entry) := by
  unfold heapDelete
  simp only
  have h2 : BackOk ((entrySet a entry.pos (get a (a.size - 1))).pop) := backOk_pop (backOk_entrySet h _ _)
  split
  · exact backOk_siftUp h2 _
  · split
    · exact backOk_siftDown h2 _
    · exact h2

/-- `timerlist_heap_delete` of a timer that sits at its `heap_pos` keeps the heap ordered -/
theorem ord_heapDelete {a : Arr} (h : Ord a) (entry : Entry) (hpos : entry.pos < a.size)
    (hent : get a entry.pos = entry) : Ord (heapDelete a entry) := by
  unfold heapDelete
  simp only
  have hek : keyAt a entry.pos = entry.key := by unfold keyAt; rw [hent]
  have hrk : (get a (a.size - 1)).key = keyAt a (a.size - 1) := rfl
  generalize hedef : entry.pos = e at *
  have hsz : ((entrySet a e (get a (a.size - 1))).pop).size = a.size - 1 := by simp [size_entrySet]
  by_cases hlast : e = a.size - 1
  · -- the deleted timer is the last element: replacement = entry, nothing to restore
    have hc0 : cmp (get a (a.size - 1)) entry = 0 := by
      unfold cmp; rw [hrk, ← hlast, hek]; simp
    rw [hc0]; simp only [Int.lt_irrefl, if_false, gt_iff_lt]
    intro j hj0 hjs
    rw [hsz] at hjs
    have hpj : parent j < j := by unfold parent; omega
    rw [keyAt_del a e j hpos hjs, keyAt_del a e _ hpos (by omega)]
    have e1 : j ≠ e := by omega
    have e2 : parent j ≠ e := by omega
    simp only [e1, e2, if_false]
    exact h j hj0 (by omega)
  · have helt : e < a.size - 1 := by omega
    split
    · rename_i hc
      have hck : keyAt a (a.size - 1) < entry.key := by rw [← hrk]; exact (cmp_lt_zero _ _).1 hc
      apply ord_siftUp e (by rw [hsz]; exact helt)
      constructor
      · intro j hj0 hjs hje
        rw [hsz] at hjs
        have hpj : parent j < j := by unfold parent; omega
        rw [keyAt_del a e j hpos hjs, keyAt_del a e _ hpos (by omega)]
        simp only [hje, if_false]
        have := h j hj0 (by omega)
        by_cases hp : parent j = e
        · simp only [hp, if_true]; rw [hp] at this; omega
        · simp only [hp, if_false]; exact this
      · intro j hj0 hjs hpj he0
        rw [hsz] at hjs
        have hpe : parent e < e := by unfold parent; omega
        rw [keyAt_del a e j hpos hjs, keyAt_del a e _ hpos (by omega)]
        have e1 : j ≠ e := by unfold parent at hpj; omega
        have e2 : parent e ≠ e := by omega
        simp only [e1, e2, if_false]
        have h1 := h j hj0 (by omega)
        have h2 := h e he0 hpos
        rw [hpj] at h1; omega
    · rename_i hc
      split
      · rename_i hc2
        have hck : keyAt a (a.size - 1) > entry.key := by rw [← hrk]; exact (cmp_gt_zero _ _).1 hc2
        apply ord_siftDown e (by rw [hsz]; exact helt)
        constructor
        · intro j hj0 hjs hpj
          rw [hsz] at hjs
          have hpjlt : parent j < j := by unfold parent; omega
          rw [keyAt_del a e j hpos hjs, keyAt_del a e _ hpos (by omega)]
          simp only [hpj, if_false]
          have := h j hj0 (by omega)
          by_cases hje : j = e
          · simp only [hje, if_true]; rw [hje] at this; omega
          · simp only [hje, if_false]; exact this
        · intro j hj0 hjs hpj he0
          rw [hsz] at hjs
          have hpe : parent e < e := by unfold parent; omega
          rw [keyAt_del a e j hpos hjs, keyAt_del a e _ hpos (by omega)]
          have e1 : j ≠ e := by unfold parent at hpj; omega
          have e2 : parent e ≠ e := by omega
          simp only [e1, e2, if_false]
          have h1 := h j hj0 (by omega)
          have h2 := h e he0 hpos
          rw [hpj] at h1; omega
      · rename_i hc2
        have hck : keyAt a (a.size - 1) = entry.key := by
          have h1 : ¬ keyAt a (a.size - 1) < entry.key := fun hlt => hc (by rw [← hrk] at hlt; exact (cmp_lt_zero _ _).2 hlt)
          have h2 : ¬ keyAt a (a.size - 1) > entry.key := fun hgt => hc2 (by rw [← hrk] at hgt; exact (cmp_gt_zero _ _).2 hgt)
          omega
        intro j hj0 hjs
        rw [hsz] at hjs
        have hpj : parent j < j := by unfold parent; omega
        rw [keyAt_del a e j hpos hjs, keyAt_del a e _ hpos (by omega)]
        have := h j hj0 (by omega)
        by_cases hje : j = e
        · subst hje
          have e2 : parent j ≠ j := by omega
          simp only [e2, if_true, if_false]; omega
        · by_cases hp : parent j = e
          · simp only [hje, hp, if_true, if_false]; rw [hp] at this; omega
          · simp only [hje, hp, if_false]; exact this

/-- removing the timer at index `e` (swap with last, shrink) removes exactly that timer -/
theorem idKeys_del (a : Arr) (e : Nat) (he : e < a.size) :
    (idKeys a).Perm (idKey (get a e) :: idKeys ((entrySet a e (get a (a.size - 1))).pop)) := by
  have hl : a.size - 1 < a.size := by omega
  have he' : e < (a.map idKey).size := by simpa using he
  have hl' : a.size - 1 < (a.map idKey).size := by simpa using hl
  have hsw : (((entrySet a e (get a (a.size - 1))).pop).map idKey).push (idKey (get a e))
      = (a.map idKey).swap e (a.size - 1) he' hl' := by
    apply Array.ext_getElem?
    intro k
    rw [Array.getElem?_push, Array.getElem?_map, Array.getElem?_pop, getElem?_entrySet, Array.getElem?_swap]
    simp only [Array.size_map, Array.size_pop, size_entrySet]
    by_cases h1 : k = a.size - 1
    · subst h1
      simp [get_eq_getElem a e he]
    · have h1' : ¬ a.size - 1 = k := fun h => h1 h.symm
      simp only [h1, h1', if_false]
      by_cases h2 : e = k
      · subst h2
        have : e < a.size - 1 := by omega
        simp [this, he, get_eq_getElem a _ hl, idKey_setPos]
      · simp only [h2, if_false]
        by_cases h3 : k < a.size - 1
        · simp [h3]
        · have : a.size ≤ k := by omega
          simp [h3, Array.getElem?_eq_none this]
  have hperm := (Array.swap_perm (xs := a.map idKey) he' hl').toList
  rw [← hsw] at hperm
  have h2 : (idKeys a).Perm (idKeys ((entrySet a e (get a (a.size - 1))).pop) ++ [idKey (get a e)]) := by
    simpa [idKeys, Array.toList_map] using hperm.symm
  exact h2.trans (List.perm_append_singleton _ _)

theorem idKeys_heapDelete (a : Arr) (entry : Entry) (hpos : entry.pos < a.size)
    (hent : get a entry.pos = entry) :
    (idKeys a).Perm (idKey entry :: idKeys (heapDelete a entry)) := by
  have hbase := idKeys_del a entry.pos hpos
  rw [hent] at hbase
  unfold heapDelete
  simp only
  by_cases hlast : entry.pos = a.size - 1
  · have hc0 : cmp (get a (a.size - 1)) entry = 0 := by
      unfold cmp; rw [← hlast, hent]; simp
    rw [hc0]; simpa using hbase
  · have hlt : entry.pos < ((entrySet a entry.pos (get a (a.size - 1))).pop).size := by
      simp [size_entrySet]; omega
    split
    · exact hbase.trans ((idKeys_siftUp _ _ hlt).symm.cons _)
    · split
      · exact hbase.trans ((idKeys_siftDown _ _ hlt).symm.cons _)
      · exact hbase

/-! ### `Heap.add` (array part) -/

/-- the array after `timerlist_add` of a timer with the given id and expiry -/
def addArr (a : Arr) (id key : Nat) : Arr :=
  siftUp (a.push { id := id, key := key, pos := a.size }) ((a.push { id := id, key := key, pos := a.size }).size - 1)

theorem Heap.add_a (h : Heap) (id key : Nat) : (h.add id key).a = addArr h.a id key := rfl

theorem size_addArr (a : Arr) (id key : Nat) : (addArr a id key).size = a.size + 1 := by
  simp [addArr, size_siftUp]

theorem ord_addArr {a : Arr} (h : Ord a) (id key : Nat) : Ord (addArr a id key) := by
  unfold addArr
  apply ord_siftUp
  · simp
  · simp only [Array.size_push, Nat.add_sub_cancel]
    constructor
    · intro j hj0 hjs hjne
      rw [Array.size_push] at hjs
      have hj : j < a.size := by omega
      have hpj : parent j < a.size := by unfold parent; omega
      unfold keyAt
      rw [get_push_lt _ _ _ hj, get_push_lt _ _ _ hpj]
      exact h j hj0 hj
    · intro j hj0 hjs hpj _
      rw [Array.size_push] at hjs
      exfalso; unfold parent at hpj; omega

theorem backOk_addArr {a : Arr} (h : BackOk a) (id key : Nat) : BackOk (addArr a id key) := by
  unfold addArr
  apply backOk_siftUp
  intro j hj
  rw [Array.size_push] at hj
  by_cases hlt : j < a.size
  · rw [get_push_lt _ _ _ hlt]; exact h j hlt
  · have : j = a.size := by omega
    subst this; rw [get_push_eq]

theorem idKeys_addArr (a : Arr) (id key : Nat) : (idKeys (addArr a id key)).Perm ((id, key) :: idKeys a) := by
  unfold addArr
  refine (idKeys_siftUp _ _ (by simp)).trans ?_
  simp only [idKeys, Array.toList_push, List.map_append, List.map_cons, List.map_nil]
  exact List.perm_append_singleton _ _

/-! ### the root is the minimum -/

theorem root_le {a : Arr} (h : Ord a) (j : Nat) (hj : j < a.size) : keyAt a 0 ≤ keyAt a j := by
  induction j using Nat.strongRecOn with
  | _ j ih =>
    by_cases h0 : j = 0
    · subst h0; exact Nat.le_refl _
    · have hp : parent j < j := by unfold parent; omega
      exact Nat.le_trans (ih (parent j) hp (by omega)) (h j (by omega) hj)

theorem mem_idKeys_iff (a : Arr) (x : Nat × Nat) : x ∈ idKeys a ↔ ∃ j, j < a.size ∧ idKey (get a j) = x := by
  unfold idKeys
  rw [List.mem_map]
  constructor
  · rintro ⟨e, he, rfl⟩
    rw [Array.mem_toList_iff, Array.mem_iff_getElem] at he
    obtain ⟨j, hj, rfl⟩ := he
    exact ⟨j, hj, by rw [get_eq_getElem a j hj]⟩
  · rintro ⟨j, hj, rfl⟩
    refine ⟨a[j], ?_, by rw [get_eq_getElem a j hj]⟩
    rw [Array.mem_toList_iff]; exact Array.getElem_mem hj

/-- every stored expiry is at least the root's -/
theorem root_le_of_mem {a : Arr} (h : Ord a) (x : Nat × Nat) (hx : x ∈ idKeys a) : keyAt a 0 ≤ x.2 := by
  obtain ⟨j, hj, rfl⟩ := (mem_idKeys_iff a x).1 hx
  exact root_le h j hj

/-! ### `expireLoop` -/

/-- heap order + back-pointers + no timer stored twice -/
structure Inv (a : Arr) : Prop where
  ord : Ord a
  back : BackOk a
  nodup : ((idKeys a).map Prod.fst).Nodup

theorem Inv.empty : Inv #[] :=
  ⟨fun j _ hj => absurd hj (by simp), fun j hj => absurd hj (by simp), by simp [idKeys]⟩

theorem Inv.heapDelete {a : Arr} (h : Inv a) (entry : Entry) (hpos : entry.pos < a.size)
    (hent : get a entry.pos = entry) : Inv (heapDelete a entry) := by
  refine ⟨ord_heapDelete h.ord entry hpos hent, backOk_heapDelete h.back entry, ?_⟩
  have hp := (idKeys_heapDelete a entry hpos hent).map Prod.fst
  have := (hp.nodup_iff).1 h.nodup
  rw [List.map_cons, List.nodup_cons] at this
  exact this.2

theorem Inv.addArr {a : Arr} (h : Inv a) (id key : Nat) (hfresh : id ∉ (idKeys a).map Prod.fst) :
    Inv (addArr a id key) := by
  refine ⟨ord_addArr h.ord id key, backOk_addArr h.back id key, ?_⟩
  have hp := (idKeys_addArr a id key).map Prod.fst
  rw [hp.nodup_iff, List.map_cons, List.nodup_cons]
  exact ⟨hfresh, h.nodup⟩

/-- the root entry sits at its own `heap_pos` -/
theorem Inv.root_ok {a : Arr} (h : Inv a) (hs : 0 < a.size) :
    (get a 0).pos < a.size ∧ get a (get a 0).pos = get a 0 := by
  have := h.back 0 hs
  rw [this]; exact ⟨hs, rfl⟩

/-- `expireLoop` started with accumulator `acc` returns `acc.reverse ++` the newly fired timers -/
theorem expireLoop_acc (fuel : Nat) (a : Arr) (now : Nat) (acc : List Entry) :
    expireLoop fuel a now acc = ((expireLoop fuel a now []).1, acc.reverse ++ (expireLoop fuel a now []).2) := by
  induction fuel generalizing a acc with
  | zero => simp [expireLoop]
  | succ n ih =>
    simp only [expireLoop]
    by_cases h1 : a.size > 0
    · by_cases h2 : (get a 0).key < now
      · simp only [h1, h2, if_true]
        rw [ih _ (get a 0 :: acc), ih _ [get a 0]]
        simp
      · simp [h1, h2]
    · simp [h1]

/-- unfolding of one round of `timerlist_expire`'s loop -/
theorem expireLoop_succ (fuel : Nat) (a : Arr) (now : Nat) :
    expireLoop (fuel + 1) a now [] =
      if a.size > 0 ∧ (get a 0).key < now then
        ((expireLoop fuel (heapDelete a (get a 0)) now []).1,
         get a 0 :: (expireLoop fuel (heapDelete a (get a 0)) now []).2)
      else (a, []) := by
  conv => lhs; unfold expireLoop
  by_cases h1 : a.size > 0
  · by_cases h2 : (get a 0).key < now
    · simp only [h1, h2, if_true, and_self]
      rw [expireLoop_acc]; simp
    · simp [h1, h2]
  · simp [h1]

theorem expireLoop_spec (fuel : Nat) (a : Arr) (now : Nat) (h : Inv a) (hf : a.size ≤ fuel) :
    let r := expireLoop fuel a now []
    Inv r.1 ∧
    (idKeys a).Perm (r.2.map idKey ++ idKeys r.1) ∧
    (∀ e ∈ r.2, e.key < now) ∧
    (∀ x ∈ idKeys r.1, ¬ x.2 < now) ∧
    r.2.Pairwise (fun x y => x.key ≤ y.key) := by
  induction fuel generalizing a with
  | zero =>
    have : a.size = 0 := by omega
    have hnil : idKeys a = [] := by
      unfold idKeys; rw [List.map_eq_nil_iff]; exact Array.toList_eq_nil_iff.2 (Array.size_eq_zero_iff.1 this) |> fun h => h
    simp [expireLoop, h, hnil]
  | succ n ih =>
    simp only
    rw [expireLoop_succ]
    by_cases hc : a.size > 0 ∧ (get a 0).key < now
    · rw [if_pos hc]
      obtain ⟨hs, hk⟩ := hc
      obtain ⟨hpos, hent⟩ := h.root_ok hs
      have hinv := h.heapDelete (get a 0) hpos hent
      have hsz := size_heapDelete a (get a 0)
      have hperm := idKeys_heapDelete a (get a 0) hpos hent
      obtain ⟨i1, i2, i3, i4, i5⟩ := ih (heapDelete a (get a 0)) hinv (by omega)
      refine ⟨i1, ?_, ?_, i4, ?_⟩
      · simp only [List.map_cons, List.cons_append]
        exact hperm.trans (i2.cons _)
      · intro e he
        rcases List.mem_cons.1 he with rfl | he
        · exact hk
        · exact i3 e he
      · rw [List.pairwise_cons]
        refine ⟨fun e he => ?_, i5⟩
        -- e was stored in the heap after the delete, hence in the heap before: ≥ root
        have hmem : idKey e ∈ idKeys (heapDelete a (get a 0)) :=
          (i2.mem_iff).2 (List.mem_append_left _ (List.mem_map_of_mem he))
        have hmem2 : idKey e ∈ idKeys a := (hperm.mem_iff).2 (List.mem_cons_of_mem _ hmem)
        exact root_le_of_mem h.ord _ hmem2
    · rw [if_neg hc]
      refine ⟨h, by simp, by simp, ?_, by simp⟩
      intro x hx
      by_cases hs : a.size > 0
      · have hr := root_le_of_mem h.ord x hx
        have : ¬ (get a 0).key < now := fun hlt => hc ⟨hs, hlt⟩
        unfold keyAt at hr; omega
      · obtain ⟨j, hj, _⟩ := (mem_idKeys_iff a x).1 hx
        omega

end QbVerif.Heap
