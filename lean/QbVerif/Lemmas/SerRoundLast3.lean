/-
C14, overflow at the level of the whole format: when the record `fmt ++ [0] ++ encOf items` does
not fit `max_len`, the encoder's final return value is `≥ max_len` (`serialize_over`; together with
`ser_within_max` of Props/C14.lean: exactly `max_len`).  Assembles the per-item overflow halves of
`SerGoal` (Lemmas/SerBig.lean, SerRoundEnc.lean) by induction over the items, for every marker
position (none / inside / last, the last through the merge simulation of Lemmas/SerRoundLast.lean).
-/
import QbVerif.Lemmas.SerRoundLast2

namespace QbVerif.Ser
open QbVerif.Gen

/-- the encoder on a whole format whose arguments do not fit: the run ends "over" -/
theorem serRun_items_over (maxLen : Nat) (items : List Item) : ∀ (s : SerSt) (out : Bytes) (rest : List Arg) (tail : Bytes),
    SerSync s out (argsOf items ++ rest) → WellTyped items → ¬ out.length + (encOf items).length ≤ maxLen →
    SerOver maxLen (serRun R maxLen s (fmtOf items ++ tail)) := by
  induction items with
  | nil =>
    intro s out rest tail h _ hfit
    simp only [encOf, List.flatMap_nil, List.length_nil, Nat.add_zero] at hfit
    exact serRun_over _ _ _ _ (Or.inr ⟨h.ret, by rw [h.loc]; omega⟩)
  | cons i items ih =>
    intro s out rest tail h hwf hfit
    have hwi : i.wf = true := hwf i (by simp)
    have hwr : WellTyped items := fun j hj => hwf j (by simp [hj])
    simp only [argsOf, encOf, fmtOf, List.flatMap_cons, List.append_assoc, List.length_append] at h hfit ⊢
    have g := serGoal_item maxLen s out i (List.flatMap Item.args items ++ rest)
      (List.flatMap Item.chars items ++ tail) h hwi
    by_cases hi : out.length + i.enc.length ≤ maxLen
    · obtain ⟨s1, e1, h1⟩ := g.1 hi
      rw [e1]
      exact ih s1 (out ++ i.enc) rest tail h1 hwr (by simp only [List.length_append, encOf]; omega)
    · exact g.2 hi

theorem serFinal_over (maxLen : Nat) (s : SerSt) (h : SerOver maxLen s) : maxLen ≤ (serFinal maxLen s).ret := by
  rcases h with h | ⟨h, hl⟩
  · simp [serFinal, h]
  · simp [serFinal, h, hl]

theorem SerOver.congr {maxLen : Nat} {s t : SerSt} (hr : s.ret = t.ret) (hl : s.loc = t.loc) (h : SerOver maxLen t) :
    SerOver maxLen s := by
  unfold SerOver at *
  rw [hr, hl]; exact h

theorem Merge.ret_loc {D : Bytes} {s s' t' : SerSt} (h : Merge D s s' t') : s'.ret = t'.ret ∧ s'.loc = t'.loc := by
  rcases h with h | ⟨h, _, _⟩
  · rw [h]; exact ⟨rfl, rfl⟩
  · rw [h]; exact ⟨rfl, rfl⟩

theorem xcPatch_loc_ge (cfg : Cfg) (maxLen : Nat) (stored : Bytes) (b : Buf) (loc : Nat) (h : maxLen ≤ loc) :
    maxLen ≤ (xcPatch cfg maxLen stored b loc).2 := by
  unfold xcPatch
  simp only
  split
  · split
    · exact h
    · have : ¬ (loc < maxLen) := by omega
      simp [this, h]
  · exact h

/-- a format that, with its NUL, fills or exceeds `max_len`: `location ≥ max_len` from the start -/
theorem serInit_over (cfg : Cfg) (fmt : Bytes) (args : List Arg) (maxLen : Nat) (hm : 1 ≤ maxLen)
    (h : maxLen ≤ (cstr fmt).length + 1) : SerOver maxLen (serInit cfg fmt args maxLen) := by
  refine Or.inr ⟨rfl, ?_⟩
  unfold serInit
  simp only
  apply xcPatch_loc_ge
  have hsub : subSz maxLen 1 = maxLen - 1 := subSz_of_le hm
  simp only [myStrlcpy, hsub]
  omega

/-- **the record does not fit ⇒ the return value is at least `max_len`**, for every well-typed
    format (whatever the position of the marker) -/
theorem serialize_over (items : List Item) (maxLen : Nat) (hwf : WellTyped items) (hm : 1 ≤ maxLen)
    (hover : maxLen < (recordOf items).length) :
    maxLen ≤ (serialize R (fmtOf items) (argsOf items) maxLen).ret := by
  have hz : (0 : UInt8) ∉ fmtOf items := fmt_no_zero items hwf
  have hc : cstr (fmtOf items) = fmtOf items := cstr_self _ hz
  unfold recordOf at hover
  simp only [List.length_append, List.length_singleton] at hover
  unfold serialize
  apply serFinal_over
  rw [hc]
  by_cases hfmt : maxLen ≤ (fmtOf items).length + 1
  · exact serRun_over _ _ _ _ (serInit_over R _ _ maxLen hm (by rw [hc]; exact hfmt))
  by_cases hlast : (fmtOf items).findIdx (· = QB_XC.toUInt8) + 1 = (fmtOf items).length
  · -- the format ends in the marker: `location = |F| + 1`, buffer `F ++ [0, 0]`
    obtain ⟨F, hF, hxF⟩ := last_marker_split _ _ hlast
    have hlen : (fmtOf items).length = F.length + 1 := by rw [hF]; simp
    obtain ⟨i1, i2, i3, i4, i5, i6⟩ := serInit_last F (argsOf items) maxLen (by rw [← hF]; exact hz) hxF (by omega)
    rw [← hF] at i1 i2 i3 i4 i5 i6
    have hl : F.length + 2 < maxLen := by omega
    simp only [hl, if_true] at i2
    have hsync : SerSync (rebuf (serInit R (fmtOf items) (argsOf items) maxLen) (F ++ [0])) (F ++ [0])
        (argsOf items ++ []) :=
      ⟨i4, i5, i6, rfl, by simp [rebuf, i2], by simp [rebuf, i3]⟩
    obtain ⟨hr, hloc⟩ := (serRun_merge maxLen (F ++ [0]) 0 (fmtOf items) _ i1 (by simp [i2])).ret_loc
    refine SerOver.congr hr hloc ?_
    by_cases hfit : (F ++ [0]).length + (encOf items).length ≤ maxLen
    · obtain ⟨s', e, hs'⟩ := serRun_items maxLen items _ (F ++ [0]) [] [] hsync hwf hfit
      rw [List.append_nil] at e
      simp only [serRun] at e
      rw [e]
      refine Or.inr ⟨hs'.ret, ?_⟩
      rw [hs'.loc]
      simp only [List.length_append, List.length_singleton] at hfit ⊢
      omega
    · have := serRun_items_over maxLen items _ (F ++ [0]) [] [] hsync hwf hfit
      rwa [List.append_nil] at this
  · have hinit := serInit_sync_xc items maxLen hwf (by omega) hlast
    have hl : (fmtOf (xcItems items)).length = (fmtOf items).length := by
      rw [fmtOf_xcItems items hwf, List.length_set]
    have := serRun_items_over maxLen items _ (fmtOf (xcItems items) ++ [0]) [] [] (by simpa using hinit) hwf
      (by simp only [List.length_append, List.length_singleton, hl]; omega)
    rwa [List.append_nil] at this

end QbVerif.Ser
