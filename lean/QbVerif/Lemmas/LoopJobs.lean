/-
C08: the job invariant of Model/Loop.lean.  Every `qb_loop_job_add` gets a fresh allocation id (`aid`);
`JInv`: the ids in the ghost dispatch log and the ids pending on the three levels (job list then wait list =
dispatch order) are pairwise different, below the allocation counter, and increasing within a level.
`JLe s s'`: the step s → s' added no job and dispatched nothing (pending ids only shrink).  Core Lean only.
-/
import QbVerif.Lemmas.LoopWalk2

namespace QbVerif.Loop
open QbVerif.Gen

def jobAid : Item → Option Nat
  | .job a _ => some a
  | _ => none

def aids (l : List Item) : List Nat := l.filterMap jobAid

/-- allocation ids of the jobs pending on a level, in dispatch order -/
def pendOf (l : Level) : List Nat := aids (l.jobs ++ l.wait)

/-- allocation ids of the jobs that were dispatched (newest first) -/
def St.dAids (s : St) : List Nat := aids (s.dlog.map Prod.fst)

def St.allIds (s : St) : List Nat := s.dAids ++ (pendOf s.lo ++ (pendOf s.me ++ pendOf s.hi))

structure JInv (s : St) : Prop where
  nodup : s.allIds.Nodup
  lt : ∀ a ∈ s.allIds, a < s.nextAid
  slo : (pendOf s.lo).Pairwise (· < ·)
  sme : (pendOf s.me).Pairwise (· < ·)
  shi : (pendOf s.hi).Pairwise (· < ·)

structure JLe (s s' : St) : Prop where
  lo : (pendOf s'.lo).Sublist (pendOf s.lo)
  me : (pendOf s'.me).Sublist (pendOf s.me)
  hi : (pendOf s'.hi).Sublist (pendOf s.hi)
  dlog : s'.dAids = s.dAids
  next : s.nextAid ≤ s'.nextAid

theorem JLe.refl (s : St) : JLe s s := ⟨List.Sublist.refl _, List.Sublist.refl _, List.Sublist.refl _, rfl, Nat.le_refl _⟩

theorem JLe.trans {a b c : St} (h1 : JLe a b) (h2 : JLe b c) : JLe a c :=
  ⟨h2.lo.trans h1.lo, h2.me.trans h1.me, h2.hi.trans h1.hi, h2.dlog.trans h1.dlog, Nat.le_trans h1.next h2.next⟩

theorem JLe.of_eq {s s' : St} (h1 : s'.lo = s.lo) (h2 : s'.me = s.me) (h3 : s'.hi = s.hi) (h4 : s'.dlog = s.dlog)
    (h5 : s.nextAid ≤ s'.nextAid) : JLe s s' := by
  refine ⟨?_, ?_, ?_, by unfold St.dAids; rw [h4], h5⟩
  · rw [h1]; exact List.Sublist.refl _
  · rw [h2]; exact List.Sublist.refl _
  · rw [h3]; exact List.Sublist.refl _

theorem JInv.mono {s s' : St} (h : JInv s) (l : JLe s s') : JInv s' := by
  have hsub : s'.allIds.Sublist s.allIds := by
    unfold St.allIds
    rw [l.dlog]
    exact (List.Sublist.refl _).append (l.lo.append (l.me.append l.hi))
  exact ⟨h.nodup.sublist hsub, fun a ha => Nat.lt_of_lt_of_le (h.lt a (hsub.subset ha)) l.next,
    h.slo.sublist l.lo, h.sme.sublist l.me, h.shi.sublist l.hi⟩

/-! ### levels -/

theorem setLv_lo (s : St) (p : Nat) (l : Level) : (s.setLv p l).lo = if p = QB_LOOP_LOW then l else s.lo := by
  unfold St.setLv; split <;> (try split) <;> simp_all

theorem setLv_me (s : St) (p : Nat) (l : Level) :
    (s.setLv p l).me = if p = QB_LOOP_LOW then s.me else if p = QB_LOOP_MED then l else s.me := by
  unfold St.setLv; split <;> (try split) <;> simp_all

theorem setLv_hi (s : St) (p : Nat) (l : Level) :
    (s.setLv p l).hi = if p = QB_LOOP_LOW then s.hi else if p = QB_LOOP_MED then s.hi else l := by
  unfold St.setLv; split <;> (try split) <;> simp_all

/-- replacing level `p` by one whose pending jobs are a sublist of the old ones -/
theorem JLe.setLv (s : St) (p : Nat) (l : Level) (h : (pendOf l).Sublist (pendOf (s.lv p))) :
    JLe s (s.setLv p l) := by
  unfold St.lv at h
  refine ⟨?_, ?_, ?_, by simp [St.dAids], by simp⟩
  · rw [setLv_lo]; split
    · simp_all
    · exact List.Sublist.refl _
  · rw [setLv_me]; split
    · exact List.Sublist.refl _
    · split
      · simp_all
      · exact List.Sublist.refl _
  · rw [setLv_hi]; split
    · exact List.Sublist.refl _
    · split
      · exact List.Sublist.refl _
      · simp_all

theorem aids_sublist {a b : List Item} (h : a.Sublist b) : (aids a).Sublist (aids b) := h.filterMap _

theorem pendOf_sub {l l' : Level} (hj : l'.jobs.Sublist l.jobs) (hw : l'.wait.Sublist l.wait) :
    (pendOf l').Sublist (pendOf l) := aids_sublist (hj.append hw)

/-- `qb_loop_level_item_del` -/
theorem itemDel_jle (s : St) (p : Nat) (it : Item) : JLe s (s.itemDel p it) := by
  unfold St.itemDel
  split
  · refine JLe.trans (b := { s with lo := { s.lo with jobs := s.lo.jobs.erase it },
                                    me := { s.me with jobs := s.me.jobs.erase it },
                                    hi := { s.hi with jobs := s.hi.jobs.erase it } }) ?_ ?_
    · exact ⟨pendOf_sub List.erase_sublist (List.Sublist.refl _), pendOf_sub List.erase_sublist (List.Sublist.refl _),
        pendOf_sub List.erase_sublist (List.Sublist.refl _), rfl, Nat.le_refl _⟩
    · apply JLe.setLv
      exact pendOf_sub (List.Sublist.refl _) (List.Sublist.refl _)
  · exact JLe.refl s

/-- `qb_loop_level_item_add` of anything that is not a job -/
theorem itemAdd_jle (s : St) (p : Nat) (it : Item) (h : jobAid it = none) : JLe s (s.itemAdd p it) := by
  unfold St.itemAdd
  apply JLe.setLv
  simp [pendOf, aids, List.filterMap_append, h]

end QbVerif.Loop
