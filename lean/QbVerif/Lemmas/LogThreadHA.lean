import QbVerif.Lemmas.LogThreadH

/-! `HInv` is preserved by every step of an application thread (controller or producer). -/
namespace QbVerif.LogThread

set_option linter.unusedSimpArgs false
set_option linter.unusedVariables false

theorem destroyAll_hist (cfg : Cfg) (s : St) (h : HInv s) : HInv (destroyAll cfg s) := by
  unfold destroyAll
  split
  · exact h.crash _
  · exact h.crash _
  · split
    · split
      · exact h.congr rfl rfl rfl rfl rfl rfl rfl rfl rfl rfl rfl rfl rfl
      · exact h.congr rfl rfl rfl rfl rfl rfl rfl rfl rfl rfl rfl rfl rfl
    · exact h.crash _

theorem destroyAll_c (cfg : Cfg) (s : St) : (destroyAll cfg s).c = s.c := by
  unfold destroyAll
  split
  · rfl
  · rfl
  · split
    · split <;> rfl
    · rfl

theorem destroyAll_p (cfg : Cfg) (s : St) : (destroyAll cfg s).p = s.p := by
  unfold destroyAll
  split
  · rfl
  · rfl
  · split
    · split <;> rfl
    · rfl

/-- closes `HInv s'` when `s'` differs from `s` in non-history fields and in the stepping thread's
    program counter, both old and new counter not being `logLock` -/
local macro "hcongr " h:ident " using " hpc:ident : tactic =>
  `(tactic| exact HInv.congr $h rfl rfl rfl rfl rfl rfl
      (by first | rfl | simp [$hpc:ident, APc.pending, St.ret, St.setPc, St.setApp, St.app, St.emit, finiRest,
                              destroyAll_c, destroyAll_p, ctlBody])
      (by first | rfl | simp [$hpc:ident, APc.pending, St.ret, St.setPc, St.setApp, St.app, St.emit, finiRest,
                              destroyAll_c, destroyAll_p, ctlBody])
      rfl rfl rfl rfl rfl)

theorem ctlBody_hist (s : St) (en : Option Bool) (h : HInv s) : HInv (ctlBody s en) := by
  unfold ctlBody
  split
  · exact h.congr rfl rfl rfl rfl rfl rfl rfl rfl rfl rfl rfl rfl rfl
  · exact h

/-- beginning an operation other than `log` -/
theorem hinv_beginOp_other (cfg : Cfg) (s : St) (i : AppId) (op : Op) (h : HInv s)
    (hpc : (s.app i).pc = .idle) (hop : op.isLog = false) : HInv (beginOp cfg s i op) := by
  cases i <;> simp only [St.app] at hpc <;> cases op <;> simp only [Op.isLog] at hop <;> try contradiction
  all_goals unfold beginOp
  all_goals simp only [ctlBody]
  all_goals (repeat' split)
  all_goals
    first
    | hcongr h using hpc
    | exact HInv.crash h _
    | exact HInv.crash (by hcongr h using hpc) _
    | exact hinv_lockCheck _ _ h (by hcongr h using hpc)
    | exact hinv_lockCheck _ _ (by hcongr h using hpc) (by hcongr h using hpc)
    | skip

/-- beginning a `log` operation: a sequence number is allocated; the message is ignored, written by the
    caller, or the caller parks at the lock of `qb_log_thread_log_post` -/
theorem hinv_beginOp_log (cfg : Cfg) (s : St) (i : AppId) (len : Nat) (h : HInv s)
    (hpc : (s.app i).pc = .idle) : HInv (beginOp cfg s i (.log len)) := by
  obtain ⟨h1, h2, h3, h4, h5, h6, h7, h8, h9⟩ := h
  have hb : ∀ x ∈ s.accepted, x < s.nextSeq + 1 := fun x hx => Nat.lt_succ_of_lt (h5 x hx)
  have h6' : ∀ r, s.c.pc = .logLock r → r.seq < s.nextSeq + 1 ∧ ∀ x ∈ s.accepted, x < r.seq :=
    fun r hr => ⟨Nat.lt_succ_of_lt (h6 r hr).1, (h6 r hr).2⟩
  have h7' : ∀ r, s.p.pc = .logLock r → r.seq < s.nextSeq + 1 ∧ ∀ x ∈ s.accepted, x < r.seq :=
    fun r hr => ⟨Nat.lt_succ_of_lt (h7 r hr).1, (h7 r hr).2⟩
  cases i <;> simp only [St.app] at hpc <;> unfold beginOp <;>
    simp only [St.emit, St.lockCheck, St.ret, St.setPc, St.setApp, St.app, St.crash] <;>
    (repeat' (first | (apply HInv.ite <;> intro _) | split))
  all_goals
    constructor <;>
    simp only [St.ret, St.setPc, St.setApp, St.app, St.emit, St.crash, List.length_cons, hpc, APc.pend_idle,
      APc.pend_logLock, AppId.tid] at * <;>
    first
    | assumption
    | omega
    | (intro r hr; cases hr; done)
    | (intro r hr; cases hr; exact ⟨Nat.lt_succ_self _, h5⟩)
    | (intro hr; cases hr; done)
    | (intro hr; have h9' := h9 hr; omega)

end QbVerif.LogThread
