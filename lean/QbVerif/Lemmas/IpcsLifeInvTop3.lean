import QbVerif.Lemmas.IpcsLifeInvTop2
import QbVerif.Lemmas.IpcsLifeInvConn2

/-! C04 — the part of the history invariant every call preserves (`Core`), bracket bookkeeping,
    and the two dispatch flows (one request; hang-up). -/
namespace QbVerif.IpcsLife

structure Core (s : St) : Prop where
  inv : Inv s
  fresh : ∀ i, s.nconn < i → (s.conns i).phase = .none
  nodup : s.list.Nodup
  bound : ∀ c, c ∈ s.list → c ≤ s.nconn
  lnn : ∀ c, c ∈ s.list → (s.conns c).phase ≠ .none

/-- no library bracket holds a reference -/
def NB (s : St) : Prop := ∀ i, Brs (s.conns i) = (false, false, false)

theorem Core.le {s : St} (h : Core s) {c : Nat} (hn : (s.conns c).phase ≠ .none) : c ≤ s.nconn := by
  apply Classical.byContradiction
  intro hc
  exact hn (h.fresh c (by omega))

theorem Core.exec {s : St} (h : Core s) (f : Nat) (call : Call) (hok : CallOk s call) :
    Core (exec f s call) ∧ Frame s (exec f s call) := by
  have hg := good_all f s call h.inv hok
  refine ⟨⟨hg.1, fun i hi => (hg.2 i).non (h.fresh i (by rw [exec_nconn] at hi; exact hi)),
    h.nodup.sublist (exec_sublist f s call), fun c hc => ?_,
    fun c hc => (hg.2 c).nn (h.lnn c ((exec_sublist f s call).subset hc))⟩, hg.2⟩
  rw [exec_nconn]; exact h.bound c ((exec_sublist f s call).subset hc)

theorem Core.updOf {s s' : St} {c : Nat} {k' : Conn} (h : Core s) (hu : UpdOf s c k' s')
    (hn : s'.nconn = s.nconn) (hi' : Inv s') (hcn : (s.conns c).phase ≠ .none)
    (hnn : k'.phase ≠ .none) : Core s' where
  inv := hi'
  fresh i hi := by
    rw [hn] at hi
    have : i ≠ c := fun e => by subst e; exact hcn (h.fresh _ hi)
    rw [hu.other i this]; exact h.fresh i hi
  nodup := by rw [hu.list]; exact h.nodup
  bound x hx := by rw [hn]; rw [hu.list] at hx; exact h.bound x hx
  lnn x hx := by
    rw [hu.list] at hx
    by_cases hc : x = c
    · subst hc; rw [hu.at_c]; exact hnn
    · rw [hu.other x hc]; exact h.lnn x hx

theorem Core.same {s s' : St} (h : Core s) (hs : Same s s') (hn : s'.nconn = s.nconn) : Core s' where
  inv := hs.inv h.inv
  fresh i hi := by rw [hs.conns]; rw [hn] at hi; exact h.fresh i hi
  nodup := by rw [hs.list]; exact h.nodup
  bound x hx := by rw [hn]; rw [hs.list] at hx; exact h.bound x hx
  lnn x hx := by rw [hs.conns]; rw [hs.list] at hx; exact h.lnn x hx

theorem Frame.brs {s s' : St} (h : Frame s s') (i : Nat) : Brs (s'.conns i) = Brs (s.conns i) := (h i).brs

theorem NB.frame {s s' : St} (h : NB s) (hf : Frame s s') : NB s' := fun i => by rw [hf.brs i]; exact h i

/-- only the dispatch bracket of `c` holds a reference -/
def BrD (s : St) (c : Nat) : Prop :=
  ∀ i, Brs (s.conns i) = if i = c then (false, true, false) else (false, false, false)

theorem BrD.frame {s s' : St} {c : Nat} (h : BrD s c) (hf : Frame s s') : BrD s' c :=
  fun i => by rw [hf.brs i]; exact h i

theorem brOpenD_ok {s : St} (h : Core s) (c : Nat) (hh : s.halt = false) (hnb : NB s)
    (hn : (s.conns c).phase ≠ .none) (hd : (s.conns c).phase ≠ .dead) :
    Core (brOpenD s c) ∧ (brOpenD s c).halt = false ∧ BrD (brOpenD s c) c ∧
    ((brOpenD s c).conns c).st = (s.conns c).st := by
  have hb : (s.conns c).brDispatch = false := by have := hnb c; simp [Brs] at this; exact this.2.1
  obtain ⟨hp, hfr, h1, h2⟩ := (h.inv.conn c).refD hb hn hd _ rfl
  have he : brOpenD s c = s.upd c fun k => { k with rc := k.rc + 1, brDispatch := true } := by
    unfold brOpenD; simp only [h.inv.fix.2.1, ↓reduceIte]; exact ref_eq s c _ hh hfr
  rw [he]
  have hu := updOf_upd s c fun k => { k with rc := k.rc + 1, brDispatch := true }
  have hi' := hu.inv h.inv hp (fun hx => by rw [h1]; exact h.inv.lst c hx) (by rw [h2])
  refine ⟨h.updOf hu rfl hi' hn (by rw [h1]; exact hn), hh, fun i => ?_, by simp⟩
  by_cases hc : i = c
  · subst hc
    have := hnb i; simp [Brs] at this
    simp [Brs, this]
  · simp [hc]; exact hnb i

theorem brCloseD_ok {s : St} (h : Core s) (c : Nat) (hh : s.halt = false) (hb : BrD s c) :
    Core (brCloseD s c) ∧ CallOk (brCloseD s c) (.zero c) ∧ NB (brCloseD s c) := by
  have hbc := hb c; simp [Brs] at hbc
  obtain ⟨hp, hrc, hfr, h1, hn, hd, h2⟩ := (h.inv.conn c).decD hbc.2.1 _ rfl
  have he : brCloseD s c = s.upd c fun k => { k with rc := k.rc - 1, brDispatch := false } := by
    unfold brCloseD; exact dec_eq s c _ hh hfr hrc
  rw [he]
  have hu := updOf_upd s c fun k => { k with rc := k.rc - 1, brDispatch := false }
  have hi' := hu.inv h.inv hp (fun hx => by rw [h1]; exact h.inv.lst c hx) (by rw [h2])
  refine ⟨h.updOf hu rfl hi' hn (by rw [h1]; exact hn), ?_, fun i => ?_⟩
  · simp [CallOk]; exact ⟨hn, hd⟩
  · by_cases hc : i = c
    · subst hc; simp [Brs, hbc]
    · have := hb i; simp [hc] at this; simp [hc, this]

/-- the end of both dispatch flows: drop the dispatch reference, then the tail of unref -/
theorem dispatchEnd_ok {s : St} (h : Core s) (c : Nat) (hh : s.halt = false) (hb : BrD s c) :
    Core (exec FUEL (brCloseD s c) (.zero c)) ∧ NB (exec FUEL (brCloseD s c) (.zero c)) := by
  obtain ⟨h1, h2, h3⟩ := brCloseD_ok h c hh hb
  have he := h1.exec FUEL (.zero c) h2
  exact ⟨he.1, h3.frame he.2⟩

theorem dispatchHup_ok {s : St} (h : Core s) (c : Nat) (hh : s.halt = false) (hnb : NB s)
    (hst : (s.conns c).st = .established) :
    Core (dispatchHup s c) ∧ ((dispatchHup s c).halt = false → NB (dispatchHup s c)) := by
  obtain ⟨hfr, hn, hd⟩ := (h.inv.conn c).established hst
  obtain ⟨h1, hh1, hb1, _⟩ := brOpenD_ok h c hh hnb hn hd
  have hbr : ((brOpenD s c).conns c).brDispatch = true := by have := hb1 c; simp [Brs] at this; exact this.2.1
  have hf1 := ((h1.inv.conn c).bracket (Or.inr (Or.inl hbr))).1
  have he := h1.exec FUEL (.disc c) hf1
  unfold dispatchHup
  simp only [hh1, Bool.false_eq_true, ↓reduceIte]
  by_cases h2 : (exec FUEL (brOpenD s c) (.disc c)).halt = true
  · simp only [h2, ↓reduceIte]
    exact ⟨he.1, fun hx => by cases hx⟩
  · have h2' : (exec FUEL (brOpenD s c) (.disc c)).halt = false := by simpa using h2
    simp only [h2', Bool.false_eq_true, ↓reduceIte, he.1.inv.fix.2.1]
    have := dispatchEnd_ok he.1 c h2' (hb1.frame he.2)
    exact ⟨this.1, fun _ => this.2⟩

theorem dispatchMsg_ok {s : St} (h : Core s) (c : Nat) (hh : s.halt = false) (hnb : NB s)
    (hst : (s.conns c).st = .established) :
    Core (dispatchMsg s c) ∧ ((dispatchMsg s c).halt = false → NB (dispatchMsg s c)) := by
  obtain ⟨hfr, hn, hd⟩ := (h.inv.conn c).established hst
  obtain ⟨h1, hh1, hb1, hst1⟩ := brOpenD_ok h c hh hnb hn hd
  have hsp := same_pop (brOpenD s c) .msg
  generalize hp : (brOpenD s c).pop .msg = p at hsp
  -- msg_process invoked
  obtain ⟨hpm, hfm, hphm, hclm⟩ := (h1.inv.conn c).msg (by rw [hst1]; exact hst) _ rfl
  have hu : UpdOf (brOpenD s c) c (monitor .msg 0 ((brOpenD s c).conns c)) (p.2.cb .msg c 0) :=
    ⟨by simp [cb_eq, hsp.conns], fun i hi => by simp [cb_eq, hsp.conns, hi], hsp.list, hsp.jobs, hsp.f1, hsp.f2, hsp.f3⟩
  have hi2 := hu.inv h1.inv hpm (fun hx => by rw [hphm]; exact h1.inv.lst c hx) (by rw [hclm])
  have hn1 : ((brOpenD s c).conns c).phase ≠ .none := by
    have hbr : ((brOpenD s c).conns c).brDispatch = true := by have := hb1 c; simp [Brs] at this; exact this.2.1
    exact ((h1.inv.conn c).bracket (Or.inr (Or.inl hbr))).2.1
  have h2 : Core (p.2.cb .msg c 0) := h1.updOf hu (by simp [← hp]) hi2 hn1 (by rw [hphm]; exact hn1)
  have hb2 : BrD (p.2.cb .msg c 0) c := hb1.frame (hu.frame hfm)
  have he := h2.exec FUEL (.ops c p.1.ops) trivial
  have hb3 := hb2.frame he.2
  unfold dispatchMsg
  simp only [hh1, Bool.false_eq_true, ↓reduceIte, hp]
  by_cases h3 : (exec FUEL (p.2.cb .msg c 0) (.ops c p.1.ops)).halt = true
  · simp only [h3, ↓reduceIte]
    exact ⟨he.1, fun hx => by cases hx⟩
  · have h3' : (exec FUEL (p.2.cb .msg c 0) (.ops c p.1.ops)).halt = false := by simpa using h3
    have hbr : ((exec FUEL (p.2.cb .msg c 0) (.ops c p.1.ops)).conns c).brDispatch = true := by
      have := hb3 c; simp [Brs] at this; exact this.2.1
    have hf3 := ((he.1.inv.conn c).bracket (Or.inr (Or.inl hbr))).1
    simp only [h3', touch_eq _ c hf3, Bool.false_eq_true, ↓reduceIte, he.1.inv.fix.2.1]
    have := dispatchEnd_ok he.1 c h3' hb3
    exact ⟨this.1, fun _ => this.2⟩

end QbVerif.IpcsLife
